import Solvor.Mst.KruskalLemmas
/-!
Mst: helper lemmas, part 4 – the loop invariant of the Prim mirror.

Besides the usual tree invariant (the accepted edges join exactly the nodes of `in_mst`, the heap
holds every arc that leaves `in_mst`) the invariant carries the *bottleneck* clause `bott`:
whenever two tree nodes are joined in the input by edges of weight `≤ t`, they are joined by tree
edges of weight `≤ t`.  On the full node set this is the cycle-property certificate `MinCert`,
which `msf_cycle_cert` turns into minimality.  The clause is preserved because the entry popped
from the heap is a least-weight arc leaving `in_mst`.
-/
namespace Solvor.Mst

/-! ### the heap -/

theorem hLe_refl (a : HItem) : hLe a a = true := by simp [hLe]

theorem hLe_trans {a b c : HItem} (h1 : hLe a b = true) (h2 : hLe b c = true) : hLe a c = true := by
  simp only [hLe, Bool.or_eq_true, Bool.and_eq_true, decide_eq_true_eq] at *
  omega

theorem hLe_total (a b : HItem) : hLe a b = true ∨ hLe b a = true := by
  simp only [hLe, Bool.or_eq_true, Bool.and_eq_true, decide_eq_true_eq]
  omega

theorem hLe_w {a b : HItem} (h : hLe a b = true) : a.w ≤ b.w := by
  simp only [hLe, Bool.or_eq_true, Bool.and_eq_true, decide_eq_true_eq] at h
  omega

theorem popMin_none {h : List HItem} : popMin h = none ↔ h = [] := by
  cases h with
  | nil => simp [popMin]
  | cons x xs =>
    simp only [popMin]
    cases popMin xs with
    | none => simp
    | some p => obtain ⟨m, r⟩ := p; simp only; split <;> simp

theorem popMin_some : ∀ {h : List HItem} {m : HItem} {r : List HItem}, popMin h = some (m, r) →
    h.Perm (m :: r) ∧ ∀ x ∈ h, hLe m x = true := by
  intro h
  induction h with
  | nil => intro m r hp; simp [popMin] at hp
  | cons x xs ih =>
    intro m r hp
    simp only [popMin] at hp
    cases hq : popMin xs with
    | none =>
      rw [hq] at hp
      simp only [Option.some.injEq, Prod.mk.injEq] at hp
      obtain ⟨rfl, rfl⟩ := hp
      have : xs = [] := popMin_none.1 hq
      subst this
      exact ⟨List.Perm.refl _, fun y hy => by
        have : y = x := by simpa using hy
        subst this; exact hLe_refl _⟩
    | some p =>
      obtain ⟨m', r'⟩ := p
      rw [hq] at hp
      obtain ⟨hperm, hmin⟩ := ih hq
      simp only at hp
      split at hp
      · rename_i hle
        simp only [Option.some.injEq, Prod.mk.injEq] at hp
        obtain ⟨rfl, rfl⟩ := hp
        refine ⟨List.Perm.cons _ hperm, ?_⟩
        intro y hy
        rcases List.mem_cons.1 hy with rfl | hy
        · exact hLe_refl _
        · exact hLe_trans hle (hmin y hy)
      · rename_i hnle
        simp only [Option.some.injEq, Prod.mk.injEq] at hp
        obtain ⟨rfl, rfl⟩ := hp
        refine ⟨(List.Perm.cons x hperm).trans (List.Perm.swap _ _ _), ?_⟩
        intro y hy
        rcases List.mem_cons.1 hy with hyx | hy
        · rw [hyx]
          exact (hLe_total _ _).resolve_left hnle
        · exact hmin y hy

theorem mkItems_length (src c : Nat) (nb : List (Nat × Int)) : (mkItems src c nb).length = nb.length := by
  induction nb generalizing c with
  | nil => rfl
  | cons p nb ih => obtain ⟨y, w⟩ := p; simp [mkItems, ih]

theorem mkItems_complete (src : Nat) (nb : List (Nat × Int)) : ∀ (c : Nat) (p : Nat × Int), p ∈ nb →
    ∃ it ∈ mkItems src c nb, it.w = p.2 ∧ it.u = src ∧ it.v = p.1 := by
  induction nb with
  | nil => intro c p hp; cases hp
  | cons q nb ih =>
    intro c p hp
    obtain ⟨y, w⟩ := q
    rcases List.mem_cons.1 hp with rfl | hp
    · exact ⟨⟨w, c, src, y⟩, by simp [mkItems], rfl, rfl, rfl⟩
    · obtain ⟨it, hit, h⟩ := ih (c + 1) p hp
      exact ⟨it, by simp [mkItems, hit], h⟩

theorem mkItems_sound (src : Nat) (nb : List (Nat × Int)) : ∀ (c : Nat) (it : HItem), it ∈ mkItems src c nb →
    it.u = src ∧ (it.v, it.w) ∈ nb := by
  induction nb with
  | nil => intro c it hit; simp [mkItems] at hit
  | cons q nb ih =>
    intro c it hit
    obtain ⟨y, w⟩ := q
    simp only [mkItems, List.mem_cons] at hit
    rcases hit with rfl | hit
    · exact ⟨rfl, by simp⟩
    · have := ih (c + 1) it hit
      exact ⟨this.1, List.mem_cons_of_mem _ this.2⟩

/-! ### the input -/

/-- what the harness guarantees of the adjacency structure: every neighbour is a key, and the
graph is undirected (each edge is listed from both ends with the same weight) -/
structure GoodAdj (adj : Adj) : Prop where
  wf : ∀ u, ∀ p ∈ adj.nbrs u, p.1 < adj.length
  sym : ∀ u, ∀ p ∈ adj.nbrs u, (u, p.2) ∈ adj.nbrs p.1

theorem mem_arcsFrom (adj : Adj) : ∀ (u0 : Nat) (e : Edge),
    e ∈ arcsFrom u0 adj ↔ u0 ≤ e.u ∧ (e.v, e.w) ∈ adj.getD (e.u - u0) [] := by
  induction adj with
  | nil => intro u0 e; simp [arcsFrom]
  | cons nb rest ih =>
    intro u0 e
    simp only [arcsFrom, List.mem_append, List.mem_map, ih]
    constructor
    · rintro (⟨p, hp, rfl⟩ | ⟨h1, h2⟩)
      · simpa using hp
      · refine ⟨by omega, ?_⟩
        have : e.u - u0 = (e.u - (u0 + 1)) + 1 := by omega
        rw [this, List.getD_cons_succ]; exact h2
    · rintro ⟨h1, h2⟩
      by_cases h : e.u = u0
      · left
        refine ⟨(e.v, e.w), ?_, ?_⟩
        · simpa [h] using h2
        · cases e; simp_all
      · right
        refine ⟨by omega, ?_⟩
        have : e.u - u0 = (e.u - (u0 + 1)) + 1 := by omega
        rw [this, List.getD_cons_succ] at h2; exact h2

theorem mem_arcs {adj : Adj} {e : Edge} : e ∈ arcs adj ↔ (e.v, e.w) ∈ adj.nbrs e.u := by
  simp [arcs, mem_arcsFrom, Adj.nbrs]

theorem nbrs_lt {adj : Adj} {u : Nat} {p : Nat × Int} (h : p ∈ adj.nbrs u) : u < adj.length := by
  unfold Adj.nbrs at h
  by_cases hu : u < adj.length
  · exact hu
  · rw [List.getD_eq_getElem?_getD, List.getElem?_eq_none (by omega)] at h; cases h

theorem GoodAdj.valid {adj : Adj} (h : GoodAdj adj) : Valid adj.length (arcs adj) := by
  intro e he
  have := mem_arcs.1 he
  exact ⟨nbrs_lt this, h.wf _ _ this⟩

theorem GoodAdj.rev {adj : Adj} (h : GoodAdj adj) {e : Edge} (he : e ∈ arcs adj) : (⟨e.v, e.u, e.w⟩ : Edge) ∈ arcs adj := by
  have := h.sym _ _ (mem_arcs.1 he)
  exact mem_arcs.2 this

/-! ### crossing a cut -/

/-- a walk from inside `P` to outside `P` uses an edge with one end inside and one end outside -/
theorem Conn.cross {F : List Edge} {P : Nat → Prop} {a b : Nat} (h : Conn F a b) (ha : P a) (hb : ¬ P b) :
    ∃ e ∈ F, ∃ p q, ((e.u = p ∧ e.v = q) ∨ (e.v = p ∧ e.u = q)) ∧ P p ∧ ¬ P q ∧ Conn F a p ∧ Conn F q b := by
  induction h with
  | refl => exact absurd ha hb
  | @fwd e he hc ih =>
    by_cases hp : P e.u
    · exact ⟨e, he, e.u, e.v, Or.inl ⟨rfl, rfl⟩, hp, hb, hc, Conn.refl _⟩
    · obtain ⟨e', he', p, q, hpq, h1, h2, h3, h4⟩ := ih hp
      exact ⟨e', he', p, q, hpq, h1, h2, h3, Conn.fwd he h4⟩
  | @bwd e he hc ih =>
    by_cases hp : P e.v
    · exact ⟨e, he, e.v, e.u, Or.inr ⟨rfl, rfl⟩, hp, hb, hc, Conn.refl _⟩
    · obtain ⟨e', he', p, q, hpq, h1, h2, h3, h4⟩ := ih hp
      exact ⟨e', he', p, q, hpq, h1, h2, h3, Conn.bwd he h4⟩

/-! ### the loop invariant -/

abbrev light (t : Int) (F : List Edge) : List Edge := F.filter fun f => decide (f.w ≤ t)

theorem mem_light {t : Int} {F : List Edge} {e : Edge} : e ∈ light t F ↔ e ∈ F ∧ e.w ≤ t := by
  simp [light]

structure PInv (adj : Adj) (start : Nat) (s : PState) : Prop where
  nodup : s.inT.Nodup
  lt : ∀ x ∈ s.inT, x < adj.length
  start_mem : start ∈ s.inT
  sub : ∀ e ∈ s.acc, e ∈ arcs adj
  conn : ∀ a ∈ s.inT, Conn s.acc start a
  card : s.acc.length + 1 = s.inT.length
  total : s.total = weight s.acc
  hcomp : ∀ x ∈ s.inT, ∀ p ∈ adj.nbrs x, p.1 ∉ s.inT → ∃ it ∈ s.heap, it.w = p.2 ∧ it.u = x ∧ it.v = p.1
  hsound : ∀ it ∈ s.heap, it.u ∈ s.inT ∧ (it.v, it.w) ∈ adj.nbrs it.u
  bott : ∀ x ∈ s.inT, ∀ y ∈ s.inT, ∀ t : Int, Conn (light t (arcs adj)) x y → Conn (light t s.acc) x y

theorem pinv_init {adj : Adj} {start : Nat} (hs : start < adj.length) : PInv adj start (pinit adj start) where
  nodup := by simp [pinit]
  lt := by intro x hx; have : x = start := by simpa [pinit] using hx
           subst this; exact hs
  start_mem := by simp [pinit]
  sub := by intro e he; simp [pinit] at he
  conn := by intro a ha; have : a = start := by simpa [pinit] using ha
             subst this; exact Conn.refl _
  card := by simp [pinit]
  total := rfl
  hcomp := by
    intro x hx p hp _
    have : x = start := by simpa [pinit] using hx
    subst this
    exact mkItems_complete x _ 0 p hp
  hsound := by
    intro it hit
    have := mkItems_sound start _ 0 it (by simpa [pinit] using hit)
    simp only [pinit, List.mem_singleton]
    exact ⟨this.1, this.1 ▸ this.2⟩
  bott := by
    intro x hx y hy t _
    have hx' : x = start := by simpa [pinit] using hx
    have hy' : y = start := by simpa [pinit] using hy
    subst hx' hy'; exact Conn.refl _

/-- popping an entry whose target is already in the tree -/
theorem pinv_skip {adj : Adj} {start : Nat} {s : PState} (h : PInv adj start s) {it : HItem} {rest : List HItem}
    (hperm : s.heap.Perm (it :: rest)) (hin : it.v ∈ s.inT) :
    PInv adj start { s with heap := rest, iters := s.iters + 1 } where
  nodup := h.nodup
  lt := h.lt
  start_mem := h.start_mem
  sub := h.sub
  conn := h.conn
  card := h.card
  total := h.total
  hcomp := by
    intro x hx p hp hnot
    obtain ⟨it', hit', h1, h2, h3⟩ := h.hcomp x hx p hp hnot
    refine ⟨it', ?_, h1, h2, h3⟩
    rcases List.mem_cons.1 (hperm.mem_iff.1 hit') with rfl | hr
    · exact absurd (h3 ▸ hin) hnot
    · exact hr
  hsound := fun it' hit' => h.hsound it' (hperm.mem_iff.2 (List.mem_cons_of_mem _ hit'))
  bott := h.bott

/-- popping a least entry whose target is new: the tree grows by that edge -/
theorem pinv_accept {adj : Adj} (hg : GoodAdj adj) {start : Nat} {s : PState} (h : PInv adj start s)
    {it : HItem} {rest : List HItem} (hperm : s.heap.Perm (it :: rest)) (hmin : ∀ x ∈ s.heap, hLe it x = true)
    (hnew : it.v ∉ s.inT) :
    PInv adj start ⟨it.v :: s.inT, s.acc ++ [⟨it.u, it.v, it.w⟩], s.total + it.w,
      s.counter + (mkItems it.v s.counter ((adj.nbrs it.v).filter fun p => !(it.v :: s.inT).contains p.1)).length,
      rest ++ mkItems it.v s.counter ((adj.nbrs it.v).filter fun p => !(it.v :: s.inT).contains p.1),
      s.iters + 1,
      s.evals + (mkItems it.v s.counter ((adj.nbrs it.v).filter fun p => !(it.v :: s.inT).contains p.1)).length⟩ := by
  have hit : it ∈ s.heap := hperm.mem_iff.2 List.mem_cons_self
  obtain ⟨hu, harc⟩ := h.hsound it hit
  have hf : (⟨it.u, it.v, it.w⟩ : Edge) ∈ arcs adj := mem_arcs.2 harc
  have hmono : ∀ {t : Int} {a b : Nat}, Conn (light t s.acc) a b →
      Conn (light t (s.acc ++ [⟨it.u, it.v, it.w⟩])) a b := by
    intro t a b hc
    refine Conn.mono ?_ hc
    intro e he
    have := mem_light.1 he
    exact mem_light.2 ⟨List.mem_append_left _ this.1, this.2⟩
  -- the key step of the bottleneck clause: old node `x`, new node `it.v`
  have key : ∀ x ∈ s.inT, ∀ t : Int, Conn (light t (arcs adj)) x it.v →
      Conn (light t (s.acc ++ [⟨it.u, it.v, it.w⟩])) x it.v := by
    intro x hx t hc
    obtain ⟨e, he, p, q, hpq, hp, hq, hxp, hqv⟩ := Conn.cross (P := fun z => z ∈ s.inT) hc hx hnew
    have hel := mem_light.1 he
    -- the crossing edge as an arc leaving the tree
    have hpq' : (q, e.w) ∈ adj.nbrs p := by
      rcases hpq with ⟨rfl, rfl⟩ | ⟨rfl, rfl⟩
      · exact mem_arcs.1 hel.1
      · exact mem_arcs.1 (hg.rev hel.1)
    obtain ⟨it', hit', hw', _, _⟩ := h.hcomp p hp (q, e.w) hpq' hq
    have hwle : it.w ≤ t := by
      have := hLe_w (hmin it' hit')
      simp only at hw'
      omega
    have hfl : (⟨it.u, it.v, it.w⟩ : Edge) ∈ light t (arcs adj) := mem_light.2 ⟨hf, hwle⟩
    -- p ~ q ~ it.v ~ it.u inside the light input edges, both ends in the tree
    have hpq_conn : Conn (light t (arcs adj)) p q := by
      rcases hpq with ⟨rfl, rfl⟩ | ⟨rfl, rfl⟩
      · exact Conn.edge he
      · exact Conn.edge' he
    have hpu : Conn (light t (arcs adj)) p it.u := (hpq_conn.trans hqv).trans (Conn.edge' hfl)
    have h1 := h.bott x hx p hp t hxp
    have h2 := h.bott p hp it.u hu t hpu
    have hfl' : (⟨it.u, it.v, it.w⟩ : Edge) ∈ light t (s.acc ++ [⟨it.u, it.v, it.w⟩]) :=
      mem_light.2 ⟨by simp, hwle⟩
    exact (hmono (h1.trans h2)).trans (Conn.edge hfl')
  exact
  { nodup := List.nodup_cons.2 ⟨hnew, h.nodup⟩
    lt := by
      intro x hx
      rcases List.mem_cons.1 hx with rfl | hx
      · exact hg.wf _ _ harc
      · exact h.lt x hx
    start_mem := List.mem_cons_of_mem _ h.start_mem
    sub := by
      intro e he
      rcases List.mem_append.1 he with he | he
      · exact h.sub e he
      · have : e = ⟨it.u, it.v, it.w⟩ := by simpa using he
        subst this; exact hf
    conn := by
      intro a ha
      have m : ∀ {b}, Conn s.acc start b → Conn (s.acc ++ [⟨it.u, it.v, it.w⟩]) start b :=
        fun hc => Conn.mono (fun _ hx => List.mem_append_left _ hx) hc
      rcases List.mem_cons.1 ha with rfl | ha
      · exact (m (h.conn _ hu)).trans (Conn.edge (e := ⟨it.u, it.v, it.w⟩) (by simp))
      · exact m (h.conn a ha)
    card := by simp [h.card]
    total := by
      show s.total + it.w = weight (s.acc ++ [⟨it.u, it.v, it.w⟩])
      rw [weight_append, h.total]; simp [weight]
    hcomp := by
      intro x hx p hp hnot
      have hne : p.1 ≠ it.v := fun heq => hnot (heq ▸ List.mem_cons_self)
      have hnot' : p.1 ∉ s.inT := fun hm => hnot (List.mem_cons_of_mem _ hm)
      rcases List.mem_cons.1 hx with rfl | hx
      · have hpf : p ∈ (adj.nbrs it.v).filter fun p => !(it.v :: s.inT).contains p.1 := by
          refine List.mem_filter.2 ⟨hp, ?_⟩
          simpa using ⟨hne, hnot'⟩
        obtain ⟨it', hit', h'⟩ := mkItems_complete it.v _ s.counter p hpf
        exact ⟨it', List.mem_append_right _ hit', h'⟩
      · obtain ⟨it', hit', h1, h2, h3⟩ := h.hcomp x hx p hp hnot'
        refine ⟨it', List.mem_append_left _ ?_, h1, h2, h3⟩
        rcases List.mem_cons.1 (hperm.mem_iff.1 hit') with rfl | hr
        · exact absurd h3 hne.symm
        · exact hr
    hsound := by
      intro it' hit'
      rcases List.mem_append.1 hit' with hr | hn
      · have := h.hsound it' (hperm.mem_iff.2 (List.mem_cons_of_mem _ hr))
        exact ⟨List.mem_cons_of_mem _ this.1, this.2⟩
      · have := mkItems_sound it.v _ s.counter it' hn
        refine ⟨this.1 ▸ List.mem_cons_self, ?_⟩
        rw [this.1]
        exact (List.mem_filter.1 this.2).1
    bott := by
      intro x hx y hy t hc
      rcases List.mem_cons.1 hx with rfl | hx <;> rcases List.mem_cons.1 hy with rfl | hy
      · exact Conn.refl _
      · exact (key y hy t hc.symm).symm
      · exact key x hx t hc
      · exact hmono (h.bott x hx y hy t hc) }

/-! ### termination: the fuel is enough -/

/-- arcs of the nodes not yet in the tree (`u0` = index of the first list) -/
def remDeg (inT : List Nat) : Nat → Adj → Nat
  | _, [] => 0
  | u, nb :: rest => (if u ∈ inT then 0 else nb.length) + remDeg inT (u + 1) rest

theorem remDeg_nil_le (adj : Adj) (inT : List Nat) : ∀ u0, remDeg inT u0 adj ≤ adj.size := by
  induction adj with
  | nil => intro u0; simp [remDeg, Adj.size]
  | cons nb rest ih =>
    intro u0
    have := ih (u0 + 1)
    simp only [remDeg, Adj.size, List.map_cons, List.sum_cons] at this ⊢
    split <;> omega

theorem remDeg_cons_lt (adj : Adj) (inT : List Nat) (v : Nat) : ∀ u0, v < u0 →
    remDeg (v :: inT) u0 adj = remDeg inT u0 adj := by
  induction adj with
  | nil => intro u0 _; rfl
  | cons nb rest ih =>
    intro u0 hv
    simp only [remDeg, List.mem_cons]
    rw [ih (u0 + 1) (by omega)]
    have : u0 ≠ v := by omega
    simp [this]

theorem remDeg_cons (adj : Adj) (inT : List Nat) (v : Nat) (hv : v ∉ inT) : ∀ u0, u0 ≤ v →
    remDeg (v :: inT) u0 adj + (adj.getD (v - u0) []).length = remDeg inT u0 adj := by
  induction adj with
  | nil => intro u0 _; simp [remDeg]
  | cons nb rest ih =>
    intro u0 hle
    simp only [remDeg, List.mem_cons]
    by_cases h : u0 = v
    · subst h
      rw [remDeg_cons_lt rest inT u0 (u0 + 1) (by omega)]
      simp [hv]
      omega
    · have hsub : v - u0 = (v - (u0 + 1)) + 1 := by omega
      rw [hsub, List.getD_cons_succ]
      have := ih (u0 + 1) (by omega)
      simp only [h, false_or]
      omega

/-- the loop's variant -/
def mu (adj : Adj) (s : PState) : Nat := s.heap.length + remDeg s.inT 0 adj

def PFinal (n : Nat) (s : PState) : Prop := ¬ s.inT.length < n ∨ s.heap = []

theorem ploop_inv {adj : Adj} (hg : GoodAdj adj) {start : Nat} : ∀ (fuel : Nat) (s : PState),
    PInv adj start s → mu adj s ≤ fuel →
    PInv adj start (ploop adj adj.length fuel s) ∧ PFinal adj.length (ploop adj adj.length fuel s) := by
  intro fuel
  induction fuel with
  | zero =>
    intro s h hmu
    refine ⟨h, Or.inr ?_⟩
    have : s.heap.length = 0 := by unfold mu at hmu; omega
    exact List.length_eq_zero_iff.1 this
  | succ fuel ih =>
    intro s h hmu
    unfold ploop
    split
    · cases hp : popMin s.heap with
      | none => exact ⟨h, Or.inr (popMin_none.1 hp)⟩
      | some pr =>
        obtain ⟨it, rest⟩ := pr
        obtain ⟨hperm, hmin⟩ := popMin_some hp
        have hlen : s.heap.length = rest.length + 1 := by simpa using hperm.length_eq
        simp only
        split
        · rename_i hc
          have hin : it.v ∈ s.inT := by simpa using hc
          apply ih _ (pinv_skip h hperm hin)
          unfold mu at hmu ⊢
          simp only
          omega
        · rename_i hc
          have hnew : it.v ∉ s.inT := by simpa using hc
          apply ih _ (pinv_accept hg h hperm hmin hnew)
          unfold mu at hmu ⊢
          simp only [List.length_append, mkItems_length]
          have h1 := remDeg_cons adj s.inT it.v hnew 0 (by omega)
          have h2 : ((adj.nbrs it.v).filter fun p => !(it.v :: s.inT).contains p.1).length
              ≤ (adj.getD (it.v - 0) []).length := by
            simpa [Adj.nbrs] using List.length_filter_le _ (adj.nbrs it.v)
          omega
    · rename_i hlt
      exact ⟨h, Or.inl hlt⟩

theorem mu_init_le (adj : Adj) (start : Nat) : mu adj (pinit adj start) ≤ adj.size + 1 := by
  unfold mu pinit
  simp only [mkItems_length]
  by_cases hs : start < adj.length
  · have h1 := remDeg_cons adj [] start (by simp) 0 (by omega)
    have h2 := remDeg_nil_le adj [] 0
    simp only [Adj.nbrs] at *
    simp only [Nat.sub_zero] at h1
    omega
  · have : adj.nbrs start = [] := by
      unfold Adj.nbrs; rw [List.getD_eq_getElem?_getD, List.getElem?_eq_none (by omega)]; rfl
    rw [this]
    have := remDeg_nil_le adj [start] 0
    simp; omega

/-- a duplicate-free list of `n` numbers below `n` contains every number below `n` -/
theorem nodup_full {l : List Nat} {n : Nat} (hnd : l.Nodup) (hlt : ∀ x ∈ l, x < n) (hlen : n ≤ l.length) :
    ∀ i, i < n → i ∈ l := by
  classical
  have hsub : l.toFinset ⊆ Finset.range n := by
    intro x hx; exact Finset.mem_range.2 (hlt x (List.mem_toFinset.1 hx))
  have hcard : l.toFinset.card = l.length := List.toFinset_card_of_nodup hnd
  have : l.toFinset = Finset.range n :=
    Finset.eq_of_subset_of_card_le hsub (by rw [hcard, Finset.card_range]; exact hlen)
  intro i hi
  exact List.mem_toFinset.1 (this ▸ Finset.mem_range.2 hi)

/-- the state the Prim loop ends in, on a well-formed undirected input -/
theorem prim_final {adj : Adj} (hg : GoodAdj adj) {start : Nat} (hs : start < adj.length) :
    PInv adj start (ploop adj adj.length (adj.size + 1) (pinit adj start)) ∧
    PFinal adj.length (ploop adj adj.length (adj.size + 1) (pinit adj start)) :=
  ploop_inv hg _ _ (pinv_init hs) (mu_init_le adj start)

/-- tree complete: the accepted edges form a spanning tree that satisfies the certificate -/
theorem pinv_full {adj : Adj} (hg : GoodAdj adj) {start : Nat} {s : PState} (h : PInv adj start s)
    (hfull : ¬ s.inT.length < adj.length) :
    IsSpanningTree adj.length (arcs adj) s.acc ∧ MinCert (arcs adj) s.acc := by
  have hall := nodup_full h.nodup h.lt (by omega)
  have hlen : s.inT.length = adj.length := by
    have hsub : s.inT.toFinset ⊆ Finset.range adj.length := by
      intro x hx; exact Finset.mem_range.2 (h.lt x (List.mem_toFinset.1 hx))
    have := Finset.card_le_card hsub
    rw [List.toFinset_card_of_nodup h.nodup, Finset.card_range] at this
    omega
  refine ⟨⟨h.sub, by have := h.card; omega, ?_⟩, ?_⟩
  · intro a b ha hb
    exact (h.conn a (hall a ha)).symm.trans (h.conn b (hall b hb))
  · intro e he
    have hv := hg.valid e he
    exact h.bott e.u (hall _ hv.1) e.v (hall _ hv.2) e.w (Conn.edge (mem_light.2 ⟨he, Int.le_refl _⟩))

/-- heap empty with nodes missing: the input is not connected -/
theorem pinv_stuck {adj : Adj} (hg : GoodAdj adj) {start : Nat} {s : PState} (h : PInv adj start s)
    (hlt : s.inT.length < adj.length) (hheap : s.heap = []) : ¬ Connected adj.length (arcs adj) := by
  intro hconn
  -- some node is missing
  have hex : ∃ z, z < adj.length ∧ z ∉ s.inT := by
    classical
    by_contra hno
    have hall : ∀ i, i < adj.length → i ∈ s.inT := fun i hi => by
      by_contra hni; exact hno ⟨i, hi, hni⟩
    have hsub : Finset.range adj.length ⊆ s.inT.toFinset := by
      intro x hx; exact List.mem_toFinset.2 (hall x (Finset.mem_range.1 hx))
    have := Finset.card_le_card hsub
    rw [List.toFinset_card_of_nodup h.nodup, Finset.card_range] at this
    omega
  obtain ⟨z, hz, hzn⟩ := hex
  have hc := hconn start z (h.lt _ h.start_mem) hz
  obtain ⟨e, he, p, q, hpq, hp, hq, _, _⟩ := Conn.cross (P := fun x => x ∈ s.inT) hc h.start_mem hzn
  have hpq' : (q, e.w) ∈ adj.nbrs p := by
    rcases hpq with ⟨rfl, rfl⟩ | ⟨rfl, rfl⟩
    · exact mem_arcs.1 he
    · exact mem_arcs.1 (hg.rev he)
  obtain ⟨it, hit, _⟩ := h.hcomp p hp (q, e.w) hpq' hq
  rw [hheap] at hit
  cases hit

open Solvor.Gen (Status) in
/-- the run of `prim` on a well-formed undirected input, by the state its loop ends in -/
theorem prim_cases {adj : Adj} (hg : GoodAdj adj) {start : Nat} (hs : start < adj.length) :
    (∃ acc, prim adj start = ⟨.OPTIMAL, some acc, some (weight acc),
        (ploop adj adj.length (adj.size + 1) (pinit adj start)).iters,
        (ploop adj adj.length (adj.size + 1) (pinit adj start)).evals⟩ ∧
      IsSpanningTree adj.length (arcs adj) acc ∧ MinCert (arcs adj) acc) ∨
    (prim adj start = ⟨.INFEASIBLE, none, none,
        (ploop adj adj.length (adj.size + 1) (pinit adj start)).iters,
        (ploop adj adj.length (adj.size + 1) (pinit adj start)).evals⟩ ∧
      ¬ Connected adj.length (arcs adj)) := by
  obtain ⟨hinv, hfin⟩ := prim_final hg hs
  have hne : adj.isEmpty = false := by
    cases adj with
    | nil => simp at hs
    | cons _ _ => rfl
  unfold prim
  simp only [hne, Bool.false_eq_true, if_false]
  by_cases hlt : (ploop adj adj.length (adj.size + 1) (pinit adj start)).inT.length < adj.length
  · right
    rcases hfin with h | h
    · exact absurd hlt h
    · exact ⟨by simp [hlt], pinv_stuck hg hinv hlt h⟩
  · left
    obtain ⟨htree, hcert⟩ := pinv_full hg hinv hlt
    exact ⟨_, by simp [hlt, hinv.total], htree, hcert⟩


end Solvor.Mst
