import Solvor.Mst.Spec
import Mathlib.Data.Finset.Card
import Mathlib.Data.Finset.Image
/-!
Mst: helper lemmas, part 1 – connectivity, component labels, component counting.
-/
namespace Solvor.Mst

/-- the constants read from `solvor/mst.py` are the ones the proofs are about -/
theorem breakOff_eq : breakOff = 1 := by decide
theorem shortOff_eq : shortOff = 1 := by decide

/-! ### `Conn` -/

theorem Conn.trans {F : List Edge} {a b c : Nat} (h₁ : Conn F a b) (h₂ : Conn F b c) : Conn F a c := by
  induction h₂ with
  | refl => exact h₁
  | fwd he _ ih => exact Conn.fwd he ih
  | bwd he _ ih => exact Conn.bwd he ih

theorem Conn.edge {F : List Edge} {e : Edge} (he : e ∈ F) : Conn F e.u e.v := Conn.fwd he (Conn.refl _)
theorem Conn.edge' {F : List Edge} {e : Edge} (he : e ∈ F) : Conn F e.v e.u := Conn.bwd he (Conn.refl _)

theorem Conn.symm {F : List Edge} {a b : Nat} (h : Conn F a b) : Conn F b a := by
  induction h with
  | refl => exact Conn.refl _
  | fwd he _ ih => exact (Conn.edge' he).trans ih
  | bwd he _ ih => exact (Conn.edge he).trans ih

/-- if every edge of `F` has its endpoints joined by `H`, everything `F` joins is joined by `H` -/
theorem Conn.of_edges {F H : List Edge} (h : ∀ e ∈ F, Conn H e.u e.v) {a b : Nat} (hab : Conn F a b) :
    Conn H a b := by
  induction hab with
  | refl => exact Conn.refl _
  | fwd he _ ih => exact ih.trans (h _ he)
  | bwd he _ ih => exact ih.trans (h _ he).symm

theorem Conn.mono {F H : List Edge} (h : ∀ e ∈ F, e ∈ H) {a b : Nat} (hab : Conn F a b) : Conn H a b :=
  Conn.of_edges (fun e he => Conn.edge (h e he)) hab

theorem conn_nil {a b : Nat} : Conn [] a b ↔ a = b := by
  constructor
  · intro h
    induction h with
    | refl => rfl
    | fwd he _ _ => cases he
    | bwd he _ _ => cases he
  · rintro rfl; exact Conn.refl _

/-- what one more edge `(u, v)` joins -/
theorem conn_snoc {F : List Edge} {e : Edge} {a b : Nat} :
    Conn (F ++ [e]) a b ↔
      Conn F a b ∨ (Conn F a e.u ∧ Conn F e.v b) ∨ (Conn F a e.v ∧ Conn F e.u b) := by
  constructor
  · intro h
    induction h with
    | refl => exact Or.inl (Conn.refl _)
    | @fwd e' he' _ ih =>
      rcases List.mem_append.1 he' with hF | hE
      · rcases ih with h | ⟨h1, h2⟩ | ⟨h1, h2⟩
        · exact Or.inl (Conn.fwd hF h)
        · exact Or.inr (Or.inl ⟨h1, Conn.fwd hF h2⟩)
        · exact Or.inr (Or.inr ⟨h1, Conn.fwd hF h2⟩)
      · have : e' = e := by simpa using hE
        subst this
        rcases ih with h | ⟨h1, h2⟩ | ⟨h1, _⟩
        · exact Or.inr (Or.inl ⟨h, Conn.refl _⟩)
        · exact Or.inl (h1.trans h2.symm)
        · exact Or.inl h1
    | @bwd e' he' _ ih =>
      rcases List.mem_append.1 he' with hF | hE
      · rcases ih with h | ⟨h1, h2⟩ | ⟨h1, h2⟩
        · exact Or.inl (Conn.bwd hF h)
        · exact Or.inr (Or.inl ⟨h1, Conn.bwd hF h2⟩)
        · exact Or.inr (Or.inr ⟨h1, Conn.bwd hF h2⟩)
      · have : e' = e := by simpa using hE
        subst this
        rcases ih with h | ⟨h1, _⟩ | ⟨h1, h2⟩
        · exact Or.inr (Or.inr ⟨h, Conn.refl _⟩)
        · exact Or.inl h1
        · exact Or.inl (h1.trans h2.symm)
  · have m : ∀ {x y}, Conn F x y → Conn (F ++ [e]) x y :=
      fun h => Conn.mono (fun _ h' => List.mem_append_left _ h') h
    have he : e ∈ F ++ [e] := by simp
    rintro (h | ⟨h1, h2⟩ | ⟨h1, h2⟩)
    · exact m h
    · exact ((m h1).trans (Conn.edge he)).trans (m h2)
    · exact ((m h1).trans (Conn.edge' he)).trans (m h2)

/-- nodes outside `0 … n-1` are joined to nothing else -/
theorem Conn.lt_of_valid {n : Nat} {F : List Edge} (hF : Valid n F) {a b : Nat} (h : Conn F a b) (hab : a ≠ b) :
    a < n ∧ b < n := by
  induction h with
  | refl => exact absurd rfl hab
  | @fwd e he hc ih =>
    refine ⟨?_, (hF e he).2⟩
    by_cases h' : a = e.u
    · rw [h']; exact (hF e he).1
    · exact (ih h').1
  | @bwd e he hc ih =>
    refine ⟨?_, (hF e he).1⟩
    by_cases h' : a = e.v
    · rw [h']; exact (hF e he).2
    · exact (ih h').1

/-! ### labels that represent a connectivity relation -/

/-- `lab` gives two nodes the same label exactly when `F` joins them -/
def Rep (lab : Lab) (F : List Edge) : Prop := ∀ i j, lab.f i = lab.f j ↔ Conn F i j

attribute [simp] union_f Lab.id_f

theorem rep_id : Rep Lab.id [] := fun i j => by simp [conn_nil]

theorem rep_union {lab : Lab} {F : List Edge} (h : Rep lab F) (e : Edge) :
    Rep (union lab e.u e.v) (F ++ [e]) := by
  intro i j
  rw [conn_snoc, ← h i j, ← h i e.u, ← h e.v j, ← h i e.v, ← h e.u j]
  simp only [union_f]
  by_cases hi : lab.f i = lab.f e.v <;> by_cases hj : lab.f j = lab.f e.v <;> simp only [hi, hj, if_true, if_false]
  · simp
  · constructor
    · intro h'; exact Or.inr (Or.inr ⟨trivial, h'⟩)
    · rintro (h' | ⟨h1, h2⟩ | ⟨_, h2⟩)
      · exact absurd h'.symm hj
      · exact absurd h2.symm hj
      · exact h2
  · constructor
    · intro h'; exact Or.inr (Or.inl ⟨h', trivial⟩)
    · rintro (h' | ⟨h1, _⟩ | ⟨h1, _⟩)
      · exact h'.elim
      · exact h1
      · exact h1.elim
  · constructor
    · intro h'; exact Or.inl h'
    · rintro (h' | ⟨_, h2⟩ | ⟨h1, _⟩)
      · exact h'
      · exact absurd h2.symm hj
      · exact h1.elim

theorem foldl_union_rep (G : List Edge) : ∀ (lab : Lab) (F : List Edge), Rep lab F →
    Rep (G.foldl (fun lab e => union lab e.u e.v) lab) (F ++ G) := by
  induction G with
  | nil => intro lab F h; simpa using h
  | cons e G ih =>
    intro lab F h
    have := ih _ _ (rep_union h e)
    simpa [List.append_assoc] using this

theorem labOf_rep (F : List Edge) : Rep (labOf F) F := by
  have := foldl_union_rep F Lab.id [] rep_id
  simpa [labOf] using this

theorem labOf_snoc (F : List Edge) (e : Edge) : labOf (F ++ [e]) = union (labOf F) e.u e.v := by
  simp [labOf, List.foldl_append]

/-! ### counting components -/

/-- number of distinct labels on the nodes `0 … n-1` -/
def cnt (n : Nat) (lab : Lab) : Nat := ((Finset.range n).image lab.f).card

theorem cnt_id (n : Nat) : cnt n Lab.id = n := by
  unfold cnt
  have : Lab.id.f = fun i => i := funext Lab.id_f
  rw [this]
  simp

theorem cnt_le (n : Nat) (lab : Lab) : cnt n lab ≤ n := by
  unfold cnt
  exact Finset.card_image_le.trans (by simp)

theorem cnt_pos {n : Nat} (hn : 0 < n) (lab : Lab) : 0 < cnt n lab := by
  unfold cnt
  apply Finset.card_pos.2
  exact ⟨lab.f 0, Finset.mem_image.2 ⟨0, Finset.mem_range.2 hn, rfl⟩⟩

theorem union_same {lab : Lab} {a b : Nat} (h : lab.f a = lab.f b) : (union lab a b).f = lab.f := by
  funext i
  simp only [union_f]
  split
  · rename_i h'; rw [h, h']
  · rfl

theorem cnt_union_same {n : Nat} {lab : Lab} {a b : Nat} (h : lab.f a = lab.f b) :
    cnt n (union lab a b) = cnt n lab := by
  unfold cnt; rw [union_same h]

theorem cnt_union_diff {n : Nat} {lab : Lab} {a b : Nat} (ha : a < n) (hb : b < n) (h : lab.f a ≠ lab.f b) :
    cnt n (union lab a b) + 1 = cnt n lab := by
  unfold cnt
  have himg : (Finset.range n).image (union lab a b).f = ((Finset.range n).image lab.f).erase (lab.f b) := by
    ext y
    simp only [Finset.mem_image, Finset.mem_range, Finset.mem_erase, union_f]
    constructor
    · rintro ⟨i, hi, rfl⟩
      split
      · exact ⟨h, a, ha, rfl⟩
      · rename_i h'; exact ⟨h', i, hi, rfl⟩
    · rintro ⟨hy, i, hi, rfl⟩
      exact ⟨i, hi, by rw [if_neg hy]⟩
  rw [himg, Finset.card_erase_of_mem (Finset.mem_image.2 ⟨b, Finset.mem_range.2 hb, rfl⟩)]
  have : 0 < ((Finset.range n).image lab.f).card :=
    Finset.card_pos.2 ⟨lab.f b, Finset.mem_image.2 ⟨b, Finset.mem_range.2 hb, rfl⟩⟩
  omega

/-- a coarser labelling has at most as many labels -/
theorem cnt_mono {n : Nat} {lab lab' : Lab}
    (h : ∀ i j, i < n → j < n → lab.f i = lab.f j → lab'.f i = lab'.f j) : cnt n lab' ≤ cnt n lab := by
  classical
  unfold cnt
  let g : Nat → Nat := fun y => if hy : ∃ i, i < n ∧ lab.f i = y then lab'.f (Classical.choose hy) else 0
  have : (Finset.range n).image lab'.f = ((Finset.range n).image lab.f).image g := by
    rw [Finset.image_image]
    apply Finset.image_congr
    intro i hi
    have hi' : i < n := Finset.mem_range.1 hi
    have hex : ∃ k, k < n ∧ lab.f k = lab.f i := ⟨i, hi', rfl⟩
    show lab'.f i = g (lab.f i)
    simp only [g, dif_pos hex]
    have := Classical.choose_spec hex
    exact (h _ _ this.1 hi' this.2).symm
  rw [this]
  exact Finset.card_image_le

theorem cnt_eq_one_iff {n : Nat} (hn : 0 < n) (lab : Lab) :
    cnt n lab = 1 ↔ ∀ i j, i < n → j < n → lab.f i = lab.f j := by
  unfold cnt
  constructor
  · intro h i j hi hj
    obtain ⟨y, hy⟩ := Finset.card_eq_one.1 h
    have h1 : lab.f i ∈ (Finset.range n).image lab.f := Finset.mem_image.2 ⟨i, Finset.mem_range.2 hi, rfl⟩
    have h2 : lab.f j ∈ (Finset.range n).image lab.f := Finset.mem_image.2 ⟨j, Finset.mem_range.2 hj, rfl⟩
    rw [hy, Finset.mem_singleton] at h1 h2
    rw [h1, h2]
  · intro h
    apply Finset.card_eq_one.2
    refine ⟨lab.f 0, ?_⟩
    ext y
    simp only [Finset.mem_image, Finset.mem_range, Finset.mem_singleton]
    constructor
    · rintro ⟨i, hi, rfl⟩; exact h i 0 hi hn
    · rintro rfl; exact ⟨0, hn, rfl⟩

/-- number of connected components of `F` among the nodes `0 … n-1` (computed through labels) -/
def comps (n : Nat) (F : List Edge) : Nat := cnt n (labOf F)

theorem comps_nil (n : Nat) : comps n [] = n := by
  simp [comps, labOf, cnt_id]

theorem comps_le (n : Nat) (F : List Edge) : comps n F ≤ n := cnt_le _ _

theorem comps_pos {n : Nat} (hn : 0 < n) (F : List Edge) : 0 < comps n F := cnt_pos hn _

theorem comps_mono {n : Nat} {F H : List Edge} (h : ∀ a b, Conn F a b → Conn H a b) : comps n H ≤ comps n F := by
  apply cnt_mono
  intro i j _ _ hij
  exact (labOf_rep H i j).2 (h _ _ ((labOf_rep F i j).1 hij))

theorem comps_congr {n : Nat} {F H : List Edge} (h : ∀ a b, Conn F a b ↔ Conn H a b) : comps n F = comps n H :=
  Nat.le_antisymm (comps_mono fun a b hab => (h a b).2 hab) (comps_mono fun a b hab => (h a b).1 hab)

theorem comps_snoc_conn {n : Nat} {F : List Edge} {e : Edge} (h : Conn F e.u e.v) :
    comps n (F ++ [e]) = comps n F := by
  unfold comps
  rw [labOf_snoc]
  exact cnt_union_same ((labOf_rep F _ _).2 h)

theorem comps_snoc_not {n : Nat} {F : List Edge} {e : Edge} (hu : e.u < n) (hv : e.v < n) (h : ¬ Conn F e.u e.v) :
    comps n (F ++ [e]) + 1 = comps n F := by
  unfold comps
  rw [labOf_snoc]
  exact cnt_union_diff hu hv (fun h' => h ((labOf_rep F _ _).1 h'))

theorem comps_snoc_le {n : Nat} {F : List Edge} {e : Edge} (hu : e.u < n) (hv : e.v < n) :
    comps n F ≤ comps n (F ++ [e]) + 1 := by
  by_cases h : Conn F e.u e.v
  · rw [comps_snoc_conn h]; omega
  · rw [← comps_snoc_not hu hv h]

/-- each further edge removes at most one component -/
theorem comps_le_append {n : Nat} (G : List Edge) : ∀ (F : List Edge), Valid n G →
    comps n F ≤ comps n (F ++ G) + G.length := by
  induction G with
  | nil => intro F _; simp
  | cons e G ih =>
    intro F hG
    have h1 := ih (F ++ [e]) (fun x hx => hG x (List.mem_cons_of_mem _ hx))
    have h2 := comps_snoc_le (F := F) (hG e List.mem_cons_self).1 (hG e List.mem_cons_self).2
    simp only [List.append_assoc, List.singleton_append, List.length_cons] at h1 ⊢
    omega

theorem comps_add_length_ge {n : Nat} {F : List Edge} (hF : Valid n F) : n ≤ comps n F + F.length := by
  have := comps_le_append F [] hF
  simpa [comps_nil] using this

theorem connected_iff_comps {n : Nat} (hn : 0 < n) (F : List Edge) : Connected n F ↔ comps n F = 1 := by
  unfold comps Connected
  rw [cnt_eq_one_iff hn]
  constructor
  · intro h i j hi hj; exact (labOf_rep F i j).2 (h i j hi hj)
  · intro h i j hi hj; exact (labOf_rep F i j).1 (h i j hi hj)

/-! ### acyclic ⇔ as many edges as components removed -/

theorem tight_acyclic {n : Nat} {F : List Edge} (hF : Valid n F) (h : F.length + comps n F = n) : Acyclic F := by
  intro l₁ e l₂ hdec hconn
  subst hdec
  have hsub : ∀ a b, Conn (l₁ ++ e :: l₂) a b → Conn (l₁ ++ l₂) a b := by
    intro a b hab
    refine Conn.of_edges ?_ hab
    intro x hx
    rcases List.mem_append.1 hx with h1 | h2
    · exact Conn.edge (List.mem_append_left _ h1)
    · rcases List.mem_cons.1 h2 with rfl | h3
      · exact hconn
      · exact Conn.edge (List.mem_append_right _ h3)
  have h1 := comps_mono (n := n) hsub
  have hv : Valid n (l₁ ++ l₂) := by
    intro x hx
    apply hF
    rcases List.mem_append.1 hx with h1 | h2
    · exact List.mem_append_left _ h1
    · exact List.mem_append_right _ (List.mem_cons_of_mem _ h2)
  have h2 := comps_add_length_ge hv
  simp only [List.length_append, List.length_cons] at h h2
  omega

theorem acyclic_tight {n : Nat} {F : List Edge} (hF : Valid n F) (h : Acyclic F) : F.length + comps n F = n := by
  have key : ∀ k, k ≤ F.length → k + comps n (F.take k) = n := by
    intro k
    induction k with
    | zero => simp [comps_nil]
    | succ k ih =>
      intro hk
      have hk' : k < F.length := hk
      have ih' := ih (Nat.le_of_lt hk')
      have htake : F.take (k + 1) = F.take k ++ [F[k]] := by
        rw [List.take_succ_eq_append_getElem hk']
      have hdec : F = F.take k ++ F[k] :: F.drop (k + 1) := by
        have := List.take_append_drop k F
        rw [List.drop_eq_getElem_cons hk'] at this
        exact this.symm
      have hnot : ¬ Conn (F.take k) F[k].u F[k].v := by
        intro hc
        exact h _ _ _ hdec (Conn.mono (fun _ hx => List.mem_append_left _ hx) hc)
      have hmem : F[k] ∈ F := List.getElem_mem hk'
      have := comps_snoc_not (n := n) (hF _ hmem).1 (hF _ hmem).2 hnot
      rw [htake]
      omega
  have := key F.length (Nat.le_refl _)
  simpa using this

end Solvor.Mst
