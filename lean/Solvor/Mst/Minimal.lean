import Solvor.Mst.Lemmas
import Mathlib.Data.Nat.Find
/-!
Mst: helper lemmas, part 2 – the cycle-property certificate implies minimality.

The argument has no paths or cycles in it.  For a threshold `t` write `F≤t` for the edges of `F`
of weight `≤ t`.  If the certificate holds for `T` then `T≤t` joins everything `E≤t` joins, so it
has at least `n - comps(E≤t)` edges; an acyclic `T' ⊆ E` has at most that many edges of weight
`≤ t`.  So for every threshold `T` has at least as many light edges as `T'`, both have the same
number of edges, and a layer-cake sum turns this into `weight T ≤ weight T'`.
-/
namespace Solvor.Mst

/-! ### majorisation: more light elements at every threshold ⇒ smaller sum -/

def below (t : Int) (L : List Int) : Nat := L.countP (fun x => decide (x ≤ t))

/-- `Σ_{j<k} #{x ∈ L | x ≤ lo + j}` -/
def layers (lo : Int) : Nat → List Int → Nat
  | 0, _ => 0
  | k + 1, L => layers lo k L + below (lo + k) L

theorem layers_nil (lo : Int) (k : Nat) : layers lo k [] = 0 := by
  induction k with
  | zero => rfl
  | succ k ih => simp [layers, ih, below]

theorem layers_cons (lo : Int) (k : Nat) (x : Int) (L : List Int) (hx : lo ≤ x) :
    layers lo k (x :: L) = layers lo k L + (lo + k - x).toNat := by
  induction k with
  | zero => simp [layers]; omega
  | succ k ih =>
    simp only [layers, ih, below, List.countP_cons]
    by_cases h : x ≤ lo + k
    · simp only [h, decide_true, if_true]
      push_cast
      omega
    · simp only [h, decide_false]
      push_cast
      omega

theorem sum_add_layers (lo : Int) (k : Nat) (L : List Int) (h : ∀ x ∈ L, lo ≤ x ∧ x ≤ lo + k) :
    L.sum + (layers lo k L : Int) = (L.length : Int) * (lo + k) := by
  induction L with
  | nil => simp [layers_nil]
  | cons x L ih =>
    have hx := h x List.mem_cons_self
    have ih' := ih (fun y hy => h y (List.mem_cons_of_mem _ hy))
    rw [layers_cons lo k x L hx.1]
    simp only [List.sum_cons, List.length_cons]
    push_cast
    rw [Int.add_mul, Int.one_mul]
    have : ((lo + k - x).toNat : Int) = lo + k - x := Int.toNat_of_nonneg (by omega)
    omega

theorem layers_mono (lo : Int) (k : Nat) {A B : List Int} (h : ∀ t, below t B ≤ below t A) :
    layers lo k B ≤ layers lo k A := by
  induction k with
  | zero => simp [layers]
  | succ k ih => simp only [layers]; have := h (lo + k); omega

theorem exists_bounds (L : List Int) : ∃ lo hi : Int, ∀ x ∈ L, lo ≤ x ∧ x ≤ hi := by
  induction L with
  | nil => exact ⟨0, 0, by simp⟩
  | cons x L ih =>
    obtain ⟨lo, hi, h⟩ := ih
    refine ⟨min lo x, max hi x, ?_⟩
    intro y hy
    rcases List.mem_cons.1 hy with rfl | hy
    · omega
    · have := h y hy; omega

theorem sum_le_of_below {A B : List Int} (hlen : A.length = B.length) (h : ∀ t, below t B ≤ below t A) :
    A.sum ≤ B.sum := by
  obtain ⟨lo, hi, hb⟩ := exists_bounds (A ++ B)
  have hbk : ∀ x ∈ A ++ B, lo ≤ x ∧ x ≤ lo + ((hi - lo).toNat : Int) := by
    intro x hx
    have := hb x hx
    omega
  have hA := sum_add_layers lo (hi - lo).toNat A (fun x hx => hbk x (List.mem_append_left _ hx))
  have hB := sum_add_layers lo (hi - lo).toNat B (fun x hx => hbk x (List.mem_append_right _ hx))
  have hm := layers_mono lo (hi - lo).toNat h
  rw [hlen] at hA
  omega

/-! ### weights -/

theorem weight_eq_sum (T : List Edge) : weight T = (T.map (·.w)).sum := by
  induction T with
  | nil => rfl
  | cons e T ih => simp [weight, ih]

theorem below_map_w (t : Int) (T : List Edge) :
    below t (T.map (·.w)) = (T.filter fun f => decide (f.w ≤ t)).length := by
  unfold below
  rw [List.countP_map, List.countP_eq_length_filter]
  rfl

/-- `T` has at least as many light edges as `T'` at every threshold and equally many edges ⇒ it weighs no more -/
theorem weight_le_of_light {T T' : List Edge} (hlen : T.length = T'.length)
    (h : ∀ t : Int, (T'.filter fun f => decide (f.w ≤ t)).length ≤ (T.filter fun f => decide (f.w ≤ t)).length) :
    weight T ≤ weight T' := by
  rw [weight_eq_sum, weight_eq_sum]
  apply sum_le_of_below (by simpa using hlen)
  intro t
  rw [below_map_w, below_map_w]
  exact h t

/-! ### the certificate -/

/-- cycle-property certificate, as a proposition -/
def MinCert (E T : List Edge) : Prop :=
  ∀ e ∈ E, Conn (T.filter fun f => decide (f.w ≤ e.w)) e.u e.v

theorem valid_filter {n : Nat} {F : List Edge} (h : Valid n F) (p : Edge → Bool) : Valid n (F.filter p) :=
  fun e he => h e (List.mem_filter.1 he).1

theorem valid_of_sub {n : Nat} {E T : List Edge} (hE : Valid n E) (h : ∀ e ∈ T, e ∈ E) : Valid n T :=
  fun e he => hE e (h e he)

/-- a tight (= acyclic) edge set has at most `n - comps` light edges, at every threshold -/
theorem light_le_of_tight {n : Nat} {T' : List Edge} (hv : Valid n T') (ht : T'.length + comps n T' = n) (t : Int) :
    (T'.filter fun f => decide (f.w ≤ t)).length + comps n (T'.filter fun f => decide (f.w ≤ t)) ≤ n := by
  let p : Edge → Bool := fun f => decide (f.w ≤ t)
  have h1 := comps_le_append (n := n) (T'.filter fun f => !p f) (T'.filter p) (valid_filter hv _)
  have h2 : comps n (T'.filter p ++ T'.filter fun f => !p f) = comps n T' := by
    apply comps_congr
    intro a b
    constructor
    · exact Conn.mono (fun e he => by
        rcases List.mem_append.1 he with h | h <;> exact (List.mem_filter.1 h).1)
    · exact Conn.mono (fun e he => by
        by_cases hp : p e = true
        · exact List.mem_append_left _ (List.mem_filter.2 ⟨he, hp⟩)
        · exact List.mem_append_right _ (List.mem_filter.2 ⟨he, by simpa using hp⟩))
  have h3 : (T'.filter p).length + (T'.filter fun f => !p f).length = T'.length := by
    have := List.filter_append_perm p T'
    have := this.length_eq
    simpa using this
  show (T'.filter p).length + comps n (T'.filter p) ≤ n
  omega

/-- core of the exchange argument, in counting form -/
theorem cert_light {n : Nat} {E T T' : List Edge} (hE : Valid n E) (hT : ∀ e ∈ T, e ∈ E)
    (hcert : MinCert E T) (hT' : ∀ e ∈ T', e ∈ E) (htight : T'.length + comps n T' = n) (t : Int) :
    (T'.filter fun f => decide (f.w ≤ t)).length ≤ (T.filter fun f => decide (f.w ≤ t)).length := by
  have h1 := light_le_of_tight (valid_of_sub hE hT') htight t
  have h2 : comps n (T.filter fun f => decide (f.w ≤ t)) ≤ comps n (T'.filter fun f => decide (f.w ≤ t)) := by
    apply comps_mono
    intro a b hab
    refine Conn.of_edges ?_ hab
    intro e he
    have hmem := List.mem_filter.1 he
    have hw : e.w ≤ t := by simpa using hmem.2
    refine Conn.mono ?_ (hcert e (hT' e hmem.1))
    intro f hf
    have hf' := List.mem_filter.1 hf
    have : f.w ≤ e.w := by simpa using hf'.2
    exact List.mem_filter.2 ⟨hf'.1, by simpa using Int.le_trans this hw⟩
  have h3 := comps_add_length_ge (valid_filter (valid_of_sub hE hT) fun f => decide (f.w ≤ t))
  omega

/-- certificate + same number of edges as an acyclic competitor ⇒ no heavier -/
theorem cert_weight_le {n : Nat} {E T T' : List Edge} (hE : Valid n E) (hT : ∀ e ∈ T, e ∈ E)
    (hcert : MinCert E T) (hT' : ∀ e ∈ T', e ∈ E) (htight : T'.length + comps n T' = n)
    (hlen : T.length = T'.length) : weight T ≤ weight T' :=
  weight_le_of_light hlen (cert_light hE hT hcert hT' htight)

theorem exists_valid (E : List Edge) : ∃ n, 0 < n ∧ Valid n E := by
  induction E with
  | nil => exact ⟨1, by omega, by intro e he; cases he⟩
  | cons e E ih =>
    obtain ⟨n, hn, h⟩ := ih
    refine ⟨max n (max e.u e.v + 1), by omega, ?_⟩
    intro x hx
    rcases List.mem_cons.1 hx with rfl | hx
    · omega
    · have := h x hx; omega

/-! ### components as a notion of their own: least elements of the classes -/

open Classical in
/-- number of classes of `Conn F` on `0 … n-1`, counted by their least elements -/
noncomputable def numComps (n : Nat) (F : List Edge) : Nat :=
  ((Finset.range n).filter fun i => ∀ j, j < i → ¬ Conn F j i).card

theorem comps_eq_numComps (n : Nat) (F : List Edge) : comps n F = numComps n F := by
  classical
  unfold comps cnt numComps
  have hrep := labOf_rep F
  set lab := labOf F
  set M := (Finset.range n).filter fun i => ∀ j, j < i → ¬ Conn F j i with hM
  have hinj : Set.InjOn lab.f (M : Set Nat) := by
    intro a ha b hb hab
    have ha' := (Finset.mem_filter.1 ha).2
    have hb' := (Finset.mem_filter.1 hb).2
    have hc : Conn F a b := (hrep a b).1 hab
    rcases Nat.lt_trichotomy a b with h | h | h
    · exact absurd hc (hb' a h)
    · exact h
    · exact absurd hc.symm (ha' b h)
  have himg : (Finset.range n).image lab.f = M.image lab.f := by
    apply Finset.Subset.antisymm
    · intro y hy
      obtain ⟨i, hi, rfl⟩ := Finset.mem_image.1 hy
      have hex : ∃ m, Conn F m i := ⟨i, Conn.refl _⟩
      have hmin : ∀ {m : Nat}, m < Nat.find hex → ¬ Conn F m i := fun h => Nat.find_min hex h
      have hspec := Nat.find_spec hex
      have hle : Nat.find hex ≤ i := Nat.find_min' hex (Conn.refl _)
      refine Finset.mem_image.2 ⟨Nat.find hex, ?_, (hrep _ _).2 hspec⟩
      refine Finset.mem_filter.2 ⟨Finset.mem_range.2 (Nat.lt_of_le_of_lt hle (Finset.mem_range.1 hi)), ?_⟩
      intro j hj hc
      exact hmin hj (hc.trans hspec)
    · exact Finset.image_subset_image (Finset.filter_subset _ _)
  rw [himg, Finset.card_image_of_injOn hinj]

end Solvor.Mst
