import Solvor.Mst.Drive
def main : IO Unit := Solvor.Proto.serve Solvor.Mst.handle
