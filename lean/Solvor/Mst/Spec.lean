import Solvor.Mst.Model
/-!
Mst: the mathematical notions property C13 is stated with (no algorithm in here).

* `Conn F a b`        – `a` and `b` are joined by a walk over edges of `F` (used in either direction)
* `Acyclic F`         – no edge of `F` has its endpoints joined by the *other* edges of `F`
                        (so: no self loop, no two parallel edges, no longer cycle)
* `Connected n F`     – all nodes `0 … n-1` are joined
* `IsSpanningTree`    – `n-1` edges of the input that join all nodes
                        (`spanningTree_acyclic` in `Theorems.lean`: then there is no cycle)
* `IsSpanningForest`  – edges of the input, no cycle, joining everything the input joins
-/
namespace Solvor.Mst

/-- walks from `a`: the reflexive–transitive closure of "is an edge of `F`, in either direction" -/
inductive Conn (F : List Edge) : Nat → Nat → Prop
  | refl (a : Nat) : Conn F a a
  | fwd {a : Nat} {e : Edge} : e ∈ F → Conn F a e.u → Conn F a e.v
  | bwd {a : Nat} {e : Edge} : e ∈ F → Conn F a e.v → Conn F a e.u

/-- every edge is a bridge: its endpoints are not joined by the remaining edges -/
def Acyclic (F : List Edge) : Prop :=
  ∀ l₁ e l₂, F = l₁ ++ e :: l₂ → ¬ Conn (l₁ ++ l₂) e.u e.v

/-- endpoints are node indices `< n` (what `check_edge_nodes` enforces) -/
def Valid (n : Nat) (E : List Edge) : Prop := ∀ e ∈ E, e.u < n ∧ e.v < n

def Connected (n : Nat) (F : List Edge) : Prop := ∀ a b, a < n → b < n → Conn F a b

structure IsSpanningTree (n : Nat) (E T : List Edge) : Prop where
  sub : ∀ e ∈ T, e ∈ E
  card : T.length + 1 = n
  conn : Connected n T

structure IsSpanningForest (E T : List Edge) : Prop where
  sub : ∀ e ∈ T, e ∈ E
  acyclic : Acyclic T
  spans : ∀ a b, Conn E a b → Conn T a b

end Solvor.Mst
