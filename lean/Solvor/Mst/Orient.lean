import Solvor.Mst.PrimLemmas
/-!
Mst: helper lemmas, part 5 – the same undirected graph written as two edge lists.

`kruskal` is given each undirected edge once, in some orientation; `prim`'s adjacency lists carry
it in both.  `SameGraph E A` says the two lists describe the same undirected weighted edges;
spanning forests can then be carried from one list to the other without changing their weight.
-/
namespace Solvor.Mst

/-- every edge of one list occurs in the other, possibly with its endpoints swapped -/
def SubGraph (E A : List Edge) : Prop := ∀ e ∈ E, e ∈ A ∨ e.rev ∈ A

def SameGraph (E A : List Edge) : Prop := SubGraph E A ∧ SubGraph A E

theorem SubGraph.conn {E A : List Edge} (h : SubGraph E A) {a b : Nat} (hab : Conn E a b) : Conn A a b := by
  refine Conn.of_edges ?_ hab
  intro e he
  rcases h e he with h1 | h1
  · exact Conn.edge h1
  · exact Conn.edge' (e := e.rev) h1

/-- re-orient the edges of `T` so that they occur in `E` -/
def orient (E : List Edge) (T : List Edge) : List Edge := T.map fun a => if a ∈ E then a else a.rev

theorem weight_orient (E T : List Edge) : weight (orient E T) = weight T := by
  induction T with
  | nil => rfl
  | cons a T ih =>
    simp only [orient, List.map_cons, weight] at ih ⊢
    rw [ih]
    split <;> rfl

theorem orient_sub {E A T : List Edge} (hA : SubGraph A E) (hT : ∀ e ∈ T, e ∈ A) : ∀ e ∈ orient E T, e ∈ E := by
  intro e he
  obtain ⟨a, ha, rfl⟩ := List.mem_map.1 he
  split
  · assumption
  · rename_i hn
    rcases hA a (hT a ha) with h | h
    · exact absurd h hn
    · exact h

theorem orient_conn (E T : List Edge) (a b : Nat) : Conn (orient E T) a b ↔ Conn T a b := by
  constructor
  · refine Conn.of_edges ?_
    intro e he
    obtain ⟨x, hx, rfl⟩ := List.mem_map.1 he
    split
    · exact Conn.edge hx
    · exact Conn.edge' hx
  · refine Conn.of_edges ?_
    intro x hx
    by_cases hxe : x ∈ E
    · have : x ∈ orient E T := List.mem_map.2 ⟨x, hx, by simp [hxe]⟩
      exact Conn.edge this
    · have : x.rev ∈ orient E T := List.mem_map.2 ⟨x, hx, by simp [hxe]⟩
      exact Conn.edge' (e := x.rev) this

/-- a spanning forest of one description of the graph gives one of the other, of the same weight -/
theorem forest_transfer {E A T : List Edge} (h : SameGraph E A) (hT : IsSpanningForest A T) :
    IsSpanningForest E (orient E T) ∧ weight (orient E T) = weight T := by
  refine ⟨⟨orient_sub h.2 hT.sub, ?_, ?_⟩, weight_orient E T⟩
  · obtain ⟨n, _, hv⟩ := exists_valid (E ++ A)
    have hvE : Valid n E := fun e he => hv e (List.mem_append_left _ he)
    have hvA : Valid n A := fun e he => hv e (List.mem_append_right _ he)
    have t := acyclic_tight (valid_of_sub hvA hT.sub) hT.acyclic
    have hc : comps n (orient E T) = comps n T := comps_congr (orient_conn E T)
    apply tight_acyclic (valid_of_sub hvE (orient_sub h.2 hT.sub))
    simp only [orient, List.length_map] at hc ⊢
    rw [hc]; exact t
  · intro a b hab
    exact (orient_conn E T a b).2 (hT.spans a b (h.1.conn hab))

theorem SameGraph.symm {E A : List Edge} (h : SameGraph E A) : SameGraph A E := ⟨h.2, h.1⟩

theorem subGraphB_iff {E A : List Edge} : subGraphB E A = true ↔ SubGraph E A := by
  simp [subGraphB, SubGraph]

theorem sameGraphB_iff {E A : List Edge} : sameGraphB E A = true ↔ SameGraph E A := by
  simp [sameGraphB, SameGraph, subGraphB_iff]

theorem goodAdjB_iff {adj : Adj} : goodAdjB adj = true ↔ GoodAdj adj := by
  simp only [goodAdjB, List.all_eq_true, List.mem_range, Bool.and_eq_true, decide_eq_true_eq,
    List.contains_iff_mem]
  constructor
  · intro h
    exact ⟨fun u p hp => (h u (nbrs_lt hp) p hp).1, fun u p hp => (h u (nbrs_lt hp) p hp).2⟩
  · intro h u _ p hp
    exact ⟨h.wf u p hp, h.sym u p hp⟩

end Solvor.Mst
