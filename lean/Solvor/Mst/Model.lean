import Solvor.Gen.Kernels
import Solvor.Gen.MstConsts
/-!
Mst: executable models (no Mathlib imports) for property C13.

* `kruskal`   – mirror of `solvor.mst.kruskal` (stable sort by weight, union–find, early break,
                `allow_forest`).  The union–find is the *spec-level* one: a component label per
                node (`union` relabels one class).  This is the model the theorems talk about.
* `kruskalUF` – the same loop over a literal mirror of `solvor.utils.UnionFind`
                (parent / rank arrays, recursive `find` with path compression, union by rank).
                `kruskalUF_eq` (Theorems.lean) proves it returns exactly what `kruskal` returns;
                the driver still evaluates both on every input.
* `prim`      – mirror of `solvor.mst.prim` (heap as "pop the least `(weight, counter)`";
                the tuples pushed are `(weight, counter, u, v)` and `counter` is unique, so the
                order never looks at `u`/`v`).
* Bool checkers evaluated by the driver on the implementation's own output:
  `chkSpanningTree`, `chkSpanningForest`, `chkMinCert` (cycle-property certificate of
  minimality), `connectedB`, and the bounded definitional oracle `mstBrute`.
-/
namespace Solvor.Mst
open Solvor.Gen (Status)

structure Edge where
  u : Nat
  v : Nat
  w : Int
  deriving DecidableEq, Repr, Inhabited

/-- total weight of an edge list -/
def weight : List Edge → Int
  | [] => 0
  | e :: es => e.w + weight es

/-! ### spec-level union–find: one label per node -/

/-- a component label for every node: a table for the nodes `0 … lst.length-1` (every entry is
again a node of the table); a node outside the table is its own label.  (A table rather than a
closure chain so that 2500-node inputs run in milliseconds.) -/
structure Lab where
  lst : List Nat
  ok : ∀ x ∈ lst, x < lst.length

/-- the label of node `i` -/
def Lab.f (lab : Lab) (i : Nat) : Nat := lab.lst.getD i i

def Lab.id : Lab := ⟨[], by simp⟩

/-- the same labels with the table extended (by identity) to at least `k` nodes -/
def Lab.grow (lab : Lab) (k : Nat) : Lab :=
  if k ≤ lab.lst.length then lab else
  ⟨lab.lst ++ List.range' lab.lst.length (k - lab.lst.length), by
    intro x hx
    simp only [List.length_append, List.length_range']
    rcases List.mem_append.1 hx with h | h
    · have := lab.ok x h; omega
    · have := List.mem_range'_1.1 h; omega⟩

theorem Lab.grow_f (lab : Lab) (k i : Nat) : (lab.grow k).f i = lab.f i := by
  unfold Lab.grow
  split
  · rfl
  · unfold Lab.f
    simp only [List.getD_eq_getElem?_getD]
    by_cases h1 : i < lab.lst.length
    · rw [List.getElem?_append_left h1]
    · rw [List.getElem?_append_right (by omega), List.getElem?_eq_none (show lab.lst.length ≤ i by omega)]
      by_cases h2 : i - lab.lst.length < k - lab.lst.length
      · rw [List.getElem?_range' h2]; simp; omega
      · rw [List.getElem?_eq_none (by simp; omega)]

theorem Lab.grow_length (lab : Lab) (k : Nat) : k ≤ (lab.grow k).lst.length := by
  unfold Lab.grow
  split
  · assumption
  · simp only [List.length_append, List.length_range']; omega

theorem Lab.f_lt (lab : Lab) {i : Nat} (h : i < lab.lst.length) : lab.f i < lab.lst.length := by
  unfold Lab.f
  rw [List.getD_eq_getElem?_getD, List.getElem?_eq_getElem h]
  exact lab.ok _ (List.getElem_mem h)

/-- merge the class of `b` into the class of `a` -/
def union (lab : Lab) (a b : Nat) : Lab :=
  let g := lab.grow (max a b + 1)
  let la := g.f a
  let lb := g.f b
  ⟨g.lst.map (fun li => if li = lb then la else li), by
    intro x hx
    obtain ⟨li, hli, rfl⟩ := List.mem_map.1 hx
    simp only [List.length_map]
    have hlen : max a b + 1 ≤ g.lst.length := lab.grow_length (max a b + 1)
    split
    · exact g.f_lt (by omega)
    · exact g.ok li hli⟩

theorem Lab.id_f (i : Nat) : Lab.id.f i = i := by simp [Lab.id, Lab.f]

theorem Lab.relabel_getD (g : Lab) (a b i : Nat) (hlen : max a b + 1 ≤ g.lst.length) :
    (g.lst.map (fun li => if li = g.f b then g.f a else li)).getD i i =
      if g.f i = g.f b then g.f a else g.f i := by
  rw [List.getD_eq_getElem?_getD, List.getElem?_map]
  by_cases hi : i < g.lst.length
  · have : g.f i = g.lst[i] := by
      unfold Lab.f; rw [List.getD_eq_getElem?_getD, List.getElem?_eq_getElem hi]; rfl
    rw [List.getElem?_eq_getElem hi, this]; rfl
  · have hfi : g.f i = i := by
      unfold Lab.f; rw [List.getD_eq_getElem?_getD, List.getElem?_eq_none (by omega)]; rfl
    have hb : g.f b < g.lst.length := g.f_lt (by omega)
    rw [List.getElem?_eq_none (by omega), hfi]
    have : i ≠ g.f b := by omega
    simp [this]

/-- the law the proofs use: the class of `b` takes the label of `a`, everything else keeps its label -/
theorem union_f (lab : Lab) (a b i : Nat) :
    (union lab a b).f i = if lab.f i = lab.f b then lab.f a else lab.f i := by
  rw [← lab.grow_f (max a b + 1) i, ← lab.grow_f (max a b + 1) a, ← lab.grow_f (max a b + 1) b]
  exact (lab.grow (max a b + 1)).relabel_getD a b i (lab.grow_length _)

/-- component labels after joining the endpoints of every edge of `F` -/
def labOf (F : List Edge) : Lab := F.foldl (fun lab e => union lab e.u e.v) Lab.id

/-! ### Kruskal -/

structure KState where
  lab : Lab
  acc : List Edge
  total : Int
  iters : Nat

/-- the `1` of `if len(mst_edges) == n_nodes - 1: break`, read from the source on every run -/
def breakOff : Nat := Solvor.Gen.Mst.kruskalBreakOffset.toNat
/-- the `1` of `if len(mst_edges) < n_nodes - 1:` (disconnected input), read from the source -/
def shortOff : Nat := Solvor.Gen.Mst.kruskalShortOffset.toNat

/-- the `for u, v, w in sorted_edges` loop, `break` included -/
def kloop (n : Nat) : List Edge → KState → KState
  | [], s => s
  | e :: es, s =>
    if s.lab.f e.u = s.lab.f e.v then kloop n es { s with iters := s.iters + 1 }
    else
      let s' : KState := ⟨union s.lab e.u e.v, s.acc ++ [e], s.total + e.w, s.iters + 1⟩
      if s'.acc.length + breakOff = n then s' else kloop n es s'

structure Result where
  status : Status
  sol : Option (List Edge)
  /-- `none` stands for `float("inf")` -/
  obj : Option Int
  iters : Nat
  evals : Nat
  deriving Repr, DecidableEq

/-- insert `e` in front of the first edge that is not lighter -/
def insertW (e : Edge) : List Edge → List Edge
  | [] => [e]
  | x :: xs => if e.w ≤ x.w then e :: x :: xs else x :: insertW e xs

/-- `sorted(edges, key=lambda e: e[2])`: a stable sort (insertion sort from the right, so that of
two edges of equal weight the one that comes first in the input stays first) -/
def sortEdges (E : List Edge) : List Edge := E.foldr insertW []

def kinit : KState := ⟨Lab.id, [], 0, 0⟩

/-- what `kruskal` returns from the state the loop ended in -/
def kfinish (n : Nat) (m : Nat) (allowForest : Bool) (acc : List Edge) (total : Int) (iters : Nat) : Result :=
  if acc.length + shortOff < n then
    if allowForest then ⟨.FEASIBLE, some acc, some total, iters, m⟩
    else ⟨.INFEASIBLE, none, none, iters, m⟩
  else ⟨.OPTIMAL, some acc, some total, iters, m⟩

/-- `kruskal(n, E, allow_forest=…)` for `n ≥ 1` and endpoints `< n` (other inputs raise). -/
def kruskal (n : Nat) (E : List Edge) (allowForest : Bool) : Result :=
  let s := kloop n (sortEdges E) kinit
  kfinish n E.length allowForest s.acc s.total s.iters

/-! ### literal mirror of `UnionFind` (parent / rank, path compression, union by rank) -/

structure UF where
  parent : List Nat
  rank : List Nat

def UF.init (n : Nat) : UF := ⟨List.range n, List.replicate n 0⟩

/-- `find` with path compression; one unit of fuel per recursive call -/
def UF.find : Nat → UF → Nat → UF × Nat
  | 0, uf, x => (uf, uf.parent.getD x x)
  | fuel + 1, uf, x =>
    let p := uf.parent.getD x x
    if p ≠ x then
      let (uf', r) := UF.find fuel uf p
      ({ uf' with parent := uf'.parent.set x r }, r)
    else (uf, p)

/-- hang the root `c` under the root `p` (`parent[c] = p`; equal ranks: `rank[p] += 1`) -/
def UF.link (uf : UF) (c p : Nat) : UF :=
  ⟨uf.parent.set c p,
   if uf.rank.getD p 0 = uf.rank.getD c 0 then uf.rank.set p (uf.rank.getD p 0 + 1) else uf.rank⟩

/-- `union`: returns the new structure and whether two classes were merged
(`if rank[rx] < rank[ry]: rx, ry = ry, rx` is written as the two orders of `link`) -/
def UF.union (fuel : Nat) (uf : UF) (x y : Nat) : UF × Bool :=
  let f1 := UF.find fuel uf x
  let f2 := UF.find fuel f1.1 y
  if f1.2 = f2.2 then (f2.1, false)
  else if f2.1.rank.getD f1.2 0 < f2.1.rank.getD f2.2 0 then (f2.1.link f1.2 f2.2, true)
  else (f2.1.link f2.2 f1.2, true)

structure UState where
  uf : UF
  acc : List Edge
  total : Int
  iters : Nat

def uloop (n : Nat) : List Edge → UState → UState
  | [], s => s
  | e :: es, s =>
    let (uf', merged) := UF.union n s.uf e.u e.v
    if !merged then uloop n es { s with uf := uf', iters := s.iters + 1 }
    else
      let s' : UState := ⟨uf', s.acc ++ [e], s.total + e.w, s.iters + 1⟩
      if s'.acc.length + breakOff = n then s' else uloop n es s'

def kruskalUF (n : Nat) (E : List Edge) (allowForest : Bool) : Result :=
  let s := uloop n (sortEdges E) ⟨UF.init n, [], 0, 0⟩
  kfinish n E.length allowForest s.acc s.total s.iters

/-! ### Prim -/

/-- heap entry `(weight, counter, u, v)` -/
structure HItem where
  w : Int
  c : Nat
  u : Nat
  v : Nat
  deriving DecidableEq, Repr, Inhabited

/-- tuple order on `(weight, counter)`; counters are unique so `u`, `v` are never compared -/
def hLe (a b : HItem) : Bool := decide (a.w < b.w) || (decide (a.w = b.w) && decide (a.c ≤ b.c))

/-- `heappop`: the least entry and the remaining ones -/
def popMin : List HItem → Option (HItem × List HItem)
  | [] => none
  | x :: xs =>
    match popMin xs with
    | none => some (x, [])
    | some (m, rest) => if hLe x m then some (x, m :: rest) else some (m, x :: rest)

/-- adjacency: `adj[u]` = list of `(neighbour, weight)` in the order the dict value iterates -/
abbrev Adj := List (List (Nat × Int))

def Adj.nbrs (adj : Adj) (u : Nat) : List (Nat × Int) := adj.getD u []

/-- entries pushed for the neighbours `nb` of `src`, counters `c, c+1, …` -/
def mkItems (src : Nat) (c : Nat) : List (Nat × Int) → List HItem
  | [] => []
  | (y, w) :: nb => ⟨w, c, src, y⟩ :: mkItems src (c + 1) nb

structure PState where
  inT : List Nat
  acc : List Edge
  total : Int
  counter : Nat
  heap : List HItem
  iters : Nat
  evals : Nat

/-- the `while heap and len(in_mst) < len(nodes)` loop; one unit of fuel per iteration -/
def ploop (adj : Adj) (n : Nat) : Nat → PState → PState
  | 0, s => s
  | fuel + 1, s =>
    if s.inT.length < n then
      match popMin s.heap with
      | none => s
      | some (it, rest) =>
        if s.inT.contains it.v then ploop adj n fuel { s with heap := rest, iters := s.iters + 1 }
        else
          let inT' := it.v :: s.inT
          let items := mkItems it.v s.counter ((adj.nbrs it.v).filter fun p => !inT'.contains p.1)
          ploop adj n fuel ⟨inT', s.acc ++ [⟨it.u, it.v, it.w⟩], s.total + it.w, s.counter + items.length,
            rest ++ items, s.iters + 1, s.evals + items.length⟩
    else s

/-- number of arcs (= upper bound on pushes) -/
def Adj.size (adj : Adj) : Nat := (adj.map List.length).sum

def pinit (adj : Adj) (start : Nat) : PState :=
  let items := mkItems start 0 (adj.nbrs start)
  ⟨[start], [], 0, items.length, items, 0, items.length⟩

/-- `prim(graph, start=…)`; nodes are `0 … adj.length-1` in dict-key order, every neighbour is a key -/
def prim (adj : Adj) (start : Nat) : Result :=
  if adj.isEmpty then ⟨.OPTIMAL, some [], some 0, 0, 0⟩
  else
    let n := adj.length
    let s := ploop adj n (adj.size + 1) (pinit adj start)
    if s.inT.length < n then ⟨.INFEASIBLE, none, none, s.iters, s.evals⟩
    else ⟨.OPTIMAL, some s.acc, some s.total, s.iters, s.evals⟩

/-- the undirected edge list an adjacency structure stands for (one entry per listed arc) -/
def arcsFrom : Nat → Adj → List Edge
  | _, [] => []
  | u, nb :: rest => nb.map (fun p => (⟨u, p.1, p.2⟩ : Edge)) ++ arcsFrom (u + 1) rest

def arcs (adj : Adj) : List Edge := arcsFrom 0 adj

/-! ### verified Bool checkers (spec side) -/

def validB (n : Nat) (E : List Edge) : Bool := E.all fun e => decide (e.u < n) && decide (e.v < n)

def subsetB (T E : List Edge) : Bool := T.all fun e => E.contains e

/-- all nodes `< n` in one component of `F` -/
def connectedB (n : Nat) (F : List Edge) : Bool :=
  let lab := labOf F
  (List.range n).all fun i => lab.f i == lab.f 0

/-- every edge joins two different components of the edges before it -/
def forestGo : Lab → List Edge → Bool
  | _, [] => true
  | lab, e :: es => lab.f e.u != lab.f e.v && forestGo (union lab e.u e.v) es

def forestB (T : List Edge) : Bool := forestGo Lab.id T

/-- `T` joins the endpoints of every edge of `E` -/
def spansB (E T : List Edge) : Bool :=
  let lab := labOf T
  E.all fun e => lab.f e.u == lab.f e.v

/-- `T` is a spanning tree of `(n, E)`: edges of the input, `n-1` of them, connecting all nodes -/
def chkSpanningTree (n : Nat) (E T : List Edge) : Bool :=
  subsetB T E && (T.length + 1 == n) && connectedB n T

/-- `T` is a spanning forest of `E`: edges of the input, no cycle, same components as the input -/
def chkSpanningForest (E T : List Edge) : Bool :=
  subsetB T E && forestB T && spansB E T

/-- cycle-property certificate: the endpoints of every input edge `e` are already joined by the
tree edges that are no heavier than `e` -/
def chkMinCert (E T : List Edge) : Bool :=
  E.all fun e => let lab := labOf (T.filter fun f => decide (f.w ≤ e.w)); lab.f e.u == lab.f e.v

/-- number of components among nodes `< n` -/
def compCount (n : Nat) (F : List Edge) : Nat :=
  let lab := labOf F
  ((List.range n).filter fun i => lab.f i == i).length

/-- the same edge with its endpoints swapped -/
def Edge.rev (e : Edge) : Edge := ⟨e.v, e.u, e.w⟩

/-- every edge of `E` occurs in `A`, possibly with its endpoints swapped -/
def subGraphB (E A : List Edge) : Bool := E.all fun e => A.contains e || A.contains e.rev

/-- two edge lists describing the same undirected weighted graph -/
def sameGraphB (E A : List Edge) : Bool := subGraphB E A && subGraphB A E

/-- adjacency lists of an undirected graph: every neighbour is a key and every edge is listed
from both ends with the same weight -/
def goodAdjB (adj : Adj) : Bool :=
  (List.range adj.length).all fun u => (adj.nbrs u).all fun p =>
    decide (p.1 < adj.length) && (adj.nbrs p.1).contains (u, p.2)

/-! ### bounded definitional oracle -/

def subsetsLen : Nat → List Edge → List (List Edge)
  | 0, _ => [[]]
  | _ + 1, [] => []
  | k + 1, e :: es => (subsetsLen k es).map (e :: ·) ++ subsetsLen (k + 1) es

def minOpt : List Int → Option Int
  | [] => none
  | x :: xs => match minOpt xs with
    | none => some x
    | some m => some (if x ≤ m then x else m)

/-- least weight over all `(n - components)`-subsets of `E` that join everything `E` joins -/
def mstBrute (n : Nat) (E : List Edge) : Option Int :=
  minOpt (((subsetsLen (n - compCount n E) E).filter fun T => spansB E T).map weight)

end Solvor.Mst
