/-! Mst: executable models (no Mathlib imports). -/
namespace Solvor.Mst

end Solvor.Mst
