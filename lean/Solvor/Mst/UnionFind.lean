import Solvor.Mst.KruskalLemmas
/-!
Mst: helper lemmas, part 6 – the parent/rank mirror of `UnionFind` (recursive `find` with path
compression, union by rank) refines the label model, so `kruskalUF = kruskal`.

`Reach par i r`: following parent pointers from `i` ends in the root `r`.  `WF n k uf`: pointers
stay below `n`, ranks strictly increase along pointers and are bounded by `k` (the number of
successful unions so far) – this is what makes `n` units of fuel enough for `find`.
-/
namespace Solvor.Mst

theorem getD_set (l : List Nat) (a v i d : Nat) :
    (l.set a v).getD i d = if a = i ∧ a < l.length then v else l.getD i d := by
  rw [List.getD_eq_getElem?_getD, List.getD_eq_getElem?_getD, List.getElem?_set]
  by_cases h : a = i
  · subst h
    by_cases h2 : a < l.length
    · simp [h2]
    · simp [h2]
  · simp [h]

/-- following parent pointers from `i` ends in the root `r` -/
inductive Reach (par : List Nat) : Nat → Nat → Prop
  | root {r : Nat} : par.getD r r = r → Reach par r r
  | step {i r : Nat} : par.getD i i ≠ i → Reach par (par.getD i i) r → Reach par i r

theorem Reach.is_root {par : List Nat} {i r : Nat} (h : Reach par i r) : par.getD r r = r := by
  induction h with
  | root h => exact h
  | step _ _ ih => exact ih

theorem Reach.det {par : List Nat} {i r r' : Nat} (h : Reach par i r) (h' : Reach par i r') : r = r' := by
  induction h with
  | root hr =>
    cases h' with
    | root _ => rfl
    | step hne _ => exact absurd hr hne
  | step hne _ ih =>
    cases h' with
    | root hr => exact absurd hr hne
    | step _ h2 => exact ih h2

structure WF (n k : Nat) (uf : UF) : Prop where
  plen : uf.parent.length = n
  rlen : uf.rank.length = n
  plt : ∀ i, i < n → uf.parent.getD i i < n
  rk : ∀ i, i < n → uf.parent.getD i i ≠ i → uf.rank.getD i 0 < uf.rank.getD (uf.parent.getD i i) 0
  bound : ∀ i, i < n → uf.rank.getD i 0 ≤ k

theorem WF.mono {n k k' : Nat} {uf : UF} (h : WF n k uf) (hk : k ≤ k') : WF n k' uf :=
  { h with bound := fun i hi => Nat.le_trans (h.bound i hi) hk }

theorem Reach.lt {n k : Nat} {uf : UF} (hw : WF n k uf) {i r : Nat} (h : Reach uf.parent i r) (hi : i < n) : r < n := by
  induction h with
  | root _ => exact hi
  | step _ _ ih => exact ih (hw.plt _ hi)

theorem Reach.rank_le {n k : Nat} {uf : UF} (hw : WF n k uf) {i r : Nat} (h : Reach uf.parent i r) (hi : i < n) :
    uf.rank.getD i 0 ≤ uf.rank.getD r 0 := by
  induction h with
  | root _ => exact Nat.le_refl _
  | step hne _ ih =>
    have := hw.rk _ hi hne
    have := ih (hw.plt _ hi)
    omega

theorem WF.top_root {n k : Nat} {uf : UF} (hw : WF n k uf) {i : Nat} (hi : i < n) (h : k ≤ uf.rank.getD i 0) :
    uf.parent.getD i i = i := by
  by_contra hne
  have h1 := hw.rk i hi hne
  have h2 := hw.bound _ (hw.plt i hi)
  omega

theorem WF.exists_root {n k : Nat} {uf : UF} (hw : WF n k uf) : ∀ (d i : Nat), i < n → k - uf.rank.getD i 0 ≤ d →
    ∃ r, Reach uf.parent i r := by
  intro d
  induction d with
  | zero =>
    intro i hi hd
    exact ⟨i, Reach.root (hw.top_root hi (by omega))⟩
  | succ d ih =>
    intro i hi hd
    by_cases hp : uf.parent.getD i i = i
    · exact ⟨i, Reach.root hp⟩
    · have h1 := hw.rk i hi hp
      obtain ⟨r, hr⟩ := ih _ (hw.plt i hi) (by omega)
      exact ⟨r, Reach.step hp hr⟩

theorem WF.root_of {n k : Nat} {uf : UF} (hw : WF n k uf) {i : Nat} (hi : i < n) : ∃ r, Reach uf.parent i r :=
  hw.exists_root k i hi (by omega)

/-- re-pointing `x` straight at its root keeps every node's root -/
theorem Reach.reparent {par : List Nat} {x r : Nat} (hx : Reach par x r) {i ri : Nat} (h : Reach par i ri) :
    Reach (par.set x r) i ri := by
  induction h with
  | @root ri hr =>
    apply Reach.root
    rw [getD_set]
    split
    · rename_i hc
      obtain ⟨rfl, _⟩ := hc
      exact hx.det (Reach.root hr)
    · exact hr
  | @step i ri hne hreach ih =>
    by_cases hix : x = i
    · subst hix
      have hri : ri = r := (Reach.step hne hreach).det hx
      subst hri
      have hrne : x ≠ ri := by
        intro heq
        rw [← heq] at hreach
        exact hne (Reach.is_root (Reach.step hne hreach))
      by_cases hlt : x < par.length
      · apply Reach.step
        · rw [getD_set]; simp [hlt]; exact fun h => hrne h.symm
        · have : (par.set x ri).getD x x = ri := by rw [getD_set]; simp [hlt]
          rw [this]
          apply Reach.root
          rw [getD_set]; simp [hrne]; exact hreach.is_root
      · have : par.set x ri = par := by
          rw [List.set_eq_of_length_le (by omega)]
        rw [this]; exact Reach.step hne hreach
    · apply Reach.step
      · rw [getD_set]; simp [hix]; exact hne
      · have : (par.set x r).getD i i = par.getD i i := by rw [getD_set]; simp [hix]
        rw [this]; exact ih

/-- hanging the root `c` under the root `p` sends the class of `c` to `p` and keeps the others -/
theorem Reach.link {par : List Nat} {c p : Nat} (hcp : c ≠ p) (hc : par.getD c c = c) (hp : par.getD p p = p)
    (hlt : c < par.length) {i ri : Nat} (h : Reach par i ri) :
    Reach (par.set c p) i (if ri = c then p else ri) := by
  induction h with
  | @root ri hr =>
    by_cases hri : ri = c
    · subst hri
      simp only [if_true]
      apply Reach.step
      · rw [getD_set]; simp [hlt]; exact fun h => hcp h.symm
      · have : (par.set ri p).getD ri ri = p := by rw [getD_set]; simp [hlt]
        rw [this]
        apply Reach.root
        rw [getD_set]; simp [hcp]; exact hp
    · simp only [hri, if_false]
      apply Reach.root
      rw [getD_set]
      have : ¬ (c = ri ∧ c < par.length) := fun h => hri h.1.symm
      simp [this]; exact hr
  | @step i ri hne _ ih =>
    have hic : c ≠ i := fun h => hne (h ▸ hc)
    apply Reach.step
    · rw [getD_set]; simp [hic]; exact hne
    · have : (par.set c p).getD i i = par.getD i i := by rw [getD_set]; simp [hic]
      rw [this]; exact ih

/-- `find`: returns the root, keeps ranks, well-formedness and every node's root -/
theorem find_spec {n k : Nat} {uf : UF} (hw : WF n k uf) : ∀ (fuel x : Nat), x < n → k - uf.rank.getD x 0 ≤ fuel →
    Reach uf.parent x (UF.find fuel uf x).2 ∧ WF n k (UF.find fuel uf x).1 ∧
    (UF.find fuel uf x).1.rank = uf.rank ∧
    ∀ i ri, Reach uf.parent i ri → Reach (UF.find fuel uf x).1.parent i ri := by
  intro fuel
  induction fuel with
  | zero =>
    intro x hx hf
    have hroot := hw.top_root hx (by omega)
    have : UF.find 0 uf x = (uf, x) := by
      show (uf, uf.parent.getD x x) = (uf, x)
      rw [hroot]
    rw [this]
    exact ⟨Reach.root hroot, hw, rfl, fun _ _ h => h⟩
  | succ fuel ih =>
    intro x hx hf
    by_cases hp : uf.parent.getD x x = x
    · have : UF.find (fuel + 1) uf x = (uf, x) := by
        unfold UF.find
        simp only [ne_eq, hp, not_true_eq_false, if_false]
      rw [this]
      exact ⟨Reach.root hp, hw, rfl, fun _ _ h => h⟩
    · have hrk := hw.rk x hx hp
      have hplt := hw.plt x hx
      obtain ⟨h1, h2, h3, h4⟩ := ih (uf.parent.getD x x) hplt (by omega)
      have heq : UF.find (fuel + 1) uf x =
          ({ (UF.find fuel uf (uf.parent.getD x x)).1 with
              parent := (UF.find fuel uf (uf.parent.getD x x)).1.parent.set x (UF.find fuel uf (uf.parent.getD x x)).2 },
            (UF.find fuel uf (uf.parent.getD x x)).2) := by
        conv => lhs; unfold UF.find
        simp only [ne_eq, hp, not_false_eq_true, if_true]
      rw [heq]
      generalize hfr : UF.find fuel uf (uf.parent.getD x x) = fr at h1 h2 h3 h4
      obtain ⟨uf1, r⟩ := fr
      simp only at h1 h2 h3 h4 ⊢
      have hxr : Reach uf.parent x r := Reach.step hp h1
      have hrn : r < n := hxr.lt hw hx
      have hxr1 : Reach uf1.parent x r := h4 _ _ hxr
      refine ⟨hxr, ?_, h3, fun i ri h => hxr1.reparent (h4 i ri h)⟩
      refine ⟨by simp [h2.plen], h2.rlen, ?_, ?_, h2.bound⟩
      · intro i hi
        simp only [getD_set]
        split
        · exact hrn
        · exact h2.plt i hi
      · intro i hi
        simp only [getD_set]
        split
        · rename_i hc
          obtain ⟨rfl, _⟩ := hc
          intro hne
          rw [h3]
          have := h1.rank_le hw hplt
          omega
        · exact h2.rk i hi

/-- result of `union`, relative to the roots `rx`, `ry` of its arguments before the call -/
theorem union_spec {n k fuel : Nat} {uf : UF} (hw : WF n k uf) {x y : Nat} (hx : x < n) (hy : y < n) (hf : k ≤ fuel)
    {rx ry : Nat} (hrx : Reach uf.parent x rx) (hry : Reach uf.parent y ry) :
    (rx = ry → (UF.union fuel uf x y).2 = false ∧ WF n k (UF.union fuel uf x y).1 ∧
      ∀ i ri, Reach uf.parent i ri → Reach (UF.union fuel uf x y).1.parent i ri) ∧
    (rx ≠ ry → (UF.union fuel uf x y).2 = true ∧ WF n (k + 1) (UF.union fuel uf x y).1 ∧
      ∃ c p, ((c = ry ∧ p = rx) ∨ (c = rx ∧ p = ry)) ∧
        ∀ i ri, Reach uf.parent i ri → Reach (UF.union fuel uf x y).1.parent i (if ri = c then p else ri)) := by
  obtain ⟨a1, a2, a3, a4⟩ := find_spec hw fuel x hx (by omega)
  generalize hf1 : UF.find fuel uf x = f1 at a1 a2 a3 a4
  obtain ⟨uf1, rx'⟩ := f1
  simp only at a1 a2 a3 a4
  have : rx' = rx := a1.det hrx
  subst this
  obtain ⟨b1, b2, b3, b4⟩ := find_spec a2 fuel y hy (by omega)
  generalize hf2 : UF.find fuel uf1 y = f2 at b1 b2 b3 b4
  obtain ⟨uf2, ry'⟩ := f2
  simp only at b1 b2 b3 b4
  have : ry' = ry := b1.det (a4 _ _ hry)
  subst this
  have hpres : ∀ i ri, Reach uf.parent i ri → Reach uf2.parent i ri := fun i ri h => b4 i ri (a4 i ri h)
  have hrxn : rx' < n := hrx.lt hw hx
  have hryn : ry' < n := hry.lt hw hy
  have hrootx : uf2.parent.getD rx' rx' = rx' := (hpres _ _ hrx).is_root
  have hrooty : uf2.parent.getD ry' ry' = ry' := (hpres _ _ hry).is_root
  constructor
  · intro heq
    have : UF.union fuel uf x y = (uf2, false) := by
      unfold UF.union
      simp only [hf1, hf2, heq, if_true]
    rw [this]
    exact ⟨rfl, b2, hpres⟩
  · intro hne
    -- the link step for a child root `c` and a parent root `p`
    have link : ∀ c p, c ≠ p → c < n → p < n → uf2.parent.getD c c = c → uf2.parent.getD p p = p →
        uf2.rank.getD c 0 ≤ uf2.rank.getD p 0 →
        WF n (k + 1) (uf2.link c p) := by
      intro c p hcp hc hp hrc hrp hle
      unfold UF.link
      have hrank : ∀ i, uf2.rank.getD i 0 ≤
          (if uf2.rank.getD p 0 = uf2.rank.getD c 0 then uf2.rank.set p (uf2.rank.getD p 0 + 1) else uf2.rank).getD i 0 := by
        intro i
        split
        · rw [getD_set]; split
          · rename_i h; rw [← h.1]; omega
          · exact Nat.le_refl _
        · exact Nat.le_refl _
      have hrank_ne : ∀ i, i ≠ p →
          (if uf2.rank.getD p 0 = uf2.rank.getD c 0 then uf2.rank.set p (uf2.rank.getD p 0 + 1) else uf2.rank).getD i 0
            = uf2.rank.getD i 0 := by
        intro i hi
        split
        · rw [getD_set]
          have : ¬ (p = i ∧ p < uf2.rank.length) := fun h => hi h.1.symm
          simp [this]
        · rfl
      refine ⟨by simp [b2.plen], by split <;> simp [b2.rlen], ?_, ?_, ?_⟩
      · intro i hi
        simp only [getD_set]
        split
        · exact hp
        · exact b2.plt i hi
      · intro i hi
        simp only [getD_set]
        split
        · rename_i h
          obtain ⟨rfl, _⟩ := h
          intro _
          rw [hrank_ne c hcp]
          split
          · rename_i heq
            rw [getD_set, if_pos ⟨rfl, by rw [b2.rlen]; exact hp⟩]; omega
          · rename_i hneq
            omega
        · rename_i h
          intro hne'
          have hip : i ≠ p := fun h' => hne' (h' ▸ hrp)
          rw [hrank_ne i hip]
          exact Nat.lt_of_lt_of_le (b2.rk i hi hne') (hrank _)
      · intro i hi
        dsimp only
        split
        · rw [getD_set]
          split
          · have := b2.bound p hp; omega
          · have := b2.bound i hi; omega
        · have := b2.bound i hi; omega
    by_cases hlt : uf2.rank.getD rx' 0 < uf2.rank.getD ry' 0
    · -- swapped: rx' goes under ry'
      have : UF.union fuel uf x y = (uf2.link rx' ry', true) := by
        unfold UF.union
        simp only [hf1, hf2, hne, hlt, if_true, if_false]
      rw [this]
      refine ⟨rfl, link rx' ry' hne hrxn hryn hrootx hrooty (by omega), rx', ry', Or.inr ⟨rfl, rfl⟩, ?_⟩
      intro i ri h
      exact (hpres i ri h).link hne hrootx hrooty (by rw [b2.plen]; exact hrxn)
    · have : UF.union fuel uf x y = (uf2.link ry' rx', true) := by
        unfold UF.union
        simp only [hf1, hf2, hne, hlt, if_false]
      rw [this]
      refine ⟨rfl, link ry' rx' (fun h => hne h.symm) hryn hrxn hrooty hrootx (by omega), ry', rx', Or.inl ⟨rfl, rfl⟩, ?_⟩
      intro i ri h
      exact (hpres i ri h).link (fun h => hne h.symm) hrooty hrootx (by rw [b2.plen]; exact hryn)

/-! ### simulation -/

theorem merge_arith {ri rj rx ry a b u v : Nat}
    (hA : ri = rx ↔ a = u) (hB : ri = ry ↔ a = v) (hC : rj = rx ↔ b = u) (hD : rj = ry ↔ b = v)
    (hE : ri = rj ↔ a = b) (hne : rx ≠ ry) :
    ((if ri = ry then rx else ri) = (if rj = ry then rx else rj) ↔
      (if a = v then u else a) = (if b = v then u else b)) ∧
    ((if ri = rx then ry else ri) = (if rj = rx then ry else rj) ↔
      (if a = v then u else a) = (if b = v then u else b)) := by
  constructor <;> grind

/-- the parent/rank structure and the labels describe the same partition of `0 … n-1` -/
structure SimUF (n k : Nat) (uf : UF) (lab : Lab) : Prop where
  wf : WF n k uf
  same : ∀ i j ri rj, i < n → j < n → Reach uf.parent i ri → Reach uf.parent j rj → (ri = rj ↔ lab.f i = lab.f j)

theorem simUF_init (n : Nat) : SimUF n 0 (UF.init n) Lab.id := by
  have hroot : ∀ i, (List.range n).getD i i = i := by
    intro i
    rw [List.getD_eq_getElem?_getD]
    by_cases hi : i < n
    · simp [List.getElem?_range hi]
    · simp [List.getElem?_eq_none (show (List.range n).length ≤ i by simp; omega)]
  refine ⟨⟨by simp [UF.init], by simp [UF.init], ?_, ?_, ?_⟩, ?_⟩
  · intro i hi; simp only [UF.init, hroot]; exact hi
  · intro i _ hne; exact absurd (hroot i) hne
  · intro i hi
    simp only [UF.init, List.getD_eq_getElem?_getD, List.getElem?_replicate, hi, if_true]
    simp
  · intro i j ri rj _ _ hi hj
    have h1 : ri = i := (hi.det (Reach.root (hroot i)))
    have h2 : rj = j := (hj.det (Reach.root (hroot j)))
    subst h1 h2
    simp

theorem SimUF.keep {n k : Nat} {uf uf' : UF} {lab : Lab} (h : SimUF n k uf lab) (hw : WF n k uf')
    (hpres : ∀ i ri, Reach uf.parent i ri → Reach uf'.parent i ri) : SimUF n k uf' lab := by
  refine ⟨hw, ?_⟩
  intro i j ri rj hi hj hri hrj
  obtain ⟨ri0, h1⟩ := h.wf.root_of hi
  obtain ⟨rj0, h2⟩ := h.wf.root_of hj
  have e1 := (hpres _ _ h1).det hri
  have e2 := (hpres _ _ h2).det hrj
  subst e1 e2
  exact h.same i j _ _ hi hj h1 h2

theorem SimUF.merge {n k : Nat} {uf uf' : UF} {lab : Lab} (h : SimUF n k uf lab) {x y rx ry : Nat}
    (hx : x < n) (hy : y < n) (hrx : Reach uf.parent x rx) (hry : Reach uf.parent y ry) (hne : rx ≠ ry)
    (hw : WF n (k + 1) uf') {c p : Nat} (hcp : (c = ry ∧ p = rx) ∨ (c = rx ∧ p = ry))
    (hpres : ∀ i ri, Reach uf.parent i ri → Reach uf'.parent i (if ri = c then p else ri)) :
    SimUF n (k + 1) uf' (union lab x y) := by
  refine ⟨hw, ?_⟩
  intro i j ri rj hi hj hri hrj
  obtain ⟨ri0, h1⟩ := h.wf.root_of hi
  obtain ⟨rj0, h2⟩ := h.wf.root_of hj
  have e1 := (hpres _ _ h1).det hri
  have e2 := (hpres _ _ h2).det hrj
  subst e1 e2
  have hA := h.same i x _ _ hi hx h1 hrx
  have hB := h.same i y _ _ hi hy h1 hry
  have hC := h.same j x _ _ hj hx h2 hrx
  have hD := h.same j y _ _ hj hy h2 hry
  have hE := h.same i j _ _ hi hj h1 h2
  simp only [union_f]
  have := merge_arith hA hB hC hD hE hne
  rcases hcp with ⟨rfl, rfl⟩ | ⟨rfl, rfl⟩
  · exact this.1
  · exact this.2

/-- the two loop states agree on everything `kruskal` returns and describe the same partition -/
structure SimSt (n : Nat) (su : UState) (sk : KState) : Prop where
  acc : su.acc = sk.acc
  total : su.total = sk.total
  iters : su.iters = sk.iters
  sim : SimUF n sk.acc.length su.uf sk.lab
  rep : Rep sk.lab sk.acc
  tight : sk.acc.length + comps n sk.acc = n

theorem uloop_sim {n : Nat} (rest : List Edge) : ∀ (su : UState) (sk : KState), SimSt n su sk →
    Valid n rest →
    (uloop n rest su).acc = (kloop n rest sk).acc ∧ (uloop n rest su).total = (kloop n rest sk).total ∧
    (uloop n rest su).iters = (kloop n rest sk).iters := by
  induction rest with
  | nil => intro su sk h _; exact ⟨h.acc, h.total, h.iters⟩
  | cons e rest ih =>
    intro su sk h hv
    have hu := (hv e List.mem_cons_self).1
    have hv' := (hv e List.mem_cons_self).2
    have hrest : Valid n rest := fun x hx => hv x (List.mem_cons_of_mem _ hx)
    obtain ⟨rx, hrx⟩ := h.sim.wf.root_of hu
    obtain ⟨ry, hry⟩ := h.sim.wf.root_of hv'
    have hk : sk.acc.length ≤ n := by have := h.tight; omega
    have hspec := union_spec h.sim.wf hu hv' hk hrx hry
    have hsame := h.sim.same e.u e.v rx ry hu hv' hrx hry
    unfold uloop kloop
    rw [breakOff_eq]
    generalize hun : UF.union n su.uf e.u e.v = pr at hspec
    obtain ⟨uf', merged⟩ := pr
    simp only at hspec ⊢
    by_cases heq : rx = ry
    · obtain ⟨hm, hw, hpres⟩ := hspec.1 heq
      subst hm
      have hl : sk.lab.f e.u = sk.lab.f e.v := hsame.1 heq
      simp only [Bool.not_false, if_true, hl]
      apply ih _ _ _ hrest
      exact ⟨h.acc, h.total, by simp [h.iters], h.sim.keep hw hpres, h.rep, h.tight⟩
    · obtain ⟨hm, hw, c, p, hcp, hpres⟩ := hspec.2 heq
      subst hm
      have hl : ¬ sk.lab.f e.u = sk.lab.f e.v := fun hh => heq (hsame.2 hh)
      have hnc : ¬ Conn sk.acc e.u e.v := fun hc => hl ((h.rep _ _).2 hc)
      simp only [Bool.not_true, Bool.false_eq_true, if_false, hl]
      have hst : SimSt n ⟨uf', su.acc ++ [e], su.total + e.w, su.iters + 1⟩
          ⟨union sk.lab e.u e.v, sk.acc ++ [e], sk.total + e.w, sk.iters + 1⟩ :=
        { acc := by simp [h.acc]
          total := by simp [h.total]
          iters := by simp [h.iters]
          sim := by
            have := h.sim.merge hu hv' hrx hry heq hw hcp hpres
            simpa using this
          rep := rep_union h.rep e
          tight := by
            have := comps_snoc_not (n := n) hu hv' hnc
            have := h.tight
            simp only [List.length_append, List.length_singleton]
            omega }
      rw [h.acc] at hst ⊢
      split
      · exact ⟨rfl, by simp [h.total], by simp [h.iters]⟩
      · exact ih _ _ hst hrest

/-- the parent/rank mirror of `UnionFind` makes `kruskal` return exactly what the label model returns -/
theorem kruskalUF_eq' {n : Nat} {E : List Edge} (hE : Valid n E) (af : Bool) :
    kruskalUF n E af = kruskal n E af := by
  have hinit : SimSt n ⟨UF.init n, [], 0, 0⟩ kinit :=
    ⟨rfl, rfl, rfl, by simpa [kinit] using simUF_init n, rep_id, by simp [kinit, comps_nil]⟩
  obtain ⟨h1, h2, h3⟩ := uloop_sim (sortEdges E) _ _ hinit
    (fun e he => hE e (mem_sortEdges.1 he))
  unfold kruskalUF kruskal
  simp only [h1, h2, h3]

end Solvor.Mst
