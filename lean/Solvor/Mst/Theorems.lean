import Solvor.Mst.Orient
import Solvor.Mst.UnionFind
/-!
Mst: the property theorems of C13 (definitions in `Spec.lean`, helper lemmas in `Lemmas.lean`,
`Minimal.lean`, `KruskalLemmas.lean`, `PrimLemmas.lean`, `Orient.lean`, `UnionFind.lean`).

T-spec (verified checkers, evaluated by the driver on the implementation's own output):
  `chkSpanningTree_iff`, `spanningTree_acyclic`, `chkSpanningForest_iff`, `connectedB_correct`,
  `inputShape_correct`, `IsSpanningTree.forest`, `mst_cycle_cert`, `msf_cycle_cert`
T-model (for every input):
  `kruskal_forest`, `kruskal_minimal`, `kruskalUF_eq`, `prim_tree`, `prim_minimal`, `kruskal_prim_agree`
-/
namespace Solvor.Mst
open Solvor.Gen (Status)

/-! ## T-spec -/

/-- The Bool checker run on the implementation's edge list decides "is a spanning tree":
edges of the input, `n-1` of them, joining all nodes. -/
theorem chkSpanningTree_iff (n : Nat) (E T : List Edge) :
    chkSpanningTree n E T = true ↔ IsSpanningTree n E T := by
  simp only [chkSpanningTree, Bool.and_eq_true, beq_iff_eq, subsetB_iff, connectedB_iff]
  exact ⟨fun ⟨⟨h1, h2⟩, h3⟩ => ⟨h1, h2, h3⟩, fun h => ⟨⟨h.sub, h.card⟩, h.conn⟩⟩

example : IsSpanningTree 4 [⟨0, 1, 4⟩, ⟨0, 2, 3⟩, ⟨1, 2, 2⟩, ⟨1, 3, 5⟩, ⟨2, 3, 6⟩]
    [⟨1, 2, 2⟩, ⟨0, 2, 3⟩, ⟨1, 3, 5⟩] := (chkSpanningTree_iff _ _ _).1 (by decide)

/-- `n-1` edges that join all `n` nodes contain no cycle (no self loop, no parallel pair, no longer
cycle): "without a cycle" need not be checked separately. -/
theorem spanningTree_acyclic {n : Nat} {E T : List Edge} (hE : Valid n E) (h : IsSpanningTree n E T) :
    Acyclic T := by
  have hn : 0 < n := by have := h.card; omega
  have hc := (connected_iff_comps hn T).1 h.conn
  exact tight_acyclic (valid_of_sub hE h.sub) (by have := h.card; omega)

example : Acyclic [⟨1, 2, 2⟩, ⟨0, 2, 3⟩, ⟨1, 3, 5⟩] :=
  spanningTree_acyclic (n := 4) (E := [⟨0, 1, 4⟩, ⟨0, 2, 3⟩, ⟨1, 2, 2⟩, ⟨1, 3, 5⟩, ⟨2, 3, 6⟩])
    (validB_iff.1 (by decide)) ((chkSpanningTree_iff _ _ _).1 (by decide))

/-- The Bool checker for forests decides "is a spanning forest of the input": edges of the input,
no cycle, joining everything the input joins. -/
theorem chkSpanningForest_iff (E T : List Edge) : chkSpanningForest E T = true ↔ IsSpanningForest E T := by
  simp only [chkSpanningForest, Bool.and_eq_true, subsetB_iff, forestB_iff, spansB_iff]
  exact ⟨fun ⟨⟨h1, h2⟩, h3⟩ => ⟨h1, h2, h3⟩, fun h => ⟨⟨h.sub, h.acyclic⟩, h.spans⟩⟩

example : IsSpanningForest [⟨0, 1, 4⟩, ⟨2, 3, 1⟩, ⟨2, 2, -1⟩, ⟨3, 2, 7⟩] [⟨2, 3, 1⟩, ⟨0, 1, 4⟩] :=
  (chkSpanningForest_iff _ _).1 (by decide)

/-- The connectivity test the driver uses to decide which clause of the property applies. -/
theorem connectedB_correct (n : Nat) (F : List Edge) : connectedB n F = true ↔ Connected n F := connectedB_iff

example : ¬ Connected 4 [⟨0, 1, 4⟩, ⟨2, 3, 1⟩, ⟨2, 2, -1⟩] := by
  rw [← connectedB_correct]; decide

/-- The two input-shape tests the driver evaluates on every `prim` case: the adjacency lists are
those of an undirected graph (hypothesis `GoodAdj` of `prim_tree` / `prim_minimal`), and they
describe the same undirected graph as the edge list given to `kruskal` (hypothesis `SameGraph`
of `kruskal_prim_agree`). -/
theorem inputShape_correct (adj : Adj) (E : List Edge) :
    (goodAdjB adj = true ↔ GoodAdj adj) ∧ (sameGraphB E (arcs adj) = true ↔ SameGraph E (arcs adj)) :=
  ⟨goodAdjB_iff, sameGraphB_iff⟩

example : ¬ GoodAdj [[(1, 4)], []] := by rw [← goodAdjB_iff]; decide

/-- a spanning tree is a spanning forest -/
theorem IsSpanningTree.forest {n : Nat} {E T : List Edge} (hE : Valid n E) (h : IsSpanningTree n E T) :
    IsSpanningForest E T where
  sub := h.sub
  acyclic := spanningTree_acyclic hE h
  spans := by
    intro a b hab
    by_cases heq : a = b
    · subst heq; exact Conn.refl _
    · have := hab.lt_of_valid hE heq
      exact h.conn a b this.1 this.2

/-- **Minimality certificate (forests).**  If the verified checker `chkMinCert` accepts a spanning
forest `T` of `E` – every input edge `(u, v, w)` has `u` and `v` already joined by the edges of `T`
of weight `≤ w`, i.e. no tree path has an edge heavier than a non-tree edge closing it – then `T`
weighs no more than *any* spanning forest of `E`. -/
theorem msf_cycle_cert {E T T' : List Edge} (hT : IsSpanningForest E T) (hcert : chkMinCert E T = true)
    (hT' : IsSpanningForest E T') : weight T ≤ weight T' := by
  obtain ⟨n, _, hE⟩ := exists_valid E
  have eqc : ∀ {X}, IsSpanningForest E X → comps n X = comps n E := fun hX =>
    comps_congr fun a b => ⟨Conn.mono hX.sub, hX.spans a b⟩
  have t1 := acyclic_tight (valid_of_sub hE hT.sub) hT.acyclic
  have t2 := acyclic_tight (valid_of_sub hE hT'.sub) hT'.acyclic
  have e1 := eqc hT
  have e2 := eqc hT'
  exact cert_weight_le hE hT.sub (chkMinCert_iff.1 hcert) hT'.sub t2 (by omega)

example : IsSpanningForest [⟨0, 1, 4⟩, ⟨2, 3, 1⟩, ⟨2, 2, -1⟩, ⟨3, 2, 7⟩] [⟨2, 3, 1⟩, ⟨0, 1, 4⟩] ∧
    chkMinCert [⟨0, 1, 4⟩, ⟨2, 3, 1⟩, ⟨2, 2, -1⟩, ⟨3, 2, 7⟩] [⟨2, 3, 1⟩, ⟨0, 1, 4⟩] = true ∧
    IsSpanningForest [⟨0, 1, 4⟩, ⟨2, 3, 1⟩, ⟨2, 2, -1⟩, ⟨3, 2, 7⟩] [⟨0, 1, 4⟩, ⟨3, 2, 7⟩] :=
  ⟨(chkSpanningForest_iff _ _).1 (by decide), by decide, (chkSpanningForest_iff _ _).1 (by decide)⟩

/-- **Minimality certificate (trees).**  A spanning tree accepted by `chkMinCert` is a minimum
spanning tree: it weighs no more than any spanning tree of the input. -/
theorem mst_cycle_cert {n : Nat} {E T T' : List Edge} (hE : Valid n E) (hT : IsSpanningTree n E T)
    (hcert : chkMinCert E T = true) (hT' : IsSpanningTree n E T') : weight T ≤ weight T' :=
  msf_cycle_cert (hT.forest hE) hcert (hT'.forest hE)

-- the docstring graph: the tree {1-2, 0-2, 1-3} is certified, so it is lighter than e.g. {0-1, 0-2, 2-3}
example : weight [⟨1, 2, 2⟩, ⟨0, 2, 3⟩, ⟨1, 3, 5⟩] ≤ weight [⟨0, 1, 4⟩, ⟨0, 2, 3⟩, ⟨2, 3, 6⟩] :=
  mst_cycle_cert (n := 4) (E := [⟨0, 1, 4⟩, ⟨0, 2, 3⟩, ⟨1, 2, 2⟩, ⟨1, 3, 5⟩, ⟨2, 3, 6⟩])
    (validB_iff.1 (by decide)) ((chkSpanningTree_iff _ _ _).1 (by decide)) (by decide)
    ((chkSpanningTree_iff _ _ _).1 (by decide))

/-! ## T-model: Kruskal -/

/-- **C13, structure of what `kruskal` returns** (`n ≥ 1`, endpoints `< n` – other inputs raise).
There is an edge list `acc` – the accepted edges – that
* consists of input edges (with multiplicity: a sub-multiset of `E`),
* has no cycle,
* joins exactly what the input joins, and has `n - (number of components of the input)` edges,
and the returned `Result` is: on a connected input `OPTIMAL` with solution `acc` (`n-1` edges) and
objective `Σ weights`; on a disconnected input `INFEASIBLE` without solution, or with
`allow_forest` `FEASIBLE` with the forest `acc` and its weight. -/
theorem kruskal_forest (n : Nat) (E : List Edge) (af : Bool) (hn : 0 < n) (hE : Valid n E) :
    ∃ acc : List Edge,
      acc.Subperm E ∧ Acyclic acc ∧ (∀ a b, Conn acc a b ↔ Conn E a b) ∧ acc.length + numComps n E = n ∧
      (Connected n E → acc.length + 1 = n ∧ (kruskal n E af).status = .OPTIMAL ∧
        (kruskal n E af).sol = some acc ∧ (kruskal n E af).obj = some (weight acc)) ∧
      (¬ Connected n E → af = true → (kruskal n E af).status = .FEASIBLE ∧
        (kruskal n E af).sol = some acc ∧ (kruskal n E af).obj = some (weight acc)) ∧
      (¬ Connected n E → af = false → (kruskal n E af).status = .INFEASIBLE ∧
        (kruskal n E af).sol = none ∧ (kruskal n E af).obj = none) := by
  have hp := kruskal_post hn hE
  set s := kloop n (sortEdges E) kinit with hs
  have hv : Valid n s.acc := valid_of_sub hE hp.mem
  have hcomps : s.acc.length + comps n E = n := by rw [← hp.comps_eq]; exact hp.tight
  have hkr : kruskal n E af = kfinish n E.length af s.acc s.total s.iters := rfl
  rw [hkr]
  refine ⟨s.acc, hp.sub.subperm.trans (sortEdges_perm E).subperm, tight_acyclic hv hp.tight, hp.conn_iff,
    by rw [← comps_eq_numComps]; exact hcomps, ?_, ?_, ?_⟩
  · intro hc
    have h1 : comps n E = 1 := (connected_iff_comps hn E).1 hc
    have hlen : s.acc.length + 1 = n := by omega
    have : ¬ s.acc.length + 1 < n := by omega
    simp [kfinish, shortOff_eq, hp.total, hlen]
  · intro hc haf
    have h1 : comps n E ≠ 1 := fun h => hc ((connected_iff_comps hn E).2 h)
    have h2 := comps_pos hn E
    have : s.acc.length + 1 < n := by omega
    simp [kfinish, shortOff_eq, this, haf, hp.total]
  · intro hc haf
    have h1 : comps n E ≠ 1 := fun h => hc ((connected_iff_comps hn E).2 h)
    have h2 := comps_pos hn E
    have : s.acc.length + 1 < n := by omega
    simp [kfinish, shortOff_eq, this, haf]

-- non-vacuity: the docstring graph (connected) and a disconnected graph with a self loop
example : (kruskal 4 [⟨0, 1, 4⟩, ⟨0, 2, 3⟩, ⟨1, 2, 2⟩, ⟨1, 3, 5⟩, ⟨2, 3, 6⟩] false).sol
    = some [⟨1, 2, 2⟩, ⟨0, 2, 3⟩, ⟨1, 3, 5⟩] := by decide
example : 0 < 4 ∧ Valid 4 [⟨0, 1, 4⟩, ⟨0, 2, 3⟩, ⟨1, 2, 2⟩, ⟨1, 3, 5⟩, ⟨2, 3, 6⟩] :=
  ⟨by omega, validB_iff.1 (by decide)⟩
example : (kruskal 4 [⟨0, 1, 4⟩, ⟨2, 3, 1⟩, ⟨2, 2, -1⟩] true).status = .FEASIBLE := by decide

/-- **C13, minimality of `kruskal`** (the exchange argument, in counting form).  Whatever edge list
`kruskal` returns – a tree on a connected input, a forest with `allow_forest` – weighs no more
than any spanning forest of the input, in particular no more than any spanning tree; and the
reported objective is that weight. -/
theorem kruskal_minimal (n : Nat) (E : List Edge) (af : Bool) (hn : 0 < n) (hE : Valid n E)
    (acc : List Edge) (hsol : (kruskal n E af).sol = some acc) :
    (kruskal n E af).obj = some (weight acc) ∧
    (∀ T', IsSpanningForest E T' → weight acc ≤ weight T') ∧
    (∀ T', IsSpanningTree n E T' → weight acc ≤ weight T') := by
  have hp := kruskal_post hn hE
  set s := kloop n (sortEdges E) kinit with hs
  have hkr : kruskal n E af = kfinish n E.length af s.acc s.total s.iters := rfl
  have hacc : acc = s.acc ∧ (kruskal n E af).obj = some (weight acc) := by
    rw [hkr] at hsol ⊢
    unfold kfinish at hsol ⊢
    rw [shortOff_eq] at hsol ⊢
    by_cases h1 : s.acc.length + 1 < n <;> by_cases h2 : af = true <;>
      simp only [h1, h2, if_true, if_false, Option.some.injEq, reduceCtorEq] at hsol ⊢ <;>
      (subst hsol; exact ⟨rfl, by rw [hp.total]⟩)
  obtain ⟨rfl, hobj⟩ := hacc
  have hv : Valid n s.acc := valid_of_sub hE hp.mem
  have hforest : IsSpanningForest E s.acc :=
    ⟨hp.mem, tight_acyclic hv hp.tight, fun a b hab => (hp.conn_iff a b).2 hab⟩
  have hmin : ∀ T', IsSpanningForest E T' → weight s.acc ≤ weight T' := fun T' hT' =>
    msf_cycle_cert hforest (chkMinCert_iff.2 hp.minCert) hT'
  exact ⟨hobj, hmin, fun T' hT' => hmin T' (hT'.forest hE)⟩

example : (kruskal 4 [⟨0, 1, 4⟩, ⟨0, 2, 3⟩, ⟨1, 2, 2⟩, ⟨1, 3, 5⟩, ⟨2, 3, 6⟩] false).obj = some 10 ∧
    IsSpanningTree 4 [⟨0, 1, 4⟩, ⟨0, 2, 3⟩, ⟨1, 2, 2⟩, ⟨1, 3, 5⟩, ⟨2, 3, 6⟩] [⟨0, 1, 4⟩, ⟨0, 2, 3⟩, ⟨2, 3, 6⟩] :=
  ⟨by decide, (chkSpanningTree_iff _ _ _).1 (by decide)⟩

/-- **The union–find inside `kruskal`.**  The literal mirror of `solvor.utils.UnionFind` – parent
and rank arrays, recursive `find` with path compression (fuel `n` is enough: ranks grow along
parent pointers and are bounded by the number of unions), union by rank – makes the Kruskal loop
return exactly what the label model returns, iteration count included.  So every theorem above is
a theorem about `kruskalUF` as well. -/
theorem kruskalUF_eq (n : Nat) (E : List Edge) (af : Bool) (hE : Valid n E) :
    kruskalUF n E af = kruskal n E af := kruskalUF_eq' hE af

example : kruskalUF 4 [⟨0, 1, 4⟩, ⟨0, 2, 3⟩, ⟨1, 2, 2⟩, ⟨1, 3, 5⟩, ⟨2, 3, 6⟩] false
    = ⟨.OPTIMAL, some [⟨1, 2, 2⟩, ⟨0, 2, 3⟩, ⟨1, 3, 5⟩], some 10, 4, 5⟩ := by decide

/-! ## T-model: Prim -/

/-- **C13, structure of what `prim` returns** on an undirected graph given as adjacency lists
(every neighbour is a key, every edge listed from both ends), from any start node: on a connected
graph `OPTIMAL` with `n-1` arcs of the input that join all nodes – a spanning tree, hence without
a cycle – and objective `Σ weights`; on a disconnected graph `INFEASIBLE` without solution. -/
theorem prim_tree (adj : Adj) (start : Nat) (hg : GoodAdj adj) (hs : start < adj.length) :
    (Connected adj.length (arcs adj) → ∃ acc, (prim adj start).status = .OPTIMAL ∧
        (prim adj start).sol = some acc ∧ (prim adj start).obj = some (weight acc) ∧
        IsSpanningTree adj.length (arcs adj) acc ∧ Acyclic acc) ∧
    (¬ Connected adj.length (arcs adj) → (prim adj start).status = .INFEASIBLE ∧
        (prim adj start).sol = none ∧ (prim adj start).obj = none) := by
  rcases prim_cases hg hs with ⟨acc, hp, htree, _⟩ | ⟨hp, hnc⟩
  · have hc : Connected adj.length (arcs adj) := fun a b ha hb => Conn.mono htree.sub (htree.conn a b ha hb)
    refine ⟨fun _ => ⟨acc, ?_, ?_, ?_, htree, spanningTree_acyclic hg.valid htree⟩, fun h => absurd hc h⟩ <;> rw [hp]
  · refine ⟨fun h => absurd h hnc, fun _ => ?_⟩
    rw [hp]; exact ⟨rfl, rfl, rfl⟩

-- non-vacuity: the docstring graph as adjacency lists, started from node 3
example : GoodAdj [[(1, 4), (2, 3)], [(0, 4), (2, 2), (3, 5)], [(0, 3), (1, 2), (3, 6)], [(1, 5), (2, 6)]] ∧
    (prim [[(1, 4), (2, 3)], [(0, 4), (2, 2), (3, 5)], [(0, 3), (1, 2), (3, 6)], [(1, 5), (2, 6)]] 3).sol
      = some [⟨3, 1, 5⟩, ⟨1, 2, 2⟩, ⟨2, 0, 3⟩] := by
  exact ⟨goodAdjB_iff.1 (by decide), by decide⟩

/-- **C13, minimality of `prim`** (the cut argument, carried as the bottleneck clause of the loop
invariant): the tree `prim` returns weighs no more than any spanning tree – indeed any spanning
forest – of the input. -/
theorem prim_minimal (adj : Adj) (start : Nat) (hg : GoodAdj adj) (hs : start < adj.length)
    (acc : List Edge) (hsol : (prim adj start).sol = some acc) :
    (prim adj start).obj = some (weight acc) ∧
    (∀ T', IsSpanningTree adj.length (arcs adj) T' → weight acc ≤ weight T') ∧
    (∀ T', IsSpanningForest (arcs adj) T' → weight acc ≤ weight T') := by
  rcases prim_cases hg hs with ⟨acc', hp, htree, hcert⟩ | ⟨hp, _⟩
  · rw [hp] at hsol ⊢
    simp only [Option.some.injEq] at hsol
    subst hsol
    have hmin : ∀ T', IsSpanningForest (arcs adj) T' → weight acc' ≤ weight T' := fun T' hT' =>
      msf_cycle_cert (htree.forest hg.valid) (chkMinCert_iff.2 hcert) hT'
    exact ⟨rfl, fun T' hT' => hmin T' (hT'.forest hg.valid), hmin⟩
  · rw [hp] at hsol; simp at hsol

example : (prim [[(1, 4), (2, 3)], [(0, 4), (2, 2), (3, 5)], [(0, 3), (1, 2), (3, 6)], [(1, 5), (2, 6)]] 3).obj
    = some 10 := by decide

/-- **C13, the two agree.**  `kruskal` is given the edge list `E` (each undirected edge once, in
some orientation), `prim` the adjacency lists `adj` of the same undirected graph (`SameGraph`,
decided by the verified `sameGraphB`).  On a connected graph both report the same objective, for
either value of `allow_forest` and every start node. -/
theorem kruskal_prim_agree (n : Nat) (E : List Edge) (af : Bool) (adj : Adj) (start : Nat)
    (hn : 0 < n) (hE : Valid n E) (hg : GoodAdj adj) (hs : start < adj.length) (hlen : adj.length = n)
    (hsame : SameGraph E (arcs adj)) (hc : Connected n E) :
    (kruskal n E af).obj = (prim adj start).obj ∧ (prim adj start).obj ≠ none := by
  subst hlen
  have hcA : Connected adj.length (arcs adj) := fun a b ha hb => hsame.1.conn (hc a b ha hb)
  obtain ⟨accK, hsubK, hacK, hconnK, _, hK, _, _⟩ := kruskal_forest adj.length E af hn hE
  obtain ⟨_, _, hsolK, hobjK⟩ := hK hc
  obtain ⟨accP, _, hsolP, hobjP, htreeP, _⟩ := (prim_tree adj start hg hs).1 hcA
  have hminK := (kruskal_minimal adj.length E af hn hE accK hsolK).2.1
  have hminP := (prim_minimal adj start hg hs accP hsolP).2.2
  have hforK : IsSpanningForest E accK := ⟨fun e he => hsubK.subset he, hacK, fun a b h => (hconnK a b).2 h⟩
  have hforP : IsSpanningForest (arcs adj) accP := htreeP.forest hg.valid
  obtain ⟨f1, w1⟩ := forest_transfer hsame hforP
  obtain ⟨f2, w2⟩ := forest_transfer hsame.symm hforK
  have h1 := hminK _ f1
  have h2 := hminP _ f2
  rw [hobjK, hobjP]
  exact ⟨by rw [show weight accK = weight accP by omega], by simp⟩

-- non-vacuity: the docstring graph, once as an edge list and once as adjacency lists
example : SameGraph [⟨0, 1, 4⟩, ⟨0, 2, 3⟩, ⟨1, 2, 2⟩, ⟨1, 3, 5⟩, ⟨2, 3, 6⟩]
      (arcs [[(1, 4), (2, 3)], [(0, 4), (2, 2), (3, 5)], [(0, 3), (1, 2), (3, 6)], [(1, 5), (2, 6)]]) ∧
    GoodAdj [[(1, 4), (2, 3)], [(0, 4), (2, 2), (3, 5)], [(0, 3), (1, 2), (3, 6)], [(1, 5), (2, 6)]] ∧
    Connected 4 [⟨0, 1, 4⟩, ⟨0, 2, 3⟩, ⟨1, 2, 2⟩, ⟨1, 3, 5⟩, ⟨2, 3, 6⟩] :=
  ⟨sameGraphB_iff.1 (by decide), goodAdjB_iff.1 (by decide), connectedB_iff.1 (by decide)⟩

end Solvor.Mst
