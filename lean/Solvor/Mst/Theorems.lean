import Solvor.Mst.Model
/-! Mst: property theorems only (helper lemmas live in Lemmas.lean). -/
namespace Solvor.Mst

end Solvor.Mst
