import Solvor.Common.Proto
import Solvor.Mst.Model
/-! Mst: line-protocol handler.

request `["kruskal", n, edges, allowForest|null, implSol|null]`
  edges   : list of `[u, v, w]` (weights scaled to integers by the harness)
  allowForest : `null` = keyword not passed: the default read from the source (`Gen.Mst.kruskalAllowForest`)
  implSol : the edge list returned by the implementation (same encoding) or `null`
reply `[status, sol|null, obj|null, iters, ufSame, connected, comps, brute|null, valid, implChk]`
  status/sol/obj/iters : the mirror `kruskal`
  ufSame    : the parent/rank mirror `kruskalUF` returned the same `Result`
  connected : verified `connectedB n edges`
  comps     : number of components of the input
  brute     : `mstBrute` (bounded oracle) when `edges.length ≤ 12`, else `null`
  valid     : `n ≥ 1` and endpoints `< n`
  implChk   : `null` or `[subset, tree, forest, cert, weight]` – the verified checkers
              `subsetB`, `chkSpanningTree`, `chkSpanningForest`, `chkMinCert` and `weight`
              evaluated on the implementation's edge list

request `["prim", adj, start, implSol|null, edges]`
  adj   : per node (dict-key order) the list of `[neighbour, w]`
  edges : the edge list given to `kruskal` for the same graph
reply: same layout (`ufSame` is `true`, the edge list of the input is `arcs adj`) followed by
  `[goodAdj, sameGraph]` – the verified `goodAdjB adj` (hypothesis of `prim_tree`/`prim_minimal`)
  and `sameGraphB edges (arcs adj)` (hypothesis of `kruskal_prim_agree`).
-/
namespace Solvor.Mst
open Solvor.Proto

def toEdge? : List Int → Option Edge
  | [u, v, w] => if u < 0 || v < 0 then none else some ⟨u.toNat, v.toNat, w⟩
  | _ => none

def toEdges? (v : Val) : Option (List Edge) := do (← v.toIntss?).mapM toEdge?

def toNbr? : List Int → Option (Nat × Int)
  | [v, w] => if v < 0 then none else some (v.toNat, w)
  | _ => none

def toAdj? (v : Val) : Option Adj := do
  (← v.toArr?).mapM fun row => do (← row.toIntss?).mapM toNbr?

def ofEdge (e : Edge) : Val := Val.arr [Val.int e.u, Val.int e.v, Val.int e.w]
def ofEdges (es : List Edge) : Val := Val.arr (es.map ofEdge)

def implChk (n : Nat) (E : List Edge) : Option (List Edge) → Val
  | none => Val.null
  | some T => Val.arr [Val.bool (subsetB T E), Val.bool (chkSpanningTree n E T),
      Val.bool (chkSpanningForest E T), Val.bool (chkMinCert E T), Val.int (weight T)]

def reply (r : Result) (ufSame : Bool) (n : Nat) (E : List Edge) (impl : Option (List Edge))
    (extra : List Val := []) : String :=
  (Val.arr ([Val.str r.status.name, Val.ofOpt ofEdges r.sol, Val.ofOpt Val.int r.obj, Val.int r.iters,
    Val.bool ufSame, Val.bool (connectedB n E), Val.int (compCount n E),
    (if E.length ≤ 12 then Val.ofOpt Val.int (mstBrute n E) else Val.null),
    Val.bool (decide (0 < n) && validB n E), implChk n E impl] ++ extra)).render

def handle (line : String) : String :=
  match request line with
  | some ("kruskal", [n, edges, af, impl]) =>
    match n.toNat?, toEdges? edges, af.toOpt? Val.toBool?, impl.toOpt? toEdges? with
    | some n, some E, some af, some impl =>
      let af := af.getD Solvor.Gen.Mst.kruskalAllowForest
      let r := kruskal n E af
      reply r (decide (kruskalUF n E af = r)) n E impl
    | _, _, _, _ => err "bad arguments"
  | some ("prim", [adj, start, impl, edges]) =>
    match toAdj? adj, start.toNat?, impl.toOpt? toEdges?, toEdges? edges with
    | some adj, some start, some impl, some E =>
      reply (prim adj start) true adj.length (arcs adj) impl
        [Val.arr [Val.bool (goodAdjB adj), Val.bool (sameGraphB E (arcs adj))]]
    | _, _, _, _ => err "bad arguments"
  | _ => err "bad request"

end Solvor.Mst
