import Solvor.Common.Proto
import Solvor.Mst.Model
/-! Mst: line-protocol handler.

request `["kruskal", n, edges, allowForest|null, implSol|null, doCert]`
  edges   : list of `[u, v, w]` (weights scaled to integers by the harness)
  allowForest : `null` = keyword not passed: the default read from the source (`Gen.Mst.kruskalAllowForest`)
  implSol : the edge list returned by the implementation (same encoding) or `null`
  doCert  : `false` skips `chkMinCert` (cubic in the number of edges; the harness turns it off for
            the 1000–2500-node family, where minimality of the implementation's tree follows from
            `chkSpanningTree` + "weight = weight of the mirror" + `kruskal_minimal`/`prim_minimal`)
reply `[status, sol|null, obj|null, iters, ufSame, connected, comps, brute|null, valid, implChk]`
  status/sol/obj/iters : the mirror `kruskal`
  ufSame    : the parent/rank mirror `kruskalUF` returned the same `Result`
  connected : verified `connectedB n edges`
  comps     : number of components of the input
  brute     : `mstBrute` (bounded oracle) when `edges.length ≤ 12`, else `null`
  valid     : `n ≥ 1` and endpoints `< n`
  implChk   : `null` or `[subset, tree, forest, cert, weight]` – the verified checkers
              `subsetB`, `chkSpanningTree`, `chkSpanningForest`, `chkMinCert` and `weight`
              evaluated on the implementation's edge list

request `["prim", adj, start, implSol|null, edges, doCert]`
  adj   : per node (dict-key order) the list of `[neighbour, w]`
  edges : the edge list given to `kruskal` for the same graph
reply: same layout (`ufSame` is `true`, the edge list of the input is `arcs adj`) followed by
  `[goodAdj, sameGraph]` – the verified `goodAdjB adj` (hypothesis of `prim_tree`/`prim_minimal`)
  and `sameGraphB edges (arcs adj)` (hypothesis of `kruskal_prim_agree`).
-/
namespace Solvor.Mst
open Solvor.Proto

def toEdge? : List Int → Option Edge
  | [u, v, w] => if u < 0 || v < 0 then none else some ⟨u.toNat, v.toNat, w⟩
  | _ => none

def toEdges? (v : Val) : Option (List Edge) := do (← v.toIntss?).mapM toEdge?

def toNbr? : List Int → Option (Nat × Int)
  | [v, w] => if v < 0 then none else some (v.toNat, w)
  | _ => none

def toAdj? (v : Val) : Option Adj := do
  (← v.toArr?).mapM fun row => do (← row.toIntss?).mapM toNbr?

def ofEdge (e : Edge) : Val := Val.arr [Val.int e.u, Val.int e.v, Val.int e.w]
def ofEdges (es : List Edge) : Val := Val.arr (es.map ofEdge)

def implChk (n : Nat) (E : List Edge) (doCert : Bool) : Option (List Edge) → Val
  | none => Val.null
  | some T => Val.arr [Val.bool (subsetB T E), Val.bool (chkSpanningTree n E T),
      Val.bool (chkSpanningForest E T), (if doCert then Val.bool (chkMinCert E T) else Val.null),
      Val.int (weight T)]

def reply (r : Result) (ufSame : Bool) (n : Nat) (E : List Edge) (impl : Option (List Edge)) (doCert : Bool)
    (extra : List Val := []) : String :=
  (Val.arr ([Val.str r.status.name, Val.ofOpt ofEdges r.sol, Val.ofOpt Val.int r.obj, Val.int r.iters,
    Val.bool ufSame, Val.bool (connectedB n E), Val.int (compCount n E),
    (if E.length ≤ 12 then Val.ofOpt Val.int (mstBrute n E) else Val.null),
    Val.bool (decide (0 < n) && validB n E), implChk n E doCert impl] ++ extra)).render

def handle (line : String) : String :=
  match request line with
  | some ("kruskal", [n, edges, af, impl, dc]) =>
    match n.toNat?, toEdges? edges, af.toOpt? Val.toBool?, impl.toOpt? toEdges?, dc.toBool? with
    | some n, some E, some af, some impl, some dc =>
      let af := af.getD Solvor.Gen.Mst.kruskalAllowForest
      let r := kruskal n E af
      reply r (decide (kruskalUF n E af = r)) n E impl dc
    | _, _, _, _, _ => err "bad arguments"
  | some ("prim", [adj, start, impl, edges, dc]) =>
    match toAdj? adj, start.toNat?, impl.toOpt? toEdges?, toEdges? edges, dc.toBool? with
    | some adj, some start, some impl, some E, some dc =>
      reply (prim adj start) true adj.length (arcs adj) impl dc
        [Val.arr [Val.bool (goodAdjB adj), Val.bool (sameGraphB E (arcs adj))]]
    | _, _, _, _, _ => err "bad arguments"
  | _ => err "bad request"

end Solvor.Mst
