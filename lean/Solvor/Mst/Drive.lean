import Solvor.Common.Proto
import Solvor.Mst.Model
/-! Mst: line-protocol handler. One request line in, one reply line out. -/
namespace Solvor.Mst

def handle (line : String) : String := "unimplemented " ++ line

end Solvor.Mst
