import Solvor.Mst.Minimal
/-!
Mst: helper lemmas, part 3 – the loop invariant of the Kruskal mirror and the Bool checkers.
-/
namespace Solvor.Mst

theorem weight_append (A B : List Edge) : weight (A ++ B) = weight A + weight B := by
  induction A with
  | nil => simp [weight]
  | cons a A ih => simp [weight, ih]; omega

/-- what holds of the loop state after the edges `S` have been looked at (or the loop has stopped
early): the labels are those of the accepted edges, the accepted edges are a sub-list of `S` with
no cycle (`length + comps = n`), `total` is their weight, and every edge of `S` has its endpoints
joined by the accepted edges that are no heavier (the cycle-property certificate). -/
structure KPost (n : Nat) (S : List Edge) (s : KState) : Prop where
  rep : Rep s.lab s.acc
  sub : s.acc.Sublist S
  tight : s.acc.length + comps n s.acc = n
  total : s.total = weight s.acc
  cert : ∀ e ∈ S, Conn (s.acc.filter fun f => decide (f.w ≤ e.w)) e.u e.v

theorem kpost_init (n : Nat) : KPost n [] kinit where
  rep := rep_id
  sub := List.Sublist.refl _
  tight := by simp [kinit, comps_nil]
  total := rfl
  cert := fun e he => by cases he

def SortedW (S : List Edge) : Prop := S.Pairwise fun a b => a.w ≤ b.w

theorem filter_le_eq_self {A : List Edge} {t : Int} (h : ∀ f ∈ A, f.w ≤ t) :
    (A.filter fun f => decide (f.w ≤ t)) = A :=
  List.filter_eq_self.2 fun f hf => by simpa using h f hf

/-- the `break`: once `n-1` edges are accepted everything is joined, so the remaining (heavier)
edges satisfy the certificate too -/
theorem kpost_break {n : Nat} {P R : List Edge} {s : KState} (hn : 0 < n) (h : KPost n P s)
    (hlen : s.acc.length + 1 = n) (hs : SortedW (P ++ R)) (hv : Valid n (P ++ R)) : KPost n (P ++ R) s where
  rep := h.rep
  sub := h.sub.trans (List.sublist_append_left _ _)
  tight := h.tight
  total := h.total
  cert := by
    intro e he
    rcases List.mem_append.1 he with hp | hr
    · exact h.cert e hp
    · have hall : ∀ f ∈ s.acc, f.w ≤ e.w := fun f hf =>
        (List.pairwise_append.1 hs).2.2 f (h.sub.subset hf) e hr
      rw [filter_le_eq_self hall]
      have hc : comps n s.acc = 1 := by have := h.tight; omega
      exact (connected_iff_comps hn _).2 hc _ _ (hv e he).1 (hv e he).2

theorem kloop_post {n : Nat} (hn : 0 < n) (rest : List Edge) : ∀ (pre : List Edge) (s : KState),
    KPost n pre s → SortedW (pre ++ rest) → Valid n (pre ++ rest) → KPost n (pre ++ rest) (kloop n rest s) := by
  induction rest with
  | nil => intro pre s h _ _; simpa [kloop] using h
  | cons e rest ih =>
    intro pre s h hs hv
    have happ : pre ++ e :: rest = (pre ++ [e]) ++ rest := by simp
    have he : e ∈ pre ++ e :: rest := by simp
    have hle : ∀ f ∈ s.acc, f.w ≤ e.w := fun f hf =>
      (List.pairwise_append.1 hs).2.2 f (h.sub.subset hf) e List.mem_cons_self
    unfold kloop
    rw [breakOff_eq]
    split
    · -- rejected: endpoints already joined
      rename_i heq
      have h1 : KPost n (pre ++ [e]) { s with iters := s.iters + 1 } :=
        { rep := h.rep
          sub := h.sub.trans (List.sublist_append_left _ _)
          tight := h.tight
          total := h.total
          cert := by
            intro x hx
            rcases List.mem_append.1 hx with hp | hx
            · exact h.cert x hp
            · have : x = e := by simpa using hx
              subst this
              show Conn (s.acc.filter _) x.u x.v
              rw [filter_le_eq_self hle]
              exact (h.rep _ _).1 heq }
      rw [happ]
      exact ih _ _ h1 (happ ▸ hs) (happ ▸ hv)
    · -- accepted
      rename_i hne
      have hnc : ¬ Conn s.acc e.u e.v := fun hc => hne ((h.rep _ _).2 hc)
      have h1 : KPost n (pre ++ [e]) ⟨union s.lab e.u e.v, s.acc ++ [e], s.total + e.w, s.iters + 1⟩ :=
        { rep := rep_union h.rep e
          sub := List.Sublist.append h.sub (List.Sublist.refl _)
          tight := by
            have := comps_snoc_not (n := n) (hv e he).1 (hv e he).2 hnc
            have := h.tight
            simp only [List.length_append, List.length_singleton]
            omega
          total := by
            show s.total + e.w = weight (s.acc ++ [e])
            rw [weight_append, h.total]; simp [weight]
          cert := by
            intro x hx
            show Conn ((s.acc ++ [e]).filter _) x.u x.v
            rcases List.mem_append.1 hx with hp | hx
            · refine Conn.mono ?_ (h.cert x hp)
              intro f hf
              rw [List.filter_append]
              exact List.mem_append_left _ hf
            · have : x = e := by simpa using hx
              subst this
              exact Conn.edge (List.mem_filter.2 ⟨by simp, by simp⟩) }
      simp only
      split
      · rename_i hlen
        rw [happ]
        exact kpost_break hn h1 hlen (happ ▸ hs) (happ ▸ hv)
      · rw [happ]
        exact ih _ _ h1 (happ ▸ hs) (happ ▸ hv)

theorem insertW_perm (e : Edge) (l : List Edge) : (insertW e l).Perm (e :: l) := by
  induction l with
  | nil => exact List.Perm.refl _
  | cons x xs ih =>
    unfold insertW
    split
    · exact List.Perm.refl _
    · exact (List.Perm.cons x ih).trans (List.Perm.swap e x xs)

theorem insertW_sorted (e : Edge) {l : List Edge} (h : SortedW l) : SortedW (insertW e l) := by
  induction l with
  | nil => simp [insertW, SortedW]
  | cons x xs ih =>
    unfold insertW
    have hx := List.pairwise_cons.1 h
    split
    · rename_i hle
      refine List.pairwise_cons.2 ⟨?_, h⟩
      intro y hy
      rcases List.mem_cons.1 hy with rfl | hy
      · exact hle
      · exact Int.le_trans hle (hx.1 y hy)
    · rename_i hnle
      refine List.pairwise_cons.2 ⟨?_, ih hx.2⟩
      intro y hy
      rcases List.mem_cons.1 ((insertW_perm e xs).mem_iff.1 hy) with rfl | hy
      · omega
      · exact hx.1 y hy

theorem sortEdges_perm (E : List Edge) : (sortEdges E).Perm E := by
  induction E with
  | nil => exact List.Perm.refl _
  | cons e E ih => exact (insertW_perm e _).trans (List.Perm.cons e ih)

theorem sortEdges_sorted (E : List Edge) : SortedW (sortEdges E) := by
  induction E with
  | nil => simp [sortEdges, SortedW]
  | cons e E ih => exact insertW_sorted e ih

theorem mem_sortEdges {E : List Edge} {e : Edge} : e ∈ sortEdges E ↔ e ∈ E := (sortEdges_perm E).mem_iff

/-- the state the Kruskal loop ends in -/
theorem kruskal_post {n : Nat} (hn : 0 < n) {E : List Edge} (hE : Valid n E) :
    KPost n (sortEdges E) (kloop n (sortEdges E) kinit) := by
  have := kloop_post hn (sortEdges E) [] kinit (kpost_init n)
    (by simpa using sortEdges_sorted E) (by intro e he; exact hE e (mem_sortEdges.1 (by simpa using he)))
  simpa using this

/-! ### consequences of `KPost` on the whole input -/

theorem KPost.conn_iff {n : Nat} {E : List Edge} {s : KState} (h : KPost n (sortEdges E) s) (a b : Nat) :
    Conn s.acc a b ↔ Conn E a b := by
  constructor
  · exact Conn.mono fun e he => mem_sortEdges.1 (h.sub.subset he)
  · refine Conn.of_edges ?_
    intro e he
    exact Conn.mono (fun f hf => (List.mem_filter.1 hf).1) (h.cert e (mem_sortEdges.2 he))

theorem KPost.comps_eq {n : Nat} {E : List Edge} {s : KState} (h : KPost n (sortEdges E) s) :
    comps n s.acc = comps n E := comps_congr h.conn_iff

theorem KPost.minCert {n : Nat} {E : List Edge} {s : KState} (h : KPost n (sortEdges E) s) : MinCert E s.acc :=
  fun e he => h.cert e (mem_sortEdges.2 he)

theorem KPost.mem {n : Nat} {E : List Edge} {s : KState} (h : KPost n (sortEdges E) s) : ∀ e ∈ s.acc, e ∈ E :=
  fun _ he => mem_sortEdges.1 (h.sub.subset he)

/-! ### Bool checkers -/

theorem subsetB_iff {T E : List Edge} : subsetB T E = true ↔ ∀ e ∈ T, e ∈ E := by
  simp [subsetB]

theorem validB_iff {n : Nat} {E : List Edge} : validB n E = true ↔ Valid n E := by
  simp [validB, Valid]

theorem connectedB_iff {n : Nat} {F : List Edge} : connectedB n F = true ↔ Connected n F := by
  have hrep := labOf_rep F
  simp only [connectedB, List.all_eq_true, List.mem_range, beq_iff_eq]
  constructor
  · intro h a b ha hb
    exact (hrep a b).1 ((h a ha).trans (h b hb).symm)
  · intro h i hi
    exact (hrep i 0).2 (h i 0 hi (by omega))

theorem spansB_iff {E T : List Edge} : spansB E T = true ↔ ∀ a b, Conn E a b → Conn T a b := by
  have hrep := labOf_rep T
  simp only [spansB, List.all_eq_true, beq_iff_eq]
  constructor
  · intro h a b hab
    exact Conn.of_edges (fun e he => (hrep _ _).1 (h e he)) hab
  · intro h e he
    exact (hrep _ _).2 (h _ _ (Conn.edge he))

theorem chkMinCert_iff {E T : List Edge} : chkMinCert E T = true ↔ MinCert E T := by
  simp only [chkMinCert, List.all_eq_true, beq_iff_eq, MinCert]
  constructor
  · intro h e he; exact (labOf_rep _ _ _).1 (h e he)
  · intro h e he; exact (labOf_rep _ _ _).2 (h e he)

theorem forestGo_tight {n : Nat} (T : List Edge) : ∀ (lab : Lab) (F : List Edge), Rep lab F → Valid n T →
    forestGo lab T = true → comps n (F ++ T) + T.length = comps n F := by
  induction T with
  | nil => intro lab F _ _ _; simp
  | cons e T ih =>
    intro lab F hrep hv hgo
    simp only [forestGo, Bool.and_eq_true, bne_iff_ne, ne_eq] at hgo
    have hnc : ¬ Conn F e.u e.v := fun hc => hgo.1 ((hrep _ _).2 hc)
    have h1 := comps_snoc_not (n := n) (hv e List.mem_cons_self).1 (hv e List.mem_cons_self).2 hnc
    have h2 := ih _ _ (rep_union hrep e) (fun x hx => hv x (List.mem_cons_of_mem _ hx)) hgo.2
    simp only [List.append_assoc, List.singleton_append, List.length_cons] at h2 ⊢
    omega

theorem forestB_acyclic {T : List Edge} (h : forestB T = true) : Acyclic T := by
  obtain ⟨n, _, hv⟩ := exists_valid T
  have := forestGo_tight (n := n) T Lab.id [] rep_id hv h
  simp only [List.nil_append, comps_nil] at this
  exact tight_acyclic hv (by omega)

theorem acyclic_forestGo (T : List Edge) : ∀ (lab : Lab) (F : List Edge), Rep lab F →
    (∀ l₁ e l₂, T = l₁ ++ e :: l₂ → ¬ Conn (F ++ l₁) e.u e.v) → forestGo lab T = true := by
  induction T with
  | nil => intro _ _ _ _; rfl
  | cons e T ih =>
    intro lab F hrep h
    simp only [forestGo, Bool.and_eq_true, bne_iff_ne, ne_eq]
    refine ⟨?_, ih _ _ (rep_union hrep e) ?_⟩
    · intro heq
      exact h [] e T rfl (by simpa using (hrep _ _).1 heq)
    · intro l₁ x l₂ hdec
      have := h (e :: l₁) x l₂ (by simp [hdec])
      simpa [List.append_assoc] using this

theorem forestB_iff {T : List Edge} : forestB T = true ↔ Acyclic T := by
  refine ⟨forestB_acyclic, fun h => acyclic_forestGo T Lab.id [] rep_id ?_⟩
  intro l₁ e l₂ hdec hc
  exact h l₁ e l₂ hdec (Conn.mono (fun x hx => by simpa using List.mem_append_left l₂ (by simpa using hx)) hc)

end Solvor.Mst
