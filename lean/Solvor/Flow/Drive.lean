import Solvor.Common.Proto
import Solvor.Flow.Model
/-! Flow: line-protocol handler. One request line in, one reply line out.

request `["maxflow", n, arcs, s, t, implFlow|null, implObjective|null]`
  nodes are `0..n-1`; arcs = `[[u, v, cap], …]` in the iteration order of the `graph` argument;
  implFlow = `[[u, v, x], …]` the implementation's returned dict
reply `[value, flow, vis, augs, cancels, done, modelCert, implChecks|null, partialCancels, repushAfterCancel]`
  value/flow/vis/augs : the mirror `Net.maxFlow` (flow = positive entries `[u, v, x]`)
  modelCert           : verified checker `chkMaxFlow` on the mirror's own flow and cut
  implChecks          : `[keys, cap, cons, value, cut]` – the verified checker's clauses on the
                        implementation's flow, its objective, and the *mirror's* cut
-/
namespace Solvor.Flow
open Solvor.Proto

def toArcs? (v : Val) : Option Arcs := do
  let rows ← v.toIntss?
  rows.mapM fun r =>
    match r with
    | [a, b, c] => if a < 0 || b < 0 then none else some (a.toNat, b.toNat, c)
    | _ => none

def toFlowT? (v : Val) : Option FlowT := do
  let rows ← v.toIntss?
  rows.mapM fun r =>
    match r with
    | [a, b, c] => if a < 0 || b < 0 then none else some ((a.toNat, b.toNat), c)
    | _ => none

def ofTriples (l : List (Nat × Nat × Int)) : Val :=
  Val.arr (l.map fun e => Val.arr [Val.int e.1, Val.int e.2.1, Val.int e.2.2])

def handleMaxFlow (n : Nat) (arcs : Arcs) (s t : Nat) (impl : Option FlowT) (obj : Option Int) : String :=
  let N := Net.ofArcs true n arcs s t
  let o := N.maxFlow
  let implChecks : Val :=
    match impl, obj with
    | some f, some val =>
      Val.arr [Val.bool (N.chkKeys f), Val.bool (N.chkCap f), Val.bool (N.chkCons f),
        Val.bool (N.chkValue f val), Val.bool (N.chkCut f o.vis)]
    | _, _ => Val.null
  (Val.arr [Val.int o.value, ofTriples o.flow.positive, Val.ofNats o.vis, Val.int o.augs,
    Val.int o.cancels, Val.bool o.done, Val.bool (N.chkMaxFlow o.flow o.vis o.value), implChecks,
    Val.int o.pcancel, Val.int o.repush]).render

/-! ### C09

request `["mcf_st", n, arcs, s, t, demand, impls]`  (min_cost_flow / solve_assignment instances)
request `["mcf_ts", n, arcs, supplies, impls]`      (network_simplex instances)
  arcs  = `[[u, v, cap, cost], …]` per arc; impls = list of `null | [x, reportedCost]` with `x` a
  per-arc flow reconstructed by the harness from an implementation's returned dict
reply `[status, x, cost, pot, cut, iters, cancel, cert, implChecks, feature]`
  status ∈ feasible | infeasible | negcycle ; x/cost/pot (feasible) or cut (infeasible) from `ssp`
  cert       : verified checker on the model's own answer (`chkMinCost` resp. `chkInfeas`)
  implChecks : per impl `null | [chkFeas x, costF x, costF x == reportedCost]`
  feature    : `hasPairFeature arcs` (anti-parallel pair or parallel arcs of different cost)
-/

def toArcs4? (v : Val) : Option (List Arc) := do
  let rows ← v.toIntss?
  rows.mapM fun r =>
    match r with
    | [a, b, c, w] => if a < 0 || b < 0 then none else some ⟨a.toNat, b.toNat, c, w⟩
    | _ => none

def toImpls? (v : Val) : Option (List (Option (List Int × Int))) := do
  let xs ← v.toArr?
  xs.mapM fun e =>
    match e with
    | Val.null => some none
    | Val.arr [x, c] => do
      let x ← x.toInts?
      let c ← c.toInt?
      some (some (x, c))
    | _ => none

def replyMinCost (I : Inst) (status : Inst.SStatus) (x : List Int) (cost : Int) (pot : List Int)
    (cut : List Nat) (iters cancel : Nat) (impls : List (Option (List Int × Int))) : String :=
  let sname := match status with
    | .feasible => "feasible" | .infeasible => "infeasible" | .negcycle => "negcycle"
  let cert := match status with
    | .feasible => I.chkMinCost x pot cost
    | .infeasible => I.chkInfeas cut
    | .negcycle => false
  let ichk := impls.map fun o =>
    match o with
    | none => Val.null
    | some (ix, rep) =>
      Val.arr [Val.bool (I.chkFeas ix), Val.int (I.costF (Inst.fl ix)), Val.bool (I.costF (Inst.fl ix) == rep)]
  (Val.arr [Val.str sname, Val.ofInts x, Val.int cost, Val.ofInts pot, Val.ofNats cut, Val.int iters,
    Val.int cancel, Val.bool cert, Val.arr ichk, Val.bool (hasPairFeature I.arcs)]).render

def handleST (n : Nat) (arcs : List Arc) (s t : Nat) (d : Int)
    (impls : List (Option (List Int × Int))) : String :=
  let o := solveST n arcs s t d      -- `ssp` + verified certificate check (`ssp_sound`)
  replyMinCost (Inst.ofST n arcs s t d) o.status o.x o.cost o.pot o.reach o.iters o.cancel impls

def handleTS (n : Nat) (arcs : List Arc) (b : List Int) (impls : List (Option (List Int × Int))) : String :=
  let I : Inst := ⟨n, arcs, b⟩
  let o := solveTS I                 -- reduction to s-t form + verified certificate check on `I`
  replyMinCost I o.status o.x o.cost o.pot o.reach o.iters o.cancel impls

/-! request `["assign", n, m, rows, implAssign|null, implObjective|null]`  (solve_assignment)
reply `[status, cost, assignment, iters, cert, implChecks|null]`
  the network `assignInst n m C` in its fixed numbering, solved by `ssp`; cert = `chkMinCost`;
  assignment = the model's optimal assignment read off its flow;
  implChecks = `[chkAssign n m a, assignCost (aOf a), assignCost (aOf a) == objective]` -/
def handleAssign (n m : Nat) (rows : List (List Int)) (impl : Option (List Int)) (obj : Option Int) : String :=
  let C := matEntry rows
  let I := assignInst n m C
  let o := I.certify (I.ssp 0 1 ((min n m : Nat) : Int))
  let cert := match o.status with
    | .feasible => I.chkMinCost o.x o.pot o.cost     -- (what `certify` has just checked)
    | _ => false
  -- arcs n + i*m + j are the row-to-column arcs
  let asg : List Int := (List.range n).map fun i =>
    match (List.range m).find? (fun j => Inst.fl o.x (n + i * m + j) == 1) with
    | some j => (j : Int)
    | none => -1
  let ichk := match impl, obj with
    | some a, some v =>
      Val.arr [Val.bool (chkAssign n m a), Val.int (assignCost n C (aOf a)), Val.bool (assignCost n C (aOf a) == v)]
    | _, _ => Val.null
  let sname := match o.status with
    | .feasible => "feasible" | .infeasible => "infeasible" | .negcycle => "negcycle"
  (Val.arr [Val.str sname, Val.int o.cost, Val.ofInts asg, Val.int o.iters, Val.bool cert, ichk]).render

def handle (line : String) : String :=
  match request line with
  | some ("assign", [n, m, rows, impl, obj]) =>
    match n.toNat?, m.toNat?, rows.toIntss?, impl.toOpt? Val.toInts?, obj.toOpt? Val.toInt? with
    | some n, some m, some rows, some impl, some obj => handleAssign n m rows impl obj
    | _, _, _, _, _ => err "bad arguments"
  | some ("mcf_st", [n, arcs, s, t, d, impls]) =>
    match n.toNat?, toArcs4? arcs, s.toNat?, t.toNat?, d.toInt?, toImpls? impls with
    | some n, some arcs, some s, some t, some d, some impls =>
      if (Inst.mk n arcs []).valid && s < n && t < n then handleST n arcs s t d impls else err "invalid instance"
    | _, _, _, _, _, _ => err "bad arguments"
  | some ("mcf_ts", [n, arcs, b, impls]) =>
    match n.toNat?, toArcs4? arcs, b.toInts?, toImpls? impls with
    | some n, some arcs, some b, some impls =>
      if (Inst.mk n arcs b).valid && b.length == n then handleTS n arcs b impls else err "invalid instance"
    | _, _, _, _ => err "bad arguments"
  | some ("maxflow", [n, arcs, s, t, impl, obj]) =>
    match n.toNat?, toArcs? arcs, s.toNat?, t.toNat?, impl.toOpt? toFlowT?, obj.toOpt? Val.toInt? with
    | some n, some arcs, some s, some t, some impl, some obj => handleMaxFlow n arcs s t impl obj
    | _, _, _, _, _, _ => err "bad arguments"
  | _ => err "bad request"

end Solvor.Flow
