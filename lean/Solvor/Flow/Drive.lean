import Solvor.Common.Proto
import Solvor.Flow.Model
/-! Flow: line-protocol handler. One request line in, one reply line out. -/
namespace Solvor.Flow

def handle (line : String) : String := "unimplemented " ++ line

end Solvor.Flow
