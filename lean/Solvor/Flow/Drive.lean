import Solvor.Common.Proto
import Solvor.Flow.Model
/-! Flow: line-protocol handler. One request line in, one reply line out.

request `["maxflow", n, arcs, s, t, implFlow|null, implObjective|null]`
  nodes are `0..n-1`; arcs = `[[u, v, cap], …]` in the iteration order of the `graph` argument;
  implFlow = `[[u, v, x], …]` the implementation's returned dict
reply `[value, flow, vis, augs, cancels, done, modelCert, implChecks|null]`
  value/flow/vis/augs : the mirror `Net.maxFlow` (flow = positive entries `[u, v, x]`)
  modelCert           : verified checker `chkMaxFlow` on the mirror's own flow and cut
  implChecks          : `[keys, cap, cons, value, cut]` – the verified checker's clauses on the
                        implementation's flow, its objective, and the *mirror's* cut
-/
namespace Solvor.Flow
open Solvor.Proto

def toArcs? (v : Val) : Option Arcs := do
  let rows ← v.toIntss?
  rows.mapM fun r =>
    match r with
    | [a, b, c] => if a < 0 || b < 0 then none else some (a.toNat, b.toNat, c)
    | _ => none

def toFlowT? (v : Val) : Option FlowT := do
  let rows ← v.toIntss?
  rows.mapM fun r =>
    match r with
    | [a, b, c] => if a < 0 || b < 0 then none else some ((a.toNat, b.toNat), c)
    | _ => none

def ofTriples (l : List (Nat × Nat × Int)) : Val :=
  Val.arr (l.map fun e => Val.arr [Val.int e.1, Val.int e.2.1, Val.int e.2.2])

def handleMaxFlow (n : Nat) (arcs : Arcs) (s t : Nat) (impl : Option FlowT) (obj : Option Int) : String :=
  let N := Net.ofArcs true n arcs s t
  let o := N.maxFlow
  let implChecks : Val :=
    match impl, obj with
    | some f, some val =>
      Val.arr [Val.bool (N.chkKeys f), Val.bool (N.chkCap f), Val.bool (N.chkCons f),
        Val.bool (N.chkValue f val), Val.bool (N.chkCut f o.vis)]
    | _, _ => Val.null
  (Val.arr [Val.int o.value, ofTriples o.flow.positive, Val.ofNats o.vis, Val.int o.augs,
    Val.int o.cancels, Val.bool o.done, Val.bool (N.chkMaxFlow o.flow o.vis o.value), implChecks]).render

def handle (line : String) : String :=
  match request line with
  | some ("maxflow", [n, arcs, s, t, impl, obj]) =>
    match n.toNat?, toArcs? arcs, s.toNat?, t.toNat?, impl.toOpt? toFlowT?, obj.toOpt? Val.toInt? with
    | some n, some arcs, some s, some t, some impl, some obj => handleMaxFlow n arcs s t impl obj
    | _, _, _, _, _, _ => err "bad arguments"
  | _ => err "bad request"

end Solvor.Flow
