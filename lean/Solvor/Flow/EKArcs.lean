import Solvor.Flow.EKLemmas
/-! Flow.EK: the network built from the `graph` argument is well-formed (core Lean only). -/
namespace Solvor.Flow

/-- what the harness guarantees about a request: node indices below `n`, non-negative capacities -/
def ArcsOK (n : Nat) (arcs : Arcs) : Prop := ∀ a ∈ arcs, a.1 < n ∧ a.2.1 < n ∧ 0 ≤ a.2.2

theorem capOf_nonneg {n : Nat} {arcs : Arcs} (h : ArcsOK n arcs) (u v : Nat) : 0 ≤ capOf arcs u v := by
  induction arcs with
  | nil => simp [capOf]
  | cons a as ih =>
    have ha := h a (by simp)
    have := ih (fun b hb => h b (List.mem_cons_of_mem _ hb))
    unfold capOf
    split <;> omega

theorem capOf_pos {arcs : Arcs} {u v : Nat} (h : 0 < capOf arcs u v) :
    ∃ a ∈ arcs, a.1 = u ∧ a.2.1 = v := by
  induction arcs with
  | nil => simp [capOf] at h
  | cons a as ih =>
    unfold capOf at h
    by_cases hc : a.1 = u ∧ a.2.1 = v
    · exact ⟨a, by simp, hc⟩
    · simp only [hc, if_false] at h
      obtain ⟨b, hb, hb'⟩ := ih (by omega)
      exact ⟨b, List.mem_cons_of_mem _ hb, hb'⟩

theorem mem_adjOf {rev : Bool} {arcs : Arcs} {x y : Nat} :
    y ∈ adjOf rev arcs x ↔
      ∃ a ∈ arcs, (a.1 = x ∧ a.2.1 = y) ∨ (rev = true ∧ a.2.1 = x ∧ a.1 = y) := by
  unfold adjOf touched
  rw [mem_dedup, List.mem_flatMap]
  constructor
  · rintro ⟨a, ha, hy⟩
    refine ⟨a, ha, ?_⟩
    rcases List.mem_append.1 hy with h | h
    · left
      by_cases hc : a.1 = x
      · simp only [hc, if_true, List.mem_singleton] at h; exact ⟨hc, h.symm⟩
      · simp [hc] at h
    · right
      by_cases hc : (rev && decide (a.2.1 = x)) = true
      · rw [if_pos hc] at h
        simp only [Bool.and_eq_true, decide_eq_true_eq] at hc
        simp only [List.mem_singleton] at h
        exact ⟨hc.1, hc.2, h.symm⟩
      · rw [if_neg hc] at h; cases h
  · rintro ⟨a, ha, h⟩
    refine ⟨a, ha, ?_⟩
    rcases h with ⟨h1, h2⟩ | ⟨h0, h1, h2⟩
    · apply List.mem_append_left; simp [h1, h2]
    · apply List.mem_append_right; simp [h0, h1, h2]

theorem Net.ofArcs_wf {n : Nat} {arcs : Arcs} {s t : Nat} (h : ArcsOK n arcs) (hs : s < n)
    (ht : t < n) (hst : s ≠ t) : (Net.ofArcs true n arcs s t).WF := by
  refine ⟨List.nodup_range, by simpa [Net.ofArcs] using hs, by simpa [Net.ofArcs] using ht, hst,
    fun u v => capOf_nonneg h u v, ?_, ?_, ?_⟩
  · intro u v hc
    obtain ⟨a, ha, h1⟩ := capOf_pos hc
    exact mem_adjOf.2 ⟨a, ha, Or.inl h1⟩
  · intro u v hv
    obtain ⟨a, ha, h1⟩ := mem_adjOf.1 hv
    refine mem_adjOf.2 ⟨a, ha, ?_⟩
    rcases h1 with ⟨h1, h2⟩ | ⟨_, h1, h2⟩
    · exact Or.inr ⟨rfl, h2, h1⟩
    · exact Or.inl ⟨h2, h1⟩
  · intro u v hv
    obtain ⟨a, ha, h1⟩ := mem_adjOf.1 hv
    have := h a ha
    simp only [Net.ofArcs, List.mem_range]
    rcases h1 with ⟨_, h2⟩ | ⟨_, _, h2⟩ <;> omega

end Solvor.Flow
