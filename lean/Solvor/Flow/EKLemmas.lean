import Solvor.Flow.CutLemmas
/-! Flow.EK: checker soundness, augmentation, BFS invariant, termination (core Lean only). -/
namespace Solvor.Flow
namespace Net
variable (N : Net)

/-! ### the Boolean checkers decide the specification -/

theorem chkCap_iff (f : FlowT) :
    N.chkCap f = true ↔ ∀ u ∈ N.V, ∀ v ∈ N.V, 0 ≤ f.get u v ∧ f.get u v ≤ N.cap u v := by
  simp [chkCap]

theorem chkCons_iff (f : FlowT) :
    N.chkCons f = true ↔
      ∀ v ∈ N.V, v ≠ N.s → v ≠ N.t → N.inflow f.get v = N.outflow f.get v := by
  simp only [chkCons, List.all_eq_true, Bool.or_eq_true, beq_iff_eq]
  constructor
  · intro h v hv hs ht
    rcases h v hv with (h | h) | h
    · exact absurd h hs
    · exact absurd h ht
    · exact h
  · intro h v hv
    by_cases hs : v = N.s
    · exact Or.inl (Or.inl hs)
    · by_cases ht : v = N.t
      · exact Or.inl (Or.inr ht)
      · exact Or.inr (h v hv hs ht)

theorem chkValue_iff (f : FlowT) (val : Int) : N.chkValue f val = true ↔ N.value f.get = val := by
  simp [chkValue]

theorem chkCut_iff (f : FlowT) (S : List Nat) :
    N.chkCut f S = true ↔ N.s ∈ S ∧ N.t ∉ S ∧ N.Saturated f.get S := by
  simp only [chkCut, Saturated, Bool.and_eq_true, List.contains_iff_mem, Bool.not_eq_eq_eq_not,
    Bool.not_true, List.all_eq_true, Bool.or_eq_true, beq_iff_eq]
  constructor
  · rintro ⟨⟨hs, ht⟩, h⟩
    refine ⟨hs, by simpa using ht, ?_⟩
    intro u hu v hv huS hvS
    rcases h u hu v hv with h | h
    · simp [huS, hvS] at h
    · exact h
  · rintro ⟨hs, ht, h⟩
    refine ⟨⟨hs, by simpa using ht⟩, ?_⟩
    intro u hu v hv
    by_cases huS : u ∈ S
    · by_cases hvS : v ∈ S
      · left; simp [hvS]
      · right; exact h u hu v hv huS hvS
    · left; simp [huS]

theorem chkFeasible_iff (f : FlowT) :
    (N.chkCap f && N.chkCons f) = true ↔ N.Feasible f.get := by
  rw [Bool.and_eq_true, chkCap_iff, chkCons_iff]
  constructor
  · rintro ⟨h1, h2⟩
    exact ⟨fun u hu v hv => (h1 u hu v hv).1, fun u hu v hv => (h1 u hu v hv).2, h2⟩
  · intro h
    exact ⟨fun u hu v hv => ⟨h.nonneg u hu v hv, h.le_cap u hu v hv⟩, h.cons⟩

/-! ### one augmentation step -/

/-- capacity constraints on every pair (the mirror's tables are 0 outside the arcs) -/
def CapOK (f : FlowT) : Prop := ∀ u v, 0 ≤ f.get u v ∧ f.get u v ≤ N.cap u v

theorem step_other (f : FlowT) (u v : Nat) (d : Int) (a b : Nat)
    (h1 : ¬(a = u ∧ b = v)) (h2 : ¬(a = v ∧ b = u)) : (step f u v d).get a b = f.get a b := by
  unfold step
  split
  · simp only [FlowT.get_set, h1, h2, if_false]
  · simp only [FlowT.get_set, h1, if_false]

theorem step_spec {f : FlowT} {u v : Nat} {d : Int} (huv : u ≠ v) (hd0 : 0 ≤ d)
    (hd : d ≤ N.res f u v) (hc : N.CapOK f) :
    0 ≤ (step f u v d).get u v ∧ (step f u v d).get u v ≤ N.cap u v ∧
    0 ≤ (step f u v d).get v u ∧ (step f u v d).get v u ≤ N.cap v u ∧
    (step f u v d).get u v - (step f u v d).get v u = f.get u v - f.get v u + d := by
  have h1 := hc u v
  have h2 := hc v u
  have hvu : ¬(v = u ∧ u = v) := fun h => huv h.2
  have huv' : ¬(u = v ∧ v = u) := fun h => huv h.1
  unfold res at hd
  unfold step
  split
  · rename_i hpos
    simp only [FlowT.get_set, and_self, if_true, hvu, huv', if_false]
    rcases Int.le_total d (f.get v u) with hle | hle
    · rw [Int.min_eq_left hle]; omega
    · rw [Int.min_eq_right hle]; omega
  · rename_i hpos
    simp only [FlowT.get_set, and_self, if_true, hvu, if_false]
    omega

theorem step_capOK {f : FlowT} {u v : Nat} {d : Int} (huv : u ≠ v) (hd0 : 0 ≤ d)
    (hd : d ≤ N.res f u v) (hc : N.CapOK f) : N.CapOK (step f u v d) := by
  intro a b
  obtain ⟨s1, s2, s3, s4, _⟩ := N.step_spec huv hd0 hd hc
  by_cases h1 : a = u ∧ b = v
  · obtain ⟨rfl, rfl⟩ := h1; exact ⟨s1, s2⟩
  · by_cases h2 : a = v ∧ b = u
    · obtain ⟨rfl, rfl⟩ := h2; exact ⟨s3, s4⟩
    · rw [step_other f u v d a b h1 h2]; exact hc a b

/-- net inflow of a node -/
def excess (g : Nat → Nat → Int) (x : Nat) : Int := lsum N.V fun y => g y x - g x y

theorem excess_eq (g : Nat → Nat → Int) (x : Nat) : N.excess g x = N.inflow g x - N.outflow g x := by
  unfold excess inflow outflow; exact lsum_sub _ _ _

theorem excess_step (hV : N.V.Nodup) {f : FlowT} {u v : Nat} {d : Int} (huv : u ≠ v)
    (hu : u ∈ N.V) (hv : v ∈ N.V) (hd0 : 0 ≤ d) (hd : d ≤ N.res f u v) (hc : N.CapOK f) (x : Nat) :
    N.excess (step f u v d).get x =
      N.excess f.get x + (if x = v then d else 0) - (if x = u then d else 0) := by
  obtain ⟨_, _, _, _, hnet⟩ := N.step_spec huv hd0 hd hc
  have key : ∀ y, (step f u v d).get y x - (step f u v d).get x y =
      (f.get y x - f.get x y) + ((if y = u then (if x = v then d else 0) else 0)
        - (if y = v then (if x = u then d else 0) else 0)) := by
    intro y
    by_cases c1 : y = u ∧ x = v
    · obtain ⟨rfl, rfl⟩ := c1
      have : ¬ (y = x) := huv
      simp [this]; omega
    · by_cases c2 : y = v ∧ x = u
      · obtain ⟨rfl, rfl⟩ := c2
        have : ¬ (y = x) := fun h => huv h.symm
        simp [this]; omega
      · have e1 : (step f u v d).get y x = f.get y x := step_other f u v d y x c1 c2
        have e2 : (step f u v d).get x y = f.get x y :=
          step_other f u v d x y (fun h => c2 ⟨h.2, h.1⟩) (fun h => c1 ⟨h.2, h.1⟩)
        rw [e1, e2]
        have z1 : (if y = u then (if x = v then d else 0) else 0) = 0 := by
          by_cases h : y = u
          · have : x ≠ v := fun h' => c1 ⟨h, h'⟩
            simp [h, this]
          · simp [h]
        have z2 : (if y = v then (if x = u then d else 0) else 0) = 0 := by
          by_cases h : y = v
          · have : x ≠ u := fun h' => c2 ⟨h, h'⟩
            simp [h, this]
          · simp [h]
        rw [z1, z2]; omega
  have e1 := lsum_ite_eq hV hu (if x = v then d else 0)
  have e2 := lsum_ite_eq hV hv (if x = u then d else 0)
  unfold excess
  rw [lsum_congr (fun y _ => key y), lsum_add, lsum_sub _ (fun y => if y = u then (if x = v then d else 0) else 0), e1, e2]
  omega

/-! ### augmentation along a simple residual path -/

/-- every consecutive pair `(u, v)` of the list has `d ≤ g u v` -/
def PathGe (g : Nat → Nat → Int) (d : Int) : List Nat → Prop
  | u :: v :: r => d ≤ g u v ∧ PathGe g d (v :: r)
  | _ => True

/-- the last element of the list is `n` -/
def LastIs (n : Nat) : List Nat → Prop
  | [] => False
  | [a] => a = n
  | _ :: b :: r => LastIs n (b :: r)

theorem pathGe_congr {g g' : Nat → Nat → Int} {d : Int} :
    ∀ (p : List Nat), PathGe g d p → (∀ a b, a ∈ p → b ∈ p → g' a b = g a b) → PathGe g' d p
  | [], _, _ => trivial
  | [_], _, _ => trivial
  | u :: v :: r, h, H => by
    refine ⟨?_, pathGe_congr (v :: r) h.2 (fun a b ha hb =>
      H a b (List.mem_cons_of_mem _ ha) (List.mem_cons_of_mem _ hb))⟩
    rw [H u v (by simp) (by simp)]; exact h.1

theorem pathGe_mono {g : Nat → Nat → Int} {d d' : Int} (hd : d' ≤ d) :
    ∀ (p : List Nat), PathGe g d p → PathGe g d' p
  | [], _ => trivial
  | [_], _ => trivial
  | _ :: v :: r, h => ⟨Int.le_trans hd h.1, pathGe_mono hd (v :: r) h.2⟩

theorem lastIs_append (nb : Nat) : ∀ (p : List Nat), LastIs nb (p ++ [nb])
  | [] => rfl
  | [_] => rfl
  | _ :: b :: r => lastIs_append nb (b :: r)

theorem pathGe_append {g : Nat → Nat → Int} {d : Int} {n nb : Nat} (hn : d ≤ g n nb) :
    ∀ (p : List Nat), PathGe g d p → LastIs n p → PathGe g d (p ++ [nb])
  | [], _, h => h.elim
  | [a], _, h => by
    have : a = n := h
    subst this; exact ⟨hn, trivial⟩
  | u :: v :: r, h, hl => ⟨h.1, pathGe_append hn (v :: r) h.2 hl⟩

theorem lastIs_mem {n : Nat} : ∀ (p : List Nat), LastIs n p → n ∈ p
  | [], h => h.elim
  | [a], h => by have : a = n := h; simp [this]
  | _ :: b :: r, h => List.mem_cons_of_mem _ (lastIs_mem (b :: r) h)

theorem aug_spec (hV : N.V.Nodup) {d : Int} (hd0 : 0 ≤ d) :
    ∀ (p : List Nat) (f : FlowT), p.Nodup → (∀ x ∈ p, x ∈ N.V) → N.CapOK f →
      PathGe (N.res f) d p →
      N.CapOK (aug f d p) ∧
      (∀ hd lst, p.head? = some hd → LastIs lst p → ∀ x,
        N.excess (aug f d p).get x =
          N.excess f.get x + (if x = lst then d else 0) - (if x = hd then d else 0))
  | [], f, _, _, hc, _ => ⟨hc, fun _ _ h => by simp at h⟩
  | [a], f, _, _, hc, _ => by
    refine ⟨hc, fun hd lst h1 h2 x => ?_⟩
    have e1 : a = hd := by simpa using h1
    have e2 : a = lst := h2
    subst e1; subst e2
    show N.excess f.get x = _
    omega
  | u :: v :: r, f, hnd, hmem, hc, hp => by
    have hnd' := List.nodup_cons.1 hnd
    have huv : u ≠ v := fun h => hnd'.1 (h ▸ List.mem_cons_self)
    have hu : u ∈ N.V := hmem u (by simp)
    have hv : v ∈ N.V := hmem v (by simp)
    have hc' := N.step_capOK huv hd0 hp.1 hc
    have hp' : PathGe (N.res (step f u v d)) d (v :: r) := by
      apply pathGe_congr (v :: r) hp.2
      intro a b ha hb
      have hau : a ≠ u := fun h => hnd'.1 (h ▸ ha)
      have hbu : b ≠ u := fun h => hnd'.1 (h ▸ hb)
      unfold res
      rw [step_other f u v d a b (fun h => hau h.1) (fun h => hbu h.2),
        step_other f u v d b a (fun h => hbu h.1) (fun h => hau h.2)]
    obtain ⟨ih1, ih2⟩ := aug_spec hV hd0 (v :: r) (step f u v d) hnd'.2
      (fun x hx => hmem x (List.mem_cons_of_mem _ hx)) hc' hp'
    refine ⟨ih1, fun hd lst h1 h2 x => ?_⟩
    have e1 : u = hd := by simpa using h1
    subst e1
    have h2' : LastIs lst (v :: r) := h2
    have := ih2 v lst rfl h2' x
    show N.excess (aug (step f u v d) d (v :: r)).get x = _
    rw [this, N.excess_step hV huv hu hv hd0 hp.1 hc x]
    omega

/-! ### path flow -/

theorem pathFlow_spec (f : FlowT) :
    ∀ (p : List Nat) (acc : Option Int) (d : Int), N.pathFlow f p acc = some d →
      PathGe (N.res f) d p ∧ (∀ m, acc = some m → d ≤ m) ∧
      (PathGe (N.res f) 1 p → (∀ m, acc = some m → 1 ≤ m) → 1 ≤ d)
  | [], acc, d, h => by
    simp only [pathFlow] at h
    exact ⟨trivial, fun m hm => by rw [h] at hm; cases hm; exact Int.le_refl _,
      fun _ hm => hm d h⟩
  | [_], acc, d, h => by
    simp only [pathFlow] at h
    exact ⟨trivial, fun m hm => by rw [h] at hm; cases hm; exact Int.le_refl _,
      fun _ hm => hm d h⟩
  | u :: v :: r, acc, d, h => by
    simp only [pathFlow] at h
    obtain ⟨i1, i2, i3⟩ := pathFlow_spec f (v :: r) _ d h
    have hle := i2 _ rfl
    cases acc with
    | none =>
      simp only at hle
      refine ⟨⟨hle, i1⟩, (fun m hm => by cases hm), fun hp _ => ?_⟩
      apply i3 hp.2
      intro m hm
      simp only [Option.some.injEq] at hm
      rw [← hm]; exact hp.1
    | some m0 =>
      simp only at hle
      have h1 : min m0 (N.res f u v) ≤ N.res f u v := Int.min_le_right _ _
      have h2 : min m0 (N.res f u v) ≤ m0 := Int.min_le_left _ _
      refine ⟨⟨Int.le_trans hle h1, i1⟩, fun m hm => ?_, fun hp hm => ?_⟩
      · simp only [Option.some.injEq] at hm
        rw [← hm]; exact Int.le_trans hle h2
      · apply i3 hp.2
        intro m hm'
        simp only [Option.some.injEq] at hm'
        rw [← hm']
        have := hm m0 rfl
        have := hp.1
        rcases Int.le_total m0 (N.res f u v) with hle' | hle'
        · rw [Int.min_eq_left hle']; assumption
        · rw [Int.min_eq_right hle']; assumption

theorem pathFlow_isSome (f : FlowT) :
    ∀ (r : List Nat) (u v : Nat) (acc : Option Int), ∃ d, N.pathFlow f (u :: v :: r) acc = some d
  | [], _, _, _ => ⟨_, rfl⟩
  | w :: r, u, v, acc => by
    obtain ⟨d, hd⟩ := pathFlow_isSome f r v w
      (some (match acc with | none => N.res f u v | some m => min m (N.res f u v)))
    exact ⟨d, hd⟩

/-! ### BFS invariant -/

structure GoodPath (f : FlowT) (vis : List Nat) (n : Nat) (p : List Nat) : Prop where
  head  : p.head? = some N.s
  last  : LastIs n p
  nodup : p.Nodup
  chain : PathGe (N.res f) 1 p
  sub   : ∀ x ∈ p, x ∈ vis

/-- `x` is not the sink and every residual arc out of `x` along a key of `capacity[x]` stays
inside `vis` -/
def Closed (f : FlowT) (vis : List Nat) (x : Nat) : Prop :=
  x ≠ N.t ∧ ∀ y ∈ N.adj x, 0 < N.res f x y → y ∈ vis

structure BInv (f : FlowT) (node : Option Nat) (vis : List Nat) (q : List (Nat × List Nat)) :
    Prop where
  s_mem : N.s ∈ vis
  sub   : ∀ x ∈ vis, x ∈ N.V
  paths : ∀ e ∈ q, N.GoodPath f vis e.1 e.2
  cover : ∀ x ∈ vis, some x = node ∨ (∃ p, (x, p) ∈ q) ∨ N.Closed f vis x

theorem GoodPath.mono {f : FlowT} {vis vis' : List Nat} {n : Nat} {p : List Nat}
    (h : N.GoodPath f vis n p) (hs : ∀ x ∈ vis, x ∈ vis') : N.GoodPath f vis' n p :=
  ⟨h.head, h.last, h.nodup, h.chain, fun x hx => hs x (h.sub x hx)⟩

theorem Closed.mono {f : FlowT} {vis vis' : List Nat} {x : Nat}
    (h : N.Closed f vis x) (hs : ∀ x ∈ vis, x ∈ vis') : N.Closed f vis' x :=
  ⟨h.1, fun y hy hr => hs y (h.2 y hy hr)⟩

/-- number of nodes not yet visited -/
def unvis (vis : List Nat) : Nat := (N.V.filter fun x => !vis.contains x).length

theorem filter_length_lt {l : List Nat} {p p' : Nat → Bool} (hpp : ∀ x, p' x = true → p x = true)
    {a : Nat} (ha : a ∈ l) (hpa : p a = true) (hpa' : p' a = false) :
    (l.filter p').length < (l.filter p).length := by
  induction l with
  | nil => cases ha
  | cons x xs ih =>
    have hle : (xs.filter p').length ≤ (xs.filter p).length := by
      clear ih ha
      induction xs with
      | nil => simp
      | cons y ys ih2 =>
        simp only [List.filter_cons]
        cases h' : p' y
        · simp only [Bool.false_eq_true, if_false]
          split
          · simp only [List.length_cons]; omega
          · exact ih2
        · rw [hpp y h']; simp only [if_true, List.length_cons]; omega
    simp only [List.filter_cons]
    rcases List.mem_cons.1 ha with h | h
    · subst h
      rw [hpa, hpa']
      simp only [if_true, Bool.false_eq_true, if_false, List.length_cons]; omega
    · have := ih h
      cases h' : p' x
      · simp only [Bool.false_eq_true, if_false]
        split
        · simp only [List.length_cons]; omega
        · exact this
      · rw [hpp x h']; simp only [if_true, List.length_cons]; omega

theorem unvis_append_lt {vis : List Nat} {nb : Nat} (hV : nb ∈ N.V) (hn : nb ∉ vis) :
    N.unvis (vis ++ [nb]) < N.unvis vis := by
  unfold unvis
  apply filter_length_lt (a := nb) _ hV
  · simpa using hn
  · simp
  · intro x hx
    simp only [List.contains_append, Bool.not_eq_eq_eq_not, Bool.not_true, Bool.or_eq_false_iff] at hx
    simpa using hx.1

theorem expand_spec (f : FlowT) (node : Nat) (path : List Nat) :
    ∀ (rest : List Nat) (vis : List Nat) (q : List (Nat × List Nat)),
      N.BInv f (some node) vis q → N.GoodPath f vis node path → (∀ y ∈ rest, y ∈ N.V) →
      N.BInv f (some node) (N.expand f node path rest (vis, q)).1 (N.expand f node path rest (vis, q)).2 ∧
      (∀ x ∈ vis, x ∈ (N.expand f node path rest (vis, q)).1) ∧
      (∀ y ∈ rest, 0 < N.res f node y → y ∈ (N.expand f node path rest (vis, q)).1) ∧
      2 * N.unvis (N.expand f node path rest (vis, q)).1 + (N.expand f node path rest (vis, q)).2.length
        ≤ 2 * N.unvis vis + q.length
  | [], vis, q, hI, _, _ => ⟨hI, fun _ h => h, (fun _ h => by cases h), Nat.le_refl _⟩
  | nb :: rest, vis, q, hI, hP, hR => by
    unfold expand
    split
    · rename_i hc
      simp only [Bool.and_eq_true, Bool.not_eq_eq_eq_not, Bool.not_true, decide_eq_true_eq] at hc
      have hnv : nb ∉ vis := by simpa using hc.1
      have hres : 0 < N.res f node nb := hc.2
      have hnbV : nb ∈ N.V := hR nb (by simp)
      have hsub : ∀ x ∈ vis, x ∈ vis ++ [nb] := fun x hx => List.mem_append_left _ hx
      have hP' : N.GoodPath f (vis ++ [nb]) node path := hP.mono N hsub
      have hI' : N.BInv f (some node) (vis ++ [nb]) (q ++ [(nb, path ++ [nb])]) := by
        refine ⟨hsub _ hI.s_mem, ?_, ?_, ?_⟩
        · intro x hx
          rcases List.mem_append.1 hx with h | h
          · exact hI.sub x h
          · have : x = nb := by simpa using h
            exact this ▸ hnbV
        · intro e he
          rcases List.mem_append.1 he with h | h
          · exact (hI.paths e h).mono N hsub
          · have : e = (nb, path ++ [nb]) := by simpa using h
            subst this
            refine ⟨?_, lastIs_append nb path, ?_, ?_, ?_⟩
            · have := hP.head
              cases path with
              | nil => simp at this
              | cons a as => simpa using this
            · rw [List.nodup_append]
              refine ⟨hP.nodup, by simp, ?_⟩
              intro a ha b hb
              have : b = nb := by simpa using hb
              subst this
              intro hab; subst hab
              exact hnv (hP.sub a ha)
            · exact pathGe_append (by omega) path hP.chain hP.last
            · intro x hx
              rcases List.mem_append.1 hx with h | h
              · exact hsub x (hP.sub x h)
              · exact List.mem_append_right _ h
        · intro x hx
          rcases List.mem_append.1 hx with h | h
          · rcases hI.cover x h with c | ⟨p, c⟩ | c
            · exact Or.inl c
            · exact Or.inr (Or.inl ⟨p, List.mem_append_left _ c⟩)
            · exact Or.inr (Or.inr (c.mono N hsub))
          · have : x = nb := by simpa using h
            subst this
            exact Or.inr (Or.inl ⟨path ++ [x], List.mem_append_right _ (by simp)⟩)
      obtain ⟨r1, r2, r3, r4⟩ := expand_spec f node path rest (vis ++ [nb]) (q ++ [(nb, path ++ [nb])])
        hI' hP' (fun y hy => hR y (List.mem_cons_of_mem _ hy))
      refine ⟨r1, fun x hx => r2 x (hsub x hx), ?_, ?_⟩
      · intro y hy hry
        rcases List.mem_cons.1 hy with h | h
        · subst h; exact r2 y (List.mem_append_right _ (by simp))
        · exact r3 y h hry
      · have := N.unvis_append_lt hnbV hnv
        simp only [List.length_append, List.length_cons, List.length_nil] at r4
        omega
    · rename_i hc
      obtain ⟨r1, r2, r3, r4⟩ := expand_spec f node path rest vis q hI hP
        (fun y hy => hR y (List.mem_cons_of_mem _ hy))
      refine ⟨r1, r2, ?_, r4⟩
      intro y hy hry
      rcases List.mem_cons.1 hy with h | h
      · subst h
        simp only [Bool.and_eq_true, Bool.not_eq_eq_eq_not, Bool.not_true, decide_eq_true_eq,
          not_and] at hc
        by_cases hv : y ∈ vis
        · exact r2 y hv
        · exact absurd hry (hc (by simpa using hv))
      · exact r3 y h hry

/-- what `bfs()` returns: a simple residual s-t path inside `V`, or a visited set containing the
source, not the sink, closed under residual arcs along the keys of `capacity[·]` -/
def BfsPost (f : FlowT) : Option (List Nat) × List Nat → Prop
  | (some p, _) => ∃ vis, N.GoodPath f vis N.t p ∧ ∀ x ∈ vis, x ∈ N.V
  | (none, vis) => N.s ∈ vis ∧ N.t ∉ vis ∧ ∀ x ∈ vis, ∀ y ∈ N.adj x, 0 < N.res f x y → y ∈ vis

theorem bfs_spec (hadj : ∀ u v, v ∈ N.adj u → v ∈ N.V) (f : FlowT) :
    ∀ (fuel : Nat) (vis : List Nat) (q : List (Nat × List Nat)),
      N.BInv f none vis q → 2 * N.unvis vis + q.length < fuel → N.BfsPost f (N.bfs f fuel vis q)
  | 0, _, _, _, h => by omega
  | fuel + 1, vis, [], hI, _ => by
    unfold bfs
    have hcl : ∀ x ∈ vis, N.Closed f vis x := by
      intro x hx
      rcases hI.cover x hx with c | ⟨p, c⟩ | c
      · cases c
      · cases c
      · exact c
    exact ⟨hI.s_mem, fun h => (hcl _ h).1 rfl, fun x hx => (hcl x hx).2⟩
  | fuel + 1, vis, (node, path) :: q, hI, hm => by
    unfold bfs
    split
    · rename_i hnt
      have := hI.paths (node, path) (by simp)
      exact ⟨vis, hnt ▸ this, hI.sub⟩
    · rename_i hnt
      have hP : N.GoodPath f vis node path := hI.paths (node, path) (by simp)
      have hI1 : N.BInv f (some node) vis q := by
        refine ⟨hI.s_mem, hI.sub, fun e he => hI.paths e (List.mem_cons_of_mem _ he), ?_⟩
        intro x hx
        rcases hI.cover x hx with c | ⟨p, c⟩ | c
        · cases c
        · rcases List.mem_cons.1 c with h | h
          · left; cases h; rfl
          · exact Or.inr (Or.inl ⟨p, h⟩)
        · exact Or.inr (Or.inr c)
      obtain ⟨r1, r2, r3, r4⟩ := N.expand_spec f node path (N.adj node) vis q hI1 hP (hadj node)
      apply bfs_spec hadj f fuel
      · refine ⟨r1.s_mem, r1.sub, r1.paths, ?_⟩
        intro x hx
        rcases r1.cover x hx with c | c | c
        · have : x = node := by cases c; rfl
          subst this
          exact Or.inr (Or.inr ⟨hnt, r3⟩)
        · exact Or.inr (Or.inl c)
        · exact Or.inr (Or.inr c)
      · simp only [List.length_cons] at hm
        omega

theorem bfs_init (hs : N.s ∈ N.V) (f : FlowT) : N.BInv f none [N.s] [(N.s, [N.s])] := by
  refine ⟨by simp, ?_, ?_, ?_⟩
  · intro x hx
    have : x = N.s := by simpa using hx
    exact this ▸ hs
  · intro e he
    have : e = (N.s, [N.s]) := by simpa using he
    subst this
    exact ⟨rfl, rfl, by simp, trivial, fun x hx => hx⟩
  · intro x hx
    have : x = N.s := by simpa using hx
    subst this
    exact Or.inr (Or.inl ⟨[N.s], by simp⟩)

theorem unvis_le (vis : List Nat) : N.unvis vis ≤ N.V.length := List.length_filter_le _ _

theorem bfs_top (h : N.WF) (f : FlowT) :
    N.BfsPost f (N.bfs f N.bfsFuel [N.s] [(N.s, [N.s])]) := by
  apply N.bfs_spec h.adj_mem f _ _ _ (N.bfs_init h.s_mem f)
  have := N.unvis_le [N.s]
  simp only [bfsFuel, List.length_cons, List.length_nil]
  omega

/-- a visited set closed under residual arcs along `capacity` keys is a saturated cut -/
theorem closed_saturated (h : N.WF) {f : FlowT} (hc : N.CapOK f) {vis : List Nat}
    (hcl : ∀ x ∈ vis, ∀ y ∈ N.adj x, 0 < N.res f x y → y ∈ vis) : N.Saturated f.get vis := by
  intro u _ v _ huS hvS
  have h1 := hc u v
  have h2 := hc v u
  by_cases hr : 0 < N.res f u v
  · exfalso
    apply hvS
    apply hcl u huS v _ hr
    unfold res at hr
    by_cases hcap : 0 < N.cap u v
    · exact h.cap_adj u v hcap
    · have : 0 < N.cap v u := by omega
      exact h.adj_symm v u (h.cap_adj v u this)
  · unfold res at hr
    omega

/-! ### the main loop -/

/-- loop invariant of `while path := bfs()` -/
structure LInv (f : FlowT) (tot : Int) : Prop where
  capOK : N.CapOK f
  cons  : ∀ x ∈ N.V, x ≠ N.s → x ≠ N.t → N.excess f.get x = 0
  val   : N.excess f.get N.t = tot

theorem LInv.feasible {f : FlowT} {tot : Int} (h : N.LInv f tot) : N.Feasible f.get :=
  ⟨fun u _ v _ => (h.capOK u v).1, fun u _ v _ => (h.capOK u v).2, fun v hv hs ht => by
    have := h.cons v hv hs ht
    rw [excess_eq] at this; omega⟩

theorem LInv.value {f : FlowT} {tot : Int} (h : N.LInv f tot) : N.value f.get = tot := by
  have := h.val
  rw [excess_eq] at this
  exact this

theorem LInv.init (h : N.WF) : N.LInv [] 0 := by
  refine ⟨fun u v => ⟨by simp, by simpa using h.cap_nonneg u v⟩, ?_, ?_⟩
  · intro x _ _ _
    unfold excess
    exact lsum_eq_zero (fun y _ => by simp)
  · unfold excess
    exact lsum_eq_zero (fun y _ => by simp)

/-- the postcondition of `max_flow` -/
structure Correct (o : Out) : Prop where
  done      : o.done = true
  feasible  : N.Feasible o.flow.get
  value     : N.value o.flow.get = o.value
  s_mem     : N.s ∈ o.vis
  t_not_mem : N.t ∉ o.vis
  saturated : N.Saturated o.flow.get o.vis

theorem loop_spec (h : N.WF) :
    ∀ (n : Nat) (f : FlowT) (tot : Int) (k : Nat) (c : Cov), N.LInv f tot →
      N.cutCap [N.s] - tot < n → N.Correct (N.loop n f tot k c)
  | 0, f, tot, _, _, hI, hn => by
    have := N.value_le_cutCap h.nodup h.t_mem (S := [N.s]) (by simp)
      (by simpa using h.s_ne_t.symm) hI.feasible
    rw [hI.value] at this
    omega
  | n + 1, f, tot, k, c, hI, hn => by
    unfold loop
    have hb := N.bfs_top h f
    split
    · rename_i p vis' heq
      rw [heq] at hb
      obtain ⟨vis, hP, hvis⟩ := hb
      -- the path has at least two nodes since s ≠ t
      have hp2 : ∃ u v r, p = u :: v :: r := by
        have hh := hP.head
        have hl := hP.last
        match p, hh, hl with
        | [], hh, _ => simp at hh
        | [a], hh, hl =>
          have e1 : a = N.s := by simpa using hh
          have e2 : a = N.t := hl
          exact absurd (e1.symm.trans e2) h.s_ne_t
        | u :: v :: r, _, _ => exact ⟨u, v, r, rfl⟩
      obtain ⟨u, v, r, rfl⟩ := hp2
      obtain ⟨d, hd⟩ := N.pathFlow_isSome f r u v none
      rw [hd]
      simp only
      obtain ⟨g1, _, g3⟩ := N.pathFlow_spec f _ _ _ hd
      have hd1 : 1 ≤ d := g3 hP.chain (fun m hm => by cases hm)
      obtain ⟨a1, a2⟩ := N.aug_spec h.nodup (by omega : 0 ≤ d) (u :: v :: r) f hP.nodup
        (fun x hx => hvis x (hP.sub x hx)) hI.capOK g1
      apply loop_spec h n
      · refine ⟨a1, ?_, ?_⟩
        · intro x hx hs ht
          rw [a2 N.s N.t hP.head hP.last x, hI.cons x hx hs ht]
          simp [hs, ht]
        · rw [a2 N.s N.t hP.head hP.last N.t, hI.val]
          have : ¬ (N.t = N.s) := fun e => h.s_ne_t e.symm
          simp [this]
      · omega
    · rename_i vis heq
      rw [heq] at hb
      obtain ⟨b1, b2, b3⟩ := hb
      exact ⟨rfl, hI.feasible, hI.value, b1, b2, N.closed_saturated h hI.capOK b3⟩

end Net
end Solvor.Flow
