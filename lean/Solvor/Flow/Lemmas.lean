import Solvor.Flow.SumLemmas
import Solvor.Flow.CutLemmas
import Solvor.Flow.EKLemmas
import Solvor.Flow.EKArcs
import Solvor.Flow.SSPLemmas
import Solvor.Flow.AssignLemmas
import Solvor.Flow.AssignBack
import Solvor.Flow.PairLemmas
import Solvor.Flow.SSPCert
import Solvor.Flow.SSPConv
import Solvor.Flow.SSPReduce
/-! Flow: helper lemmas (collected from the files of this directory). -/
