import Solvor.Flow.SSPCert
import Mathlib.Data.List.Perm.Subperm
import Mathlib.Algebra.Order.Group.Abs
import Mathlib.Algebra.Order.Ring.Int
/-!
Flow.SSP: Bellman-Ford converges when the residual network admits feasible node potentials
(⇔ it has no negative-cost cycle).  Part A: walks in the residual network and cycle cutting.
-/
namespace Solvor.Flow
namespace Inst
variable (I : Inst)

/-- cost of the residual arc `e` -/
def ecost (e : Nat × Bool) : Int := if e.2 then (I.arc e.1).cost else - (I.arc e.1).cost

/-- reduced cost of a residual arc under the potentials `p` -/
def erc (p : Nat → Int) (e : Nat × Bool) : Int := I.ecost e + p (I.tail e) - p (I.head e)

/-- `p` are feasible potentials for the residual network of `x` (it has no negative cycle) -/
def Pot (x : List Int) (p : Nat → Int) : Prop := ∀ e, I.IsRes x e → 0 ≤ I.erc p e

/-- total cost of a list of residual arcs -/
def wcost : List (Nat × Bool) → Int
  | [] => 0
  | e :: r => I.ecost e + wcost r

theorem wcost_append (p q : List (Nat × Bool)) : I.wcost (p ++ q) = I.wcost p + I.wcost q := by
  induction p with
  | nil => simp [wcost]
  | cons e r ih => simp only [List.cons_append, wcost, ih]; ring

theorem link_append : ∀ (p q : List (Nat × Bool)) (a b c : Nat), I.Link a p b → I.Link b q c → I.Link a (p ++ q) c
  | [], q, a, b, c, h1, h2 => by
    have : a = b := h1
    subst this; exact h2
  | e :: r, q, a, b, c, h1, h2 => ⟨h1.1, link_append r q _ b c h1.2 h2⟩

/-- telescoping: the cost of a walk is its reduced cost plus the potential difference -/
theorem wcost_tele (p : Nat → Int) : ∀ (w : List (Nat × Bool)) (a b : Nat), I.Link a w b →
    ∃ r, I.wcost w = r - p a + p b ∧ (∀ x, (∀ e ∈ w, I.IsRes x e) → I.Pot x p → 0 ≤ r)
  | [], a, b, h => by
    have : a = b := h
    subst this
    exact ⟨0, by simp [wcost], fun _ _ _ => Int.le_refl _⟩
  | e :: r, a, b, h => by
    obtain ⟨r', h1, h2⟩ := wcost_tele p r _ b h.2
    refine ⟨I.erc p e + r', ?_, fun x hx hp => ?_⟩
    · simp only [wcost, h1, erc, h.1]; ring
    · have := hp e (hx e (by simp))
      have := h2 x (fun e' he' => hx e' (List.mem_cons_of_mem _ he')) hp
      omega

theorem closed_walk_nonneg {x : List Int} {p : Nat → Int} (hp : I.Pot x p) {w : List (Nat × Bool)} {a : Nat}
    (hl : I.Link a w a) (hr : ∀ e ∈ w, I.IsRes x e) : 0 ≤ I.wcost w := by
  obtain ⟨r, h1, h2⟩ := I.wcost_tele p w a a hl
  have := h2 x hr hp
  omega

/-- no negative-cost cycle: every closed walk of residual arcs has non-negative cost -/
def NC (x : List Int) : Prop := ∀ (a : Nat) (w : List (Nat × Bool)), I.Link a w a → (∀ e ∈ w, I.IsRes x e) → 0 ≤ I.wcost w

theorem nc_of_pot {x : List Int} {p : Nat → Int} (hp : I.Pot x p) : I.NC x :=
  fun _ _ hl hr => I.closed_walk_nonneg hp hl hr

/-- a walk that returns to its start can be split there -/
theorem split_at_start : ∀ (w : List (Nat × Bool)) (a b : Nat), I.Link a w b → a ∈ w.map I.head →
    ∃ q1 q2, w = q1 ++ q2 ∧ q1 ≠ [] ∧ I.Link a q1 a ∧ I.Link a q2 b
  | [], _, _, _, h => by cases h
  | e :: r, a, b, hl, hm => by
    simp only [List.map_cons, List.mem_cons] at hm
    by_cases h0 : a = I.head e
    · refine ⟨[e], r, rfl, by simp, ⟨hl.1, h0.symm⟩, ?_⟩
      rw [h0]; exact hl.2
    · have hm' : a ∈ r.map I.head := by
        rcases hm with h | h
        · exact absurd h h0
        · exact h
      -- `a` is met again later: find where, walking from `head e`
      have aux : ∀ (w : List (Nat × Bool)) (c : Nat), I.Link c w b → a ∈ w.map I.head →
          ∃ q1 q2, w = q1 ++ q2 ∧ q1 ≠ [] ∧ I.Link c q1 a ∧ I.Link a q2 b := by
        intro w
        induction w with
        | nil => intro c _ h; cases h
        | cons e' r' ih =>
          intro c hl' hm''
          simp only [List.map_cons, List.mem_cons] at hm''
          by_cases h1 : a = I.head e'
          · refine ⟨[e'], r', rfl, by simp, ⟨hl'.1, h1.symm⟩, ?_⟩
            rw [h1]; exact hl'.2
          · have : a ∈ r'.map I.head := by
              rcases hm'' with h | h
              · exact absurd h h1
              · exact h
            obtain ⟨q1, q2, e1, _, l1, l2⟩ := ih _ hl'.2 this
            exact ⟨e' :: q1, q2, by simp [e1], by simp, ⟨hl'.1, l1⟩, l2⟩
      obtain ⟨q1, q2, e1, _, l1, l2⟩ := aux r _ hl.2 hm'
      exact ⟨e :: q1, q2, by simp [e1], by simp, ⟨hl.1, l1⟩, l2⟩

/-- cutting one cycle out of a walk whose node sequence repeats a node -/
theorem cut_cycle {x : List Int} (hp : I.NC x) :
    ∀ (w : List (Nat × Bool)) (a b : Nat), I.Link a w b → (∀ e ∈ w, I.IsRes x e) →
      ¬ (a :: w.map I.head).Nodup →
      ∃ w', I.Link a w' b ∧ (∀ e ∈ w', I.IsRes x e) ∧ w'.length < w.length ∧ I.wcost w' ≤ I.wcost w
  | [], _, _, _, _, h => by simp at h
  | e :: r, a, b, hl, hr, hnd => by
    by_cases hm : a ∈ (e :: r).map I.head
    · obtain ⟨q1, q2, e1, hne, l1, l2⟩ := I.split_at_start (e :: r) a b hl hm
      have hr1 : ∀ e' ∈ q1, I.IsRes x e' := fun e' he' => hr e' (by rw [e1]; exact List.mem_append_left _ he')
      have hr2 : ∀ e' ∈ q2, I.IsRes x e' := fun e' he' => hr e' (by rw [e1]; exact List.mem_append_right _ he')
      have hc := hp a q1 l1 hr1
      refine ⟨q2, l2, hr2, ?_, ?_⟩
      · rw [e1, List.length_append]
        have : 0 < q1.length := List.length_pos_of_ne_nil hne
        omega
      · rw [e1, wcost_append]; omega
    · have hnd' : ¬ (I.head e :: r.map I.head).Nodup := by
        intro h
        apply hnd
        rw [List.nodup_cons]
        exact ⟨hm, by simpa using h⟩
      obtain ⟨w', l', r', len', c'⟩ := cut_cycle hp r _ b hl.2 (fun e' he' => hr e' (List.mem_cons_of_mem _ he')) hnd'
      refine ⟨e :: w', ⟨hl.1, l'⟩, ?_, by simp only [List.length_cons]; omega, by simp only [wcost]; omega⟩
      intro e' he'
      rcases List.mem_cons.1 he' with rfl | h
      · exact hr _ (by simp)
      · exact r' e' h

/-- every walk can be replaced by one with pairwise different nodes that is not dearer -/
theorem simple_walk {x : List Int} (hp : I.NC x) :
    ∀ (m : Nat) (w : List (Nat × Bool)) (a b : Nat), w.length ≤ m → I.Link a w b → (∀ e ∈ w, I.IsRes x e) →
      ∃ w', I.Link a w' b ∧ (∀ e ∈ w', I.IsRes x e) ∧ (a :: w'.map I.head).Nodup ∧ I.wcost w' ≤ I.wcost w
  | 0, w, a, b, hm, hl, hr => by
    have : w = [] := List.length_eq_zero_iff.1 (Nat.le_zero.1 hm)
    subst this
    exact ⟨[], hl, hr, by simp, Int.le_refl _⟩
  | m + 1, w, a, b, hm, hl, hr => by
    by_cases hnd : (a :: w.map I.head).Nodup
    · exact ⟨w, hl, hr, hnd, Int.le_refl _⟩
    · obtain ⟨w1, l1, r1, len1, c1⟩ := I.cut_cycle hp w a b hl hr hnd
      obtain ⟨w2, l2, r2, n2, c2⟩ := simple_walk hp m w1 a b (by omega) l1 r1
      exact ⟨w2, l2, r2, n2, by omega⟩

/-- the nodes of a walk in a valid instance are nodes of the instance -/
theorem walk_nodes_lt (hv : I.Valid) {x : List Int} : ∀ (w : List (Nat × Bool)), (∀ e ∈ w, I.IsRes x e) →
    ∀ v ∈ w.map I.head, v < I.n := by
  intro w hr v hv'
  obtain ⟨e, he, rfl⟩ := List.mem_map.1 hv'
  have := hv e.1 (hr e he).1
  unfold head; split <;> omega

/-- a walk with pairwise different nodes has at most `n - 1` arcs -/
theorem simple_length (hv : I.Valid) {x : List Int} {w : List (Nat × Bool)} {a : Nat} (ha : a < I.n)
    (hr : ∀ e ∈ w, I.IsRes x e) (hnd : (a :: w.map I.head).Nodup) : w.length + 1 ≤ I.n := by
  have hsub : (a :: w.map I.head) ⊆ List.range I.n := by
    intro v hv'
    rcases List.mem_cons.1 hv' with rfl | h
    · exact List.mem_range.2 ha
    · exact List.mem_range.2 (I.walk_nodes_lt hv w hr v h)
  have := (List.subperm_of_subset hnd hsub).length_le
  simpa using this

/-! ### Part B: walk costs versus Bellman-Ford labels -/

/-- `W k v c`: some walk with at most `k` residual arcs ends in `v` and costs `c`, counted from the initial
label of its first node -/
def W (x : List Int) (d0 : Nat → Option Int) : Nat → Nat → Int → Prop
  | 0, v, c => v < I.n ∧ d0 v = some c
  | k + 1, v, c => W x d0 k v c ∨ ∃ e c', I.IsRes x e ∧ I.head e = v ∧ W x d0 k (I.tail e) c' ∧ c = c' + I.ecost e

theorem W_mono (x : List Int) (d0 : Nat → Option Int) {v : Nat} {c : Int} :
    ∀ (j k : Nat), j ≤ k → I.W x d0 j v c → I.W x d0 k v c := by
  intro j k hjk h
  induction k with
  | zero =>
    have : j = 0 := by omega
    subst this; exact h
  | succ k ih =>
    by_cases hj : j = k + 1
    · subst hj; exact h
    · exact Or.inl (ih (by omega))

theorem W_walk (x : List Int) (d0 : Nat → Option Int) : ∀ (k v : Nat) (c : Int), I.W x d0 k v c →
    ∃ a c0 w, a < I.n ∧ d0 a = some c0 ∧ I.Link a w v ∧ (∀ e ∈ w, I.IsRes x e) ∧ c = c0 + I.wcost w
  | 0, v, c, h => ⟨v, c, [], h.1, h.2, rfl, (fun _ he => by cases he), by simp [wcost]⟩
  | k + 1, v, c, h => by
    rcases h with h | ⟨e, c', hr, hh, hw, hc⟩
    · exact W_walk x d0 k v c h
    · obtain ⟨a, c0, w, ha, hd, hl, hres, hcost⟩ := W_walk x d0 k _ c' hw
      refine ⟨a, c0, w ++ [e], ha, hd, I.link_append w [e] a _ v hl ⟨rfl, hh⟩, ?_, ?_⟩
      · intro e' he'
        rcases List.mem_append.1 he' with h' | h'
        · exact hres e' h'
        · have : e' = e := by simpa using h'
          rw [this]; exact hr
      · rw [wcost_append, hc, hcost]; simp [wcost]; ring

theorem walk_W (x : List Int) (d0 : Nat → Option Int) : ∀ (w : List (Nat × Bool)) (a v j : Nat) (c0 : Int),
    I.W x d0 j a c0 → I.Link a w v → (∀ e ∈ w, I.IsRes x e) → I.W x d0 (j + w.length) v (c0 + I.wcost w)
  | [], a, v, j, c0, h, hl, _ => by
    have : a = v := hl
    subst this
    simpa [wcost] using h
  | e :: r, a, v, j, c0, h, hl, hr => by
    have h1 : I.W x d0 (j + 1) (I.head e) (c0 + I.ecost e) :=
      Or.inr ⟨e, c0, hr e (by simp), rfl, by rw [hl.1]; exact h, rfl⟩
    have := walk_W x d0 r _ v (j + 1) _ h1 hl.2 (fun e' he' => hr e' (List.mem_cons_of_mem _ he'))
    have e1 : j + (e :: r).length = j + 1 + r.length := by simp only [List.length_cons]; omega
    have e2 : c0 + I.wcost (e :: r) = c0 + I.ecost e + I.wcost r := by simp only [wcost]; ring
    rw [e1, e2]; exact this

/-- with feasible potentials, walks of at most `n - 1` arcs are as good as any -/
theorem W_short (hv : I.Valid) {x : List Int} (hp : I.NC x) (d0 : Nat → Option Int)
    {k v : Nat} {c : Int} (h : I.W x d0 k v c) : ∃ c', c' ≤ c ∧ I.W x d0 (I.n - 1) v c' := by
  obtain ⟨a, c0, w, ha, hd, hl, hres, hcost⟩ := I.W_walk x d0 k v c h
  obtain ⟨w', l', r', nd', c'⟩ := I.simple_walk hp w.length w a v (Nat.le_refl _) hl hres
  have hlen := I.simple_length hv ha r' nd'
  refine ⟨c0 + I.wcost w', by omega, ?_⟩
  have h0 : I.W x d0 0 a c0 := ⟨ha, hd⟩
  have := I.walk_W x d0 w' a v 0 c0 h0 l' r'
  exact I.W_mono x d0 _ _ (by omega) this

/-! Bellman-Ford labels -/

def D (st : BF) (v : Nat) : Option Int := st.dist.getD v none

/-- every finite label is the cost of a walk -/
def Sound (x : List Int) (d0 : Nat → Option Int) (st : BF) : Prop :=
  ∀ v < I.n, ∀ d, D st v = some d → ∃ k, I.W x d0 k v d

/-- labels only go down -/
def Le (st st' : BF) : Prop := ∀ v d, D st v = some d → ∃ d', D st' v = some d' ∧ d' ≤ d

/-- the labels are at most the cost of every walk with at most `j` arcs -/
def Dom (x : List Int) (d0 : Nat → Option Int) (j : Nat) (st : BF) : Prop :=
  ∀ v c, I.W x d0 j v c → ∃ d, D st v = some d ∧ d ≤ c

/-- no residual arc can improve its head -/
def Quiet (x : List Int) (st : BF) : Prop :=
  ∀ e, I.IsRes x e → ∀ du, D st (I.tail e) = some du → ∃ dv, D st (I.head e) = some dv ∧ dv ≤ du + I.ecost e

theorem Le.refl (st : BF) : Le st st := fun _ d h => ⟨d, h, Int.le_refl _⟩

theorem Le.trans {a b c : BF} (h1 : Le a b) (h2 : Le b c) : Le a c := by
  intro v d hd
  obtain ⟨d1, e1, l1⟩ := h1 v d hd
  obtain ⟨d2, e2, l2⟩ := h2 v d1 e1
  exact ⟨d2, e2, by omega⟩

theorem tryRelax_le (st : BF) (u v : Nat) (c : Int) (tag : Nat × Bool) : Le st (tryRelax st u v c tag) := by
  rcases tryRelax_cases st u v c tag with ⟨e, _⟩ | ⟨du, _, himp, e⟩ <;> rw [e]
  · exact Le.refl st
  · intro w d hd
    unfold D at hd ⊢
    simp only [getD_set_opt]
    by_cases cw : w = v ∧ v < st.dist.length
    · rw [if_pos cw]
      refine ⟨du + c, rfl, ?_⟩
      rw [cw.1] at hd
      rw [hd] at himp
      simp only [improves, decide_eq_true_eq] at himp
      omega
    · rw [if_neg cw]; exact ⟨d, hd, Int.le_refl _⟩

theorem relaxArc_le (x : List Int) (u v : Nat) (st : BF) (i : Nat) : Le st (I.relaxArc x u v st i) := by
  rw [relaxArc_eq]
  simp only
  have h1 : Le st (if I.fwdCond x u v i then tryRelax st u v (I.arc i).cost (i, true) else st) := by
    split
    · exact tryRelax_le _ _ _ _ _
    · exact Le.refl st
  split
  · exact h1.trans (tryRelax_le _ _ _ _ _)
  · exact h1

theorem foldl_le (x : List Int) : ∀ (l : List (Nat × Nat × Nat)) (st : BF),
    Le st (l.foldl (fun st t => I.relaxArc x t.1 t.2.1 st t.2.2) st)
  | [], st => Le.refl st
  | t :: l, st => by
    simp only [List.foldl_cons]
    exact (I.relaxArc_le x _ _ st _).trans (foldl_le x l _)

/-- after relaxing with a finite tail label, the head label is at most tail label + cost -/
theorem tryRelax_post (st : BF) (u v : Nat) (c : Int) (tag : Nat × Bool) (hv : v < st.dist.length) {du : Int}
    (hd : D st u = some du) : ∃ dv, D (tryRelax st u v c tag) v = some dv ∧ dv ≤ du + c := by
  rcases tryRelax_cases st u v c tag with ⟨e, q⟩ | ⟨du', hd', _, e⟩ <;> rw [e]
  · have := q du hd
    cases hv' : st.dist.getD v none with
    | none => rw [hv'] at this; simp [improves] at this
    | some dv =>
      rw [hv'] at this
      simp only [improves, decide_eq_false_iff_not] at this
      exact ⟨dv, hv', by omega⟩
  · have : du' = du := by
      have h1 : st.dist.getD u none = some du := hd
      rw [h1] at hd'; cases hd'; rfl
    subst this
    refine ⟨du' + c, ?_, Int.le_refl _⟩
    unfold D
    simp only [getD_set_opt]
    simp [hv]

theorem tryRelax_len (st : BF) (u v : Nat) (c : Int) (tag : Nat × Bool) :
    (tryRelax st u v c tag).dist.length = st.dist.length := by
  rcases tryRelax_cases st u v c tag with ⟨e, _⟩ | ⟨du, _, _, e⟩ <;> rw [e]
  simp

theorem relaxArc_post (x : List Int) (st : BF) (e : Nat × Bool) (hr : I.IsRes x e)
    (hl : I.head e < st.dist.length) {du : Int} (hd : D st (I.tail e) = some du) :
    ∃ dv, D (I.relaxArc x (I.tail e) (I.head e) st e.1) (I.head e) = some dv ∧ dv ≤ du + I.ecost e := by
  obtain ⟨i, fwd⟩ := e
  rw [relaxArc_eq]
  simp only
  cases fwd
  · have hc : I.bwdCond x (I.tail (i, false)) (I.head (i, false)) i := by
      refine ⟨rfl, rfl, ?_⟩
      have := hr.2; simpa [resOf] using this
    rw [if_pos hc]
    -- the first relaxation can only lower the tail label
    have hle : Le st (if I.fwdCond x (I.tail (i, false)) (I.head (i, false)) i
        then tryRelax st (I.tail (i, false)) (I.head (i, false)) (I.arc i).cost (i, true) else st) := by
      split
      · exact tryRelax_le _ _ _ _ _
      · exact Le.refl st
    have hlen : (if I.fwdCond x (I.tail (i, false)) (I.head (i, false)) i
        then tryRelax st (I.tail (i, false)) (I.head (i, false)) (I.arc i).cost (i, true) else st).dist.length
        = st.dist.length := by
      split
      · exact tryRelax_len _ _ _ _ _
      · rfl
    obtain ⟨du', hd', hle'⟩ := hle _ du hd
    obtain ⟨dv, h1, h2⟩ := tryRelax_post _ (I.tail (i, false)) (I.head (i, false)) (- (I.arc i).cost) (i, false)
      (by rw [hlen]; exact hl) hd'
    refine ⟨dv, h1, ?_⟩
    simp only [ecost, Bool.false_eq_true, if_false]
    omega
  · have hc : I.fwdCond x (I.tail (i, true)) (I.head (i, true)) i := by
      refine ⟨rfl, rfl, ?_⟩
      have := hr.2; simp [resOf] at this; omega
    rw [if_pos hc]
    obtain ⟨dv, h1, h2⟩ := tryRelax_post st (I.tail (i, true)) (I.head (i, true)) (I.arc i).cost (i, true) hl hd
    have hle : Le (tryRelax st (I.tail (i, true)) (I.head (i, true)) (I.arc i).cost (i, true))
        (if I.bwdCond x (I.tail (i, true)) (I.head (i, true)) i
          then tryRelax (tryRelax st (I.tail (i, true)) (I.head (i, true)) (I.arc i).cost (i, true))
            (I.tail (i, true)) (I.head (i, true)) (- (I.arc i).cost) (i, false)
          else tryRelax st (I.tail (i, true)) (I.head (i, true)) (I.arc i).cost (i, true)) := by
      split
      · exact tryRelax_le _ _ _ _ _
      · exact Le.refl _
    obtain ⟨dv', h3, h4⟩ := hle _ dv h1
    refine ⟨dv', h3, ?_⟩
    simp only [ecost, if_true]
    omega

theorem foldl_post (x : List Int) (e : Nat × Bool) (hr : I.IsRes x e) :
    ∀ (l : List (Nat × Nat × Nat)) (st : BF) (du : Int), (I.tail e, I.head e, e.1) ∈ l →
      I.head e < st.dist.length → D st (I.tail e) = some du →
      ∃ dv, D (l.foldl (fun st t => I.relaxArc x t.1 t.2.1 st t.2.2) st) (I.head e) = some dv ∧
        dv ≤ du + I.ecost e
  | [], _, _, h, _, _ => by cases h
  | t :: l, st, du, hm, hl, hd => by
    simp only [List.foldl_cons]
    by_cases c : t = (I.tail e, I.head e, e.1)
    · subst c
      obtain ⟨dv, h1, h2⟩ := I.relaxArc_post x st e hr hl hd
      obtain ⟨dv', h3, h4⟩ := I.foldl_le x l _ _ dv h1
      exact ⟨dv', h3, by omega⟩
    · have hm' : (I.tail e, I.head e, e.1) ∈ l := by
        rcases List.mem_cons.1 hm with h' | h'
        · exact absurd h'.symm c
        · exact h'
      obtain ⟨du', hd', hle⟩ := I.relaxArc_le x t.1 t.2.1 st t.2.2 _ du hd
      obtain ⟨dv, h1, h2⟩ := foldl_post x e hr l _ du' hm' (by rw [I.relaxArc_len]; exact hl) hd'
      exact ⟨dv, h1, by omega⟩

theorem sweep_post (hv : I.Valid) (x : List Int) (st : BF) (hl : st.dist.length = I.n) (e : Nat × Bool)
    (hr : I.IsRes x e) {du : Int} (hd : D st (I.tail e) = some du) :
    ∃ dv, D (I.sweep x st) (I.head e) = some dv ∧ dv ≤ du + I.ecost e := by
  have hb := hv e.1 hr.1
  have ht : I.tail e < I.n := by unfold tail; split <;> omega
  have hh : I.head e < I.n := by unfold head; split <;> omega
  exact I.foldl_post x e hr _ st du ((I.mem_triples).2 ⟨ht, hh, hr.1⟩) (by rw [hl]; exact hh) hd

theorem sweep_le (x : List Int) (st : BF) : Le st (I.sweep x st) := I.foldl_le x _ st

/-- one sweep extends domination by one arc -/
theorem dom_sweep (hv : I.Valid) (x : List Int) (d0 : Nat → Option Int) {j : Nat} {st : BF}
    (hl : st.dist.length = I.n) (h : I.Dom x d0 j st) : I.Dom x d0 (j + 1) (I.sweep x st) := by
  intro v c hw
  rcases hw with hw | ⟨e, c', hr, hh, hw, hc⟩
  · obtain ⟨d, hd, hle⟩ := h v c hw
    obtain ⟨d', hd', hle'⟩ := I.sweep_le x st v d hd
    exact ⟨d', hd', by omega⟩
  · obtain ⟨du, hd, hle⟩ := h _ c' hw
    obtain ⟨dv, h1, h2⟩ := I.sweep_post hv x st hl e hr hd
    rw [hh] at h1
    exact ⟨dv, h1, by omega⟩

/-! ### Part C: `n - 1` sweeps suffice -/

theorem dom_fix (hv : I.Valid) (x : List Int) (d0 : Nat → Option Int) {st : BF} (hl : st.dist.length = I.n)
    (hfix : I.sweep x st = st) {j : Nat} (h : I.Dom x d0 j st) : ∀ m, I.Dom x d0 (j + m) st
  | 0 => h
  | m + 1 => by
    have := I.dom_sweep hv x d0 hl (dom_fix hv x d0 hl hfix h m)
    rw [hfix] at this
    exact this

theorem rounds_dom (hv : I.Valid) (x : List Int) (d0 : Nat → Option Int) :
    ∀ (k : Nat) (st : BF) (j : Nat), st.dist.length = I.n → I.Dom x d0 j st → I.Dom x d0 (j + k) (I.rounds x k st)
  | 0, _, _, _, h => h
  | k + 1, st, j, hl, h => by
    unfold rounds
    simp only
    have hl0 : ({ st with upd := false } : BF).dist.length = I.n := hl
    have h0 : I.Dom x d0 j { st with upd := false } := h
    have h1 := I.dom_sweep hv x d0 hl0 h0
    have hls : (I.sweep x { st with upd := false }).dist.length = I.n := (I.foldl_len x _ _).trans hl
    split
    · have := rounds_dom hv x d0 k _ (j + 1) hls h1
      have e : j + (k + 1) = j + 1 + k := by omega
      rw [e]; exact this
    · rename_i hu
      have hq : (I.sweep x { st with upd := false }).upd = false := by simpa using hu
      obtain ⟨e0, _⟩ := I.sweep_quiet x _ hq
      rw [e0]
      have := I.dom_fix hv x d0 hl0 e0 h0 (k + 1)
      exact this

theorem sound_relaxed {x : List Int} {d0 : Nat → Option Int} {st : BF} (h : I.Sound x d0 st) {u v : Nat}
    (hu : u < I.n) {du : Int} (hd : st.dist.getD u none = some du) {e : Nat × Bool} (he : I.IsRes x e)
    (hh : I.head e = v) (ht : I.tail e = u) : I.Sound x d0 (relaxed st v (du + I.ecost e) e) := by
  intro w hw d hdw
  unfold D relaxed at hdw
  simp only [getD_set_opt] at hdw
  by_cases c : w = v ∧ v < st.dist.length
  · rw [if_pos c] at hdw
    cases hdw
    obtain ⟨k, hk⟩ := h u hu du hd
    exact ⟨k + 1, Or.inr ⟨e, du, he, by rw [hh, c.1], by rw [ht]; exact hk, rfl⟩⟩
  · rw [if_neg c] at hdw
    exact h w hw d hdw

theorem sound_sweep {x : List Int} {d0 : Nat → Option Int} {st : BF} (h : I.Sound x d0 st) :
    I.Sound x d0 (I.sweep x st) := by
  apply I.sweep_inv (I.Sound x d0) x st h
  · intro st' u v i h' hu _ hi hc du hd
    have := I.sound_relaxed h' hu hd (I.resOf_fwd hi hc.2.2) (e := (i, true)) (v := v) (by simp [head, hc.2.1]) (by simp [tail, hc.1])
    simpa [ecost] using this
  · intro st' u v i h' hu _ hi hc du hd
    have := I.sound_relaxed h' hu hd (I.resOf_bwd hi hc.2.2) (e := (i, false)) (v := v) (by simp [head, hc.2.1]) (by simp [tail, hc.1])
    simpa [ecost] using this

theorem sound_rounds {x : List Int} {d0 : Nat → Option Int} (k : Nat) {st : BF} (h : I.Sound x d0 st) :
    I.Sound x d0 (I.rounds x k st) :=
  I.rounds_inv (I.Sound x d0) x (fun _ hs => hs) (fun _ hs => I.sound_sweep hs) k st h

/-- **convergence**: sound labels that dominate all walks of `n - 1` arcs cannot be improved any more -/
theorem quiet_of_dom (hv : I.Valid) {x : List Int} (hp : I.NC x) {d0 : Nat → Option Int}
    {st : BF} {j : Nat} (hj : I.n - 1 ≤ j) (hs : I.Sound x d0 st) (hd : I.Dom x d0 j st) : I.Quiet x st := by
  intro e hr du hdu
  have hb := hv e.1 hr.1
  have ht : I.tail e < I.n := by unfold tail; split <;> omega
  obtain ⟨k, hk⟩ := hs _ ht du hdu
  have h1 : I.W x d0 (k + 1) (I.head e) (du + I.ecost e) := Or.inr ⟨e, du, hr, rfl, hk, rfl⟩
  obtain ⟨c', hc', hw⟩ := I.W_short hv hp d0 h1
  obtain ⟨dv, h2, h3⟩ := hd _ c' (I.W_mono x d0 _ _ hj hw)
  exact ⟨dv, h2, by omega⟩

theorem tryRelax_noop (st : BF) (u v : Nat) (c : Int) (tag : Nat × Bool)
    (h : ∀ du, st.dist.getD u none = some du → improves (st.dist.getD v none) (du + c) = false) :
    tryRelax st u v c tag = st := by
  rcases tryRelax_cases st u v c tag with ⟨e, _⟩ | ⟨du, hd, himp, _⟩
  · exact e
  · rw [h du hd] at himp; cases himp

theorem relaxArc_noop {x : List Int} {st : BF} (hq : I.Quiet x st) (u v i : Nat) (hi : i < I.m) :
    I.relaxArc x u v st i = st := by
  rw [relaxArc_eq]
  simp only
  have h1 : (if I.fwdCond x u v i then tryRelax st u v (I.arc i).cost (i, true) else st) = st := by
    split
    · rename_i c
      apply tryRelax_noop
      intro du hd
      have := hq (i, true) (I.resOf_fwd hi c.2.2) du (by simpa [D, tail, c.1] using hd)
      obtain ⟨dv, h2, h3⟩ := this
      have h2' : st.dist.getD v none = some dv := by simpa [D, head, c.2.1] using h2
      rw [h2']
      simp only [improves, decide_eq_false_iff_not]
      simp only [ecost, if_true] at h3
      omega
    · rfl
  rw [h1]
  split
  · rename_i c
    apply tryRelax_noop
    intro du hd
    have := hq (i, false) (I.resOf_bwd hi c.2.2) du (by simpa [D, tail, c.1] using hd)
    obtain ⟨dv, h2, h3⟩ := this
    have h2' : st.dist.getD v none = some dv := by simpa [D, head, c.2.1] using h2
    rw [h2']
    simp only [improves, decide_eq_false_iff_not]
    simp only [ecost, Bool.false_eq_true, if_false] at h3
    omega
  · rfl

theorem sweep_noop {x : List Int} {st : BF} (hq : I.Quiet x st) : I.sweep x st = st := by
  unfold sweep
  have : ∀ (l : List (Nat × Nat × Nat)), (∀ t ∈ l, t.2.2 < I.m) →
      l.foldl (fun st t => I.relaxArc x t.1 t.2.1 st t.2.2) st = st := by
    intro l
    induction l with
    | nil => intro _; rfl
    | cons t l ih =>
      intro hm
      simp only [List.foldl_cons]
      rw [I.relaxArc_noop hq _ _ _ (hm t (by simp))]
      exact ih (fun t' ht' => hm t' (List.mem_cons_of_mem _ ht'))
  apply this
  intro t ht
  obtain ⟨u, v, i⟩ := t
  exact ((I.mem_triples).1 ht).2.2

/-- the zero-initialised labels of `potentials` -/
def zeroInit : BF := ⟨List.replicate I.n (some 0), List.replicate I.n none, false⟩
def zeroLab (v : Nat) : Option Int := if v < I.n then some 0 else none

theorem potentials_isSome (hv : I.Valid) {x : List Int} {p : Nat → Int} (hp : I.Pot x p) :
    ∃ q, I.potentials x = some q := by
  have hl : I.zeroInit.dist.length = I.n := by simp [zeroInit]
  have hs0 : I.Sound x I.zeroLab I.zeroInit := by
    intro v hvn d hd
    refine ⟨0, hvn, ?_⟩
    have : D I.zeroInit v = some 0 := by simp [D, zeroInit, List.getD, hvn]
    rw [this] at hd
    simp [zeroLab, hvn]
    cases hd; rfl
  have hd0 : I.Dom x I.zeroLab 0 I.zeroInit := by
    intro v c hw
    have h1 : v < I.n := hw.1
    have h2 : I.zeroLab v = some c := hw.2
    simp only [zeroLab, h1, if_true, Option.some.injEq] at h2
    exact ⟨0, by simp [D, zeroInit, List.getD, h1], by omega⟩
  have hs := I.sound_rounds (x := x) I.n hs0
  have hd := I.rounds_dom hv x I.zeroLab I.n _ 0 hl hd0
  have hq := I.quiet_of_dom hv (I.nc_of_pot hp) (j := 0 + I.n) (by omega) hs hd
  have hq' : I.Quiet x { I.rounds x I.n I.zeroInit with upd := false } := hq
  have hno := I.sweep_noop hq'
  unfold potentials
  simp only
  have e : (⟨List.replicate I.n (some 0), List.replicate I.n none, false⟩ : BF) = I.zeroInit := rfl
  rw [e, hno]
  simp

/-! ### Part D: the parent pointers never form a cycle -/

theorem relaxArc_inv2 (P : BF → Prop) (x : List Int) (u v : Nat) (st : BF) (i : Nat) (hP : P st)
    (hf : ∀ st', P st' → I.fwdCond x u v i → ∀ du, st'.dist.getD u none = some du →
      improves (st'.dist.getD v none) (du + (I.arc i).cost) = true →
      P (relaxed st' v (du + (I.arc i).cost) (i, true)))
    (hb : ∀ st', P st' → I.bwdCond x u v i → ∀ du, st'.dist.getD u none = some du →
      improves (st'.dist.getD v none) (du + - (I.arc i).cost) = true →
      P (relaxed st' v (du + - (I.arc i).cost) (i, false))) :
    P (I.relaxArc x u v st i) := by
  rw [relaxArc_eq]
  simp only
  have h1 : P (if I.fwdCond x u v i then tryRelax st u v (I.arc i).cost (i, true) else st) := by
    by_cases c : I.fwdCond x u v i
    · rw [if_pos c]
      rcases tryRelax_cases st u v (I.arc i).cost (i, true) with ⟨e, _⟩ | ⟨du, hd, hi, e⟩
      · rw [e]; exact hP
      · rw [e]; exact hf st hP c du hd hi
    · rw [if_neg c]; exact hP
  by_cases c : I.bwdCond x u v i
  · rw [if_pos c]
    rcases tryRelax_cases _ u v (- (I.arc i).cost) (i, false) with ⟨e, _⟩ | ⟨du, hd, hi, e⟩
    · rw [e]; exact h1
    · rw [e]; exact hb _ h1 c du hd hi
  · rw [if_neg c]; exact h1

theorem sweep_inv2 (P : BF → Prop) (x : List Int) (st : BF) (hP : P st)
    (hf : ∀ st' u v i, P st' → u < I.n → v < I.n → i < I.m → I.fwdCond x u v i →
      ∀ du, st'.dist.getD u none = some du → improves (st'.dist.getD v none) (du + (I.arc i).cost) = true →
      P (relaxed st' v (du + (I.arc i).cost) (i, true)))
    (hb : ∀ st' u v i, P st' → u < I.n → v < I.n → i < I.m → I.bwdCond x u v i →
      ∀ du, st'.dist.getD u none = some du → improves (st'.dist.getD v none) (du + - (I.arc i).cost) = true →
      P (relaxed st' v (du + - (I.arc i).cost) (i, false))) :
    P (I.sweep x st) := by
  unfold sweep
  apply foldl_inv P _ _ _ hP
  intro st' h' t ht
  obtain ⟨u, v, i⟩ := t
  obtain ⟨h1, h2, h3⟩ := (I.mem_triples).1 ht
  exact I.relaxArc_inv2 P x u v st' i h' (fun s hs c du hd hi => hf s u v i hs h1 h2 h3 c du hd hi)
    (fun s hs c du hd hi => hb s u v i hs h1 h2 h3 c du hd hi)

/-- parent arcs are residual arcs into their node along which the label does not increase, and following
the parents from any node ends -/
structure PInv (x : List Int) (st : BF) : Prop where
  lenD  : st.dist.length = I.n
  lenP  : st.par.length = I.n
  tight : ∀ v e, st.par.getD v none = some e → I.IsRes x e ∧ I.head e = v ∧
    ∃ dv du, D st v = some dv ∧ D st (I.tail e) = some du ∧ du + I.ecost e ≤ dv
  steps : ∀ v, ∃ k, I.Steps st.par v k

theorem pinv_relaxed (_hv : I.Valid) {x : List Int} {p : Nat → Int} (hp : I.Pot x p) {st : BF} (h : I.PInv x st)
    {u v : Nat} (hvn : v < I.n) {du : Int} (hd : st.dist.getD u none = some du) {e : Nat × Bool}
    (he : I.IsRes x e) (hh : I.head e = v) (ht : I.tail e = u)
    (himp : improves (st.dist.getD v none) (du + I.ecost e) = true) :
    I.PInv x (relaxed st v (du + I.ecost e) e) := by
  have hvl : v < st.dist.length := by rw [h.lenD]; exact hvn
  have hvp : v < st.par.length := by rw [h.lenP]; exact hvn
  have hrc := hp e he
  unfold erc at hrc
  rw [ht, hh] at hrc
  -- the new label of v is below its old one
  have hlow : ∀ dvo, st.dist.getD v none = some dvo → du + I.ecost e < dvo := by
    intro dvo h0
    rw [h0] at himp
    simpa [improves] using himp
  have huv : u ≠ v := by
    intro e0
    subst e0
    have := hlow du hd
    omega
  -- labels after the step
  have Dv : D (relaxed st v (du + I.ecost e) e) v = some (du + I.ecost e) := by
    show (st.dist.set v (some (du + I.ecost e))).getD v none = _
    rw [getD_set_opt, if_pos ⟨rfl, hvl⟩]
  have Dw : ∀ w, w ≠ v → D (relaxed st v (du + I.ecost e) e) w = D st w := by
    intro w hw
    show (st.dist.set v (some (du + I.ecost e))).getD w none = st.dist.getD w none
    rw [getD_set_opt, if_neg (fun hc => hw hc.1)]
  have Pv : (relaxed st v (du + I.ecost e) e).par.getD v none = some e := by
    show (st.par.set v (some e)).getD v none = _
    rw [getD_set_opt, if_pos ⟨rfl, hvp⟩]
  have Pw : ∀ w, w ≠ v → (relaxed st v (du + I.ecost e) e).par.getD w none = st.par.getD w none := by
    intro w hw
    show (st.par.set v (some e)).getD w none = st.par.getD w none
    rw [getD_set_opt, if_neg (fun hc => hw hc.1)]
  -- nodes whose reduced label is below the old reduced label of v
  let Below : Nat → Prop := fun w => ∃ dw, D st w = some dw ∧ ∀ dvo, D st v = some dvo → dw - p w < dvo - p v
  have below_ne : ∀ w, Below w → w ≠ v := by
    rintro w ⟨dw, h1, h2⟩ e0
    subst e0
    have := h2 dw h1
    omega
  have below_u : Below u := ⟨du, hd, fun dvo h0 => by have := hlow dvo h0; omega⟩
  have below_up : ∀ w e', Below w → st.par.getD w none = some e' → Below (I.tail e') := by
    rintro w e' ⟨dw, h1, h2⟩ hpar
    obtain ⟨r1, r2, dv', du', t1, t2, t3⟩ := h.tight w e' hpar
    have hrc' := hp e' r1
    unfold erc at hrc'
    rw [r2] at hrc'
    have : dv' = dw := by rw [h1] at t1; cases t1; rfl
    subst this
    exact ⟨du', t2, fun dvo h0 => by have := h2 dvo h0; omega⟩
  have avoid : ∀ (k w : Nat), I.Steps st.par w k → Below w → I.Steps (relaxed st v (du + I.ecost e) e).par w k := by
    intro k
    induction k with
    | zero =>
      intro w hs hb
      show (relaxed st v (du + I.ecost e) e).par.getD w none = none
      rw [Pw w (below_ne w hb)]; exact hs
    | succ k ih =>
      intro w hs hb
      obtain ⟨e', hpar, hs'⟩ := hs
      exact ⟨e', by rw [Pw w (below_ne w hb)]; exact hpar, ih _ hs' (below_up w e' hb hpar)⟩
  obtain ⟨ku, hku⟩ := h.steps u
  have hu' := avoid ku u hku below_u
  have hv' : I.Steps (relaxed st v (du + I.ecost e) e).par v (ku + 1) := ⟨e, Pv, by rw [ht]; exact hu'⟩
  have all : ∀ (k w : Nat), I.Steps st.par w k → ∃ k', I.Steps (relaxed st v (du + I.ecost e) e).par w k' := by
    intro k
    induction k with
    | zero =>
      intro w hs
      by_cases c : w = v
      · subst c; exact ⟨_, hv'⟩
      · exact ⟨0, by show (relaxed st v (du + I.ecost e) e).par.getD w none = none; rw [Pw w c]; exact hs⟩
    | succ k ih =>
      intro w hs
      by_cases c : w = v
      · subst c; exact ⟨_, hv'⟩
      · obtain ⟨e', hpar, hs'⟩ := hs
        obtain ⟨k', hk'⟩ := ih _ hs'
        exact ⟨k' + 1, e', by rw [Pw w c]; exact hpar, hk'⟩
  refine ⟨by simp [relaxed, h.lenD], by simp [relaxed, h.lenP], ?_, ?_⟩
  · intro w e' hpar
    by_cases c : w = v
    · subst c
      rw [Pv] at hpar
      cases hpar
      refine ⟨he, hh, du + I.ecost e, du, Dv, ?_, Int.le_refl _⟩
      rw [ht, Dw u huv]; exact hd
    · rw [Pw w c] at hpar
      obtain ⟨r1, r2, dv', du', t1, t2, t3⟩ := h.tight w e' hpar
      refine ⟨r1, r2, dv', ?_⟩
      by_cases c2 : I.tail e' = v
      · refine ⟨du + I.ecost e, by rw [Dw w c]; exact t1, by rw [c2]; exact Dv, ?_⟩
        have := hlow du' (by rw [← c2]; exact t2)
        omega
      · exact ⟨du', by rw [Dw w c]; exact t1, by rw [Dw _ c2]; exact t2, t3⟩
  · intro w
    obtain ⟨k, hk⟩ := h.steps w
    exact all k w hk

theorem pinv_sweep (hv : I.Valid) {x : List Int} {p : Nat → Int} (hp : I.Pot x p) {st : BF} (h : I.PInv x st) :
    I.PInv x (I.sweep x st) := by
  apply I.sweep_inv2 (I.PInv x) x st h
  · intro st' u v i h' _ hvn hi hc du hd himp
    have := I.pinv_relaxed hv hp h' hvn hd (I.resOf_fwd hi hc.2.2) (e := (i, true)) (v := v) (u := u)
      (by simp [head, hc.2.1]) (by simp [tail, hc.1]) (by simpa [ecost] using himp)
    simpa [ecost] using this
  · intro st' u v i h' _ hvn hi hc du hd himp
    have := I.pinv_relaxed hv hp h' hvn hd (I.resOf_bwd hi hc.2.2) (e := (i, false)) (v := v) (u := u)
      (by simp [head, hc.2.1]) (by simp [tail, hc.1]) (by simpa [ecost] using himp)
    simpa [ecost] using this

theorem pinv_rounds (hv : I.Valid) {x : List Int} {p : Nat → Int} (hp : I.Pot x p) (k : Nat) {st : BF}
    (h : I.PInv x st) : I.PInv x (I.rounds x k st) :=
  I.rounds_inv (I.PInv x) x (fun _ hs => ⟨hs.lenD, hs.lenP, hs.tight, hs.steps⟩)
    (fun _ hs => I.pinv_sweep hv hp hs) k st h

theorem pinv_init (x : List Int) (s : Nat) : I.PInv x (I.initBF s) := by
  unfold initBF
  refine ⟨by simp, by simp, ?_, ?_⟩
  · intro v e he
    by_cases hvn : v < I.n <;> simp [List.getD, hvn] at he
  · intro v
    refine ⟨0, ?_⟩
    show (List.replicate I.n (none : Option (Nat × Bool))).getD v none = none
    by_cases hvn : v < I.n <;> simp [List.getD, hvn]

/-! ### Part E: the path walk succeeds -/

theorem walk_some (par : List (Option (Nat × Bool))) :
    ∀ (k fuel node : Nat) (acc : List (Nat × Bool)), I.Steps par node k → k < fuel →
      ∃ path, I.walk par fuel node acc = some path
  | k, 0, _, _, _, h => by omega
  | 0, fuel + 1, node, acc, hs, _ => by
    have h0 : par.getD node none = none := hs
    exact ⟨acc, by unfold walk; rw [h0]⟩
  | k + 1, fuel + 1, node, acc, ⟨e, he, hs⟩, hk => by
    obtain ⟨i, fwd⟩ := e
    obtain ⟨path, hp⟩ := walk_some par k fuel _ ((i, fwd) :: acc) hs (by omega)
    refine ⟨path, ?_⟩
    unfold walk
    rw [he]
    exact hp

theorem pchain_snoc (par : List (Option (Nat × Bool))) (e : Nat × Bool) (he : par.getD (I.head e) none = some e) :
    ∀ (p : List (Nat × Bool)) (a : Nat), I.PChain par a p (I.tail e) → I.PChain par a (p ++ [e]) (I.head e)
  | [], a, h => by
    have : a = I.tail e := h
    exact ⟨this.symm, he, rfl⟩
  | e0 :: r, a, h => ⟨h.1, h.2.1, pchain_snoc par e he r _ h.2.2⟩

theorem steps_chain (par : List (Option (Nat × Bool))) (hpar : ∀ v e, par.getD v none = some e → I.head e = v) :
    ∀ (k w : Nat), I.Steps par w k → ∃ root path, I.PChain par root path w ∧ I.Steps par root 0 ∧ path.length = k
  | 0, w, h => ⟨w, [], rfl, h, rfl⟩
  | k + 1, w, ⟨e, he, hs⟩ => by
    obtain ⟨root, path, hc, hr, hl⟩ := steps_chain par hpar k _ hs
    have hh := hpar w e he
    refine ⟨root, path ++ [e], ?_, hr, by simp [hl]⟩
    have := I.pchain_snoc par e (by rw [hh]; exact he) path root hc
    rw [hh] at this
    exact this

/-- following the parents of a node of the instance takes fewer than `n` steps -/
theorem steps_lt (hv : I.Valid) {x : List Int} {st : BF} (h : I.PInv x st) {w k : Nat} (hw : w < I.n)
    (hs : I.Steps st.par w k) : k + 1 ≤ I.n := by
  have hpar : ∀ v e, st.par.getD v none = some e → I.head e = v := fun v e he => (h.tight v e he).2.1
  obtain ⟨root, path, hc, hr, hl⟩ := I.steps_chain st.par hpar k w hs
  have hres : ∀ e ∈ path, I.IsRes x e := by
    intro e he
    have := I.pchain_mem st.par path root w hc e he
    exact (h.tight _ e this).1
  have hnd := I.pchain_nodup st.par w path root 0 hc hr
  have hroot : root < I.n := by
    cases path with
    | nil =>
      have : root = w := hc
      rw [this]; exact hw
    | cons e r =>
      have hr1 := hres e (by simp)
      have hb := hv e.1 hr1.1
      rw [← hc.1]
      unfold tail; split <;> omega
  have := I.simple_length hv hroot hres hnd
  omega

theorem walk_isSome (hv : I.Valid) {x : List Int} {st : BF} (h : I.PInv x st) {t : Nat} (ht : t < I.n) :
    ∃ path, I.walk st.par (I.n + 1) t [] = some path := by
  obtain ⟨k, hk⟩ := h.steps t
  have := I.steps_lt hv h ht hk
  exact I.walk_some st.par k (I.n + 1) t [] hk (by omega)

/-! ### Part F: feasible potentials survive an augmentation along tight arcs -/

theorem term_le_lsum {l : List Nat} {g : Nat → Int} (hg : ∀ y ∈ l, 0 ≤ g y) {a : Nat} (ha : a ∈ l) :
    g a ≤ lsum l g := by
  induction l with
  | nil => cases ha
  | cons y ys ih =>
    simp only [lsum_cons]
    have h0 := hg y (by simp)
    have hr : 0 ≤ lsum ys g := lsum_nonneg (fun z hz => hg z (List.mem_cons_of_mem _ hz))
    rcases List.mem_cons.1 ha with rfl | h
    · omega
    · have := ih (fun z hz => hg z (List.mem_cons_of_mem _ hz)) h
      omega

theorem push_other (d : Int) : ∀ (w : List (Nat × Bool)) (x : List Int) (i : Nat), (∀ e ∈ w, e.1 ≠ i) →
    fl (push x d w) i = fl x i
  | [], _, _, _ => rfl
  | e :: r, x, i, h => by
    rw [push_cons, push_other d r _ i (fun e' he' => h e' (List.mem_cons_of_mem _ he'))]
    unfold fl
    rw [getD_set_int, if_neg (fun hc => h e (by simp) hc.1.symm)]

/-- the reverse of a residual arc -/
def rev (e : Nat × Bool) : Nat × Bool := (e.1, !e.2)

theorem tail_rev (e : Nat × Bool) : I.tail (rev e) = I.head e := by
  obtain ⟨i, f⟩ := e; cases f <;> simp [rev, tail, head]
theorem head_rev (e : Nat × Bool) : I.head (rev e) = I.tail e := by
  obtain ⟨i, f⟩ := e; cases f <;> simp [rev, tail, head]
theorem ecost_rev (e : Nat × Bool) : I.ecost (rev e) = - I.ecost e := by
  obtain ⟨i, f⟩ := e; cases f <;> simp [rev, ecost]
theorem same_index {e e0 : Nat × Bool} (h : e.1 = e0.1) : e = e0 ∨ e = rev e0 := by
  obtain ⟨i, f⟩ := e
  obtain ⟨i0, f0⟩ := e0
  simp only at h; subst h
  cases f <;> cases f0 <;> simp [rev]

theorem pot_push (hv : I.Valid) {x : List Int} {p : Nat → Int} (hp : I.Pot x p) {st : BF} (hq : I.Quiet x st)
    {w : List (Nat × Bool)} (d : Int)
    (htight : ∀ e0 ∈ w, ∃ dv du, D st (I.head e0) = some dv ∧ D st (I.tail e0) = some du ∧ dv = du + I.ecost e0) :
    ∃ p', I.Pot (push x d w) p' := by
  -- a shift that dominates every label, potential and arc cost
  let K : Int := lsum (List.range I.n) (fun v => |p v|) +
    lsum (List.range I.n) (fun v => |(D st v).getD 0|) + lsum (List.range I.m) (fun i => |(I.arc i).cost|)
  let p' : Nat → Int := fun v => match D st v with
    | some dv => dv
    | none => p v + K
  have p'some : ∀ v dv, D st v = some dv → p' v = dv := by
    intro v dv h; show (match D st v with | some dv => dv | none => p v + K) = dv; rw [h]
  have p'none : ∀ v, D st v = none → p' v = p v + K := by
    intro v h; show (match D st v with | some dv => dv | none => p v + K) = p v + K; rw [h]
  refine ⟨p', ?_⟩
  intro e he
  unfold erc
  by_cases hB : ∃ e0 ∈ w, e0.1 = e.1
  · -- an arc of the path or its reverse: reduced cost 0
    obtain ⟨e0, he0, hidx⟩ := hB
    obtain ⟨dv, du, h1, h2, h3⟩ := htight e0 he0
    rcases same_index hidx.symm with rfl | rfl
    · rw [p'some _ _ h1, p'some _ _ h2]; omega
    · rw [I.tail_rev, I.head_rev, I.ecost_rev, p'some _ _ h1, p'some _ _ h2]; omega
  · -- untouched arc: residual before the augmentation as well
    have hsame : fl (push x d w) e.1 = fl x e.1 :=
      push_other d w x e.1 (fun e0 he0 hc => hB ⟨e0, he0, hc⟩)
    have hex : I.IsRes x e := by
      refine ⟨he.1, ?_⟩
      have := he.2
      unfold resOf at this ⊢
      rw [hsame] at this; exact this
    have hb := hv e.1 he.1
    have htn : I.tail e < I.n := by unfold tail; split <;> omega
    have hhn : I.head e < I.n := by unfold head; split <;> omega
    have hrc := hp e hex
    unfold erc at hrc
    cases ht : D st (I.tail e) with
    | some dt =>
      obtain ⟨dh, h1, h2⟩ := hq e hex dt ht
      rw [p'some _ _ ht, p'some _ _ h1]; omega
    | none =>
      cases hh : D st (I.head e) with
      | none => rw [p'none _ ht, p'none _ hh]; omega
      | some dh =>
        rw [p'none _ ht, p'some _ _ hh]
        -- K ≥ |p tail| + |dh| + |cost|
        have k1 : |p (I.tail e)| ≤ lsum (List.range I.n) (fun v => |p v|) :=
          term_le_lsum (g := fun v => |p v|) (fun _ _ => abs_nonneg _) (List.mem_range.2 htn)
        have k2 : |dh| ≤ lsum (List.range I.n) (fun v => |(D st v).getD 0|) := by
          have := term_le_lsum (g := fun v => |(D st v).getD 0|) (fun _ _ => abs_nonneg _) (List.mem_range.2 hhn)
          simpa [hh] using this
        have k3 : |(I.arc e.1).cost| ≤ lsum (List.range I.m) (fun i => |(I.arc i).cost|) :=
          term_le_lsum (g := fun i => |(I.arc i).cost|) (fun _ _ => abs_nonneg _) (List.mem_range.2 he.1)
        have a1 := neg_abs_le (p (I.tail e))
        have a2 := le_abs_self dh
        have a3 : - |(I.arc e.1).cost| ≤ I.ecost e := by
          unfold ecost; split
          · exact neg_abs_le _
          · have := le_abs_self (I.arc e.1).cost; omega
        show 0 ≤ I.ecost e + (p (I.tail e) + K) - dh
        have hK : K = lsum (List.range I.n) (fun v => |p v|) +
          lsum (List.range I.n) (fun v => |(D st v).getD 0|) + lsum (List.range I.m) (fun i => |(I.arc i).cost|) := rfl
        omega

/-! ### Part G: the search never ends without an answer -/

def sLab (s : Nat) (v : Nat) : Option Int := if v = s then some 0 else none

theorem init_D {s : Nat} (hs : s < I.n) (v : Nat) : D (I.initBF s) v = sLab s v := by
  unfold D initBF sLab
  simp only
  rw [getD_set_opt]
  by_cases c : v = s
  · simp [c, hs]
  · have : ¬ (v = s ∧ s < (List.replicate I.n (none : Option Int)).length) := fun h => c h.1
    rw [if_neg this, if_neg c]
    by_cases hvn : v < I.n <;> simp [List.getD, hvn]

theorem init_sound (x : List Int) {s : Nat} (hs : s < I.n) : I.Sound x (sLab s) (I.initBF s) := by
  intro v hvn d hd
  rw [I.init_D hs] at hd
  exact ⟨0, hvn, hd⟩

theorem init_dom (x : List Int) {s : Nat} (hs : s < I.n) : I.Dom x (sLab s) 0 (I.initBF s) := by
  intro v c hw
  exact ⟨c, by rw [I.init_D hs]; exact hw.2, Int.le_refl _⟩

theorem foldl_min_pos (g : Nat × Bool → Int) : ∀ (l : List (Nat × Bool)) (a : Int), 0 < a → (∀ e ∈ l, 0 < g e) →
    0 < l.foldl (fun acc e => min acc (g e)) a
  | [], a, ha, _ => ha
  | e0 :: r, a, ha, h => by
    simp only [List.foldl_cons]
    apply foldl_min_pos g r
    · have := h e0 (by simp)
      exact lt_min ha this
    · exact fun e he => h e (List.mem_cons_of_mem _ he)

theorem loop_answers (hv : I.Valid) {s t : Nat} (hs : s < I.n) (ht : t < I.n) {demand : Int} :
    ∀ (fuel : Nat) (x : List Int) (total : Int) (k c : Nat), I.LInv s t x total → (∃ p, I.Pot x p) →
      total ≤ demand → (demand - total).toNat < fuel →
      (I.sspLoop s t demand fuel x total k c).status ≠ .negcycle
  | 0, _, _, _, _, _, _, _, hf => by omega
  | fuel + 1, x, total, k, c, hL, ⟨p, hp⟩, hle, hf => by
    unfold sspLoop
    by_cases hlt : total < demand
    · rw [if_pos hlt]
      simp only
      have hwf : I.WF x s (I.rounds x (I.n - 1) (I.initBF s)) := I.wf_rounds _ (I.wf_init x hs)
      have hpi : I.PInv x (I.rounds x (I.n - 1) (I.initBF s)) := I.pinv_rounds hv hp _ (I.pinv_init x s)
      have hso : I.Sound x (sLab s) (I.rounds x (I.n - 1) (I.initBF s)) := I.sound_rounds _ (I.init_sound x hs)
      have hdo := I.rounds_dom hv x (sLab s) (I.n - 1) (I.initBF s) 0 (by simp [initBF]) (I.init_dom x hs)
      have hq : I.Quiet x (I.rounds x (I.n - 1) (I.initBF s)) := I.quiet_of_dom hv (I.nc_of_pot hp) (by omega) hso hdo
      cases hd : (I.rounds x (I.n - 1) (I.initBF s)).dist.getD t none with
      | none => simp
      | some dt =>
        simp only
        obtain ⟨path, hw⟩ := I.walk_isSome hv hpi ht
        rw [hw]
        simp only
        generalize hst : I.rounds x (I.n - 1) (I.initBF s) = st at hwf hpi hq hd hw
        have hpar : ∀ v e, st.par.getD v none = some e → I.head e = v := fun v e he => (hpi.tight v e he).2.1
        obtain ⟨root, hpc, hroot⟩ := I.walk_spec st.par t hpar (I.n + 1) t [] path rfl hw
        have hroot0 : st.par.getD root none = none := hroot
        have hmem := I.pchain_mem st.par path root t hpc
        have harc : ∀ e ∈ path, I.IsRes x e ∧ I.tail e < I.n ∧ Fin st (I.tail e) := by
          intro e he
          have h1 := hmem e he
          have hvn : I.head e < I.n := by
            by_contra hge
            have : st.par.getD (I.head e) none = none := by
              simp [List.getD, List.getElem?_eq_none (by rw [hwf.plen]; omega : st.par.length ≤ I.head e)]
            rw [this] at h1; cases h1
          obtain ⟨a1, _, a3, a4, _⟩ := hwf.parOK _ hvn e h1
          exact ⟨a1, a3, a4⟩
        have hrs : root = s := by
          have hfin : root < I.n ∧ Fin st root := by
            cases path with
            | nil =>
              have : root = t := hpc
              rw [this]
              exact ⟨ht, by unfold Fin; rw [hd]; rfl⟩
            | cons e r =>
              have := harc e (by simp)
              rw [← hpc.1]
              exact ⟨this.2.1, this.2.2⟩
          rcases hwf.fin root hfin.1 hfin.2 with h | h
          · exact h
          · rw [hroot0] at h; cases h
        subst hrs
        generalize hdd : path.foldl (fun acc e => min acc (I.resOf x e)) (demand - total) = d
        have hdpos : 0 < d := by
          rw [← hdd]
          exact foldl_min_pos (I.resOf x) path _ (by omega) (fun e he => (harc e he).1.2)
        rw [if_neg (by omega)]
        have hmin := foldl_min_le (I.resOf x) path (demand - total)
        rw [hdd] at hmin
        obtain ⟨o1, o2, o3⟩ := I.push_spec (by omega : 0 ≤ d) path x root t hL.len hL.bnd (I.pchain_link _ _ _ _ hpc)
          (I.pchain_nodup st.par t path root 0 hpc hroot)
          (fun e he => ⟨(harc e he).1.1, hmin.2 e he⟩)
        apply loop_answers hv hs ht fuel
        · refine ⟨o1, o2, fun v hvn => ?_⟩
          rw [o3 v, hL.bal v hvn]
          by_cases c1 : v = root <;> by_cases c2 : v = t <;> (simp [c1, c2]; try omega)
        · -- the arcs of the path are tight: potentials survive
          apply I.pot_push hv hp hq d
          intro e0 he0
          obtain ⟨r1, r2, dv, du, t1, t2, t3⟩ := hpi.tight _ e0 (hmem e0 he0)
          obtain ⟨dv', q1, q2⟩ := hq e0 r1 du t2
          have : dv' = dv := by rw [t1] at q1; cases q1; rfl
          subst this
          exact ⟨dv', du, t1, t2, by omega⟩
        · have := hmin.1; omega
        · have := hmin.1; omega
    · rw [if_neg hlt]
      obtain ⟨q, hq⟩ := I.potentials_isSome hv hp
      rw [hq]
      simp

/-- the zero flow has the potentials of the input network -/
theorem pot_zero {p : Nat → Int} (h : ∀ i < I.m, 0 < (I.arc i).cap → 0 ≤ I.rc p i) :
    I.Pot (List.replicate I.m 0) p := by
  have hz : ∀ j, fl (List.replicate I.m 0) j = 0 := by
    intro j
    unfold fl
    simp only [List.getD, List.getElem?_replicate]
    split <;> rfl
  intro e he
  obtain ⟨i, fwd⟩ := e
  cases fwd
  · have := he.2
    simp [resOf, hz] at this
  · have hpos : 0 < (I.arc i).cap := by
      have := he.2
      simpa [resOf, hz] using this
    have := h i he.1 hpos
    simpa [erc, ecost, tail, head, rc] using this

/-- **core of `ssp_certifies`**: with feasible potentials for the input (no negative-cost cycle) the search
always ends with an answer -/
theorem ssp_answers (hv : I.Valid) (hcap : ∀ i < I.m, 0 ≤ (I.arc i).cap) {s t : Nat} (hs : s < I.n) (ht : t < I.n)
    {demand : Int} (hd : 0 ≤ demand) {p : Nat → Int} (hp : ∀ i < I.m, 0 < (I.arc i).cap → 0 ≤ I.rc p i) :
    (I.ssp s t demand).status ≠ .negcycle :=
  I.loop_answers hv hs ht _ _ 0 0 0 (I.linv_zero hcap s t) ⟨p, I.pot_zero hp⟩ hd (by
    have : (demand - 0).toNat = demand.toNat := by simp
    omega)

/-! ### Part H: no negative cycle ⇒ feasible potentials exist (the converged zero-initialised labels) -/

theorem pot_of_nc (hv : I.Valid) {x : List Int} (hnc : I.NC x) : ∃ p, I.Pot x p := by
  have hl : I.zeroInit.dist.length = I.n := by simp [zeroInit]
  have hs0 : I.Sound x I.zeroLab I.zeroInit := by
    intro v hvn d hd
    refine ⟨0, hvn, ?_⟩
    have : D I.zeroInit v = some 0 := by simp [D, zeroInit, List.getD, hvn]
    rw [this] at hd
    simp [zeroLab, hvn]
    cases hd; rfl
  have hd0 : I.Dom x I.zeroLab 0 I.zeroInit := by
    intro v c hw
    have h1 : v < I.n := hw.1
    have h2 : I.zeroLab v = some c := hw.2
    simp only [zeroLab, h1, if_true, Option.some.injEq] at h2
    exact ⟨0, by simp [D, zeroInit, List.getD, h1], by omega⟩
  have hs := I.sound_rounds (x := x) I.n hs0
  have hd := I.rounds_dom hv x I.zeroLab I.n _ 0 hl hd0
  have hq := I.quiet_of_dom hv hnc (j := 0 + I.n) (by omega) hs hd
  have hall : I.AllSome (I.rounds x I.n I.zeroInit) := by
    apply I.rounds_inv I.AllSome x (fun st h => h)
    · intro st hs'
      exact I.sweep_inv I.AllSome x st hs' (fun st' u v i h' _ _ _ _ du _ => I.allSome_relaxed h' _ _ _)
        (fun st' u v i h' _ _ _ _ du _ => I.allSome_relaxed h' _ _ _)
    · refine ⟨by simp [zeroInit], fun v hv' => ?_⟩
      simp [zeroInit, List.getD, hv']
  generalize I.rounds x I.n I.zeroInit = st at hq hall
  refine ⟨fun v => (D st v).getD 0, ?_⟩
  intro e he
  have hb := hv e.1 he.1
  have ht : I.tail e < I.n := by unfold tail; split <;> omega
  have hsome := hall.2 _ ht
  cases hdt : D st (I.tail e) with
  | none =>
    have : (st.dist.getD (I.tail e) none) = none := hdt
    rw [this] at hsome; cases hsome
  | some dt =>
    obtain ⟨dh, h1, h2⟩ := hq e he dt hdt
    unfold erc
    simp only [hdt, h1, Option.getD_some]
    omega

/-- the reduced-cost form of the potentials of the zero flow -/
theorem pot_zero_rc {p : Nat → Int} (h : I.Pot (List.replicate I.m 0) p) :
    ∀ i < I.m, 0 < (I.arc i).cap → 0 ≤ I.rc p i := by
  intro i hi hc
  have hz : fl (List.replicate I.m 0) i = 0 := by
    unfold fl
    simp only [List.getD, List.getElem?_replicate]
    split <;> rfl
  have := h (i, true) ⟨hi, by simp [resOf, hz, hc]⟩
  simpa [erc, ecost, tail, head, rc] using this

end Inst
end Solvor.Flow
