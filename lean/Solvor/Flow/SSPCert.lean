import Solvor.Flow.SSPLemmas
import Solvor.Flow.EKLemmas
import Solvor.Flow.AssignLemmas
/-!
Flow.SSP: the successive-shortest-paths model certifies its answers (core of `ssp_certifies_partial`):
whenever the search ends with `feasible` the verified checker accepts flow + potentials, whenever it
ends with `infeasible` the checker accepts the set of reached nodes as an infeasibility cut.
-/
namespace Solvor.Flow

theorem getD_set_opt {α : Type} (l : List (Option α)) (v w : Nat) (a : Option α) :
    (l.set v a).getD w none = if w = v ∧ v < l.length then a else l.getD w none := by
  simp only [List.getD, List.getElem?_set]
  by_cases h : v = w
  · subst h
    by_cases hl : v < l.length
    · simp [hl]
    · simp [hl]
  · have : ¬ (w = v ∧ v < l.length) := fun hh => h hh.1.symm
    simp [h, this]

theorem getD_set_int (l : List Int) (v w : Nat) (a : Int) :
    (l.set v a).getD w 0 = if w = v ∧ v < l.length then a else l.getD w 0 := by
  simp only [List.getD, List.getElem?_set]
  by_cases h : v = w
  · subst h
    by_cases hl : v < l.length
    · simp [hl]
    · simp [hl]
  · have : ¬ (w = v ∧ v < l.length) := fun hh => h hh.1.symm
    simp [h, this]

namespace Inst
variable (I : Inst)

/-! ### a relaxation either changes nothing or raises the `updated` flag -/

theorem tryRelax_cases (st : BF) (u v : Nat) (c : Int) (tag : Nat × Bool) :
    (tryRelax st u v c tag = st ∧
      ∀ du, st.dist.getD u none = some du → improves (st.dist.getD v none) (du + c) = false) ∨
    (∃ du, st.dist.getD u none = some du ∧ improves (st.dist.getD v none) (du + c) = true ∧
      tryRelax st u v c tag = ⟨st.dist.set v (some (du + c)), st.par.set v (some tag), true⟩) := by
  unfold tryRelax
  cases h : st.dist.getD u none with
  | none => left; exact ⟨rfl, fun du hd => by cases hd⟩
  | some du =>
    simp only
    cases hb : improves (st.dist.getD v none) (du + c)
    · left
      refine ⟨by simp, fun du' hd => ?_⟩
      cases hd; exact hb
    · right
      exact ⟨du, rfl, hb, by simp⟩

theorem tryRelax_upd (st : BF) (u v : Nat) (c : Int) (tag : Nat × Bool) (h : st.upd = true) :
    (tryRelax st u v c tag).upd = true := by
  rcases tryRelax_cases st u v c tag with ⟨e, _⟩ | ⟨du, _, _, e⟩ <;> rw [e]
  exact h

/-- the two residual arcs arc `i` can contribute between `u` and `v` -/
def fwdCond (x : List Int) (u v i : Nat) : Prop := (I.arc i).src = u ∧ (I.arc i).tgt = v ∧ fl x i < (I.arc i).cap
def bwdCond (x : List Int) (u v i : Nat) : Prop := (I.arc i).tgt = u ∧ (I.arc i).src = v ∧ 0 < fl x i

instance (x : List Int) (u v i : Nat) : Decidable (I.fwdCond x u v i) := by unfold fwdCond; infer_instance
instance (x : List Int) (u v i : Nat) : Decidable (I.bwdCond x u v i) := by unfold bwdCond; infer_instance

theorem relaxArc_eq (x : List Int) (u v : Nat) (st : BF) (i : Nat) :
    I.relaxArc x u v st i =
      (let st1 := if I.fwdCond x u v i then tryRelax st u v (I.arc i).cost (i, true) else st
       if I.bwdCond x u v i then tryRelax st1 u v (- (I.arc i).cost) (i, false) else st1) := rfl

theorem relaxArc_upd (x : List Int) (u v : Nat) (st : BF) (i : Nat) (h : st.upd = true) :
    (I.relaxArc x u v st i).upd = true := by
  rw [relaxArc_eq]
  simp only
  have h1 : (if I.fwdCond x u v i then tryRelax st u v (I.arc i).cost (i, true) else st).upd = true := by
    split
    · exact tryRelax_upd _ _ _ _ _ h
    · exact h
  split
  · exact tryRelax_upd _ _ _ _ _ h1
  · exact h1

/-- if the flag is still down after a relaxation then nothing changed and no residual arc of the
triple could improve its head -/
theorem relaxArc_quiet (x : List Int) (u v : Nat) (st : BF) (i : Nat)
    (h : (I.relaxArc x u v st i).upd = false) :
    I.relaxArc x u v st i = st ∧
    (I.fwdCond x u v i → ∀ du, st.dist.getD u none = some du →
      improves (st.dist.getD v none) (du + (I.arc i).cost) = false) ∧
    (I.bwdCond x u v i → ∀ du, st.dist.getD u none = some du →
      improves (st.dist.getD v none) (du - (I.arc i).cost) = false) := by
  rw [relaxArc_eq] at h ⊢
  simp only at h ⊢
  -- first relaxation
  have key1 : (if I.fwdCond x u v i then tryRelax st u v (I.arc i).cost (i, true) else st) = st ∧
      (I.fwdCond x u v i → ∀ du, st.dist.getD u none = some du →
        improves (st.dist.getD v none) (du + (I.arc i).cost) = false) := by
    by_cases hf : I.fwdCond x u v i
    · rw [if_pos hf] at h ⊢
      rcases tryRelax_cases st u v (I.arc i).cost (i, true) with ⟨e, q⟩ | ⟨du, _, _, e⟩
      · exact ⟨e, fun _ => q⟩
      · exfalso
        have hu : (tryRelax st u v (I.arc i).cost (i, true)).upd = true := by rw [e]
        by_cases hb : I.bwdCond x u v i
        · rw [if_pos hb, tryRelax_upd _ u v (- (I.arc i).cost) (i, false) hu] at h; cases h
        · rw [if_neg hb, hu] at h; cases h
    · rw [if_neg hf]; exact ⟨rfl, fun hh => absurd hh hf⟩
  rw [key1.1] at h ⊢
  by_cases hb : I.bwdCond x u v i
  · rw [if_pos hb] at h ⊢
    rcases tryRelax_cases st u v (- (I.arc i).cost) (i, false) with ⟨e, q⟩ | ⟨du, _, _, e⟩
    · refine ⟨e, key1.2, fun _ du hd => ?_⟩
      have := q du hd
      rw [Int.sub_eq_add_neg]; exact this
    · rw [e] at h; cases h
  · rw [if_neg hb]
    exact ⟨rfl, key1.2, fun hh => absurd hh hb⟩

/-! ### the iteration space and generic invariants -/

theorem mem_triples {u v i : Nat} : (u, v, i) ∈ I.triples ↔ u < I.n ∧ v < I.n ∧ i < I.m := by
  unfold triples
  simp only [List.mem_flatMap, List.mem_map, List.mem_range, Prod.mk.injEq]
  constructor
  · rintro ⟨a, ha, b, hb, c, hc, h1, h2, h3⟩
    subst h1; subst h2; subst h3
    exact ⟨ha, hb, hc⟩
  · rintro ⟨h1, h2, h3⟩
    exact ⟨u, h1, v, h2, i, h3, rfl, rfl, rfl⟩

/-- the state a successful relaxation produces -/
def relaxed (st : BF) (v : Nat) (y : Int) (tag : Nat × Bool) : BF :=
  ⟨st.dist.set v (some y), st.par.set v (some tag), true⟩

theorem relaxArc_inv (P : BF → Prop) (x : List Int) (u v : Nat) (st : BF) (i : Nat) (hP : P st)
    (hf : ∀ st', P st' → I.fwdCond x u v i → ∀ du, st'.dist.getD u none = some du →
      P (relaxed st' v (du + (I.arc i).cost) (i, true)))
    (hb : ∀ st', P st' → I.bwdCond x u v i → ∀ du, st'.dist.getD u none = some du →
      P (relaxed st' v (du + - (I.arc i).cost) (i, false))) :
    P (I.relaxArc x u v st i) := by
  rw [relaxArc_eq]
  simp only
  have h1 : P (if I.fwdCond x u v i then tryRelax st u v (I.arc i).cost (i, true) else st) := by
    by_cases c : I.fwdCond x u v i
    · rw [if_pos c]
      rcases tryRelax_cases st u v (I.arc i).cost (i, true) with ⟨e, _⟩ | ⟨du, hd, _, e⟩
      · rw [e]; exact hP
      · rw [e]; exact hf st hP c du hd
    · rw [if_neg c]; exact hP
  by_cases c : I.bwdCond x u v i
  · rw [if_pos c]
    rcases tryRelax_cases _ u v (- (I.arc i).cost) (i, false) with ⟨e, _⟩ | ⟨du, hd, _, e⟩
    · rw [e]; exact h1
    · rw [e]; exact hb _ h1 c du hd
  · rw [if_neg c]; exact h1

theorem foldl_inv {α : Type} (P : BF → Prop) (step : BF → α → BF) (l : List α) (st : BF) (hP : P st)
    (hs : ∀ st', P st' → ∀ t ∈ l, P (step st' t)) : P (l.foldl step st) := by
  induction l generalizing st with
  | nil => exact hP
  | cons t l ih =>
    simp only [List.foldl_cons]
    exact ih _ (hs st hP t (by simp)) (fun st' h' t' ht' => hs st' h' t' (List.mem_cons_of_mem _ ht'))

/-- an invariant of every successful relaxation (with `u, v < n`, `i < m` and the matching residual
arc condition) is an invariant of a sweep -/
theorem sweep_inv (P : BF → Prop) (x : List Int) (st : BF) (hP : P st)
    (hf : ∀ st' u v i, P st' → u < I.n → v < I.n → i < I.m → I.fwdCond x u v i →
      ∀ du, st'.dist.getD u none = some du → P (relaxed st' v (du + (I.arc i).cost) (i, true)))
    (hb : ∀ st' u v i, P st' → u < I.n → v < I.n → i < I.m → I.bwdCond x u v i →
      ∀ du, st'.dist.getD u none = some du → P (relaxed st' v (du + - (I.arc i).cost) (i, false))) :
    P (I.sweep x st) := by
  unfold sweep
  apply foldl_inv P _ _ _ hP
  intro st' h' t ht
  obtain ⟨u, v, i⟩ := t
  obtain ⟨h1, h2, h3⟩ := (I.mem_triples).1 ht
  exact I.relaxArc_inv P x u v st' i h' (fun s hs c du hd => hf s u v i hs h1 h2 h3 c du hd)
    (fun s hs c du hd => hb s u v i hs h1 h2 h3 c du hd)

theorem rounds_inv (P : BF → Prop) (x : List Int) (hr : ∀ st, P st → P { st with upd := false })
    (hs : ∀ st, P st → P (I.sweep x st)) : ∀ (k : Nat) (st : BF), P st → P (I.rounds x k st)
  | 0, st, h => h
  | k + 1, st, h => by
    unfold rounds
    simp only
    split
    · exact rounds_inv P x hr hs k _ (hs _ (hr _ h))
    · exact hs _ (hr _ h)

/-! ### a quiet sweep changes nothing -/

theorem foldl_quiet (x : List Int) (l : List (Nat × Nat × Nat)) (st : BF)
    (h : (l.foldl (fun st t => I.relaxArc x t.1 t.2.1 st t.2.2) st).upd = false) :
    l.foldl (fun st t => I.relaxArc x t.1 t.2.1 st t.2.2) st = st ∧
    ∀ t ∈ l, (I.relaxArc x t.1 t.2.1 st t.2.2).upd = false := by
  induction l generalizing st with
  | nil => exact ⟨rfl, fun _ h => by cases h⟩
  | cons t l ih =>
    simp only [List.foldl_cons] at h ⊢
    obtain ⟨e, q⟩ := ih _ h
    have hu : (I.relaxArc x t.1 t.2.1 st t.2.2).upd = false := by rw [← e]; exact h
    have hst := (I.relaxArc_quiet x _ _ st _ hu).1
    rw [e, hst]
    refine ⟨rfl, fun t' ht' => ?_⟩
    rcases List.mem_cons.1 ht' with rfl | h'
    · exact hu
    · have := q t' h'
      rw [hst] at this; exact this

theorem sweep_quiet (x : List Int) (st : BF) (h : (I.sweep x st).upd = false) :
    I.sweep x st = st ∧ ∀ u < I.n, ∀ v < I.n, ∀ i < I.m,
      (I.fwdCond x u v i → ∀ du, st.dist.getD u none = some du →
        improves (st.dist.getD v none) (du + (I.arc i).cost) = false) ∧
      (I.bwdCond x u v i → ∀ du, st.dist.getD u none = some du →
        improves (st.dist.getD v none) (du - (I.arc i).cost) = false) := by
  unfold sweep at h ⊢
  obtain ⟨e, q⟩ := I.foldl_quiet x _ st h
  refine ⟨e, fun u hu v hv i hi => ?_⟩
  have := q (u, v, i) ((I.mem_triples).2 ⟨hu, hv, hi⟩)
  exact (I.relaxArc_quiet x u v st i this).2

/-! ### the potentials of the feasible branch are always accepted -/

/-- all `n` distances are finite -/
def AllSome (st : BF) : Prop := st.dist.length = I.n ∧ ∀ v < I.n, (st.dist.getD v none).isSome = true

theorem allSome_relaxed {st : BF} (h : I.AllSome st) (v : Nat) (y : Int) (tag : Nat × Bool) :
    I.AllSome (relaxed st v y tag) := by
  refine ⟨by simp [relaxed, h.1], fun w hw => ?_⟩
  simp only [relaxed, getD_set_opt]
  split
  · rfl
  · exact h.2 w hw

theorem potentials_slack (hv : I.Valid) (x : List Int) {p : List Int} (h : I.potentials x = some p) :
    I.Slack (fl x) (fl p) := by
  unfold potentials at h
  simp only at h
  split at h
  · cases h
  · rename_i hq
    have hq' : (I.sweep x { I.rounds x I.n ⟨List.replicate I.n (some 0), List.replicate I.n none, false⟩ with upd := false }).upd = false := by
      simpa using hq
    simp only [Option.some.injEq] at h
    -- all distances are finite
    have hall : I.AllSome (I.rounds x I.n ⟨List.replicate I.n (some 0), List.replicate I.n none, false⟩) := by
      apply I.rounds_inv I.AllSome x (fun st h => h)
      · intro st hs
        exact I.sweep_inv I.AllSome x st hs (fun st' u v i h' _ _ _ _ du _ => I.allSome_relaxed h' _ _ _)
          (fun st' u v i h' _ _ _ _ du _ => I.allSome_relaxed h' _ _ _)
      · refine ⟨by simp, fun v hv' => ?_⟩
        simp [List.getD, hv']
    generalize I.rounds x I.n ⟨List.replicate I.n (some 0), List.replicate I.n none, false⟩ = st at hq' hall h
    obtain ⟨_, q⟩ := I.sweep_quiet x _ hq'
    -- p reads the distances
    have hp : ∀ v < I.n, st.dist.getD v none = some (fl p v) := by
      intro v hv'
      have hs := hall.2 v hv'
      rw [← h]
      unfold fl
      have hl : v < st.dist.length := by rw [hall.1]; exact hv'
      simp only [List.getD, List.getElem?_map, List.getElem?_eq_getElem hl, Option.map_some, Option.getD_some] at hs ⊢
      cases hd : st.dist[v] with
      | none => rw [hd] at hs; cases hs
      | some d => simp
    intro i hi
    obtain ⟨hsrc, htgt⟩ := hv i hi
    refine ⟨fun hc => ?_, fun hc => ?_⟩
    · have := (q _ hsrc _ htgt i hi).1 ⟨rfl, rfl, hc⟩ _ (hp _ hsrc)
      rw [hp _ htgt] at this
      simp only [improves, decide_eq_false_iff_not] at this
      unfold rc; omega
    · have := (q _ htgt _ hsrc i hi).2 ⟨rfl, rfl, hc⟩ _ (hp _ htgt)
      rw [hp _ hsrc] at this
      simp only [improves, decide_eq_false_iff_not] at this
      unfold rc; omega

/-! ### well-formed Bellman-Ford states and the path walk -/

def tail (e : Nat × Bool) : Nat := if e.2 then (I.arc e.1).src else (I.arc e.1).tgt
def head (e : Nat × Bool) : Nat := if e.2 then (I.arc e.1).tgt else (I.arc e.1).src

/-- `e` is an arc of the residual network of `x` -/
def IsRes (x : List Int) (e : Nat × Bool) : Prop := e.1 < I.m ∧ 0 < I.resOf x e

structure WF (x : List Int) (s : Nat) (st : BF) : Prop where
  dlen  : st.dist.length = I.n
  plen  : st.par.length = I.n
  src   : (st.dist.getD s none).isSome = true
  parOK : ∀ v < I.n, ∀ e, st.par.getD v none = some e →
    I.IsRes x e ∧ I.head e = v ∧ I.tail e < I.n ∧ (st.dist.getD (I.tail e) none).isSome = true ∧
      (st.dist.getD v none).isSome = true
  fin   : ∀ v < I.n, (st.dist.getD v none).isSome = true → v = s ∨ (st.par.getD v none).isSome = true

theorem isSome_set {l : List (Option Int)} {v w : Nat} {y : Int}
    (h : (l.getD w none).isSome = true) : ((l.set v (some y)).getD w none).isSome = true := by
  rw [getD_set_opt]; split
  · rfl
  · exact h

theorem wf_relaxed {x : List Int} {s : Nat} {st : BF} (h : I.WF x s st) {u v : Nat} (hu : u < I.n)
    (hv : v < I.n) {du : Int} (hd : st.dist.getD u none = some du) (y : Int) {e : Nat × Bool}
    (he : I.IsRes x e) (hh : I.head e = v) (ht : I.tail e = u) : I.WF x s (relaxed st v y e) := by
  have hvl : v < st.dist.length := by rw [h.dlen]; exact hv
  have hvp : v < st.par.length := by rw [h.plen]; exact hv
  refine ⟨by simp [relaxed, h.dlen], by simp [relaxed, h.plen], isSome_set h.src, ?_, ?_⟩
  · intro w hw e' he'
    simp only [relaxed, getD_set_opt] at he' ⊢
    by_cases c : w = v ∧ v < st.par.length
    · rw [if_pos c] at he'
      cases he'
      have c' : w = v ∧ v < st.dist.length := ⟨c.1, hvl⟩
      refine ⟨he, by rw [hh, c.1], by rw [ht]; exact hu, ?_, by rw [if_pos c']; rfl⟩
      rw [ht]
      split
      · rfl
      · rw [hd]; rfl
    · rw [if_neg c] at he'
      obtain ⟨a1, a2, a3, a4, a5⟩ := h.parOK w hw e' he'
      refine ⟨a1, a2, a3, ?_, ?_⟩
      · split
        · rfl
        · exact a4
      · split
        · rfl
        · exact a5
  · intro w hw hs
    simp only [relaxed, getD_set_opt] at hs ⊢
    by_cases c : w = v
    · right
      have c' : w = v ∧ v < st.par.length := ⟨c, hvp⟩
      rw [if_pos c']; rfl
    · have c1 : ¬ (w = v ∧ v < st.dist.length) := fun hh => c hh.1
      have c2 : ¬ (w = v ∧ v < st.par.length) := fun hh => c hh.1
      rw [if_neg c1] at hs
      rw [if_neg c2]
      exact h.fin w hw hs

theorem resOf_fwd {x : List Int} {i : Nat} (hi : i < I.m) (hc : fl x i < (I.arc i).cap) : I.IsRes x (i, true) := by
  refine ⟨hi, ?_⟩
  simp [resOf]; omega

theorem resOf_bwd {x : List Int} {i : Nat} (hi : i < I.m) (hc : 0 < fl x i) : I.IsRes x (i, false) :=
  ⟨hi, by simpa [resOf] using hc⟩

theorem wf_sweep {x : List Int} {s : Nat} {st : BF} (h : I.WF x s st) : I.WF x s (I.sweep x st) := by
  apply I.sweep_inv (I.WF x s) x st h
  · intro st' u v i h' hu hv hi hc du hd
    exact I.wf_relaxed h' hu hv hd _ (I.resOf_fwd hi hc.2.2) (by simp [head, hc.2.1]) (by simp [tail, hc.1])
  · intro st' u v i h' hu hv hi hc du hd
    exact I.wf_relaxed h' hu hv hd _ (I.resOf_bwd hi hc.2.2) (by simp [head, hc.2.1]) (by simp [tail, hc.1])

theorem wf_rounds {x : List Int} {s : Nat} (k : Nat) {st : BF} (h : I.WF x s st) :
    I.WF x s (I.rounds x k st) :=
  I.rounds_inv (I.WF x s) x (fun _ hs => ⟨hs.dlen, hs.plen, hs.src, hs.parOK, hs.fin⟩)
    (fun _ hs => I.wf_sweep hs) k st h

theorem wf_init (x : List Int) {s : Nat} (hs : s < I.n) : I.WF x s (I.initBF s) := by
  unfold initBF
  refine ⟨by simp, by simp, ?_, ?_, ?_⟩
  · rw [getD_set_opt]; simp [hs]
  · intro v hv e he
    simp [List.getD, hv] at he
  · intro v hv h
    rw [getD_set_opt] at h
    by_cases c : v = s
    · exact Or.inl c
    · have : ¬ (v = s ∧ s < (List.replicate I.n (none : Option Int)).length) := fun hh => c hh.1
      rw [if_neg this] at h
      simp [List.getD, hv] at h

/-- `p` is a chain of parent arcs leading from `a` to `b` -/
def PChain (par : List (Option (Nat × Bool))) : Nat → List (Nat × Bool) → Nat → Prop
  | a, [], b => a = b
  | a, e :: r, b => I.tail e = a ∧ par.getD (I.head e) none = some e ∧ PChain par (I.head e) r b

/-- following the parents from `node` ends after exactly `k` steps -/
def Steps (par : List (Option (Nat × Bool))) : Nat → Nat → Prop
  | node, 0 => par.getD node none = none
  | node, k + 1 => ∃ e, par.getD node none = some e ∧ Steps par (I.tail e) k

theorem steps_unique (par : List (Option (Nat × Bool))) :
    ∀ (k k' node : Nat), I.Steps par node k → I.Steps par node k' → k = k'
  | 0, 0, _, _, _ => rfl
  | 0, k' + 1, _, h, ⟨e, he, _⟩ => by
    have h0 : par.getD _ none = none := h
    rw [h0] at he; cases he
  | k + 1, 0, _, ⟨e, he, _⟩, h => by
    have h0 : par.getD _ none = none := h
    rw [h0] at he; cases he
  | k + 1, k' + 1, _, ⟨e, he, hs⟩, ⟨e', he', hs'⟩ => by
    rw [he] at he'; cases he'
    rw [steps_unique par k k' _ hs hs']

theorem walk_spec (par : List (Option (Nat × Bool))) (t : Nat)
    (hpar : ∀ v e, par.getD v none = some e → I.head e = v) :
    ∀ (fuel node : Nat) (acc path : List (Nat × Bool)), I.PChain par node acc t →
      I.walk par fuel node acc = some path →
      ∃ root, I.PChain par root path t ∧ I.Steps par root 0
  | 0, _, _, _, _, h => by simp [walk] at h
  | fuel + 1, node, acc, path, hc, h => by
    unfold walk at h
    cases hp : par.getD node none with
    | none =>
      rw [hp] at h
      simp only [Option.some.injEq] at h
      subst h
      exact ⟨node, hc, hp⟩
    | some e =>
      obtain ⟨i, fwd⟩ := e
      rw [hp] at h
      simp only at h
      have hh := hpar node _ hp
      have hc' : I.PChain par (I.tail (i, fwd)) ((i, fwd) :: acc) t :=
        ⟨rfl, by rw [hh]; exact hp, by rw [hh]; exact hc⟩
      exact walk_spec par t hpar fuel _ _ path hc' h

/-- along a parent chain the number of steps to the root grows by one per arc -/
theorem pchain_steps (par : List (Option (Nat × Bool))) (t : Nat) :
    ∀ (p : List (Nat × Bool)) (a k : Nat), I.PChain par a p t → I.Steps par a k →
      ∀ w ∈ p.map I.head, ∃ j, 1 ≤ j ∧ I.Steps par w (k + j)
  | [], _, _, _, _ => fun _ h => by cases h
  | e :: r, a, k, hc, hs => by
    obtain ⟨h1, h2, h3⟩ := hc
    have hs' : I.Steps par (I.head e) (k + 1) := ⟨e, h2, by rw [h1]; exact hs⟩
    intro w hw
    simp only [List.map_cons, List.mem_cons] at hw
    rcases hw with rfl | hw
    · exact ⟨1, Nat.le_refl _, hs'⟩
    · obtain ⟨j, hj, hj'⟩ := pchain_steps par t r _ _ h3 hs' w hw
      exact ⟨1 + j, by omega, by rw [← Nat.add_assoc]; exact hj'⟩

/-- the nodes of a parent chain that starts at a root are pairwise different -/
theorem pchain_nodup (par : List (Option (Nat × Bool))) (t : Nat) :
    ∀ (p : List (Nat × Bool)) (a k : Nat), I.PChain par a p t → I.Steps par a k →
      (a :: p.map I.head).Nodup
  | [], _, _, _, _ => by simp
  | e :: r, a, k, hc, hs => by
    have hall := I.pchain_steps par t (e :: r) a k hc hs
    obtain ⟨h1, h2, h3⟩ := hc
    have hs' : I.Steps par (I.head e) (k + 1) := ⟨e, h2, by rw [h1]; exact hs⟩
    rw [List.nodup_cons]
    refine ⟨fun hmem => ?_, by simpa using pchain_nodup par t r _ _ h3 hs'⟩
    obtain ⟨j, hj, hj'⟩ := hall a hmem
    have := I.steps_unique par _ _ a hs hj'
    omega

/-! ### pushing flow along a simple chain of residual arcs -/

/-- net outflow of node `v` -/
def bal (x : List Int) (v : Nat) : Int := I.outF (fl x) v - I.inF (fl x) v

theorem fl_set (x : List Int) (i j : Nat) (y : Int) (hi : i < x.length) :
    fl (x.set i y) j = if j = i then y else fl x j := by
  unfold fl
  rw [getD_set_int]
  by_cases h : j = i
  · simp [h, hi]
  · simp [h]

theorem lsum_point_update {m i : Nat} (hi : i < m) (g g' : Nat → Int) (δ : Int)
    (h : ∀ j, g' j = g j + (if j = i then δ else 0)) :
    lsum (List.range m) g' = lsum (List.range m) g + δ := by
  rw [lsum_congr (fun j _ => h j), lsum_add, lsum_ite_eq List.nodup_range (List.mem_range.2 hi)]

theorem outF_set {x : List Int} {i : Nat} (hi : i < I.m) (hx : x.length = I.m) (y : Int) (v : Nat) :
    I.outF (fl (x.set i y)) v = I.outF (fl x) v + (if (I.arc i).src = v then y - fl x i else 0) := by
  unfold outF
  apply lsum_point_update hi
  intro j
  rw [fl_set x i j y (by rw [hx]; exact hi)]
  by_cases h : j = i
  · subst h
    by_cases c : (I.arc j).src = v <;> simp [c]
  · simp [h]

theorem inF_set {x : List Int} {i : Nat} (hi : i < I.m) (hx : x.length = I.m) (y : Int) (v : Nat) :
    I.inF (fl (x.set i y)) v = I.inF (fl x) v + (if (I.arc i).tgt = v then y - fl x i else 0) := by
  unfold inF
  apply lsum_point_update hi
  intro j
  rw [fl_set x i j y (by rw [hx]; exact hi)]
  by_cases h : j = i
  · subst h
    by_cases c : (I.arc j).tgt = v <;> simp [c]
  · simp [h]

/-- the value `push` writes for the residual arc `e` -/
def pushed (x : List Int) (d : Int) (e : Nat × Bool) : Int := if e.2 then fl x e.1 + d else fl x e.1 - d

theorem bal_step {x : List Int} {e : Nat × Bool} (hi : e.1 < I.m) (hx : x.length = I.m) (d : Int) (v : Nat) :
    I.bal (x.set e.1 (pushed x d e)) v =
      I.bal x v + (if I.tail e = v then d else 0) - (if I.head e = v then d else 0) := by
  unfold bal
  rw [I.outF_set hi hx, I.inF_set hi hx]
  obtain ⟨i, fwd⟩ := e
  cases fwd
  · simp only [pushed, tail, head, Bool.false_eq_true, if_false]
    by_cases c1 : (I.arc i).src = v <;> by_cases c2 : (I.arc i).tgt = v <;> simp [c1, c2] <;> omega
  · simp only [pushed, tail, head, if_true]
    by_cases c1 : (I.arc i).src = v <;> by_cases c2 : (I.arc i).tgt = v <;> simp [c1, c2] <;> omega

/-- `p` leads from `a` to `b` (tails and heads fit) -/
def Link : Nat → List (Nat × Bool) → Nat → Prop
  | a, [], b => a = b
  | a, e :: r, b => I.tail e = a ∧ Link (I.head e) r b

theorem pchain_link (par : List (Option (Nat × Bool))) :
    ∀ (p : List (Nat × Bool)) (a b : Nat), I.PChain par a p b → I.Link a p b
  | [], _, _, h => h
  | _ :: r, _, _, h => ⟨h.1, pchain_link par r _ _ h.2.2⟩

theorem link_nodes : ∀ (p : List (Nat × Bool)) (a b : Nat), I.Link a p b →
    ∀ e ∈ p, I.tail e ∈ a :: p.map I.head ∧ I.head e ∈ p.map I.head
  | [], _, _, _ => fun _ h => by cases h
  | e0 :: r, a, b, h => by
    intro e he
    rcases List.mem_cons.1 he with rfl | he
    · exact ⟨by rw [h.1]; simp, by simp⟩
    · obtain ⟨q1, q2⟩ := link_nodes r _ _ h.2 e he
      refine ⟨List.mem_cons_of_mem _ (by simpa using q1), by simp only [List.map_cons]; exact List.mem_cons_of_mem _ q2⟩

theorem same_arc_tail {e e' : Nat × Bool} (h : e.1 = e'.1) : I.tail e = I.tail e' ∨ I.tail e = I.head e' := by
  obtain ⟨i, f⟩ := e
  obtain ⟨i', f'⟩ := e'
  simp only at h; subst h
  cases f <;> cases f' <;> simp [tail, head]

theorem push_cons (x : List Int) (d : Int) (e : Nat × Bool) (r : List (Nat × Bool)) :
    push x d (e :: r) = push (x.set e.1 (pushed x d e)) d r := by
  obtain ⟨i, fwd⟩ := e
  rfl

/-- capacity bounds of a per-arc flow list -/
def Bounds (x : List Int) : Prop := ∀ j < I.m, 0 ≤ fl x j ∧ fl x j ≤ (I.arc j).cap

theorem push_spec {d : Int} (hd : 0 ≤ d) :
    ∀ (p : List (Nat × Bool)) (x : List Int) (a b : Nat), x.length = I.m → I.Bounds x → I.Link a p b →
      (a :: p.map I.head).Nodup → (∀ e ∈ p, e.1 < I.m ∧ d ≤ I.resOf x e) →
      (push x d p).length = I.m ∧ I.Bounds (push x d p) ∧
      ∀ v, I.bal (push x d p) v = I.bal x v + (if v = a then d else 0) - (if v = b then d else 0)
  | [], x, a, b, hx, hb, hl, _, _ => by
    have : a = b := hl
    subst this
    exact ⟨hx, hb, fun v => by simp [push]⟩
  | e :: r, x, a, b, hx, hb, hl, hnd, hres => by
    rw [push_cons]
    obtain ⟨he1, he2⟩ := hres e (by simp)
    have hx' : (x.set e.1 (pushed x d e)).length = I.m := by simp [hx]
    have hil : e.1 < x.length := by rw [hx]; exact he1
    -- later arcs use other arc indices
    have hdiff : ∀ e' ∈ r, e'.1 ≠ e.1 := by
      intro e' he' heq
      obtain ⟨q1, q2⟩ := I.link_nodes r _ _ hl.2 e' he'
      have hnd' := List.nodup_cons.1 hnd
      have ha : a ∉ (e :: r).map I.head := hnd'.1
      rw [← hl.1] at ha
      rcases I.same_arc_tail (e := e) (e' := e') heq.symm with h | h
      · rw [h] at ha
        exact ha (by simpa using q1)
      · rw [h] at ha
        exact ha (by simp only [List.map_cons]; exact List.mem_cons_of_mem _ q2)
    have hb' : I.Bounds (x.set e.1 (pushed x d e)) := by
      intro j hj
      rw [fl_set x e.1 j _ hil]
      by_cases c : j = e.1
      · rw [if_pos c]
        subst c
        obtain ⟨i, fwd⟩ := e
        have hbi : 0 ≤ fl x i ∧ fl x i ≤ (I.arc i).cap := hb i he1
        cases fwd <;> (simp [pushed, resOf] at he2 ⊢; omega)
      · rw [if_neg c]; exact hb j hj
    have hres' : ∀ e' ∈ r, e'.1 < I.m ∧ d ≤ I.resOf (x.set e.1 (pushed x d e)) e' := by
      intro e' he'
      obtain ⟨r1, r2⟩ := hres e' (List.mem_cons_of_mem _ he')
      refine ⟨r1, ?_⟩
      have : fl (x.set e.1 (pushed x d e)) e'.1 = fl x e'.1 := by
        rw [fl_set x e.1 e'.1 _ hil, if_neg (hdiff e' he')]
      unfold resOf at r2 ⊢
      rw [this]; exact r2
    have hnd' : (I.head e :: r.map I.head).Nodup := by
      have := (List.nodup_cons.1 hnd).2
      simpa using this
    obtain ⟨o1, o2, o3⟩ := push_spec hd r _ _ b hx' hb' hl.2 hnd' hres'
    refine ⟨o1, o2, fun v => ?_⟩
    rw [o3 v, I.bal_step he1 hx d v, hl.1]
    by_cases c1 : v = a <;> by_cases c2 : v = I.head e <;> by_cases c3 : v = b <;>
      (simp [c1, c2, c3, eq_comm]; try omega)

/-! ### the nodes reached by the search are closed under residual arcs -/

def Fin (st : BF) (v : Nat) : Prop := (st.dist.getD v none).isSome = true

def Closed (x : List Int) (st : BF) : Prop := ∀ e, I.IsRes x e → Fin st (I.tail e) → Fin st (I.head e)

theorem tryRelax_mono (st : BF) (u v : Nat) (c : Int) (tag : Nat × Bool) {w : Nat} (h : Fin st w) :
    Fin (tryRelax st u v c tag) w := by
  rcases tryRelax_cases st u v c tag with ⟨e, _⟩ | ⟨du, _, _, e⟩ <;> rw [e]
  · exact h
  · exact isSome_set h

theorem tryRelax_head (st : BF) (u v : Nat) (c : Int) (tag : Nat × Bool) (hv : v < st.dist.length)
    (h : Fin st u) : Fin (tryRelax st u v c tag) v := by
  unfold Fin at h ⊢
  rcases tryRelax_cases st u v c tag with ⟨e, q⟩ | ⟨du, _, _, e⟩ <;> rw [e]
  · cases hd : st.dist.getD u none with
    | none => rw [hd] at h; cases h
    | some du =>
      have := q du hd
      cases hv' : st.dist.getD v none with
      | none => rw [hv'] at this; simp [improves] at this
      | some _ => rfl
  · simp only [getD_set_opt]
    simp [hv]

theorem relaxArc_mono (x : List Int) (u v : Nat) (st : BF) (i : Nat) {w : Nat} (h : Fin st w) :
    Fin (I.relaxArc x u v st i) w := by
  rw [relaxArc_eq]
  simp only
  have h1 : Fin (if I.fwdCond x u v i then tryRelax st u v (I.arc i).cost (i, true) else st) w := by
    split
    · exact tryRelax_mono _ _ _ _ _ h
    · exact h
  split
  · exact tryRelax_mono _ _ _ _ _ h1
  · exact h1

theorem relaxArc_len (x : List Int) (u v : Nat) (st : BF) (i : Nat) :
    (I.relaxArc x u v st i).dist.length = st.dist.length := by
  apply I.relaxArc_inv (fun s => s.dist.length = st.dist.length) x u v st i rfl
  · intro st' h' _ _ _; simp [relaxed, h']
  · intro st' h' _ _ _; simp [relaxed, h']

theorem foldl_mono (x : List Int) (l : List (Nat × Nat × Nat)) (st : BF) {w : Nat} (h : Fin st w) :
    Fin (l.foldl (fun st t => I.relaxArc x t.1 t.2.1 st t.2.2) st) w :=
  foldl_inv (fun s => Fin s w) _ l st h (fun _ h' _ _ => I.relaxArc_mono x _ _ _ _ h')

theorem foldl_len (x : List Int) (l : List (Nat × Nat × Nat)) (st : BF) :
    (l.foldl (fun st t => I.relaxArc x t.1 t.2.1 st t.2.2) st).dist.length = st.dist.length :=
  foldl_inv (fun s => s.dist.length = st.dist.length) _ l st rfl
    (fun s h' t _ => by rw [I.relaxArc_len]; exact h')

theorem sweep_mono (x : List Int) (st : BF) {w : Nat} (h : Fin st w) : Fin (I.sweep x st) w :=
  I.foldl_mono x _ st h

/-- relaxing the triple of a residual arc whose tail is finite makes its head finite -/
theorem relaxArc_reach (x : List Int) (st : BF) (e : Nat × Bool) (hr : I.IsRes x e)
    (hl : I.head e < st.dist.length) (h : Fin st (I.tail e)) :
    Fin (I.relaxArc x (I.tail e) (I.head e) st e.1) (I.head e) := by
  obtain ⟨i, fwd⟩ := e
  rw [relaxArc_eq]
  simp only
  cases fwd
  · -- backward arc: second relaxation
    have hc : I.bwdCond x (I.tail (i, false)) (I.head (i, false)) i := by
      refine ⟨rfl, rfl, ?_⟩
      have := hr.2; simpa [resOf] using this
    rw [if_pos hc]
    apply tryRelax_head
    · split
      · have := I.relaxArc_len x (I.tail (i, false)) (I.head (i, false)) st i
        rcases tryRelax_cases st (I.tail (i, false)) (I.head (i, false)) (I.arc i).cost (i, true) with ⟨e, _⟩ | ⟨du, _, _, e⟩ <;> rw [e]
        · exact hl
        · simpa using hl
      · exact hl
    · split
      · exact tryRelax_mono _ _ _ _ _ h
      · exact h
  · have hc : I.fwdCond x (I.tail (i, true)) (I.head (i, true)) i := by
      refine ⟨rfl, rfl, ?_⟩
      have := hr.2; simp [resOf] at this; omega
    rw [if_pos hc]
    have h1 := tryRelax_head st (I.tail (i, true)) (I.head (i, true)) (I.arc i).cost (i, true) hl h
    split
    · exact tryRelax_mono _ _ _ _ _ h1
    · exact h1

theorem foldl_reach (x : List Int) (e : Nat × Bool) (hr : I.IsRes x e) :
    ∀ (l : List (Nat × Nat × Nat)) (st : BF), (I.tail e, I.head e, e.1) ∈ l → I.head e < st.dist.length →
      Fin st (I.tail e) → Fin (l.foldl (fun st t => I.relaxArc x t.1 t.2.1 st t.2.2) st) (I.head e)
  | [], _, h, _, _ => by cases h
  | t :: l, st, hm, hl, h => by
    simp only [List.foldl_cons]
    by_cases c : t = (I.tail e, I.head e, e.1)
    · subst c
      exact I.foldl_mono x l _ (I.relaxArc_reach x st e hr hl h)
    · have hm' : (I.tail e, I.head e, e.1) ∈ l := by
        rcases List.mem_cons.1 hm with h' | h'
        · exact absurd h'.symm c
        · exact h'
      exact foldl_reach x e hr l _ hm' (by rw [I.relaxArc_len]; exact hl) (I.relaxArc_mono x _ _ _ _ h)

theorem sweep_reach (hv : I.Valid) (x : List Int) (st : BF) (hl : st.dist.length = I.n) (e : Nat × Bool)
    (hr : I.IsRes x e) (h : Fin st (I.tail e)) : Fin (I.sweep x st) (I.head e) := by
  have hb := hv e.1 hr.1
  have ht : I.tail e < I.n := by unfold tail; split <;> omega
  have hh : I.head e < I.n := by unfold head; split <;> omega
  exact I.foldl_reach x e hr _ st ((I.mem_triples).2 ⟨ht, hh, hr.1⟩) (by rw [hl]; exact hh) h

/-- a closed set of finite nodes does not grow -/
theorem sweep_closed_stable (x : List Int) (st : BF) (hc : I.Closed x st) :
    ∀ w, Fin (I.sweep x st) w → Fin st w := by
  apply I.sweep_inv (fun s => ∀ w, Fin s w → Fin st w) x st (fun _ h => h)
  · intro st' u v i h' _ _ hi c du hd w hw
    unfold Fin relaxed at hw
    simp only [getD_set_opt] at hw
    split at hw
    · rename_i cw
      rw [cw.1]
      have := hc (i, true) (I.resOf_fwd hi c.2.2) (by
        show Fin st (I.tail (i, true))
        simp only [tail, if_true, c.1]
        exact h' u (by unfold Fin; rw [hd]; rfl))
      simpa [head, c.2.1] using this
    · exact h' w hw
  · intro st' u v i h' _ _ hi c du hd w hw
    unfold Fin relaxed at hw
    simp only [getD_set_opt] at hw
    split at hw
    · rename_i cw
      rw [cw.1]
      have := hc (i, false) (I.resOf_bwd hi c.2.2) (by
        show Fin st (I.tail (i, false))
        simp only [tail, Bool.false_eq_true, if_false, c.1]
        exact h' u (by unfold Fin; rw [hd]; rfl))
      simpa [head, c.2.1] using this
    · exact h' w hw

/-- number of finite nodes -/
def card (st : BF) : Nat := ((List.range I.n).filter fun v => (st.dist.getD v none).isSome).length

theorem rounds_len (x : List Int) : ∀ (k : Nat) (st : BF), (I.rounds x k st).dist.length = st.dist.length
  | 0, _ => rfl
  | k + 1, st => by
    unfold rounds
    simp only
    have hs : (I.sweep x { st with upd := false }).dist.length = st.dist.length := I.foldl_len x _ _
    split
    · rw [rounds_len x k, hs]
    · exact hs

theorem rounds_closed_or_grow (hv : I.Valid) (x : List Int) :
    ∀ (k : Nat) (st : BF), st.dist.length = I.n →
      I.Closed x (I.rounds x k st) ∨ I.card st + k ≤ I.card (I.rounds x k st)
  | 0, st, _ => Or.inr (Nat.le_refl _)
  | k + 1, st, hl => by
    unfold rounds
    simp only
    have hl0 : ({ st with upd := false } : BF).dist.length = I.n := hl
    have hls : (I.sweep x { st with upd := false }).dist.length = I.n :=
      (I.foldl_len x _ _).trans hl
    split
    · rename_i hu
      by_cases hc : I.Closed x { st with upd := false }
      · -- closed already: nothing grows any more, and the set stays closed
        left
        have stable : ∀ (j : Nat) (s' : BF), I.Closed x s' → I.Closed x (I.rounds x j s') := by
          intro j
          induction j with
          | zero => intro s' h; exact h
          | succ j ih =>
            intro s' h
            unfold rounds
            simp only
            have hc0 : I.Closed x { s' with upd := false } := h
            have hs' : I.Closed x (I.sweep x { s' with upd := false }) := by
              intro e hr ht
              exact I.sweep_mono x _ (hc0 e hr (I.sweep_closed_stable x _ hc0 _ ht))
            split
            · exact ih _ hs'
            · exact hs'
        apply stable
        intro e hr ht
        exact I.sweep_mono x _ (hc e hr (I.sweep_closed_stable x _ hc _ ht))
      · -- not closed: the sweep reaches a new node
        have : ∃ e, I.IsRes x e ∧ Fin { st with upd := false } (I.tail e) ∧ ¬ Fin { st with upd := false } (I.head e) := by
          unfold Closed at hc
          by_contra hn
          apply hc
          intro e hr ht
          by_contra hh
          exact hn ⟨e, hr, ht, hh⟩
        obtain ⟨e, hr, ht, hh⟩ := this
        have hnew := I.sweep_reach hv x _ hl0 e hr ht
        have hb := hv e.1 hr.1
        have hhn : I.head e < I.n := by unfold head; split <;> omega
        have hgrow : I.card st < I.card (I.sweep x { st with upd := false }) := by
          unfold card
          apply Net.filter_length_lt (p := fun v => ((I.sweep x { st with upd := false }).dist.getD v none).isSome)
            (a := I.head e) _ (List.mem_range.2 hhn) hnew
          · have : ¬ ((st.dist.getD (I.head e) none).isSome = true) := hh
            simpa using this
          · intro v hvv
            exact I.sweep_mono x { st with upd := false } hvv
        rcases rounds_closed_or_grow hv x k _ hls with h | h
        · exact Or.inl h
        · right; omega
    · rename_i hu
      left
      have hq : (I.sweep x { st with upd := false }).upd = false := by simpa using hu
      obtain ⟨e0, _⟩ := I.sweep_quiet x _ hq
      intro e hr ht
      have := I.sweep_reach hv x { st with upd := false } hl0 e hr (by rw [e0] at ht; exact ht)
      exact this

theorem rounds_closed (hv : I.Valid) (x : List Int) {s : Nat} (hs : s < I.n) :
    I.Closed x (I.rounds x (I.n - 1) (I.initBF s)) := by
  have hl : (I.initBF s).dist.length = I.n := by simp [initBF]
  rcases I.rounds_closed_or_grow hv x (I.n - 1) (I.initBF s) hl with h | h
  · exact h
  · -- n finite nodes: every node is finite
    have h1 : 1 ≤ I.card (I.initBF s) := by
      unfold card
      apply List.length_pos_of_mem (a := s)
      rw [List.mem_filter]
      refine ⟨List.mem_range.2 hs, ?_⟩
      simp [initBF, hs]
    have hn : I.n ≤ I.card (I.rounds x (I.n - 1) (I.initBF s)) := by omega
    intro e hr _
    have hb := hv e.1 hr.1
    have hhn : I.head e < I.n := by unfold head; split <;> omega
    by_contra hh
    have : I.card (I.rounds x (I.n - 1) (I.initBF s)) < ((List.range I.n).filter fun _ => true).length := by
      unfold card
      apply Net.filter_length_lt (p := fun _ => true) (a := I.head e) _ (List.mem_range.2 hhn) rfl
      · simpa [Fin] using hh
      · intro _ _; rfl
    have e : ((List.range I.n).filter fun _ => true) = List.range I.n :=
      List.filter_eq_self.2 (fun _ _ => rfl)
    rw [e, List.length_range] at this
    omega

/-! ### the main loop -/

/-- the instance asks for `demand` units from `s` to `t` -/
def STsup (s t : Nat) (demand : Int) : Prop :=
  ∀ v < I.n, I.sup v = (if v = s then demand else 0) - (if v = t then demand else 0)

/-- loop invariant: `x` routes `total` units from `s` to `t` within the capacities -/
structure LInv (s t : Nat) (x : List Int) (total : Int) : Prop where
  len : x.length = I.m
  bnd : I.Bounds x
  bal : ∀ v < I.n, I.bal x v = (if v = s then total else 0) - (if v = t then total else 0)

/-- what `certify` demands of an answer -/
def Cert (o : SOut) : Prop :=
  (o.status = .feasible → I.chkMinCost o.x o.pot o.cost = true) ∧
  (o.status = .infeasible → I.chkInfeas o.reach = true)

theorem pchain_mem (par : List (Option (Nat × Bool))) :
    ∀ (p : List (Nat × Bool)) (a b : Nat), I.PChain par a p b → ∀ e ∈ p, par.getD (I.head e) none = some e
  | [], _, _, _ => fun _ h => by cases h
  | e0 :: r, _, _, h => by
    intro e he
    rcases List.mem_cons.1 he with rfl | he
    · exact h.2.1
    · exact pchain_mem par r _ _ h.2.2 e he

theorem foldl_min_le (g : Nat × Bool → Int) : ∀ (l : List (Nat × Bool)) (a : Int),
    l.foldl (fun acc e => min acc (g e)) a ≤ a ∧ ∀ e ∈ l, l.foldl (fun acc e => min acc (g e)) a ≤ g e
  | [], a => ⟨Int.le_refl _, fun _ h => by cases h⟩
  | e0 :: r, a => by
    simp only [List.foldl_cons]
    obtain ⟨h1, h2⟩ := foldl_min_le g r (min a (g e0))
    refine ⟨Int.le_trans h1 (Int.min_le_left _ _), fun e he => ?_⟩
    rcases List.mem_cons.1 he with rfl | he
    · exact Int.le_trans h1 (Int.min_le_right _ _)
    · exact h2 e he

theorem mem_finite (d : List (Option Int)) (v : Nat) :
    v ∈ finite d ↔ v < d.length ∧ (d.getD v none).isSome = true := by
  simp [finite]

theorem feasible_cert (hv : I.Valid) {s t : Nat} {demand : Int} (hsup : I.STsup s t demand) {x p : List Int}
    (hL : I.LInv s t x demand) (hp : I.potentials x = some p) :
    I.chkMinCost x p (I.costF (fl x)) = true := by
  unfold chkMinCost
  have h1 : I.chkFeas x = true := (I.chkFeas_iff x).2 ⟨hL.len,
    ⟨fun i hi => (hL.bnd i hi).1, fun i hi => (hL.bnd i hi).2, fun v hvn => by
      have := hL.bal v hvn
      unfold bal at this
      rw [this, hsup v hvn]⟩⟩
  have h2 : I.chkOpt x p = true := (I.chkOpt_iff x p).2 (I.potentials_slack hv x hp)
  simp [h1, h2]

theorem infeasible_cert (hv : I.Valid) {s t : Nat} (hs : s < I.n) (ht : t < I.n) {demand total : Int}
    (hsup : I.STsup s t demand) {x : List Int} (hL : I.LInv s t x total) (hlt : total < demand)
    (hnone : (I.rounds x (I.n - 1) (I.initBF s)).dist.getD t none = none) :
    I.chkInfeas (finite (I.rounds x (I.n - 1) (I.initBF s)).dist) = true := by
  generalize hst : I.rounds x (I.n - 1) (I.initBF s) = st at hnone
  have hwf : I.WF x s st := by rw [← hst]; exact I.wf_rounds _ (I.wf_init x hs)
  have hcl : I.Closed x st := by rw [← hst]; exact I.rounds_closed hv x hs
  -- membership in the reached set
  have hR : ∀ v, v < I.n → ((finite st.dist).contains v = true ↔ Fin st v) := by
    intro v hvn
    rw [List.contains_iff_mem, mem_finite, hwf.dlen]
    exact ⟨fun h => h.2, fun h => ⟨hvn, h⟩⟩
  have hsR : (finite st.dist).contains s = true := (hR s hs).2 hwf.src
  have htR : (finite st.dist).contains t = false := by
    cases h : (finite st.dist).contains t
    · rfl
    · have := (hR t ht).1 h
      unfold Fin at this; rw [hnone] at this; cases this
  have hst' : s ≠ t := fun e => by rw [e, htR] at hsR; cases hsR
  -- net supply of a set that holds s and not t, for the demand D
  have supplyVal : ∀ (D : Int) (sup : Nat → Int),
      (∀ v < I.n, sup v = (if v = s then D else 0) - (if v = t then D else 0)) →
      lsum ((List.range I.n).filter fun v => (finite st.dist).contains v) sup = D := by
    intro D sup hs'
    have hnd : ((List.range I.n).filter fun v => (finite st.dist).contains v).Nodup := List.nodup_range.filter _
    rw [lsum_congr (fun v hvm => hs' v (List.mem_range.1 (List.mem_filter.1 hvm).1)), lsum_sub,
      lsum_ite_eq hnd (List.mem_filter.2 ⟨List.mem_range.2 hs, hsR⟩),
      lsum_ite_eq_of_not_mem (fun h => by have := (List.mem_filter.1 h).2; rw [htR] at this; cases this)]
    omega
  have hsupply : I.supplyOf (finite st.dist) = demand := supplyVal demand I.sup hsup
  -- the flow x is feasible for the instance that asks for `total`
  let J : Inst := Inst.ofST I.n I.arcs s t total
  have hJv : J.Valid := hv
  have hJf : J.Feas (fl x) := ⟨fun i hi => (hL.bnd i hi).1, fun i hi => (hL.bnd i hi).2, fun v hvn => by
    have := hL.bal v hvn
    unfold bal at this
    show I.outF (fl x) v - I.inF (fl x) v = J.sup v
    rw [this, ofST_sup I.n I.arcs s t total hvn]⟩
  have hcross := J.supply_eq_cross hJv (finite st.dist) hJf
  have hJs : J.supplyOf (finite st.dist) = total :=
    supplyVal total J.sup (fun v hvn => ofST_sup I.n I.arcs s t total hvn)
  -- across the closed set: leaving arcs are full, entering arcs are empty
  have hcap : I.capOutOf (finite st.dist) = total := by
    rw [← hJs, hcross]
    unfold capOutOf
    apply lsum_congr
    intro i hi
    have him : i < I.m := List.mem_range.1 hi
    obtain ⟨hsrc, htgt⟩ := hv i him
    show (if ((finite st.dist).contains (I.arc i).src && !(finite st.dist).contains (I.arc i).tgt) = true
          then (I.arc i).cap else 0) =
        (if (finite st.dist).contains (I.arc i).src = true then fl x i else 0) -
          (if (finite st.dist).contains (I.arc i).tgt = true then fl x i else 0)
    have hb := hL.bnd i him
    cases h1 : (finite st.dist).contains (I.arc i).src <;> cases h2 : (finite st.dist).contains (I.arc i).tgt
    · simp
    · -- entering arc: empty, otherwise its backward residual arc would leave the set
      have hx0 : fl x i = 0 := by
        by_contra hne
        have hpos : 0 < fl x i := by omega
        have := hcl (i, false) (I.resOf_bwd him hpos) (by
          show Fin st (I.arc i).tgt
          exact (hR _ htgt).1 h2)
        have : Fin st (I.arc i).src := this
        rw [← hR _ hsrc, h1] at this; cases this
      simp [hx0]
    · -- leaving arc: full
      have hxc : fl x i = (I.arc i).cap := by
        by_contra hne
        have hlt' : fl x i < (I.arc i).cap := by omega
        have := hcl (i, true) (I.resOf_fwd him hlt') (by
          show Fin st (I.arc i).src
          exact (hR _ hsrc).1 h1)
        have : Fin st (I.arc i).tgt := this
        rw [← hR _ htgt, h2] at this; cases this
      simp [hxc]
    · simp
  unfold chkInfeas
  rw [hcap, hsupply]
  simp [hlt]

theorem loop_cert (hv : I.Valid) {s t : Nat} (hs : s < I.n) (ht : t < I.n) {demand : Int}
    (hsup : I.STsup s t demand) :
    ∀ (fuel : Nat) (x : List Int) (total : Int) (k c : Nat), I.LInv s t x total → total ≤ demand →
      I.Cert (I.sspLoop s t demand fuel x total k c)
  | 0, x, total, k, c, _, _ => by
    unfold sspLoop
    exact ⟨fun h => by simp at h, fun h => by simp at h⟩
  | fuel + 1, x, total, k, c, hL, hle => by
    unfold sspLoop
    by_cases hlt : total < demand
    · rw [if_pos hlt]
      simp only
      have hwf : I.WF x s (I.rounds x (I.n - 1) (I.initBF s)) := I.wf_rounds _ (I.wf_init x hs)
      cases hd : (I.rounds x (I.n - 1) (I.initBF s)).dist.getD t none with
      | none =>
        simp only
        exact ⟨fun h => by simp at h, fun _ => I.infeasible_cert hv hs ht hsup hL hlt hd⟩
      | some dt =>
        simp only
        cases hw : I.walk (I.rounds x (I.n - 1) (I.initBF s)).par (I.n + 1) t [] with
        | none => exact ⟨fun h => by simp at h, fun h => by simp at h⟩
        | some path =>
          simp only
          split
          · exact ⟨fun h => by simp at h, fun h => by simp at h⟩
          · rename_i hdpos
            generalize hst : I.rounds x (I.n - 1) (I.initBF s) = st at hwf hd hw
            generalize hdd : path.foldl (fun acc e => min acc (I.resOf x e)) (demand - total) = d at hdpos
            have hd0 : 0 ≤ d := by omega
            -- parents point at their own node
            have hpar : ∀ v e, st.par.getD v none = some e → I.head e = v := by
              intro v e he
              have hvn : v < I.n := by
                by_contra hge
                have : st.par.getD v none = none := by
                  simp [List.getD, List.getElem?_eq_none (by rw [hwf.plen]; omega : st.par.length ≤ v)]
                rw [this] at he; cases he
              exact (hwf.parOK v hvn e he).2.1
            obtain ⟨root, hpc, hroot⟩ := I.walk_spec st.par t hpar (I.n + 1) t [] path rfl hw
            have hroot0 : st.par.getD root none = none := hroot
            -- every arc of the path is a parent arc, hence residual
            have hmem := I.pchain_mem st.par path root t hpc
            have harc : ∀ e ∈ path, I.IsRes x e ∧ I.tail e < I.n ∧ Fin st (I.tail e) := by
              intro e he
              have h1 := hmem e he
              have hvn : I.head e < I.n := by
                by_contra hge
                have : st.par.getD (I.head e) none = none := by
                  simp [List.getD, List.getElem?_eq_none (by rw [hwf.plen]; omega : st.par.length ≤ I.head e)]
                rw [this] at h1; cases h1
              obtain ⟨a1, _, a3, a4, _⟩ := hwf.parOK _ hvn e h1
              exact ⟨a1, a3, a4⟩
            -- the root is the source
            have hrs : root = s := by
              have hfin : root < I.n ∧ Fin st root := by
                cases path with
                | nil =>
                  have : root = t := hpc
                  rw [this]
                  exact ⟨ht, by unfold Fin; rw [hd]; rfl⟩
                | cons e r =>
                  have := harc e (by simp)
                  rw [← hpc.1]
                  exact ⟨this.2.1, this.2.2⟩
              rcases hwf.fin root hfin.1 hfin.2 with h | h
              · exact h
              · rw [hroot0] at h; cases h
            subst hrs
            have hmin := foldl_min_le (I.resOf x) path (demand - total)
            rw [hdd] at hmin
            obtain ⟨o1, o2, o3⟩ := I.push_spec hd0 path x root t hL.len hL.bnd (I.pchain_link _ _ _ _ hpc)
              (I.pchain_nodup st.par t path root 0 hpc hroot)
              (fun e he => ⟨(harc e he).1.1, hmin.2 e he⟩)
            apply loop_cert hv hs ht hsup fuel
            · refine ⟨o1, o2, fun v hvn => ?_⟩
              rw [o3 v, hL.bal v hvn]
              by_cases c1 : v = root <;> by_cases c2 : v = t <;> simp [c1, c2] <;> omega
            · have := hmin.1; omega
    · rw [if_neg hlt]
      have heq : total = demand := by omega
      subst heq
      cases hp : I.potentials x with
      | none => exact ⟨fun h => by simp at h, fun h => by simp at h⟩
      | some p =>
        exact ⟨fun _ => I.feasible_cert hv hsup hL hp, fun h => by simp at h⟩

/-- the initial zero flow -/
theorem linv_zero (hcap : ∀ i < I.m, 0 ≤ (I.arc i).cap) (s t : Nat) : I.LInv s t (List.replicate I.m 0) 0 := by
  have hz : ∀ j, fl (List.replicate I.m 0) j = 0 := by
    intro j
    unfold fl
    simp only [List.getD, List.getElem?_replicate]
    split <;> rfl
  refine ⟨by simp, fun j hj => ?_, fun v _ => ?_⟩
  · rw [hz j]
    exact ⟨Int.le_refl _, hcap j hj⟩
  · unfold bal outF inF
    rw [lsum_eq_zero (fun i _ => by simp [hz i]), lsum_eq_zero (fun i _ => by simp [hz i])]
    simp

/-- **core of `ssp_certifies_partial`**: whatever the search answers, the verified checker accepts it -/
theorem ssp_cert (hv : I.Valid) (hcap : ∀ i < I.m, 0 ≤ (I.arc i).cap) {s t : Nat} (hs : s < I.n)
    (ht : t < I.n) {demand : Int} (hd : 0 ≤ demand) (hsup : I.STsup s t demand) :
    I.Cert (I.ssp s t demand) :=
  I.loop_cert hv hs ht hsup _ _ 0 0 0 (I.linv_zero hcap s t) hd

theorem certify_of_cert (o : SOut) (h : I.Cert o) : I.certify o = o := by
  unfold certify
  cases hs : o.status with
  | feasible => simp only; rw [if_pos (h.1 hs)]
  | infeasible => simp only; rw [if_pos (h.2 hs)]
  | negcycle => rfl

end Inst
end Solvor.Flow
