import Solvor.Flow.SSP
/-!
Flow.PairCost: the cost table of the *unchanged* `min_cost_flow` – one cost per ordered node pair:

    cost[u][v] = min(cost[u][v], c)
    if cost[v][u] == inf: cost[v][u] = -c

in arc order (`none` = `inf`).  `PairLemmas.lean` proves that the table prices every residual arc
correctly when no node pair carries an anti-parallel pair or parallel arcs of different cost, and
exhibits the mispricing otherwise.  No Mathlib imports.
-/
namespace Solvor.Flow

abbrev CostT := List ((Nat × Nat) × Int)

def CostT.get (t : CostT) (u v : Nat) : Option Int := t.lookup (u, v)

def CostT.set (t : CostT) (u v : Nat) (c : Int) : CostT :=
  ((u, v), c) :: t.filter (fun e => !(e.1 == (u, v)))

/-- `min(cost[u][v], c)` -/
def newFwd (t : CostT) (a : Arc) : Int :=
  match t.get a.src a.tgt with
  | none => a.cost
  | some c => min c a.cost

def pairStep (t : CostT) (a : Arc) : CostT :=
  let t1 := t.set a.src a.tgt (newFwd t a)
  match t1.get a.tgt a.src with
  | none => t1.set a.tgt a.src (- a.cost)
  | some _ => t1

def pairCosts (arcs : List Arc) : CostT := arcs.foldl pairStep []

/-- no anti-parallel pair between two different nodes, and parallel arcs have equal cost -/
def noPairFeature (arcs : List Arc) : Bool :=
  arcs.all fun a => arcs.all fun b =>
    (!(a.src == b.src && a.tgt == b.tgt) || a.cost == b.cost) &&
    (!(a.src == b.tgt && a.tgt == b.src) || a.src == a.tgt)

/-- the decidable input feature the known finding is confined to -/
def hasPairFeature (arcs : List Arc) : Bool := !noPairFeature arcs

end Solvor.Flow
