import Solvor.Flow.SSPLemmas
import Solvor.Flow.Assignment
/-! Flow: the assignment problem as a unit-capacity bipartite min-cost flow (`solve_assignment`). -/
namespace Solvor.Flow

/-- sum of `F` over a list of arcs -/
def asum : List Arc → (Arc → Int) → Int
  | [], _ => 0
  | a :: as, F => F a + asum as F

@[simp] theorem asum_nil (F : Arc → Int) : asum [] F = 0 := rfl
@[simp] theorem asum_cons (a : Arc) (as : List Arc) (F : Arc → Int) : asum (a :: as) F = F a + asum as F := rfl

theorem asum_append (l₁ l₂ : List Arc) (F : Arc → Int) : asum (l₁ ++ l₂) F = asum l₁ F + asum l₂ F := by
  induction l₁ with
  | nil => simp
  | cons a as ih => simp only [List.cons_append, asum_cons, ih]; ring

theorem lsum_map (l : List Nat) (f : Nat → Nat) (g : Nat → Int) :
    lsum (l.map f) g = lsum l (fun x => g (f x)) := by
  induction l with
  | nil => rfl
  | cons x xs ih => simp [ih]

theorem asum_map (l : List Nat) (h : Nat → Arc) (F : Arc → Int) :
    asum (l.map h) F = lsum l (fun i => F (h i)) := by
  induction l with
  | nil => rfl
  | cons x xs ih => simp [ih]

theorem asum_flatMap (l : List Nat) (k : Nat → List Arc) (F : Arc → Int) :
    asum (l.flatMap k) F = lsum l (fun i => asum (k i) F) := by
  induction l with
  | nil => rfl
  | cons x xs ih => simp [List.flatMap_cons, asum_append, ih]

theorem lsum_range_getD (l : List Arc) (d : Arc) (F : Arc → Int) :
    lsum (List.range l.length) (fun i => F (l.getD i d)) = asum l F := by
  induction l with
  | nil => rfl
  | cons a as ih =>
    rw [List.length_cons, List.range_succ_eq_map, lsum_cons, lsum_map]
    simp only [List.getD_cons_zero, List.getD_cons_succ, asum_cons, ih]

theorem Inst.lsum_arc (I : Inst) (F : Arc → Int) :
    lsum (List.range I.m) (fun i => F (I.arc i)) = asum I.arcs F :=
  lsum_range_getD I.arcs _ F

/-- 0/1 indicator -/
def ind (b : Bool) : Int := if b then 1 else 0

theorem ind_nonneg (b : Bool) : 0 ≤ ind b := by unfold ind; split <;> omega
theorem ind_le_one (b : Bool) : ind b ≤ 1 := by unfold ind; split <;> omega

/-! ### the network of `solve_assignment` in a fixed numbering
source = 0, sink = 1, `L i` = 2 + i, `R j` = 2 + n + j; arcs in the order the graph dict is built. -/

/-- a partial assignment `α : rows → Option column` is valid: columns in range, no column used
twice, exactly `min n m` rows assigned -/
structure ValidAssign (n m : Nat) (α : Nat → Option Nat) : Prop where
  range : ∀ i < n, ∀ j, α i = some j → j < m
  inj   : ∀ i < n, ∀ i' < n, ∀ j, α i = some j → α i' = some j → i = i'
  count : lsum (List.range n) (fun i => ind (α i).isSome) = (min n m : Nat)

/-- column `j` is used by some row -/
def usedCol (n : Nat) (α : Nat → Option Nat) (j : Nat) : Bool := (List.range n).any fun i => α i == some j

/-- flow value on an arc, read off its end points -/
def assignVal (n : Nat) (α : Nat → Option Nat) (a : Arc) : Int :=
  if a.src = 0 then ind (α (a.tgt - 2)).isSome
  else if a.tgt = 1 then ind (usedCol n α (a.src - 2 - n))
  else ind (α (a.src - 2) == some (a.tgt - 2 - n))

def flowOfAssign (n m : Nat) (C : Nat → Nat → Int) (α : Nat → Option Nat) : Nat → Int :=
  fun i => assignVal n α ((assignInst n m C).arc i)

/-- Σ_j [α i = some j] over the columns = [α i is assigned], for a valid assignment -/
theorem row_sum {n m : Nat} {α : Nat → Option Nat} (h : ValidAssign n m α) {i : Nat} (hi : i < n)
    (w : Nat → Int) :
    lsum (List.range m) (fun j => w j * ind (α i == some j)) =
      match α i with
      | some j => w j
      | none => 0 := by
  cases hα : α i with
  | none =>
    apply lsum_eq_zero
    intro j _
    simp [ind]
  | some j0 =>
    have hj0 : j0 < m := h.range i hi j0 hα
    rw [lsum_single List.nodup_range (List.mem_range.2 hj0)]
    · simp [ind]
    · intro j _ hne
      have : ¬ (j0 = j) := fun e => hne e.symm
      simp [ind, this]

/-- Σ_i [α i = some j] over the rows = [column j is used], for a valid assignment -/
theorem col_sum {n m : Nat} {α : Nat → Option Nat} (h : ValidAssign n m α) (j : Nat) :
    lsum (List.range n) (fun i => ind (α i == some j)) = ind (usedCol n α j) := by
  by_cases hu : usedCol n α j = true
  · rw [hu]
    unfold usedCol at hu
    simp only [List.any_eq_true, List.mem_range, beq_iff_eq] at hu
    obtain ⟨i0, hi0, hα⟩ := hu
    rw [lsum_single List.nodup_range (List.mem_range.2 hi0)]
    · simp [ind, hα]
    · intro i hi hne
      have hin : i < n := List.mem_range.1 hi
      have : ¬ (α i = some j) := fun e => hne (h.inj i hin i0 hi0 j e hα)
      simp [ind, this]
  · have hu' : usedCol n α j = false := by simpa using hu
    rw [hu']
    unfold usedCol at hu'
    simp only [List.any_eq_false, List.mem_range, beq_iff_eq] at hu'
    apply lsum_eq_zero
    intro i hi
    have := hu' i (List.mem_range.1 hi)
    simp [ind, this]

theorem ofST_sup (N : Nat) (arcs : List Arc) (s t : Nat) (d : Int) {v : Nat} (hv : v < N) :
    (Inst.ofST N arcs s t d).sup v = (if v = s then d else 0) - (if v = t then d else 0) := by
  unfold Inst.sup Inst.ofST
  simp [List.getD, hv]

section Forward
variable {n m : Nat} (C : Nat → Nat → Int) {α : Nat → Option Nat}

/-- Σ over all arcs of the assignment network, by groups -/
theorem asum_assign (F : Arc → Int) :
    asum (assignArcs n m C) F =
      lsum (List.range n) (fun i => F ⟨0, 2 + i, 1, 0⟩) +
      (lsum (List.range n) (fun i => lsum (List.range m) (fun j => F ⟨2 + i, 2 + n + j, 1, C i j⟩)) +
       lsum (List.range m) (fun j => F ⟨2 + n + j, 1, 1, 0⟩)) := by
  unfold assignArcs
  rw [asum_append, asum_append, asum_map, asum_map, asum_flatMap]
  congr 2
  apply lsum_congr
  intro i _
  rw [asum_map]

theorem assign_outF (v : Nat) :
    (assignInst n m C).outF (flowOfAssign n m C α) v =
      lsum (List.range n) (fun i => if 0 = v then ind (α i).isSome else 0) +
      (lsum (List.range n) (fun i => lsum (List.range m) (fun j =>
          if 2 + i = v then ind (α i == some j) else 0)) +
       lsum (List.range m) (fun j => if 2 + n + j = v then ind (usedCol n α j) else 0)) := by
  unfold Inst.outF flowOfAssign
  rw [(assignInst n m C).lsum_arc (fun a => if a.src = v then assignVal n α a else 0)]
  show asum (assignArcs n m C) _ = _
  rw [asum_assign]
  congr 1
  · apply lsum_congr; intro i _; simp [assignVal]
  · congr 1
    · apply lsum_congr; intro i _; apply lsum_congr; intro j _
      have e1 : 2 + n + j - 2 - n = j := by omega
      have e2 : ¬ (2 + n + j = 1) := by omega
      simp [assignVal, e1, e2]
    · apply lsum_congr; intro j _
      have e1 : 2 + n + j - 2 - n = j := by omega
      simp [assignVal, e1]

theorem assign_inF (v : Nat) :
    (assignInst n m C).inF (flowOfAssign n m C α) v =
      lsum (List.range n) (fun i => if 2 + i = v then ind (α i).isSome else 0) +
      (lsum (List.range n) (fun i => lsum (List.range m) (fun j =>
          if 2 + n + j = v then ind (α i == some j) else 0)) +
       lsum (List.range m) (fun j => if 1 = v then ind (usedCol n α j) else 0)) := by
  unfold Inst.inF flowOfAssign
  rw [(assignInst n m C).lsum_arc (fun a => if a.tgt = v then assignVal n α a else 0)]
  show asum (assignArcs n m C) _ = _
  rw [asum_assign]
  congr 1
  · apply lsum_congr; intro i _; simp [assignVal]
  · congr 1
    · apply lsum_congr; intro i _; apply lsum_congr; intro j _
      have e1 : 2 + n + j - 2 - n = j := by omega
      have e2 : ¬ (2 + n + j = 1) := by omega
      simp [assignVal, e1, e2]
    · apply lsum_congr; intro j _
      have e1 : 2 + n + j - 2 - n = j := by omega
      simp [assignVal, e1]

theorem assign_costF :
    (assignInst n m C).costF (flowOfAssign n m C α) =
      lsum (List.range n) (fun i => lsum (List.range m) (fun j => C i j * ind (α i == some j))) := by
  unfold Inst.costF flowOfAssign
  rw [(assignInst n m C).lsum_arc (fun a => a.cost * assignVal n α a)]
  show asum (assignArcs n m C) _ = _
  rw [asum_assign]
  have z1 : lsum (List.range n) (fun i => (⟨0, 2 + i, 1, 0⟩ : Arc).cost * assignVal n α ⟨0, 2 + i, 1, 0⟩) = 0 :=
    lsum_eq_zero (fun i _ => by simp)
  have z2 : lsum (List.range m) (fun j => (⟨2 + n + j, 1, 1, 0⟩ : Arc).cost * assignVal n α ⟨2 + n + j, 1, 1, 0⟩) = 0 :=
    lsum_eq_zero (fun j _ => by simp)
  rw [z1, z2]
  simp only [Int.zero_add, Int.add_zero]
  apply lsum_congr; intro i _; apply lsum_congr; intro j _
  have e1 : 2 + n + j - 2 - n = j := by omega
  have e2 : ¬ (2 + n + j = 1) := by omega
  simp [assignVal, e1, e2]

end Forward

/-- total number of used columns = number of assigned rows -/
theorem used_count {n m : Nat} {α : Nat → Option Nat} (h : ValidAssign n m α) :
    lsum (List.range m) (fun j => ind (usedCol n α j)) = (min n m : Nat) := by
  rw [← h.count, lsum_congr (fun j _ => (col_sum h j).symm), lsum_comm]
  apply lsum_congr
  intro i hi
  have := row_sum h (List.mem_range.1 hi) (fun _ => 1)
  simp only [Int.one_mul] at this
  rw [this]
  cases α i <;> simp [ind]

end Solvor.Flow

namespace Solvor.Flow

theorem lsum_ite_false {l : List Nat} {p : Nat → Prop} [DecidablePred p] (g : Nat → Int)
    (h : ∀ x ∈ l, ¬ p x) : lsum l (fun x => if p x then g x else 0) = 0 :=
  lsum_eq_zero (fun x hx => by rw [if_neg (h x hx)])

theorem lsum_ite_shift (c x0 N : Nat) (hx0 : x0 < N) (g : Nat → Int) :
    lsum (List.range N) (fun x => if c + x = c + x0 then g x else 0) = g x0 := by
  rw [lsum_single List.nodup_range (List.mem_range.2 hx0)]
  · simp
  · intro x _ hne
    have : ¬ (c + x = c + x0) := by omega
    rw [if_neg this]

theorem mem_assignArcs {n m : Nat} {C : Nat → Nat → Int} {a : Arc} (h : a ∈ assignArcs n m C) :
    a.cap = 1 ∧ a.src < 2 + n + m ∧ a.tgt < 2 + n + m := by
  unfold assignArcs at h
  simp only [List.mem_append, List.mem_map, List.mem_range, List.mem_flatMap] at h
  rcases h with ⟨i, hi, rfl⟩ | ⟨i, hi, j, hj, rfl⟩ | ⟨j, hj, rfl⟩
  · exact ⟨rfl, by show 0 < _; omega, by show 2 + i < _; omega⟩
  · exact ⟨rfl, by show 2 + i < _; omega, by show 2 + n + j < _; omega⟩
  · exact ⟨rfl, by show 2 + n + j < _; omega, by show 1 < _; omega⟩

theorem assignInst_arc_mem {n m : Nat} {C : Nat → Nat → Int} {i : Nat} (hi : i < (assignInst n m C).m) :
    (assignInst n m C).arc i ∈ assignArcs n m C := by
  unfold Inst.arc Inst.m at *
  show (assignArcs n m C).getD i _ ∈ _
  have hi' : i < (assignArcs n m C).length := hi
  simp [List.getD, List.getElem?_eq_getElem hi']

theorem assignInst_valid (n m : Nat) (C : Nat → Nat → Int) : (assignInst n m C).Valid := by
  intro i hi
  have := mem_assignArcs (assignInst_arc_mem hi)
  exact ⟨this.2.1, this.2.2⟩

theorem assignVal_bounds (n : Nat) (α : Nat → Option Nat) (a : Arc) :
    0 ≤ assignVal n α a ∧ assignVal n α a ≤ 1 := by
  unfold assignVal
  split
  · exact ⟨ind_nonneg _, ind_le_one _⟩
  · split <;> exact ⟨ind_nonneg _, ind_le_one _⟩

/-- an assignment gives a feasible flow of the same cost -/
theorem assign_feasible {n m : Nat} (C : Nat → Nat → Int) {α : Nat → Option Nat} (h : ValidAssign n m α) :
    (assignInst n m C).Feas (flowOfAssign n m C α) ∧
    (assignInst n m C).costF (flowOfAssign n m C α) = assignCost n C α := by
  refine ⟨⟨?_, ?_, ?_⟩, ?_⟩
  · intro i _
    exact (assignVal_bounds n α _).1
  · intro i hi
    rw [(mem_assignArcs (assignInst_arc_mem hi)).1]
    exact (assignVal_bounds n α _).2
  · intro v hv
    have hv' : v < 2 + n + m := hv
    clear hv
    rw [assign_outF, assign_inF]
    have hsup : (assignInst n m C).sup v = (if v = 0 then ((min n m : Nat) : Int) else 0) - (if v = 1 then ((min n m : Nat) : Int) else 0) :=
      ofST_sup _ _ _ _ _ hv'
    rw [hsup]
    -- which node is v ?
    rcases Nat.lt_or_ge v 2 with h2 | h2
    · rcases Nat.lt_or_ge v 1 with h1 | h1
      · -- source
        have hv0 : v = 0 := by omega
        subst hv0
        have o1 : lsum (List.range n) (fun i => if 0 = 0 then ind (α i).isSome else 0) = ((min n m : Nat) : Int) := by
          simp only [if_true]; exact h.count
        have o2 : lsum (List.range n) (fun i => lsum (List.range m) (fun j =>
            if 2 + i = 0 then ind (α i == some j) else 0)) = 0 :=
          lsum_eq_zero (fun i _ => lsum_ite_false _ (fun j _ => by omega))
        have o3 : lsum (List.range m) (fun j => if 2 + n + j = 0 then ind (usedCol n α j) else 0) = 0 :=
          lsum_ite_false _ (fun j _ => by omega)
        have i1 : lsum (List.range n) (fun i => if 2 + i = 0 then ind (α i).isSome else 0) = 0 :=
          lsum_ite_false _ (fun j _ => by omega)
        have i2 : lsum (List.range n) (fun i => lsum (List.range m) (fun j =>
            if 2 + n + j = 0 then ind (α i == some j) else 0)) = 0 :=
          lsum_eq_zero (fun i _ => lsum_ite_false _ (fun j _ => by omega))
        have i3 : lsum (List.range m) (fun j => if 1 = 0 then ind (usedCol n α j) else 0) = 0 :=
          lsum_ite_false _ (fun j _ => by omega)
        rw [o1, o2, o3, i1, i2, i3]
        simp
      · -- sink
        have hv1 : v = 1 := by omega
        subst hv1
        have o1 : lsum (List.range n) (fun i => if 0 = 1 then ind (α i).isSome else 0) = 0 :=
          lsum_ite_false _ (fun j _ => by omega)
        have o2 : lsum (List.range n) (fun i => lsum (List.range m) (fun j =>
            if 2 + i = 1 then ind (α i == some j) else 0)) = 0 :=
          lsum_eq_zero (fun i _ => lsum_ite_false _ (fun j _ => by omega))
        have o3 : lsum (List.range m) (fun j => if 2 + n + j = 1 then ind (usedCol n α j) else 0) = 0 :=
          lsum_ite_false _ (fun j _ => by omega)
        have i1 : lsum (List.range n) (fun i => if 2 + i = 1 then ind (α i).isSome else 0) = 0 :=
          lsum_ite_false _ (fun j _ => by omega)
        have i2 : lsum (List.range n) (fun i => lsum (List.range m) (fun j =>
            if 2 + n + j = 1 then ind (α i == some j) else 0)) = 0 :=
          lsum_eq_zero (fun i _ => lsum_ite_false _ (fun j _ => by omega))
        have i3 : lsum (List.range m) (fun j => if 1 = 1 then ind (usedCol n α j) else 0) = ((min n m : Nat) : Int) := by
          simp only [if_true]; exact used_count h
        rw [o1, o2, o3, i1, i2, i3]
        simp
    · rcases Nat.lt_or_ge v (2 + n) with hL | hR
      · -- a row node L i0
        obtain ⟨i0, rfl⟩ : ∃ i0, v = 2 + i0 := ⟨v - 2, by omega⟩
        have hi0 : i0 < n := by omega
        have r := row_sum h hi0 (fun _ => 1)
        simp only [Int.one_mul] at r
        have o1 : lsum (List.range n) (fun i => if 0 = 2 + i0 then ind (α i).isSome else 0) = 0 :=
          lsum_ite_false _ (fun j _ => by omega)
        have o2 : lsum (List.range n) (fun i => lsum (List.range m) (fun j =>
            if 2 + i = 2 + i0 then ind (α i == some j) else 0)) =
            lsum (List.range m) (fun j => ind (α i0 == some j)) := by
          have : ∀ i, lsum (List.range m) (fun j => if 2 + i = 2 + i0 then ind (α i == some j) else 0)
              = if 2 + i = 2 + i0 then lsum (List.range m) (fun j => ind (α i == some j)) else 0 := by
            intro i; split
            · rfl
            · exact lsum_zero _
          rw [lsum_congr (fun i _ => this i)]
          exact lsum_ite_shift 2 i0 n hi0 (fun i => lsum (List.range m) (fun j => ind (α i == some j)))
        have o3 : lsum (List.range m) (fun j => if 2 + n + j = 2 + i0 then ind (usedCol n α j) else 0) = 0 :=
          lsum_ite_false _ (fun j _ => by omega)
        have i1 : lsum (List.range n) (fun i => if 2 + i = 2 + i0 then ind (α i).isSome else 0) = ind (α i0).isSome :=
          lsum_ite_shift 2 i0 n hi0 (fun i => ind (α i).isSome)
        have i2 : lsum (List.range n) (fun i => lsum (List.range m) (fun j =>
            if 2 + n + j = 2 + i0 then ind (α i == some j) else 0)) = 0 :=
          lsum_eq_zero (fun i _ => lsum_ite_false _ (fun j _ => by omega))
        have i3 : lsum (List.range m) (fun j => if 1 = 2 + i0 then ind (usedCol n α j) else 0) = 0 :=
          lsum_ite_false _ (fun j _ => by omega)
        rw [o1, o2, o3, i1, i2, i3, r]
        have c0 : ¬ (2 + i0 = 0) := by omega
        have c1 : ¬ (2 + i0 = 1) := by omega
        simp only [c0, c1, if_false]
        cases α i0 <;> simp [ind]
      · -- a column node R j0
        obtain ⟨j0, rfl⟩ : ∃ j0, v = 2 + n + j0 := ⟨v - 2 - n, by omega⟩
        have hj0 : j0 < m := by omega
        have o1 : lsum (List.range n) (fun i => if 0 = 2 + n + j0 then ind (α i).isSome else 0) = 0 :=
          lsum_ite_false _ (fun j _ => by omega)
        have o2 : lsum (List.range n) (fun i => lsum (List.range m) (fun j =>
            if 2 + i = 2 + n + j0 then ind (α i == some j) else 0)) = 0 :=
          lsum_eq_zero (fun i hi => lsum_ite_false _ (fun j _ => by have := List.mem_range.1 hi; omega))
        have o3 : lsum (List.range m) (fun j => if 2 + n + j = 2 + n + j0 then ind (usedCol n α j) else 0) = ind (usedCol n α j0) :=
          lsum_ite_shift (2 + n) j0 m hj0 (fun j => ind (usedCol n α j))
        have i1 : lsum (List.range n) (fun i => if 2 + i = 2 + n + j0 then ind (α i).isSome else 0) = 0 :=
          lsum_ite_false _ (fun i hi => by have := List.mem_range.1 hi; omega)
        have i2 : lsum (List.range n) (fun i => lsum (List.range m) (fun j =>
            if 2 + n + j = 2 + n + j0 then ind (α i == some j) else 0)) = ind (usedCol n α j0) := by
          rw [← col_sum h j0]
          exact lsum_congr (fun i _ => lsum_ite_shift (2 + n) j0 m hj0 (fun j => ind (α i == some j)))
        have i3 : lsum (List.range m) (fun j => if 1 = 2 + n + j0 then ind (usedCol n α j) else 0) = 0 :=
          lsum_ite_false _ (fun j _ => by omega)
        rw [o1, o2, o3, i1, i2, i3]
        have c0 : ¬ (2 + n + j0 = 0) := by omega
        have c1 : ¬ (2 + n + j0 = 1) := by omega
        simp only [c0, c1, if_false]
        omega
  · rw [assign_costF]
    unfold assignCost
    apply lsum_congr
    intro i hi
    exact row_sum h (List.mem_range.1 hi) (fun j => C i j)

end Solvor.Flow

namespace Solvor.Flow

theorem chkAssign_valid {n m : Nat} {a : List Int} (h : chkAssign n m a = true) :
    a.length = n ∧ ValidAssign n m (aOf a) := by
  unfold chkAssign at h
  simp only [Bool.and_eq_true, beq_iff_eq, List.all_eq_true, List.mem_range, decide_eq_true_eq,
    Bool.or_eq_true, bne_iff_ne] at h
  obtain ⟨⟨⟨h0, h1⟩, h2⟩, h3⟩ := h
  refine ⟨h0, ⟨?_, ?_, ?_⟩⟩
  · intro i hi j hj
    unfold aOf at hj
    have := h1 i hi
    split at hj
    · simp only [Option.some.injEq] at hj; omega
    · cases hj
  · intro i hi i' hi' j hj hj'
    unfold aOf at hj hj'
    split at hj
    · split at hj'
      · simp only [Option.some.injEq] at hj hj'
        rcases h2 i hi i' hi' with (h | h) | h
        · exact h
        · omega
        · exfalso; apply h; omega
      · cases hj'
    · cases hj
  · rw [← h3]
    apply lsum_congr
    intro i _
    unfold aOf ind
    split <;> simp

end Solvor.Flow
