import Solvor.Flow.Basic
/-!
Flow.SSP: min-cost-flow specification side (per-arc transshipment instances, verified checkers)
and the certifying successive-shortest-paths reference model.

* `Inst` – nodes `0..n-1`, arcs `(src, tgt, cap, cost)` *per arc* (parallel and anti-parallel
  arcs keep their own capacity and cost), supplies `b` (positive = produces).
  `min_cost_flow(graph, s, t, d)` is the instance with `b s = d`, `b t = -d` (`b = 0` if `s = t`);
  `network_simplex(n, arcs, supplies)` is the instance itself.
* checkers: `chkFeas` (bounds, balance), `chkOpt` (potentials with non-negative reduced cost on
  every residual arc), `chkMinCost`, `chkInfeas` (a node set whose net supply exceeds the capacity
  leaving it / whose net demand exceeds the capacity entering it).
* `ssp` – successive shortest paths from `s` to `t` for `demand` units on the per-arc residual
  network: Bellman-Ford exactly as `min_cost_flow.bellman_ford` runs it (rounds `len(nodes) - 1`,
  nodes in index order, in-place distance updates, early exit when a round changes nothing,
  path by following parents from the sink), bottleneck `min(demand - total, residuals)`,
  augmentation; at the end node potentials by a zero-initialised Bellman-Ford on the final
  residual network (feasible case) or the set of nodes reached by the last search (infeasible).
  On instances where every node pair carries at most one arc the code's node-pair tables are this
  residual network, so the model is a mirror there; elsewhere it is the certified reference.

No Mathlib imports.
-/
namespace Solvor.Flow

structure Arc where
  src  : Nat
  tgt  : Nat
  cap  : Int
  cost : Int
  deriving Repr, Inhabited, DecidableEq

structure Inst where
  n    : Nat
  arcs : List Arc
  b    : List Int

namespace Inst
variable (I : Inst)

def m : Nat := I.arcs.length
def arc (i : Nat) : Arc := I.arcs.getD i ⟨0, 0, 0, 0⟩
def sup (v : Nat) : Int := I.b.getD v 0

/-- every arc joins two nodes of the instance -/
def valid : Bool := I.arcs.all fun a => decide (a.src < I.n) && decide (a.tgt < I.n)

/-! ### specification side (flows as functions of the arc index) -/

def outF (x : Nat → Int) (v : Nat) : Int :=
  lsum (List.range I.m) fun i => if (I.arc i).src = v then x i else 0
def inF (x : Nat → Int) (v : Nat) : Int :=
  lsum (List.range I.m) fun i => if (I.arc i).tgt = v then x i else 0
def costF (x : Nat → Int) : Int := lsum (List.range I.m) fun i => (I.arc i).cost * x i

/-- reduced cost of arc `i` under potentials `p` -/
def rc (p : Nat → Int) (i : Nat) : Int := (I.arc i).cost + p (I.arc i).src - p (I.arc i).tgt

def fl (x : List Int) : Nat → Int := fun i => x.getD i 0

def chkFeas (x : List Int) : Bool :=
  x.length == I.m &&
  (List.range I.m).all (fun i => decide (0 ≤ fl x i) && decide (fl x i ≤ (I.arc i).cap)) &&
  (List.range I.n).all (fun v => I.outF (fl x) v - I.inF (fl x) v == I.sup v)

def chkOpt (x p : List Int) : Bool :=
  (List.range I.m).all fun i =>
    (!decide (fl x i < (I.arc i).cap) || decide (0 ≤ I.rc (fl p) i)) &&
    (!decide (0 < fl x i) || decide (I.rc (fl p) i ≤ 0))

def chkMinCost (x p : List Int) (val : Int) : Bool :=
  I.chkFeas x && I.chkOpt x p && I.costF (fl x) == val

/-- net supply of the node set `S` -/
def supplyOf (S : List Nat) : Int := lsum ((List.range I.n).filter fun v => S.contains v) I.sup
/-- capacity of the arcs leaving `S` -/
def capOutOf (S : List Nat) : Int :=
  lsum (List.range I.m) fun i =>
    if S.contains (I.arc i).src && !S.contains (I.arc i).tgt then (I.arc i).cap else 0
/-- capacity of the arcs entering `S` -/
def capInOf (S : List Nat) : Int :=
  lsum (List.range I.m) fun i =>
    if !S.contains (I.arc i).src && S.contains (I.arc i).tgt then (I.arc i).cap else 0

def chkInfeas (S : List Nat) : Bool :=
  decide (I.capOutOf S < I.supplyOf S) || decide (I.capInOf S < - I.supplyOf S)

/-! ### successive shortest paths -/

/-- Bellman-Ford state: `dist` (`none` = inf), `par` (arc index, `true` = used forwards), and
the `updated` flag of the current round -/
structure BF where
  dist : List (Option Int)
  par  : List (Option (Nat × Bool))
  upd  : Bool

/-- `y < dist[v]` with `none` = inf -/
def improves (dv : Option Int) (y : Int) : Bool :=
  match dv with
  | none => true
  | some d => decide (y < d)

def tryRelax (st : BF) (u v : Nat) (c : Int) (tag : Nat × Bool) : BF :=
  match st.dist.getD u none with
  | none => st
  | some du =>
    if improves (st.dist.getD v none) (du + c) then
      ⟨st.dist.set v (some (du + c)), st.par.set v (some tag), true⟩
    else st

/-- the test `residual > 0 and dist[u] + cost[u][v] < dist[v]` for the residual arcs `u → v`
that arc `i` contributes -/
def relaxArc (x : List Int) (u v : Nat) (st : BF) (i : Nat) : BF :=
  let a := I.arc i
  let st := if a.src = u ∧ a.tgt = v ∧ fl x i < a.cap then tryRelax st u v a.cost (i, true) else st
  if a.tgt = u ∧ a.src = v ∧ 0 < fl x i then tryRelax st u v (- a.cost) (i, false) else st

/-- the iteration space of one sweep: `for u in nodes: for v in nodes:` and, inside, the arcs that
can contribute a residual arc `u → v`, in this order -/
def triples : List (Nat × Nat × Nat) :=
  (List.range I.n).flatMap fun u => (List.range I.n).flatMap fun v => (List.range I.m).map fun i => (u, v, i)

/-- one `for u in nodes: for v in nodes:` sweep -/
def sweep (x : List Int) (st : BF) : BF :=
  I.triples.foldl (fun st t => I.relaxArc x t.1 t.2.1 st t.2.2) st

/-- `for _ in range(k): … if not updated: break` -/
def rounds (x : List Int) : Nat → BF → BF
  | 0, st => st
  | k + 1, st =>
    let st' := I.sweep x { st with upd := false }
    if st'.upd then rounds x k st' else st'

/-- follow `parent` from `node` back to a node without parent; `none` = the pointers cycle -/
def walk (par : List (Option (Nat × Bool))) : Nat → Nat → List (Nat × Bool) → Option (List (Nat × Bool))
  | 0, _, _ => none
  | fuel + 1, node, acc =>
    match par.getD node none with
    | none => some acc
    | some (i, fwd) => walk par fuel (if fwd then (I.arc i).src else (I.arc i).tgt) ((i, fwd) :: acc)

def resOf (x : List Int) (e : Nat × Bool) : Int :=
  if e.2 then (I.arc e.1).cap - fl x e.1 else fl x e.1

def push (x : List Int) (d : Int) : List (Nat × Bool) → List Int
  | [] => x
  | (i, fwd) :: r => push (x.set i (if fwd then fl x i + d else fl x i - d)) d r

inductive SStatus where
  | feasible | infeasible | negcycle
  deriving Repr, DecidableEq

structure SOut where
  status : SStatus
  x      : List Int          -- per-arc flow
  cost   : Int
  pot    : List Int          -- node potentials (feasible) certifying optimality
  reach  : List Nat          -- nodes reached by the last search (infeasible): the cut
  iters  : Nat
  cancel : Nat               -- augmentations that used a backward residual arc

def initBF (s : Nat) : BF :=
  ⟨(List.replicate I.n none).set s (some 0), List.replicate I.n none, false⟩

def finite (d : List (Option Int)) : List Nat :=
  (List.range d.length).filter fun v => (d.getD v none).isSome

def potentials (x : List Int) : Option (List Int) :=
  let st := I.rounds x I.n ⟨List.replicate I.n (some 0), List.replicate I.n none, false⟩
  -- a further sweep that still improves something exposes a negative cycle
  let st' := I.sweep x { st with upd := false }
  if st'.upd then none else some (st.dist.map fun o => o.getD 0)

def sspLoop (s t : Nat) (demand : Int) : Nat → List Int → Int → Nat → Nat → SOut
  | 0, x, _, k, c => ⟨.negcycle, x, 0, [], [], k, c⟩
  | fuel + 1, x, total, k, c =>
    if total < demand then
      let st := I.rounds x (I.n - 1) (I.initBF s)
      match st.dist.getD t none with
      | none => ⟨.infeasible, x, 0, [], finite st.dist, k + 1, c⟩
      | some _ =>
        match I.walk st.par (I.n + 1) t [] with
        | none => ⟨.negcycle, x, 0, [], [], k + 1, c⟩
        | some path =>
          let d := path.foldl (fun acc e => min acc (I.resOf x e)) (demand - total)
          if d ≤ 0 then ⟨.negcycle, x, 0, [], [], k + 1, c⟩ else
          sspLoop s t demand fuel (push x d path) (total + d) (k + 1)
            (c + if path.any (fun e => !e.2) then 1 else 0)
    else
      match I.potentials x with
      | none => ⟨.negcycle, x, 0, [], [], k, c⟩
      | some p => ⟨.feasible, x, I.costF (fl x), p, [], k, c⟩

/-- `min_cost_flow` on the per-arc residual network -/
def ssp (s t : Nat) (demand : Int) : SOut :=
  I.sspLoop s t demand (demand.toNat + 1) (List.replicate I.m 0) 0 0 0

/-- `ssp` as a *certifying* algorithm: the answer is handed out only together with a certificate
the verified checker accepts for `J` (the instance the caller wants solved – `I` itself, or the
transshipment instance `I` was reduced from); otherwise the status is `negcycle` ("no certified
answer").  `ssp_sound` (Theorems.lean): every answer handed out is right. -/
def certify (J : Inst) (o : SOut) : SOut :=
  match o.status with
  | .feasible => if J.chkMinCost o.x o.pot o.cost then o else { o with status := .negcycle }
  | .infeasible => if J.chkInfeas o.reach then o else { o with status := .negcycle }
  | .negcycle => o

end Inst

/-- the transshipment instance of `min_cost_flow(graph, s, t, demand)` -/
def Inst.ofST (n : Nat) (arcs : List Arc) (s t : Nat) (demand : Int) : Inst :=
  ⟨n, arcs, (List.range n).map fun v => (if v = s then demand else 0) - (if v = t then demand else 0)⟩

/-- super source `n` / super sink `n+1` reduction of a transshipment instance to an s-t one
(driver glue for `network_simplex` instances; its result is only used through the checkers) -/
def Inst.toST (I : Inst) : Inst × Int :=
  -- node `n` feeds every node `v` through an arc of capacity max(sup v, 0), node `n+1` drains every node
  -- through an arc of capacity max(-sup v, 0) (zero-capacity arcs are never residual); arc indices
  -- `m + v` and `m + n + v`
  let extra := (List.range I.n).map (fun v => Arc.mk I.n v (max (I.sup v) 0) 0) ++
    (List.range I.n).map (fun v => Arc.mk v (I.n + 1) (max (- I.sup v) 0) 0)
  let d := lsum (List.range I.n) fun v => max (I.sup v) 0
  (Inst.ofST (I.n + 2) (I.arcs ++ extra) I.n (I.n + 1) d, d)

/-- certified `min_cost_flow(graph, s, t, demand)` on the per-arc network -/
def solveST (n : Nat) (arcs : List Arc) (s t : Nat) (d : Int) : Inst.SOut :=
  let I := Inst.ofST n arcs s t d
  Inst.certify I (I.ssp s t d)

/-- certified transshipment solve (`network_simplex` instances): unbalanced supplies are infeasible
with the whole node set as certificate; otherwise solve the s-t reduction and keep the original
arcs' flows, the original nodes' potentials / reached set -/
def solveTS (I : Inst) : Inst.SOut :=
  if lsum (List.range I.n) I.sup != 0 then
    Inst.certify I ⟨.infeasible, [], 0, [], List.range I.n, 0, 0⟩
  else
    let (J, d) := I.toST
    let o := J.ssp I.n (I.n + 1) d
    Inst.certify I { o with x := o.x.take I.m, pot := o.pot.take I.n, reach := o.reach.filter (· < I.n) }

end Solvor.Flow
