import Solvor.Flow.SumLemmas
import Solvor.Flow.EK
/-! Flow: specification of feasible flows / cuts and the weak-duality argument (core Lean only). -/
namespace Solvor.Flow
namespace Net
variable (N : Net)

/-- the networks `max_flow` is specified on: distinct terminals, non-negative pooled capacities,
every arc of positive capacity is a key of `capacity[u]`, and the key relation is symmetric (the
repaired construction creates the reverse key) -/
structure WF : Prop where
  nodup      : N.V.Nodup
  s_mem      : N.s ∈ N.V
  t_mem      : N.t ∈ N.V
  s_ne_t     : N.s ≠ N.t
  cap_nonneg : ∀ u v, 0 ≤ N.cap u v
  cap_adj    : ∀ u v, 0 < N.cap u v → v ∈ N.adj u
  adj_symm   : ∀ u v, v ∈ N.adj u → u ∈ N.adj v
  adj_mem    : ∀ u v, v ∈ N.adj u → v ∈ N.V

/-- `g` is a feasible s-t flow: capacity constraints on pooled capacities and conservation at
every node other than source and sink -/
structure Feasible (g : Nat → Nat → Int) : Prop where
  nonneg : ∀ u ∈ N.V, ∀ v ∈ N.V, 0 ≤ g u v
  le_cap : ∀ u ∈ N.V, ∀ v ∈ N.V, g u v ≤ N.cap u v
  cons   : ∀ v ∈ N.V, v ≠ N.s → v ≠ N.t → N.inflow g v = N.outflow g v

/-- `S` is a saturated cut for `g` -/
def Saturated (g : Nat → Nat → Int) (S : List Nat) : Prop :=
  ∀ u ∈ N.V, ∀ v ∈ N.V, u ∈ S → v ∉ S → g u v = N.cap u v ∧ g v u = 0

def inside (S : List Nat) : List Nat := N.V.filter fun u => S.contains u
def outside (S : List Nat) : List Nat := N.V.filter fun v => !S.contains v

theorem mem_inside {S : List Nat} {x : Nat} : x ∈ N.inside S ↔ x ∈ N.V ∧ x ∈ S := by
  simp [inside]

theorem mem_outside {S : List Nat} {x : Nat} : x ∈ N.outside S ↔ x ∈ N.V ∧ x ∉ S := by
  simp [outside]

theorem cutCap_eq (S : List Nat) :
    N.cutCap S = lsum (N.inside S) fun u => lsum (N.outside S) fun v => N.cap u v := rfl

/-- the net flow into the sink is the net flow across any s-t cut -/
theorem value_eq_cross (hV : N.V.Nodup) (ht : N.t ∈ N.V) {S : List Nat} (hs : N.s ∈ S)
    (htS : N.t ∉ S) {g : Nat → Nat → Int} (hg : N.Feasible g) :
    N.value g = lsum (N.outside S) fun v => lsum (N.inside S) fun u => g u v - g v u := by
  have hBnd : (N.outside S).Nodup := hV.filter _
  have htB : N.t ∈ N.outside S := (N.mem_outside).2 ⟨ht, htS⟩
  -- (1) value = Σ_{v ∉ S} (in v − out v)
  have h1 : N.value g = lsum (N.outside S) fun v => N.inflow g v - N.outflow g v := by
    rw [lsum_single hBnd htB (g := fun v => N.inflow g v - N.outflow g v)]
    · rfl
    · intro v hv hvt
      have hv' := (N.mem_outside).1 hv
      have hvs : v ≠ N.s := fun h => hv'.2 (h ▸ hs)
      have := hg.cons v hv'.1 hvs hvt
      omega
  -- (2) in v − out v = Σ_{u ∈ S}(g u v − g v u) + Σ_{u ∉ S}(g u v − g v u)
  have h2 : ∀ v, N.inflow g v - N.outflow g v =
      lsum (N.inside S) (fun u => g u v - g v u) + lsum (N.outside S) (fun u => g u v - g v u) := by
    intro v
    unfold inflow outflow
    rw [← lsum_sub]
    exact lsum_filter_split N.V (fun u => S.contains u) _
  -- (3) the part inside V \ S cancels
  have h3 : lsum (N.outside S) (fun v => lsum (N.outside S) (fun u => g u v - g v u)) = 0 := by
    have e : ∀ v, lsum (N.outside S) (fun u => g u v - g v u)
        = lsum (N.outside S) (fun u => g u v) - lsum (N.outside S) (fun u => g v u) :=
      fun v => lsum_sub _ _ _
    rw [lsum_congr (fun v _ => e v), lsum_sub, lsum_comm (N.outside S) (N.outside S) (fun v u => g u v)]
    omega
  rw [h1, lsum_congr (fun v _ => h2 v), lsum_add, h3]
  omega

/-- weak duality: the value of a feasible flow is at most the capacity of any s-t cut -/
theorem value_le_cutCap (hV : N.V.Nodup) (ht : N.t ∈ N.V) {S : List Nat} (hs : N.s ∈ S)
    (htS : N.t ∉ S) {g : Nat → Nat → Int} (hg : N.Feasible g) : N.value g ≤ N.cutCap S := by
  rw [N.value_eq_cross hV ht hs htS hg, cutCap_eq, lsum_comm (N.inside S) (N.outside S)]
  apply lsum_le
  intro v hv
  apply lsum_le
  intro u hu
  have hu' := (N.mem_inside).1 hu
  have hv' := (N.mem_outside).1 hv
  have := hg.le_cap u hu'.1 v hv'.1
  have := hg.nonneg v hv'.1 u hu'.1
  omega

/-- on a saturated cut the bound is attained -/
theorem value_eq_cutCap (hV : N.V.Nodup) (ht : N.t ∈ N.V) {S : List Nat} (hs : N.s ∈ S)
    (htS : N.t ∉ S) {g : Nat → Nat → Int} (hg : N.Feasible g) (hsat : N.Saturated g S) :
    N.value g = N.cutCap S := by
  rw [N.value_eq_cross hV ht hs htS hg, cutCap_eq, lsum_comm (N.inside S) (N.outside S)]
  apply lsum_congr
  intro v hv
  apply lsum_congr
  intro u hu
  have hu' := (N.mem_inside).1 hu
  have hv' := (N.mem_outside).1 hv
  have := hsat u hu'.1 v hv'.1 hu'.2 hv'.2
  omega

end Net
end Solvor.Flow
