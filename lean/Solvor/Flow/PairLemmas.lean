import Solvor.Flow.PairCost
import Solvor.Flow.SumLemmas
/-! Flow.PairCost: the node-pair cost table is faithful exactly off the feature class. -/
namespace Solvor.Flow

theorem CostT.get_set (t : CostT) (u v : Nat) (c : Int) (a b : Nat) :
    (t.set u v c).get a b = if a = u ∧ b = v then some c else t.get a b := by
  unfold CostT.get CostT.set
  by_cases h : a = u ∧ b = v
  · obtain ⟨rfl, rfl⟩ := h
    simp
  · have hne : (a, b) ≠ (u, v) := by
      intro hh; apply h; cases hh; exact ⟨rfl, rfl⟩
    have h1 : ((a, b) == (u, v)) = false := by simpa using h
    rw [List.lookup_cons, h1, lookup_filter_ne t (u, v) (a, b) hne]
    simp [h]

/-- no anti-parallel pair between different nodes, parallel arcs have equal cost -/
def NoFeature (l : List Arc) : Prop :=
  ∀ a ∈ l, ∀ b ∈ l, (a.src = b.src → a.tgt = b.tgt → a.cost = b.cost) ∧
    (a.src = b.tgt → a.tgt = b.src → a.src = a.tgt)

theorem noPairFeature_iff (l : List Arc) : noPairFeature l = true ↔ NoFeature l := by
  unfold noPairFeature NoFeature
  simp only [List.all_eq_true, Bool.and_eq_true, Bool.or_eq_true, Bool.not_eq_eq_eq_not, Bool.not_true,
    Bool.and_eq_false_imp, beq_iff_eq, beq_eq_false_iff_ne]
  constructor
  · intro h a ha b hb
    obtain ⟨h1, h2⟩ := h a ha b hb
    refine ⟨fun e1 e2 => ?_, fun e1 e2 => ?_⟩
    · rcases h1 with h1 | h1
      · exact absurd e2 (h1 e1)
      · exact h1
    · rcases h2 with h2 | h2
      · exact absurd e2 (h2 e1)
      · exact h2
  · intro h a ha b hb
    obtain ⟨h1, h2⟩ := h a ha b hb
    refine ⟨?_, ?_⟩
    · by_cases e1 : a.src = b.src
      · by_cases e2 : a.tgt = b.tgt
        · exact Or.inr (h1 e1 e2)
        · exact Or.inl (fun _ => e2)
      · exact Or.inl (fun e => absurd e e1)
    · by_cases e1 : a.src = b.tgt
      · by_cases e2 : a.tgt = b.src
        · exact Or.inr (h2 e1 e2)
        · exact Or.inl (fun _ => e2)
      · exact Or.inl (fun e => absurd e e1)

/-- what the table must say after the arcs `l` -/
structure PairInv (t : CostT) (l : List Arc) : Prop where
  fwd  : ∀ a ∈ l, t.get a.src a.tgt = some a.cost
  bwd  : ∀ a ∈ l, a.src ≠ a.tgt → t.get a.tgt a.src = some (- a.cost)
  only : ∀ u v c, t.get u v = some c →
    ∃ a ∈ l, (a.src = u ∧ a.tgt = v ∧ a.cost = c) ∨ (a.src ≠ a.tgt ∧ a.tgt = u ∧ a.src = v ∧ - a.cost = c)

/-- closed form of one table update under the invariant -/
theorem pairStep_get {t : CostT} {l : List Arc} {a : Arc} (hI : PairInv t l)
    (hN : NoFeature (l ++ [a])) (u v : Nat) :
    (pairStep t a).get u v =
      if u = a.src ∧ v = a.tgt then some a.cost
      else if (u = a.tgt ∧ v = a.src) ∧ a.src ≠ a.tgt then some (- a.cost)
      else t.get u v := by
  have ha : a ∈ l ++ [a] := by simp
  have hl : ∀ b ∈ l, b ∈ l ++ [a] := fun b hb => List.mem_append_left _ hb
  have hfw : newFwd t a = a.cost := by
    unfold newFwd
    cases hg : t.get a.src a.tgt with
    | none => rfl
    | some c =>
      obtain ⟨b, hb, h | h⟩ := hI.only _ _ _ hg
      · have := (hN b (hl b hb) a ha).1 h.1 h.2.1
        simp only; rw [← h.2.2, this]; exact Int.min_self _
      · exact absurd ((hN b (hl b hb) a ha).2 h.2.2.1 h.2.1) h.1
  unfold pairStep
  simp only [hfw]
  by_cases hloop : a.src = a.tgt
  · -- self-loop: the reverse key is the forward key, already set
    have : (t.set a.src a.tgt a.cost).get a.tgt a.src = some a.cost := by
      rw [CostT.get_set]; simp [hloop]
    rw [this]
    simp only
    rw [CostT.get_set]
    have : ¬ ((u = a.tgt ∧ v = a.src) ∧ a.src ≠ a.tgt) := fun h => h.2 hloop
    simp only [this, if_false]
  · have hkey : ¬ (a.tgt = a.src ∧ a.src = a.tgt) := fun h => hloop h.2
    have e1 : (t.set a.src a.tgt a.cost).get a.tgt a.src = t.get a.tgt a.src := by
      rw [CostT.get_set]; simp [hkey]
    rw [e1]
    cases hg : t.get a.tgt a.src with
    | none =>
      simp only
      rw [CostT.get_set, CostT.get_set]
      by_cases h1 : u = a.src ∧ v = a.tgt
      · obtain ⟨rfl, rfl⟩ := h1
        have : ¬ (a.src = a.tgt ∧ a.tgt = a.src) := fun h => hloop h.1
        simp [this]
      · simp only [h1, if_false]
        by_cases h2 : u = a.tgt ∧ v = a.src
        · simp [h2, hloop]
        · simp [h2]
    | some c =>
      simp only
      rw [CostT.get_set]
      -- the existing reverse entry is already -cost
      have hc : c = - a.cost := by
        obtain ⟨b, hb, h | h⟩ := hI.only _ _ _ hg
        · exact absurd ((hN b (hl b hb) a ha).2 h.1 h.2.1) (fun e => hloop (h.2.1 ▸ h.1 ▸ e.symm ▸ rfl) |> False.elim)
        · have := (hN b (hl b hb) a ha).1 h.2.2.1 h.2.1
          rw [← h.2.2.2, this]
      by_cases h1 : u = a.src ∧ v = a.tgt
      · simp [h1]
      · simp only [h1, if_false]
        by_cases h2 : u = a.tgt ∧ v = a.src
        · obtain ⟨rfl, rfl⟩ := h2
          simp [hloop, hg, hc]
        · simp [h2]

theorem pairStep_inv {t : CostT} {l : List Arc} {a : Arc} (hI : PairInv t l)
    (hN : NoFeature (l ++ [a])) : PairInv (pairStep t a) (l ++ [a]) := by
  have ha : a ∈ l ++ [a] := by simp
  have hl : ∀ b ∈ l, b ∈ l ++ [a] := fun b hb => List.mem_append_left _ hb
  have G := fun u v => pairStep_get hI hN u v
  refine ⟨?_, ?_, ?_⟩
  · intro b hb
    rw [G]
    rcases List.mem_append.1 hb with hb | hb
    · by_cases h1 : b.src = a.src ∧ b.tgt = a.tgt
      · rw [if_pos h1, (hN b (hl b hb) a ha).1 h1.1 h1.2]
      · rw [if_neg h1]
        by_cases h2 : (b.src = a.tgt ∧ b.tgt = a.src) ∧ a.src ≠ a.tgt
        · exfalso
          have e : b.src = b.tgt := (hN b (hl b hb) a ha).2 h2.1.1 h2.1.2
          exact h2.2 (by rw [← h2.1.2, ← h2.1.1, e])
        · rw [if_neg h2]; exact hI.fwd b hb
    · have : b = a := by simpa using hb
      subst this
      simp
  · intro b hb hne
    rw [G]
    rcases List.mem_append.1 hb with hb | hb
    · by_cases h1 : b.tgt = a.src ∧ b.src = a.tgt
      · exfalso
        exact hne ((hN b (hl b hb) a ha).2 h1.2 h1.1)
      · rw [if_neg h1]
        by_cases h2 : (b.tgt = a.tgt ∧ b.src = a.src) ∧ a.src ≠ a.tgt
        · rw [if_pos h2, (hN b (hl b hb) a ha).1 h2.1.2 h2.1.1]
        · rw [if_neg h2]; exact hI.bwd b hb hne
    · have : b = a := by simpa using hb
      subst this
      have h1 : ¬ (b.tgt = b.src ∧ b.src = b.tgt) := fun h => hne h.2
      simp [hne]
  · intro u v c hc
    rw [G] at hc
    by_cases h1 : u = a.src ∧ v = a.tgt
    · rw [if_pos h1] at hc
      exact ⟨a, ha, Or.inl ⟨h1.1.symm, h1.2.symm, Option.some.inj hc⟩⟩
    · rw [if_neg h1] at hc
      by_cases h2 : (u = a.tgt ∧ v = a.src) ∧ a.src ≠ a.tgt
      · rw [if_pos h2] at hc
        exact ⟨a, ha, Or.inr ⟨h2.2, h2.1.1.symm, h2.1.2.symm, Option.some.inj hc⟩⟩
      · rw [if_neg h2] at hc
        obtain ⟨b, hb, h⟩ := hI.only u v c hc
        exact ⟨b, hl b hb, h⟩

theorem NoFeature.mono {l l' : List Arc} (h : NoFeature l') (hs : ∀ a ∈ l, a ∈ l') : NoFeature l :=
  fun a ha b hb => h a (hs a ha) b (hs b hb)

theorem foldl_pairStep_inv : ∀ (l2 l1 : List Arc) (t : CostT), PairInv t l1 → NoFeature (l1 ++ l2) →
    PairInv (l2.foldl pairStep t) (l1 ++ l2)
  | [], l1, t, hI, _ => by simpa using hI
  | a :: l2, l1, t, hI, hN => by
    have h1 : NoFeature (l1 ++ [a]) := hN.mono (fun b hb => by
      rcases List.mem_append.1 hb with h | h
      · exact List.mem_append_left _ h
      · have : b = a := by simpa using h
        subst this; simp)
    have := foldl_pairStep_inv l2 (l1 ++ [a]) (pairStep t a) (pairStep_inv hI h1)
      (by simpa [List.append_assoc] using hN)
    simpa [List.append_assoc] using this

theorem pairCosts_inv {arcs : List Arc} (h : NoFeature arcs) : PairInv (pairCosts arcs) arcs := by
  have h0 : PairInv [] [] :=
    ⟨(fun _ h => by cases h), (fun _ h => by cases h), (fun u v c h => by simp [CostT.get] at h)⟩
  have := foldl_pairStep_inv arcs [] [] h0 (by simpa using h)
  simpa [pairCosts] using this

end Solvor.Flow
