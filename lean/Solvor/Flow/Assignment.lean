import Solvor.Flow.SSP
/-!
Flow.Assignment: the network `solve_assignment` hands to `min_cost_flow`, in a fixed numbering
(source = 0, sink = 1, `L i` = 2 + i, `R j` = 2 + n + j; arcs in the order the graph dict is
built), and the Boolean checker for a returned assignment list.  No Mathlib imports.
-/
namespace Solvor.Flow

def assignArcs (n m : Nat) (C : Nat → Nat → Int) : List Arc :=
  (List.range n).map (fun i => ⟨0, 2 + i, 1, 0⟩) ++
  ((List.range n).flatMap (fun i => (List.range m).map fun j => ⟨2 + i, 2 + n + j, 1, C i j⟩) ++
   (List.range m).map (fun j => ⟨2 + n + j, 1, 1, 0⟩))

def assignInst (n m : Nat) (C : Nat → Nat → Int) : Inst :=
  Inst.ofST (2 + n + m) (assignArcs n m C) 0 1 (min n m : Nat)

/-- cost of a partial assignment `α : row → Option column` -/
def assignCost (n : Nat) (C : Nat → Nat → Int) (α : Nat → Option Nat) : Int :=
  lsum (List.range n) fun i => match α i with
    | some j => C i j
    | none => 0

/-- entry `C[i][j]` of a matrix given by rows -/
def matEntry (rows : List (List Int)) (i j : Nat) : Int := (rows.getD i []).getD j 0

/-- the returned list (`-1` = unassigned) as a partial map -/
def aOf (a : List Int) (i : Nat) : Option Nat :=
  if 0 ≤ a.getD i (-1) then some (a.getD i (-1)).toNat else none

/-- the returned list is a valid assignment: one entry per row, each `-1` or a column index, no
column twice, exactly `min n m` rows assigned -/
def chkAssign (n m : Nat) (a : List Int) : Bool :=
  a.length == n &&
  (List.range n).all (fun i => decide (-1 ≤ a.getD i (-1)) && decide (a.getD i (-1) < m)) &&
  (List.range n).all (fun i => (List.range n).all fun i' =>
    i == i' || decide (a.getD i (-1) < 0) || a.getD i (-1) != a.getD i' (-1)) &&
  lsum (List.range n) (fun i => if 0 ≤ a.getD i (-1) then 1 else 0) == ((min n m : Nat) : Int)

end Solvor.Flow
