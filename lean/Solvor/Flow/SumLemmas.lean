import Solvor.Flow.Basic
/-! Flow: lemmas about `lsum`, `FlowT`, `dedup` (core Lean only). -/
namespace Solvor.Flow

@[simp] theorem lsum_nil (g : Nat → Int) : lsum [] g = 0 := rfl
@[simp] theorem lsum_cons (x : Nat) (xs : List Nat) (g : Nat → Int) :
    lsum (x :: xs) g = g x + lsum xs g := rfl

theorem lsum_congr {l : List Nat} {g h : Nat → Int} (H : ∀ x ∈ l, g x = h x) :
    lsum l g = lsum l h := by
  induction l with
  | nil => rfl
  | cons x xs ih =>
    simp only [lsum_cons]
    rw [H x (by simp), ih (fun y hy => H y (List.mem_cons_of_mem _ hy))]

theorem lsum_zero (l : List Nat) : lsum l (fun _ => 0) = 0 := by
  induction l with
  | nil => rfl
  | cons x xs ih => simp [ih]

theorem lsum_eq_zero {l : List Nat} {g : Nat → Int} (H : ∀ x ∈ l, g x = 0) : lsum l g = 0 := by
  rw [lsum_congr H]; exact lsum_zero l

theorem lsum_add (l : List Nat) (g h : Nat → Int) :
    lsum l (fun x => g x + h x) = lsum l g + lsum l h := by
  induction l with
  | nil => rfl
  | cons x xs ih => simp only [lsum_cons, ih]; omega

theorem lsum_sub (l : List Nat) (g h : Nat → Int) :
    lsum l (fun x => g x - h x) = lsum l g - lsum l h := by
  induction l with
  | nil => rfl
  | cons x xs ih => simp only [lsum_cons, ih]; omega

theorem lsum_neg (l : List Nat) (g : Nat → Int) :
    lsum l (fun x => - g x) = - lsum l g := by
  induction l with
  | nil => rfl
  | cons x xs ih => simp only [lsum_cons, ih]; omega

theorem lsum_le {l : List Nat} {g h : Nat → Int} (H : ∀ x ∈ l, g x ≤ h x) :
    lsum l g ≤ lsum l h := by
  induction l with
  | nil => simp
  | cons x xs ih =>
    simp only [lsum_cons]
    have h1 := H x (by simp)
    have h2 := ih (fun y hy => H y (List.mem_cons_of_mem _ hy))
    omega

theorem lsum_nonneg {l : List Nat} {g : Nat → Int} (H : ∀ x ∈ l, 0 ≤ g x) : 0 ≤ lsum l g := by
  have := lsum_le (l := l) (g := fun _ => 0) (h := g) H
  rw [lsum_zero] at this; exact this

theorem lsum_append (l₁ l₂ : List Nat) (g : Nat → Int) :
    lsum (l₁ ++ l₂) g = lsum l₁ g + lsum l₂ g := by
  induction l₁ with
  | nil => simp
  | cons x xs ih => simp only [List.cons_append, lsum_cons, ih]; omega

/-- Σ_x Σ_y g x y = Σ_y Σ_x g x y -/
theorem lsum_comm (l₁ l₂ : List Nat) (g : Nat → Nat → Int) :
    lsum l₁ (fun x => lsum l₂ (fun y => g x y)) = lsum l₂ (fun y => lsum l₁ (fun x => g x y)) := by
  induction l₁ with
  | nil => simp [lsum_zero]
  | cons x xs ih =>
    simp only [lsum_cons, ih]
    rw [← lsum_add]

/-- split a sum by a predicate -/
theorem lsum_filter_split (l : List Nat) (p : Nat → Bool) (g : Nat → Int) :
    lsum l g = lsum (l.filter p) g + lsum (l.filter fun x => !p x) g := by
  induction l with
  | nil => rfl
  | cons x xs ih =>
    cases hp : p x
    · simp only [List.filter_cons, hp, lsum_cons, Bool.not_false, if_true]
      simp only [Bool.false_eq_true, if_false]
      omega
    · simp only [List.filter_cons, hp, lsum_cons, Bool.not_true, if_true]
      simp only [Bool.false_eq_true, if_false]
      omega

/-- a sum with a single non-zero term -/
theorem lsum_single {l : List Nat} (hnd : l.Nodup) {a : Nat} (ha : a ∈ l) {g : Nat → Int}
    (H : ∀ x ∈ l, x ≠ a → g x = 0) : lsum l g = g a := by
  induction l with
  | nil => cases ha
  | cons x xs ih =>
    simp only [lsum_cons]
    rw [List.nodup_cons] at hnd
    by_cases hxa : x = a
    · subst hxa
      have : lsum xs g = 0 := lsum_eq_zero (fun y hy => H y (List.mem_cons_of_mem _ hy)
        (fun h => hnd.1 (h ▸ hy)))
      omega
    · have ha' : a ∈ xs := by
        rcases List.mem_cons.1 ha with h | h
        · exact absurd h.symm hxa
        · exact h
      rw [ih hnd.2 ha' (fun y hy => H y (List.mem_cons_of_mem _ hy)), H x (by simp) hxa]
      omega

theorem lsum_ite_eq {l : List Nat} (hnd : l.Nodup) {a : Nat} (ha : a ∈ l) (d : Int) :
    lsum l (fun x => if x = a then d else 0) = d := by
  rw [lsum_single hnd ha (g := fun x => if x = a then d else 0)]
  · simp
  · intro x _ hx; simp [hx]

theorem lsum_ite_eq_of_not_mem {l : List Nat} {a : Nat} (ha : a ∉ l) (d : Int) :
    lsum l (fun x => if x = a then d else 0) = 0 :=
  lsum_eq_zero (fun x hx => by
    have : x ≠ a := fun h => ha (h ▸ hx)
    simp [this])

/-! ### FlowT -/

@[simp] theorem FlowT.get_nil (u v : Nat) : FlowT.get [] u v = 0 := rfl

theorem lookup_filter_ne (f : FlowT) (k k' : Nat × Nat) (h : k' ≠ k) :
    (f.filter (fun e => !(e.1 == k))).lookup k' = f.lookup k' := by
  induction f with
  | nil => rfl
  | cons e es ih =>
    obtain ⟨ek, ev⟩ := e
    by_cases hek : ek = k
    · subst hek
      have h1 : (k' == ek) = false := by simp [h]
      simp [List.lookup_cons, h1, ih]
    · have h1 : (ek == k) = false := by simp [hek]
      simp only [List.filter_cons, h1, Bool.not_false, if_true, List.lookup_cons, ih]

theorem FlowT.get_set (f : FlowT) (u v : Nat) (x : Int) (a b : Nat) :
    (f.set u v x).get a b = if a = u ∧ b = v then x else f.get a b := by
  unfold FlowT.get FlowT.set
  by_cases h : a = u ∧ b = v
  · obtain ⟨rfl, rfl⟩ := h
    simp
  · have hne : (a, b) ≠ (u, v) := by
      intro hh; apply h; cases hh; exact ⟨rfl, rfl⟩
    have h1 : ((a, b) == (u, v)) = false := by simpa using h
    rw [List.lookup_cons, h1, lookup_filter_ne f (u, v) (a, b) hne]
    simp [h]

/-! ### dedup -/

theorem mem_dedupAux (xs acc : List Nat) (y : Nat) :
    y ∈ dedupAux xs acc ↔ y ∈ acc ∨ y ∈ xs := by
  induction xs generalizing acc with
  | nil => simp [dedupAux]
  | cons x xs ih =>
    unfold dedupAux
    split
    · rename_i h
      rw [ih]
      have hx : x ∈ acc := by simpa using h
      constructor
      · rintro (h | h)
        · exact Or.inl h
        · exact Or.inr (List.mem_cons_of_mem _ h)
      · rintro (h | h)
        · exact Or.inl h
        · rcases List.mem_cons.1 h with h | h
          · exact Or.inl (h ▸ hx)
          · exact Or.inr h
    · rw [ih]
      simp only [List.mem_append, List.mem_cons, List.not_mem_nil, or_false, or_assoc]

theorem mem_dedup (l : List Nat) (y : Nat) : y ∈ dedup l ↔ y ∈ l := by
  unfold dedup; rw [mem_dedupAux]; simp

end Solvor.Flow
