/-!
Flow: shared executable basics (no Mathlib imports).

* `lsum l g`   – Σ_{x ∈ l} g x over a list of node indices (nodes are `Nat`, labels are mapped by
  the harness),
* `FlowT`      – Python's `flow[u][v]` `defaultdict(int)` table as an association list with
  `get` (missing key = 0) and `set` (replace),
* `dedup`      – insertion-ordered key set of a Python `dict` (first occurrence wins).
-/
namespace Solvor.Flow

/-- Σ_{x ∈ l} g x -/
def lsum : List Nat → (Nat → Int) → Int
  | [], _ => 0
  | x :: xs, g => g x + lsum xs g

/-- `flow[u][v]` table; a missing key reads 0 (defaultdict(int)). -/
abbrev FlowT := List ((Nat × Nat) × Int)

def FlowT.get (f : FlowT) (u v : Nat) : Int :=
  match f.lookup (u, v) with
  | some x => x
  | none => 0

def FlowT.set (f : FlowT) (u v : Nat) (x : Int) : FlowT :=
  ((u, v), x) :: f.filter (fun e => !(e.1 == (u, v)))

/-- the positive entries, as `(u, v, x)` triples (the returned `flows` dict, unordered) -/
def FlowT.positive (f : FlowT) : List (Nat × Nat × Int) :=
  (f.filter (fun e => decide (0 < e.2))).map fun e => (e.1.1, e.1.2, e.2)

/-- keys of a Python dict in insertion order: first occurrences of a key sequence -/
def dedupAux : List Nat → List Nat → List Nat
  | [], acc => acc
  | x :: xs, acc => if acc.contains x then dedupAux xs acc else dedupAux xs (acc ++ [x])

def dedup (l : List Nat) : List Nat := dedupAux l []

end Solvor.Flow
