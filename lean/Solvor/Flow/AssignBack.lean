import Solvor.Flow.AssignLemmas
/-! Flow: a feasible flow of the assignment network is an assignment of the same cost
(the converse of `assign_feasible`). -/
namespace Solvor.Flow

/-- sum of `F index arc` over a list of arcs whose first element has index `k` -/
def asumI : List Arc → Nat → (Nat → Arc → Int) → Int
  | [], _, _ => 0
  | a :: as, k, F => F k a + asumI as (k + 1) F

theorem asumI_append (l₁ l₂ : List Arc) (k : Nat) (F : Nat → Arc → Int) :
    asumI (l₁ ++ l₂) k F = asumI l₁ k F + asumI l₂ (k + l₁.length) F := by
  induction l₁ generalizing k with
  | nil => simp [asumI]
  | cons a as ih =>
    simp only [List.cons_append, asumI, ih, List.length_cons]
    have : k + 1 + as.length = k + (as.length + 1) := by omega
    rw [this]; ring

theorem lsum_range_succ (n : Nat) (g : Nat → Int) :
    lsum (List.range (n + 1)) g = lsum (List.range n) g + g n := by
  rw [List.range_succ, lsum_append]; simp

theorem asumI_map_range (n : Nat) (h : Nat → Arc) (k : Nat) (F : Nat → Arc → Int) :
    asumI ((List.range n).map h) k F = lsum (List.range n) (fun i => F (k + i) (h i)) := by
  induction n with
  | zero => rfl
  | succ n ih =>
    rw [lsum_range_succ, List.range_succ, List.map_append, asumI_append, ih]
    simp [asumI]

theorem asumI_flatMap_range (n m : Nat) (g : Nat → Nat → Arc) (k : Nat) (F : Nat → Arc → Int) :
    asumI ((List.range n).flatMap (fun i => (List.range m).map (g i))) k F =
      lsum (List.range n) (fun i => lsum (List.range m) (fun j => F (k + i * m + j) (g i j))) := by
  induction n with
  | zero => rfl
  | succ n ih =>
    have hlen : ((List.range n).flatMap (fun i => (List.range m).map (g i))).length = n * m := by
      clear ih
      induction n with
      | zero => simp
      | succ n ih2 =>
        rw [List.range_succ, List.flatMap_append, List.length_append, ih2]
        simp [Nat.succ_mul]
    rw [lsum_range_succ, List.range_succ, List.flatMap_append, asumI_append, ih, hlen]
    simp only [List.flatMap_cons, List.flatMap_nil, List.append_nil]
    rw [asumI_map_range]

theorem lsum_range_getD_idx (l : List Arc) (d : Arc) (F : Nat → Arc → Int) :
    lsum (List.range l.length) (fun i => F i (l.getD i d)) = asumI l 0 F := by
  have gen : ∀ (l : List Arc) (k : Nat),
      lsum (List.range l.length) (fun i => F (k + i) (l.getD i d)) = asumI l k F := by
    intro l
    induction l with
    | nil => intro k; rfl
    | cons a as ih =>
      intro k
      rw [List.length_cons, List.range_succ_eq_map, lsum_cons, lsum_map]
      simp only [List.getD_cons_zero, List.getD_cons_succ, asumI, Nat.add_zero]
      have := ih (k + 1)
      rw [← this]
      congr 1
      apply lsum_congr
      intro i _
      have : k + (i + 1) = k + 1 + i := by omega
      rw [this]
  have := gen l 0
  simpa using this

theorem length_flatMap_range_map (n m : Nat) (g : Nat → Nat → Arc) :
    ((List.range n).flatMap (fun i => (List.range m).map (g i))).length = n * m := by
  induction n with
  | zero => simp
  | succ n ih =>
    rw [List.range_succ, List.flatMap_append, List.length_append, ih]
    simp [Nat.succ_mul]

theorem length_assignArcs (n m : Nat) (C : Nat → Nat → Int) :
    (assignArcs n m C).length = n + (n * m + m) := by
  unfold assignArcs
  rw [List.length_append, List.length_append, List.length_map, List.length_map, List.length_range,
    List.length_range, length_flatMap_range_map n m (fun i j => (⟨2 + i, 2 + n + j, 1, C i j⟩ : Arc))]

section Back
variable {n m : Nat} (C : Nat → Nat → Int) (y : Nat → Int)

/-- Σ_i F i (arc i) over the assignment network, by groups, with the arc indices explicit -/
theorem lsum_assign_idx (F : Nat → Arc → Int) :
    lsum (List.range (assignInst n m C).m) (fun i => F i ((assignInst n m C).arc i)) =
      lsum (List.range n) (fun i => F i ⟨0, 2 + i, 1, 0⟩) +
      (lsum (List.range n) (fun i => lsum (List.range m) (fun j =>
          F (n + i * m + j) ⟨2 + i, 2 + n + j, 1, C i j⟩)) +
       lsum (List.range m) (fun j => F (n + n * m + j) ⟨2 + n + j, 1, 1, 0⟩)) := by
  show lsum (List.range (assignArcs n m C).length) (fun i => F i ((assignArcs n m C).getD i _)) = _
  rw [lsum_range_getD_idx]
  unfold assignArcs
  rw [asumI_append, asumI_append, asumI_map_range, asumI_map_range,
    asumI_flatMap_range n m (fun i j => (⟨2 + i, 2 + n + j, 1, C i j⟩ : Arc)),
    List.length_map, List.length_range,
    length_flatMap_range_map n m (fun i j => (⟨2 + i, 2 + n + j, 1, C i j⟩ : Arc))]
  simp only [Nat.zero_add]

theorem back_outF (v : Nat) :
    (assignInst n m C).outF y v =
      lsum (List.range n) (fun i => if 0 = v then y i else 0) +
      (lsum (List.range n) (fun i => lsum (List.range m) (fun j =>
          if 2 + i = v then y (n + i * m + j) else 0)) +
       lsum (List.range m) (fun j => if 2 + n + j = v then y (n + n * m + j) else 0)) := by
  unfold Inst.outF
  exact lsum_assign_idx C (fun i a => if a.src = v then y i else 0)

theorem back_inF (v : Nat) :
    (assignInst n m C).inF y v =
      lsum (List.range n) (fun i => if 2 + i = v then y i else 0) +
      (lsum (List.range n) (fun i => lsum (List.range m) (fun j =>
          if 2 + n + j = v then y (n + i * m + j) else 0)) +
       lsum (List.range m) (fun j => if 1 = v then y (n + n * m + j) else 0)) := by
  unfold Inst.inF
  exact lsum_assign_idx C (fun i a => if a.tgt = v then y i else 0)

theorem back_costF :
    (assignInst n m C).costF y =
      lsum (List.range n) (fun i => lsum (List.range m) (fun j => C i j * y (n + i * m + j))) := by
  unfold Inst.costF
  rw [lsum_assign_idx C (fun i a => a.cost * y i)]
  have z1 : lsum (List.range n) (fun i => (⟨0, 2 + i, 1, 0⟩ : Arc).cost * y i) = 0 :=
    lsum_eq_zero (fun i _ => by simp)
  have z2 : lsum (List.range m) (fun j => (⟨2 + n + j, 1, 1, 0⟩ : Arc).cost * y (n + n * m + j)) = 0 :=
    lsum_eq_zero (fun j _ => by simp)
  rw [z1, z2]
  simp

end Back

/-- two distinct members with value 1 push a non-negative sum to at least 2 -/
theorem lsum_ge_two {l : List Nat} (hnd : l.Nodup) {g : Nat → Int} (hg : ∀ x ∈ l, 0 ≤ g x)
    {a b : Nat} (ha : a ∈ l) (hb : b ∈ l) (hab : a ≠ b) (h1 : g a = 1) (h2 : g b = 1) :
    2 ≤ lsum l g := by
  have e : lsum l g = lsum l (fun x => g x - (if x = a then 1 else 0) - (if x = b then 1 else 0)) + 1 + 1 := by
    rw [lsum_sub, lsum_sub, lsum_ite_eq hnd ha, lsum_ite_eq hnd hb]; ring
  have : 0 ≤ lsum l (fun x => g x - (if x = a then 1 else 0) - (if x = b then 1 else 0)) := by
    apply lsum_nonneg
    intro x hx
    by_cases hxa : x = a
    · subst hxa; simp [hab, h1]
    · by_cases hxb : x = b
      · subst hxb; simp [hxa, h2]
      · simp [hxa, hxb]; exact hg x hx
  omega

/-- weaker form of `row_sum`: only the range of `α i` is needed -/
theorem row_sum' {m : Nat} {α : Nat → Option Nat} {i : Nat} (hr : ∀ j, α i = some j → j < m)
    (w : Nat → Int) :
    lsum (List.range m) (fun j => w j * ind (α i == some j)) =
      match α i with
      | some j => w j
      | none => 0 := by
  cases hα : α i with
  | none =>
    apply lsum_eq_zero
    intro j _
    simp [ind]
  | some j0 =>
    have hj0 : j0 < m := hr j0 hα
    rw [lsum_single List.nodup_range (List.mem_range.2 hj0)]
    · simp [ind]
    · intro j _ hne
      have : ¬ (j0 = j) := fun e => hne e.symm
      simp [ind, this]

/-- a feasible flow of the assignment network is an assignment of the same cost -/
theorem assign_of_feasible {n m : Nat} (C : Nat → Nat → Int) {y : Nat → Int}
    (hy : (assignInst n m C).Feas y) :
    ∃ α, ValidAssign n m α ∧ assignCost n C α = (assignInst n m C).costF y := by
  -- the three groups of arc flows
  let z : Nat → Nat → Int := fun i j => y (n + i * m + j)
  have hM : (assignInst n m C).m = n + (n * m + m) := length_assignArcs n m C
  have idxlt : ∀ i < n, ∀ j < m, n + i * m + j < (assignInst n m C).m := by
    intro i hi j hj
    rw [hM]
    have : (i + 1) * m ≤ n * m := Nat.mul_le_mul_right m hi
    have : i * m + m = (i + 1) * m := by ring
    omega
  have bnd : ∀ k < (assignInst n m C).m, 0 ≤ y k ∧ y k ≤ 1 := by
    intro k hk
    have := hy.hi k hk
    rw [(mem_assignArcs (assignInst_arc_mem hk)).1] at this
    exact ⟨hy.lo k hk, this⟩
  have z0 : ∀ i < n, ∀ j < m, 0 ≤ z i j ∧ z i j ≤ 1 := fun i hi j hj => bnd _ (idxlt i hi j hj)
  have s0 : ∀ i < n, 0 ≤ y i ∧ y i ≤ 1 := fun i hi => bnd i (by rw [hM]; omega)
  have t0 : ∀ j < m, 0 ≤ y (n + n * m + j) ∧ y (n + n * m + j) ≤ 1 := fun j hj => bnd _ (by rw [hM]; omega)
  have hN : (assignInst n m C).n = 2 + n + m := rfl
  have supv : ∀ v, v < 2 + n + m → (assignInst n m C).sup v =
      (if v = 0 then ((min n m : Nat) : Int) else 0) - (if v = 1 then ((min n m : Nat) : Int) else 0) :=
    fun v hv => ofST_sup _ _ _ _ _ hv
  -- balance at the source: Σ_i s_i = k
  have balS : lsum (List.range n) y = ((min n m : Nat) : Int) := by
    have b := hy.bal 0 (by rw [hN]; omega)
    rw [back_outF, back_inF, supv 0 (by omega)] at b
    have o1 : lsum (List.range n) (fun i => if 0 = 0 then y i else 0) = lsum (List.range n) y := by simp
    have o2 : lsum (List.range n) (fun i => lsum (List.range m) (fun j =>
        if 2 + i = 0 then y (n + i * m + j) else 0)) = 0 :=
      lsum_eq_zero (fun i _ => lsum_ite_false _ (fun j _ => by omega))
    have o3 : lsum (List.range m) (fun j => if 2 + n + j = 0 then y (n + n * m + j) else 0) = 0 :=
      lsum_ite_false _ (fun j _ => by omega)
    have i1 : lsum (List.range n) (fun i => if 2 + i = 0 then y i else 0) = 0 :=
      lsum_ite_false _ (fun j _ => by omega)
    have i2 : lsum (List.range n) (fun i => lsum (List.range m) (fun j =>
        if 2 + n + j = 0 then y (n + i * m + j) else 0)) = 0 :=
      lsum_eq_zero (fun i _ => lsum_ite_false _ (fun j _ => by omega))
    have i3 : lsum (List.range m) (fun j => if 1 = 0 then y (n + n * m + j) else 0) = 0 :=
      lsum_ite_false _ (fun j _ => by omega)
    rw [o1, o2, o3, i1, i2, i3] at b
    simp at b
    omega
  -- balance at a row node: Σ_j z i j = s_i
  have balL : ∀ i0 < n, lsum (List.range m) (fun j => z i0 j) = y i0 := by
    intro i0 hi0
    have b := hy.bal (2 + i0) (by rw [hN]; omega)
    rw [back_outF, back_inF, supv (2 + i0) (by omega)] at b
    have o1 : lsum (List.range n) (fun i => if 0 = 2 + i0 then y i else 0) = 0 :=
      lsum_ite_false _ (fun j _ => by omega)
    have o2 : lsum (List.range n) (fun i => lsum (List.range m) (fun j =>
        if 2 + i = 2 + i0 then y (n + i * m + j) else 0)) = lsum (List.range m) (fun j => z i0 j) := by
      have : ∀ i, lsum (List.range m) (fun j => if 2 + i = 2 + i0 then y (n + i * m + j) else 0)
          = if 2 + i = 2 + i0 then lsum (List.range m) (fun j => y (n + i * m + j)) else 0 := by
        intro i; split
        · rfl
        · exact lsum_zero _
      rw [lsum_congr (fun i _ => this i)]
      exact lsum_ite_shift 2 i0 n hi0 (fun i => lsum (List.range m) (fun j => y (n + i * m + j)))
    have o3 : lsum (List.range m) (fun j => if 2 + n + j = 2 + i0 then y (n + n * m + j) else 0) = 0 :=
      lsum_ite_false _ (fun j _ => by omega)
    have i1 : lsum (List.range n) (fun i => if 2 + i = 2 + i0 then y i else 0) = y i0 :=
      lsum_ite_shift 2 i0 n hi0 y
    have i2 : lsum (List.range n) (fun i => lsum (List.range m) (fun j =>
        if 2 + n + j = 2 + i0 then y (n + i * m + j) else 0)) = 0 :=
      lsum_eq_zero (fun i _ => lsum_ite_false _ (fun j _ => by omega))
    have i3 : lsum (List.range m) (fun j => if 1 = 2 + i0 then y (n + n * m + j) else 0) = 0 :=
      lsum_ite_false _ (fun j _ => by omega)
    rw [o1, o2, o3, i1, i2, i3] at b
    have c0 : ¬ (2 + i0 = 0) := by omega
    have c1 : ¬ (2 + i0 = 1) := by omega
    simp only [c0, c1, if_false] at b
    omega
  -- balance at a column node: Σ_i z i j = t_j
  have balR : ∀ j0 < m, lsum (List.range n) (fun i => z i j0) = y (n + n * m + j0) := by
    intro j0 hj0
    have b := hy.bal (2 + n + j0) (by rw [hN]; omega)
    rw [back_outF, back_inF, supv (2 + n + j0) (by omega)] at b
    have o1 : lsum (List.range n) (fun i => if 0 = 2 + n + j0 then y i else 0) = 0 :=
      lsum_ite_false _ (fun j _ => by omega)
    have o2 : lsum (List.range n) (fun i => lsum (List.range m) (fun j =>
        if 2 + i = 2 + n + j0 then y (n + i * m + j) else 0)) = 0 :=
      lsum_eq_zero (fun i hi => lsum_ite_false _ (fun j _ => by have := List.mem_range.1 hi; omega))
    have o3 : lsum (List.range m) (fun j => if 2 + n + j = 2 + n + j0 then y (n + n * m + j) else 0)
        = y (n + n * m + j0) :=
      lsum_ite_shift (2 + n) j0 m hj0 (fun j => y (n + n * m + j))
    have i1 : lsum (List.range n) (fun i => if 2 + i = 2 + n + j0 then y i else 0) = 0 :=
      lsum_ite_false _ (fun i hi => by have := List.mem_range.1 hi; omega)
    have i2 : lsum (List.range n) (fun i => lsum (List.range m) (fun j =>
        if 2 + n + j = 2 + n + j0 then y (n + i * m + j) else 0)) = lsum (List.range n) (fun i => z i j0) :=
      lsum_congr (fun i _ => lsum_ite_shift (2 + n) j0 m hj0 (fun j => y (n + i * m + j)))
    have i3 : lsum (List.range m) (fun j => if 1 = 2 + n + j0 then y (n + n * m + j) else 0) = 0 :=
      lsum_ite_false _ (fun j _ => by omega)
    rw [o1, o2, o3, i1, i2, i3] at b
    have c0 : ¬ (2 + n + j0 = 0) := by omega
    have c1 : ¬ (2 + n + j0 = 1) := by omega
    simp only [c0, c1, if_false] at b
    omega
  -- the assignment: the first column carrying a unit
  let α : Nat → Option Nat := fun i => (List.range m).find? (fun j => z i j == 1)
  have αrange : ∀ i j, α i = some j → j < m := by
    intro i j h
    exact List.mem_range.1 (List.mem_of_find?_eq_some h)
  have αone : ∀ i j, α i = some j → z i j = 1 := by
    intro i j h
    have := List.find?_some h
    simpa using this
  -- in a row at most one unit
  have rowuniq : ∀ i < n, ∀ j < m, ∀ j' < m, z i j = 1 → z i j' = 1 → j = j' := by
    intro i hi j hj j' hj' h1 h2
    by_contra hne
    have := lsum_ge_two List.nodup_range (g := fun j => z i j) (fun x hx => (z0 i hi x (List.mem_range.1 hx)).1)
      (List.mem_range.2 hj) (List.mem_range.2 hj') hne h1 h2
    rw [balL i hi] at this
    have := (s0 i hi).2
    omega
  have key : ∀ i < n, ∀ j < m, ind (α i == some j) = z i j := by
    intro i hi j hj
    have hz := z0 i hi j hj
    cases hα : α i with
    | none =>
      have hnone := List.find?_eq_none.1 hα j (List.mem_range.2 hj)
      have : z i j ≠ 1 := by simpa using hnone
      simp [ind]; omega
    | some j' =>
      have hj' := αrange i j' hα
      have h1 := αone i j' hα
      by_cases e : j' = j
      · subst e; simp [ind, h1]
      · have : z i j ≠ 1 := fun h => e (rowuniq i hi j' hj' j hj h1 h)
        have e' : ¬ (some j' = some j) := fun h => e (Option.some.inj h)
        simp [ind, e]; omega
  have hvalid : ValidAssign n m α := by
    refine ⟨fun i _ j h => αrange i j h, ?_, ?_⟩
    · intro i hi i' hi' j h h'
      have hj := αrange i j h
      by_contra hne
      have := lsum_ge_two List.nodup_range (g := fun i => z i j)
        (fun x hx => (z0 x (List.mem_range.1 hx) j hj).1)
        (List.mem_range.2 hi) (List.mem_range.2 hi') hne (αone i j h) (αone i' j h')
      rw [balR j hj] at this
      have := (t0 j hj).2
      omega
    · rw [← balS]
      apply lsum_congr
      intro i hi
      have hin := List.mem_range.1 hi
      rw [← balL i hin]
      have r := row_sum' (α := α) (i := i) (αrange i) (fun _ => 1)
      simp only [Int.one_mul] at r
      have e : lsum (List.range m) (fun j => z i j) = lsum (List.range m) (fun j => ind (α i == some j)) :=
        lsum_congr (fun j hj => (key i hin j (List.mem_range.1 hj)).symm)
      rw [e, r]
      cases α i <;> simp [ind]
  refine ⟨α, hvalid, ?_⟩
  rw [back_costF]
  unfold assignCost
  apply lsum_congr
  intro i hi
  have hin := List.mem_range.1 hi
  have r := row_sum hvalid hin (fun j => C i j)
  have e : lsum (List.range m) (fun j => C i j * y (n + i * m + j)) =
      lsum (List.range m) (fun j => C i j * ind (α i == some j)) :=
    lsum_congr (fun j hj => by rw [key i hin j (List.mem_range.1 hj)])
  rw [e, r]
  cases α i <;> rfl

end Solvor.Flow
