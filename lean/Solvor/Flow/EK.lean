import Solvor.Flow.Basic
/-!
Flow.EK: mirror of `solvor/flow.py: max_flow` (Edmonds-Karp) and the verified max-flow checker.

The mirror follows the code statement by statement:

* `capacity[u][v] += cap; capacity[v][u] += 0` in arc order  ↦  `capOf` (pooled capacity) and
  `adjOf` (key order of `capacity[x]`: first touches, forward and – after the repair proposed in
  `proposed_fixes/C08_reverse_residual_keys.diff` – reverse keys; `rev := false` gives the key
  sets of the unrepaired code),
* nested `bfs()`  ↦  `bfs`/`expand` (queue of `(node, path)`, visited list, `node == sink` tested
  when a node is popped, neighbours in key order, `residual = cap − flow[u][v] + flow[v][u]`),
* the augmentation loop  ↦  `pathFlow` (running minimum starting from `inf` = `none`) and
  `aug`/`step` (cancel the reverse flow first, then push the rest forward),
* `while path := bfs()`  ↦  `loop` on fuel (`cutCap {s} + 1`; `ek_terminates` shows it is never
  exhausted).

No Mathlib imports.
-/
namespace Solvor.Flow

structure Net where
  V   : List Nat              -- all node indices
  cap : Nat → Nat → Int       -- pooled capacity `capacity[u][v]`
  adj : Nat → List Nat        -- keys of `capacity[u]` in insertion order
  s   : Nat
  t   : Nat

namespace Net
variable (N : Net)

/-- `capacity[u][v] - flow[u][v] + flow[v][u]` -/
def res (f : FlowT) (u v : Nat) : Int := N.cap u v - f.get u v + f.get v u

/-- the `for neighbor in capacity[node]` loop of `bfs()`; state = (visited, queue) -/
def expand (f : FlowT) (node : Nat) (path : List Nat) :
    List Nat → List Nat × List (Nat × List Nat) → List Nat × List (Nat × List Nat)
  | [], st => st
  | nb :: rest, (vis, q) =>
    if !vis.contains nb && decide (0 < N.res f node nb) then
      expand f node path rest (vis ++ [nb], q ++ [(nb, path ++ [nb])])
    else expand f node path rest (vis, q)

/-- `bfs()`: returns the path (or `none`) together with the visited set at that moment -/
def bfs (f : FlowT) : Nat → List Nat → List (Nat × List Nat) → Option (List Nat) × List Nat
  | 0, vis, _ => (none, vis)
  | _ + 1, vis, [] => (none, vis)
  | fuel + 1, vis, (node, path) :: q =>
    if node = N.t then (some path, vis)
    else
      let st := N.expand f node path (N.adj node) (vis, q)
      bfs f fuel st.1 st.2

/-- `path_flow = min(path_flow, residual)` over `zip(path, path[1:])`, `none` = `inf` -/
def pathFlow (f : FlowT) : List Nat → Option Int → Option Int
  | u :: v :: r, acc =>
    pathFlow f (v :: r) (some (match acc with
      | none => N.res f u v
      | some m => min m (N.res f u v)))
  | _, acc => acc

/-- one iteration of the augmentation `for u, v in zip(path, path[1:])` -/
def step (f : FlowT) (u v : Nat) (d : Int) : FlowT :=
  if 0 < f.get v u then
    let r := min d (f.get v u)
    let f1 := f.set v u (f.get v u - r)
    f1.set u v (f1.get u v + (d - r))
  else f.set u v (f.get u v + d)

def aug (f : FlowT) (d : Int) : List Nat → FlowT
  | u :: v :: r => aug (step f u v d) d (v :: r)
  | _ => f

/-- number of arcs of the path on which reverse flow gets cancelled (non-triviality only) -/
def cancels (f : FlowT) : List Nat → Nat
  | u :: v :: r => (if 0 < f.get v u then 1 else 0) + cancels f (v :: r)
  | _ => 0

/-- number of arcs of the path on which the reverse flow is cancelled only partly and the rest of
`path_flow` is pushed forward (`0 < flow[v][u] < path_flow`; coverage counter only) -/
def partials (f : FlowT) (d : Int) : List Nat → Nat
  | u :: v :: r => (if 0 < f.get v u ∧ f.get v u < d then 1 else 0) + partials f d (v :: r)
  | _ => 0

/-- coverage bookkeeping of the mirror (not proof relevant): counters and the arcs whose flow has
been cancelled (partly or fully) through their reverse residual arc so far -/
structure Cov where
  cancels   : Nat := 0
  partials  : Nat := 0
  repush    : Nat := 0                  -- forward pushes on an arc that was cancelled earlier
  cancelled : List (Nat × Nat) := []

/-- arcs of the path that push flow forward (`path_flow` exceeds the reverse flow) although flow
on them was cancelled in an earlier augmentation -/
def repushes (f : FlowT) (d : Int) (cancelled : List (Nat × Nat)) : List Nat → Nat
  | u :: v :: r => (if f.get v u < d ∧ cancelled.contains (u, v) then 1 else 0) + repushes f d cancelled (v :: r)
  | _ => 0

/-- the arcs `(v, u)` whose flow this augmentation cancels through the residual arc `u → v` -/
def cancelledBy (f : FlowT) : List Nat → List (Nat × Nat)
  | u :: v :: r => (if 0 < f.get v u then [(v, u)] else []) ++ cancelledBy f (v :: r)
  | _ => []

def Cov.step (c : Cov) (f : FlowT) (d : Int) (p : List Nat) : Cov :=
  ⟨c.cancels + Net.cancels f p, c.partials + Net.partials f d p, c.repush + repushes f d c.cancelled p,
    cancelledBy f p ++ c.cancelled⟩

/-- capacity of the cut (S, V \ S) on pooled capacities -/
def cutCap (S : List Nat) : Int :=
  lsum (N.V.filter fun u => S.contains u) fun u =>
    lsum (N.V.filter fun v => !S.contains v) fun v => N.cap u v

structure Out where
  flow    : FlowT
  value   : Int          -- `total_flow`
  vis     : List Nat     -- visited set of the last `bfs()` (the one that returned None)
  augs    : Nat          -- `iterations`
  cancels : Nat
  pcancel : Nat          -- arcs with a partial cancellation (`0 < flow[v][u] < path_flow`)
  repush  : Nat          -- forward pushes on an arc whose flow was cancelled earlier
  done    : Bool         -- false: fuel exhausted / `inf` path flow (never, by `ek_terminates`)

def bfsFuel : Nat := 2 * N.V.length + 2

def loop : Nat → FlowT → Int → Nat → Cov → Out
  | 0, f, tot, k, c => ⟨f, tot, [], k, c.cancels, c.partials, c.repush, false⟩
  | n + 1, f, tot, k, c =>
    match N.bfs f N.bfsFuel [N.s] [(N.s, [N.s])] with
    | (some p, _) =>
      match N.pathFlow f p none with
      | some d => loop n (aug f d p) (tot + d) (k + 1) (c.step f d p)
      | none => ⟨f, tot, [], k, c.cancels, c.partials, c.repush, false⟩
    | (none, vis) => ⟨f, tot, vis, k, c.cancels, c.partials, c.repush, true⟩

def maxFlow : Out := N.loop ((N.cutCap [N.s]).toNat + 1) [] 0 0 {}

/-! ### Verified checker (T-spec side) -/

def inflow (g : Nat → Nat → Int) (v : Nat) : Int := lsum N.V fun u => g u v
def outflow (g : Nat → Nat → Int) (v : Nat) : Int := lsum N.V fun u => g v u
/-- net flow into the sink -/
def value (g : Nat → Nat → Int) : Int := N.inflow g N.t - N.outflow g N.t

/-- every key of the dict is a pair of known nodes -/
def chkKeys (f : FlowT) : Bool := f.all fun e => N.V.contains e.1.1 && N.V.contains e.1.2
def chkCap (f : FlowT) : Bool :=
  N.V.all fun u => N.V.all fun v => decide (0 ≤ f.get u v) && decide (f.get u v ≤ N.cap u v)
def chkCons (f : FlowT) : Bool :=
  N.V.all fun v => v == N.s || v == N.t || N.inflow f.get v == N.outflow f.get v
def chkValue (f : FlowT) (val : Int) : Bool := N.value f.get == val
/-- `S` is a saturated s-t cut for `f` -/
def chkCut (f : FlowT) (S : List Nat) : Bool :=
  S.contains N.s && !S.contains N.t &&
  N.V.all fun u => N.V.all fun v =>
    !(S.contains u && !S.contains v) || (f.get u v == N.cap u v && f.get v u == 0)

def chkMaxFlow (f : FlowT) (S : List Nat) (val : Int) : Bool :=
  N.chkCap f && N.chkCons f && N.chkValue f val && N.chkCut f S

end Net

/-! ### From the `graph` argument -/

/-- arcs `(u, v, cap)` in the order `for u in graph: for v, cap, *_ in graph[u]` -/
abbrev Arcs := List (Nat × Nat × Int)

def capOf : Arcs → Nat → Nat → Int
  | [], _, _ => 0
  | a :: as, u, v => (if a.1 = u ∧ a.2.1 = v then a.2.2 else 0) + capOf as u v

/-- keys of `capacity[x]` in the order they are first touched -/
def touched (rev : Bool) (arcs : Arcs) (x : Nat) : List Nat :=
  arcs.flatMap fun a =>
    (if a.1 = x then [a.2.1] else []) ++ (if rev && a.2.1 = x then [a.1] else [])

def adjOf (rev : Bool) (arcs : Arcs) (x : Nat) : List Nat := dedup (touched rev arcs x)

/-- `rev = true`: the code with reverse residual keys (repaired); `rev = false`: unrepaired -/
def Net.ofArcs (rev : Bool) (n : Nat) (arcs : Arcs) (s t : Nat) : Net :=
  ⟨List.range n, capOf arcs, adjOf rev arcs, s, t⟩

end Solvor.Flow
