import Solvor.Flow.Drive
def main : IO Unit := Solvor.Proto.serve Solvor.Flow.handle
