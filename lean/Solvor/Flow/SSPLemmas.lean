import Solvor.Flow.SumLemmas
import Solvor.Flow.SSP
import Mathlib.Tactic.Ring
import Mathlib.Tactic.Linarith
/-! Flow.SSP: specification of min-cost flows and the certificate arguments. -/
namespace Solvor.Flow

theorem lsum_mul_left (l : List Nat) (c : Int) (g : Nat → Int) :
    c * lsum l g = lsum l (fun x => c * g x) := by
  induction l with
  | nil => simp
  | cons x xs ih => simp only [lsum_cons, ← ih]; ring

/-- Σ_{v ∈ l} (if a = v then d v else 0) for a duplicate-free `l` -/
theorem lsum_ite_eq' {l : List Nat} (hnd : l.Nodup) (a : Nat) (d : Nat → Int) :
    lsum l (fun v => if a = v then d v else 0) = if a ∈ l then d a else 0 := by
  by_cases ha : a ∈ l
  · rw [if_pos ha, lsum_single hnd ha (g := fun v => if a = v then d v else 0)]
    · simp
    · intro x _ hx
      have : ¬ (a = x) := fun h => hx h.symm
      simp [this]
  · rw [if_neg ha]
    exact lsum_eq_zero (fun x hx => by
      have : ¬ (a = x) := fun h => ha (h ▸ hx)
      simp [this])

namespace Inst
variable (I : Inst)

/-- every arc joins two nodes of the instance -/
def Valid : Prop := ∀ i < I.m, (I.arc i).src < I.n ∧ (I.arc i).tgt < I.n

/-- `x` is a feasible flow: bounds on every arc, supply met exactly at every node -/
structure Feas (x : Nat → Int) : Prop where
  lo  : ∀ i < I.m, 0 ≤ x i
  hi  : ∀ i < I.m, x i ≤ (I.arc i).cap
  bal : ∀ v < I.n, I.outF x v - I.inF x v = I.sup v

theorem valid_iff : I.valid = true ↔ I.Valid := by
  unfold valid Valid arc m
  simp only [List.all_eq_true, Bool.and_eq_true, decide_eq_true_eq]
  constructor
  · intro h i hi
    have hm : I.arcs[i] ∈ I.arcs := List.getElem_mem hi
    have := h _ hm
    simpa [List.getD, List.getElem?_eq_getElem hi] using this
  · intro h a ha
    obtain ⟨i, hi, rfl⟩ := List.getElem_of_mem ha
    have := h i hi
    simpa [List.getD, List.getElem?_eq_getElem hi] using this

/-! ### arcs ↔ nodes exchange of sums -/

/-- Σ_i p(src i)·z_i = Σ_v p(v)·out_z(v), summing `v` over any duplicate-free list -/
theorem sum_src (z p : Nat → Int) (l : List Nat) (hl : l.Nodup) :
    lsum l (fun v => p v * I.outF z v) =
      lsum (List.range I.m) (fun i => if (I.arc i).src ∈ l then p (I.arc i).src * z i else 0) := by
  unfold outF
  have e : ∀ v, p v * lsum (List.range I.m) (fun i => if (I.arc i).src = v then z i else 0)
      = lsum (List.range I.m) (fun i => if (I.arc i).src = v then p v * z i else 0) := by
    intro v
    rw [lsum_mul_left]
    apply lsum_congr
    intro i _
    split <;> simp
  rw [lsum_congr (fun v _ => e v), lsum_comm]
  apply lsum_congr
  intro i _
  exact lsum_ite_eq' hl (I.arc i).src (fun v => p v * z i)

theorem sum_tgt (z p : Nat → Int) (l : List Nat) (hl : l.Nodup) :
    lsum l (fun v => p v * I.inF z v) =
      lsum (List.range I.m) (fun i => if (I.arc i).tgt ∈ l then p (I.arc i).tgt * z i else 0) := by
  unfold inF
  have e : ∀ v, p v * lsum (List.range I.m) (fun i => if (I.arc i).tgt = v then z i else 0)
      = lsum (List.range I.m) (fun i => if (I.arc i).tgt = v then p v * z i else 0) := by
    intro v
    rw [lsum_mul_left]
    apply lsum_congr
    intro i _
    split <;> simp
  rw [lsum_congr (fun v _ => e v), lsum_comm]
  apply lsum_congr
  intro i _
  exact lsum_ite_eq' hl (I.arc i).tgt (fun v => p v * z i)

/-! ### optimality certificate -/

/-- complementary slackness of `x` with the potentials `p` -/
def Slack (x p : Nat → Int) : Prop :=
  ∀ i < I.m, (x i < (I.arc i).cap → 0 ≤ I.rc p i) ∧ (0 < x i → I.rc p i ≤ 0)

theorem cost_le_of_slack (hv : I.Valid) {x y p : Nat → Int} (hx : I.Feas x) (hy : I.Feas y)
    (hs : I.Slack x p) : I.costF x ≤ I.costF y := by
  -- Σ_v p(v)·(out_y − in_y − out_x + in_x)(v) = 0
  have hnd : (List.range I.n).Nodup := List.nodup_range
  have hzero : lsum (List.range I.n) (fun v => p v * I.outF y v) - lsum (List.range I.n) (fun v => p v * I.inF y v)
      - (lsum (List.range I.n) (fun v => p v * I.outF x v) - lsum (List.range I.n) (fun v => p v * I.inF x v)) = 0 := by
    rw [← lsum_sub, ← lsum_sub, ← lsum_sub]
    apply lsum_eq_zero
    intro v hv'
    have hvn : v < I.n := List.mem_range.1 hv'
    have h1 := hx.bal v hvn
    have h2 := hy.bal v hvn
    have : I.outF y v - I.inF y v = I.outF x v - I.inF x v := by rw [h1, h2]
    have e : p v * I.outF y v - p v * I.inF y v - (p v * I.outF x v - p v * I.inF x v)
        = p v * ((I.outF y v - I.inF y v) - (I.outF x v - I.inF x v)) := by ring
    show p v * I.outF y v - p v * I.inF y v - (p v * I.outF x v - p v * I.inF x v) = 0
    rw [e, this]; ring
  rw [I.sum_src y p _ hnd, I.sum_tgt y p _ hnd, I.sum_src x p _ hnd, I.sum_tgt x p _ hnd,
    ← lsum_sub, ← lsum_sub, ← lsum_sub] at hzero
  -- cost y − cost x = Σ_i rc_i (y_i − x_i) ≥ 0
  have key : I.costF y - I.costF x = lsum (List.range I.m) (fun i => I.rc p i * (y i - x i)) := by
    unfold costF
    rw [← lsum_sub]
    have : lsum (List.range I.m) (fun i => I.rc p i * (y i - x i)) =
        lsum (List.range I.m) (fun i => I.rc p i * (y i - x i)) -
        lsum (List.range I.m) (fun i =>
          ((if (I.arc i).src ∈ List.range I.n then p (I.arc i).src * y i else 0) -
            (if (I.arc i).tgt ∈ List.range I.n then p (I.arc i).tgt * y i else 0)) -
          ((if (I.arc i).src ∈ List.range I.n then p (I.arc i).src * x i else 0) -
            (if (I.arc i).tgt ∈ List.range I.n then p (I.arc i).tgt * x i else 0))) := by
      rw [hzero]; ring
    rw [this, ← lsum_sub]
    apply lsum_congr
    intro i hi
    have him : i < I.m := List.mem_range.1 hi
    have h1 : (I.arc i).src ∈ List.range I.n := List.mem_range.2 (hv i him).1
    have h2 : (I.arc i).tgt ∈ List.range I.n := List.mem_range.2 (hv i him).2
    simp only [h1, h2, if_true]
    unfold rc
    ring
  have hnn : 0 ≤ lsum (List.range I.m) (fun i => I.rc p i * (y i - x i)) := by
    apply lsum_nonneg
    intro i hi
    have him : i < I.m := List.mem_range.1 hi
    obtain ⟨s1, s2⟩ := hs i him
    have x0 := hx.lo i him
    have x1 := hx.hi i him
    have y0 := hy.lo i him
    have y1 := hy.hi i him
    rcases Int.lt_trichotomy (I.rc p i) 0 with hneg | hz | hpos
    · -- rc < 0: x is at capacity, so y − x ≤ 0
      have hxc : x i = (I.arc i).cap := by
        by_contra hne
        have : x i < (I.arc i).cap := lt_of_le_of_ne x1 hne
        have := s1 this
        omega
      have : y i - x i ≤ 0 := by omega
      nlinarith
    · rw [hz]; simp
    · -- rc > 0: x is zero, so y − x ≥ 0
      have hx0 : x i = 0 := by
        by_contra hne
        have : 0 < x i := lt_of_le_of_ne x0 (Ne.symm hne)
        have := s2 this
        omega
      have : 0 ≤ y i - x i := by omega
      nlinarith
  omega

/-! ### infeasibility certificate -/

def supplyIn (S : List Nat) : List Nat := (List.range I.n).filter fun v => S.contains v

theorem mem_supplyIn {S : List Nat} {v : Nat} : v ∈ I.supplyIn S ↔ v < I.n ∧ v ∈ S := by
  simp [supplyIn]

/-- net supply of `S` = flow leaving `S` minus flow entering `S`, for every feasible flow -/
theorem supply_eq_cross (hv : I.Valid) (S : List Nat) {y : Nat → Int} (hy : I.Feas y) :
    I.supplyOf S = lsum (List.range I.m) (fun i =>
      (if S.contains (I.arc i).src then y i else 0) - (if S.contains (I.arc i).tgt then y i else 0)) := by
  have hnd : (I.supplyIn S).Nodup := List.nodup_range.filter _
  have h1 : I.supplyOf S = lsum (I.supplyIn S) (fun v => 1 * I.outF y v) - lsum (I.supplyIn S) (fun v => 1 * I.inF y v) := by
    unfold supplyOf
    rw [← lsum_sub]
    apply lsum_congr
    intro v hv'
    have := hy.bal v ((I.mem_supplyIn).1 hv').1
    show I.sup v = 1 * I.outF y v - 1 * I.inF y v
    omega
  rw [h1, I.sum_src y (fun _ => 1) _ hnd, I.sum_tgt y (fun _ => 1) _ hnd, ← lsum_sub]
  apply lsum_congr
  intro i hi
  have him : i < I.m := List.mem_range.1 hi
  have e1 : ((I.arc i).src ∈ I.supplyIn S) = (S.contains (I.arc i).src = true) := by
    rw [I.mem_supplyIn]; simp [(hv i him).1]
  have e2 : ((I.arc i).tgt ∈ I.supplyIn S) = (S.contains (I.arc i).tgt = true) := by
    rw [I.mem_supplyIn]; simp [(hv i him).2]
  simp only [e1, e2, Int.one_mul]

theorem supply_le_capOut (hv : I.Valid) (S : List Nat) {y : Nat → Int} (hy : I.Feas y) :
    I.supplyOf S ≤ I.capOutOf S := by
  rw [I.supply_eq_cross hv S hy]
  unfold capOutOf
  apply lsum_le
  intro i hi
  have him : i < I.m := List.mem_range.1 hi
  have y0 := hy.lo i him
  have y1 := hy.hi i him
  cases h1 : S.contains (I.arc i).src <;> cases h2 : S.contains (I.arc i).tgt <;> simp <;> omega

theorem neg_supply_le_capIn (hv : I.Valid) (S : List Nat) {y : Nat → Int} (hy : I.Feas y) :
    - I.supplyOf S ≤ I.capInOf S := by
  rw [I.supply_eq_cross hv S hy, ← lsum_neg]
  unfold capInOf
  apply lsum_le
  intro i hi
  have him : i < I.m := List.mem_range.1 hi
  have y0 := hy.lo i him
  have y1 := hy.hi i him
  cases h1 : S.contains (I.arc i).src <;> cases h2 : S.contains (I.arc i).tgt <;> simp <;> omega

/-! ### the Boolean checkers -/

theorem chkFeas_iff (x : List Int) :
    I.chkFeas x = true ↔ x.length = I.m ∧ I.Feas (fl x) := by
  unfold chkFeas
  simp only [Bool.and_eq_true, beq_iff_eq, List.all_eq_true, List.mem_range, decide_eq_true_eq]
  constructor
  · rintro ⟨⟨h0, h1⟩, h2⟩
    exact ⟨h0, fun i hi => (h1 i hi).1, fun i hi => (h1 i hi).2, h2⟩
  · rintro ⟨h0, h⟩
    exact ⟨⟨h0, fun i hi => ⟨h.lo i hi, h.hi i hi⟩⟩, h.bal⟩

theorem chkOpt_iff (x p : List Int) : I.chkOpt x p = true ↔ I.Slack (fl x) (fl p) := by
  unfold chkOpt Slack
  simp only [List.all_eq_true, List.mem_range, Bool.and_eq_true, Bool.or_eq_true,
    Bool.not_eq_eq_eq_not, Bool.not_true, decide_eq_false_iff_not, decide_eq_true_eq]
  constructor
  · intro h i hi
    obtain ⟨h1, h2⟩ := h i hi
    exact ⟨fun hc => h1.resolve_left (fun hn => hn hc), fun hc => h2.resolve_left (fun hn => hn hc)⟩
  · intro h i hi
    obtain ⟨h1, h2⟩ := h i hi
    refine ⟨?_, ?_⟩
    · by_cases hc : fl x i < (I.arc i).cap
      · exact Or.inr (h1 hc)
      · exact Or.inl hc
    · by_cases hc : 0 < fl x i
      · exact Or.inr (h2 hc)
      · exact Or.inl hc

end Inst
end Solvor.Flow
