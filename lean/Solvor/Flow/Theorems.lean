import Solvor.Flow.Model
/-! Flow: property theorems only (helper lemmas live in Lemmas.lean). -/
namespace Solvor.Flow

end Solvor.Flow
