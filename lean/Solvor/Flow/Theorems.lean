import Solvor.Flow.Lemmas
/-!
Flow: the property theorems of C08 (helper lemmas are in `SumLemmas`, `CutLemmas`, `EKLemmas`,
`EKArcs`).

Vocabulary (`CutLemmas.lean`): `N : Net` = nodes `V`, pooled capacities `cap`, key lists `adj`
of `capacity[·]`, terminals; `N.Feasible g` = `0 ≤ g ≤ cap` on `V × V` and conservation at every
node other than `s`, `t`; `N.value g` = net flow into the sink; `N.cutCap S` = capacity of the
cut `(S, V \ S)`; `N.Saturated g S` = arcs out of `S` full, arcs into `S` empty.
-/
namespace Solvor.Flow
namespace Net
variable (N : Net)

/-! ## C08 — T-spec: the cut certificate and its Boolean checker -/

/-- **cut_cert**: a feasible flow together with a saturated s-t cut is a maximum flow, and its
value is the capacity of that cut (which therefore is a minimum cut). -/
theorem cut_cert (hV : N.V.Nodup) (ht : N.t ∈ N.V) {f : Nat → Nat → Int} (hf : N.Feasible f)
    {S : List Nat} (hs : N.s ∈ S) (htS : N.t ∉ S) (hsat : N.Saturated f S) :
    N.value f = N.cutCap S ∧ (∀ g, N.Feasible g → N.value g ≤ N.value f) ∧
    (∀ S', N.s ∈ S' → N.t ∉ S' → N.cutCap S ≤ N.cutCap S') := by
  have e := N.value_eq_cutCap hV ht hs htS hf hsat
  refine ⟨e, fun g hg => ?_, fun S' hs' ht' => ?_⟩
  · rw [e]; exact N.value_le_cutCap hV ht hs htS hg
  · rw [← e]; exact N.value_le_cutCap hV ht hs' ht' hf

/-- the feasibility part of the checker decides feasibility (so a `false` verdict on an
implementation's dict is a genuine violation of the capacity / conservation clause) -/
theorem chk_feasible_iff (f : FlowT) : (N.chkCap f && N.chkCons f) = true ↔ N.Feasible f.get :=
  N.chkFeasible_iff f

theorem chk_value_iff (f : FlowT) (val : Int) : N.chkValue f val = true ↔ N.value f.get = val :=
  N.chkValue_iff f val

/-- **chkMaxFlow_sound**: if the checker accepts `(f, S, val)` then `f` is a feasible flow whose
net inflow at the sink is `val`, `val` is the capacity of the cut `S`, and no feasible flow has a
larger value. -/
theorem chkMaxFlow_sound (hV : N.V.Nodup) (ht : N.t ∈ N.V) (f : FlowT) (S : List Nat) (val : Int)
    (h : N.chkMaxFlow f S val = true) :
    N.Feasible f.get ∧ N.value f.get = val ∧ val = N.cutCap S ∧
      ∀ g, N.Feasible g → N.value g ≤ val := by
  unfold chkMaxFlow at h
  simp only [Bool.and_eq_true] at h
  obtain ⟨⟨⟨h1, h2⟩, h3⟩, h4⟩ := h
  have hf : N.Feasible f.get := (N.chkFeasible_iff f).1 (by simp [h1, h2])
  have hv := (N.chkValue_iff f val).1 h3
  obtain ⟨c1, c2, c3⟩ := (N.chkCut_iff f S).1 h4
  obtain ⟨e1, e2, _⟩ := N.cut_cert hV ht hf c1 c2 c3
  exact ⟨hf, hv, by rw [← hv, e1], fun g hg => by rw [← hv]; exact e2 g hg⟩

/-! ## C08 — T-model: the Edmonds-Karp mirror -/

/-- **augment_preserves_feasible**: pushing `path_flow` (the minimum residual, which is ≥ 1)
along a simple residual s-t path with the cancel-reverse-first rule keeps every capacity
constraint (anti-parallel arcs included), keeps conservation, and raises the value by exactly
`path_flow`. -/
theorem augment_preserves_feasible (h : N.WF) {f : FlowT} (hc : N.CapOK f) (hf : N.Feasible f.get)
    {vis p : List Nat} (hp : N.GoodPath f vis N.t p) (hvis : ∀ x ∈ vis, x ∈ N.V) {d : Int}
    (hd : N.pathFlow f p none = some d) :
    1 ≤ d ∧ N.CapOK (aug f d p) ∧ N.Feasible (aug f d p).get ∧
      N.value (aug f d p).get = N.value f.get + d := by
  obtain ⟨g1, _, g3⟩ := N.pathFlow_spec f _ _ _ hd
  have hd1 : 1 ≤ d := g3 hp.chain (fun m hm => by cases hm)
  obtain ⟨a1, a2⟩ := N.aug_spec h.nodup (by omega : 0 ≤ d) p f hp.nodup
    (fun x hx => hvis x (hp.sub x hx)) hc g1
  have hI : N.LInv (aug f d p) (N.value f.get + d) := by
    refine ⟨a1, ?_, ?_⟩
    · intro x hx hs ht
      have e := hf.cons x hx hs ht
      rw [a2 N.s N.t hp.head hp.last x, excess_eq, e]
      simp [hs, ht]
    · have : ¬ (N.t = N.s) := fun e => h.s_ne_t e.symm
      rw [a2 N.s N.t hp.head hp.last N.t, excess_eq]
      simp [this, value]
  exact ⟨hd1, a1, hI.feasible, hI.value⟩

/-- **ek_terminates**: the fuel `cutCap {s} + 1` is never exhausted – every augmentation raises
the integer value by ≥ 1 and the value is bounded by the capacity out of the source; each BFS
ends within `2·|V| + 2` pops. -/
theorem ek_terminates (h : N.WF) : N.maxFlow.done = true :=
  (N.loop_spec h _ [] 0 0 0 (LInv.init N h) (by
    have := N.value_le_cutCap h.nodup h.t_mem (S := [N.s]) (by simp)
      (by simpa using h.s_ne_t.symm) (LInv.init N h).feasible
    omega)).done

/-- **ek_certifies**: the visited set of the last BFS contains the source, not the sink, and is
a saturated cut for the returned flow. -/
theorem ek_certifies (h : N.WF) :
    N.s ∈ N.maxFlow.vis ∧ N.t ∉ N.maxFlow.vis ∧ N.Saturated N.maxFlow.flow.get N.maxFlow.vis := by
  have c := N.loop_spec h ((N.cutCap [N.s]).toNat + 1) [] 0 0 0 (LInv.init N h) (by
    have := N.value_le_cutCap h.nodup h.t_mem (S := [N.s]) (by simp)
      (by simpa using h.s_ne_t.symm) (LInv.init N h).feasible
    omega)
  exact ⟨c.s_mem, c.t_not_mem, c.saturated⟩

/-- **max_flow_correct** (C08 for the mirror, every well-formed network): the mirror returns,
the returned table is a feasible flow on pooled capacities, the reported objective is its net
inflow at the sink, it equals the capacity of a (hence minimum) cut, no feasible flow is larger,
and the Boolean checker accepts the mirror's own certificate. -/
theorem max_flow_correct (h : N.WF) :
    N.maxFlow.done = true ∧ N.Feasible N.maxFlow.flow.get ∧
    N.value N.maxFlow.flow.get = N.maxFlow.value ∧
    N.maxFlow.value = N.cutCap N.maxFlow.vis ∧
    (∀ g, N.Feasible g → N.value g ≤ N.maxFlow.value) ∧
    (∀ S', N.s ∈ S' → N.t ∉ S' → N.maxFlow.value ≤ N.cutCap S') ∧
    N.chkMaxFlow N.maxFlow.flow N.maxFlow.vis N.maxFlow.value = true := by
  have c := N.loop_spec h ((N.cutCap [N.s]).toNat + 1) [] 0 0 0 (LInv.init N h) (by
    have := N.value_le_cutCap h.nodup h.t_mem (S := [N.s]) (by simp)
      (by simpa using h.s_ne_t.symm) (LInv.init N h).feasible
    omega)
  obtain ⟨e1, e2, e3⟩ := N.cut_cert h.nodup h.t_mem c.feasible c.s_mem c.t_not_mem c.saturated
  have cv : N.value (N.loop ((N.cutCap [N.s]).toNat + 1) [] 0 0 0).flow.get = N.maxFlow.value := c.value
  refine ⟨c.done, c.feasible, c.value, ?_, ?_, ?_, ?_⟩
  · rw [← cv]; exact e1
  · intro g hg; rw [← cv]; exact e2 g hg
  · intro S' hs ht; rw [← cv, e1]; exact e3 S' hs ht
  · unfold chkMaxFlow
    have f1 := (N.chkFeasible_iff _).2 c.feasible
    have f2 := (N.chkValue_iff _ _).2 c.value
    have f3 := (N.chkCut_iff _ _).2 ⟨c.s_mem, c.t_not_mem, c.saturated⟩
    simp only [Bool.and_eq_true] at f1 ⊢
    exact ⟨⟨f1, f2⟩, f3⟩

end Net

/-- **max_flow_correct** on the `graph` argument: for every arc list with non-negative integer
capacities over nodes `0..n-1` (parallel, anti-parallel, self-loop, zero-capacity arcs, arcs into
the source / out of the sink, unreachable parts all included) and distinct terminals, the mirror
of the repaired `max_flow` returns a maximum flow with its minimum cut. -/
theorem max_flow_correct_arcs {n : Nat} {arcs : Arcs} {s t : Nat} (h : ArcsOK n arcs) (hs : s < n)
    (ht : t < n) (hst : s ≠ t) :
    let N := Net.ofArcs true n arcs s t
    N.maxFlow.done = true ∧ N.Feasible N.maxFlow.flow.get ∧
    N.value N.maxFlow.flow.get = N.maxFlow.value ∧
    N.maxFlow.value = N.cutCap N.maxFlow.vis ∧
    (∀ g, N.Feasible g → N.value g ≤ N.maxFlow.value) ∧
    (∀ S', N.s ∈ S' → N.t ∉ S' → N.maxFlow.value ≤ N.cutCap S') ∧
    N.chkMaxFlow N.maxFlow.flow N.maxFlow.vis N.maxFlow.value = true :=
  Net.max_flow_correct _ (Net.ofArcs_wf h hs ht hst)

/-! ### non-vacuity and the negative statement about the unrepaired code -/

/-- the witness of DESIGN §4 C08: s=0, a=1, c=2, b=3, d=4, t=5 -/
def witnessArcs : Arcs := [(0, 1, 1), (0, 2, 1), (1, 3, 1), (1, 4, 1), (2, 3, 1), (3, 5, 1), (4, 5, 1)]

theorem witness_ok : ArcsOK 6 witnessArcs := by unfold ArcsOK; decide

-- hypotheses of `max_flow_correct_arcs` / `max_flow_correct` / `ek_*` are met by the witness
example : (Net.ofArcs true 6 witnessArcs 0 5).WF := Net.ofArcs_wf witness_ok (by decide) (by decide) (by decide)
example : (Net.ofArcs true 6 witnessArcs 0 5).maxFlow.value = 2 := by decide

-- hypotheses of `cut_cert` / `chkMaxFlow_sound` are met by a concrete flow and cut
example : (Net.ofArcs true 6 witnessArcs 0 5).chkMaxFlow
    [((0, 1), 1), ((0, 2), 1), ((1, 4), 1), ((2, 3), 1), ((3, 5), 1), ((4, 5), 1)] [0] 2 = true := by decide

/-- **Negative statement about the unrepaired code**: with the key sets of the unrepaired
construction (`rev := false`: `capacity[v][u]` exists only if an arc `v → u` was given) the mirror
stops at value 1 on the witness although a feasible flow of value 2 exists – the reverse residual
arc `b → a` is never followed. -/
theorem unrepaired_not_maximum :
    (Net.ofArcs false 6 witnessArcs 0 5).maxFlow.value = 1 ∧
    (Net.ofArcs false 6 witnessArcs 0 5).maxFlow.done = true ∧
    ∃ f : FlowT, (Net.ofArcs false 6 witnessArcs 0 5).Feasible f.get ∧
      (Net.ofArcs false 6 witnessArcs 0 5).value f.get = 2 := by
  refine ⟨by decide, by decide,
    [((0, 1), 1), ((0, 2), 1), ((1, 4), 1), ((2, 3), 1), ((3, 5), 1), ((4, 5), 1)], ?_, by decide⟩
  exact (Net.chkFeasible_iff _ _).1 (by decide)

end Solvor.Flow
