import Solvor.Flow.Lemmas
/-!
Flow: the property theorems of C08 and C09 (helper lemmas are in `SumLemmas`, `CutLemmas`,
`EKLemmas`, `EKArcs`, `SSPLemmas`, `AssignLemmas`).

Vocabulary (`CutLemmas.lean`): `N : Net` = nodes `V`, pooled capacities `cap`, key lists `adj`
of `capacity[·]`, terminals; `N.Feasible g` = `0 ≤ g ≤ cap` on `V × V` and conservation at every
node other than `s`, `t`; `N.value g` = net flow into the sink; `N.cutCap S` = capacity of the
cut `(S, V \ S)`; `N.Saturated g S` = arcs out of `S` full, arcs into `S` empty.
-/
namespace Solvor.Flow
namespace Net
variable (N : Net)

/-! ## C08 — T-spec: the cut certificate and its Boolean checker -/

/-- **cut_cert**: a feasible flow together with a saturated s-t cut is a maximum flow, and its
value is the capacity of that cut (which therefore is a minimum cut). -/
theorem cut_cert (hV : N.V.Nodup) (ht : N.t ∈ N.V) {f : Nat → Nat → Int} (hf : N.Feasible f)
    {S : List Nat} (hs : N.s ∈ S) (htS : N.t ∉ S) (hsat : N.Saturated f S) :
    N.value f = N.cutCap S ∧ (∀ g, N.Feasible g → N.value g ≤ N.value f) ∧
    (∀ S', N.s ∈ S' → N.t ∉ S' → N.cutCap S ≤ N.cutCap S') := by
  have e := N.value_eq_cutCap hV ht hs htS hf hsat
  refine ⟨e, fun g hg => ?_, fun S' hs' ht' => ?_⟩
  · rw [e]; exact N.value_le_cutCap hV ht hs htS hg
  · rw [← e]; exact N.value_le_cutCap hV ht hs' ht' hf

/-- the feasibility part of the checker decides feasibility (so a `false` verdict on an
implementation's dict is a genuine violation of the capacity / conservation clause) -/
theorem chk_feasible_iff (f : FlowT) : (N.chkCap f && N.chkCons f) = true ↔ N.Feasible f.get :=
  N.chkFeasible_iff f

theorem chk_value_iff (f : FlowT) (val : Int) : N.chkValue f val = true ↔ N.value f.get = val :=
  N.chkValue_iff f val

/-- **chkMaxFlow_sound**: if the checker accepts `(f, S, val)` then `f` is a feasible flow whose
net inflow at the sink is `val`, `val` is the capacity of the cut `S`, and no feasible flow has a
larger value. -/
theorem chkMaxFlow_sound (hV : N.V.Nodup) (ht : N.t ∈ N.V) (f : FlowT) (S : List Nat) (val : Int)
    (h : N.chkMaxFlow f S val = true) :
    N.Feasible f.get ∧ N.value f.get = val ∧ val = N.cutCap S ∧
      ∀ g, N.Feasible g → N.value g ≤ val := by
  unfold chkMaxFlow at h
  simp only [Bool.and_eq_true] at h
  obtain ⟨⟨⟨h1, h2⟩, h3⟩, h4⟩ := h
  have hf : N.Feasible f.get := (N.chkFeasible_iff f).1 (by simp [h1, h2])
  have hv := (N.chkValue_iff f val).1 h3
  obtain ⟨c1, c2, c3⟩ := (N.chkCut_iff f S).1 h4
  obtain ⟨e1, e2, _⟩ := N.cut_cert hV ht hf c1 c2 c3
  exact ⟨hf, hv, by rw [← hv, e1], fun g hg => by rw [← hv]; exact e2 g hg⟩

/-! ## C08 — T-model: the Edmonds-Karp mirror -/

/-- **augment_preserves_feasible**: pushing `path_flow` (the minimum residual, which is ≥ 1)
along a simple residual s-t path with the cancel-reverse-first rule keeps every capacity
constraint (anti-parallel arcs included), keeps conservation, and raises the value by exactly
`path_flow`. -/
theorem augment_preserves_feasible (h : N.WF) {f : FlowT} (hc : N.CapOK f) (hf : N.Feasible f.get)
    {vis p : List Nat} (hp : N.GoodPath f vis N.t p) (hvis : ∀ x ∈ vis, x ∈ N.V) {d : Int}
    (hd : N.pathFlow f p none = some d) :
    1 ≤ d ∧ N.CapOK (aug f d p) ∧ N.Feasible (aug f d p).get ∧
      N.value (aug f d p).get = N.value f.get + d := by
  obtain ⟨g1, _, g3⟩ := N.pathFlow_spec f _ _ _ hd
  have hd1 : 1 ≤ d := g3 hp.chain (fun m hm => by cases hm)
  obtain ⟨a1, a2⟩ := N.aug_spec h.nodup (by omega : 0 ≤ d) p f hp.nodup
    (fun x hx => hvis x (hp.sub x hx)) hc g1
  have hI : N.LInv (aug f d p) (N.value f.get + d) := by
    refine ⟨a1, ?_, ?_⟩
    · intro x hx hs ht
      have e := hf.cons x hx hs ht
      rw [a2 N.s N.t hp.head hp.last x, excess_eq, e]
      simp [hs, ht]
    · have : ¬ (N.t = N.s) := fun e => h.s_ne_t e.symm
      rw [a2 N.s N.t hp.head hp.last N.t, excess_eq]
      simp [this, value]
  exact ⟨hd1, a1, hI.feasible, hI.value⟩

/-- **ek_terminates**: the fuel `cutCap {s} + 1` is never exhausted – every augmentation raises
the integer value by ≥ 1 and the value is bounded by the capacity out of the source; each BFS
ends within `2·|V| + 2` pops. -/
theorem ek_terminates (h : N.WF) : N.maxFlow.done = true :=
  (N.loop_spec h _ [] 0 0 {} (LInv.init N h) (by
    have := N.value_le_cutCap h.nodup h.t_mem (S := [N.s]) (by simp)
      (by simpa using h.s_ne_t.symm) (LInv.init N h).feasible
    omega)).done

/-- **ek_certifies**: the visited set of the last BFS contains the source, not the sink, and is
a saturated cut for the returned flow. -/
theorem ek_certifies (h : N.WF) :
    N.s ∈ N.maxFlow.vis ∧ N.t ∉ N.maxFlow.vis ∧ N.Saturated N.maxFlow.flow.get N.maxFlow.vis := by
  have c := N.loop_spec h ((N.cutCap [N.s]).toNat + 1) [] 0 0 {} (LInv.init N h) (by
    have := N.value_le_cutCap h.nodup h.t_mem (S := [N.s]) (by simp)
      (by simpa using h.s_ne_t.symm) (LInv.init N h).feasible
    omega)
  exact ⟨c.s_mem, c.t_not_mem, c.saturated⟩

/-- **max_flow_correct** (C08 for the mirror, every well-formed network): the mirror returns,
the returned table is a feasible flow on pooled capacities, the reported objective is its net
inflow at the sink, it equals the capacity of a (hence minimum) cut, no feasible flow is larger,
and the Boolean checker accepts the mirror's own certificate. -/
theorem max_flow_correct (h : N.WF) :
    N.maxFlow.done = true ∧ N.Feasible N.maxFlow.flow.get ∧
    N.value N.maxFlow.flow.get = N.maxFlow.value ∧
    N.maxFlow.value = N.cutCap N.maxFlow.vis ∧
    (∀ g, N.Feasible g → N.value g ≤ N.maxFlow.value) ∧
    (∀ S', N.s ∈ S' → N.t ∉ S' → N.maxFlow.value ≤ N.cutCap S') ∧
    N.chkMaxFlow N.maxFlow.flow N.maxFlow.vis N.maxFlow.value = true := by
  have c := N.loop_spec h ((N.cutCap [N.s]).toNat + 1) [] 0 0 {} (LInv.init N h) (by
    have := N.value_le_cutCap h.nodup h.t_mem (S := [N.s]) (by simp)
      (by simpa using h.s_ne_t.symm) (LInv.init N h).feasible
    omega)
  obtain ⟨e1, e2, e3⟩ := N.cut_cert h.nodup h.t_mem c.feasible c.s_mem c.t_not_mem c.saturated
  have cv : N.value (N.loop ((N.cutCap [N.s]).toNat + 1) [] 0 0 {}).flow.get = N.maxFlow.value := c.value
  refine ⟨c.done, c.feasible, c.value, ?_, ?_, ?_, ?_⟩
  · rw [← cv]; exact e1
  · intro g hg; rw [← cv]; exact e2 g hg
  · intro S' hs ht; rw [← cv, e1]; exact e3 S' hs ht
  · unfold chkMaxFlow
    have f1 := (N.chkFeasible_iff _).2 c.feasible
    have f2 := (N.chkValue_iff _ _).2 c.value
    have f3 := (N.chkCut_iff _ _).2 ⟨c.s_mem, c.t_not_mem, c.saturated⟩
    simp only [Bool.and_eq_true] at f1 ⊢
    exact ⟨⟨f1, f2⟩, f3⟩

end Net

/-- **max_flow_correct** on the `graph` argument: for every arc list with non-negative integer
capacities over nodes `0..n-1` (parallel, anti-parallel, self-loop, zero-capacity arcs, arcs into
the source / out of the sink, unreachable parts all included) and distinct terminals, the mirror
of the repaired `max_flow` returns a maximum flow with its minimum cut. -/
theorem max_flow_correct_arcs {n : Nat} {arcs : Arcs} {s t : Nat} (h : ArcsOK n arcs) (hs : s < n)
    (ht : t < n) (hst : s ≠ t) :
    let N := Net.ofArcs true n arcs s t
    N.maxFlow.done = true ∧ N.Feasible N.maxFlow.flow.get ∧
    N.value N.maxFlow.flow.get = N.maxFlow.value ∧
    N.maxFlow.value = N.cutCap N.maxFlow.vis ∧
    (∀ g, N.Feasible g → N.value g ≤ N.maxFlow.value) ∧
    (∀ S', N.s ∈ S' → N.t ∉ S' → N.maxFlow.value ≤ N.cutCap S') ∧
    N.chkMaxFlow N.maxFlow.flow N.maxFlow.vis N.maxFlow.value = true :=
  Net.max_flow_correct _ (Net.ofArcs_wf h hs ht hst)

/-! ### non-vacuity and the negative statement about the unrepaired code -/

/-- the witness of DESIGN §4 C08: s=0, a=1, c=2, b=3, d=4, t=5 -/
def witnessArcs : Arcs := [(0, 1, 1), (0, 2, 1), (1, 3, 1), (1, 4, 1), (2, 3, 1), (3, 5, 1), (4, 5, 1)]

theorem witness_ok : ArcsOK 6 witnessArcs := by unfold ArcsOK; decide

-- hypotheses of `max_flow_correct_arcs` / `max_flow_correct` / `ek_*` are met by the witness
example : (Net.ofArcs true 6 witnessArcs 0 5).WF := Net.ofArcs_wf witness_ok (by decide) (by decide) (by decide)
example : (Net.ofArcs true 6 witnessArcs 0 5).maxFlow.value = 2 := by decide

-- hypotheses of `cut_cert` / `chkMaxFlow_sound` are met by a concrete flow and cut
example : (Net.ofArcs true 6 witnessArcs 0 5).chkMaxFlow
    [((0, 1), 1), ((0, 2), 1), ((1, 4), 1), ((2, 3), 1), ((3, 5), 1), ((4, 5), 1)] [0] 2 = true := by decide

/-- **Negative statement about the unrepaired code**: with the key sets of the unrepaired
construction (`rev := false`: `capacity[v][u]` exists only if an arc `v → u` was given) the mirror
stops at value 1 on the witness although a feasible flow of value 2 exists – the reverse residual
arc `b → a` is never followed. -/
theorem unrepaired_not_maximum :
    (Net.ofArcs false 6 witnessArcs 0 5).maxFlow.value = 1 ∧
    (Net.ofArcs false 6 witnessArcs 0 5).maxFlow.done = true ∧
    ∃ f : FlowT, (Net.ofArcs false 6 witnessArcs 0 5).Feasible f.get ∧
      (Net.ofArcs false 6 witnessArcs 0 5).value f.get = 2 := by
  refine ⟨by decide, by decide,
    [((0, 1), 1), ((0, 2), 1), ((1, 4), 1), ((2, 3), 1), ((3, 5), 1), ((4, 5), 1)], ?_, by decide⟩
  exact (Net.chkFeasible_iff _ _).1 (by decide)

/-! ## C09 — T-spec: min-cost-flow certificates and their Boolean checkers

Vocabulary (`SSP.lean`, `SSPLemmas.lean`): `I : Inst` = nodes `0..n-1`, arcs with their own
capacity and cost (parallel / anti-parallel arcs stay separate), supplies `sup`; `I.Feas x` =
`0 ≤ x i ≤ cap i` on every arc and `out − in = sup` at every node; `I.costF x = Σ cost·x`;
`I.Slack x p` = every residual arc has non-negative reduced cost under the potentials `p`. -/

namespace Inst
variable (I : Inst)

/-- **reduced_cost_cert**: a feasible flow meeting all supplies, together with node potentials
under which every residual arc (forward where `x < cap`, backward where `x > 0`) has non-negative
reduced cost, has minimum cost among all feasible flows. -/
theorem reduced_cost_cert (hv : I.Valid) {x p : Nat → Int} (hx : I.Feas x) (hs : I.Slack x p) :
    ∀ y, I.Feas y → I.costF x ≤ I.costF y :=
  fun _ hy => I.cost_le_of_slack hv hx hy hs

/-- **infeasible_cut_cert**: a node set whose net supply exceeds the capacity of the arcs leaving
it, or whose net demand exceeds the capacity of the arcs entering it, rules out every feasible
flow. -/
theorem infeasible_cut_cert (hv : I.Valid) (S : List Nat)
    (h : I.capOutOf S < I.supplyOf S ∨ I.capInOf S < - I.supplyOf S) : ¬ ∃ y, I.Feas y := by
  rintro ⟨y, hy⟩
  rcases h with h | h
  · have := I.supply_le_capOut hv S hy; omega
  · have := I.neg_supply_le_capIn hv S hy; omega

/-- the feasibility checker decides feasibility of a per-arc flow list -/
theorem chk_feas_iff (x : List Int) : I.chkFeas x = true ↔ x.length = I.m ∧ I.Feas (fl x) :=
  I.chkFeas_iff x

/-- **chkMinCost_sound**: if the checker accepts `(x, p, val)` then `x` is a feasible flow,
`val = Σ cost·x`, and no feasible flow is cheaper. -/
theorem chkMinCost_sound (hv : I.valid = true) (x p : List Int) (val : Int)
    (h : I.chkMinCost x p val = true) :
    I.Feas (fl x) ∧ I.costF (fl x) = val ∧ ∀ y, I.Feas y → val ≤ I.costF y := by
  unfold chkMinCost at h
  simp only [Bool.and_eq_true, beq_iff_eq] at h
  obtain ⟨⟨h1, h2⟩, h3⟩ := h
  have hx := ((I.chkFeas_iff x).1 h1).2
  have hs := (I.chkOpt_iff x p).1 h2
  exact ⟨hx, h3, fun y hy => h3 ▸ I.reduced_cost_cert ((I.valid_iff).1 hv) hx hs y hy⟩

/-- **chkInfeas_sound**: if the checker accepts the node set then no feasible flow exists. -/
theorem chkInfeas_sound (hv : I.valid = true) (S : List Nat) (h : I.chkInfeas S = true) :
    ¬ ∃ y, I.Feas y := by
  unfold chkInfeas at h
  simp only [Bool.or_eq_true, decide_eq_true_eq] at h
  exact I.infeasible_cut_cert ((I.valid_iff).1 hv) S h

/-- an accepted optimum and an accepted infeasibility cut exclude each other, and two accepted
optima have the same value: the certified verdict on an instance is unique -/
theorem certified_verdict_unique (hv : I.valid = true) {x p x' p' : List Int} {val val' : Int}
    (h : I.chkMinCost x p val = true) :
    (∀ S, I.chkInfeas S = false) ∧ (I.chkMinCost x' p' val' = true → val = val') := by
  obtain ⟨f1, f2, f3⟩ := I.chkMinCost_sound hv x p val h
  refine ⟨fun S => ?_, fun h' => ?_⟩
  · cases hS : I.chkInfeas S
    · rfl
    · exact absurd ⟨_, f1⟩ (I.chkInfeas_sound hv S hS)
  · obtain ⟨g1, g2, g3⟩ := I.chkMinCost_sound hv x' p' val' h'
    have a := f3 _ g1
    have b := g3 _ f1
    omega

end Inst

/-! ## C09 — T-model: the successive-shortest-paths reference as a certifying algorithm -/

/-- every answer `certify` hands out is right: `feasible` comes with a minimum-cost feasible flow
and its cost, `infeasible` means that no feasible flow exists – for every instance and whatever
the search produced -/
theorem Inst.certify_sound (J : Inst) (hv : J.valid = true) (o : Inst.SOut) :
    ((J.certify o).status = .feasible →
      J.Feas (Inst.fl (J.certify o).x) ∧ J.costF (Inst.fl (J.certify o).x) = (J.certify o).cost ∧
      ∀ y, J.Feas y → (J.certify o).cost ≤ J.costF y) ∧
    ((J.certify o).status = .infeasible → ¬ ∃ y, J.Feas y) := by
  unfold Inst.certify
  cases hs : o.status with
  | feasible =>
    simp only
    by_cases hc : J.chkMinCost o.x o.pot o.cost = true
    · rw [if_pos hc]
      exact ⟨(fun _ => J.chkMinCost_sound hv _ _ _ hc), (fun h => by rw [hs] at h; simp at h)⟩
    · rw [if_neg hc]
      exact ⟨(fun h => by simp at h), (fun h => by simp at h)⟩
  | infeasible =>
    simp only
    by_cases hc : J.chkInfeas o.reach = true
    · rw [if_pos hc]
      exact ⟨(fun h => by rw [hs] at h; simp at h), (fun _ => J.chkInfeas_sound hv _ hc)⟩
    · rw [if_neg hc]
      exact ⟨(fun h => by simp at h), (fun h => by simp at h)⟩
  | negcycle =>
    simp only
    exact ⟨(fun h => by rw [hs] at h; simp at h), (fun h => by rw [hs] at h; simp at h)⟩

/-- **ssp_sound** (`min_cost_flow` instances): for every network, terminals and demand, if the
certified SSP model answers `feasible` its flow routes the demand within the capacities at
minimum cost and the reported cost is Σ cost·flow; if it answers `infeasible` no feasible routing
exists.  (The converse – it always answers when there is no negative cycle – is `ssp_certifies`
below.) -/
theorem ssp_sound (n : Nat) (arcs : List Arc) (s t : Nat) (d : Int)
    (hv : (Inst.ofST n arcs s t d).valid = true) :
    ((solveST n arcs s t d).status = .feasible →
      (Inst.ofST n arcs s t d).Feas (Inst.fl (solveST n arcs s t d).x) ∧
      (Inst.ofST n arcs s t d).costF (Inst.fl (solveST n arcs s t d).x) = (solveST n arcs s t d).cost ∧
      ∀ y, (Inst.ofST n arcs s t d).Feas y → (solveST n arcs s t d).cost ≤ (Inst.ofST n arcs s t d).costF y) ∧
    ((solveST n arcs s t d).status = .infeasible → ¬ ∃ y, (Inst.ofST n arcs s t d).Feas y) :=
  Inst.certify_sound _ hv _

/-- **ssp_sound** for transshipment instances (`network_simplex`'s problem) -/
theorem ssp_sound_transshipment (I : Inst) (hv : I.valid = true) :
    ((solveTS I).status = .feasible →
      I.Feas (Inst.fl (solveTS I).x) ∧ I.costF (Inst.fl (solveTS I).x) = (solveTS I).cost ∧
      ∀ y, I.Feas y → (solveTS I).cost ≤ I.costF y) ∧
    ((solveTS I).status = .infeasible → ¬ ∃ y, I.Feas y) := by
  unfold solveTS
  split
  · exact Inst.certify_sound _ hv _
  · exact Inst.certify_sound _ hv _
/-- **ssp_certifies_partial** (`min_cost_flow` / `solve_assignment` instances): for every network
with non-negative capacities, terminals `s, t < n` and demand `d ≥ 0`, *whatever* the successive
shortest-path search answers is accepted by the verified checker – a `feasible` answer always
comes with a feasible flow and potentials of non-negative reduced cost on every residual arc, an
`infeasible` answer with a set of reached nodes whose leaving capacity is below the demand – so
`certify` never withholds an answer of the search (`solveST = ssp`).  No hypothesis on cycles is
needed for this part: the flow invariant (simple parent paths, bottleneck pushes), the closedness
of the reached set after `n - 1` sweeps and the quiet final sweep of the potentials hold for
every input. -/
theorem ssp_certifies_partial (n : Nat) (arcs : List Arc) (s t : Nat) (d : Int)
    (hv : (Inst.ofST n arcs s t d).valid = true) (hcap : ∀ a ∈ arcs, 0 ≤ a.cap)
    (hs : s < n) (ht : t < n) (hd : 0 ≤ d) :
    solveST n arcs s t d = (Inst.ofST n arcs s t d).ssp s t d ∧
    (((Inst.ofST n arcs s t d).ssp s t d).status = .feasible →
      (Inst.ofST n arcs s t d).chkMinCost ((Inst.ofST n arcs s t d).ssp s t d).x
        ((Inst.ofST n arcs s t d).ssp s t d).pot ((Inst.ofST n arcs s t d).ssp s t d).cost = true) ∧
    (((Inst.ofST n arcs s t d).ssp s t d).status = .infeasible →
      (Inst.ofST n arcs s t d).chkInfeas ((Inst.ofST n arcs s t d).ssp s t d).reach = true) := by
  have hV := ((Inst.ofST n arcs s t d).valid_iff).1 hv
  have hc : ∀ i < (Inst.ofST n arcs s t d).m, 0 ≤ ((Inst.ofST n arcs s t d).arc i).cap := by
    intro i hi
    have hi' : i < arcs.length := hi
    have : (Inst.ofST n arcs s t d).arc i = arcs[i] := by
      simp [Inst.arc, Inst.ofST, List.getD, List.getElem?_eq_getElem hi']
    rw [this]
    exact hcap _ (List.getElem_mem hi')
  have hsup : (Inst.ofST n arcs s t d).STsup s t d := fun v hvn => ofST_sup n arcs s t d hvn
  have c := (Inst.ofST n arcs s t d).ssp_cert hV hc (s := s) (t := t) hs ht hd hsup
  exact ⟨Inst.certify_of_cert _ _ c, c.1, c.2⟩
-- (The full statement – with no negative-cost cycle the search never ends without an answer – is
-- `ssp_certifies` / `ssp_certifies_transshipment` below; this part needs no hypothesis on cycles.)
/-- "No negative-cost cycle" and "feasible node potentials exist" are the same thing: `I.NC x` says
that every closed walk of residual arcs of `x` has non-negative cost (for the zero flow the residual
arcs are the arcs of positive capacity); potentials certify it, and conversely the converged
zero-initialised Bellman-Ford labels are feasible potentials. -/
theorem Inst.no_negative_cycle_iff_potentials (I : Inst) (hv : I.Valid) (x : List Int) :
    I.NC x ↔ ∃ p, I.Pot x p :=
  ⟨fun h => I.pot_of_nc hv h, fun ⟨_, hp⟩ => I.nc_of_pot hp⟩

/-- **ssp_certifies** (`min_cost_flow` / `solve_assignment` instances): if the input network has no
negative-cost cycle (every closed walk along arcs of positive capacity has non-negative cost), then
for all capacities ≥ 0, terminals `s, t < n` and demand `d ≥ 0` the certified SSP model always
answers: its status is never `negcycle`, i.e. the search ends either `feasible` with a certificate
`chkMinCost` accepts or `infeasible` with a cut `chkInfeas` accepts (`ssp_certifies_partial`), and by
`ssp_sound` that answer is right.  Proof ingredients (`SSPConv.lean`): Bellman-Ford parents never form
a cycle (temporal argument on reduced labels), `n - 1` sweeps reach a fixed point (walk shortening by
cycle cutting), so every parent arc is tight and the shortest-path labels are feasible potentials for
the residual network after the augmentation; the zero-initialised Bellman-Ford of the final
potentials converges for the same reason. -/
theorem ssp_certifies (n : Nat) (arcs : List Arc) (s t : Nat) (d : Int)
    (hv : (Inst.ofST n arcs s t d).valid = true) (hcap : ∀ a ∈ arcs, 0 ≤ a.cap)
    (hs : s < n) (ht : t < n) (hd : 0 ≤ d)
    (hnc : (Inst.ofST n arcs s t d).NC (List.replicate (Inst.ofST n arcs s t d).m 0)) :
    (solveST n arcs s t d).status ≠ .negcycle := by
  have hV := ((Inst.ofST n arcs s t d).valid_iff).1 hv
  have hc : ∀ i < (Inst.ofST n arcs s t d).m, 0 ≤ ((Inst.ofST n arcs s t d).arc i).cap := by
    intro i hi
    have hi' : i < arcs.length := hi
    have : (Inst.ofST n arcs s t d).arc i = arcs[i] := by
      simp [Inst.arc, Inst.ofST, List.getD, List.getElem?_eq_getElem hi']
    rw [this]
    exact hcap _ (List.getElem_mem hi')
  obtain ⟨p, hp⟩ := (Inst.ofST n arcs s t d).pot_of_nc hV hnc
  rw [(ssp_certifies_partial n arcs s t d hv hcap hs ht hd).1]
  exact (Inst.ofST n arcs s t d).ssp_answers hV hc (s := s) (t := t) hs ht hd
    ((Inst.ofST n arcs s t d).pot_zero_rc hp)

/-- **ssp_certifies** for transshipment instances (`network_simplex`'s problem, solved through the
super-source / super-sink reduction `Inst.toST`): without a negative-cost cycle the certified solver
`solveTS` always answers – unbalanced supplies are answered `infeasible` with the whole node set as
cut, otherwise the certificate found for the reduced instance (saturated source/sink arcs, potentials
restricted to the original nodes, reached set restricted to the original nodes) is accepted by the
checker of the original instance. -/
theorem ssp_certifies_transshipment (I : Inst) (hv : I.valid = true) (hcap : ∀ i < I.m, 0 ≤ (I.arc i).cap)
    (hnc : I.NC (List.replicate I.m 0)) : (solveTS I).status ≠ .negcycle := by
  have hV := (I.valid_iff).1 hv
  obtain ⟨p, hp⟩ := I.pot_of_nc hV hnc
  exact I.solveTS_answers hV hcap (I.pot_zero_rc hp)

/-! ## C09 — assignment as a unit-capacity bipartite flow -/

/-- **assignment_of_flow**: the feasible integral flows of `solve_assignment`'s unit-capacity
bipartite network with demand `min n m` are exactly the valid assignments (columns in range, no
column twice, `min n m` rows assigned), with equal costs: every valid assignment is such a flow,
and every such flow is (read off row by row) a valid assignment. -/
theorem assignment_of_flow {n m : Nat} (C : Nat → Nat → Int) :
    (∀ α, ValidAssign n m α →
      (assignInst n m C).Feas (flowOfAssign n m C α) ∧
      (assignInst n m C).costF (flowOfAssign n m C α) = assignCost n C α) ∧
    (∀ y, (assignInst n m C).Feas y →
      ∃ α, ValidAssign n m α ∧ assignCost n C α = (assignInst n m C).costF y) :=
  ⟨fun _ h => assign_feasible C h, fun _ hy => assign_of_feasible C hy⟩

/-- consequence used by the check: a certified optimum of the assignment network is a lower bound
for every valid assignment and is attained by one, so a returned valid assignment is optimal iff
its cost equals the certified value. -/
theorem assignment_optimal_of_cert {n m : Nat} (C : Nat → Nat → Int) {x p : List Int} {val : Int}
    (h : (assignInst n m C).chkMinCost x p val = true) :
    (∀ α, ValidAssign n m α → val ≤ assignCost n C α) ∧
    (∃ α, ValidAssign n m α ∧ assignCost n C α = val) := by
  have hv : (assignInst n m C).valid = true := ((assignInst n m C).valid_iff).2 (assignInst_valid n m C)
  obtain ⟨f1, f2, f3⟩ := (assignInst n m C).chkMinCost_sound hv x p val h
  refine ⟨fun α hα => ?_, ?_⟩
  · obtain ⟨g1, g2⟩ := assign_feasible C hα
    rw [← g2]; exact f3 _ g1
  · obtain ⟨α, hα, hc⟩ := assign_of_feasible C f1
    exact ⟨α, hα, by rw [hc, f2]⟩

/-- the checker for a returned assignment list decides exactly what the property asks of it -/
theorem chkAssign_sound {n m : Nat} {a : List Int} (h : chkAssign n m a = true) :
    a.length = n ∧ ValidAssign n m (aOf a) := chkAssign_valid h

/-! ## C09 — the known finding of `min_cost_flow`: one cost per ordered node pair -/

/-- **pair_costs_faithful_partial** (the positive statement on the complement of the finding's
class): when no two different nodes carry an anti-parallel pair of arcs and parallel arcs have
equal cost (`hasPairFeature arcs = false`), the cost table the unchanged `min_cost_flow` builds
prices every forward residual arc with its arc's cost, every backward residual arc with the
negated cost, and holds nothing else – so the code's node-pair tables are the per-arc residual
network of the `ssp` model. -/
theorem pair_costs_faithful_partial {arcs : List Arc} (h : hasPairFeature arcs = false) :
    (∀ a ∈ arcs, (pairCosts arcs).get a.src a.tgt = some a.cost) ∧
    (∀ a ∈ arcs, a.src ≠ a.tgt → (pairCosts arcs).get a.tgt a.src = some (- a.cost)) ∧
    (∀ u v c, (pairCosts arcs).get u v = some c →
      ∃ a ∈ arcs, (a.src = u ∧ a.tgt = v ∧ a.cost = c) ∨
        (a.src ≠ a.tgt ∧ a.tgt = u ∧ a.src = v ∧ - a.cost = c)) := by
  have hN : NoFeature arcs := (noPairFeature_iff arcs).1 (by
    unfold hasPairFeature at h; simpa using h)
  have := pairCosts_inv hN
  exact ⟨this.fwd, this.bwd, this.only⟩
-- FULL STATEMENT (not proved, false of the unchanged code – see `pair_costs_misprice`): the same
-- three clauses for every arc list.

/-- **Negative statement about the unchanged code**: on the minimised witness of the finding
(arcs 1→0 with capacity 0, cost 0 and 0→1 with capacity 1, cost 1; route 1 unit from 0 to 1) the
instance has the feature, the table prices the only usable arc 0→1 at 0 instead of 1, and the
certified minimum cost is 1 (the unchanged code reports 0). -/
theorem pair_costs_misprice :
    hasPairFeature [⟨1, 0, 0, 0⟩, ⟨0, 1, 1, 1⟩] = true ∧
    (pairCosts [⟨1, 0, 0, 0⟩, ⟨0, 1, 1, 1⟩]).get 0 1 = some 0 ∧
    (Inst.ofST 2 [⟨1, 0, 0, 0⟩, ⟨0, 1, 1, 1⟩] 0 1 1).chkMinCost [0, 1] [-1, 0] 1 = true := by
  decide

/-! ### non-vacuity (C09) -/

/-- the witness of DESIGN §4 C09 (anti-parallel arcs and parallel arcs of different cost):
minimum cost 20, where the unchanged `min_cost_flow` reports −8 -/
def witnessInst : Inst := Inst.ofST 2 [⟨1, 0, 2, 2⟩, ⟨0, 1, 1, 5⟩, ⟨0, 1, 4, 5⟩, ⟨1, 0, 3, 5⟩] 0 1 4

example : witnessInst.valid = true := by decide
-- hypotheses of `chkMinCost_sound` / `reduced_cost_cert`: met by the model's own answer
example : witnessInst.chkMinCost [0, 1, 3, 0] [-5, 0] 20 = true := by decide
example : (witnessInst.ssp 0 1 4).cost = 20 := by decide
-- `ssp_sound`: the certified model answers on the witness (status feasible, cost 20) and on an infeasible one
example : (solveST 2 [⟨1, 0, 2, 2⟩, ⟨0, 1, 1, 5⟩, ⟨0, 1, 4, 5⟩, ⟨1, 0, 3, 5⟩] 0 1 4).status = .feasible := by decide
example : (solveST 2 [⟨1, 0, 2, 2⟩, ⟨0, 1, 1, 5⟩, ⟨0, 1, 4, 5⟩] 0 1 9).status = .infeasible := by decide
example : (solveTS ⟨3, [⟨0, 1, 5, 2⟩, ⟨1, 2, 5, 1⟩, ⟨0, 2, 2, 4⟩], [6, 0, -6]⟩).status = .feasible := by decide +kernel
-- hypothesis of `ssp_certifies` / `ssp_certifies_transshipment`: a network with a negative-cost arc and no
-- negative cycle, certified by the potentials (0, -1, 0)
example : (Inst.ofST 3 [⟨0, 1, 2, -1⟩, ⟨1, 2, 2, 3⟩, ⟨0, 2, 1, 1⟩] 0 2 2).NC (List.replicate 3 0) :=
  Inst.nc_of_pot _ (Inst.pot_zero _ (p := fun v => if v = 1 then -1 else 0) (by decide))
example : (solveST 3 [⟨0, 1, 2, -1⟩, ⟨1, 2, 2, 3⟩, ⟨0, 2, 1, 1⟩] 0 2 2).status = .feasible := by decide +kernel
-- hypotheses of `chkInfeas_sound` / `infeasible_cut_cert`: demand 9 exceeds the capacity 5 out of {0}
example : (Inst.ofST 2 [⟨1, 0, 2, 2⟩, ⟨0, 1, 1, 5⟩, ⟨0, 1, 4, 5⟩] 0 1 9).chkInfeas [0] = true := by decide
-- hypotheses of `assignment_of_flow` / `chkAssign_sound`: a 2×3 assignment
example : chkAssign 2 3 [2, 0] = true := by decide
example : ValidAssign 2 3 (aOf [2, 0]) := (chkAssign_sound (by decide)).2
-- hypothesis of `pair_costs_faithful_partial`: a network with parallel arcs of equal cost
example : hasPairFeature [⟨0, 1, 2, 3⟩, ⟨0, 1, 1, 3⟩, ⟨1, 2, 4, -1⟩, ⟨0, 2, 1, 5⟩] = false := by decide

end Solvor.Flow
