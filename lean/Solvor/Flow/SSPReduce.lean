import Solvor.Flow.SSPConv
import Solvor.Flow.AssignBack
/-!
Flow.SSP: the super-source / super-sink reduction `Inst.toST` used by `solveTS` preserves certificates.
-/
namespace Solvor.Flow
namespace Inst
variable (I : Inst)

/-- positive and negative part of the supply -/
def supP (v : Nat) : Int := max (I.sup v) 0
def supN (v : Nat) : Int := max (- I.sup v) 0

theorem supP_nonneg (v : Nat) : 0 ≤ I.supP v := le_max_right _ _
theorem supN_nonneg (v : Nat) : 0 ≤ I.supN v := le_max_right _ _
theorem supP_sub_supN (v : Nat) : I.supP v - I.supN v = I.sup v := by
  unfold supP supN
  rcases Int.le_total (I.sup v) 0 with h | h
  · rw [max_eq_right h, max_eq_left (by omega)]; omega
  · rw [max_eq_left h, max_eq_right (by omega)]; omega

/-- the reduced instance and its demand -/
def J : Inst := I.toST.1
def dem : Int := lsum (List.range I.n) I.supP

theorem J_eq : I.J = Inst.ofST (I.n + 2)
    (I.arcs ++ ((List.range I.n).map (fun v => Arc.mk I.n v (I.supP v) 0) ++
      (List.range I.n).map (fun v => Arc.mk v (I.n + 1) (I.supN v) 0))) I.n (I.n + 1) I.dem := rfl

theorem toST_snd : I.toST.2 = I.dem := rfl
theorem J_n : I.J.n = I.n + 2 := rfl
theorem J_m : I.J.m = I.m + (I.n + I.n) := by
  show (I.arcs ++ _).length = _
  simp [Inst.m]

theorem asumI_arcs (F : Nat → Arc → Int) :
    asumI I.arcs 0 F = lsum (List.range I.m) (fun i => F i (I.arc i)) :=
  (lsum_range_getD_idx I.arcs _ F).symm

/-- sums over the arcs of the reduced instance, by groups -/
theorem lsum_J (F : Nat → Arc → Int) :
    lsum (List.range I.J.m) (fun i => F i (I.J.arc i)) =
      lsum (List.range I.m) (fun i => F i (I.arc i)) +
      (lsum (List.range I.n) (fun v => F (I.m + v) ⟨I.n, v, I.supP v, 0⟩) +
       lsum (List.range I.n) (fun v => F (I.m + I.n + v) ⟨v, I.n + 1, I.supN v, 0⟩)) := by
  show lsum (List.range I.J.arcs.length) (fun i => F i (I.J.arcs.getD i _)) = _
  rw [lsum_range_getD_idx, J_eq]
  show asumI (I.arcs ++ _) 0 F = _
  rw [asumI_append, asumI_append, asumI_map_range, asumI_map_range, I.asumI_arcs, List.length_map,
    List.length_range]
  simp only [Nat.zero_add]
  rfl

theorem J_arc_lt {i : Nat} (hi : i < I.m) : I.J.arc i = I.arc i := by
  show (I.arcs ++ _).getD i _ = I.arcs.getD i _
  have hi' : i < I.arcs.length := hi
  simp [List.getD, List.getElem?_append_left hi']

theorem J_arc_src {v : Nat} (hv : v < I.n) : I.J.arc (I.m + v) = ⟨I.n, v, I.supP v, 0⟩ := by
  show (I.arcs ++ _).getD (I.arcs.length + v) _ = _
  simp [List.getD, List.getElem?_append_right, List.getElem?_append_left, hv, supP]

theorem J_arc_snk {v : Nat} (hv : v < I.n) : I.J.arc (I.m + I.n + v) = ⟨v, I.n + 1, I.supN v, 0⟩ := by
  show (I.arcs ++ _).getD (I.arcs.length + I.n + v) _ = _
  have : I.arcs.length + I.n + v = I.arcs.length + (I.n + v) := by omega
  rw [this]
  simp [List.getD, hv, supN]

theorem J_cases {i : Nat} (hi : i < I.J.m) :
    i < I.m ∨ (∃ v, v < I.n ∧ i = I.m + v) ∨ (∃ v, v < I.n ∧ i = I.m + I.n + v) := by
  rw [I.J_m] at hi
  by_cases h1 : i < I.m
  · exact Or.inl h1
  · by_cases h2 : i < I.m + I.n
    · exact Or.inr (Or.inl ⟨i - I.m, by omega, by omega⟩)
    · exact Or.inr (Or.inr ⟨i - I.m - I.n, by omega, by omega⟩)

theorem J_valid (hv : I.Valid) : I.J.Valid := by
  intro i hi
  rw [I.J_n]
  rcases I.J_cases hi with h | ⟨v, hv', rfl⟩ | ⟨v, hv', rfl⟩
  · rw [I.J_arc_lt h]
    have := hv i h
    omega
  · rw [I.J_arc_src hv']; simp; omega
  · rw [I.J_arc_snk hv']; simp; omega

theorem J_cap_nonneg (hcap : ∀ i < I.m, 0 ≤ (I.arc i).cap) : ∀ i < I.J.m, 0 ≤ (I.J.arc i).cap := by
  intro i hi
  rcases I.J_cases hi with h | ⟨v, hv', rfl⟩ | ⟨v, hv', rfl⟩
  · rw [I.J_arc_lt h]; exact hcap i h
  · rw [I.J_arc_src hv']; exact I.supP_nonneg v
  · rw [I.J_arc_snk hv']; exact I.supN_nonneg v

/-- potentials of the reduced instance: the super source above, the super sink below all nodes -/
def potJ (p : Nat → Int) (v : Nat) : Int :=
  if v = I.n then lsum (List.range I.n) (fun u => |p u|)
  else if v = I.n + 1 then - lsum (List.range I.n) (fun u => |p u|) else p v

theorem J_pot (hv : I.Valid) {p : Nat → Int} (hp : ∀ i < I.m, 0 < (I.arc i).cap → 0 ≤ I.rc p i) :
    ∀ i < I.J.m, 0 < (I.J.arc i).cap → 0 ≤ I.J.rc (I.potJ p) i := by
  intro i hi hc
  have hbound : ∀ v < I.n, |p v| ≤ lsum (List.range I.n) (fun u => |p u|) := fun v hv' =>
    term_le_lsum (g := fun u => |p u|) (fun _ _ => abs_nonneg _) (List.mem_range.2 hv')
  unfold rc
  rcases I.J_cases hi with h | ⟨v, hv', rfl⟩ | ⟨v, hv', rfl⟩
  · rw [I.J_arc_lt h] at hc ⊢
    have hb := hv i h
    have := hp i h hc
    unfold rc at this
    have e1 : I.potJ p (I.arc i).src = p (I.arc i).src := by
      unfold potJ; rw [if_neg (by omega), if_neg (by omega)]
    have e2 : I.potJ p (I.arc i).tgt = p (I.arc i).tgt := by
      unfold potJ; rw [if_neg (by omega), if_neg (by omega)]
    rw [e1, e2]; exact this
  · rw [I.J_arc_src hv']
    have e1 : I.potJ p I.n = lsum (List.range I.n) (fun u => |p u|) := by unfold potJ; simp
    have e2 : I.potJ p v = p v := by unfold potJ; rw [if_neg (by omega), if_neg (by omega)]
    simp only
    rw [e1, e2]
    have := hbound v hv'
    have := le_abs_self (p v)
    omega
  · rw [I.J_arc_snk hv']
    have e1 : I.potJ p (I.n + 1) = - lsum (List.range I.n) (fun u => |p u|) := by unfold potJ; simp
    have e2 : I.potJ p v = p v := by unfold potJ; rw [if_neg (by omega), if_neg (by omega)]
    simp only
    rw [e1, e2]
    have := hbound v hv'
    have := neg_abs_le (p v)
    omega

/-! ### transfer of an optimality certificate -/

theorem fl_take (X : List Int) (k i : Nat) : fl (X.take k) i = if i < k then fl X i else 0 := by
  unfold fl
  simp only [List.getD, List.getElem?_take]
  split <;> rfl

theorem lsum_eq_forces {l : List Nat} {g h : Nat → Int} (hle : ∀ u ∈ l, g u ≤ h u) (he : lsum l g = lsum l h) :
    ∀ u ∈ l, g u = h u := by
  intro u hu
  have h0 : lsum l (fun w => h w - g w) = 0 := by rw [lsum_sub]; omega
  have := term_le_lsum (g := fun w => h w - g w) (fun w hw => by have := hle w hw; omega) hu
  have := hle u hu
  omega

theorem J_outF (X : Nat → Int) (v : Nat) :
    I.J.outF X v = lsum (List.range I.m) (fun i => if (I.arc i).src = v then X i else 0) +
      (lsum (List.range I.n) (fun u => if I.n = v then X (I.m + u) else 0) +
       lsum (List.range I.n) (fun u => if u = v then X (I.m + I.n + u) else 0)) := by
  unfold outF
  exact I.lsum_J (fun i a => if a.src = v then X i else 0)

theorem J_inF (X : Nat → Int) (v : Nat) :
    I.J.inF X v = lsum (List.range I.m) (fun i => if (I.arc i).tgt = v then X i else 0) +
      (lsum (List.range I.n) (fun u => if u = v then X (I.m + u) else 0) +
       lsum (List.range I.n) (fun u => if I.n + 1 = v then X (I.m + I.n + u) else 0)) := by
  unfold inF
  exact I.lsum_J (fun i a => if a.tgt = v then X i else 0)

theorem J_costF (X : Nat → Int) :
    I.J.costF X = lsum (List.range I.m) (fun i => (I.arc i).cost * X i) := by
  unfold costF
  rw [I.lsum_J (fun i a => a.cost * X i)]
  have z1 : lsum (List.range I.n) (fun v => (⟨I.n, v, I.supP v, 0⟩ : Arc).cost * X (I.m + v)) = 0 :=
    lsum_eq_zero (fun v _ => by simp)
  have z2 : lsum (List.range I.n) (fun v => (⟨v, I.n + 1, I.supN v, 0⟩ : Arc).cost * X (I.m + I.n + v)) = 0 :=
    lsum_eq_zero (fun v _ => by simp)
  rw [z1, z2]; simp

theorem J_sup {v : Nat} (hv : v < I.n + 2) :
    I.J.sup v = (if v = I.n then I.dem else 0) - (if v = I.n + 1 then I.dem else 0) := by
  rw [I.J_eq]
  exact ofST_sup _ _ _ _ _ hv

theorem dem_eq_supN (hbal : lsum (List.range I.n) I.sup = 0) : I.dem = lsum (List.range I.n) I.supN := by
  have : lsum (List.range I.n) I.sup = lsum (List.range I.n) I.supP - lsum (List.range I.n) I.supN := by
    rw [← lsum_sub]
    exact lsum_congr (fun v _ => (I.supP_sub_supN v).symm)
  unfold dem
  omega

/-- in a feasible flow of the reduced instance the arcs out of the super source and into the super
sink are saturated -/
theorem J_saturated (hv : I.Valid) (hbal : lsum (List.range I.n) I.sup = 0) {X : Nat → Int} (hX : I.J.Feas X) :
    (∀ u < I.n, X (I.m + u) = I.supP u) ∧ (∀ u < I.n, X (I.m + I.n + u) = I.supN u) := by
  have srcne : ∀ i < I.m, (I.arc i).src ≠ I.n ∧ (I.arc i).src ≠ I.n + 1 ∧ (I.arc i).tgt ≠ I.n ∧ (I.arc i).tgt ≠ I.n + 1 := by
    intro i hi; have := hv i hi; omega
  constructor
  · -- balance at the super source
    have b := hX.bal I.n (by rw [I.J_n]; omega)
    rw [I.J_outF, I.J_inF, I.J_sup (by omega)] at b
    have o1 : lsum (List.range I.m) (fun i => if (I.arc i).src = I.n then X i else 0) = 0 :=
      lsum_ite_false _ (fun i hi => (srcne i (List.mem_range.1 hi)).1)
    have o2 : lsum (List.range I.n) (fun u => if I.n = I.n then X (I.m + u) else 0) = lsum (List.range I.n) (fun u => X (I.m + u)) := by simp
    have o3 : lsum (List.range I.n) (fun u => if u = I.n then X (I.m + I.n + u) else 0) = 0 :=
      lsum_ite_false _ (fun u hu => by have := List.mem_range.1 hu; omega)
    have i1 : lsum (List.range I.m) (fun i => if (I.arc i).tgt = I.n then X i else 0) = 0 :=
      lsum_ite_false _ (fun i hi => (srcne i (List.mem_range.1 hi)).2.2.1)
    have i2 : lsum (List.range I.n) (fun u => if u = I.n then X (I.m + u) else 0) = 0 :=
      lsum_ite_false _ (fun u hu => by have := List.mem_range.1 hu; omega)
    have i3 : lsum (List.range I.n) (fun u => if I.n + 1 = I.n then X (I.m + I.n + u) else 0) = 0 :=
      lsum_ite_false _ (fun u _ => by omega)
    rw [o1, o2, o3, i1, i2, i3] at b
    have hsum : lsum (List.range I.n) (fun u => X (I.m + u)) = lsum (List.range I.n) I.supP := by
      have : ¬ (I.n = I.n + 1) := by omega
      simp at b
      unfold dem at b
      omega
    intro u hu
    apply lsum_eq_forces (l := List.range I.n) (g := fun u => X (I.m + u)) (h := I.supP) _ hsum u (List.mem_range.2 hu)
    intro w hw
    have hwn := List.mem_range.1 hw
    have := hX.hi (I.m + w) (by rw [I.J_m]; omega)
    rw [I.J_arc_src hwn] at this
    exact this
  · have b := hX.bal (I.n + 1) (by rw [I.J_n]; omega)
    rw [I.J_outF, I.J_inF, I.J_sup (by omega)] at b
    have o1 : lsum (List.range I.m) (fun i => if (I.arc i).src = I.n + 1 then X i else 0) = 0 :=
      lsum_ite_false _ (fun i hi => (srcne i (List.mem_range.1 hi)).2.1)
    have o2 : lsum (List.range I.n) (fun u => if I.n = I.n + 1 then X (I.m + u) else 0) = 0 :=
      lsum_ite_false _ (fun u _ => by omega)
    have o3 : lsum (List.range I.n) (fun u => if u = I.n + 1 then X (I.m + I.n + u) else 0) = 0 :=
      lsum_ite_false _ (fun u hu => by have := List.mem_range.1 hu; omega)
    have i1 : lsum (List.range I.m) (fun i => if (I.arc i).tgt = I.n + 1 then X i else 0) = 0 :=
      lsum_ite_false _ (fun i hi => (srcne i (List.mem_range.1 hi)).2.2.2)
    have i2 : lsum (List.range I.n) (fun u => if u = I.n + 1 then X (I.m + u) else 0) = 0 :=
      lsum_ite_false _ (fun u hu => by have := List.mem_range.1 hu; omega)
    have i3 : lsum (List.range I.n) (fun u => if I.n + 1 = I.n + 1 then X (I.m + I.n + u) else 0)
        = lsum (List.range I.n) (fun u => X (I.m + I.n + u)) := by simp
    rw [o1, o2, o3, i1, i2, i3] at b
    have hsum : lsum (List.range I.n) (fun u => X (I.m + I.n + u)) = lsum (List.range I.n) I.supN := by
      have : ¬ (I.n + 1 = I.n) := by omega
      simp at b
      rw [← I.dem_eq_supN hbal]
      omega
    intro u hu
    apply lsum_eq_forces (l := List.range I.n) (g := fun u => X (I.m + I.n + u)) (h := I.supN) _ hsum u (List.mem_range.2 hu)
    intro w hw
    have hwn := List.mem_range.1 hw
    have := hX.hi (I.m + I.n + w) (by rw [I.J_m]; omega)
    rw [I.J_arc_snk hwn] at this
    exact this

theorem feas_transfer (hv : I.Valid) (hbal : lsum (List.range I.n) I.sup = 0) {X : List Int}
    (hlen : X.length = I.J.m) (hX : I.J.Feas (fl X)) : I.Feas (fl (X.take I.m)) ∧ (X.take I.m).length = I.m := by
  obtain ⟨s1, s2⟩ := I.J_saturated hv hbal hX
  have hx : ∀ i < I.m, fl (X.take I.m) i = fl X i := fun i hi => by rw [fl_take, if_pos hi]
  refine ⟨⟨fun i hi => ?_, fun i hi => ?_, fun v hvn => ?_⟩, ?_⟩
  · rw [hx i hi]; exact hX.lo i (by rw [I.J_m]; omega)
  · rw [hx i hi]
    have := hX.hi i (by rw [I.J_m]; omega)
    rw [I.J_arc_lt hi] at this; exact this
  · have b := hX.bal v (by rw [I.J_n]; omega)
    rw [I.J_outF, I.J_inF, I.J_sup (by omega)] at b
    have o2 : lsum (List.range I.n) (fun u => if I.n = v then fl X (I.m + u) else 0) = 0 :=
      lsum_ite_false _ (fun u _ => by omega)
    have o3 : lsum (List.range I.n) (fun u => if u = v then fl X (I.m + I.n + u) else 0) = fl X (I.m + I.n + v) := by
      rw [lsum_single List.nodup_range (List.mem_range.2 hvn)]
      · simp
      · intro u _ hne; simp [hne]
    have i2 : lsum (List.range I.n) (fun u => if u = v then fl X (I.m + u) else 0) = fl X (I.m + v) := by
      rw [lsum_single List.nodup_range (List.mem_range.2 hvn)]
      · simp
      · intro u _ hne; simp [hne]
    have i3 : lsum (List.range I.n) (fun u => if I.n + 1 = v then fl X (I.m + I.n + u) else 0) = 0 :=
      lsum_ite_false _ (fun u _ => by omega)
    rw [o2, o3, i2, i3, s1 v hvn, s2 v hvn] at b
    have c0 : ¬ (v = I.n) := by omega
    have c1 : ¬ (v = I.n + 1) := by omega
    simp only [c0, c1, if_false] at b
    have e1 : I.outF (fl (X.take I.m)) v = lsum (List.range I.m) (fun i => if (I.arc i).src = v then fl X i else 0) := by
      unfold outF
      exact lsum_congr (fun i hi => by rw [hx i (List.mem_range.1 hi)])
    have e2 : I.inF (fl (X.take I.m)) v = lsum (List.range I.m) (fun i => if (I.arc i).tgt = v then fl X i else 0) := by
      unfold inF
      exact lsum_congr (fun i hi => by rw [hx i (List.mem_range.1 hi)])
    rw [e1, e2]
    have := I.supP_sub_supN v
    omega
  · rw [List.length_take, hlen, I.J_m]; omega

theorem minCost_transfer (hv : I.Valid) (hbal : lsum (List.range I.n) I.sup = 0) {X P : List Int} {c : Int}
    (h : I.J.chkMinCost X P c = true) : I.chkMinCost (X.take I.m) (P.take I.n) c = true := by
  unfold chkMinCost at h ⊢
  simp only [Bool.and_eq_true, beq_iff_eq] at h ⊢
  obtain ⟨⟨h1, h2⟩, h3⟩ := h
  obtain ⟨hlen, hX⟩ := (I.J.chkFeas_iff X).1 h1
  obtain ⟨f1, f2⟩ := I.feas_transfer hv hbal hlen hX
  have hs := (I.J.chkOpt_iff X P).1 h2
  have hx : ∀ i < I.m, fl (X.take I.m) i = fl X i := fun i hi => by rw [fl_take, if_pos hi]
  refine ⟨⟨(I.chkFeas_iff _).2 ⟨f2, f1⟩, (I.chkOpt_iff _ _).2 ?_⟩, ?_⟩
  · intro i hi
    have hb := hv i hi
    have := hs i (by rw [I.J_m]; omega)
    rw [I.J_arc_lt hi] at this
    have erc : I.rc (fl (P.take I.n)) i = I.J.rc (fl P) i := by
      unfold rc
      rw [I.J_arc_lt hi, fl_take, fl_take, if_pos hb.1, if_pos hb.2]
    rw [hx i hi, erc]
    exact this
  · rw [← h3, I.J_costF]
    unfold costF
    exact lsum_congr (fun i hi => by rw [hx i (List.mem_range.1 hi)])

/-! ### transfer of an infeasibility certificate -/

theorem lsum_filter (l : List Nat) (q : Nat → Bool) (g : Nat → Int) :
    lsum (l.filter q) g = lsum l (fun u => if q u then g u else 0) := by
  induction l with
  | nil => rfl
  | cons x xs ih =>
    simp only [List.filter_cons]
    cases hq : q x
    · simp [ih, hq]
    · simp [ih, hq]

theorem lsum_split_bool (l : List Nat) (q : Nat → Bool) (g : Nat → Int) :
    lsum l g = lsum l (fun u => if q u then g u else 0) + lsum l (fun u => if q u then 0 else g u) := by
  rw [← lsum_add]
  apply lsum_congr
  intro u _
  cases q u <;> simp

theorem contains_filter_lt (R : List Nat) {u : Nat} (hu : u < I.n) :
    (R.filter (· < I.n)).contains u = R.contains u := by
  cases h : R.contains u
  · have : u ∉ R := by simpa using h
    have : u ∉ R.filter (· < I.n) := fun hm => this (List.mem_filter.1 hm).1
    simpa using this
  · have : u ∈ R := by simpa using h
    have : u ∈ R.filter (· < I.n) := List.mem_filter.2 ⟨this, by simpa using hu⟩
    simpa using this

theorem infeas_transfer (hv : I.Valid) (hcap : ∀ i < I.m, 0 ≤ (I.arc i).cap)
    (hbal : lsum (List.range I.n) I.sup = 0) {R : List Nat} (h : I.J.chkInfeas R = true) :
    I.chkInfeas (R.filter (· < I.n)) = true := by
  -- the four partial sums of positive / negative supplies inside and outside R
  let PS := lsum (List.range I.n) (fun u => if R.contains u then I.supP u else 0)
  let PN := lsum (List.range I.n) (fun u => if R.contains u then 0 else I.supP u)
  let NS := lsum (List.range I.n) (fun u => if R.contains u then I.supN u else 0)
  let NN := lsum (List.range I.n) (fun u => if R.contains u then 0 else I.supN u)
  have hP : I.dem = PS + PN := lsum_split_bool _ (fun u => R.contains u) I.supP
  have hN : I.dem = NS + NN := by rw [I.dem_eq_supN hbal]; exact lsum_split_bool _ (fun u => R.contains u) I.supN
  have nnPS : 0 ≤ PS := lsum_nonneg (fun u _ => by split; exact I.supP_nonneg u; exact Int.le_refl _)
  have nnPN : 0 ≤ PN := lsum_nonneg (fun u _ => by split; exact Int.le_refl _; exact I.supP_nonneg u)
  have nnNS : 0 ≤ NS := lsum_nonneg (fun u _ => by split; exact I.supN_nonneg u; exact Int.le_refl _)
  have nnNN : 0 ≤ NN := lsum_nonneg (fun u _ => by split; exact Int.le_refl _; exact I.supN_nonneg u)
  -- supply of the restricted set in the original instance
  have hsupI : I.supplyOf (R.filter (· < I.n)) = PS - NS := by
    unfold supplyOf
    rw [lsum_filter]
    show _ = lsum _ _ - lsum _ _
    rw [← lsum_sub]
    apply lsum_congr
    intro u hu
    rw [I.contains_filter_lt R (List.mem_range.1 hu)]
    have := I.supP_sub_supN u
    cases R.contains u <;> (simp; try omega)
  -- capacities across the set: original arcs
  have hcoI : I.capOutOf (R.filter (· < I.n)) = lsum (List.range I.m) (fun i =>
      if R.contains (I.arc i).src && !R.contains (I.arc i).tgt then (I.arc i).cap else 0) := by
    unfold capOutOf
    apply lsum_congr
    intro i hi
    have hb := hv i (List.mem_range.1 hi)
    rw [I.contains_filter_lt R hb.1, I.contains_filter_lt R hb.2]
  have hciI : I.capInOf (R.filter (· < I.n)) = lsum (List.range I.m) (fun i =>
      if !R.contains (I.arc i).src && R.contains (I.arc i).tgt then (I.arc i).cap else 0) := by
    unfold capInOf
    apply lsum_congr
    intro i hi
    have hb := hv i (List.mem_range.1 hi)
    rw [I.contains_filter_lt R hb.1, I.contains_filter_lt R hb.2]
  have nnCO : 0 ≤ I.capOutOf (R.filter (· < I.n)) := by
    rw [hcoI]; exact lsum_nonneg (fun i hi => by split; exact hcap i (List.mem_range.1 hi); exact Int.le_refl _)
  have nnCI : 0 ≤ I.capInOf (R.filter (· < I.n)) := by
    rw [hciI]; exact lsum_nonneg (fun i hi => by split; exact hcap i (List.mem_range.1 hi); exact Int.le_refl _)
  -- the same quantities of the reduced instance
  have hcoJ : I.J.capOutOf R = I.capOutOf (R.filter (· < I.n)) +
      (lsum (List.range I.n) (fun u => if R.contains I.n && !R.contains u then I.supP u else 0) +
       lsum (List.range I.n) (fun u => if R.contains u && !R.contains (I.n + 1) then I.supN u else 0)) := by
    rw [hcoI]
    unfold capOutOf
    exact I.lsum_J (fun _ a => if R.contains a.src && !R.contains a.tgt then a.cap else 0)
  have hciJ : I.J.capInOf R = I.capInOf (R.filter (· < I.n)) +
      (lsum (List.range I.n) (fun u => if !R.contains I.n && R.contains u then I.supP u else 0) +
       lsum (List.range I.n) (fun u => if !R.contains u && R.contains (I.n + 1) then I.supN u else 0)) := by
    rw [hciI]
    unfold capInOf
    exact I.lsum_J (fun _ a => if !R.contains a.src && R.contains a.tgt then a.cap else 0)
  have hsupJ : I.J.supplyOf R = (if R.contains I.n then I.dem else 0) - (if R.contains (I.n + 1) then I.dem else 0) := by
    unfold supplyOf
    rw [lsum_filter, I.J_n]
    have e : ∀ u ∈ List.range (I.n + 2), (if R.contains u then I.J.sup u else 0) =
        (if u = I.n then (if R.contains I.n then I.dem else 0) else 0) -
        (if u = I.n + 1 then (if R.contains (I.n + 1) then I.dem else 0) else 0) := by
      intro u hu
      rw [I.J_sup (List.mem_range.1 hu)]
      by_cases c1 : u = I.n
      · rw [c1]
        have : ¬ (I.n = I.n + 1) := by omega
        cases R.contains I.n <;> simp
      · by_cases c2 : u = I.n + 1
        · rw [c2]
          have : ¬ (I.n + 1 = I.n) := by omega
          cases R.contains (I.n + 1) <;> simp
        · cases R.contains u <;> simp [c1, c2]
    rw [lsum_congr e, lsum_sub, lsum_ite_eq List.nodup_range (List.mem_range.2 (by omega)),
      lsum_ite_eq List.nodup_range (List.mem_range.2 (by omega))]
  have E1 : lsum (List.range I.n) (fun u => if R.contains I.n && !R.contains u then I.supP u else 0)
      = if R.contains I.n then PN else 0 := by
    cases R.contains I.n
    · simp [lsum_zero]
    · simp only [Bool.true_and, if_true]
      apply lsum_congr; intro u _; cases R.contains u <;> simp
  have E2 : lsum (List.range I.n) (fun u => if R.contains u && !R.contains (I.n + 1) then I.supN u else 0)
      = if R.contains (I.n + 1) then 0 else NS := by
    cases R.contains (I.n + 1)
    · simp only [Bool.not_false, Bool.and_true, Bool.false_eq_true, if_false]; rfl
    · simp [lsum_zero]
  have E3 : lsum (List.range I.n) (fun u => if !R.contains I.n && R.contains u then I.supP u else 0)
      = if R.contains I.n then 0 else PS := by
    cases R.contains I.n
    · simp only [Bool.not_false, Bool.true_and, Bool.false_eq_true, if_false]; rfl
    · simp [lsum_zero]
  have E4 : lsum (List.range I.n) (fun u => if !R.contains u && R.contains (I.n + 1) then I.supN u else 0)
      = if R.contains (I.n + 1) then NN else 0 := by
    cases R.contains (I.n + 1)
    · simp [lsum_zero]
    · simp only [Bool.and_true, if_true]
      apply lsum_congr; intro u _; cases R.contains u <;> simp
  unfold chkInfeas at h ⊢
  simp only [Bool.or_eq_true, decide_eq_true_eq] at h ⊢
  rw [hcoJ, hciJ, hsupJ, E1, E2, E3, E4] at h
  rw [hsupI]
  cases ha : R.contains I.n <;> cases hb : R.contains (I.n + 1) <;>
    simp only [ha, hb, if_true, if_false, Bool.false_eq_true] at h <;> omega

/-! ### the certified transshipment solver always answers -/

theorem unbalanced_cert (hv : I.Valid) (hne : lsum (List.range I.n) I.sup ≠ 0) :
    I.chkInfeas (List.range I.n) = true := by
  have hsup : I.supplyOf (List.range I.n) = lsum (List.range I.n) I.sup := by
    unfold supplyOf
    have : (List.range I.n).filter (fun v => (List.range I.n).contains v) = List.range I.n :=
      List.filter_eq_self.2 (fun v hv' => by simpa using hv')
    rw [this]
  have hco : I.capOutOf (List.range I.n) = 0 := by
    unfold capOutOf
    apply lsum_eq_zero
    intro i hi
    have hb := hv i (List.mem_range.1 hi)
    have : (List.range I.n).contains (I.arc i).tgt = true := by simpa using hb.2
    rw [this]; simp
  have hci : I.capInOf (List.range I.n) = 0 := by
    unfold capInOf
    apply lsum_eq_zero
    intro i hi
    have hb := hv i (List.mem_range.1 hi)
    have : (List.range I.n).contains (I.arc i).src = true := by simpa using hb.1
    rw [this]; simp
  unfold chkInfeas
  rw [hsup, hco, hci]
  simp only [Bool.or_eq_true, decide_eq_true_eq]
  omega

theorem solveTS_answers (hv : I.Valid) (hcap : ∀ i < I.m, 0 ≤ (I.arc i).cap) {p : Nat → Int}
    (hp : ∀ i < I.m, 0 < (I.arc i).cap → 0 ≤ I.rc p i) : (solveTS I).status ≠ .negcycle := by
  unfold solveTS
  by_cases hb : lsum (List.range I.n) I.sup = 0
  · have hb' : (lsum (List.range I.n) I.sup != 0) = false := by simp [hb]
    rw [if_neg (by simp [hb'])]
    show (I.certify { I.J.ssp I.n (I.n + 1) I.dem with
      x := (I.J.ssp I.n (I.n + 1) I.dem).x.take I.m,
      pot := (I.J.ssp I.n (I.n + 1) I.dem).pot.take I.n,
      reach := (I.J.ssp I.n (I.n + 1) I.dem).reach.filter (· < I.n) }).status ≠ .negcycle
    have hJv := I.J_valid hv
    have hJc := I.J_cap_nonneg hcap
    have hdem : 0 ≤ I.dem := lsum_nonneg (fun v _ => I.supP_nonneg v)
    have hsn : I.n < I.J.n := by rw [I.J_n]; omega
    have htn : I.n + 1 < I.J.n := by rw [I.J_n]; omega
    have hans := I.J.ssp_answers hJv hJc hsn htn hdem (I.J_pot hv hp)
    have hsup : I.J.STsup I.n (I.n + 1) I.dem := fun v hvn => I.J_sup (by rw [I.J_n] at hvn; exact hvn)
    have hcert := I.J.ssp_cert hJv hJc hsn htn hdem hsup
    generalize I.J.ssp I.n (I.n + 1) I.dem = o at hans hcert
    unfold certify
    cases hs : o.status with
    | feasible =>
      simp only
      have := I.minCost_transfer hv hb (hcert.1 hs)
      rw [if_pos this]
      exact hans
    | infeasible =>
      simp only
      have := I.infeas_transfer hv hcap hb (hcert.2 hs)
      rw [if_pos this]
      exact hans
    | negcycle => exact absurd hs hans
  · have hb' : (lsum (List.range I.n) I.sup != 0) = true := by simp [hb]
    rw [if_pos hb']
    unfold certify
    simp only
    rw [if_pos (I.unbalanced_cert hv hb)]
    simp

end Inst
end Solvor.Flow
