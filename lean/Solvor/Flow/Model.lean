import Solvor.Flow.Basic
import Solvor.Flow.EK
/-! Flow: executable models (no Mathlib imports).  `EK` = max_flow mirror (C08). -/
