import Solvor.Flow.Basic
import Solvor.Flow.EK
import Solvor.Flow.SSP
import Solvor.Flow.Assignment
import Solvor.Flow.PairCost
/-! Flow: executable models (no Mathlib imports).
`EK` = max_flow mirror + max-flow checker (C08); `SSP` = min-cost-flow checkers + certifying
successive-shortest-paths reference, `Assignment` = the network of solve_assignment (C09). -/
