import Solvor.Flow.Basic
import Solvor.Flow.EK
import Solvor.Flow.SSP
/-! Flow: executable models (no Mathlib imports).
`EK` = max_flow mirror + max-flow checker (C08); `SSP` = min-cost-flow checkers + certifying
successive-shortest-paths reference (C09). -/
