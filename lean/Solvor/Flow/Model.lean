/-! Flow: executable models (no Mathlib imports). -/
namespace Solvor.Flow

end Solvor.Flow
