import Solvor.Backend.Model
/-! Backend: helper lemmas (walks, verified reachability, potentials, tree certificates, paths). -/
namespace Solvor.Backend

/-! ### Walks -/

theorem Walk.mono {es es' : List WEdge} (h : ∀ e ∈ es, e ∈ es') {u v : Nat} {x : Int}
    (w : Walk es u v x) : Walk es' u v x := by
  induction w with
  | nil => exact Walk.nil _
  | snoc _ he ih => exact Walk.snoc ih (h _ he)

theorem Walk.edge {es : List WEdge} {u v : Nat} {w : Int} (h : (u, v, w) ∈ es) : Walk es u v w := by
  have := Walk.snoc (Walk.nil (es := es) u) h
  simpa using this

theorem Walk.trans {es : List WEdge} {a b c : Nat} {x y : Int}
    (p : Walk es a b x) (q : Walk es b c y) : Walk es a c (x + y) := by
  induction q with
  | nil => simpa using p
  | snoc _ he ih =>
    have := Walk.snoc ih he
    rwa [Int.add_assoc] at this

theorem Walk.cons {es : List WEdge} {u v t : Nat} {w x : Int}
    (h : (u, v, w) ∈ es) (p : Walk es v t x) : Walk es u t (w + x) :=
  Walk.trans (Walk.edge h) p

theorem Reach.refl (es : List WEdge) (u : Nat) : Reach es u u := ⟨0, Walk.nil u⟩

theorem Reach.step {es : List WEdge} {s u v : Nat} {w : Int} (h : Reach es s u) (he : (u, v, w) ∈ es) :
    Reach es s v := by
  obtain ⟨x, hx⟩ := h
  exact ⟨x + w, Walk.snoc hx he⟩

theorem Reach.trans {es : List WEdge} {a b c : Nat} (h : Reach es a b) (h' : Reach es b c) : Reach es a c := by
  obtain ⟨x, hx⟩ := h
  obtain ⟨y, hy⟩ := h'
  exact ⟨x + y, hx.trans hy⟩

theorem Reach.mono {es es' : List WEdge} (h : ∀ e ∈ es, e ∈ es') {u v : Nat} (r : Reach es u v) :
    Reach es' u v := by
  obtain ⟨x, hx⟩ := r
  exact ⟨x, hx.mono h⟩

theorem isDist_unique {es : List WEdge} {s v : Nat} {o o' : Option Int}
    (h : IsDist es s v o) (h' : IsDist es s v o') : o = o' := by
  cases o with
  | none =>
    cases o' with
    | none => rfl
    | some y => exact absurd ⟨y, h'.1⟩ h
  | some x =>
    cases o' with
    | none => exact absurd ⟨x, h.1⟩ h'
    | some y =>
      have h1 := h.2 y h'.1
      have h2 := h'.2 x h.1
      congr 1
      omega

theorem isDist_congr {es es' : List WEdge} (h : ∀ e, e ∈ es ↔ e ∈ es') {s v : Nat} {o : Option Int} :
    IsDist es s v o ↔ IsDist es' s v o := by
  have w : ∀ a b x, Walk es a b x ↔ Walk es' a b x :=
    fun a b x => ⟨Walk.mono fun e he => (h e).1 he, Walk.mono fun e he => (h e).2 he⟩
  cases o with
  | none => simp only [IsDist, Reach, w]
  | some x => simp only [IsDist, w]

/-! ### Valid inputs -/

theorem validW_iff {n : Nat} {es : List WEdge} :
    validW n es = true ↔ ∀ e ∈ es, e.1 < n ∧ e.2.1 < n := by
  simp [validW, List.all_eq_true]

theorem Walk.lt_of_valid {n : Nat} {es : List WEdge} (hv : validW n es = true) {s v : Nat} {x : Int}
    (hs : s < n) (w : Walk es s v x) : v < n := by
  induction w with
  | nil => exact hs
  | snoc _ he _ => exact ((validW_iff.1 hv) _ he).2

/-! ### Verified reachability -/

/-- nodes `< n` not yet in `R` -/
def missing (n : Nat) (R : List Nat) : Nat := ((List.range n).filter fun v => !R.contains v).length

theorem filter_length_lt {l : List Nat} {p q : Nat → Bool} (hpq : ∀ x, q x = true → p x = true)
    {a : Nat} (ha : a ∈ l) (hpa : p a = true) (hqa : q a = false) :
    (l.filter q).length < (l.filter p).length := by
  induction l with
  | nil => cases ha
  | cons b l ih =>
    have mono : (l.filter q).length ≤ (l.filter p).length := by
      clear ih ha
      induction l with
      | nil => simp
      | cons c l ih =>
        simp only [List.filter_cons]
        by_cases hq : q c = true
        · simp [hq, hpq c hq, ih]
        · by_cases hp : p c = true
          · simp [hq, hp]; omega
          · simp [hq, hp, ih]
    simp only [List.filter_cons]
    rcases List.mem_cons.1 ha with rfl | ha'
    · simp [hpa, hqa]; omega
    · have := ih ha'
      by_cases hq : q b = true
      · simp [hq, hpq b hq]; omega
      · by_cases hp : p b = true
        · simp [hq, hp]; omega
        · simp [hq, hp]; omega

theorem missing_cons_lt {n : Nat} {R : List Nat} {v : Nat} (hv : v < n) (hnot : R.contains v = false) :
    missing n (v :: R) < missing n R := by
  unfold missing
  apply filter_length_lt (a := v)
  · intro x hx
    simp only [List.contains_cons, Bool.or_eq_false_iff, Bool.not_eq_eq_eq_not,
      Bool.not_true] at hx ⊢
    exact hx.2
  · exact List.mem_range.2 hv
  · have : v ∉ R := by simpa using hnot
    simp [this]
  · simp

theorem missing_le (n : Nat) (R : List Nat) : missing n R ≤ n := by
  unfold missing
  exact Nat.le_trans (List.length_filter_le _ _) (by simp)

theorem reachGo_subset (es : List WEdge) (fuel : Nat) (R : List Nat) : ∀ r ∈ R, r ∈ reachGo es fuel R := by
  induction fuel generalizing R with
  | zero => intro r hr; simpa [reachGo] using hr
  | succ k ih =>
    intro r hr
    unfold reachGo
    split
    · exact hr
    · exact ih _ r (List.mem_cons_of_mem _ hr)

theorem reachGo_sound (es : List WEdge) (s : Nat) (fuel : Nat) (R : List Nat)
    (hR : ∀ r ∈ R, Reach es s r) : ∀ r ∈ reachGo es fuel R, Reach es s r := by
  induction fuel generalizing R with
  | zero => simpa [reachGo] using hR
  | succ k ih =>
    unfold reachGo
    split
    · exact hR
    · rename_i e he
      apply ih
      intro r hr
      rcases List.mem_cons.1 hr with rfl | hr
      · have hmem := List.mem_of_find?_eq_some he
        have hp := List.find?_some he
        simp only [Bool.and_eq_true, List.contains_eq_mem, decide_eq_true_eq] at hp
        exact (hR _ hp.1).step (w := e.2.2) hmem
      · exact hR r hr

theorem reachGo_closed (n : Nat) (es : List WEdge) (hv : validW n es = true) (fuel : Nat) (R : List Nat)
    (hfuel : missing n R ≤ fuel) :
    ∀ e ∈ es, e.1 ∈ reachGo es fuel R → e.2.1 ∈ reachGo es fuel R := by
  induction fuel generalizing R with
  | zero =>
    intro e he h1
    simp only [reachGo] at h1 ⊢
    -- no node `< n` is missing, and `e.2.1 < n`
    have hlt := ((validW_iff.1 hv) e he).2
    have h0 : missing n R = 0 := Nat.le_zero.1 hfuel
    unfold missing at h0
    have := List.length_eq_zero_iff.1 h0
    have hnot := List.filter_eq_nil_iff.1 this e.2.1 (List.mem_range.2 hlt)
    simpa using hnot
  | succ k ih =>
    intro e he
    unfold reachGo
    split
    · rename_i hnone
      intro h1
      have := List.find?_eq_none.1 hnone e he
      simp only [Bool.and_eq_true, List.contains_eq_mem, decide_eq_true_eq, Bool.not_eq_true',
        decide_eq_false_iff_not, not_and, Decidable.not_not] at this
      exact this h1
    · rename_i e' he'
      have hmem := List.mem_of_find?_eq_some he'
      have hp := List.find?_some he'
      simp only [Bool.and_eq_true, Bool.not_eq_true'] at hp
      have hlt := ((validW_iff.1 hv) e' hmem).2
      have := missing_cons_lt (n := n) hlt hp.2
      exact ih _ (by omega) e he

theorem closed_complete {es : List WEdge} {R : List Nat} {s : Nat} (hs : s ∈ R)
    (hcl : ∀ e ∈ es, e.1 ∈ R → e.2.1 ∈ R) {v : Nat} {x : Int} (w : Walk es s v x) : v ∈ R := by
  induction w with
  | nil => exact hs
  | snoc _ he ih => exact hcl _ he ih

theorem mem_reachList_iff {n : Nat} {es : List WEdge} (hv : validW n es = true) {s v : Nat} :
    v ∈ reachList n es s ↔ Reach es s v := by
  unfold reachList
  constructor
  · intro h
    refine reachGo_sound es s n [s] ?_ v h
    intro r hr
    rw [List.mem_singleton.1 hr]
    exact Reach.refl es s
  · rintro ⟨x, hx⟩
    exact closed_complete (reachGo_subset es n [s] s (List.mem_singleton.2 rfl))
      (reachGo_closed n es hv n [s] (missing_le n [s])) hx

end Solvor.Backend
