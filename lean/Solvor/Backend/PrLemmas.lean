import Solvor.Backend.Model
import Mathlib.Algebra.Order.Field.Rat
import Mathlib.Tactic.Linarith
import Mathlib.Tactic.Ring
import Mathlib.Tactic.FieldSimp
import Mathlib.Algebra.Order.Field.Basic
import Mathlib.Algebra.Order.Ring.Abs
/-! Backend: the PageRank step is an L1 contraction with factor `d` (list-sum bookkeeping). -/
namespace Solvor.Backend

theorem absR_eq (q : Rat) : absR q = |q| := by
  unfold absR
  split
  · rename_i h; exact (abs_of_neg h).symm
  · rename_i h; exact (abs_of_nonneg (not_lt.1 h)).symm

section sums
variable {α : Type}

theorem sum_map_add' (l : List α) (f g : α → Rat) :
    (l.map fun a => f a + g a).sum = (l.map f).sum + (l.map g).sum := by
  induction l with
  | nil => simp
  | cons a l ih => simp only [List.map_cons, List.sum_cons, ih]; ring

theorem sum_map_mul' (l : List α) (c : Rat) (f : α → Rat) :
    (l.map fun a => c * f a).sum = c * (l.map f).sum := by
  induction l with
  | nil => simp
  | cons a l ih => simp only [List.map_cons, List.sum_cons, ih]; ring

theorem abs_sum_le' (l : List α) (f : α → Rat) : |(l.map f).sum| ≤ (l.map fun a => |f a|).sum := by
  induction l with
  | nil => simp
  | cons a l ih =>
    simp only [List.map_cons, List.sum_cons]
    exact le_trans (abs_add_le _ _) (by linarith)

theorem sum_le_sum' (l : List α) (f g : α → Rat) (h : ∀ a ∈ l, f a ≤ g a) :
    (l.map f).sum ≤ (l.map g).sum := by
  induction l with
  | nil => simp
  | cons a l ih =>
    simp only [List.map_cons, List.sum_cons]
    have h1 := h a List.mem_cons_self
    have h2 := ih fun b hb => h b (List.mem_cons_of_mem _ hb)
    linarith

theorem sum_nonneg' (l : List α) (f : α → Rat) (h : ∀ a ∈ l, 0 ≤ f a) : 0 ≤ (l.map f).sum := by
  induction l with
  | nil => simp
  | cons a l ih =>
    simp only [List.map_cons, List.sum_cons]
    have h1 := h a List.mem_cons_self
    have h2 := ih fun b hb => h b (List.mem_cons_of_mem _ hb)
    linarith

theorem single_le_sum' (l : List α) (f : α → Rat) (h : ∀ a ∈ l, 0 ≤ f a) {a : α} (ha : a ∈ l) :
    f a ≤ (l.map f).sum := by
  induction l with
  | nil => cases ha
  | cons b l ih =>
    simp only [List.map_cons, List.sum_cons]
    have hb := h b List.mem_cons_self
    have hl := sum_nonneg' l f fun c hc => h c (List.mem_cons_of_mem _ hc)
    rcases List.mem_cons.1 ha with rfl | ha'
    · linarith
    · have := ih (fun c hc => h c (List.mem_cons_of_mem _ hc)) ha'
      linarith

theorem sum_const' (l : List α) (c : Rat) : (l.map fun _ => c).sum = l.length * c := by
  induction l with
  | nil => simp
  | cons a l ih => simp only [List.map_cons, List.sum_cons, ih, List.length_cons]; push_cast; ring

theorem sum_filter_split (l : List α) (p : α → Bool) (f : α → Rat) :
    (l.map f).sum = ((l.filter p).map f).sum + ((l.filter fun a => !p a).map f).sum := by
  induction l with
  | nil => simp
  | cons a l ih =>
    simp only [List.map_cons, List.sum_cons, List.filter_cons, ih]
    cases p a <;> simp <;> ring

theorem sum_map_zero' (l : List α) : (l.map fun _ => (0 : Rat)).sum = 0 := by
  induction l with
  | nil => rfl
  | cons a l ih => simp only [List.map_cons, List.sum_cons, ih]; ring

theorem indicator_sum (n m : Nat) (c : Rat) (h : m < n) :
    ((List.range n).map fun k => if (m == k) = true then c else 0).sum = c := by
  induction n with
  | zero => omega
  | succ n ih =>
    rw [List.range_succ, List.map_append, List.sum_append]
    by_cases hm : m = n
    · subst hm
      have h0 : ∀ k ∈ List.range m, (if (m == k) = true then c else (0 : Rat)) = 0 := by
        intro k hk
        have := List.mem_range.1 hk
        have hne : (m == k) = false := by
          rw [beq_eq_false_iff_ne]; omega
        rw [hne]
        rfl
      rw [List.map_congr_left h0, sum_map_zero']
      have : (m == m) = true := by simp
      simp only [List.map_cons, List.map_nil, List.sum_cons, List.sum_nil, this, if_true]
      ring
    · have hlt : m < n := by omega
      rw [ih hlt]
      have hne : (m == n) = false := by
        rw [beq_eq_false_iff_ne]; exact hm
      simp only [List.map_cons, List.map_nil, List.sum_cons, List.sum_nil, hne]
      ring_nf
      simp

/-- regroup a sum by a key with values `< n` -/
theorem fiber_sum (n : Nat) (l : List α) (key : α → Nat) (F : α → Rat) (h : ∀ e ∈ l, key e < n) :
    ((List.range n).map fun k => ((l.filter fun e => key e == k).map F).sum).sum = (l.map F).sum := by
  induction l with
  | nil => simp
  | cons a l ih =>
    have ha := h a List.mem_cons_self
    have hl := ih fun e he => h e (List.mem_cons_of_mem _ he)
    have : ∀ k, (((a :: l).filter fun e => key e == k).map F).sum =
        (if (key a == k) = true then F a else 0) + ((l.filter fun e => key e == k).map F).sum := by
      intro k
      simp only [List.filter_cons]
      cases key a == k <;> simp
    simp only [this]
    rw [sum_map_add', indicator_sum n (key a) (F a) ha, hl]
    simp

end sums

theorem validU_iff {n : Nat} {es : List (Nat × Nat)} :
    validU n es = true ↔ ∀ e ∈ es, e.1 < n ∧ e.2 < n := by
  simp [validU, List.all_eq_true]

/-- Σ_e h(src e)/out(src e) over all edges = Σ over the non-dangling nodes of h -/
theorem sum_over_sources (n : Nat) (es : List (Nat × Nat)) (hv : validU n es = true) (h : Nat → Rat) :
    (es.map fun e => h e.1 / outCount es e.1).sum =
      (((List.range n).filter fun u => !(outCount es u == 0)).map h).sum := by
  rw [← fiber_sum n es (fun e => e.1) _ fun e he => ((validU_iff.1 hv) e he).1]
  -- inner sum over the fibre of `u`: out(u) copies of h u / out(u)
  have inner : ∀ u, ((es.filter fun e => e.1 == u).map fun e => h e.1 / outCount es e.1).sum =
      if outCount es u == 0 then 0 else h u := by
    intro u
    have hc : ((es.filter fun e => e.1 == u).map fun e => h e.1 / (outCount es e.1 : Rat)) =
        ((es.filter fun e => e.1 == u).map fun _ => h u / (outCount es u : Rat)) := by
      apply List.map_congr_left
      intro e he
      have := (List.mem_filter.1 he).2
      simp only [beq_iff_eq] at this
      rw [this]
    rw [hc, sum_const']
    have hlen : (es.filter fun e => e.1 == u).length = outCount es u := rfl
    rw [hlen]
    by_cases h0 : outCount es u = 0
    · simp [h0]
    · have : (outCount es u == 0) = false := by simp [h0]
      simp only [this]
      have hne : (outCount es u : Rat) ≠ 0 := by exact_mod_cast h0
      simp only [Bool.false_eq_true, if_false]
      field_simp
  rw [List.map_congr_left (fun u _ => inner u)]
  -- Σ_{u<n} (if dangling then 0 else h u) = Σ over the filtered list
  have gen : ∀ l : List Nat, (l.map fun u => if outCount es u == 0 then (0 : Rat) else h u).sum =
      ((l.filter fun u => !(outCount es u == 0)).map h).sum := by
    intro l
    induction l with
    | nil => simp
    | cons a l ih =>
      simp only [List.map_cons, List.sum_cons, List.filter_cons, ih]
      cases outCount es a == 0 <;> simp
  exact gen _

/-- the PageRank step contracts the L1 distance of score functions by the factor `d` -/
theorem stepF_contract (n : Nat) (es : List (Nat × Nat)) (d : Rat) (hd : 0 ≤ d) (hv : validU n es = true)
    (f g : Nat → Rat) :
    ((List.range n).map fun v => |stepF n es d f v - stepF n es d g v|).sum ≤
      d * ((List.range n).map fun u => |f u - g u|).sum := by
  let z : Nat → Rat := fun u => f u - g u
  let dang := (List.range n).filter fun u => outCount es u == 0
  let Dz : Rat := (dang.map z).sum
  -- pointwise form of the difference
  have hdiff : ∀ v, stepF n es d f v - stepF n es d g v =
      d * ((es.filter fun e => e.2 == v).map fun e => z e.1 / outCount es e.1).sum + d * Dz / n := by
    intro v
    have e1 : ((es.filter fun e => e.2 == v).map fun e => z e.1 / (outCount es e.1 : Rat)).sum =
        ((es.filter fun e => e.2 == v).map fun e => f e.1 / (outCount es e.1 : Rat)).sum -
        ((es.filter fun e => e.2 == v).map fun e => g e.1 / (outCount es e.1 : Rat)).sum := by
      have := sum_map_add' (es.filter fun e => e.2 == v) (fun e => z e.1 / (outCount es e.1 : Rat))
        (fun e => g e.1 / (outCount es e.1 : Rat))
      have hc : ((es.filter fun e => e.2 == v).map fun e => z e.1 / (outCount es e.1 : Rat) + g e.1 / (outCount es e.1 : Rat)) =
          ((es.filter fun e => e.2 == v).map fun e => f e.1 / (outCount es e.1 : Rat)) := by
        apply List.map_congr_left
        intro e _
        simp only [z]
        ring
      rw [hc] at this
      linarith
    have e2 : Dz = (dang.map f).sum - (dang.map g).sum := by
      have := sum_map_add' dang z g
      have hc : (dang.map fun u => z u + g u) = dang.map f := by
        apply List.map_congr_left
        intro u _
        simp only [z]
        ring
      rw [hc] at this
      simp only [Dz]
      linarith
    unfold stepF
    rw [e1, e2]
    ring
  -- bound each entry
  have hn : (0 : Rat) ≤ n := by exact_mod_cast Nat.zero_le n
  have hentry : ∀ v ∈ List.range n, |stepF n es d f v - stepF n es d g v| ≤
      d * ((es.filter fun e => e.2 == v).map fun e => |z e.1| / outCount es e.1).sum + d * |Dz| / n := by
    intro v _
    rw [hdiff v]
    refine le_trans (abs_add_le _ _) ?_
    have h1 : |d * ((es.filter fun e => e.2 == v).map fun e => z e.1 / (outCount es e.1 : Rat)).sum| ≤
        d * ((es.filter fun e => e.2 == v).map fun e => |z e.1| / (outCount es e.1 : Rat)).sum := by
      rw [abs_mul, abs_of_nonneg hd]
      apply mul_le_mul_of_nonneg_left _ hd
      refine le_trans (abs_sum_le' _ _) (le_of_eq ?_)
      congr 1
      apply List.map_congr_left
      intro e _
      have : (0 : Rat) ≤ outCount es e.1 := by exact_mod_cast Nat.zero_le _
      rw [abs_div, abs_of_nonneg this]
    have h2 : |d * Dz / n| = d * |Dz| / n := by
      rw [abs_div, abs_mul, abs_of_nonneg hd, abs_of_nonneg hn]
    linarith
  refine le_trans (sum_le_sum' _ _ _ hentry) ?_
  rw [sum_map_add', sum_map_mul', sum_const']
  -- first part: regroup by target, then by source
  rw [fiber_sum n es (fun e => e.2) (fun e => |z e.1| / outCount es e.1) fun e he => ((validU_iff.1 hv) e he).2]
  rw [sum_over_sources n es hv fun u => |z u|]
  -- second part: n * (d |Dz| / n) ≤ d * Σ_{dangling} |z|
  have hD : |Dz| ≤ (dang.map fun u => |z u|).sum := abs_sum_le' dang z
  have hsecond : ((List.range n).length : Rat) * (d * |Dz| / n) ≤ d * (dang.map fun u => |z u|).sum := by
    rw [List.length_range]
    by_cases h0 : n = 0
    · subst h0
      simp
      exact mul_nonneg hd (sum_nonneg' _ _ fun u _ => abs_nonneg _)
    · have hne : (n : Rat) ≠ 0 := by exact_mod_cast h0
      have : (n : Rat) * (d * |Dz| / n) = d * |Dz| := by field_simp
      rw [this]
      exact mul_le_mul_of_nonneg_left hD hd
  have hsplit := sum_filter_split (List.range n) (fun u => outCount es u == 0) fun u => |z u|
  have : d * ((List.range n).map fun u => |f u - g u|).sum =
      d * (((List.range n).filter fun u => !(outCount es u == 0)).map fun u => |z u|).sum +
      d * (dang.map fun u => |z u|).sum := by
    have hz : ((List.range n).map fun u => |f u - g u|) = (List.range n).map fun u => |z u| := rfl
    rw [hz, hsplit]
    ring
  rw [this]
  linarith

theorem prStep_eq (n : Nat) (es : List (Nat × Nat)) (d : Rat) (x : List Rat) :
    prStep n es d x = (List.range n).map (stepF n es d fun u => x.getD u 0) := by
  unfold prStep stepF
  rfl

theorem l1dist_eq (n : Nat) (a b : List Rat) :
    l1dist n a b = ((List.range n).map fun v => |a.getD v 0 - b.getD v 0|).sum := by
  unfold l1dist
  congr 1
  apply List.map_congr_left
  intro v _
  exact absR_eq _

theorem getD_prStep {n : Nat} {es : List (Nat × Nat)} {d : Rat} {x : List Rat} {v : Nat} (hv : v < n) :
    (prStep n es d x).getD v 0 = stepF n es d (fun u => x.getD u 0) v := by
  rw [prStep_eq]
  simp [List.getD_eq_getElem?_getD, hv]

theorem l1dist_step_le {n : Nat} {es : List (Nat × Nat)} {d : Rat} (hd : 0 ≤ d) (hv : validU n es = true)
    (x y : List Rat) : l1dist n (prStep n es d x) (prStep n es d y) ≤ d * l1dist n x y := by
  rw [l1dist_eq, l1dist_eq]
  have := stepF_contract n es d hd hv (fun u => x.getD u 0) (fun u => y.getD u 0)
  refine le_trans (le_of_eq ?_) this
  congr 1
  apply List.map_congr_left
  intro v hvr
  rw [getD_prStep (List.mem_range.1 hvr), getD_prStep (List.mem_range.1 hvr)]

theorem l1dist_triangle (n : Nat) (a b c : List Rat) : l1dist n a c ≤ l1dist n a b + l1dist n b c := by
  rw [l1dist_eq, l1dist_eq, l1dist_eq, ← sum_map_add']
  apply sum_le_sum'
  intro v _
  have : a.getD v 0 - c.getD v 0 = (a.getD v 0 - b.getD v 0) + (b.getD v 0 - c.getD v 0) := by ring
  rw [this]
  exact abs_add_le _ _

theorem l1dist_comm (n : Nat) (a b : List Rat) : l1dist n a b = l1dist n b a := by
  rw [l1dist_eq, l1dist_eq]
  congr 1
  apply List.map_congr_left
  intro v _
  exact abs_sub_comm _ _

theorem entry_le_l1dist {n : Nat} (a b : List Rat) {v : Nat} (hv : v < n) :
    |a.getD v 0 - b.getD v 0| ≤ l1dist n a b := by
  rw [l1dist_eq]
  exact single_le_sum' (List.range n) (fun v => |a.getD v 0 - b.getD v 0|) (fun _ _ => abs_nonneg _)
    (List.mem_range.2 hv)

theorem l1dist_le_of_entries {n : Nat} (a b : List Rat) (tol : Rat)
    (h : ∀ v, v < n → |a.getD v 0 - b.getD v 0| ≤ tol) : l1dist n a b ≤ n * tol := by
  rw [l1dist_eq]
  have := sum_le_sum' (List.range n) (fun v => |a.getD v 0 - b.getD v 0|) (fun _ => tol)
    fun v hv => h v (List.mem_range.1 hv)
  rw [sum_const', List.length_range] at this
  exact this

theorem isPrFixed_iff {n : Nat} {es : List (Nat × Nat)} {d : Rat} {x : List Rat} :
    isPrFixed n es d x = true ↔ x.length = n ∧ prStep n es d x = x := by
  unfold isPrFixed
  simp [Bool.and_eq_true]

theorem list_eq_of_l1dist_zero {n : Nat} {x y : List Rat} (hx : x.length = n) (hy : y.length = n)
    (h : l1dist n x y ≤ 0) : x = y := by
  apply List.ext_getElem (by omega)
  intro i hi1 hi2
  have := entry_le_l1dist (n := n) x y (v := i) (by omega)
  have h0 : |x.getD i 0 - y.getD i 0| ≤ 0 := le_trans this h
  have := abs_nonpos_iff.1 h0
  have hxy : x.getD i 0 = y.getD i 0 := by linarith
  simpa [List.getD_eq_getElem?_getD, hi1, hi2] using hxy

end Solvor.Backend
