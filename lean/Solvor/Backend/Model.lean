/-! Backend: executable models (no Mathlib imports). -/
namespace Solvor.Backend

end Solvor.Backend
