import Solvor.Gen.Kernels
/-!
Backend (property C12): spec-level objects and `Bool` checkers for the observables of the nine
functions that have a Rust back-end, models of the adapters' preprocessing / result conversion
(`solvor/rust/adapters.py`), and small mirrors of the Rust BFS/DFS visit order.
No Mathlib imports (this file is linked into `drv_backend`).

Numbers: weights are `Int` (the harness draws dyadic rationals and sends them scaled), `∞` is
`none`.  Nodes are `Nat`; a *valid* input has every endpoint `< n`.
-/
namespace Solvor.Backend
open Solvor.Gen (Status)

/-- weighted directed edge `(u, v, w)`; an edge list is a multigraph -/
abbrev WEdge := Nat × Nat × Int

/-! ### Spec objects -/

/-- `Walk es u v x`: a directed walk from `u` to `v` using edges of `es` with total weight `x`. -/
inductive Walk (es : List WEdge) : Nat → Nat → Int → Prop
  | nil (u : Nat) : Walk es u u 0
  | snoc {u v v' : Nat} {x w : Int} : Walk es u v x → (v, v', w) ∈ es → Walk es u v' (x + w)

def Reach (es : List WEdge) (u v : Nat) : Prop := ∃ x, Walk es u v x

/-- `IsDist es s v o`: `o` is *the* shortest-path distance from `s` to `v`
(`none` = unreachable; `some x` = attained minimum over all walks). -/
def IsDist (es : List WEdge) (s v : Nat) : Option Int → Prop
  | some x => Walk es s v x ∧ ∀ y, Walk es s v y → x ≤ y
  | none => ¬ Reach es s v

/-- a negative closed walk through a node reachable from `s` -/
def NegCycleFrom (es : List WEdge) (s : Nat) : Prop :=
  ∃ c x, Reach es s c ∧ Walk es c c x ∧ x < 0

/-- `F` is a spanning forest of the undirected multigraph `es`: a sub-multiset of the edges (in
input order) that connects whatever `es` connects and in which every edge is a bridge -/
def SpanningForest (es F : List WEdge) : Prop :=
  F.Sublist es ∧
  (∀ e ∈ es, Reach (F ++ F.map fun e => (e.2.1, e.1, e.2.2)) e.1 e.2.1) ∧
  ∀ (i : Nat) (h : i < F.length),
    ¬ Reach ((F.eraseIdx i) ++ (F.eraseIdx i).map fun e => (e.2.1, e.1, e.2.2)) F[i].1 F[i].2.1

def weightOf (F : List WEdge) : Int := (F.map fun e => e.2.2).sum

def IsMinSpanningForest (es F : List WEdge) : Prop :=
  SpanningForest es F ∧ ∀ G, SpanningForest es G → weightOf F ≤ weightOf G

/-- `u` and `v` lie on a common closed walk -/
def Mutual (es : List WEdge) (u v : Nat) : Prop := Reach es u v ∧ Reach es v u

/-- unit-weight view of an unweighted edge list (BFS hop distance = distance at unit weights) -/
def unitW (es : List (Nat × Nat)) : List WEdge := es.map fun e => (e.1, e.2, 1)

def rev (e : WEdge) : WEdge := (e.2.1, e.1, e.2.2)

/-- what `directed=False` means in `solvor/floyd_warshall.py`, and the undirected reading of a
graph in `kruskal`: every edge usable in both directions -/
def symW (es : List WEdge) : List WEdge := es ++ es.map rev

def validW (n : Nat) (es : List WEdge) : Bool := es.all fun e => decide (e.1 < n) && decide (e.2.1 < n)

/-! ### Verified reachability (`reachB_iff` in Theorems) -/

/-- add one new successor of the current set per unit of fuel; stops when the set is closed -/
def reachGo (es : List WEdge) : Nat → List Nat → List Nat
  | 0, R => R
  | fuel + 1, R =>
    match es.find? (fun e => R.contains e.1 && !R.contains e.2.1) with
    | none => R
    | some e => reachGo es fuel (e.2.1 :: R)

/-- nodes reachable from `s`, most recently discovered first -/
def reachList (n : Nat) (es : List WEdge) (s : Nat) : List Nat := reachGo es n [s]

def reachB (n : Nat) (es : List WEdge) (s v : Nat) : Bool := (reachList n es s).contains v

/-! ### Distances: potential + tree certificate -/

def dAt (d : List (Option Int)) (v : Nat) : Option Int := d.getD v none

/-- `d` is a feasible potential rooted at `s`: `d s = 0`, the finite part is closed under edges
and `d v ≤ d u + w` on every edge -/
def potOK (es : List WEdge) (s : Nat) (d : List (Option Int)) : Bool :=
  dAt d s == some 0 &&
  es.all fun e =>
    match dAt d e.1 with
    | none => true
    | some a =>
      match dAt d e.2.1 with
      | none => false
      | some b => decide (b ≤ a + e.2.2)

/-- every finite `d v` (`v ≠ s`) has a tight incoming edge from a node of smaller level -/
def treeOK (n : Nat) (es : List WEdge) (s : Nat) (d : List (Option Int)) (lvl : List Nat) : Bool :=
  (List.range n).all fun v =>
    match dAt d v with
    | none => true
    | some x =>
      v == s || es.any fun e =>
        e.2.1 == v && decide (lvl.getD e.1 0 < lvl.getD v 0) && dAt d e.1 == some (x - e.2.2)

/-- verified checker for a single-source distance vector (`checkDist_sound`) -/
def checkDist (n : Nat) (es : List WEdge) (s : Nat) (d : List (Option Int)) (lvl : List Nat) : Bool :=
  d.length == n && validW n es && decide (s < n) && potOK es s d && treeOK n es s d lvl

/-- untrusted certificate generator: discovery order in the tight-edge subgraph -/
def mkLvl (n : Nat) (es : List WEdge) (s : Nat) (d : List (Option Int)) : List Nat :=
  let tight := es.filter fun e =>
    match dAt d e.1, dAt d e.2.1 with
    | some a, some b => a + e.2.2 == b
    | _, _ => false
  let order := (reachList n tight s).reverse
  (List.range n).map fun v => order.idxOf v

/-- all-pairs matrix: row `i` is the distance vector from `i` -/
def checkFw (n : Nat) (es : List WEdge) (M : List (List (Option Int))) (lvls : List (List Nat)) : Bool :=
  M.length == n && (List.range n).all fun i => checkDist n es i (M.getD i []) (lvls.getD i [])

/-! ### Paths as node lists -/

/-- least weight among the parallel edges `u → v` -/
def minEdgeW (es : List WEdge) (u v : Nat) : Option Int :=
  es.foldl (fun acc e =>
    if e.1 == u && e.2.1 == v then
      match acc with
      | none => some e.2.2
      | some a => some (if e.2.2 < a then e.2.2 else a)
    else acc) none

/-- weight of the node walk `u :: rest` taking the cheapest parallel edge at each step;
`none` when some consecutive pair is not joined by an edge -/
def walkMinW (es : List WEdge) : Nat → List Nat → Option Int
  | _, [] => some 0
  | u, v :: rest =>
    match minEdgeW es u v, walkMinW es v rest with
    | some w, some x => some (w + x)
    | _, _ => none

def lastOf : Nat → List Nat → Nat
  | u, [] => u
  | _, v :: rest => lastOf v rest

/-- the node list is a walk `s … t` of the graph whose cheapest realisation weighs `x` -/
def pathOK (es : List WEdge) (s t : Nat) (p : List Nat) (x : Int) : Bool :=
  match p with
  | [] => false
  | u :: rest => u == s && lastOf u rest == t && walkMinW es u rest == some x

/-- outcome of a single-pair query -/
inductive PairOut where
  | found (path : List Nat) (obj : Int)
  | infeasible
  | unbounded
  deriving Repr, DecidableEq

/-- what the property compares of a single-pair outcome: status class and objective -/
def PairOut.obs : PairOut → Option (Option Int)
  | .found _ x => some (some x)
  | .infeasible => some none
  | .unbounded => none

/-- verified checker for `dijkstra_edges` / `bellman_ford` / `bfs_edges` with a target
(`cert` = a potential for found/infeasible, a closed node walk for unbounded) -/
def checkPair (n : Nat) (es : List WEdge) (s t : Nat) (o : PairOut)
    (pot : List (Option Int)) (cyc : List Nat) : Bool :=
  validW n es && decide (s < n) && decide (t < n) &&
  match o with
  | .found p x => potOK es s pot && dAt pot t == some x && pathOK es s t p x
  | .infeasible => potOK es s pot && dAt pot t == none
  | .unbounded =>
    match cyc with
    | [] => false
    | c :: rest => reachB n es s c && !rest.isEmpty && lastOf c rest == c &&
        (match walkMinW es c rest with | some x => decide (x < 0) | none => false)

/-- negative-cycle certificate alone (status UNBOUNDED of `bellman_ford`) -/
def checkNegCycle (n : Nat) (es : List WEdge) (s : Nat) (cyc : List Nat) : Bool :=
  validW n es && decide (s < n) &&
  match cyc with
  | [] => false
  | c :: rest => reachB n es s c && !rest.isEmpty && lastOf c rest == c &&
      (match walkMinW es c rest with | some x => decide (x < 0) | none => false)

/-- Floyd-Warshall's UNBOUNDED: a negative closed walk anywhere -/
def checkFwNeg (n : Nat) (es : List WEdge) (cyc : List Nat) : Bool :=
  match cyc with
  | [] => false
  | c :: _ => checkNegCycle n es c cyc

/-! ### Reachability lists (bfs_edges / dfs_edges without target) and DFS paths -/

/-- the documented value of the python back-end: the sorted list of reachable nodes -/
def reachSorted (n : Nat) (es : List WEdge) (s : Nat) : List Nat :=
  (List.range n).filter fun v => reachB n es s v

def checkReachList (n : Nat) (es : List WEdge) (s : Nat) (xs : List Nat) : Bool :=
  validW n es && decide (s < n) && xs == reachSorted n es s

/-- same *set* (used to classify a failure, not to accept an output) -/
def sameSet (xs ys : List Nat) : Bool := xs.all ys.contains && ys.all xs.contains

/-- DFS with a target: any walk will do; INFEASIBLE exactly when unreachable -/
def checkAnyPath (n : Nat) (es : List WEdge) (s t : Nat) (o : Option (List Nat)) : Bool :=
  validW n es && decide (s < n) && decide (t < n) &&
  match o with
  | some p =>
    (match p with
     | [] => false
     | u :: rest => u == s && lastOf u rest == t && (walkMinW es u rest).isSome)
  | none => !reachB n es s t

/-- finiteness pattern of an all-pairs matrix (`1` = finite): entry `(i, j)` is finite exactly when
`j` is reachable from `i`.  Used where the distances themselves are inexact doubles. -/
def checkSupport (n : Nat) (es : List WEdge) (M : List (List Nat)) : Bool :=
  validW n es && M.length == n &&
  (List.range n).all fun i =>
    (M.getD i []).length == n &&
    (List.range n).all fun j => ((M.getD i []).getD j 0 == 1) == reachB n es i j

/-! ### Minimum spanning forests (kruskal) -/

def sublists {α} : List α → List (List α)
  | [] => [[]]
  | a :: l => sublists l ++ (sublists l).map (a :: ·)

/-- `F ⊆ es` (as a sub-multiset in input order), every edge of `F` is a bridge of `F`
(so `F` is a forest) and `F` connects whatever `es` connects -/
def isSpanningForest (n : Nat) (es F : List WEdge) : Bool :=
  F.isSublist es &&
  es.all (fun e => reachB n (symW F) e.1 e.2.1) &&
  (List.range F.length).all fun i =>
    match F[i]? with
    | none => true
    | some e => !reachB n (symW (F.eraseIdx i)) e.1 e.2.1

def isMinForest (n : Nat) (es F : List WEdge) : Bool :=
  isSpanningForest n es F &&
  (sublists es).all fun G => decide (weightOf F ≤ weightOf G) || !isSpanningForest n es G

def connectedB (n : Nat) (es : List WEdge) : Bool :=
  (List.range n).all fun v => reachB n (symW es) 0 v

/-- verified checker for a `kruskal` result: status, edge list (as a sublist of the input), objective -/
def checkMst (n : Nat) (es : List WEdge) (allowForest : Bool) (st : Status) (F : Option (List WEdge))
    (total : Option Int) : Bool :=
  validW n es && decide (0 < n) &&
  match st, F, total with
  | .OPTIMAL, some F, some x => connectedB n es && isMinForest n es F && x == weightOf F
  | .FEASIBLE, some F, some x => !connectedB n es && allowForest && isMinForest n es F && x == weightOf F
  | .INFEASIBLE, none, none => !connectedB n es && !allowForest
  | _, _, _ => false

/-! ### Strongly connected components -/

def mutualB (n : Nat) (es : List WEdge) (u v : Nat) : Bool := reachB n es u v && reachB n es v u

/-- the mutual-reachability classes, each sorted, listed by least element -/
def canonScc (n : Nat) (es : List WEdge) : List (List Nat) :=
  (List.range n).filterMap fun v =>
    let C := (List.range n).filter fun u => mutualB n es v u
    if C.head? == some v then some C else none

/-- `cs` is the implementation's partition with each class sorted and the classes sorted by
first element (canonicalised by the harness) -/
def checkScc (n : Nat) (es : List WEdge) (cs : List (List Nat)) : Bool :=
  validW n es && cs == canonScc n es

/-! ### Topological order -/

def posOf (ord : List Nat) (v : Nat) : Nat := ord.idxOf v

def checkTopoOrder (n : Nat) (es : List WEdge) (ord : List Nat) : Bool :=
  validW n es && ord.length == n && (List.range n).all (fun v => ord.contains v) &&
  es.all fun e => decide (posOf ord e.1 < posOf ord e.2.1)

/-- INFEASIBLE certificate: some edge `u → v` with `v` reaching `u` -/
def hasCycle (n : Nat) (es : List WEdge) : Bool :=
  es.any fun e => reachB n es e.2.1 e.1

def checkTopo (n : Nat) (es : List WEdge) (o : Option (List Nat)) : Bool :=
  match o with
  | some ord => checkTopoOrder n es ord
  | none => validW n es && hasCycle n es

/-! ### PageRank (exact, at `Rat`) -/

def outCount (es : List (Nat × Nat)) (u : Nat) : Nat := (es.filter fun e => e.1 == u).length

/-- one Jacobi step of `solvor/pagerank.py` / `rust/src/algorithms/pagerank.rs` at exact arithmetic:
`new[v] = (1-d)/n + d·Σ_{(u,v)∈E} x[u]/out(u) + d·(Σ_{out(u)=0} x[u])/n` -/
def prStep (n : Nat) (es : List (Nat × Nat)) (d : Rat) (x : List Rat) : List Rat :=
  let dangling := ((List.range n).filter fun u => outCount es u == 0).map (fun u => x.getD u 0) |>.sum
  (List.range n).map fun v =>
    (1 - d) / n + d * ((es.filter fun e => e.2 == v).map (fun e => x.getD e.1 0 / outCount es e.1)).sum
      + d * dangling / n

/-- `x` is the PageRank vector: the fixed point of the step -/
def isPrFixed (n : Nat) (es : List (Nat × Nat)) (d : Rat) (x : List Rat) : Bool :=
  x.length == n && prStep n es d x == x

def absR (q : Rat) : Rat := if q < 0 then -q else q

/-- the step as a function of the score *function* (entry `v` of `prStep`) -/
def stepF (n : Nat) (es : List (Nat × Nat)) (d : Rat) (f : Nat → Rat) (v : Nat) : Rat :=
  (1 - d) / n + d * ((es.filter fun e => e.2 == v).map (fun e => f e.1 / outCount es e.1)).sum
    + d * (((List.range n).filter fun u => outCount es u == 0).map f).sum / n

/-- L1 distance of the first `n` entries -/
def l1dist (n : Nat) (a b : List Rat) : Rat :=
  ((List.range n).map fun v => absR (a.getD v 0 - b.getD v 0)).sum

def validU (n : Nat) (es : List (Nat × Nat)) : Bool := es.all fun e => decide (e.1 < n) && decide (e.2 < n)

/-- every entry of `xs` within `eps` of the corresponding entry of `ys` -/
def within (xs ys : List Rat) (eps : Rat) : Bool :=
  xs.length == ys.length && (xs.zip ys).all fun p => decide (absR (p.1 - p.2) ≤ eps)

/-! ### Adapters (`solvor/rust/adapters.py`) -/

/-- `_floyd_warshall_rust`, `directed=False`, as it is on the unchanged tree: a pair `(u,v)` that
was already emitted is skipped, so the *first* weight seen for a pair wins -/
def fwExpandFirst (es : List WEdge) : List WEdge :=
  (es.foldl (fun (acc : List WEdge × List (Nat × Nat)) e =>
    let (out, seen) := acc
    let (out, seen) := if seen.contains (e.1, e.2.1) then (out, seen) else (out ++ [e], (e.1, e.2.1) :: seen)
    if seen.contains (e.2.1, e.1) then (out, seen) else (out ++ [rev e], (e.2.1, e.1) :: seen))
    ([], [])).1

/-- the repaired expansion: both directions of every edge (the kernel takes the minimum) -/
def fwExpand (es : List WEdge) : List WEdge := es.flatMap fun e => [e, rev e]

def adapterFwEdges (directed : Bool) (es : List WEdge) : List WEdge := if directed then es else fwExpand es
def pythonFwEdges (directed : Bool) (es : List WEdge) : List WEdge := if directed then es else symW es

/-- `{i: d for i, d in enumerate(distances) if d != inf}` (both back-ends build the same dict) -/
def distDict (d : List (Option Int)) : List (Nat × Int) :=
  (d.zipIdx).filterMap fun p => p.1.map fun x => (p.2, x)

/-- insertion into a sorted list / insertion sort: the `sorted(...)` of the repaired
`_bfs_edges_rust` / `_dfs_edges_rust` and of `bfs_edges` -/
def insertSorted (a : Nat) : List Nat → List Nat
  | [] => [a]
  | b :: l => if a ≤ b then a :: b :: l else b :: insertSorted a l
def sortNat (l : List Nat) : List Nat := l.foldr insertSorted []

/-- status of a found DFS path: python `dfs` says FEASIBLE ("a path, not necessarily shortest") -/
def pyDfsFoundStatus : Status := .FEASIBLE
def adapterDfsFoundStatusOld : Status := .OPTIMAL
def adapterDfsFoundStatus : Status := .FEASIBLE

/-- `kruskal` status from (#edges chosen, n, allow_forest) – python and adapter agree -/
def pyKruskalStatus (k n : Nat) (allow : Bool) : Status :=
  if k < n - 1 then (if allow then .FEASIBLE else .INFEASIBLE) else .OPTIMAL
def adapterKruskalStatus (k n : Nat) (allow : Bool) : Status :=
  let isConnected := k == n - 1
  if !isConnected then (if allow then .FEASIBLE else .INFEASIBLE) else .OPTIMAL

/-! ### Mirrors of the Rust traversal kernels (`rust/src/algorithms/bfs.rs`), visit order only -/

def adjOf (es : List WEdge) (u : Nat) : List Nat := (es.filter fun e => e.1 == u).map fun e => e.2.1

/-- `bfs(n, edges, source, None).visited_order` -/
def rustBfsOrder (es : List WEdge) : Nat → List Nat → List Nat → List Nat → List Nat
  | 0, _, _, out => out.reverse
  | _, [], _, out => out.reverse
  | fuel + 1, u :: queue, visited, out =>
    let new := (adjOf es u).foldl (fun (acc : List Nat) v =>
      if visited.contains v || acc.contains v then acc else acc ++ [v]) []
    rustBfsOrder es fuel (queue ++ new) (new ++ visited) (u :: out)

def rustBfs (n : Nat) (es : List WEdge) (s : Nat) : List Nat := rustBfsOrder es (n + 1) [s] [s] []

/-- `dfs(n, edges, source, None).visited_order` (stack with lazy visited marking) -/
def rustDfsOrder (es : List WEdge) : Nat → List Nat → List Nat → List Nat
  | 0, _, out => out.reverse
  | _, [], out => out.reverse
  | fuel + 1, u :: stack, out =>
    if out.contains u then rustDfsOrder es fuel stack out
    else
      -- neighbours pushed in reverse, so the first neighbour is on top
      let push := (adjOf es u).filter fun v => !(v == u) && !out.contains v
      rustDfsOrder es fuel (push ++ stack) (u :: out)

def rustDfs (n : Nat) (es : List WEdge) (s : Nat) : List Nat :=
  rustDfsOrder es (n * es.length + 1) [s] []

end Solvor.Backend
