import Solvor.Backend.StructLemmas
/-! Backend: the mirror of the Rust BFS kernel enumerates exactly the reachable nodes, once each. -/
namespace Solvor.Backend

theorem mem_adjOf {es : List WEdge} {u v : Nat} : v ∈ adjOf es u ↔ ∃ w, (u, v, w) ∈ es := by
  unfold adjOf
  simp only [List.mem_map, List.mem_filter, beq_iff_eq]
  constructor
  · rintro ⟨e, ⟨he, h1⟩, rfl⟩
    refine ⟨e.2.2, ?_⟩
    rw [← h1]
    exact he
  · rintro ⟨w, hw⟩
    exact ⟨(u, v, w), ⟨hw, rfl⟩, rfl⟩

/-- the newly discovered neighbours of one BFS step -/
def newOf (visited adj : List Nat) (acc : List Nat) : List Nat :=
  adj.foldl (fun (acc : List Nat) v => if visited.contains v || acc.contains v then acc else acc ++ [v]) acc

theorem newOf_spec (visited : List Nat) : ∀ (adj acc : List Nat),
    acc.Nodup → (∀ v ∈ acc, v ∉ visited) →
    (newOf visited adj acc).Nodup ∧ (∀ v ∈ newOf visited adj acc, v ∉ visited ∧ (v ∈ acc ∨ v ∈ adj)) ∧
    (∀ v, v ∈ acc ∨ v ∈ adj → v ∈ visited ∨ v ∈ newOf visited adj acc) := by
  intro adj
  induction adj with
  | nil =>
    intro acc hnd hdis
    refine ⟨hnd, fun v hv => ⟨hdis v hv, Or.inl hv⟩, fun v hv => ?_⟩
    rcases hv with hv | hv
    · exact Or.inr hv
    · cases hv
  | cons a adj ih =>
    intro acc hnd hdis
    unfold newOf
    simp only [List.foldl_cons]
    by_cases hc : (visited.contains a || acc.contains a) = true
    · simp only [hc, if_true]
      obtain ⟨h1, h2, h3⟩ := ih acc hnd hdis
      refine ⟨h1, fun v hv => ?_, fun v hv => ?_⟩
      · obtain ⟨hnv, hor⟩ := h2 v hv
        exact ⟨hnv, hor.imp id (List.mem_cons_of_mem _)⟩
      · rcases hv with hv | hv
        · exact h3 v (Or.inl hv)
        · rcases List.mem_cons.1 hv with rfl | hv
          · simp only [Bool.or_eq_true, List.contains_eq_mem, decide_eq_true_eq] at hc
            rcases hc with hc | hc
            · exact Or.inl hc
            · exact h3 v (Or.inl hc)
          · exact h3 v (Or.inr hv)
    · simp only [hc]
      simp only [Bool.or_eq_true, List.contains_eq_mem, decide_eq_true_eq, not_or] at hc
      have hnd' : (acc ++ [a]).Nodup := by
        rw [List.nodup_append]
        refine ⟨hnd, by simp, ?_⟩
        intro x hx y hy
        rw [List.mem_singleton.1 hy]
        intro hxa
        exact hc.2 (hxa ▸ hx)
      have hdis' : ∀ v ∈ acc ++ [a], v ∉ visited := by
        intro v hv
        rcases List.mem_append.1 hv with hv | hv
        · exact hdis v hv
        · rw [List.mem_singleton.1 hv]; exact hc.1
      obtain ⟨h1, h2, h3⟩ := ih (acc ++ [a]) hnd' hdis'
      refine ⟨h1, fun v hv => ?_, fun v hv => ?_⟩
      · obtain ⟨hnv, hor⟩ := h2 v hv
        refine ⟨hnv, ?_⟩
        rcases hor with hor | hor
        · rcases List.mem_append.1 hor with h | h
          · exact Or.inl h
          · exact Or.inr (List.mem_cons.2 (Or.inl (List.mem_singleton.1 h)))
        · exact Or.inr (List.mem_cons_of_mem _ hor)
      · rcases hv with hv | hv
        · exact h3 v (Or.inl (List.mem_append_left _ hv))
        · rcases List.mem_cons.1 hv with rfl | hv
          · exact h3 v (Or.inl (List.mem_append_right _ (List.mem_singleton.2 rfl)))
          · exact h3 v (Or.inr hv)

structure BfsInv (n : Nat) (es : List WEdge) (s : Nat) (fuel : Nat) (queue visited out : List Nat) : Prop where
  nodup : (out ++ queue).Nodup
  vis : ∀ v, v ∈ visited ↔ v ∈ out ∨ v ∈ queue
  reach : ∀ v ∈ visited, Reach es s v
  closed : ∀ u ∈ out, ∀ e ∈ es, e.1 = u → e.2.1 ∈ visited
  root : s ∈ visited
  fuel : queue ≠ [] → missing n out < fuel

theorem rustBfsOrder_spec {n : Nat} {es : List WEdge} (hval : validW n es = true) {s : Nat} (hs : s < n) :
    ∀ (fuel : Nat) (queue visited out : List Nat), BfsInv n es s fuel queue visited out →
      (rustBfsOrder es fuel queue visited out).Nodup ∧
      ∀ v, v ∈ rustBfsOrder es fuel queue visited out ↔ Reach es s v := by
  have finish : ∀ (fuel : Nat) (visited out : List Nat), BfsInv n es s fuel [] visited out →
      out.reverse.Nodup ∧ ∀ v, v ∈ out.reverse ↔ Reach es s v := by
    intro fuel visited out inv
    have hvo : ∀ v, v ∈ visited ↔ v ∈ out := fun v => by simpa using inv.vis v
    refine ⟨?_, fun v => ?_⟩
    · have := inv.nodup
      simp only [List.append_nil] at this
      exact List.pairwise_reverse.2 (List.Pairwise.imp (fun h => Ne.symm h) this)
    · rw [List.mem_reverse]
      constructor
      · intro hv
        exact inv.reach v ((hvo v).2 hv)
      · rintro ⟨x, hx⟩
        exact closed_complete ((hvo s).1 inv.root)
          (fun e he h1 => (hvo _).1 (inv.closed e.1 h1 e he rfl)) hx
  intro fuel
  induction fuel with
  | zero =>
    intro queue visited out inv
    cases queue with
    | nil =>
      have := finish 0 visited out inv
      simpa [rustBfsOrder] using this
    | cons u q => exact absurd (inv.fuel (by simp)) (Nat.not_lt_zero _)
  | succ k ih =>
    intro queue visited out inv
    cases queue with
    | nil =>
      have := finish (k + 1) visited out inv
      simpa [rustBfsOrder] using this
    | cons u q =>
      unfold rustBfsOrder
      have hnew := newOf_spec visited (adjOf es u) [] (by simp) (by simp)
      have hfold : (adjOf es u).foldl (fun (acc : List Nat) v =>
          if visited.contains v || acc.contains v then acc else acc ++ [v]) [] = newOf visited (adjOf es u) [] := rfl
      simp only [hfold]
      generalize newOf visited (adjOf es u) [] = new at hnew
      obtain ⟨hnd, hsub, hcov⟩ := hnew
      apply ih
      have huvis : u ∈ visited := (inv.vis u).2 (Or.inr List.mem_cons_self)
      have hnodup := inv.nodup
      rw [List.nodup_append] at hnodup
      obtain ⟨hout, hq, hdisj⟩ := hnodup
      rw [List.nodup_cons] at hq
      have hu_out : u ∉ out := fun h => hdisj u h u List.mem_cons_self rfl
      constructor
      · -- nodup of (u :: out) ++ (q ++ new)
        rw [List.nodup_append]
        refine ⟨List.nodup_cons.2 ⟨hu_out, hout⟩, ?_, ?_⟩
        · rw [List.nodup_append]
          refine ⟨hq.2, hnd, ?_⟩
          intro a ha b hb hab
          subst hab
          exact (hsub a hb).1 ((inv.vis a).2 (Or.inr (List.mem_cons_of_mem _ ha)))
        · intro a ha b hb hab
          subst hab
          rcases List.mem_append.1 hb with hb | hb
          · rcases List.mem_cons.1 ha with rfl | ha
            · exact hq.1 hb
            · exact hdisj a ha a (List.mem_cons_of_mem _ hb) rfl
          · apply (hsub a hb).1
            rcases List.mem_cons.1 ha with rfl | ha
            · exact huvis
            · exact (inv.vis a).2 (Or.inl ha)
      · intro v
        simp only [List.mem_append, List.mem_cons, inv.vis v]
        constructor
        · rintro (h | h | h | h)
          · exact Or.inr (Or.inr h)
          · exact Or.inl (Or.inr h)
          · exact Or.inl (Or.inl h)
          · exact Or.inr (Or.inl h)
        · rintro ((h | h) | h | h)
          · exact Or.inr (Or.inr (Or.inl h))
          · exact Or.inr (Or.inl h)
          · exact Or.inr (Or.inr (Or.inr h))
          · exact Or.inl h
      · intro v hv
        rcases List.mem_append.1 hv with hv | hv
        · have := (hsub v hv).2
          simp only [List.not_mem_nil, false_or] at this
          obtain ⟨w, hw⟩ := mem_adjOf.1 this
          exact (inv.reach u huvis).step hw
        · exact inv.reach v hv
      · intro u' hu' e he h1
        rcases List.mem_cons.1 hu' with rfl | hu'
        · have : e.2.1 ∈ adjOf es e.1 := mem_adjOf.2 ⟨e.2.2, he⟩
          rw [h1] at this
          rcases hcov _ (Or.inr this) with h | h
          · exact List.mem_append_right _ h
          · exact List.mem_append_left _ h
        · exact List.mem_append_right _ (inv.closed u' hu' e he h1)
      · exact List.mem_append_right _ inv.root
      · intro _
        have hun : u < n := by
          obtain ⟨x, hx⟩ := inv.reach u huvis
          exact hx.lt_of_valid hval hs
        have h1 := inv.fuel (by simp)
        have h2 := missing_cons_lt (n := n) (R := out) hun (by simpa using hu_out)
        omega

theorem rustBfs_spec {n : Nat} {es : List WEdge} (hval : validW n es = true) {s : Nat} (hs : s < n) :
    (rustBfs n es s).Nodup ∧ ∀ v, v ∈ rustBfs n es s ↔ Reach es s v := by
  unfold rustBfs
  apply rustBfsOrder_spec hval hs
  constructor
  · simp
  · intro v; simp
  · intro v hv
    rw [List.mem_singleton.1 hv]
    exact Reach.refl es s
  · intro u hu; cases hu
  · simp
  · intro _
    have := missing_le n []
    omega

end Solvor.Backend
