import Solvor.Backend.Lemmas
/-! Backend: potentials, tree certificates, node-list paths, negative cycles. -/
namespace Solvor.Backend

theorem reachB_iff {n : Nat} {es : List WEdge} (hv : validW n es = true) {s v : Nat} :
    reachB n es s v = true ↔ Reach es s v := by
  unfold reachB
  rw [List.contains_eq_mem, decide_eq_true_eq]
  exact mem_reachList_iff hv

/-! ### Potentials -/

theorem potOK_root {es : List WEdge} {s : Nat} {d : List (Option Int)} (h : potOK es s d = true) :
    dAt d s = some 0 := by
  unfold potOK at h
  simp only [Bool.and_eq_true, beq_iff_eq] at h
  exact h.1

theorem potOK_edge {es : List WEdge} {s : Nat} {d : List (Option Int)} (h : potOK es s d = true)
    {u v : Nat} {w a : Int} (he : (u, v, w) ∈ es) (ha : dAt d u = some a) :
    ∃ b, dAt d v = some b ∧ b ≤ a + w := by
  unfold potOK at h
  simp only [Bool.and_eq_true, List.all_eq_true] at h
  have := h.2 _ he
  simp only [ha] at this
  cases hb : dAt d v with
  | none => simp [hb] at this
  | some b =>
    simp only [hb, decide_eq_true_eq] at this
    exact ⟨b, rfl, this⟩

/-- along any walk a feasible potential grows by at most the walk's weight -/
theorem pot_walk {es : List WEdge} {s : Nat} {d : List (Option Int)} (h : potOK es s d = true)
    {u v : Nat} {y a : Int} (w : Walk es u v y) (ha : dAt d u = some a) :
    ∃ b, dAt d v = some b ∧ b ≤ a + y := by
  induction w with
  | nil => exact ⟨a, ha, by omega⟩
  | snoc _ he ih =>
    obtain ⟨b, hb, hle⟩ := ih
    obtain ⟨c, hc, hle'⟩ := potOK_edge h he hb
    exact ⟨c, hc, by omega⟩

theorem pot_lower {es : List WEdge} {s : Nat} {d : List (Option Int)} (h : potOK es s d = true)
    {v : Nat} {y : Int} (w : Walk es s v y) : ∃ b, dAt d v = some b ∧ b ≤ y := by
  obtain ⟨b, hb, hle⟩ := pot_walk h w (potOK_root h)
  exact ⟨b, hb, by omega⟩

theorem negCycle_no_pot {es : List WEdge} {s : Nat} (hc : NegCycleFrom es s) (d : List (Option Int)) :
    potOK es s d = false := by
  cases hp : potOK es s d with
  | false => rfl
  | true =>
    obtain ⟨c, x, ⟨y, hy⟩, hcyc, hneg⟩ := hc
    obtain ⟨a, ha, _⟩ := pot_lower hp hy
    obtain ⟨b, hb, hle⟩ := pot_walk hp hcyc ha
    rw [ha] at hb
    cases hb
    omega

/-! ### Tree certificate -/

theorem tree_walk {n : Nat} {es : List WEdge} {s : Nat} {d : List (Option Int)} {lvl : List Nat}
    (hval : validW n es = true) (hroot : dAt d s = some 0) (ht : treeOK n es s d lvl = true) :
    ∀ (k v : Nat), lvl.getD v 0 = k → v < n → ∀ x, dAt d v = some x → Walk es s v x := by
  intro k
  induction k using Nat.strongRecOn with
  | _ k ih =>
    intro v hk hv x hx
    unfold treeOK at ht
    have := List.all_eq_true.1 ht v (List.mem_range.2 hv)
    simp only [hx, Bool.or_eq_true, beq_iff_eq, List.any_eq_true, Bool.and_eq_true,
      decide_eq_true_eq] at this
    rcases this with rfl | ⟨e, he, ⟨hev, hlt⟩, hd⟩
    · rw [hroot] at hx
      cases hx
      exact Walk.nil _
    · have hmem : (e.1, v, e.2.2) ∈ es := by
        rw [← hev]
        exact he
      have hpn : e.1 < n := ((validW_iff.1 hval) e he).1
      have hw := ih (lvl.getD e.1 0) (by omega) e.1 rfl hpn (x - e.2.2) hd
      have := Walk.snoc hw hmem
      have hx' : x - e.2.2 + e.2.2 = x := by omega
      rwa [hx'] at this

/-- **T-spec**: an accepted distance vector holds *the* shortest distance of every node. -/
theorem checkDist_sound' {n : Nat} {es : List WEdge} {s : Nat} {d : List (Option Int)} {lvl : List Nat}
    (h : checkDist n es s d lvl = true) : d.length = n ∧ ∀ v, v < n → IsDist es s v (dAt d v) := by
  unfold checkDist at h
  simp only [Bool.and_eq_true, beq_iff_eq, decide_eq_true_eq] at h
  obtain ⟨⟨⟨⟨hlen, hval⟩, hs⟩, hpot⟩, htree⟩ := h
  refine ⟨hlen, fun v hv => ?_⟩
  cases hd : dAt d v with
  | none =>
    rintro ⟨y, hy⟩
    obtain ⟨b, hb, _⟩ := pot_lower hpot hy
    rw [hd] at hb
    cases hb
  | some x =>
    refine ⟨tree_walk hval (potOK_root hpot) htree _ v rfl hv x hd, fun y hy => ?_⟩
    obtain ⟨b, hb, hle⟩ := pot_lower hpot hy
    rw [hd] at hb
    cases hb
    exact hle

theorem checkDist_pot {n : Nat} {es : List WEdge} {s : Nat} {d : List (Option Int)} {lvl : List Nat}
    (h : checkDist n es s d lvl = true) : potOK es s d = true := by
  unfold checkDist at h
  simp only [Bool.and_eq_true] at h
  exact h.1.2

theorem dist_ext {n : Nat} {d1 d2 : List (Option Int)} (h1 : d1.length = n) (h2 : d2.length = n)
    (h : ∀ v, v < n → dAt d1 v = dAt d2 v) : d1 = d2 := by
  apply List.ext_getElem (by omega)
  intro i hi1 hi2
  have := h i (by omega)
  unfold dAt at this
  simpa [List.getD_eq_getElem?_getD, hi1, hi2] using this

/-! ### Node-list paths -/

theorem minEdgeW_mem_aux (es : List WEdge) (u v : Nat) (l : List WEdge) (hl : ∀ e ∈ l, e ∈ es)
    (acc : Option Int) (hacc : ∀ a, acc = some a → (u, v, a) ∈ es) :
    ∀ w, l.foldl (fun acc e =>
      if e.1 == u && e.2.1 == v then
        match acc with
        | none => some e.2.2
        | some a => some (if e.2.2 < a then e.2.2 else a)
      else acc) acc = some w → (u, v, w) ∈ es := by
  induction l generalizing acc with
  | nil => intro w hw; exact hacc w (by simpa using hw)
  | cons e l ih =>
    intro w hw
    simp only [List.foldl_cons] at hw
    refine ih (fun e' he' => hl e' (List.mem_cons_of_mem _ he')) _ ?_ w hw
    intro a ha
    have hemem := hl e List.mem_cons_self
    by_cases hc : (e.1 == u && e.2.1 == v) = true
    · simp only [hc, if_true] at ha
      simp only [Bool.and_eq_true, beq_iff_eq] at hc
      have heq : e = (u, v, e.2.2) := by
        rcases e with ⟨a1, a2, a3⟩
        simp only at hc
        rw [hc.1, hc.2]
      cases acc with
      | none =>
        simp only [Option.some.injEq] at ha
        rw [← ha, ← heq]
        exact hemem
      | some b =>
        simp only [Option.some.injEq] at ha
        by_cases hlt : e.2.2 < b
        · simp only [hlt, if_true] at ha
          rw [← ha, ← heq]
          exact hemem
        · simp only [hlt, if_false] at ha
          rw [← ha]
          exact hacc b rfl
    · simp only [hc] at ha
      exact hacc a (by simpa using ha)

theorem minEdgeW_mem {es : List WEdge} {u v : Nat} {w : Int} (h : minEdgeW es u v = some w) :
    (u, v, w) ∈ es := by
  unfold minEdgeW at h
  exact minEdgeW_mem_aux es u v es (fun _ h => h) none (by simp) w h

theorem walkMinW_walk {es : List WEdge} : ∀ (p : List Nat) (u : Nat) (x : Int),
    walkMinW es u p = some x → Walk es u (lastOf u p) x := by
  intro p
  induction p with
  | nil =>
    intro u x h
    simp only [walkMinW, Option.some.injEq] at h
    rw [← h]
    exact Walk.nil _
  | cons v rest ih =>
    intro u x h
    simp only [walkMinW] at h
    cases hw : minEdgeW es u v with
    | none => simp [hw] at h
    | some w =>
      cases hx : walkMinW es v rest with
      | none => simp [hw, hx] at h
      | some y =>
        simp only [hw, hx, Option.some.injEq] at h
        rw [← h]
        exact Walk.cons (minEdgeW_mem hw) (ih v y hx)

theorem pathOK_walk {es : List WEdge} {s t : Nat} {p : List Nat} {x : Int} (h : pathOK es s t p x = true) :
    Walk es s t x := by
  unfold pathOK at h
  cases p with
  | nil => simp at h
  | cons u rest =>
    simp only [Bool.and_eq_true, beq_iff_eq] at h
    obtain ⟨⟨hu, hl⟩, hw⟩ := h
    have := walkMinW_walk rest u x hw
    rw [hl, hu] at this
    exact this

/-! ### Negative cycles -/

theorem checkNegCycle_sound {n : Nat} {es : List WEdge} {s : Nat} {cyc : List Nat}
    (h : checkNegCycle n es s cyc = true) : NegCycleFrom es s := by
  unfold checkNegCycle at h
  cases cyc with
  | nil => simp at h
  | cons c rest =>
    simp only [Bool.and_eq_true, decide_eq_true_eq, beq_iff_eq] at h
    obtain ⟨⟨hval, _⟩, ⟨⟨hreach, _⟩, hlast⟩, hneg⟩ := h
    cases hw : walkMinW es c rest with
    | none => simp [hw] at hneg
    | some x =>
      simp only [hw, decide_eq_true_eq] at hneg
      have := walkMinW_walk rest c x hw
      rw [hlast] at this
      exact ⟨c, x, (reachB_iff hval).1 hreach, this, hneg⟩

end Solvor.Backend
