import Solvor.Backend.DistLemmas
/-! Backend: sublists / spanning forests, SCC classes, topological orders, sorted lists. -/
namespace Solvor.Backend

/-! ### Sublists and spanning forests -/

theorem mem_sublists {α} {l G : List α} : G ∈ sublists l ↔ G.Sublist l := by
  induction l generalizing G with
  | nil => simp [sublists]
  | cons a l ih =>
    simp only [sublists, List.mem_append, List.mem_map, List.sublist_cons_iff, ih]
    constructor
    · rintro (h | ⟨r, hr, rfl⟩)
      · exact Or.inl h
      · exact Or.inr ⟨r, rfl, hr⟩
    · rintro (h | ⟨r, rfl, hr⟩)
      · exact Or.inl h
      · exact Or.inr ⟨r, hr, rfl⟩

theorem symW_eq (F : List WEdge) : symW F = F ++ F.map fun e => (e.2.1, e.1, e.2.2) := rfl

theorem validW_of_subset {n : Nat} {es F : List WEdge} (hv : validW n es = true) (h : ∀ e ∈ F, e ∈ es) :
    validW n F = true :=
  validW_iff.2 fun e he => (validW_iff.1 hv) e (h e he)

theorem validW_symW {n : Nat} {F : List WEdge} (hv : validW n F = true) : validW n (symW F) = true := by
  rw [validW_iff] at hv ⊢
  intro e he
  rw [symW, List.mem_append, List.mem_map] at he
  rcases he with he | ⟨e', he', rfl⟩
  · exact hv e he
  · exact ⟨(hv e' he').2, (hv e' he').1⟩

theorem isSpanningForest_iff {n : Nat} {es F : List WEdge} (hv : validW n es = true) :
    isSpanningForest n es F = true ↔ SpanningForest es F := by
  unfold isSpanningForest SpanningForest
  by_cases hsub : F.Sublist es
  · have hvF : validW n F = true := validW_of_subset hv fun e he => hsub.subset he
    have hvE : ∀ i, validW n (symW (F.eraseIdx i)) = true := fun i =>
      validW_symW (validW_of_subset hvF fun e he => (List.eraseIdx_sublist F i).subset he)
    have hrF : ∀ a b, reachB n (F ++ F.map fun e => (e.2.1, e.1, e.2.2)) a b = true ↔
        Reach (F ++ F.map fun e => (e.2.1, e.1, e.2.2)) a b :=
      fun a b => reachB_iff (by simpa [symW_eq] using validW_symW hvF)
    have hrE : ∀ i a b, reachB n (F.eraseIdx i ++ (F.eraseIdx i).map fun e => (e.2.1, e.1, e.2.2)) a b = true ↔
        Reach (F.eraseIdx i ++ (F.eraseIdx i).map fun e => (e.2.1, e.1, e.2.2)) a b :=
      fun i a b => reachB_iff (by simpa [symW_eq] using hvE i)
    simp only [Bool.and_eq_true, List.isSublist_iff_sublist, hsub, true_and, List.all_eq_true, symW_eq,
      List.mem_range]
    refine and_congr ?_ ?_
    · exact forall_congr' fun e => forall_congr' fun _ => hrF _ _
    · constructor
      · intro h i hi hr
        have := h i hi
        rw [List.getElem?_eq_getElem hi] at this
        simp only [Bool.not_eq_true'] at this
        have h2 := (hrE i _ _).2 hr
        rw [this] at h2
        cases h2
      · intro h i hi
        rw [List.getElem?_eq_getElem hi]
        simp only [Bool.not_eq_true']
        cases hb : reachB n (F.eraseIdx i ++ (F.eraseIdx i).map fun e => (e.2.1, e.1, e.2.2)) F[i].1 F[i].2.1 with
        | false => rfl
        | true => exact absurd ((hrE i _ _).1 hb) (h i hi)
  · simp [hsub, List.isSublist_iff_sublist]

theorem isMinForest_iff {n : Nat} {es F : List WEdge} (hv : validW n es = true) :
    isMinForest n es F = true ↔ IsMinSpanningForest es F := by
  unfold isMinForest IsMinSpanningForest
  simp only [Bool.and_eq_true, isSpanningForest_iff hv, List.all_eq_true, mem_sublists, Bool.or_eq_true,
    decide_eq_true_eq, Bool.not_eq_true']
  apply and_congr Iff.rfl
  constructor
  · intro h G hG
    rcases h G hG.1 with h | h
    · exact h
    · have := (isSpanningForest_iff (n := n) hv).2 hG
      simp_all
  · intro h G hG
    cases hb : isSpanningForest n es G with
    | false => exact Or.inr rfl
    | true => exact Or.inl (h G ((isSpanningForest_iff hv).1 hb))

theorem connectedB_iff {n : Nat} {es : List WEdge} (hv : validW n es = true) :
    connectedB n es = true ↔ ∀ v, v < n → Reach (symW es) 0 v := by
  unfold connectedB
  simp only [List.all_eq_true, List.mem_range, reachB_iff (validW_symW hv)]

/-! ### SCC classes -/

theorem mutualB_iff {n : Nat} {es : List WEdge} (hv : validW n es = true) {u v : Nat} :
    mutualB n es u v = true ↔ Mutual es u v := by
  unfold mutualB Mutual
  simp only [Bool.and_eq_true, reachB_iff hv]

theorem Mutual.symm {es : List WEdge} {u v : Nat} (h : Mutual es u v) : Mutual es v u := ⟨h.2, h.1⟩
theorem Mutual.trans {es : List WEdge} {u v w : Nat} (h : Mutual es u v) (h' : Mutual es v w) : Mutual es u w :=
  ⟨h.1.trans h'.1, h'.2.trans h.2⟩
theorem Mutual.refl (es : List WEdge) (u : Nat) : Mutual es u u := ⟨Reach.refl es u, Reach.refl es u⟩

/-- every listed class is exactly a mutual-reachability class -/
theorem canonScc_class {n : Nat} {es : List WEdge} (hv : validW n es = true) {C : List Nat}
    (hC : C ∈ canonScc n es) : ∃ v, v < n ∧ v ∈ C ∧ ∀ u, u ∈ C ↔ (u < n ∧ Mutual es v u) := by
  unfold canonScc at hC
  obtain ⟨v, hvr, hf⟩ := List.mem_filterMap.1 hC
  simp only at hf
  split at hf
  · rename_i hhead
    cases hf
    have hvn := List.mem_range.1 hvr
    refine ⟨v, hvn, ?_, fun u => ?_⟩
    · exact List.mem_filter.2 ⟨hvr, (mutualB_iff hv).2 (Mutual.refl es v)⟩
    · simp only [List.mem_filter, List.mem_range, mutualB_iff hv]
  · cases hf

/-- every node lies in a listed class -/
theorem canonScc_cover {n : Nat} {es : List WEdge} (hv : validW n es = true) {v : Nat} (hvn : v < n) :
    ∃ C ∈ canonScc n es, v ∈ C := by
  let C := (List.range n).filter fun u => mutualB n es v u
  have hvC : v ∈ C := List.mem_filter.2 ⟨List.mem_range.2 hvn, (mutualB_iff hv).2 (Mutual.refl es v)⟩
  cases hC : C with
  | nil => rw [hC] at hvC; cases hvC
  | cons m rest =>
    have hmC : m ∈ C := by rw [hC]; exact List.mem_cons_self
    have hm := List.mem_filter.1 hmC
    have hmut : Mutual es v m := (mutualB_iff hv).1 hm.2
    have hsame : ((List.range n).filter fun u => mutualB n es m u) = C := by
      apply List.filter_congr
      intro u _
      cases h1 : mutualB n es m u with
      | true =>
        exact ((mutualB_iff hv).2 (hmut.trans ((mutualB_iff hv).1 h1))).symm
      | false =>
        cases h2 : mutualB n es v u with
        | false => rfl
        | true =>
          have := (mutualB_iff hv).2 (hmut.symm.trans ((mutualB_iff hv).1 h2))
          rw [h1] at this
          cases this
    refine ⟨C, ?_, hvC⟩
    unfold canonScc
    refine List.mem_filterMap.2 ⟨m, hm.1, ?_⟩
    simp only [hsame]
    rw [hC]
    simp

/-! ### Topological orders -/

theorem topo_walk_le {es : List WEdge} {ord : List Nat}
    (hfw : ∀ e ∈ es, posOf ord e.1 < posOf ord e.2.1) {u v : Nat} {x : Int} (w : Walk es u v x) :
    posOf ord u ≤ posOf ord v := by
  induction w with
  | nil => exact Nat.le_refl _
  | snoc _ he ih =>
    have := hfw _ he
    simp only at this
    omega

theorem checkTopoOrder_forward {n : Nat} {es : List WEdge} {ord : List Nat}
    (h : checkTopoOrder n es ord = true) : ∀ e ∈ es, posOf ord e.1 < posOf ord e.2.1 := by
  unfold checkTopoOrder at h
  simp only [Bool.and_eq_true, List.all_eq_true, decide_eq_true_eq] at h
  exact h.2

theorem hasCycle_iff {n : Nat} {es : List WEdge} (hv : validW n es = true) :
    hasCycle n es = true ↔ ∃ e ∈ es, Reach es e.2.1 e.1 := by
  unfold hasCycle
  simp only [List.any_eq_true, reachB_iff hv]

/-! ### Sorted lists -/

theorem sorted_ext : ∀ (l1 l2 : List Nat), l1.Pairwise (· < ·) → l2.Pairwise (· < ·) →
    (∀ x, x ∈ l1 ↔ x ∈ l2) → l1 = l2 := by
  intro l1
  induction l1 with
  | nil =>
    intro l2 _ _ h
    cases l2 with
    | nil => rfl
    | cons b l2 => exact absurd ((h b).2 List.mem_cons_self) (by simp)
  | cons a l1 ih =>
    intro l2 h1 h2 h
    cases l2 with
    | nil => exact absurd ((h a).1 List.mem_cons_self) (by simp)
    | cons b l2 =>
      rw [List.pairwise_cons] at h1 h2
      have hab : a = b := by
        have ha := (h a).1 List.mem_cons_self
        have hb := (h b).2 List.mem_cons_self
        rcases List.mem_cons.1 ha with rfl | ha'
        · rfl
        · rcases List.mem_cons.1 hb with rfl | hb'
          · rfl
          · have := h2.1 a ha'
            have := h1.1 b hb'
            omega
      subst hab
      congr 1
      apply ih l2 h1.2 h2.2
      intro x
      constructor
      · intro hx
        have := (h x).1 (List.mem_cons_of_mem _ hx)
        rcases List.mem_cons.1 this with rfl | h'
        · exact absurd (h1.1 x hx) (Nat.lt_irrefl _)
        · exact h'
      · intro hx
        have := (h x).2 (List.mem_cons_of_mem _ hx)
        rcases List.mem_cons.1 this with rfl | h'
        · exact absurd (h2.1 x hx) (Nat.lt_irrefl _)
        · exact h'

theorem mem_insertSorted {a x : Nat} {l : List Nat} : x ∈ insertSorted a l ↔ x = a ∨ x ∈ l := by
  induction l with
  | nil => simp [insertSorted]
  | cons b l ih =>
    unfold insertSorted
    split
    · simp
    · simp only [List.mem_cons, ih]
      constructor
      · rintro (h | h | h)
        · exact Or.inr (Or.inl h)
        · exact Or.inl h
        · exact Or.inr (Or.inr h)
      · rintro (h | h | h)
        · exact Or.inr (Or.inl h)
        · exact Or.inl h
        · exact Or.inr (Or.inr h)

theorem pairwise_insertSorted {a : Nat} {l : List Nat} (hl : l.Pairwise (· < ·)) (ha : a ∉ l) :
    (insertSorted a l).Pairwise (· < ·) := by
  induction l with
  | nil => simp [insertSorted]
  | cons b l ih =>
    rw [List.pairwise_cons] at hl
    have hab : a ≠ b := fun h => ha (h ▸ List.mem_cons_self)
    have hal : a ∉ l := fun h => ha (List.mem_cons_of_mem _ h)
    unfold insertSorted
    split
    · rename_i hle
      rw [List.pairwise_cons]
      refine ⟨?_, List.pairwise_cons.2 hl⟩
      intro x hx
      rcases List.mem_cons.1 hx with rfl | hx
      · omega
      · have := hl.1 x hx
        omega
    · rename_i hle
      rw [List.pairwise_cons]
      refine ⟨?_, ih hl.2 hal⟩
      intro x hx
      rcases mem_insertSorted.1 hx with rfl | hx
      · omega
      · exact hl.1 x hx

theorem mem_sortNat {x : Nat} {l : List Nat} : x ∈ sortNat l ↔ x ∈ l := by
  induction l with
  | nil => simp [sortNat]
  | cons a l ih =>
    have : sortNat (a :: l) = insertSorted a (sortNat l) := rfl
    rw [this, mem_insertSorted, ih]
    simp

theorem pairwise_sortNat {l : List Nat} (h : l.Nodup) : (sortNat l).Pairwise (· < ·) := by
  induction l with
  | nil => simp [sortNat]
  | cons a l ih =>
    have : sortNat (a :: l) = insertSorted a (sortNat l) := rfl
    rw [this]
    rw [List.nodup_cons] at h
    exact pairwise_insertSorted (ih h.2) (fun hx => h.1 (mem_sortNat.1 hx))

theorem mem_reachSorted {n : Nat} {es : List WEdge} (hv : validW n es = true) {s v : Nat} :
    v ∈ reachSorted n es s ↔ v < n ∧ Reach es s v := by
  unfold reachSorted
  simp only [List.mem_filter, List.mem_range, reachB_iff hv]

theorem pairwise_reachSorted (n : Nat) (es : List WEdge) (s : Nat) :
    (reachSorted n es s).Pairwise (· < ·) :=
  List.Pairwise.filter _ List.pairwise_lt_range

end Solvor.Backend
