import Solvor.Common.Proto
import Solvor.Backend.Model
/-! Backend: line-protocol handler. One request line in, one reply line out. -/
namespace Solvor.Backend

def handle (line : String) : String := "unimplemented " ++ line

end Solvor.Backend
