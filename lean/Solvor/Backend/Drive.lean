import Solvor.Common.Proto
import Solvor.Backend.Model
import Solvor.Backend.Certs
/-!
Backend: line-protocol handler.  Every request carries one input of one of the nine accelerated
functions and the *distinct* outputs the back-ends produced for it; the reply carries the
verdict of the verified checker on each output (certificates are produced here, untrusted) and
what the Lean side itself computes as the canonical observable.

Edges travel as `[u, v, w]` (`w = 1` for unweighted functions); `∞`/absent as `null`.

* `["dist", n, es, s, outs]`            out = `null` (UNBOUNDED) | `[d0|null, …]`
    reply `[model|null, [ok…]]`
* `["pair", n, es, s, t, outs]`         out = `["found", path, obj]` | `["infeasible"]` | `["unbounded"]`
    reply `[modelDistToT|null, negCycleExists, [ok…]]`
* `["fw", n, es, directed, outs]`       out = `null` (UNBOUNDED) | matrix
    reply `[modelMatrix|null, [ok…], [okOnOldAdapterProblem…]]`
* `["distc", n, es, s, outs, lvls]`, `["fwc", n, es, directed, outs, lvlss]`, `["topoc", n, es, outs]`:
    large inputs – same verified checkers (`checkDist`, `checkFw`, `checkTopo`), certificates supplied by the
    harness, no model recomputation; reply `[[ok…]]`.  `["within", xs, ys, eps]` → `[bool]`
* `["support", n, es, directed, outs]`  out = 0/1 matrix (1 = finite distance); inexact-double inputs
    reply `[[ok…]]`
* `["reach", n, es, s, outs]`           out = list of nodes
    reply `[reachSorted, [[exact, sameSet]…], rustBfsOrder, rustDfsOrder]`
* `["anypath", n, es, s, t, outs]`      out = `null` | path
    reply `[reachable, [ok…]]`
* `["mst", n, es, allowForest, outs]`   out = `[status, F|null, total|null]`
    reply `[connected, bestWeight|null, [ok…]]`
* `["scc", n, es, outs]`                out = canonicalised partition
    reply `[canonScc, [ok…]]`
* `["topo", n, es, outs]`               out = `null` | order
    reply `[hasCycle, [ok…]]`
* `["pagerank", n, es, d, tol, fixed, outs]`   out = list of rationals
    reply `[fixedOk, bound, [withinBoundOfFixed…], [[pairwise within bound…]…]]`
-/
namespace Solvor.Backend
open Solvor.Proto
open Solvor.Gen (Status)

def toEdge? (v : Val) : Option WEdge :=
  match v with
  | .arr [.int u, .int w, .int x] => if u < 0 || w < 0 then none else some (u.toNat, w.toNat, x)
  | _ => none
def toEdges? (v : Val) : Option (List WEdge) := do (← v.toArr?).mapM toEdge?
def toOptInts? (v : Val) : Option (List (Option Int)) := do (← v.toArr?).mapM (Val.toOpt? Val.toInt?)
def toMat? (v : Val) : Option (List (List (Option Int))) := do (← v.toArr?).mapM toOptInts?
def ofOptInts (d : List (Option Int)) : Val := .arr (d.map (Val.ofOpt Val.int))
def ofEdges (es : List WEdge) : Val := .arr (es.map fun e => .arr [.int e.1, .int e.2.1, .int e.2.2])
def bools (bs : List Bool) : Val := .arr (bs.map .bool)

def statusOf? : String → Option Status
  | "OPTIMAL" => some .OPTIMAL
  | "FEASIBLE" => some .FEASIBLE
  | "INFEASIBLE" => some .INFEASIBLE
  | "UNBOUNDED" => some .UNBOUNDED
  | "MAX_ITER" => some .MAX_ITER
  | _ => none

def unW (es : List WEdge) : List (Nat × Nat) := es.map fun e => (e.1, e.2.1)

def handleDist (n : Nat) (es : List WEdge) (s : Nat) (outs : List Val) : String :=
  let model := bfModel n es s
  let cyc := (findNegCycle n es s).getD []
  let oks := outs.map fun o =>
    match o with
    | .null => checkNegCycle n es s cyc
    | v => match toOptInts? v with
      | some d => checkDist n es s d (mkLvl n es s d)
      | none => false
  (Val.arr [Val.ofOpt ofOptInts model, bools oks]).render

def handlePair (n : Nat) (es : List WEdge) (s t : Nat) (outs : List Val) : String :=
  let model := bfModel n es s
  let pot := model.getD []
  let cyc := (findNegCycle n es s).getD []
  let oks := outs.map fun o =>
    match o with
    | .arr [.str "found", p, .int x] =>
      (match p.toNats? with
       | some p => checkPair n es s t (.found p x) pot cyc
       | none => false)
    | .arr [.str "infeasible"] => checkPair n es s t .infeasible pot cyc
    | .arr [.str "unbounded"] => checkPair n es s t .unbounded pot cyc
    | _ => false
  (Val.arr [Val.ofOpt Val.int (dAt pot t), .bool !cyc.isEmpty, bools oks]).render

def fwCheck (n : Nat) (es : List WEdge) (o : Val) : Bool :=
  match o with
  | .null => checkFwNeg n es ((findNegCycleAny n es).getD [])
  | v => match toMat? v with
    | some M => checkFw n es M ((List.range n).map fun i => mkLvl n es i (M.getD i []))
    | none => false

def handleFw (n : Nat) (es : List WEdge) (directed : Bool) (outs : List Val) : String :=
  let prob := pythonFwEdges directed es
  let model : Option (List (List (Option Int))) :=
    (List.range n).mapM fun i => bfModel n prob i
  let oldProb := if directed then es else fwExpandFirst es
  (Val.arr [Val.ofOpt (fun M => Val.arr (M.map ofOptInts)) model,
    bools (outs.map (fwCheck n prob)), bools (outs.map (fwCheck n oldProb))]).render

/-- large inputs: the tree-level certificates come from the harness (untrusted, like `mkLvl`), nothing
is recomputed here; `null` outputs (UNBOUNDED) are not judged -/
def handleDistC (n : Nat) (es : List WEdge) (s : Nat) (outs : List Val) (lvls : List (List Nat)) : String :=
  let oks := (outs.zip lvls).map fun p =>
    match toOptInts? p.1 with
    | some d => checkDist n es s d p.2
    | none => false
  (Val.arr [bools oks]).render

def handleFwC (n : Nat) (es : List WEdge) (directed : Bool) (outs : List Val) (lvlss : List (List (List Nat))) : String :=
  let prob := pythonFwEdges directed es
  let oks := (outs.zip lvlss).map fun p =>
    match toMat? p.1 with
    | some M => checkFw n prob M p.2
    | none => false
  (Val.arr [bools oks]).render

def handleTopoC (n : Nat) (es : List WEdge) (outs : List Val) : String :=
  let oks := outs.map fun o =>
    match o.toNats? with
    | some ord => checkTopo n es (some ord)
    | none => false
  (Val.arr [bools oks]).render

def handleSupport (n : Nat) (es : List WEdge) (directed : Bool) (outs : List Val) : String :=
  let prob := pythonFwEdges directed es
  let oks := outs.map fun o =>
    match o.toNatss? with
    | some M => checkSupport n prob M
    | none => false
  (Val.arr [bools oks]).render

def handleReach (n : Nat) (es : List WEdge) (s : Nat) (outs : List Val) : String :=
  let canon := reachSorted n es s
  let vs := outs.map fun o =>
    match o.toNats? with
    | some xs => Val.arr [.bool (checkReachList n es s xs), .bool (sameSet xs canon)]
    | none => Val.arr [.bool false, .bool false]
  (Val.arr [Val.ofNats canon, .arr vs, Val.ofNats (rustBfs n es s), Val.ofNats (rustDfs n es s)]).render

def handleAnyPath (n : Nat) (es : List WEdge) (s t : Nat) (outs : List Val) : String :=
  let oks := outs.map fun o =>
    match o with
    | .null => checkAnyPath n es s t none
    | v => match v.toNats? with
      | some p => checkAnyPath n es s t (some p)
      | none => false
  (Val.arr [.bool (reachB n es s t), bools oks]).render

def handleMst (n : Nat) (es : List WEdge) (allow : Bool) (outs : List Val) : String :=
  let oks := outs.map fun o =>
    match o with
    | .arr [.str st, F, total] =>
      (match statusOf? st, Val.toOpt? toEdges? F, Val.toOpt? Val.toInt? total with
       | some st, some F, some total => checkMst n es allow st F total
       | _, _, _ => false)
    | _ => false
  (Val.arr [.bool (connectedB n es), Val.ofOpt Val.int ((bestForest n es).map (·.1)), bools oks]).render

def handleScc (n : Nat) (es : List WEdge) (outs : List Val) : String :=
  let oks := outs.map fun o =>
    match o.toNatss? with
    | some cs => checkScc n es cs
    | none => false
  (Val.arr [Val.ofNatss (canonScc n es), bools oks]).render

def handleTopo (n : Nat) (es : List WEdge) (outs : List Val) : String :=
  let oks := outs.map fun o =>
    match o with
    | .null => checkTopo n es none
    | v => match v.toNats? with
      | some ord => checkTopo n es (some ord)
      | none => false
  (Val.arr [.bool (hasCycle n es), bools oks]).render

def handlePagerank (n : Nat) (es : List WEdge) (d tol : Rat) (fixed : List Rat) (outs : List (List Rat)) : String :=
  let bound := 10 * tol / (1 - d)
  let fixedOk := isPrFixed n (unW es) d fixed
  (Val.arr [.bool fixedOk, Val.ofRat bound, bools (outs.map fun x => within x fixed bound),
    .arr (outs.map fun x => bools (outs.map fun y => within x y bound))]).render

def handle (line : String) : String :=
  match request line with
  | some ("dist", [n, es, s, outs]) =>
    (match n.toNat?, toEdges? es, s.toNat?, outs.toArr? with
     | some n, some es, some s, some outs => handleDist n es s outs
     | _, _, _, _ => err "bad arguments")
  | some ("pair", [n, es, s, t, outs]) =>
    (match n.toNat?, toEdges? es, s.toNat?, t.toNat?, outs.toArr? with
     | some n, some es, some s, some t, some outs => handlePair n es s t outs
     | _, _, _, _, _ => err "bad arguments")
  | some ("fw", [n, es, directed, outs]) =>
    (match n.toNat?, toEdges? es, directed.toBool?, outs.toArr? with
     | some n, some es, some dr, some outs => handleFw n es dr outs
     | _, _, _, _ => err "bad arguments")
  | some ("distc", [n, es, s, outs, lvls]) =>
    (match n.toNat?, toEdges? es, s.toNat?, outs.toArr?, lvls.toNatss? with
     | some n, some es, some s, some outs, some lvls => handleDistC n es s outs lvls
     | _, _, _, _, _ => err "bad arguments")
  | some ("fwc", [n, es, directed, outs, lvlss]) =>
    (match n.toNat?, toEdges? es, directed.toBool?, outs.toArr?, (do (← lvlss.toArr?).mapM Val.toNatss?) with
     | some n, some es, some dr, some outs, some lvlss => handleFwC n es dr outs lvlss
     | _, _, _, _, _ => err "bad arguments")
  | some ("topoc", [n, es, outs]) =>
    (match n.toNat?, toEdges? es, outs.toArr? with
     | some n, some es, some outs => handleTopoC n es outs
     | _, _, _ => err "bad arguments")
  | some ("within", [xs, ys, eps]) =>
    (match xs.toRats?, ys.toRats?, eps.toRat? with
     | some xs, some ys, some eps => (Val.arr [.bool (within xs ys eps)]).render
     | _, _, _ => err "bad arguments")
  | some ("support", [n, es, directed, outs]) =>
    (match n.toNat?, toEdges? es, directed.toBool?, outs.toArr? with
     | some n, some es, some dr, some outs => handleSupport n es dr outs
     | _, _, _, _ => err "bad arguments")
  | some ("reach", [n, es, s, outs]) =>
    (match n.toNat?, toEdges? es, s.toNat?, outs.toArr? with
     | some n, some es, some s, some outs => handleReach n es s outs
     | _, _, _, _ => err "bad arguments")
  | some ("anypath", [n, es, s, t, outs]) =>
    (match n.toNat?, toEdges? es, s.toNat?, t.toNat?, outs.toArr? with
     | some n, some es, some s, some t, some outs => handleAnyPath n es s t outs
     | _, _, _, _, _ => err "bad arguments")
  | some ("mst", [n, es, allow, outs]) =>
    (match n.toNat?, toEdges? es, allow.toBool?, outs.toArr? with
     | some n, some es, some allow, some outs => handleMst n es allow outs
     | _, _, _, _ => err "bad arguments")
  | some ("scc", [n, es, outs]) =>
    (match n.toNat?, toEdges? es, outs.toArr? with
     | some n, some es, some outs => handleScc n es outs
     | _, _, _ => err "bad arguments")
  | some ("topo", [n, es, outs]) =>
    (match n.toNat?, toEdges? es, outs.toArr? with
     | some n, some es, some outs => handleTopo n es outs
     | _, _, _ => err "bad arguments")
  | some ("pagerank", [n, es, d, tol, fixed, outs]) =>
    (match n.toNat?, toEdges? es, d.toRat?, tol.toRat?, fixed.toRats?, outs.toRatss? with
     | some n, some es, some d, some tol, some fixed, some outs => handlePagerank n es d tol fixed outs
     | _, _, _, _, _, _ => err "bad arguments")
  | _ => err "bad request"

end Solvor.Backend
