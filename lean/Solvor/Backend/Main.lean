import Solvor.Backend.Drive
def main : IO Unit := Solvor.Proto.serve Solvor.Backend.handle
