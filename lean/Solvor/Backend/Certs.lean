import Solvor.Backend.Model
/-!
Backend: *untrusted* certificate producers used by the driver (no theorem talks about them; what
they produce is accepted only through the verified checkers of `Model.lean`).
-/
namespace Solvor.Backend

/-- one Bellman-Ford sweep over the edge list -/
def bfSweep (es : List WEdge) (d : List (Option Int)) : List (Option Int) :=
  es.foldl (fun d e =>
    match dAt d e.1 with
    | none => d
    | some a =>
      match dAt d e.2.1 with
      | none => d.set e.2.1 (some (a + e.2.2))
      | some b => if a + e.2.2 < b then d.set e.2.1 (some (a + e.2.2)) else d) d

def iter {α} (f : α → α) : Nat → α → α
  | 0, a => a
  | k + 1, a => iter f k (f a)

/-- shortest distances from `s` (`none` when a sweep after `n` rounds still improves) -/
def bfModel (n : Nat) (es : List WEdge) (s : Nat) : Option (List (Option Int)) :=
  let d0 := (List.replicate n (none : Option Int)).set s (some 0)
  let d := iter (bfSweep es) n d0
  if bfSweep es d == d then some d else none

/-- cheapest walks with at most `k` edges from `c`, with their node lists (reversed) -/
def walkDp (es : List WEdge) (n : Nat) (c : Nat) : Nat → List (Option (Int × List Nat))
  | 0 => (List.replicate n none).set c (some (0, [c]))
  | k + 1 =>
    let prev := walkDp es n c k
    es.foldl (fun cur e =>
      match prev.getD e.1 none with
      | none => cur
      | some (a, p) =>
        let cand := (a + e.2.2, e.2.1 :: p)
        match cur.getD e.2.1 none with
        | none => cur.set e.2.1 (some cand)
        | some (b, _) => if cand.1 < b then cur.set e.2.1 (some cand) else cur) prev

/-- a closed walk through `c` of negative weight with at most `n` edges, as a node list `c … c` -/
def negCycleAt (n : Nat) (es : List WEdge) (c : Nat) : Option (List Nat) :=
  let dp := walkDp es n c (n - 1)
  es.findSome? fun e =>
    if e.2.1 == c then
      match dp.getD e.1 none with
      | some (a, p) => if a + e.2.2 < 0 then some ((c :: p).reverse) else none
      | none => none
    else none

def findNegCycle (n : Nat) (es : List WEdge) (s : Nat) : Option (List Nat) :=
  (reachList n es s).reverse.findSome? fun c => negCycleAt n es c

def findNegCycleAny (n : Nat) (es : List WEdge) : Option (List Nat) :=
  (List.range n).findSome? fun c => negCycleAt n es c

/-- cheapest spanning-forest weight by exhaustive search (diagnostics only) -/
def bestForest (n : Nat) (es : List WEdge) : Option (Int × List WEdge) :=
  (sublists es).foldl (fun best G =>
    match best with
    | some (b, _) => if weightOf G < b && isSpanningForest n es G then some (weightOf G, G) else best
    | none => if isSpanningForest n es G then some (weightOf G, G) else none) none

end Solvor.Backend
