import Solvor.Backend.BfsLemmas
/-! Backend: the mirror of the Rust DFS kernel (stack with lazy visited marking) enumerates exactly
the reachable nodes, once each. -/
namespace Solvor.Backend

/-- out-degrees still to be pushed: Σ over the nodes `< n` not yet visited -/
def pend (n : Nat) (es : List WEdge) (out : List Nat) : Nat :=
  (((List.range n).filter fun u => !out.contains u).map fun u => (adjOf es u).length).sum

theorem pend_aux (f : Nat → Nat) (out : List Nat) (u : Nat) (hu : u ∉ out) : ∀ (l : List Nat),
    ((l.filter fun x => !(u :: out).contains x).map f).sum ≤ ((l.filter fun x => !out.contains x).map f).sum ∧
    (u ∈ l → ((l.filter fun x => !(u :: out).contains x).map f).sum + f u ≤
      ((l.filter fun x => !out.contains x).map f).sum) := by
  intro l
  induction l with
  | nil => simp
  | cons a l ih =>
    obtain ⟨ih1, ih2⟩ := ih
    by_cases hau : a = u
    · subst hau
      have h1 : (!(a :: out).contains a) = false := by simp
      have h2 : (!out.contains a) = true := by simpa using hu
      simp only [List.filter_cons, h1, h2, if_true, Bool.false_eq_true, if_false, List.map_cons, List.sum_cons]
      constructor
      · omega
      · intro _; omega
    · by_cases hao : a ∈ out
      · have h1 : (!(u :: out).contains a) = false := by simp [hao]
        have h2 : (!out.contains a) = false := by simp [hao]
        simp only [List.filter_cons, h1, h2]
        refine ⟨by simpa using ih1, fun h => ?_⟩
        rcases List.mem_cons.1 h with h | h
        · exact absurd h.symm hau
        · simpa using ih2 h
      · have h1 : (!(u :: out).contains a) = true := by simp [hao, hau]
        have h2 : (!out.contains a) = true := by simp [hao]
        simp only [List.filter_cons, h1, h2, if_true, List.map_cons, List.sum_cons]
        refine ⟨by omega, fun h => ?_⟩
        rcases List.mem_cons.1 h with h | h
        · exact absurd h.symm hau
        · have := ih2 h
          omega

theorem pend_cons_le {n : Nat} {es : List WEdge} {out : List Nat} {u : Nat} (hun : u < n) (hu : u ∉ out) :
    pend n es (u :: out) + (adjOf es u).length ≤ pend n es out :=
  (pend_aux (fun u => (adjOf es u).length) out u hu (List.range n)).2 (List.mem_range.2 hun)

theorem sum_le_length_mul (l : List Nat) (f : Nat → Nat) (b : Nat) (h : ∀ x, f x ≤ b) :
    (l.map f).sum ≤ l.length * b := by
  induction l with
  | nil => simp
  | cons a l ih =>
    simp only [List.map_cons, List.sum_cons, List.length_cons]
    have := h a
    rw [Nat.succ_mul]
    omega

theorem pend_nil_le (n : Nat) (es : List WEdge) : pend n es [] ≤ n * es.length := by
  unfold pend
  have h1 := sum_le_length_mul ((List.range n).filter fun u => !([] : List Nat).contains u)
    (fun u => (adjOf es u).length) es.length (by
      intro x
      unfold adjOf
      rw [List.length_map]
      exact List.length_filter_le _ _)
  have h2 : ((List.range n).filter fun u => !([] : List Nat).contains u).length ≤ n := by
    have := List.length_filter_le (fun u => !([] : List Nat).contains u) (List.range n)
    simpa using this
  exact Nat.le_trans h1 (Nat.mul_le_mul_right _ h2)

structure DfsInv (n : Nat) (es : List WEdge) (s : Nat) (fuel : Nat) (stack out : List Nat) : Prop where
  nodup : out.Nodup
  reachOut : ∀ v ∈ out, Reach es s v
  reachStack : ∀ v ∈ stack, Reach es s v
  closed : ∀ u ∈ out, ∀ e ∈ es, e.1 = u → e.2.1 ∈ out ∨ e.2.1 ∈ stack
  root : s ∈ out ∨ s ∈ stack
  fuel : stack.length + pend n es out ≤ fuel

theorem rustDfsOrder_spec {n : Nat} {es : List WEdge} (hval : validW n es = true) {s : Nat} (hs : s < n) :
    ∀ (fuel : Nat) (stack out : List Nat), DfsInv n es s fuel stack out →
      (rustDfsOrder es fuel stack out).Nodup ∧ ∀ v, v ∈ rustDfsOrder es fuel stack out ↔ Reach es s v := by
  have finish : ∀ (fuel : Nat) (out : List Nat), DfsInv n es s fuel [] out →
      out.reverse.Nodup ∧ ∀ v, v ∈ out.reverse ↔ Reach es s v := by
    intro fuel out inv
    refine ⟨List.pairwise_reverse.2 (List.Pairwise.imp (fun h => Ne.symm h) inv.nodup), fun v => ?_⟩
    rw [List.mem_reverse]
    constructor
    · exact inv.reachOut v
    · rintro ⟨x, hx⟩
      have hroot : s ∈ out := by
        rcases inv.root with h | h
        · exact h
        · cases h
      refine closed_complete hroot (fun e he h1 => ?_) hx
      rcases inv.closed e.1 h1 e he rfl with h | h
      · exact h
      · cases h
  intro fuel
  induction fuel with
  | zero =>
    intro stack out inv
    have hlen : stack.length = 0 := by have := inv.fuel; omega
    have : stack = [] := List.length_eq_zero_iff.1 hlen
    subst this
    simpa [rustDfsOrder] using finish 0 out inv
  | succ k ih =>
    intro stack out inv
    cases stack with
    | nil => simpa [rustDfsOrder] using finish (k + 1) out inv
    | cons u st =>
      unfold rustDfsOrder
      by_cases hc : out.contains u = true
      · simp only [hc, if_true]
        have huo : u ∈ out := by simpa using hc
        apply ih
        constructor
        · exact inv.nodup
        · exact inv.reachOut
        · exact fun v hv => inv.reachStack v (List.mem_cons_of_mem _ hv)
        · intro u' hu' e he h1
          rcases inv.closed u' hu' e he h1 with h | h
          · exact Or.inl h
          · rcases List.mem_cons.1 h with h | h
            · exact Or.inl (h ▸ huo)
            · exact Or.inr h
        · rcases inv.root with h | h
          · exact Or.inl h
          · rcases List.mem_cons.1 h with h | h
            · exact Or.inl (h ▸ huo)
            · exact Or.inr h
        · have := inv.fuel
          simp only [List.length_cons] at this
          omega
      · simp only [hc]
        have huo : u ∉ out := by simpa using hc
        have hur : Reach es s u := inv.reachStack u List.mem_cons_self
        have hun : u < n := by
          obtain ⟨x, hx⟩ := hur
          exact hx.lt_of_valid hval hs
        apply ih
        constructor
        · exact List.nodup_cons.2 ⟨huo, inv.nodup⟩
        · intro v hv
          rcases List.mem_cons.1 hv with rfl | hv
          · exact hur
          · exact inv.reachOut v hv
        · intro v hv
          rcases List.mem_append.1 hv with hv | hv
          · have := (List.mem_filter.1 hv).1
            obtain ⟨w, hw⟩ := mem_adjOf.1 this
            exact hur.step hw
          · exact inv.reachStack v (List.mem_cons_of_mem _ hv)
        · intro u' hu' e he h1
          rcases List.mem_cons.1 hu' with rfl | hu'
          · by_cases h2 : e.2.1 = u'
            · exact Or.inl (h2 ▸ List.mem_cons_self)
            · by_cases h3 : e.2.1 ∈ out
              · exact Or.inl (List.mem_cons_of_mem _ h3)
              · have hmem : (u', e.2.1, e.2.2) ∈ es := by
                  rw [← h1]
                  exact he
                refine Or.inr (List.mem_append_left _ (List.mem_filter.2 ⟨mem_adjOf.2 ⟨e.2.2, hmem⟩, ?_⟩))
                simp [h2, h3]
          · rcases inv.closed u' hu' e he h1 with h | h
            · exact Or.inl (List.mem_cons_of_mem _ h)
            · rcases List.mem_cons.1 h with h | h
              · exact Or.inl (h ▸ List.mem_cons_self)
              · exact Or.inr (List.mem_append_right _ h)
        · rcases inv.root with h | h
          · exact Or.inl (List.mem_cons_of_mem _ h)
          · rcases List.mem_cons.1 h with h | h
            · exact Or.inl (h ▸ List.mem_cons_self)
            · exact Or.inr (List.mem_append_right _ h)
        · have h1 := inv.fuel
          have h2 := pend_cons_le (es := es) hun huo
          have h3 : ((adjOf es u).filter fun v => !(v == u) && !out.contains v).length ≤ (adjOf es u).length :=
            List.length_filter_le _ _
          simp only [List.length_cons, List.length_append] at h1 ⊢
          omega

theorem rustDfs_spec {n : Nat} {es : List WEdge} (hval : validW n es = true) {s : Nat} (hs : s < n) :
    (rustDfs n es s).Nodup ∧ ∀ v, v ∈ rustDfs n es s ↔ Reach es s v := by
  unfold rustDfs
  apply rustDfsOrder_spec hval hs
  constructor
  · simp
  · intro v hv; cases hv
  · intro v hv
    rw [List.mem_singleton.1 hv]
    exact Reach.refl es s
  · intro u hu; cases hu
  · exact Or.inr (List.mem_singleton.2 rfl)
  · have := pend_nil_le n es
    simp only [List.length_singleton]
    omega

end Solvor.Backend
