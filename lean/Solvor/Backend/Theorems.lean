import Solvor.Backend.StructLemmas
import Solvor.Backend.PrLemmas
import Solvor.Backend.DfsLemmas
import Solvor.Gen.BackendConsts
/-!
Backend (C12): property theorems only.

Layer T-spec: every `check…` function of `Model.lean` accepts an output only if it has the
spec-level meaning (`…_sound`).  Layer `obs_unique_*`: for one input, any two accepted outputs
have the same observable – so whichever back-end produced them, accepted results cannot differ
in meaning.  Layer `adapter_*`: the preprocessing / result conversion of
`solvor/rust/adapters.py` hands the kernel the same problem the python code solves (and the
negation, with a `decide` witness, for the adapter as it was on the unchanged tree).
-/
namespace Solvor.Backend
open Solvor.Gen (Status)

/-! ### Reachability -/

/-- the executable closure computation decides reachability on valid inputs -/
theorem reachB_decides {n : Nat} {es : List WEdge} (hv : validW n es = true) (s v : Nat) :
    reachB n es s v = true ↔ Reach es s v := reachB_iff hv

example : validW 4 [(0, 1, 1), (1, 2, 1), (3, 0, 1)] = true ∧
    reachB 4 [(0, 1, 1), (1, 2, 1), (3, 0, 1)] 0 2 = true ∧ reachB 4 [(0, 1, 1), (1, 2, 1), (3, 0, 1)] 0 3 = false := by
  decide

/-- T-spec of the finiteness-pattern checker (used for inputs whose distances are inexact doubles):
an accepted 0/1 matrix marks exactly the reachable pairs -/
theorem checkSupport_sound {n : Nat} {es : List WEdge} {M : List (List Nat)} (h : checkSupport n es M = true) :
    ∀ i j, i < n → j < n → ((M.getD i []).getD j 0 = 1 ↔ Reach es i j) := by
  unfold checkSupport at h
  simp only [Bool.and_eq_true, List.all_eq_true, List.mem_range, beq_iff_eq] at h
  obtain ⟨⟨hv, _⟩, hall⟩ := h
  intro i j hi hj
  have := (hall i hi).2 j hj
  rw [← reachB_decides hv]
  cases hb : reachB n es i j <;> simp_all

example : checkSupport 3 [(0, 1, 1), (1, 0, 1), (2, 0, 1)] [[1, 1, 0], [1, 1, 0], [1, 1, 1]] = true := by decide

/-! ### Single-source distances (`dijkstra_edges`, `bellman_ford` without target) -/

/-- T-spec: an accepted vector has length `n` and holds the exact shortest distance of every node
(`none` exactly for the unreachable ones) -/
theorem checkDist_sound {n : Nat} {es : List WEdge} {s : Nat} {d : List (Option Int)} {lvl : List Nat}
    (h : checkDist n es s d lvl = true) : d.length = n ∧ ∀ v, v < n → IsDist es s v (dAt d v) :=
  checkDist_sound' h

example : checkDist 3 [(0, 1, 5), (1, 2, -2), (0, 2, 4), (0, 1, 7), (2, 2, 0)] 0 [some 0, some 5, some 3] [0, 1, 2] = true := by
  decide

/-- any two accepted distance vectors for the same input are equal -/
theorem obs_unique_dist {n : Nat} {es : List WEdge} {s : Nat} {d1 d2 : List (Option Int)} {l1 l2 : List Nat}
    (h1 : checkDist n es s d1 l1 = true) (h2 : checkDist n es s d2 l2 = true) : d1 = d2 := by
  obtain ⟨hl1, hd1⟩ := checkDist_sound h1
  obtain ⟨hl2, hd2⟩ := checkDist_sound h2
  exact dist_ext hl1 hl2 fun v hv => isDist_unique (hd1 v hv) (hd2 v hv)

example : checkDist 3 [(0, 1, 5), (1, 2, -2), (0, 2, 3)] 0 [some 0, some 5, some 3] [0, 1, 2] = true ∧
    checkDist 3 [(0, 1, 5), (1, 2, -2), (0, 2, 3)] 0 [some 0, some 5, some 3] [0, 7, 9] = true := by decide

/-- T-spec: an accepted negative-cycle certificate is a negative closed walk reachable from `s` -/
theorem checkNegCycle_spec {n : Nat} {es : List WEdge} {s : Nat} {cyc : List Nat}
    (h : checkNegCycle n es s cyc = true) : NegCycleFrom es s := checkNegCycle_sound h

example : checkNegCycle 3 [(0, 1, 1), (1, 2, -3), (2, 1, 1)] 0 [1, 2, 1] = true := by decide

/-- the status is determined by the input: UNBOUNDED (a reachable negative cycle) and a distance
vector can never both be accepted -/
theorem obs_unique_sssp_status {n : Nat} {es : List WEdge} {s : Nat} {d : List (Option Int)} {lvl cyc : List Nat}
    (h1 : checkDist n es s d lvl = true) (h2 : checkNegCycle n es s cyc = true) : False := by
  have := negCycle_no_pot (checkNegCycle_sound h2) d
  rw [checkDist_pot h1] at this
  cases this

/-! ### All pairs (`floyd_warshall`) -/

theorem checkFw_row {n : Nat} {es : List WEdge} {M : List (List (Option Int))} {lvls : List (List Nat)}
    (h : checkFw n es M lvls = true) {i : Nat} (hi : i < n) :
    checkDist n es i (M.getD i []) (lvls.getD i []) = true := by
  unfold checkFw at h
  simp only [Bool.and_eq_true, List.all_eq_true, List.mem_range] at h
  exact h.2 i hi

/-- T-spec: entry `(i, j)` of an accepted matrix is the exact shortest distance from `i` to `j` -/
theorem checkFw_sound {n : Nat} {es : List WEdge} {M : List (List (Option Int))} {lvls : List (List Nat)}
    (h : checkFw n es M lvls = true) :
    M.length = n ∧ ∀ i j, i < n → j < n → IsDist es i j (dAt (M.getD i []) j) := by
  refine ⟨?_, fun i j hi hj => (checkDist_sound (checkFw_row h hi)).2 j hj⟩
  unfold checkFw at h
  simp only [Bool.and_eq_true, beq_iff_eq] at h
  exact h.1

example : checkFw 2 [(0, 1, 5), (0, 1, 2), (1, 0, -1)] [[some 0, some 2], [some (-1), some 0]] [[0, 1], [1, 0]] = true := by
  decide

/-- any two accepted distance matrices for the same input are equal -/
theorem obs_unique_fw {n : Nat} {es : List WEdge} {M1 M2 : List (List (Option Int))} {L1 L2 : List (List Nat)}
    (h1 : checkFw n es M1 L1 = true) (h2 : checkFw n es M2 L2 = true) : M1 = M2 := by
  have hl1 := (checkFw_sound h1).1
  have hl2 := (checkFw_sound h2).1
  apply List.ext_getElem (by omega)
  intro i hi1 hi2
  have := obs_unique_dist (checkFw_row h1 (i := i) (by omega)) (checkFw_row h2 (i := i) (by omega))
  simpa [List.getD_eq_getElem?_getD, hi1, hi2] using this

example : checkFw 2 [(0, 1, 5), (1, 0, 1)] [[some 0, some 5], [some 1, some 0]] [[0, 1], [1, 0]] = true ∧
    checkFw 2 [(0, 1, 5), (1, 0, 1)] [[some 0, some 5], [some 1, some 0]] [[3, 9], [4, 2]] = true := by decide

/-- … and UNBOUNDED (a negative closed walk somewhere) excludes every accepted matrix
(each hypothesis is satisfiable on its own: the examples above and below; together never) -/
theorem obs_unique_fw_status {n : Nat} {es : List WEdge} {M : List (List (Option Int))} {L : List (List Nat)}
    {cyc : List Nat} (h1 : checkFw n es M L = true) (h2 : checkFwNeg n es cyc = true) : False := by
  unfold checkFwNeg at h2
  cases cyc with
  | nil => cases h2
  | cons c rest =>
    simp only at h2
    have hc : c < n := by
      unfold checkNegCycle at h2
      simp only [Bool.and_eq_true, decide_eq_true_eq] at h2
      exact h2.1.2
    exact obs_unique_sssp_status (checkFw_row h1 hc) h2

example : checkFwNeg 2 [(0, 1, 1), (1, 0, -2)] [1, 0, 1] = true := by decide

/-! ### Single pair (`dijkstra_edges`, `bellman_ford`, `bfs_edges` with a target) -/

/-- T-spec for the three outcome kinds -/
theorem checkPair_sound {n : Nat} {es : List WEdge} {s t : Nat} {o : PairOut} {pot : List (Option Int)}
    {cyc : List Nat} (h : checkPair n es s t o pot cyc = true) :
    match o with
    | .found _ x => Walk es s t x ∧ IsDist es s t (some x) ∧ ¬ NegCycleFrom es s
    | .infeasible => IsDist es s t none ∧ ¬ NegCycleFrom es s
    | .unbounded => NegCycleFrom es s := by
  unfold checkPair at h
  simp only [Bool.and_eq_true, decide_eq_true_eq] at h
  obtain ⟨⟨⟨hval, hs⟩, ht⟩, ho⟩ := h
  cases o with
  | found p x =>
    simp only [Bool.and_eq_true, beq_iff_eq] at ho
    obtain ⟨⟨hpot, hdt⟩, hpath⟩ := ho
    have hw := pathOK_walk hpath
    refine ⟨hw, ⟨hw, fun y hy => ?_⟩, fun hc => ?_⟩
    · obtain ⟨b, hb, hle⟩ := pot_lower hpot hy
      rw [hdt] at hb
      cases hb
      exact hle
    · have := negCycle_no_pot hc pot
      rw [hpot] at this
      cases this
  | infeasible =>
    simp only [Bool.and_eq_true, beq_iff_eq] at ho
    obtain ⟨hpot, hdt⟩ := ho
    refine ⟨?_, fun hc => ?_⟩
    · rintro ⟨y, hy⟩
      obtain ⟨b, hb, _⟩ := pot_lower hpot hy
      rw [hdt] at hb
      cases hb
    · have := negCycle_no_pot hc pot
      rw [hpot] at this
      cases this
  | unbounded =>
    have : checkNegCycle n es s cyc = true := by
      unfold checkNegCycle
      simp only [Bool.and_eq_true, decide_eq_true_eq]
      exact ⟨⟨hval, hs⟩, ho⟩
    exact checkNegCycle_sound this

example : checkPair 3 [(0, 1, 5), (1, 2, -2), (0, 2, 4)] 0 2 (.found [0, 1, 2] 3) [some 0, some 5, some 3] [] = true ∧
    checkPair 3 [(0, 1, 5)] 0 2 .infeasible [some 0, some 5, none] [] = true ∧
    checkPair 3 [(0, 1, 1), (1, 2, -3), (2, 1, 1)] 0 2 .unbounded [] [1, 2, 1] = true := by decide

/-- two accepted outcomes for the same query have the same status class and the same objective
(the returned paths may differ; each is a walk of exactly that weight) -/
theorem obs_unique_pair {n : Nat} {es : List WEdge} {s t : Nat} {o1 o2 : PairOut}
    {p1 p2 : List (Option Int)} {c1 c2 : List Nat}
    (h1 : checkPair n es s t o1 p1 c1 = true) (h2 : checkPair n es s t o2 p2 c2 = true) : o1.obs = o2.obs := by
  have s1 := checkPair_sound h1
  have s2 := checkPair_sound h2
  cases o1 <;> cases o2 <;> simp only [PairOut.obs] at * <;>
    first
    | rfl
    | exact absurd s2 s1.2.2
    | exact absurd s1 s2.2.2
    | exact absurd s2 s1.2
    | exact absurd s1 s2.2
    | (have := isDist_unique s1.2.1 s2.2.1; simp_all)
    | (have := isDist_unique s1.2.1 s2.1; cases this)
    | (have := isDist_unique s1.1 s2.2.1; cases this)

example : checkPair 3 [(0, 1, 2), (1, 2, 2), (0, 2, 4)] 0 2 (.found [0, 1, 2] 4) [some 0, some 2, some 4] [] = true ∧
    checkPair 3 [(0, 1, 2), (1, 2, 2), (0, 2, 4)] 0 2 (.found [0, 2] 4) [some 0, some 2, some 4] [] = true := by decide

/-! ### Reachable sets (`bfs_edges`, `dfs_edges` without target) and DFS paths -/

/-- T-spec: the accepted list is *the* strictly increasing enumeration of the nodes reachable from `s` -/
theorem checkReachList_sound {n : Nat} {es : List WEdge} {s : Nat} {xs : List Nat}
    (h : checkReachList n es s xs = true) :
    xs.Pairwise (· < ·) ∧ ∀ v, v ∈ xs ↔ (v < n ∧ Reach es s v) := by
  unfold checkReachList at h
  simp only [Bool.and_eq_true, beq_iff_eq, decide_eq_true_eq] at h
  obtain ⟨⟨hv, _⟩, rfl⟩ := h
  exact ⟨pairwise_reachSorted n es s, fun v => mem_reachSorted hv⟩

theorem obs_unique_reach {n : Nat} {es : List WEdge} {s : Nat} {xs ys : List Nat}
    (h1 : checkReachList n es s xs = true) (h2 : checkReachList n es s ys = true) : xs = ys := by
  unfold checkReachList at h1 h2
  simp only [Bool.and_eq_true, beq_iff_eq] at h1 h2
  rw [h1.2, h2.2]

example : checkReachList 4 [(0, 2, 1), (0, 1, 1), (3, 0, 1)] 0 [0, 1, 2] = true ∧
    checkReachList 4 [(0, 2, 1), (0, 1, 1), (3, 0, 1)] 0 [0, 2, 1] = false := by decide

/-- T-spec for `dfs_edges` with a target: an accepted path is a walk `s … t`; INFEASIBLE is
accepted only when `t` is unreachable -/
theorem checkAnyPath_sound {n : Nat} {es : List WEdge} {s t : Nat} {o : Option (List Nat)}
    (h : checkAnyPath n es s t o = true) :
    match o with
    | some p => p.head? = some s ∧ Reach es s t
    | none => ¬ Reach es s t := by
  unfold checkAnyPath at h
  simp only [Bool.and_eq_true, decide_eq_true_eq] at h
  obtain ⟨⟨⟨hval, _⟩, _⟩, ho⟩ := h
  cases o with
  | none =>
    simp only [Bool.not_eq_true'] at ho
    intro hr
    rw [(reachB_iff hval).2 hr] at ho
    cases ho
  | some p =>
    cases p with
    | nil => simp at ho
    | cons u rest =>
      simp only [Bool.and_eq_true, beq_iff_eq] at ho
      obtain ⟨⟨hu, hl⟩, hw⟩ := ho
      refine ⟨by simp [hu], ?_⟩
      cases hx : walkMinW es u rest with
      | none => simp [hx] at hw
      | some x =>
        have := walkMinW_walk rest u x hx
        rw [hl, hu] at this
        exact ⟨x, this⟩

/-- found / not found is determined by the input (the paths themselves may differ, each is valid) -/
theorem obs_unique_anypath {n : Nat} {es : List WEdge} {s t : Nat} {o1 o2 : Option (List Nat)}
    (h1 : checkAnyPath n es s t o1 = true) (h2 : checkAnyPath n es s t o2 = true) :
    o1.isSome = o2.isSome := by
  have s1 := checkAnyPath_sound h1
  have s2 := checkAnyPath_sound h2
  cases o1 <;> cases o2 <;> simp only [Option.isSome] <;>
    first
    | rfl
    | exact absurd s2.2 s1
    | exact absurd s1.2 s2

example : checkAnyPath 4 [(0, 1, 1), (1, 2, 1), (0, 2, 1), (2, 3, 1)] 0 3 (some [0, 1, 2, 3]) = true ∧
    checkAnyPath 4 [(0, 1, 1), (1, 2, 1), (0, 2, 1), (2, 3, 1)] 0 3 (some [0, 2, 3]) = true ∧
    checkAnyPath 4 [(0, 1, 1), (1, 2, 1), (0, 2, 1), (2, 3, 1)] 3 0 none = true := by decide

/-! ### Minimum spanning forests (`kruskal`) -/

/-- T-spec: an accepted result is a minimum spanning forest of the multigraph, its objective is
the forest's weight, and the status says whether the graph is connected -/
theorem checkMst_sound {n : Nat} {es : List WEdge} {allow : Bool} {st : Status} {F : Option (List WEdge)}
    {total : Option Int} (h : checkMst n es allow st F total = true) :
    match st, F, total with
    | .OPTIMAL, some F, some x => (∀ v, v < n → Reach (symW es) 0 v) ∧ IsMinSpanningForest es F ∧ x = weightOf F
    | .FEASIBLE, some F, some x =>
        ¬ (∀ v, v < n → Reach (symW es) 0 v) ∧ allow = true ∧ IsMinSpanningForest es F ∧ x = weightOf F
    | .INFEASIBLE, none, none => ¬ (∀ v, v < n → Reach (symW es) 0 v) ∧ allow = false
    | _, _, _ => False := by
  unfold checkMst at h
  simp only [Bool.and_eq_true, decide_eq_true_eq] at h
  obtain ⟨⟨hval, _⟩, ho⟩ := h
  cases st <;> cases F <;> cases total <;>
    simp only [Bool.and_eq_true, beq_iff_eq, Bool.not_eq_true', Bool.false_eq_true] at ho ⊢ <;>
    first
    | exact ho
    | (obtain ⟨⟨hc, hm⟩, hx⟩ := ho
       exact ⟨(connectedB_iff hval).1 hc, (isMinForest_iff hval).1 hm, hx⟩)
    | (obtain ⟨⟨⟨hc, ha⟩, hm⟩, hx⟩ := ho
       refine ⟨fun hcon => ?_, ha, (isMinForest_iff hval).1 hm, hx⟩
       rw [(connectedB_iff hval).2 hcon] at hc
       cases hc)
    | (obtain ⟨hc, ha⟩ := ho
       refine ⟨fun hcon => ?_, ha⟩
       rw [(connectedB_iff hval).2 hcon] at hc
       cases hc)

example : checkMst 3 [(0, 1, 5), (1, 2, 2), (0, 2, 4), (0, 0, 1), (2, 1, 2)] false .OPTIMAL (some [(1, 2, 2), (0, 2, 4)]) (some 6) = true ∧
    checkMst 3 [(0, 1, 5)] true .FEASIBLE (some [(0, 1, 5)]) (some 5) = true ∧
    checkMst 3 [(0, 1, 5)] false .INFEASIBLE none none = true := by decide

/-- two accepted `kruskal` results for the same input have the same status and the same total
weight (the edge sets may differ when weights tie; each is a minimum spanning forest) -/
theorem obs_unique_mst {n : Nat} {es : List WEdge} {allow : Bool} {st1 st2 : Status}
    {F1 F2 : Option (List WEdge)} {t1 t2 : Option Int}
    (h1 : checkMst n es allow st1 F1 t1 = true) (h2 : checkMst n es allow st2 F2 t2 = true) :
    st1 = st2 ∧ t1 = t2 := by
  have s1 := checkMst_sound h1
  have s2 := checkMst_sound h2
  have wuniq : ∀ {A B : List WEdge}, IsMinSpanningForest es A → IsMinSpanningForest es B →
      weightOf A = weightOf B := fun hA hB => Int.le_antisymm (hA.2 _ hB.1) (hB.2 _ hA.1)
  cases st1 <;> cases F1 <;> cases t1 <;> simp only at s1 <;>
  cases st2 <;> cases F2 <;> cases t2 <;> simp only at s2 <;>
    first
    | exact ⟨rfl, rfl⟩
    | (refine ⟨rfl, ?_⟩
       first
       | (rw [s1.2.2, s2.2.2, wuniq s1.2.1 s2.2.1])
       | (rw [s1.2.2.2, s2.2.2.2, wuniq s1.2.2.1 s2.2.2.1]))
    | exact absurd s1.1 s2.1
    | exact absurd s2.1 s1.1
    | (have := s1.2.1; have := s2.2; simp_all)
    | (have := s2.2.1; have := s1.2; simp_all)

example : checkMst 3 [(0, 1, 2), (1, 2, 2), (0, 2, 2)] false .OPTIMAL (some [(0, 1, 2), (1, 2, 2)]) (some 4) = true ∧
    checkMst 3 [(0, 1, 2), (1, 2, 2), (0, 2, 2)] false .OPTIMAL (some [(1, 2, 2), (0, 2, 2)]) (some 4) = true := by decide

/-! ### Strongly connected components -/

/-- T-spec: an accepted (canonicalised) partition lists exactly the mutual-reachability classes:
every listed class is one, and every node lies in a listed class -/
theorem checkScc_sound {n : Nat} {es : List WEdge} {cs : List (List Nat)} (h : checkScc n es cs = true) :
    (∀ C ∈ cs, ∃ v, v < n ∧ v ∈ C ∧ ∀ u, u ∈ C ↔ (u < n ∧ Mutual es v u)) ∧
    (∀ v, v < n → ∃ C ∈ cs, v ∈ C) := by
  unfold checkScc at h
  simp only [Bool.and_eq_true, beq_iff_eq] at h
  obtain ⟨hv, rfl⟩ := h
  exact ⟨fun C hC => canonScc_class hv hC, fun v hvn => canonScc_cover hv hvn⟩

theorem obs_unique_scc {n : Nat} {es : List WEdge} {cs1 cs2 : List (List Nat)}
    (h1 : checkScc n es cs1 = true) (h2 : checkScc n es cs2 = true) : cs1 = cs2 := by
  unfold checkScc at h1 h2
  simp only [Bool.and_eq_true, beq_iff_eq] at h1 h2
  rw [h1.2, h2.2]

example : checkScc 4 [(0, 1, 1), (1, 0, 1), (1, 2, 1), (2, 3, 1), (3, 2, 1), (0, 0, 1)] [[0, 1], [2, 3]] = true ∧
    checkScc 4 [(0, 1, 1), (1, 0, 1), (1, 2, 1), (2, 3, 1), (3, 2, 1), (0, 0, 1)] [[0, 1], [2], [3]] = false := by decide

/-! ### Topological order -/

/-- T-spec: an accepted order contains every node and no edge goes backwards (so in particular
there is no self loop); INFEASIBLE is accepted only together with a closed walk through an edge -/
theorem checkTopo_sound {n : Nat} {es : List WEdge} {o : Option (List Nat)} (h : checkTopo n es o = true) :
    match o with
    | some ord => ord.length = n ∧ (∀ v, v < n → v ∈ ord) ∧ ∀ e ∈ es, posOf ord e.1 < posOf ord e.2.1
    | none => ∃ e ∈ es, Reach es e.2.1 e.1 := by
  unfold checkTopo at h
  cases o with
  | some ord =>
    simp only at h ⊢
    refine ⟨?_, ?_, checkTopoOrder_forward h⟩
    · unfold checkTopoOrder at h
      simp only [Bool.and_eq_true, beq_iff_eq] at h
      exact h.1.1.2
    · unfold checkTopoOrder at h
      simp only [Bool.and_eq_true, List.all_eq_true, List.mem_range, List.contains_eq_mem,
        decide_eq_true_eq] at h
      exact h.1.2
  | none =>
    simp only [Bool.and_eq_true] at h ⊢
    exact (hasCycle_iff h.1).1 h.2

/-- the status is determined by the input: an order and INFEASIBLE can never both be accepted
(any two accepted orders may differ; by `checkTopo_sound` each is valid) -/
theorem obs_unique_topo {n : Nat} {es : List WEdge} {o1 o2 : Option (List Nat)}
    (h1 : checkTopo n es o1 = true) (h2 : checkTopo n es o2 = true) : o1.isSome = o2.isSome := by
  have key : ∀ {ord : List Nat}, checkTopo n es (some ord) = true → checkTopo n es none = true → False := by
    intro ord ha hb
    have sa := checkTopo_sound ha
    have sb := checkTopo_sound hb
    simp only at sa sb
    obtain ⟨e, he, x, hx⟩ := sb
    have h1 := topo_walk_le sa.2.2 hx
    have h2 := sa.2.2 e he
    omega
  cases o1 <;> cases o2 <;> simp only [Option.isSome] <;>
    first
    | rfl
    | exact (key h2 h1).elim
    | exact (key h1 h2).elim

example : checkTopo 4 [(0, 1, 1), (1, 2, 1), (0, 2, 1), (0, 1, 1)] (some [3, 0, 1, 2]) = true ∧
    checkTopo 4 [(0, 1, 1), (1, 2, 1), (0, 2, 1), (0, 1, 1)] (some [0, 1, 3, 2]) = true ∧
    checkTopo 3 [(0, 1, 1), (1, 2, 1), (2, 0, 1)] none = true := by decide

/-! ### PageRank -/

/-- the exact PageRank step contracts L1 distances by the damping factor -/
theorem pagerank_contraction {n : Nat} {es : List (Nat × Nat)} {d : Rat} (hd : 0 ≤ d) (hv : validU n es = true)
    (x y : List Rat) : l1dist n (prStep n es d x) (prStep n es d y) ≤ d * l1dist n x y :=
  l1dist_step_le hd hv x y

example : (0 : Rat) ≤ 17 / 20 ∧ validU 3 [(0, 1), (1, 2), (2, 0), (0, 2), (0, 1)] = true := by decide +kernel

/-- the PageRank vector (the fixed point accepted by `isPrFixed`) is unique for `0 ≤ d < 1` -/
theorem obs_unique_pagerank {n : Nat} {es : List (Nat × Nat)} {d : Rat} (hd : 0 ≤ d) (hd1 : d < 1)
    (hv : validU n es = true) {x y : List Rat}
    (hx : isPrFixed n es d x = true) (hy : isPrFixed n es d y = true) : x = y := by
  obtain ⟨hlx, hfx⟩ := isPrFixed_iff.1 hx
  obtain ⟨hly, hfy⟩ := isPrFixed_iff.1 hy
  have h := pagerank_contraction hd hv x y
  rw [hfx, hfy] at h
  have h0 : l1dist n x y ≤ 0 := by
    by_contra hc
    have hpos : 0 < l1dist n x y := not_le.1 hc
    have : d * l1dist n x y < 1 * l1dist n x y := mul_lt_mul_of_pos_right hd1 hpos
    linarith
  exact list_eq_of_l1dist_zero hlx hly h0

example : isPrFixed 2 [(0, 1), (1, 0)] (17 / 20) [1 / 2, 1 / 2] = true ∧ validU 2 [(0, 1), (1, 0)] = true := by
  decide +kernel

/-- a-posteriori error bound: if `y` is one step after `x`, then
`(1 - d)·‖y - x*‖₁ ≤ d·‖y - x‖₁` for the PageRank vector `x*` -/
theorem pagerank_error_bound {n : Nat} {es : List (Nat × Nat)} {d : Rat} (hd : 0 ≤ d) (hv : validU n es = true)
    {xs : List Rat} (hxs : isPrFixed n es d xs = true) (x : List Rat) :
    (1 - d) * l1dist n (prStep n es d x) xs ≤ d * l1dist n (prStep n es d x) x := by
  obtain ⟨_, hfx⟩ := isPrFixed_iff.1 hxs
  have h1 := pagerank_contraction hd hv x xs
  rw [hfx] at h1
  have h2 := l1dist_triangle n x (prStep n es d x) xs
  have h3 := l1dist_comm n x (prStep n es d x)
  have : d * l1dist n x xs ≤ d * (l1dist n x (prStep n es d x) + l1dist n (prStep n es d x) xs) :=
    mul_le_mul_of_nonneg_left h2 hd
  nlinarith

example : isPrFixed 2 [(0, 1), (1, 0)] (1 / 2) [1 / 2, 1 / 2] = true ∧
    prStep 2 [(0, 1), (1, 0)] (1 / 2) [1, 0] = [1 / 4, 3 / 4] := by decide +kernel

/-- the stopping rule of both back-ends (largest change `≤ tol`) bounds every score's distance to the
exact PageRank value: `(1 - d)·|y_v - x*_v| ≤ d·n·tol`; with `n·d ≤ 10` this is the bound
`10·tol/(1-d)` the check uses -/
theorem pagerank_tol_bound {n : Nat} {es : List (Nat × Nat)} {d tol : Rat} (hd : 0 ≤ d) (hd1 : d < 1)
    (hv : validU n es = true) {xs : List Rat} (hxs : isPrFixed n es d xs = true) (x : List Rat)
    (hstop : ∀ v, v < n → |(prStep n es d x).getD v 0 - x.getD v 0| ≤ tol) {v : Nat} (hvn : v < n) :
    (1 - d) * |(prStep n es d x).getD v 0 - xs.getD v 0| ≤ d * (n * tol) := by
  have h1 := pagerank_error_bound hd hv hxs x
  have h2 := l1dist_le_of_entries (prStep n es d x) x tol hstop
  have h3 := entry_le_l1dist (n := n) (prStep n es d x) xs hvn
  have h4 : (1 - d) * |(prStep n es d x).getD v 0 - xs.getD v 0| ≤ (1 - d) * l1dist n (prStep n es d x) xs :=
    mul_le_mul_of_nonneg_left h3 (by linarith)
  have h5 : d * l1dist n (prStep n es d x) x ≤ d * (n * tol) := mul_le_mul_of_nonneg_left h2 hd
  linarith

example : ∀ v, v < 2 → absR ((prStep 2 [(0, 1), (1, 0)] (1 / 2) [1, 0]).getD v 0 - ([1, 0] : List Rat).getD v 0) ≤ 3 / 4 := by
  decide +kernel

/-! ### Adapters -/

/-- the repaired undirected expansion of `_floyd_warshall_rust` poses the same shortest-path
problem as `floyd_warshall(..., directed=False)` in python: every distance statement transfers -/
theorem adapter_fw_same_problem (directed : Bool) (es : List WEdge) (s v : Nat) (o : Option Int) :
    IsDist (adapterFwEdges directed es) s v o ↔ IsDist (pythonFwEdges directed es) s v o := by
  apply isDist_congr
  intro e
  unfold adapterFwEdges pythonFwEdges
  cases directed with
  | true => simp
  | false =>
    simp only [Bool.false_eq_true, if_false, fwExpand, symW, List.mem_flatMap, List.mem_append, List.mem_map,
      List.mem_cons, List.not_mem_nil, or_false]
    constructor
    · rintro ⟨a, ha, rfl | rfl⟩
      · exact Or.inl ha
      · exact Or.inr ⟨a, ha, rfl⟩
    · rintro (h | ⟨a, ha, rfl⟩)
      · exact ⟨e, h, Or.inl rfl⟩
      · exact ⟨a, ha, Or.inr rfl⟩

example : adapterFwEdges false [(0, 1, 5), (0, 1, 2)] = [(0, 1, 5), (1, 0, 5), (0, 1, 2), (1, 0, 2)] := by decide

/-- the expansion as it is on the unchanged tree (first weight per pair wins) does **not** pose
the same problem: on the multigraph `{0-1 (5), 0-1 (2)}` the distance 0→1 becomes 5 instead of 2 -/
theorem adapter_fw_first_not_same :
    ¬ ∀ (es : List WEdge) (s v : Nat) (o : Option Int),
        IsDist (fwExpandFirst es) s v o ↔ IsDist (pythonFwEdges false es) s v o := by
  intro h
  have h5 : IsDist (fwExpandFirst [(0, 1, 5), (0, 1, 2)]) 0 1 (some 5) :=
    (checkDist_sound (n := 2) (lvl := [0, 1]) (d := [some 0, some 5]) (by decide)).2 1 (by decide)
  have h2 : IsDist (pythonFwEdges false [(0, 1, 5), (0, 1, 2)]) 0 1 (some 2) :=
    (checkDist_sound (n := 2) (lvl := [0, 1]) (d := [some 0, some 2]) (by decide)).2 1 (by decide)
  have := isDist_unique ((h _ _ _ _).1 h5) h2
  cases this

/-- result conversion of the repaired `_bfs_edges_rust` / `_dfs_edges_rust` (without target):
sorting *any* duplicate-free enumeration of the reachable set (the kernel's visit order) gives the
value the python back-end returns -/
theorem adapter_traversal_same_value {n : Nat} {es : List WEdge} (hv : validW n es = true) {s : Nat}
    {order : List Nat} (hnd : order.Nodup) (hmem : ∀ v, v ∈ order ↔ (v < n ∧ Reach es s v)) :
    sortNat order = reachSorted n es s := by
  apply sorted_ext _ _ (pairwise_sortNat hnd) (pairwise_reachSorted n es s)
  intro x
  rw [mem_sortNat, hmem, mem_reachSorted hv]

example : sortNat (rustBfs 3 [(0, 2, 1), (0, 1, 1)] 0) = reachSorted 3 [(0, 2, 1), (0, 1, 1)] 0 := by decide

/-- T-model: the mirrors of the Rust traversal kernels (`rust/src/algorithms/bfs.rs`, tied to the
real kernel's `visited_order` by R_trace on every run) list every reachable node exactly once -/
theorem rust_traversal_mirror_enumerates {n : Nat} {es : List WEdge} (hv : validW n es = true) {s : Nat}
    (hs : s < n) :
    ((rustBfs n es s).Nodup ∧ ∀ v, v ∈ rustBfs n es s ↔ Reach es s v) ∧
    ((rustDfs n es s).Nodup ∧ ∀ v, v ∈ rustDfs n es s ↔ Reach es s v) :=
  ⟨rustBfs_spec hv hs, rustDfs_spec hv hs⟩

/-- hence the repaired adapters, applied to the kernel mirrors, return a value the verified
checker accepts – the python back-end's value – on **every** valid input -/
theorem adapter_traversal_mirror_accepted {n : Nat} {es : List WEdge} (hv : validW n es = true) {s : Nat}
    (hs : s < n) :
    checkReachList n es s (sortNat (rustBfs n es s)) = true ∧
    checkReachList n es s (sortNat (rustDfs n es s)) = true := by
  obtain ⟨⟨hb1, hb2⟩, ⟨hd1, hd2⟩⟩ := rust_traversal_mirror_enumerates hv hs
  have reach_lt : ∀ v, Reach es s v → v < n := fun v ⟨_, hx⟩ => hx.lt_of_valid hv hs
  unfold checkReachList
  simp only [Bool.and_eq_true, beq_iff_eq, decide_eq_true_eq]
  refine ⟨⟨⟨hv, hs⟩, ?_⟩, ⟨⟨hv, hs⟩, ?_⟩⟩
  · exact adapter_traversal_same_value hv hb1 fun v => by
      rw [hb2]; exact ⟨fun h => ⟨reach_lt v h, h⟩, fun h => h.2⟩
  · exact adapter_traversal_same_value hv hd1 fun v => by
      rw [hd2]; exact ⟨fun h => ⟨reach_lt v h, h⟩, fun h => h.2⟩

example : validW 4 [(0, 2, 1), (2, 1, 1), (0, 1, 1), (3, 0, 1)] = true ∧
    rustBfs 4 [(0, 2, 1), (2, 1, 1), (0, 1, 1), (3, 0, 1)] 0 = [0, 2, 1] ∧
    rustDfs 4 [(0, 2, 1), (2, 1, 1), (0, 1, 1), (3, 0, 1)] 0 = [0, 2, 1] := by decide

/-- … while the conversion on the unchanged tree (the raw visit order) is not that value -/
theorem adapter_traversal_old_not_same :
    ∃ (n : Nat) (es : List WEdge) (s : Nat), validW n es = true ∧ s < n ∧
      rustBfs n es s ≠ reachSorted n es s ∧ rustDfs n es s ≠ reachSorted n es s :=
  ⟨3, [(0, 2, 1), (2, 1, 1)], 0, by decide⟩

/-- status of a found DFS path: repaired adapter agrees with python, the old one does not -/
theorem adapter_dfs_status_same : adapterDfsFoundStatus = pyDfsFoundStatus := rfl
theorem adapter_dfs_status_old_not_same : adapterDfsFoundStatusOld ≠ pyDfsFoundStatus := by decide

/-- `_kruskal_rust` maps (edges chosen, `allow_forest`) to the same status as python's `kruskal`
(a spanning forest never has more than `n - 1` edges) -/
theorem adapter_kruskal_status_same (k n : Nat) (allow : Bool) (hk : k ≤ n - 1) :
    adapterKruskalStatus k n allow = pyKruskalStatus k n allow := by
  unfold adapterKruskalStatus pyKruskalStatus
  by_cases h : k = n - 1
  · subst h
    simp
  · have : k < n - 1 := by omega
    simp [h, this]

/-- the keyword defaults the adapters repeat are the defaults of the python functions (constants
regenerated from the working tree on every run: `Solvor/Gen/BackendConsts.lean`) -/
theorem adapter_defaults_same :
    Solvor.Gen.Backend.rsPrDamping_bits = Solvor.Gen.Backend.pyPrDamping_bits ∧
    Solvor.Gen.Backend.rsPrMaxIter = Solvor.Gen.Backend.pyPrMaxIter ∧
    Solvor.Gen.Backend.rsPrTol_bits = Solvor.Gen.Backend.pyPrTol_bits ∧
    Solvor.Gen.Backend.rsFwDirected = Solvor.Gen.Backend.pyFwDirected ∧
    Solvor.Gen.Backend.rsKruskalAllowForest = Solvor.Gen.Backend.pyKruskalAllowForest := by decide

example : adapterKruskalStatus 1 3 true = .FEASIBLE ∧ adapterKruskalStatus 2 3 false = .OPTIMAL := by decide

end Solvor.Backend
