import Solvor.Backend.Model
/-! Backend: property theorems only (helper lemmas live in Lemmas.lean). -/
namespace Solvor.Backend

end Solvor.Backend
