import Solvor.Common.Proto
import Solvor.Sched.Model
/-! Sched: line-protocol handler. One request line in, one reply line out. -/
namespace Solvor.Sched

def handle (line : String) : String := "unimplemented " ++ line

end Solvor.Sched
