import Solvor.Common.Proto
import Solvor.Sched.Model
/-! Sched: line-protocol handler.

request `["js", jobs, rule, scheds, draws]`
  jobs   : list of jobs, each a list of `[machine, duration]`
  rule   : 0 fifo | 1 spt | 2 lpt | 3 mwkr | -1 (no deterministic mirror requested)
  scheds : list of `[entries, obj]`, entries = `[job, op, start, end]` in dict insertion order,
           obj a rational `[num, den]`
  draws  : `null`, or the machines drawn by `rng.randrange(n_machines)` in the local search
reply `[ruleSchedule | null, [[clauses, refine, makespan] …], [lsSchedule, lsObjective] | null]`
  ruleSchedule : the mirror `dispatchRule` (entries in placement order)
  clauses      : the seven conjuncts of the verified checker `chkSchedule`
  refine       : `isDispatchOf` (the schedule is the abstract machine's for its own pick order)
  lsSchedule   : the mirror `localSearch` started from the rule mirror (rule ≥ 0) or from the first
                 entry of `scheds` (the implementation's dispatch schedule, rule = -1)

request `["vrp", n, req, dist, demand, twStart, twEnd, service, cap, weights, tol, rel, xy, states, steps]`
  req/demand/twStart/twEnd/service : per customer index 0..n (0 = depot); twEnd / cap entries `null` = +∞
  dist     : (n+1)×(n+1) rationals (the implementation's cached distance matrix, exact)
  weights  : six entries (dw, vw, twp, capp, syncp, unp); a `null` entry = default of `vrp_objective`
  states   : list of `[routes, unassigned, arrival_times, objective]`
  steps    : list of `[kind, pre, post]` (indices into states; kind 0 = destroy, 1 = repair)
  tol/rel  : absolute tolerance (arrival times, objective) and relative slack (objective, d²)
  xy       : coordinates per index 0..n
reply `[[[inv, arrOK, objOK, exactObj] …], [refines …], euclidOK]`
-/
namespace Solvor.Sched
open Solvor.Proto

private def getF {α} (xs : List α) (d : α) : Nat → α := fun i => xs.getD i d

private def parseJobs (v : Val) : Option Jobs := do
  let js ← v.toArr?
  js.mapM fun j => do
    let ops ← j.toNatss?
    ops.mapM fun o => match o with
      | [m, d] => some (m, d)
      | _ => none

private def parseEntries (v : Val) : Option (List Entry) := do
  let es ← v.toIntss?
  es.mapM fun e => match e with
    | [j, k, s, f] => if j < 0 ∨ k < 0 then none else some ⟨j.toNat, k.toNat, s, f⟩
    | _ => none

private def ruleOf : Int → Option Rule
  | 0 => some .fifo
  | 1 => some .spt
  | 2 => some .lpt
  | 3 => some .mwkr
  | _ => none

private def entriesVal (S : List Entry) : Val :=
  Val.arr (S.map fun e => Val.ofInts [e.job, e.op, e.start, e.fin])

private def handleJs (jobs rule scheds draws : Val) : String :=
  match parseJobs jobs, rule.toInt?, scheds.toArr?, Val.toOpt? Val.toNats? draws with
  | some jobs, some rule, some scheds, some draws =>
    let rs := (ruleOf rule).map fun r => dispatchRule r jobs
    let outs := scheds.map fun sv =>
      match sv with
      | Val.arr [ev, ov] =>
        match parseEntries ev, ov.toRat? with
        | some S, some q =>
          let cl := [chkOnce S, chkKnown jobs S, chkPresent jobs S, chkDur jobs S, chkOrder S,
            chkMach jobs S, q.den == 1 && chkObj S q.num]
          -- `cl.all id` is `chkSchedule jobs S q.num` (for an integral objective)
          Val.arr [Val.arr (cl.map Val.bool), Val.bool (isDispatchOf jobs S), Val.int (makespan S)]
        | _, _ => Val.str "bad schedule"
      | _ => Val.str "bad schedule"
    let init : Option (List Entry) := match rs with
      | some r => some r
      | none => match scheds with
        | Val.arr [ev, _] :: _ => parseEntries ev
        | _ => none
    let ls : Option Val := match draws, init with
      | some ds, some i0 =>
        let r := localSearch jobs i0 ds
        some (Val.arr [entriesVal r.sched, Val.int r.obj])
      | _, _ => none
    (Val.arr [Val.ofOpt entriesVal rs, Val.arr outs, Val.ofOpt id ls]).render
  | _, _, _, _ => err "bad js arguments"

private def optRats (v : Val) : Option (List (Option Rat)) := do
  (← v.toArr?).mapM (Val.toOpt? Val.toRat?)

private def parseState (v : Val) : Option (VState × List (List Rat) × Rat) :=
  match v with
  | Val.arr [r, u, a, o] => do
    let r ← r.toNatss?
    let u ← u.toNats?
    let a ← a.toRatss?
    let o ← o.toRat?
    some (⟨r, u⟩, a, o)
  | _ => none

private def pick (d : Rat) : Option Rat → Rat
  | some x => x
  | none => d

private def handleVrp (args : List Val) : String :=
  match args with
  | [n, req, dist, demand, tws, twe, svc, cap, weights, tol, rel, xy, states, steps] =>
    match n.toNat?, req.toNats?, dist.toRatss?, demand.toRats?, tws.toRats?, optRats twe, svc.toRats?,
          optRats cap, optRats weights, tol.toRat?, rel.toRat?, xy.toRatss?, states.toArr?, steps.toNatss? with
    | some n, some req, some dist, some demand, some tws, some twe, some svc, some cap, some ws,
      some tol, some rel, some xy, some states, some steps =>
      let P : Prob :=
        { n := n, req := getF req 1, dist := fun i j => (dist.getD i []).getD j 0,
          demand := getF demand 0, twStart := getF tws 0, twEnd := getF twe none,
          service := getF svc 0, cap := getF cap none }
      let D := Weights.default
      let W : Weights :=
        ⟨pick D.dw (ws.getD 0 none), pick D.vw (ws.getD 1 none), pick D.twp (ws.getD 2 none),
         pick D.capp (ws.getD 3 none), pick D.syncp (ws.getD 4 none), pick D.unp (ws.getD 5 none)⟩
      match states.mapM parseState with
      | none => err "bad vrp state"
      | some sts =>
        let arr := sts.toArray
        let sv := sts.map fun (s, a, o) =>
          let arrOK := a.length == s.routes.length &&
            (s.routes.zip a).all fun ra => chkArrivals tol P ra.1 ra.2
          -- the conjunction of these six is `chkInv P s`
          let inv := [chkRange P s, chkNodupU s, chkNotLost P s, chkNotBoth P s, chkNodupR s, chkSingle P s]
          Val.arr [Val.arr (inv.map Val.bool), Val.bool arrOK, Val.bool (chkObjective tol rel W P s o),
                   Val.ofRat (objective W P s)]
        let tv := steps.map fun st =>
          match st with
          | [k, i, j] =>
            match arr[i]?, arr[j]? with
            | some (pre, _, _), some (post, _, _) =>
              Val.bool (if k == 0 then isRemove P pre post else isInsertRun P pre post)
            | _, _ => Val.str "bad step index"
          | _ => Val.str "bad step"
        let xyf : Nat → Rat × Rat := fun i => ((xy.getD i []).getD 0 0, (xy.getD i []).getD 1 0)
        (Val.arr [Val.arr sv, Val.arr tv, Val.bool (chkEuclid rel xyf P)]).render
    | _, _, _, _, _, _, _, _, _, _, _, _, _, _ => err "bad vrp arguments"
  | _ => err "bad vrp arity"

def handle (line : String) : String :=
  match request line with
  | some ("js", [jobs, rule, scheds, draws]) => handleJs jobs rule scheds draws
  | some ("vrp", args) => handleVrp args
  | _ => err "bad request"

end Solvor.Sched
