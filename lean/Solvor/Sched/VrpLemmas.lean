import Solvor.Sched.Model
/-! Sched: helper lemmas for the VRP bookkeeping skeleton (part 2 of C18). -/
namespace Solvor.Sched

/-! ### `insAt`, `posOn`, `insertAll`, `removeAll` -/

theorem mem_insAt {r : List Nat} {p c x : Nat} : x ∈ insAt r p c ↔ x = c ∨ x ∈ r := by
  unfold insAt
  constructor
  · intro hx
    simp only [List.mem_append, List.mem_cons] at hx
    rcases hx with hx | rfl | hx
    · right; exact List.mem_of_mem_take hx
    · left; rfl
    · right; exact List.mem_of_mem_drop hx
  · rintro (rfl | hx)
    · simp
    · rw [← List.take_append_drop p r] at hx
      simp only [List.mem_append, List.mem_cons] at hx ⊢
      rcases hx with hx | hx
      · left; exact hx
      · right; right; exact hx

theorem nodup_insAt {r : List Nat} {p c : Nat} (hc : c ∉ r) (hr : r.Nodup) : (insAt r p c).Nodup := by
  unfold insAt
  have hp : (r.take p ++ c :: r.drop p).Perm (c :: (r.take p ++ r.drop p)) := List.perm_middle
  rw [hp.nodup_iff, List.take_append_drop]
  exact List.nodup_cons.2 ⟨hc, hr⟩

theorem posOn_some {vps : List (Nat × Nat)} {v p : Nat} (h : posOn vps v = some p) : (v, p) ∈ vps := by
  unfold posOn at h
  simp only [Option.map_eq_some_iff] at h
  obtain ⟨⟨v', p'⟩, hf, rfl⟩ := h
  have h1 := List.find?_some hf
  have hm := List.mem_of_find?_eq_some hf
  simp only [beq_iff_eq] at h1
  subst h1
  exact hm

theorem posOn_of_mem {vps : List (Nat × Nat)} {v p : Nat} (h : (v, p) ∈ vps) : ∃ q, posOn vps v = some q := by
  unfold posOn
  cases hf : vps.find? (fun vp => vp.1 == v) with
  | none =>
    have := List.find?_eq_none.1 hf (v, p) h
    simp at this
  | some a => exact ⟨a.2, rfl⟩

theorem getElem?_insertAll (c : Nat) (vps : List (Nat × Nat)) (routes : List (List Nat)) (i : Nat) :
    (insertAll c vps routes)[i]? = (routes[i]?).map (insOne c vps i) := by
  simp [insertAll, List.getElem?_mapIdx]

theorem getElem?_removeAll (S : List Nat) (routes : List (List Nat)) (i : Nat) :
    (removeAll S routes)[i]? = (routes[i]?).map fun r => r.filter fun x => !S.contains x := by
  simp [removeAll]

theorem onRoute_iff_getElem? (s : VState) (c : Nat) :
    onRoute s c ↔ ∃ (i : Nat) (r : List Nat), s.routes[i]? = some r ∧ c ∈ r := by
  unfold onRoute
  constructor
  · rintro ⟨r, hr, hc⟩
    obtain ⟨i, hi⟩ := List.mem_iff_getElem?.1 hr
    exact ⟨i, r, hi, hc⟩
  · rintro ⟨i, r, hi, hc⟩
    exact ⟨r, List.mem_iff_getElem?.2 ⟨i, hi⟩, hc⟩

/-! ### the invariant is preserved -/

theorem Inv.of_equiv {P : Prob} {s s' : VState} (h : Inv P s) (e : s.Equiv s') : Inv P s' := by
  obtain ⟨hr, hu⟩ := e
  have hon : ∀ c, onRoute s' c ↔ onRoute s c := by intro c; unfold onRoute; rw [hr]
  refine ⟨?_, ?_, ?_, ?_, ?_, ?_⟩
  · rw [← hr]; exact h.rangeR
  · intro c hc; exact h.rangeU c (hu.mem_iff.2 hc)
  · exact hu.nodup_iff.1 h.nodupU
  · intro c h1 h2; rw [hon, ← hu.mem_iff]; exact h.part c h1 h2
  · rw [← hr]; exact h.nodupR
  · rw [← hr]; exact h.single

theorem inv_remove {P : Prob} {s s' : VState} {S : List Nat} (h : Inv P s)
    (hs : StepRel P (.remove S) s s') : Inv P s' := by
  obtain ⟨hnd, hrange, hr, hu⟩ := hs
  have memU : ∀ c, c ∈ s'.unassigned ↔ c ∈ s.unassigned ∨ c ∈ S := by
    intro c
    rw [hu.mem_iff]
    simp only [List.mem_append, List.mem_filter, Bool.not_eq_eq_eq_not, Bool.not_true,
      List.contains_eq_mem, decide_eq_false_iff_not]
    by_cases hc : c ∈ s.unassigned <;> simp [hc]
  have onR : ∀ c, onRoute s' c ↔ onRoute s c ∧ c ∉ S := by
    intro c
    unfold onRoute
    rw [hr]
    simp only [removeAll, List.mem_map]
    constructor
    · rintro ⟨r', ⟨r, hrm, rfl⟩, hc⟩
      simp only [List.mem_filter, Bool.not_eq_eq_eq_not, Bool.not_true, List.contains_eq_mem,
        decide_eq_false_iff_not] at hc
      exact ⟨⟨r, hrm, hc.1⟩, hc.2⟩
    · rintro ⟨⟨r, hrm, hc⟩, hS⟩
      refine ⟨_, ⟨r, hrm, rfl⟩, ?_⟩
      simp only [List.mem_filter, Bool.not_eq_eq_eq_not, Bool.not_true, List.contains_eq_mem,
        decide_eq_false_iff_not]
      exact ⟨hc, hS⟩
  refine ⟨?_, ?_, ?_, ?_, ?_, ?_⟩
  · intro r' hr' c hc
    rw [hr] at hr'
    simp only [removeAll, List.mem_map] at hr'
    obtain ⟨r, hrm, rfl⟩ := hr'
    exact h.rangeR r hrm c (List.mem_filter.1 hc).1
  · intro c hc
    rcases (memU c).1 hc with hc | hc
    · exact h.rangeU c hc
    · exact hrange c hc
  · rw [hu.nodup_iff, List.nodup_append]
    refine ⟨h.nodupU, hnd.sublist List.filter_sublist, ?_⟩
    intro a ha b hb hab
    subst hab
    simp only [List.mem_filter, Bool.not_eq_eq_eq_not, Bool.not_true, List.contains_eq_mem,
      decide_eq_false_iff_not] at hb
    exact hb.2 ha
  · intro c h1 h2
    rw [memU, onR]
    have := h.part c h1 h2
    by_cases hS : c ∈ S
    · simp [hS]
    · simp [hS, this]
  · intro r' hr'
    rw [hr] at hr'
    simp only [removeAll, List.mem_map] at hr'
    obtain ⟨r, hrm, rfl⟩ := hr'
    exact (h.nodupR r hrm).sublist List.filter_sublist
  · intro c h1 h2 h3 i j r r' hi hj hc hc'
    rw [hr, getElem?_removeAll] at hi hj
    simp only [Option.map_eq_some_iff] at hi hj
    obtain ⟨r0, hi, rfl⟩ := hi
    obtain ⟨r1, hj, rfl⟩ := hj
    exact h.single c h1 h2 h3 i j r0 r1 hi hj (List.mem_filter.1 hc).1 (List.mem_filter.1 hc').1

theorem inv_insert {P : Prob} {s s' : VState} {c : Nat} {vps : List (Nat × Nat)} (h : Inv P s)
    (hs : StepRel P (.insert c vps) s s') : Inv P s' := by
  obtain ⟨hcr, hcu, hne, _, hvalid, hone, hr, hu⟩ := hs
  have hnot : ¬ onRoute s c := (h.part c hcr.1 hcr.2).1 hcu
  have hnot' : ∀ r ∈ s.routes, c ∉ r := fun r hr hc => hnot ⟨r, hr, hc⟩
  have memU : ∀ x, x ∈ s'.unassigned ↔ x ≠ c ∧ x ∈ s.unassigned := by
    intro x; rw [hu.mem_iff]; exact h.nodupU.mem_erase_iff
  -- shape of the new routes
  have shape : ∀ (i : Nat) (r' : List Nat), s'.routes[i]? = some r' →
      ∃ r, s.routes[i]? = some r ∧ ((∃ p, posOn vps i = some p ∧ r' = insAt r p c) ∨ (posOn vps i = none ∧ r' = r)) := by
    intro i r' hi
    rw [hr, getElem?_insertAll] at hi
    simp only [Option.map_eq_some_iff] at hi
    obtain ⟨r, hri, rfl⟩ := hi
    refine ⟨r, hri, ?_⟩
    unfold insOne
    cases hp : posOn vps i with
    | none => right; exact ⟨rfl, rfl⟩
    | some p => left; exact ⟨p, rfl, rfl⟩
  have memR : ∀ (i : Nat) (r' : List Nat) (x : Nat), s'.routes[i]? = some r' → x ∈ r' → x ≠ c →
      ∃ r, s.routes[i]? = some r ∧ x ∈ r := by
    intro i r' x hi hx hxc
    obtain ⟨r, hri, h' | h'⟩ := shape i r' hi
    · obtain ⟨p, _, rfl⟩ := h'
      rcases mem_insAt.1 hx with hx | hx
      · exact absurd hx hxc
      · exact ⟨r, hri, hx⟩
    · obtain ⟨_, rfl⟩ := h'
      exact ⟨r', hri, hx⟩
  have onR : ∀ x, x ≠ c → (onRoute s' x ↔ onRoute s x) := by
    intro x hxc
    rw [onRoute_iff_getElem?, onRoute_iff_getElem?]
    constructor
    · rintro ⟨i, r', hi, hx⟩
      obtain ⟨r, hri, hx'⟩ := memR i r' x hi hx hxc
      exact ⟨i, r, hri, hx'⟩
    · rintro ⟨i, r, hi, hx⟩
      refine ⟨i, insOne c vps i r, ?_, ?_⟩
      · rw [hr, getElem?_insertAll, hi]; rfl
      · unfold insOne
        cases posOn vps i with
        | none => exact hx
        | some p => exact mem_insAt.2 (Or.inr hx)
  have onC : onRoute s' c := by
    obtain ⟨⟨v, p⟩, hvp⟩ := List.exists_mem_of_ne_nil vps hne
    obtain ⟨hv, _⟩ := hvalid (v, p) hvp
    obtain ⟨q, hq⟩ := posOn_of_mem hvp
    rw [onRoute_iff_getElem?]
    refine ⟨v, insOne c vps v s.routes[v], ?_, ?_⟩
    · rw [hr, getElem?_insertAll, List.getElem?_eq_getElem hv]; rfl
    · simp only [insOne, hq]; exact mem_insAt.2 (Or.inl rfl)
  refine ⟨?_, ?_, ?_, ?_, ?_, ?_⟩
  · intro r' hr' x hx
    obtain ⟨i, hi⟩ := List.mem_iff_getElem?.1 hr'
    by_cases hxc : x = c
    · subst hxc; exact hcr
    · obtain ⟨r, hri, hx'⟩ := memR i r' x hi hx hxc
      exact h.rangeR r (List.mem_iff_getElem?.2 ⟨i, hri⟩) x hx'
  · intro x hx; exact h.rangeU x ((memU x).1 hx).2
  · rw [hu.nodup_iff]; exact h.nodupU.erase c
  · intro x h1 h2
    by_cases hxc : x = c
    · subst hxc
      simp [memU, onC]
    · rw [memU, onR x hxc]
      simp [hxc, h.part x h1 h2]
  · intro r' hr'
    obtain ⟨i, hi⟩ := List.mem_iff_getElem?.1 hr'
    obtain ⟨r, hri, h' | h'⟩ := shape i r' hi
    · obtain ⟨p, _, rfl⟩ := h'
      have hrm := List.mem_iff_getElem?.2 ⟨i, hri⟩
      exact nodup_insAt (hnot' r hrm) (h.nodupR r hrm)
    · obtain ⟨_, rfl⟩ := h'
      exact h.nodupR r' (List.mem_iff_getElem?.2 ⟨i, hri⟩)
  · intro x h1 h2 h3 i j r r' hi hj hx hx'
    by_cases hxc : x = c
    · subst hxc
      -- a single-vehicle customer was inserted on exactly one route
      have hlen := hone h3
      have key : ∀ (k : Nat) (rk : List Nat), s'.routes[k]? = some rk → x ∈ rk → ∃ p, (k, p) ∈ vps := by
        intro k rk hk hxk
        obtain ⟨r0, hr0, h' | h'⟩ := shape k rk hk
        · obtain ⟨p, hp, _⟩ := h'; exact ⟨p, posOn_some hp⟩
        · obtain ⟨_, rfl⟩ := h'
          exact absurd hxk (hnot' rk (List.mem_iff_getElem?.2 ⟨k, hr0⟩))
      obtain ⟨p, hp⟩ := key i r hi hx
      obtain ⟨q, hq⟩ := key j r' hj hx'
      match vps, hlen, hp, hq with
      | [vp], _, hp, hq =>
        simp only [List.mem_singleton] at hp hq
        rw [← hp] at hq
        exact (Prod.mk.inj hq).1.symm
    · obtain ⟨r0, hr0, hx0⟩ := memR i r x hi hx hxc
      obtain ⟨r1, hr1, hx1⟩ := memR j r' x hj hx' hxc
      exact h.single x h1 h2 h3 i j r0 r1 hr0 hr1 hx0 hx1

theorem inv_step {P : Prob} {st : Step} {s s' : VState} (h : Inv P s) (hs : StepRel P st s s') :
    Inv P s' := by
  cases st with
  | remove S => exact inv_remove h hs
  | insert c vps => exact inv_insert h hs
  | recompute => simp only [StepRel] at hs; rw [hs]; exact h

/-! ### plans and the refinement checkers -/

theorem stepRel_equiv {P : Prob} {st : Step} {s t t' : VState} (h : StepRel P st s t) (e : t.Equiv t')
    (hst : st ≠ .recompute) : StepRel P st s t' := by
  obtain ⟨er, eu⟩ := e
  cases st with
  | remove S =>
    obtain ⟨h1, h2, h3, h4⟩ := h
    exact ⟨h1, h2, er ▸ h3, eu.symm.trans h4⟩
  | insert c vps =>
    obtain ⟨h1, h2, h3, h4, h5, h6, h7, h8⟩ := h
    exact ⟨h1, h2, h3, h4, h5, h6, er ▸ h7, eu.symm.trans h8⟩
  | recompute => exact absurd rfl hst

theorem equiv_refl (s : VState) : s.Equiv s := ⟨rfl, List.Perm.refl _⟩

theorem runPlan_sound (P : Prob) (plan : List Step) (s t : VState) (h : runPlan P plan s = some t) :
    Run P plan s t := by
  induction plan generalizing s with
  | nil => simp only [runPlan, Option.some.injEq] at h; subst h; exact Run.nil (equiv_refl _)
  | cons st sts ih =>
    simp only [runPlan] at h
    split at h
    · rename_i hrel; exact Run.cons hrel (ih _ h)
    · cases h

theorem run_equiv {P : Prob} {plan : List Step} {s t t' : VState} (h : Run P plan s t) (e : t.Equiv t')
    (hins : ∀ st ∈ plan, st.isInsert = true) : Run P plan s t' := by
  induction h with
  | nil e0 => exact Run.nil ⟨e0.1.trans e.1, e0.2.trans e.2⟩
  | cons hrel _ ih =>
    exact Run.cons hrel (ih e fun st hst => hins st (List.mem_cons_of_mem _ hst))

theorem insertPlan_go_isInsert (post : VState) (ins : List Nat) :
    ∀ st ∈ insertPlan.go post ins, st.isInsert = true := by
  induction ins with
  | nil => intro st hst; simp [insertPlan.go] at hst
  | cons c later ih =>
    intro st hst
    simp only [insertPlan.go, List.mem_cons] at hst
    rcases hst with rfl | hst
    · rfl
    · exact ih st hst

/-! ### arrival times -/

theorem length_arrFrom (P : Prob) (t : Rat) (c : Nat) (r : List Nat) : (arrFrom P t c r).length = r.length + 1 := by
  induction r generalizing t c with
  | nil => simp [arrFrom]
  | cons d r ih => simp [arrFrom, ih]

theorem length_arrivals (P : Prob) (r : List Nat) : (arrivals P r).length = r.length := by
  cases r with
  | nil => rfl
  | cons c r => simp [arrivals, length_arrFrom]

/-- The recurrence pins the list down: `arrFrom` is its only solution. -/
theorem arrFrom_unique (P : Prob) (t : Rat) (c : Nat) (r : List Nat) (ts : List Rat) :
    (ts.length = r.length + 1 ∧ ts[0]? = some (max t (P.twStart c)) ∧
      ∀ i x y a, (c :: r)[i]? = some x → (c :: r)[i + 1]? = some y → ts[i]? = some a →
        ts[i + 1]? = some (max (a + P.service x + P.dist x y) (P.twStart y)))
    ↔ ts = arrFrom P t c r := by
  induction r generalizing t c ts with
  | nil =>
    simp only [List.length_nil, Nat.zero_add, arrFrom]
    constructor
    · rintro ⟨hl, h0, _⟩
      match ts, hl with
      | [a], _ => simp at h0; rw [h0]
    · rintro rfl
      refine ⟨rfl, rfl, ?_⟩
      intro i x y a _ h2
      simp at h2
  | cons d r ih =>
    simp only [arrFrom]
    constructor
    · rintro ⟨hl, h0, hn⟩
      match ts, hl with
      | a :: ts', hl =>
        simp only [List.getElem?_cons_zero, Option.some.injEq] at h0
        subst h0
        congr 1
        apply (ih _ d ts').1
        refine ⟨by simpa using hl, ?_, ?_⟩
        · have := hn 0 c d _ rfl rfl rfl
          simpa using this
        · intro i x y a h1 h2 h3
          have := hn (i + 1) x y a (by simpa using h1) (by simpa using h2) (by simpa using h3)
          simpa using this
    · rintro rfl
      have := (ih (max t (P.twStart c) + P.service c + P.dist c d) d _).2 rfl
      obtain ⟨hl, h0, hn⟩ := this
      refine ⟨by simp [hl], rfl, ?_⟩
      intro i x y a h1 h2 h3
      cases i with
      | zero =>
        simp only [List.getElem?_cons_zero, Option.some.injEq, Nat.zero_add, List.getElem?_cons_succ] at h1 h2 h3 ⊢
        subst h1 h2 h3
        exact h0
      | succ i =>
        simp only [List.getElem?_cons_succ] at h1 h2 h3 ⊢
        exact hn i x y a h1 h2 h3

/-! ### checker clauses -/

theorem mem_range1 {n c : Nat} : c ∈ List.range' 1 n ↔ 1 ≤ c ∧ c ≤ n := by
  rw [List.mem_range'_1]; omega

theorem chkNotLostBoth_iff (P : Prob) (s : VState) :
    (chkNotLost P s = true ∧ chkNotBoth P s = true) ↔
      ∀ c, 1 ≤ c → c ≤ P.n → (c ∈ s.unassigned ↔ ¬ onRoute s c) := by
  unfold chkNotLost chkNotBoth onRoute
  simp only [List.all_eq_true, mem_range1, Bool.or_eq_true, List.contains_iff_mem, List.any_eq_true,
    Bool.not_eq_eq_eq_not, Bool.not_true, Bool.and_eq_false_imp, and_imp]
  constructor
  · rintro ⟨h1, h2⟩ c hc1 hc2
    constructor
    · intro hu ⟨r, hr, hcr⟩
      have := h2 c hc1 hc2 hu
      rw [List.any_eq_false] at this
      exact this r hr (List.contains_iff_mem.2 hcr)
    · intro hn
      rcases h1 c hc1 hc2 with h | ⟨r, hr, hcr⟩
      · exact h
      · exact absurd ⟨r, hr, hcr⟩ hn
  · intro h
    refine ⟨fun c hc1 hc2 => ?_, fun c hc1 hc2 hu => ?_⟩
    · by_cases hu : c ∈ s.unassigned
      · left; exact hu
      · right
        have := (not_congr (h c hc1 hc2)).1 hu
        obtain ⟨r, hr, hcr⟩ := Classical.not_not.1 this
        exact ⟨r, hr, hcr⟩
    · rw [List.any_eq_false]
      intro r hr hcr
      exact (h c hc1 hc2).1 hu ⟨r, hr, List.contains_iff_mem.1 hcr⟩

theorem chkSingle_iff (P : Prob) (s : VState) :
    chkSingle P s = true ↔
      ∀ c, 1 ≤ c → c ≤ P.n → P.req c ≤ 1 → ∀ (i j : Nat) (r r' : List Nat), s.routes[i]? = some r →
        s.routes[j]? = some r' → c ∈ r → c ∈ r' → i = j := by
  unfold chkSingle
  simp only [List.all_eq_true, mem_range1, Bool.or_eq_true, Bool.not_eq_eq_eq_not, Bool.not_true,
    decide_eq_false_iff_not, List.mem_range, Bool.and_eq_false_imp, List.contains_iff_mem, beq_iff_eq,
    and_imp]
  constructor
  · intro h c hc1 hc2 hreq i j r r' hi hj hcr hcr'
    obtain ⟨hi', rfl⟩ := List.getElem?_eq_some_iff.1 hi
    obtain ⟨hj', rfl⟩ := List.getElem?_eq_some_iff.1 hj
    rcases h c hc1 hc2 with h | h
    · exact absurd hreq h
    · rcases h i hi' j hj' with h | h
      · have h := h (by simpa [List.getD_eq_getElem?_getD, hi] using hcr)
        rw [← Bool.not_eq_true, List.contains_iff_mem] at h
        exact absurd (by simpa [List.getD_eq_getElem?_getD, hj] using hcr') h
      · exact h
  · intro h c hc1 hc2
    by_cases hreq : P.req c ≤ 1
    · right
      intro i hi j hj
      by_cases hm : c ∈ s.routes.getD i [] ∧ c ∈ s.routes.getD j []
      · right
        refine h c hc1 hc2 hreq i j _ _ (List.getElem?_eq_getElem hi) (List.getElem?_eq_getElem hj) ?_ ?_
        · simpa [List.getD_eq_getElem?_getD, List.getElem?_eq_getElem hi] using hm.1
        · simpa [List.getD_eq_getElem?_getD, List.getElem?_eq_getElem hj] using hm.2
      · left
        intro h1
        rw [← Bool.not_eq_true, List.contains_iff_mem]
        exact fun h2 => hm ⟨h1, h2⟩
    · left; exact hreq

/-! ### the objective -/

theorem legs_eq (P : Prob) (prev : Nat) (r : List Nat) :
    legs P prev r = (((prev :: r).zip (r ++ [0])).map fun ab => P.dist ab.1 ab.2).sum := by
  induction r generalizing prev with
  | nil => simp [legs, Rat.add_zero]
  | cons c r ih => simp [legs, ih c]

theorem routeDist_eq (P : Prob) (r : List Nat) :
    routeDist P r = if r = [] then 0 else (((0 :: r).zip (r ++ [0])).map fun ab => P.dist ab.1 ab.2).sum := by
  cases r with
  | nil => simp [routeDist]
  | cons c r => simp [routeDist, legs_eq]

theorem unassigned_count {P : Prob} {s : VState} (h : Inv P s) :
    s.unassigned.length = ((List.range' 1 P.n).filter fun c => decide (¬ onRoute s c)).length := by
  apply List.Perm.length_eq
  apply (List.perm_ext_iff_of_nodup h.nodupU ((List.nodup_range' 1).sublist List.filter_sublist)).2
  intro c
  simp only [List.mem_filter, mem_range1, decide_eq_true_eq]
  constructor
  · intro hc
    have := h.rangeU c hc
    exact ⟨this, (h.part c this.1 this.2).1 hc⟩
  · rintro ⟨⟨h1, h2⟩, h3⟩
    exact (h.part c h1 h2).2 h3

end Solvor.Sched
