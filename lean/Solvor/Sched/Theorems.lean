import Solvor.Sched.Lemmas
/-!
Sched: the property theorems of C18 (helper lemmas are in `Lemmas.lean` / `VrpLemmas.lean`).

Part 1 — job shop.  `ValidSchedule jobs S` *is* the property's notion of a valid schedule: every
operation scheduled exactly once, end − start = duration, operations of a job in order without
overlap, no two operations overlapping on a machine; `makespan S` is the latest end.
-/
namespace Solvor.Sched

/-! ## Part 1: job shop -/

/-- C18 [C] `dispatch_valid`: for **every** complete choice sequence (whatever the dispatching
rule, the seed or the local search's rebuild priorities picked) the dispatch machine of
`_dispatch` / `_rebuild_schedule` produces a valid schedule, all times are non-negative, and
`makespan` is its latest end. -/
theorem dispatch_valid (jobs : Jobs) (cs : List Nat) (h : Choices jobs cs) :
    ValidSchedule jobs (dispatch jobs cs) ∧
    (∀ e ∈ dispatch jobs cs, 0 ≤ e.start) ∧
    (∀ e ∈ dispatch jobs cs, e.fin ≤ makespan (dispatch jobs cs)) ∧
    (dispatch jobs cs ≠ [] → ∃ e ∈ dispatch jobs cs, e.fin = makespan (dispatch jobs cs)) := by
  have hinv := dinv_run jobs cs DState.init (dinv_init jobs)
  have hnext : ∀ j, (runChoices jobs cs DState.init).next j = (jobs.ops j).length := by
    intro j; rw [next_run, choices_count h]; simp [DState.init]
  have hm := makespan_spec (dispatch jobs cs)
  exact ⟨valid_of_dinv jobs _ hinv hnext, hinv.nonneg, hm.1, hm.2.1⟩

/-- Non-vacuity: the docstring instance of `solvor/job_shop.py`, jobs picked 1,1,0,0,0,1 (SPT). -/
example : Choices [[(0, 3), (1, 2), (2, 2)], [(0, 2), (2, 1), (1, 4)]] [1, 1, 0, 0, 0, 1] ∧
    makespan (dispatch [[(0, 3), (1, 2), (2, 2)], [(0, 2), (2, 1), (1, 4)]] [1, 1, 0, 0, 0, 1]) = 11 := by
  decide

/-- T-spec: the Boolean checker the driver evaluates on every schedule the implementation returns
decides exactly "valid schedule and reported objective = latest end". -/
theorem chkSchedule_iff (jobs : Jobs) (S : List Entry) (obj : Int) :
    chkSchedule jobs S obj = true ↔ ValidSchedule jobs S ∧ obj = makespan S := by
  unfold chkSchedule chkOnce chkKnown chkPresent chkDur chkOrder chkMach chkObj
  simp only [Bool.and_eq_true, decide_eq_true_eq, List.all_eq_true, List.any_eq_true, beq_iff_eq,
    Bool.or_eq_true, Bool.not_eq_eq_eq_not, Bool.not_true, Bool.and_eq_false_imp, List.mem_range,
    bne_iff_ne, ne_eq, decide_eq_false_iff_not]
  constructor
  · rintro ⟨⟨⟨⟨⟨⟨h1, h2⟩, h3⟩, h4⟩, h5⟩, h6⟩, h7⟩
    refine ⟨⟨h1, ?_, h4, ?_, ?_⟩, h7⟩
    · intro j k
      constructor
      · rintro ⟨e, he, rfl, rfl⟩; exact h2 e he
      · intro hk
        obtain ⟨e, he, hj, hk'⟩ := h3 j (ops_length_pos hk) k hk
        exact ⟨e, he, hj, hk'⟩
    · intro a ha b hb hjob hop
      rcases h5 a ha b hb with h | h
      · exact absurd hop (h hjob)
      · exact h
    · intro a ha b hb hkey hmach
      rcases h6 a ha b hb with (h | h) | h
      · exact absurd hmach (by simpa using h hkey)
      · left; exact h
      · right; exact h
  · rintro ⟨V, h7⟩
    refine ⟨⟨⟨⟨⟨⟨V.once, ?_⟩, ?_⟩, V.dur⟩, ?_⟩, ?_⟩, h7⟩
    · intro e he; exact (V.all e.job e.op).1 ⟨e, he, rfl, rfl⟩
    · intro j _ k hk
      obtain ⟨e, he, h1, h2⟩ := (V.all j k).2 hk
      exact ⟨e, he, h1, h2⟩
    · intro a ha b hb
      by_cases h : a.job = b.job ∧ a.op < b.op
      · right; exact V.order a ha b hb h.1 h.2
      · left; intro hj; exact fun hop => h ⟨hj, hop⟩
    · intro a ha b hb
      by_cases h : ¬ a.key = b.key ∧ jobs.mach a.job a.op = jobs.mach b.job b.op
      · rcases V.mach a ha b hb h.1 h.2 with h' | h'
        · left; right; exact h'
        · right; exact h'
      · left; left; intro hk; simpa using fun hm => h ⟨hk, hm⟩

/-- Non-vacuity: a valid schedule is accepted, the same schedule with a wrong objective or with
two operations overlapping on machine 0 is rejected. -/
example :
    chkSchedule [[(0, 3), (1, 2)], [(0, 2)]] [⟨1, 0, 0, 2⟩, ⟨0, 0, 2, 5⟩, ⟨0, 1, 5, 7⟩] 7 = true ∧
    chkSchedule [[(0, 3), (1, 2)], [(0, 2)]] [⟨1, 0, 0, 2⟩, ⟨0, 0, 2, 5⟩, ⟨0, 1, 5, 7⟩] 8 = false ∧
    chkSchedule [[(0, 3), (1, 2)], [(0, 2)]] [⟨1, 0, 0, 2⟩, ⟨0, 0, 1, 4⟩, ⟨0, 1, 4, 6⟩] 6 = false := by
  decide

/-- Refinement checker soundness: a schedule accepted by `isDispatchOf` is the dispatch machine's
schedule for a complete choice sequence – hence (by `dispatch_valid`) valid. -/
theorem isDispatchOf_sound (jobs : Jobs) (S : List Entry) (h : isDispatchOf jobs S = true) :
    (∃ cs, Choices jobs cs ∧ dispatch jobs cs = S) ∧ ValidSchedule jobs S := by
  simp only [isDispatchOf, Bool.and_eq_true, decide_eq_true_eq] at h
  refine ⟨⟨_, h.1, h.2⟩, ?_⟩
  have := (dispatch_valid jobs _ h.1).1
  rwa [h.2] at this

example : isDispatchOf [[(0, 3), (1, 2)], [(0, 2)]] [⟨1, 0, 0, 2⟩, ⟨0, 0, 2, 5⟩, ⟨0, 1, 5, 7⟩] = true := by
  decide

end Solvor.Sched
