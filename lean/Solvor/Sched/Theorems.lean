import Solvor.Sched.Model
/-! Sched: property theorems only (helper lemmas live in Lemmas.lean). -/
namespace Solvor.Sched

end Solvor.Sched
