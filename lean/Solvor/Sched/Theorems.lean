import Solvor.Sched.Lemmas
import Solvor.Sched.VrpLemmas
/-!
Sched: the property theorems of C18 (helper lemmas are in `Lemmas.lean` / `VrpLemmas.lean`).

Part 1 — job shop.  `ValidSchedule jobs S` *is* the property's notion of a valid schedule: every
operation scheduled exactly once, end − start = duration, operations of a job in order without
overlap, no two operations overlapping on a machine; `makespan S` is the latest end.
-/
namespace Solvor.Sched

/-! ## Part 1: job shop -/

/-- C18 [C] `dispatch_valid`: for **every** complete choice sequence (whatever the dispatching
rule, the seed or the local search's rebuild priorities picked) the dispatch machine of
`_dispatch` / `_rebuild_schedule` produces a valid schedule, all times are non-negative, and
`makespan` is its latest end. -/
theorem dispatch_valid (jobs : Jobs) (cs : List Nat) (h : Choices jobs cs) :
    ValidSchedule jobs (dispatch jobs cs) ∧
    (∀ e ∈ dispatch jobs cs, 0 ≤ e.start) ∧
    (∀ e ∈ dispatch jobs cs, e.fin ≤ makespan (dispatch jobs cs)) ∧
    (dispatch jobs cs ≠ [] → ∃ e ∈ dispatch jobs cs, e.fin = makespan (dispatch jobs cs)) := by
  have hinv := dinv_run jobs cs DState.init (dinv_init jobs)
  have hnext : ∀ j, (runChoices jobs cs DState.init).next j = (jobs.ops j).length := by
    intro j; rw [next_run, choices_count h]; simp [DState.init]
  have hm := makespan_spec (dispatch jobs cs)
  exact ⟨valid_of_dinv jobs _ hinv hnext, hinv.nonneg, hm.1, hm.2.1⟩

/-- Non-vacuity: the docstring instance of `solvor/job_shop.py`, jobs picked 1,1,0,0,0,1 (SPT). -/
example : Choices [[(0, 3), (1, 2), (2, 2)], [(0, 2), (2, 1), (1, 4)]] [1, 1, 0, 0, 0, 1] ∧
    makespan (dispatch [[(0, 3), (1, 2), (2, 2)], [(0, 2), (2, 1), (1, 4)]] [1, 1, 0, 0, 0, 1]) = 11 := by
  decide

/-- C18 `dispatch_chooser_valid`: the loop `for _ in range(total_ops): … if not ready: break …
place(selected)` run with **any** chooser (a function of the current clocks/counters that returns a
job with operations left whenever there is one – every dispatching rule, every seed of `random`,
the priority sort of `_rebuild_schedule`) is the dispatch machine on a complete choice sequence;
its schedule is valid. -/
theorem dispatch_chooser_valid (jobs : Jobs) (ch : DState → Option Nat) (hch : Chooser jobs ch) :
    (∃ cs, Choices jobs cs ∧ (dispatchWith jobs ch (totalOps jobs) DState.init).sched = dispatch jobs cs) ∧
    ValidSchedule jobs (dispatchWith jobs ch (totalOps jobs) DState.init).sched := by
  obtain ⟨cs, hc, he⟩ := chooser_choices jobs ch hch
  exact ⟨⟨cs, hc, he⟩, he ▸ (dispatch_valid jobs cs hc).1⟩

/-- C18 `dispatch_rule_valid`: the mirrors of `fifo`, `spt`, `lpt`, `mwkr` are choosers, so
`_dispatch` under each of them returns a valid schedule for every instance. -/
theorem dispatch_rule_valid (r : Rule) (jobs : Jobs) : ValidSchedule jobs (dispatchRule r jobs) :=
  (dispatch_chooser_valid jobs _ (choose_chooser r jobs)).2

/-- Non-vacuity: the four rules on the docstring instance (and they differ). -/
example :
    let jobs : Jobs := [[(0, 3), (1, 2), (2, 2)], [(0, 2), (2, 1), (1, 4)]]
    makespan (dispatchRule .spt jobs) = 11 ∧ makespan (dispatchRule .fifo jobs) = 12 ∧
    makespan (dispatchRule .lpt jobs) = 12 ∧ makespan (dispatchRule .mwkr jobs) = 10 := by
  decide

/-- `_rebuild_schedule` (whatever old schedule, target machine and machine order it is given)
returns a valid schedule: its priority sort is a chooser. -/
theorem rebuild_valid (jobs : Jobs) (old : List Entry) (target : Nat) (order : List (Nat × Nat)) :
    ValidSchedule jobs (rebuild jobs old target order) :=
  (dispatch_chooser_valid jobs _ (rebuildChoose_chooser jobs old target order)).2

/-- C18 `local_search_valid`: the mirror of the local-search loop of `solve_job_shop`, started from
any valid schedule and run on **any** sequence of drawn machines (any seed, any length), returns a
valid schedule, reports exactly its latest end, and never reports more than it started with. -/
theorem local_search_valid (jobs : Jobs) (init : List Entry) (draws : List Nat) (h : ValidSchedule jobs init) :
    ValidSchedule jobs (localSearch jobs init draws).sched ∧
    (localSearch jobs init draws).obj = makespan (localSearch jobs init draws).sched ∧
    (localSearch jobs init draws).obj ≤ makespan init := by
  have step : ∀ (st : LState) (m : Nat), (ValidSchedule jobs st.sched ∧ st.obj = makespan st.sched) →
      (ValidSchedule jobs (lsStep jobs st m).sched ∧ (lsStep jobs st m).obj = makespan (lsStep jobs st m).sched)
      ∧ (lsStep jobs st m).obj ≤ st.obj := by
    intro st m hst
    unfold lsStep
    simp only
    split
    · exact ⟨hst, Int.le_refl _⟩
    · split
      · rename_i new mk hf
        obtain ⟨⟨i, hi⟩, h2, h3⟩ := firstImproving_some hf
        refine ⟨⟨?_, h2⟩, Int.le_of_lt h3⟩
        simp only; rw [hi]; exact rebuild_valid _ _ _ _
      · exact ⟨hst, Int.le_refl _⟩
  have run : ∀ (ds : List Nat) (n : Nat) (st : LState),
      (ValidSchedule jobs st.sched ∧ st.obj = makespan st.sched) →
      (ValidSchedule jobs (lsRun jobs n ds st).sched ∧ (lsRun jobs n ds st).obj = makespan (lsRun jobs n ds st).sched)
      ∧ (lsRun jobs n ds st).obj ≤ st.obj := by
    intro ds n
    induction ds with
    | nil => intro st hst; exact ⟨hst, Int.le_refl _⟩
    | cons m ms ih =>
      intro st hst
      have hs := step st m hst
      unfold lsRun
      simp only
      split
      · exact hs
      · have := ih _ hs.1
        exact ⟨this.1, Int.le_trans this.2 hs.2⟩
  have := run draws Solvor.Gen.Sched.js_max_no_improve.toNat ⟨init, makespan init, 0⟩ ⟨h, rfl⟩
  unfold localSearch
  exact ⟨this.1.1, this.1.2, this.2⟩

/-- C18 `solve_job_shop_valid`: the mirror of the whole of `solve_job_shop` (dispatch under a
deterministic rule, then local search over any drawn machines) returns a valid schedule whose
reported objective is its latest end. -/
theorem solve_job_shop_valid (r : Rule) (jobs : Jobs) (draws : List Nat) :
    ValidSchedule jobs (localSearch jobs (dispatchRule r jobs) draws).sched ∧
    (localSearch jobs (dispatchRule r jobs) draws).obj =
      makespan (localSearch jobs (dispatchRule r jobs) draws).sched ∧
    ∀ e ∈ (localSearch jobs (dispatchRule r jobs) draws).sched,
      e.fin ≤ (localSearch jobs (dispatchRule r jobs) draws).obj := by
  have h := local_search_valid jobs _ draws (dispatch_rule_valid r jobs)
  refine ⟨h.1, h.2.1, ?_⟩
  rw [h.2.1]
  exact (makespan_spec _).1

/-- Non-vacuity: on the docstring instance the local search (machines 0, 1 drawn) improves the
SPT schedule from 11 to 10. -/
example :
    let jobs : Jobs := [[(0, 3), (1, 2), (2, 2)], [(0, 2), (2, 1), (1, 4)]]
    (localSearch jobs (dispatchRule .spt jobs) [0, 1, 2, 0]).obj = 10 := by
  decide +kernel

/-- T-spec: the Boolean checker the driver evaluates on every schedule the implementation returns
decides exactly "valid schedule and reported objective = latest end". -/
theorem chkSchedule_iff (jobs : Jobs) (S : List Entry) (obj : Int) :
    chkSchedule jobs S obj = true ↔ ValidSchedule jobs S ∧ obj = makespan S := by
  unfold chkSchedule chkOnce chkKnown chkPresent chkDur chkOrder chkMach chkObj
  simp only [Bool.and_eq_true, decide_eq_true_eq, List.all_eq_true, List.any_eq_true, beq_iff_eq,
    Bool.or_eq_true, Bool.not_eq_eq_eq_not, Bool.not_true, Bool.and_eq_false_imp, List.mem_range,
    bne_iff_ne, ne_eq, decide_eq_false_iff_not]
  constructor
  · rintro ⟨⟨⟨⟨⟨⟨h1, h2⟩, h3⟩, h4⟩, h5⟩, h6⟩, h7⟩
    refine ⟨⟨h1, ?_, h4, ?_, ?_⟩, h7⟩
    · intro j k
      constructor
      · rintro ⟨e, he, rfl, rfl⟩; exact h2 e he
      · intro hk
        obtain ⟨e, he, hj, hk'⟩ := h3 j (ops_length_pos hk) k hk
        exact ⟨e, he, hj, hk'⟩
    · intro a ha b hb hjob hop
      rcases h5 a ha b hb with h | h
      · exact absurd hop (h hjob)
      · exact h
    · intro a ha b hb hkey hmach
      rcases h6 a ha b hb with (h | h) | h
      · exact absurd hmach (by simpa using h hkey)
      · left; exact h
      · right; exact h
  · rintro ⟨V, h7⟩
    refine ⟨⟨⟨⟨⟨⟨V.once, ?_⟩, ?_⟩, V.dur⟩, ?_⟩, ?_⟩, h7⟩
    · intro e he; exact (V.all e.job e.op).1 ⟨e, he, rfl, rfl⟩
    · intro j _ k hk
      obtain ⟨e, he, h1, h2⟩ := (V.all j k).2 hk
      exact ⟨e, he, h1, h2⟩
    · intro a ha b hb
      by_cases h : a.job = b.job ∧ a.op < b.op
      · right; exact V.order a ha b hb h.1 h.2
      · left; intro hj; exact fun hop => h ⟨hj, hop⟩
    · intro a ha b hb
      by_cases h : ¬ a.key = b.key ∧ jobs.mach a.job a.op = jobs.mach b.job b.op
      · rcases V.mach a ha b hb h.1 h.2 with h' | h'
        · left; right; exact h'
        · right; exact h'
      · left; left; intro hk; simpa using fun hm => h ⟨hk, hm⟩

/-- Non-vacuity: a valid schedule is accepted, the same schedule with a wrong objective or with
two operations overlapping on machine 0 is rejected. -/
example :
    chkSchedule [[(0, 3), (1, 2)], [(0, 2)]] [⟨1, 0, 0, 2⟩, ⟨0, 0, 2, 5⟩, ⟨0, 1, 5, 7⟩] 7 = true ∧
    chkSchedule [[(0, 3), (1, 2)], [(0, 2)]] [⟨1, 0, 0, 2⟩, ⟨0, 0, 2, 5⟩, ⟨0, 1, 5, 7⟩] 8 = false ∧
    chkSchedule [[(0, 3), (1, 2)], [(0, 2)]] [⟨1, 0, 0, 2⟩, ⟨0, 0, 1, 4⟩, ⟨0, 1, 4, 6⟩] 6 = false := by
  decide

/-- Refinement checker soundness: a schedule accepted by `isDispatchOf` is the dispatch machine's
schedule for a complete choice sequence – hence (by `dispatch_valid`) valid. -/
theorem isDispatchOf_sound (jobs : Jobs) (S : List Entry) (h : isDispatchOf jobs S = true) :
    (∃ cs, Choices jobs cs ∧ dispatch jobs cs = S) ∧ ValidSchedule jobs S := by
  simp only [isDispatchOf, Bool.and_eq_true, decide_eq_true_eq] at h
  refine ⟨⟨_, h.1, h.2⟩, ?_⟩
  have := (dispatch_valid jobs _ h.1).1
  rwa [h.2] at this

example : isDispatchOf [[(0, 3), (1, 2)], [(0, 2)]] [⟨1, 0, 0, 2⟩, ⟨0, 0, 2, 5⟩, ⟨0, 1, 5, 7⟩] = true := by
  decide

/-! ## Part 2: VRP bookkeeping

`Inv P s` *is* the property's bookkeeping clause: every customer is in `unassigned` xor on at
least one route (never lost, never in both), never twice on the same route, a single-vehicle
customer on exactly one route. -/

/-- C18 [C] `vrp_inv_step`: every abstract transition (`remove S`, `insert c vps`, `recompute`)
preserves the bookkeeping invariant, whatever set / customer / positions it carries. -/
theorem vrp_inv_step (P : Prob) (st : Step) (s s' : VState) (h : Inv P s) (hs : StepRel P st s s') :
    Inv P s' := inv_step h hs

/-- C18 [C] `vrp_inv_run`: hence every sequence of transitions preserves it. -/
theorem vrp_inv_run (P : Prob) (plan : List Step) (s s' : VState) (h : Inv P s) (hr : Run P plan s s') :
    Inv P s' := by
  induction hr with
  | nil e => exact h.of_equiv e
  | cons hrel _ ih => exact ih (inv_step h hrel)

/-- The state built by `VRPState.from_problem` (all customers unassigned, `k` empty routes)
satisfies the invariant, so every state reachable from it by transitions does. -/
theorem vrp_inv_init (P : Prob) (k : Nat) : Inv P ⟨List.replicate k [], List.range' 1 P.n⟩ := by
  have hno : ∀ c, ¬ onRoute ⟨List.replicate k [], List.range' 1 P.n⟩ c := by
    rintro c ⟨r, hr, hc⟩
    rw [List.eq_of_mem_replicate hr] at hc
    cases hc
  refine ⟨?_, ?_, List.nodup_range' 1, ?_, ?_, ?_⟩
  · intro r hr c hc; rw [List.eq_of_mem_replicate hr] at hc; cases hc
  · intro c hc; exact mem_range1.1 hc
  · intro c h1 h2; simp only [hno c, not_false_eq_true, iff_true]; exact mem_range1.2 ⟨h1, h2⟩
  · intro r hr; rw [List.eq_of_mem_replicate hr]; exact List.nodup_nil
  · intro c _ _ _ i j r r' hi _ hc _
    have := List.mem_of_getElem? hi
    rw [List.eq_of_mem_replicate this] at hc
    cases hc

/-- Non-vacuity: customer 1 needs two vehicles.  From the empty plan: insert 1 on routes 0 and 1,
insert 2 and 3, then remove {1, 3}; each step is an abstract transition, so `Inv` holds at the end. -/
example :
    let P : Prob := ⟨3, fun c => if c = 1 then 2 else 1, fun _ _ => 0, fun _ => 0, fun _ => 0,
      fun _ => none, fun _ => 0, fun _ => none⟩
    Run P [.insert 1 [(0, 0), (1, 0)], .insert 2 [(0, 1)], .insert 3 [(1, 0)], .remove [1, 3]]
      ⟨[[], []], [1, 2, 3]⟩ ⟨[[2], []], [1, 3]⟩ := by
  intro P
  refine Run.cons (s' := ⟨[[1], [1]], [2, 3]⟩) (by decide) ?_
  refine Run.cons (s' := ⟨[[1, 2], [1]], [3]⟩) (by decide) ?_
  refine Run.cons (s' := ⟨[[1, 2], [3, 1]], []⟩) (by decide) ?_
  exact Run.cons (s' := ⟨[[2], []], [1, 3]⟩) (by decide) (Run.nil (by decide))

/-- T-spec: the Boolean checker evaluated on every recorded state decides exactly `Inv`. -/
theorem chkInv_iff (P : Prob) (s : VState) : chkInv P s = true ↔ Inv P s := by
  have hr : chkRange P s = true ↔
      (∀ r ∈ s.routes, ∀ c ∈ r, 1 ≤ c ∧ c ≤ P.n) ∧ ∀ c ∈ s.unassigned, 1 ≤ c ∧ c ≤ P.n := by
    simp [chkRange]
  have hu : chkNodupU s = true ↔ s.unassigned.Nodup := by simp [chkNodupU]
  have hn : chkNodupR s = true ↔ ∀ r ∈ s.routes, r.Nodup := by simp [chkNodupR]
  have hp := chkNotLostBoth_iff P s
  have hs := chkSingle_iff P s
  unfold chkInv
  simp only [Bool.and_eq_true]
  constructor
  · rintro ⟨⟨⟨⟨⟨h1, h2⟩, h3⟩, h4⟩, h5⟩, h6⟩
    exact ⟨(hr.1 h1).1, (hr.1 h1).2, hu.1 h2, hp.1 ⟨h3, h4⟩, hn.1 h5, hs.1 h6⟩
  · intro h
    have := hp.2 h.part
    exact ⟨⟨⟨⟨⟨hr.2 ⟨h.rangeR, h.rangeU⟩, hu.2 h.nodupU⟩, this.1⟩, this.2⟩, hn.2 h.nodupR⟩, hs.2 h.single⟩

example :
    let P : Prob := ⟨3, fun c => if c = 1 then 2 else 1, fun _ _ => 0, fun _ => 0, fun _ => 0,
      fun _ => none, fun _ => 0, fun _ => none⟩
    chkInv P ⟨[[1, 2], [3, 1]], []⟩ = true ∧
    chkInv P ⟨[[2], [3]], []⟩ = false ∧          -- customer 1 lost
    chkInv P ⟨[[1, 2], [3]], [1]⟩ = false ∧      -- unassigned and on a route
    chkInv P ⟨[[1, 1, 2], [3]], []⟩ = false ∧    -- twice on a route
    chkInv P ⟨[[1, 2], [2, 3]], []⟩ = false := by -- single-vehicle customer on two routes
  decide

/-- Refinement checker for the destroy operators: an accepted (pre, post) pair is an abstract
`remove` transition. -/
theorem isRemove_sound (P : Prob) (pre post : VState) (h : isRemove P pre post = true) :
    ∃ S, StepRel P (.remove S) pre post :=
  ⟨_, of_decide_eq_true h⟩

/-- Refinement checker for the repair operators: an accepted (pre, post) pair is connected by a
sequence of abstract `insert` transitions. -/
theorem isInsertRun_sound (P : Prob) (pre post : VState) (h : isInsertRun P pre post = true) :
    ∃ plan, (∀ st ∈ plan, st.isInsert = true) ∧ Run P plan pre post := by
  unfold isInsertRun at h
  split at h
  · rename_i t ht
    have hins : ∀ st ∈ insertPlan pre post, st.isInsert = true := insertPlan_go_isInsert _ _
    exact ⟨_, hins, run_equiv (runPlan_sound P _ _ _ ht) (of_decide_eq_true h) hins⟩
  · cases h

/-- Hence: whatever a checked operator did, it preserved the invariant. -/
theorem refinement_preserves_inv (P : Prob) (pre post : VState) (h : Inv P pre)
    (hs : isRemove P pre post = true ∨ isInsertRun P pre post = true) : Inv P post := by
  rcases hs with hs | hs
  · obtain ⟨S, hS⟩ := isRemove_sound P pre post hs
    exact vrp_inv_step P _ _ _ h hS
  · obtain ⟨plan, _, hrun⟩ := isInsertRun_sound P pre post hs
    exact vrp_inv_run P plan _ _ h hrun

example :
    let P : Prob := ⟨3, fun c => if c = 1 then 2 else 1, fun _ _ => 0, fun _ => 0, fun _ => 0,
      fun _ => none, fun _ => 0, fun _ => none⟩
    isRemove P ⟨[[1, 2], [3, 1]], []⟩ ⟨[[2], []], [3, 1]⟩ = true ∧
    isRemove P ⟨[[1, 2], [3, 1]], []⟩ ⟨[[1, 2], []], [3, 1]⟩ = false ∧  -- route_removal as it was
    isInsertRun P ⟨[[2], []], [1, 3]⟩ ⟨[[1, 2], [3, 1]], []⟩ = true ∧
    isInsertRun P ⟨[[2], []], [1, 3]⟩ ⟨[[2], [3]], []⟩ = false := by      -- customer 1 dropped
  decide

/-- C18 [C] `arrival_consistent`: "consistent with travel, waiting and service times" (`ArrSpec`:
first arrival = max(travel from the depot, window start), every later one = max(previous arrival
+ service + travel, window start)) has exactly one solution, the model's `arrivals`. -/
theorem arrival_consistent (P : Prob) (route : List Nat) (ts : List Rat) :
    ArrSpec P route ts ↔ ts = arrivals P route := by
  cases route with
  | nil =>
    constructor
    · intro h; simpa [arrivals] using h.len
    · rintro rfl; exact ⟨rfl, by simp, by simp⟩
  | cons c r =>
    rw [arrivals, ← arrFrom_unique]
    constructor
    · intro h
      exact ⟨by simpa using h.len, h.first c rfl, fun i x y a h1 h2 h3 => h.next i x y a h1 h2 h3⟩
    · rintro ⟨h1, h2, h3⟩
      refine ⟨by simpa using h1, ?_, h3⟩
      intro c' hc'
      simp only [List.getElem?_cons_zero, Option.some.injEq] at hc'
      subst hc'; exact h2

example :
    let P : Prob := ⟨2, fun _ => 1, fun i j => if i = j then 0 else 5, fun _ => 0,
      fun c => if c = 2 then 20 else 0, fun _ => none, fun _ => 2, fun _ => none⟩
    arrivals P [1, 2] = [5, 20] ∧ ArrSpec P [1, 2] [5, 20] := by
  intro P
  have h : arrivals P [1, 2] = [5, 20] := by decide +kernel
  exact ⟨h, (arrival_consistent P _ _).2 h.symm⟩

/-- T-spec: the checker for the cached arrival times decides "same length and every entry within
`tol` of the exact value". -/
theorem chkArrivals_iff (tol : Rat) (P : Prob) (route : List Nat) (ts : List Rat) :
    chkArrivals tol P route ts = true ↔
      ts.length = route.length ∧
      ∀ (i : Nat) (a b : Rat), ts[i]? = some a → (arrivals P route)[i]? = some b → a - b ≤ tol ∧ b - a ≤ tol := by
  unfold chkArrivals closeTo
  simp only [Bool.and_eq_true, beq_iff_eq, List.all_eq_true, decide_eq_true_eq]
  constructor
  · rintro ⟨hl, h⟩
    refine ⟨hl, fun i a b ha hb => ?_⟩
    exact h (a, b) (List.mem_iff_getElem?.2 ⟨i, List.getElem?_zip_eq_some.2 ⟨ha, hb⟩⟩)
  · rintro ⟨hl, h⟩
    refine ⟨hl, fun ab hab => ?_⟩
    obtain ⟨i, hi⟩ := List.mem_iff_getElem?.1 hab
    have := List.getElem?_zip_eq_some.1 hi
    exact h i ab.1 ab.2 this.1 this.2

/-- C18 [C] `objective_formula`: the model's `objective` is the documented weighted sum – total
route length (depot → customers → depot), vehicles used, lateness, overload, synchronisation
penalty – and, in a state satisfying `Inv`, the unassigned penalty is charged for exactly the
customers that are on no route (nobody is dropped for free). -/
theorem objective_formula (W : Weights) (P : Prob) (s : VState) (h : Inv P s) :
    objective W P s =
      W.dw * (s.routes.map fun r =>
          if r = [] then 0 else (((0 :: r).zip (r ++ [0])).map fun ab => P.dist ab.1 ab.2).sum).sum
      + W.vw * ((s.routes.filter fun r => !r.isEmpty).length : Rat)
      + W.twp * (s.routes.map fun r => ((r.zip (arrivals P r)).map fun ca => late P ca.1 ca.2).sum).sum
      + W.capp * capViol P s + W.syncp * syncViol P s
      + W.unp * (((List.range' 1 P.n).filter fun c => decide (¬ onRoute s c)).length : Rat) := by
  unfold objective totalDist vehiclesUsed twViol
  rw [unassigned_count h]
  have hd : routeDist P = fun r =>
      if r = [] then 0 else (((0 :: r).zip (r ++ [0])).map fun ab => P.dist ab.1 ab.2).sum :=
    funext (routeDist_eq P)
  rw [hd]

example :
    let P : Prob := ⟨2, fun _ => 1, fun i j => if i = j then 0 else 5, fun _ => 0,
      fun c => if c = 2 then 20 else 0, fun c => if c = 1 then some 3 else none, fun _ => 2, fun _ => none⟩
    objective Weights.default P ⟨[[1, 2]], []⟩ = 2015 ∧ chkInv P ⟨[[1, 2]], []⟩ = true := by
  decide +kernel

/-- T-spec: the objective checker decides "within `tol + rel·|exact|` of the exact weighted sum". -/
theorem chkObjective_iff (tol rel : Rat) (W : Weights) (P : Prob) (s : VState) (obj : Rat) :
    chkObjective tol rel W P s obj = true ↔
      obj - objective W P s ≤ tol + rel * absR (objective W P s) ∧
      objective W P s - obj ≤ tol + rel * absR (objective W P s) := by
  simp [chkObjective, closeTo]

/-- T-spec: the distance-matrix checker decides "non-negative, symmetric, and squared entries
within the relative slack of Δx² + Δy²" for all indices `0..n`. -/
theorem chkEuclid_iff (rel : Rat) (xy : Nat → Rat × Rat) (P : Prob) :
    chkEuclid rel xy P = true ↔ ∀ i, i ≤ P.n → ∀ j, j ≤ P.n →
      let q := ((xy i).1 - (xy j).1) * ((xy i).1 - (xy j).1) + ((xy i).2 - (xy j).2) * ((xy i).2 - (xy j).2)
      0 ≤ P.dist i j ∧ P.dist i j = P.dist j i ∧
        P.dist i j * P.dist i j - q ≤ rel * q ∧ q - P.dist i j * P.dist i j ≤ rel * q := by
  simp only [chkEuclid, closeTo, List.all_eq_true, List.mem_range, Bool.and_eq_true, decide_eq_true_eq,
    Nat.lt_succ_iff]
  constructor
  · intro h i hi j hj; have := h i hi j hj; exact ⟨this.1.1, this.1.2, this.2.1, this.2.2⟩
  · intro h i hi j hj; have := h i hi j hj; exact ⟨⟨this.1, this.2.1⟩, this.2.2.1, this.2.2.2⟩

example :
    let P : Prob := ⟨1, fun _ => 1, fun i j => if i = j then 0 else 5, fun _ => 0, fun _ => 0,
      fun _ => none, fun _ => 0, fun _ => none⟩
    chkEuclid 0 (fun i => if i = 0 then (0, 0) else (3, 4)) P = true ∧
    chkEuclid 0 (fun i => if i = 0 then (0, 0) else (3, 5)) P = false := by
  decide +kernel

end Solvor.Sched
