import Solvor.Sched.Model
/-! Sched: helper lemmas for the job-shop dispatch machine (part 1 of C18). -/
namespace Solvor.Sched

/-! ### small list facts -/

theorem pairwise_mem_cases {α} {R : α → α → Prop} {l : List α} (h : l.Pairwise R) :
    ∀ a ∈ l, ∀ b ∈ l, a = b ∨ R a b ∨ R b a := by
  induction l with
  | nil => intro a ha; cases ha
  | cons x xs ih =>
    rw [List.pairwise_cons] at h
    intro a ha b hb
    rcases List.mem_cons.1 ha with rfl | ha' <;> rcases List.mem_cons.1 hb with rfl | hb'
    · left; rfl
    · right; left; exact h.1 b hb'
    · right; right; exact h.1 a ha'
    · exact ih h.2 a ha' b hb'

theorem foldl_max_ge (es : List Entry) (a : Int) :
    a ≤ es.foldl (fun m x => max m x.fin) a ∧ ∀ e ∈ es, e.fin ≤ es.foldl (fun m x => max m x.fin) a := by
  induction es generalizing a with
  | nil => simp
  | cons x xs ih =>
    simp only [List.foldl_cons, List.mem_cons, forall_eq_or_imp]
    have h := ih (max a x.fin)
    refine ⟨by omega, by omega, h.2⟩

theorem foldl_max_attained (es : List Entry) (a : Int) :
    es.foldl (fun m x => max m x.fin) a = a ∨ ∃ e ∈ es, e.fin = es.foldl (fun m x => max m x.fin) a := by
  induction es generalizing a with
  | nil => simp
  | cons x xs ih =>
    simp only [List.foldl_cons, List.mem_cons, exists_eq_or_imp]
    rcases ih (max a x.fin) with h | ⟨e, he, h⟩
    · rw [h]
      rcases Int.le_total a x.fin with hle | hle
      · right; left; omega
      · left; omega
    · right; right; exact ⟨e, he, h⟩

/-- `makespan` is the latest end (0 for the empty schedule). -/
theorem makespan_spec (S : List Entry) :
    (∀ e ∈ S, e.fin ≤ makespan S) ∧ (S ≠ [] → ∃ e ∈ S, e.fin = makespan S) ∧ (S = [] → makespan S = 0) := by
  cases S with
  | nil => simp [makespan]
  | cons x xs =>
    have h1 := foldl_max_ge xs x.fin
    have h2 := foldl_max_attained xs x.fin
    refine ⟨?_, ?_, by simp⟩
    · intro e he
      rcases List.mem_cons.1 he with rfl | he
      · exact h1.1
      · exact h1.2 e he
    · intro _
      rcases h2 with h | ⟨e, he, h⟩
      · exact ⟨x, List.mem_cons_self, by simp [makespan, h]⟩
      · exact ⟨e, List.mem_cons_of_mem _ he, by simpa [makespan] using h⟩

/-! ### the dispatch invariant -/

/-- Invariant of the dispatch machine, true after every pick whatever was picked. -/
structure DInv (jobs : Jobs) (s : DState) : Prop where
  keys : ∀ j k, (∃ e ∈ s.sched, e.job = j ∧ e.op = k) ↔ k < s.next j
  nodup : (s.sched.map Entry.key).Nodup
  dur : ∀ e ∈ s.sched, e.fin - e.start = (jobs.dur e.job e.op : Int)
  nonneg : ∀ e ∈ s.sched, 0 ≤ e.start
  clk : (∀ m, 0 ≤ s.mfree m) ∧ ∀ j, 0 ≤ s.jfree j
  jf : ∀ e ∈ s.sched, e.fin ≤ s.jfree e.job
  mf : ∀ e ∈ s.sched, e.fin ≤ s.mfree (jobs.mach e.job e.op)
  pw : s.sched.Pairwise fun a b =>
    (a.job = b.job → a.op < b.op ∧ a.fin ≤ b.start) ∧
    (jobs.mach a.job a.op = jobs.mach b.job b.op → a.fin ≤ b.start)

theorem dinv_init (jobs : Jobs) : DInv jobs DState.init := by
  refine ⟨?_, ?_, ?_, ?_, ?_, ?_, ?_, ?_⟩ <;> simp [DState.init]

theorem dinv_place (jobs : Jobs) (s : DState) (j : Nat) (h : DInv jobs s) : DInv jobs (place jobs s j) := by
  obtain ⟨hk, hn, hd, hnn, ⟨hcm, hcj⟩, hj, hm, hp⟩ := h
  have hmj := hcm (jobs.mach j (s.next j))
  have hjj := hcj j
  refine ⟨?_, ?_, ?_, ?_, ⟨?_, ?_⟩, ?_, ?_, ?_⟩
  · intro j' k'
    simp only [place, List.mem_append, List.mem_singleton, upd]
    by_cases hjj' : j' = j
    · subst hjj'
      simp only [if_true]
      constructor
      · rintro ⟨e, he | rfl, h1, rfl⟩
        · have := (hk e.job e.op).1 ⟨e, he, rfl, rfl⟩
          rw [h1] at this; omega
        · simp
      · intro hlt
        by_cases hkk : k' < s.next j'
        · obtain ⟨e, he, h1, h2⟩ := (hk j' k').2 hkk
          exact ⟨e, Or.inl he, h1, h2⟩
        · exact ⟨_, Or.inr rfl, rfl, by simp only; omega⟩
    · simp only [if_neg hjj']
      constructor
      · rintro ⟨e, he | rfl, h1, rfl⟩
        · exact (hk j' e.op).1 ⟨e, he, h1, rfl⟩
        · exact absurd h1.symm hjj'
      · intro hlt
        obtain ⟨e, he, h1, h2⟩ := (hk j' k').2 hlt
        exact ⟨e, Or.inl he, h1, h2⟩
  · simp only [place, List.map_append, List.map_cons, List.map_nil]
    rw [List.nodup_append]
    refine ⟨hn, by simp, ?_⟩
    intro a ha b hb hab
    simp only [List.mem_singleton] at hb
    subst hb hab
    obtain ⟨e, he, hek⟩ := List.mem_map.1 ha
    simp only [Entry.key, Prod.mk.injEq] at hek
    have := (hk j (s.next j)).1 ⟨e, he, hek.1, hek.2⟩
    omega
  · intro e he
    simp only [place, List.mem_append, List.mem_singleton] at he
    rcases he with he | rfl
    · exact hd e he
    · simp only; omega
  · intro e he
    simp only [place, List.mem_append, List.mem_singleton] at he
    rcases he with he | rfl
    · exact hnn e he
    · simp only; omega
  · intro m
    simp only [place, upd]
    split
    · omega
    · exact hcm m
  · intro j'
    simp only [place, upd]
    split
    · omega
    · exact hcj j'
  · intro e he
    simp only [place, List.mem_append, List.mem_singleton] at he
    rcases he with he | rfl
    · have := hj e he
      simp only [place, upd]
      split
      · subst_vars; omega
      · exact this
    · simp [place, upd]
  · intro e he
    simp only [place, List.mem_append, List.mem_singleton] at he
    rcases he with he | rfl
    · have := hm e he
      simp only [place, upd]
      split
      · rename_i heq; rw [heq] at this; omega
      · exact this
    · simp [place, upd]
  · simp only [place]
    rw [List.pairwise_append]
    refine ⟨hp, by simp, ?_⟩
    intro a ha b hb
    simp only [List.mem_singleton] at hb
    subst hb
    have h1 := hj a ha
    have h2 := hm a ha
    have h3 := (hk a.job a.op).1 ⟨a, ha, rfl, rfl⟩
    refine ⟨fun hjob => ?_, fun hmach => ?_⟩
    · simp only at hjob ⊢
      rw [hjob] at h1 h3
      exact ⟨h3, by omega⟩
    · simp only at hmach ⊢
      rw [hmach] at h2
      omega

theorem dinv_run (jobs : Jobs) (cs : List Nat) (s : DState) (h : DInv jobs s) :
    DInv jobs (runChoices jobs cs s) := by
  induction cs generalizing s with
  | nil => exact h
  | cons j cs ih => exact ih _ (dinv_place jobs s j h)

theorem next_run (jobs : Jobs) (cs : List Nat) (s : DState) (j : Nat) :
    (runChoices jobs cs s).next j = s.next j + cs.count j := by
  induction cs generalizing s with
  | nil => simp [runChoices]
  | cons c cs ih =>
    have := ih (place jobs s c)
    simp only [runChoices, List.foldl_cons] at this ⊢
    rw [this, List.count_cons]
    simp only [place, upd, beq_iff_eq]
    by_cases hjc : j = c
    · subst hjc; simp; omega
    · have : ¬ c = j := fun h => hjc h.symm
      simp [hjc, this]

theorem choices_count {jobs : Jobs} {cs : List Nat} (h : Choices jobs cs) (j : Nat) :
    cs.count j = (jobs.ops j).length := by
  by_cases hj : j < jobs.length
  · exact h.2 j hj
  · have h0 : cs.count j = 0 := List.count_eq_zero.2 fun hm => hj (h.1 j hm)
    simp [h0, Jobs.ops, List.getD, List.getElem?_eq_none (Nat.le_of_not_lt hj)]

/-- A state satisfying the invariant in which every job is exhausted holds a valid schedule. -/
theorem valid_of_dinv (jobs : Jobs) (s : DState) (h : DInv jobs s)
    (hn : ∀ j, s.next j = (jobs.ops j).length) : ValidSchedule jobs s.sched := by
  refine ⟨h.nodup, ?_, h.dur, ?_, ?_⟩
  · intro j k; rw [h.keys, hn]
  · intro a ha b hb hjob hop
    rcases pairwise_mem_cases h.pw a ha b hb with rfl | hab | hba
    · omega
    · exact (hab.1 hjob).2
    · have := (hba.1 hjob.symm).1; omega
  · intro a ha b hb hkey hmach
    rcases pairwise_mem_cases h.pw a ha b hb with rfl | hab | hba
    · exact absurd rfl hkey
    · left; exact hab.2 hmach
    · right; exact hba.2 hmach.symm

/-! ### the Boolean checker -/

theorem ops_length_pos {jobs : Jobs} {j k : Nat} (h : k < (jobs.ops j).length) : j < jobs.length := by
  by_cases hj : j < jobs.length
  · exact hj
  · simp [Jobs.ops, List.getD, List.getElem?_eq_none (Nat.le_of_not_lt hj)] at h

/-! ### choosers: `_dispatch` under a rule, `_rebuild_schedule` under its priorities -/

/-- A chooser picks a job that still has operations whenever there is one (and only then). -/
structure Chooser (jobs : Jobs) (ch : DState → Option Nat) : Prop where
  ready : ∀ s j, ch s = some j → j < jobs.length ∧ s.next j < (jobs.ops j).length
  none : ∀ s, ch s = none → ∀ j, j < jobs.length → ¬ s.next j < (jobs.ops j).length

/-- Operations still to place. -/
def remOps (jobs : Jobs) (s : DState) : Nat :=
  ((List.range jobs.length).map fun j => (jobs.ops j).length - s.next j).sum

theorem sum_range_update (n : Nat) (f g : Nat → Nat) (j : Nat) (hj : j < n)
    (hne : ∀ i, i ≠ j → g i = f i) (hj' : g j + 1 = f j) :
    ((List.range n).map g).sum + 1 = ((List.range n).map f).sum := by
  induction n with
  | zero => omega
  | succ n ih =>
    simp only [List.range_succ, List.map_append, List.map_cons, List.map_nil, List.sum_append,
      List.sum_cons, List.sum_nil, Nat.add_zero]
    by_cases hjn : j = n
    · subst hjn
      have : (List.range j).map g = (List.range j).map f := by
        apply List.map_congr_left
        intro i hi
        exact hne i (by have := List.mem_range.1 hi; omega)
      rw [this]; omega
    · have := ih (by omega)
      have hn := hne n (fun h => hjn h.symm)
      omega

theorem sum_range_zero (n : Nat) (f : Nat → Nat) (h : ((List.range n).map f).sum = 0) :
    ∀ i, i < n → f i = 0 := by
  induction n with
  | zero => intro i hi; omega
  | succ n ih =>
    simp only [List.range_succ, List.map_append, List.map_cons, List.map_nil, List.sum_append,
      List.sum_cons, List.sum_nil, Nat.add_zero] at h
    intro i hi
    by_cases hin : i = n
    · subst hin; omega
    · exact ih (by omega) i (by omega)

theorem sum_range_getD {α} (l : List α) (d : α) (f : α → Nat) :
    ((List.range l.length).map fun i => f (l.getD i d)).sum = (l.map f).sum := by
  induction l with
  | nil => rfl
  | cons x xs ih =>
    simp only [List.length_cons, List.range_succ_eq_map, List.map_cons, List.map_map, List.sum_cons]
    rw [← ih]
    rfl

theorem remOps_init (jobs : Jobs) : remOps jobs DState.init = totalOps jobs := by
  unfold remOps totalOps Jobs.ops
  simp only [DState.init, Nat.sub_zero]
  exact sum_range_getD jobs [] List.length

theorem remOps_place (jobs : Jobs) (s : DState) (j : Nat) (hj : j < jobs.length)
    (hr : s.next j < (jobs.ops j).length) : remOps jobs (place jobs s j) + 1 = remOps jobs s := by
  unfold remOps
  apply sum_range_update _ _ _ j hj
  · intro i hi; simp [place, upd, hi]
  · simp only [place, upd, if_true]; omega

theorem dispatchWith_spec (jobs : Jobs) (ch : DState → Option Nat) (hch : Chooser jobs ch) (fuel : Nat)
    (s : DState) (hb : ∀ j, s.next j ≤ (jobs.ops j).length) :
    ∃ cs, dispatchWith jobs ch fuel s = runChoices jobs cs s ∧ (∀ j ∈ cs, j < jobs.length) ∧
      (remOps jobs s ≤ fuel →
        ∀ j, j < jobs.length → (runChoices jobs cs s).next j = (jobs.ops j).length) := by
  induction fuel generalizing s with
  | zero =>
    refine ⟨[], rfl, by simp, ?_⟩
    intro hle j hj
    have := sum_range_zero _ _ (Nat.le_zero.1 hle) j hj
    have := hb j
    simp only [runChoices, List.foldl_nil]
    omega
  | succ fuel ih =>
    unfold dispatchWith
    cases hc : ch s with
    | none =>
      refine ⟨[], rfl, by simp, ?_⟩
      intro _ j hj
      have := hch.none s hc j hj
      have := hb j
      simp only [runChoices, List.foldl_nil]
      omega
    | some j =>
      obtain ⟨hj, hr⟩ := hch.ready s j hc
      have hb' : ∀ j', (place jobs s j).next j' ≤ (jobs.ops j').length := by
        intro j'
        simp only [place, upd]
        split
        · subst_vars; omega
        · exact hb j'
      obtain ⟨cs, h1, h2, h3⟩ := ih (place jobs s j) hb'
      refine ⟨j :: cs, ?_, ?_, ?_⟩
      · simpa [runChoices] using h1
      · intro x hx
        rcases List.mem_cons.1 hx with rfl | hx
        · exact hj
        · exact h2 x hx
      · intro hle
        have := remOps_place jobs s j hj hr
        simpa [runChoices] using h3 (by omega)

theorem chooser_choices (jobs : Jobs) (ch : DState → Option Nat) (hch : Chooser jobs ch) :
    ∃ cs, Choices jobs cs ∧
      (dispatchWith jobs ch (totalOps jobs) DState.init).sched = dispatch jobs cs := by
  obtain ⟨cs, h1, h2, h3⟩ := dispatchWith_spec jobs ch hch (totalOps jobs) DState.init
    (by intro j; simp [DState.init])
  refine ⟨cs, ⟨h2, ?_⟩, by rw [h1]; rfl⟩
  intro j hj
  have := h3 (by rw [remOps_init]; exact Nat.le_refl _) j hj
  rw [next_run] at this
  simpa [DState.init] using this

/-! the four rules are choosers -/

theorem foldl_pick_mem (better : Nat → Nat → Bool) (js : List Nat) (j : Nat) :
    js.foldl (fun b x => if better x b then x else b) j ∈ j :: js := by
  induction js generalizing j with
  | nil => simp
  | cons x xs ih =>
    simp only [List.foldl_cons]
    have := ih (if better x j then x else j)
    rcases List.mem_cons.1 this with h | h
    · rw [h]; split <;> simp
    · exact List.mem_cons_of_mem _ (List.mem_cons_of_mem _ h)

theorem firstBest_some {better : Nat → Nat → Bool} {l : List Nat} {j : Nat}
    (h : firstBest better l = some j) : j ∈ l := by
  cases l with
  | nil => simp [firstBest] at h
  | cons x xs =>
    simp only [firstBest, Option.some.injEq] at h
    rw [← h]; exact foldl_pick_mem better xs x

theorem firstBest_none {better : Nat → Nat → Bool} {l : List Nat} (h : firstBest better l = none) : l = [] := by
  cases l with
  | nil => rfl
  | cons x xs => simp [firstBest] at h

theorem mem_readyJobs {jobs : Jobs} {s : DState} {j : Nat} :
    j ∈ readyJobs jobs s ↔ j < jobs.length ∧ s.next j < (jobs.ops j).length := by
  simp [readyJobs, isReady]

theorem choose_chooser (r : Rule) (jobs : Jobs) : Chooser jobs (choose r jobs) := by
  constructor
  · intro s j h
    apply mem_readyJobs.1
    cases r <;> simp only [choose] at h
    · exact List.mem_of_mem_head? h
    · exact firstBest_some h
    · exact firstBest_some h
    · exact firstBest_some h
  · intro s h j hj hr
    have hm : j ∈ readyJobs jobs s := mem_readyJobs.2 ⟨hj, hr⟩
    have : readyJobs jobs s = [] := by
      cases r <;> simp only [choose] at h
      · exact List.head?_eq_none_iff.1 h
      · exact firstBest_none h
      · exact firstBest_none h
      · exact firstBest_none h
    rw [this] at hm
    cases hm

/-! ### local search -/

theorem rebuildChoose_chooser (jobs : Jobs) (old : List Entry) (target : Nat) (order : List (Nat × Nat)) :
    Chooser jobs (rebuildChoose jobs old target order) := by
  constructor
  · intro s j h
    exact mem_readyJobs.1 (firstBest_some h)
  · intro s h j hj hr
    have hm : j ∈ readyJobs jobs s := mem_readyJobs.2 ⟨hj, hr⟩
    rw [firstBest_none h] at hm
    cases hm

theorem firstImproving_some {jobs : Jobs} {S : List Entry} {mk : Int} {m : Nat} {ops : List (Nat × Nat)}
    {is : List Nat} {new : List Entry} {mk' : Int}
    (h : firstImproving jobs S mk m ops is = some (new, mk')) :
    (∃ i, new = rebuild jobs S m (swapAdj ops i)) ∧ mk' = makespan new ∧ mk' < mk := by
  induction is with
  | nil => simp [firstImproving] at h
  | cons i is ih =>
    simp only [firstImproving] at h
    split at h
    · rename_i hlt
      simp only [Option.some.injEq, Prod.mk.injEq] at h
      obtain ⟨h1, h2⟩ := h
      subst h1 h2
      exact ⟨⟨i, rfl⟩, rfl, hlt⟩
    · exact ih h

end Solvor.Sched
