import Solvor.Sched.Drive
def main : IO Unit := Solvor.Proto.serve Solvor.Sched.handle
