/-! Sched: executable models (no Mathlib imports). -/
namespace Solvor.Sched

end Solvor.Sched
