import Solvor.Gen.SchedConsts
/-!
Sched: executable models and Bool checkers for C18 (no Mathlib imports).

Part 1 (`solvor/job_shop.py`).  `_dispatch` and `_rebuild_schedule` are the same machine: keep a
clock per machine and per job, repeatedly pick *some* job that still has operations left and
place its next operation at `max(machine_free, job_free)`.  The dispatching rule (`spt`, `lpt`,
`mwkr`, `fifo`, `random`), the seed, and the priorities of the local search's rebuild only decide
*which* job is picked.  The model therefore takes the sequence of picked jobs as a parameter
(`dispatch jobs cs`); the theorems quantify over every such sequence.  `choose`/`dispatchRule`
additionally mirror the four deterministic rules with CPython's `min`/`max` tie-breaking.

Part 2 (`solvor/vrp.py`).  Bookkeeping state `(routes, unassigned)` with the abstract
transitions `remove S`, `insert c [(v,pos),…]`, `recompute`; arrival times are a cache of the
derived function `arrivals`, the objective is `objective`.  Everything the RNG, the float
distances and the insertion heuristics decide appears only as the payload of a transition.
-/
namespace Solvor.Sched

/-! ## Part 1: job-shop dispatch -/

/-- An operation: (machine, duration). -/
abbrev Op := Nat × Nat
abbrev Jobs := List (List Op)

def Jobs.ops (jobs : Jobs) (j : Nat) : List Op := jobs.getD j []
def Jobs.op (jobs : Jobs) (j k : Nat) : Op := (jobs.ops j).getD k (0, 0)
def Jobs.mach (jobs : Jobs) (j k : Nat) : Nat := (jobs.op j k).1
def Jobs.dur (jobs : Jobs) (j k : Nat) : Nat := (jobs.op j k).2

/-- One line of the schedule dict: `(job, op) ↦ (start, fin)`. -/
structure Entry where
  job : Nat
  op : Nat
  start : Int
  fin : Int
  deriving DecidableEq, Repr

def Entry.key (e : Entry) : Nat × Nat := (e.job, e.op)

/-- Pointwise update of a clock / counter table. -/
def upd {β : Type} (f : Nat → β) (i : Nat) (v : β) : Nat → β := fun x => if x = i then v else f x

/-- `next_op`, `machine_free`, `job_free` and the schedule built so far (insertion order). -/
structure DState where
  next : Nat → Nat
  mfree : Nat → Int
  jfree : Nat → Int
  sched : List Entry

def DState.init : DState := ⟨fun _ => 0, fun _ => 0, fun _ => 0, []⟩

/-- Place the next operation of job `j` (body of the loops of `_dispatch` / `_rebuild_schedule`). -/
def place (jobs : Jobs) (s : DState) (j : Nat) : DState :=
  let k := s.next j
  let m := jobs.mach j k
  let st := max (s.mfree m) (s.jfree j)
  let en := st + (jobs.dur j k : Int)
  { next := upd s.next j (k + 1), mfree := upd s.mfree m en, jfree := upd s.jfree j en,
    sched := s.sched ++ [⟨j, k, st, en⟩] }

def runChoices (jobs : Jobs) (cs : List Nat) (s : DState) : DState := cs.foldl (place jobs) s

/-- The schedule produced by picking the jobs `cs` in this order. -/
def dispatch (jobs : Jobs) (cs : List Nat) : List Entry := (runChoices jobs cs DState.init).sched

/-- A complete choice sequence: only real jobs are picked and job `j` is picked exactly as often as
it has operations.  (Picking a *job* – never an operation – is what "respecting job order" means:
the operation placed is always the job's next one.) -/
def Choices (jobs : Jobs) (cs : List Nat) : Prop :=
  (∀ j ∈ cs, j < jobs.length) ∧ ∀ j, j < jobs.length → cs.count j = (jobs.ops j).length

instance (jobs : Jobs) (cs : List Nat) : Decidable (Choices jobs cs) := by
  unfold Choices; exact inferInstance

/-- `_compute_makespan`: `max(end …) if schedule else 0`. -/
def makespan : List Entry → Int
  | [] => 0
  | e :: es => es.foldl (fun m x => max m x.fin) e.fin

/-- The property's notion of a valid job-shop schedule. -/
structure ValidSchedule (jobs : Jobs) (S : List Entry) : Prop where
  /-- no operation has two entries -/
  once : (S.map Entry.key).Nodup
  /-- exactly the operations of the instance have an entry -/
  all : ∀ j k, (∃ e ∈ S, e.job = j ∧ e.op = k) ↔ k < (jobs.ops j).length
  /-- end − start = duration -/
  dur : ∀ e ∈ S, e.fin - e.start = (jobs.dur e.job e.op : Int)
  /-- operations of a job in order, without overlap -/
  order : ∀ a ∈ S, ∀ b ∈ S, a.job = b.job → a.op < b.op → a.fin ≤ b.start
  /-- no two operations overlap on a machine -/
  mach : ∀ a ∈ S, ∀ b ∈ S, a.key ≠ b.key → jobs.mach a.job a.op = jobs.mach b.job b.op →
    a.fin ≤ b.start ∨ b.fin ≤ a.start

/-! Verified checker for a returned schedule and its reported objective, clause by clause. -/
def chkOnce (S : List Entry) : Bool := decide (S.map Entry.key).Nodup
def chkKnown (jobs : Jobs) (S : List Entry) : Bool :=
  S.all fun e => decide (e.op < (jobs.ops e.job).length)
def chkPresent (jobs : Jobs) (S : List Entry) : Bool :=
  (List.range jobs.length).all fun j => (List.range (jobs.ops j).length).all fun k =>
    S.any fun e => e.job == j && e.op == k
def chkDur (jobs : Jobs) (S : List Entry) : Bool :=
  S.all fun e => e.fin - e.start == (jobs.dur e.job e.op : Int)
def chkOrder (S : List Entry) : Bool :=
  S.all fun a => S.all fun b => !(a.job == b.job && decide (a.op < b.op)) || decide (a.fin ≤ b.start)
def chkMach (jobs : Jobs) (S : List Entry) : Bool :=
  S.all fun a => S.all fun b =>
    !(a.key != b.key && jobs.mach a.job a.op == jobs.mach b.job b.op)
      || decide (a.fin ≤ b.start) || decide (b.fin ≤ a.start)
def chkObj (S : List Entry) (obj : Int) : Bool := obj == makespan S

def chkSchedule (jobs : Jobs) (S : List Entry) (obj : Int) : Bool :=
  chkOnce S && chkKnown jobs S && chkPresent jobs S && chkDur jobs S && chkOrder S && chkMach jobs S
    && chkObj S obj

/-- Refinement checker: the schedule, read in dict insertion order, is exactly what the abstract
dispatch machine produces for the jobs picked in that order. -/
def isDispatchOf (jobs : Jobs) (S : List Entry) : Bool :=
  decide (Choices jobs (S.map Entry.job)) && decide (dispatch jobs (S.map Entry.job) = S)

/-! ### The four deterministic rules (mirror of the `selected = …` block of `_dispatch`) -/

inductive Rule | fifo | spt | lpt | mwkr
  deriving DecidableEq, Repr

def isReady (jobs : Jobs) (s : DState) (j : Nat) : Bool := decide (s.next j < (jobs.ops j).length)

/-- `ready` in job-index order. -/
def readyJobs (jobs : Jobs) (s : DState) : List Nat := (List.range jobs.length).filter (isReady jobs s)

/-- `remaining_work[j]`: total duration of the operations of `j` not yet placed. -/
def remaining (jobs : Jobs) (s : DState) (j : Nat) : Nat :=
  (((jobs.ops j).drop (s.next j)).map Prod.snd).sum

/-- CPython `min(xs, key=…)` / `max(xs, key=…)`: the *first* extremal element. -/
def firstBest (better : Nat → Nat → Bool) : List Nat → Option Nat
  | [] => none
  | j :: js => some (js.foldl (fun b x => if better x b then x else b) j)

def choose (r : Rule) (jobs : Jobs) (s : DState) : Option Nat :=
  let d := fun j => jobs.dur j (s.next j)
  match r with
  | .fifo => (readyJobs jobs s).head?
  | .spt => firstBest (fun x b => decide (d x < d b)) (readyJobs jobs s)
  | .lpt => firstBest (fun x b => decide (d x > d b)) (readyJobs jobs s)
  | .mwkr => firstBest (fun x b => decide (remaining jobs s x > remaining jobs s b)) (readyJobs jobs s)

/-- `for _ in range(total_ops): … if not ready: break … place(selected)`. -/
def dispatchWith (jobs : Jobs) (ch : DState → Option Nat) : Nat → DState → DState
  | 0, s => s
  | f + 1, s => match ch s with
    | none => s
    | some j => dispatchWith jobs ch f (place jobs s j)

def totalOps (jobs : Jobs) : Nat := (jobs.map List.length).sum

def dispatchRule (r : Rule) (jobs : Jobs) : List Entry :=
  (dispatchWith jobs (choose r jobs) (totalOps jobs) DState.init).sched

/-! ### The local search (mirror of the loop of `solve_job_shop`, `_try_swap`, `_rebuild_schedule`)

The RNG appears only as the list of machines drawn by `rng.randrange(n_machines)`. -/

/-- `(j, op_idx)` of all operations, job-major (the order of the comprehension loops). -/
def allOps (jobs : Jobs) : List (Nat × Nat) :=
  (List.range jobs.length).flatMap fun j => (List.range (jobs.ops j).length).map fun k => (j, k)

/-- `ops_on_machine` before sorting. -/
def opsOn (jobs : Jobs) (m : Nat) : List (Nat × Nat) :=
  (allOps jobs).filter fun jk => jobs.mach jk.1 jk.2 == m

/-- `schedule[(j, op)][0]`. -/
def startOf (S : List Entry) (jk : Nat × Nat) : Int :=
  match S.find? fun e => e.key == jk with
  | some e => e.start
  | none => 0

/-- insertion into a sorted list, before the first element that is not smaller -/
def insSorted {α} (le : α → α → Bool) (x : α) : List α → List α
  | [] => [x]
  | y :: ys => if le x y then x :: y :: ys else y :: insSorted le x ys

/-- stable insertion sort (structural, so that it evaluates in the kernel as well) -/
def stableSort {α} (le : α → α → Bool) (l : List α) : List α := l.foldr (insSorted le) []

/-- `ops_on_machine.sort(key=start)` (stable). -/
def byStart (S : List Entry) (ops : List (Nat × Nat)) : List (Nat × Nat) :=
  stableSort (fun a b => decide (startOf S a ≤ startOf S b)) ops

/-- swap positions `i` and `i+1`. -/
def swapAdj {α} (l : List α) (i : Nat) : List α :=
  match l.drop i with
  | a :: b :: rest => l.take i ++ b :: a :: rest
  | _ => l

/-- tuple comparison of `op_priority` keys. -/
def keyLt (a b : Nat × Int) : Bool := decide (a.1 < b.1 ∨ (a.1 = b.1 ∧ a.2 < b.2))

/-- `ready.sort(key=op_priority); ready[0]`: primary key the operation index, secondary the position
in the new machine order (operations on the target machine) or the old start time (others). -/
def rebuildChoose (jobs : Jobs) (old : List Entry) (target : Nat) (order : List (Nat × Nat))
    (s : DState) : Option Nat :=
  let prio : Nat → Nat × Int := fun j =>
    let k := s.next j
    (k, if jobs.mach j k = target then (order.idxOf (j, k) : Int) else startOf old (j, k))
  firstBest (fun x b => keyLt (prio x) (prio b)) (readyJobs jobs s)

/-- `_rebuild_schedule`. -/
def rebuild (jobs : Jobs) (old : List Entry) (target : Nat) (order : List (Nat × Nat)) : List Entry :=
  (dispatchWith jobs (rebuildChoose jobs old target order) (totalOps jobs) DState.init).sched

/-- `for i in range(len(ops) - 1): … if new_makespan < makespan: … break` -/
def firstImproving (jobs : Jobs) (S : List Entry) (mk : Int) (machine : Nat) (ops : List (Nat × Nat)) :
    List Nat → Option (List Entry × Int)
  | [] => none
  | i :: is =>
    let new := rebuild jobs S machine (swapAdj ops i)
    if makespan new < mk then some (new, makespan new) else firstImproving jobs S mk machine ops is

structure LState where
  sched : List Entry
  obj : Int
  noImp : Nat

/-- one iteration of the local search, `machine` = the value drawn by `rng.randrange(n_machines)`. -/
def lsStep (jobs : Jobs) (st : LState) (machine : Nat) : LState :=
  let ops := byStart st.sched (opsOn jobs machine)
  if ops.length < 2 then st
  else match firstImproving jobs st.sched st.obj machine ops (List.range (ops.length - 1)) with
    | some (new, mk) => ⟨new, mk, 0⟩
    | none => { st with noImp := st.noImp + 1 }

def lsRun (jobs : Jobs) (maxNoImp : Nat) : List Nat → LState → LState
  | [], st => st
  | m :: ms, st =>
    let st' := lsStep jobs st m
    if st'.noImp ≥ maxNoImp then st' else lsRun jobs maxNoImp ms st'

/-- `solve_job_shop(…, local_search=True)` from the dispatch schedule `init`, with the drawn machines. -/
def localSearch (jobs : Jobs) (init : List Entry) (draws : List Nat) : LState :=
  lsRun jobs Solvor.Gen.Sched.js_max_no_improve.toNat draws ⟨init, makespan init, 0⟩

/-! ## Part 2: VRP bookkeeping -/

structure VState where
  routes : List (List Nat)
  unassigned : List Nat
  deriving DecidableEq, Repr

/-- Static data of an instance.  Customers are `1..n` (0 is the depot); `none` is `+∞`. -/
structure Prob where
  n : Nat
  req : Nat → Nat
  dist : Nat → Nat → Rat
  demand : Nat → Rat
  twStart : Nat → Rat
  twEnd : Nat → Option Rat
  service : Nat → Rat
  cap : Nat → Option Rat

def onRoute (s : VState) (c : Nat) : Prop := ∃ r ∈ s.routes, c ∈ r

instance (s : VState) (c : Nat) : Decidable (onRoute s c) := by unfold onRoute; exact inferInstance

/-- The bookkeeping invariant of C18. -/
structure Inv (P : Prob) (s : VState) : Prop where
  /-- routes hold customers only (no depot, nothing out of range) -/
  rangeR : ∀ r ∈ s.routes, ∀ c ∈ r, 1 ≤ c ∧ c ≤ P.n
  rangeU : ∀ c ∈ s.unassigned, 1 ≤ c ∧ c ≤ P.n
  nodupU : s.unassigned.Nodup
  /-- every customer is unassigned xor on at least one route (never lost, never both) -/
  part : ∀ c, 1 ≤ c → c ≤ P.n → (c ∈ s.unassigned ↔ ¬ onRoute s c)
  /-- never twice on the same route -/
  nodupR : ∀ r ∈ s.routes, r.Nodup
  /-- a single-vehicle customer is on at most one (hence, if assigned, exactly one) route -/
  single : ∀ c, 1 ≤ c → c ≤ P.n → P.req c ≤ 1 → ∀ (i j : Nat) (r r' : List Nat), s.routes[i]? = some r →
    s.routes[j]? = some r' → c ∈ r → c ∈ r' → i = j

def chkRange (P : Prob) (s : VState) : Bool :=
  s.routes.all (fun r => r.all fun c => decide (1 ≤ c ∧ c ≤ P.n))
  && s.unassigned.all (fun c => decide (1 ≤ c ∧ c ≤ P.n))
def chkNodupU (s : VState) : Bool := decide s.unassigned.Nodup
/-- no customer is lost: unassigned or on a route -/
def chkNotLost (P : Prob) (s : VState) : Bool :=
  (List.range' 1 P.n).all fun c => s.unassigned.contains c || s.routes.any (·.contains c)
/-- no customer is both unassigned and on a route -/
def chkNotBoth (P : Prob) (s : VState) : Bool :=
  (List.range' 1 P.n).all fun c => !(s.unassigned.contains c && s.routes.any (·.contains c))
def chkNodupR (s : VState) : Bool := s.routes.all fun r => decide r.Nodup
def chkSingle (P : Prob) (s : VState) : Bool :=
  (List.range' 1 P.n).all fun c => !decide (P.req c ≤ 1) ||
    (List.range s.routes.length).all fun i => (List.range s.routes.length).all fun j =>
      !((s.routes.getD i []).contains c && (s.routes.getD j []).contains c) || i == j

def chkInv (P : Prob) (s : VState) : Bool :=
  chkRange P s && chkNodupU s && chkNotLost P s && chkNotBoth P s && chkNodupR s && chkSingle P s

/-- Python `route.insert(pos, c)` for `pos ≤ len(route)`. -/
def insAt (r : List Nat) (p c : Nat) : List Nat := r.take p ++ c :: r.drop p

/-- Insert `c` on every route `v` listed in `vps`, at the listed position. -/
def posOn (vps : List (Nat × Nat)) (v : Nat) : Option Nat :=
  (vps.find? fun vp => vp.1 == v).map Prod.snd

def insOne (c : Nat) (vps : List (Nat × Nat)) (v : Nat) (r : List Nat) : List Nat :=
  match posOn vps v with
  | some p => insAt r p c
  | none => r

def insertAll (c : Nat) (vps : List (Nat × Nat)) (routes : List (List Nat)) : List (List Nat) :=
  routes.mapIdx (insOne c vps)

/-- Drop the customers of `S` from every route. -/
def removeAll (S : List Nat) (routes : List (List Nat)) : List (List Nat) :=
  routes.map fun r => r.filter fun x => !S.contains x

inductive Step
  | remove (S : List Nat)
  | insert (c : Nat) (vps : List (Nat × Nat))
  | recompute
  deriving DecidableEq, Repr

def Step.isInsert : Step → Bool
  | .insert _ _ => true
  | _ => false

/-- The abstract transitions.  `remove S`: the customers `S` leave every route and join
`unassigned`.  `insert c vps`: an unassigned customer is put on the pairwise distinct routes of
`vps` (one route unless it is a multi-vehicle customer) and leaves `unassigned`.  `recompute`
(refreshing the arrival-time cache) does not touch the bookkeeping. -/
def StepRel (P : Prob) : Step → VState → VState → Prop
  | .remove S, s, s' =>
      S.Nodup ∧ (∀ c ∈ S, 1 ≤ c ∧ c ≤ P.n) ∧ s'.routes = removeAll S s.routes ∧
      s'.unassigned.Perm (s.unassigned ++ S.filter fun x => !s.unassigned.contains x)
  | .insert c vps, s, s' =>
      (1 ≤ c ∧ c ≤ P.n) ∧ c ∈ s.unassigned ∧ vps ≠ [] ∧ (vps.map Prod.fst).Nodup ∧
      (∀ vp ∈ vps, vp.1 < s.routes.length ∧ vp.2 ≤ (s.routes.getD vp.1 []).length) ∧
      (P.req c ≤ 1 → vps.length = 1) ∧
      s'.routes = insertAll c vps s.routes ∧ s'.unassigned.Perm (s.unassigned.erase c)
  | .recompute, s, s' => s' = s

instance (P : Prob) (st : Step) (s s' : VState) : Decidable (StepRel P st s s') := by
  cases st <;> unfold StepRel <;> exact inferInstance

/-- Same plan; `unassigned` is a set, so its order does not matter. -/
def VState.Equiv (a b : VState) : Prop := a.routes = b.routes ∧ a.unassigned.Perm b.unassigned

instance (a b : VState) : Decidable (a.Equiv b) := by unfold VState.Equiv; exact inferInstance

inductive Run (P : Prob) : List Step → VState → VState → Prop
  | nil {s s'} : s.Equiv s' → Run P [] s s'
  | cons {st sts s s' s''} : StepRel P st s s' → Run P sts s' s'' → Run P (st :: sts) s s''

/-- Canonical successor of a step (the one with `unassigned` in the model's order). -/
def applyStep (st : Step) (s : VState) : VState :=
  match st with
  | .remove S => ⟨removeAll S s.routes, s.unassigned ++ S.filter fun x => !s.unassigned.contains x⟩
  | .insert c vps => ⟨insertAll c vps s.routes, s.unassigned.erase c⟩
  | .recompute => s

/-- Run a plan, checking each step's relation against its canonical successor. -/
def runPlan (P : Prob) : List Step → VState → Option VState
  | [], s => some s
  | st :: sts, s => if StepRel P st s (applyStep st s) then runPlan P sts (applyStep st s) else none

/-- Refinement checker for the destroy operators: `post` is `remove S` of `pre` for the set `S` of
customers that became unassigned. -/
def isRemove (P : Prob) (pre post : VState) : Bool :=
  decide (StepRel P (.remove (post.unassigned.filter fun x => !pre.unassigned.contains x)) pre post)

/-- The insert plan read off a (pre, post) pair: the customers that left `unassigned`, one
`insert` each, positions taken in `post` with the later-inserted customers deleted. -/
def insertPlan (pre post : VState) : List Step :=
  let ins := pre.unassigned.filter fun x => !post.unassigned.contains x
  let rec go : List Nat → List Step
    | [] => []
    | c :: later =>
      .insert c ((post.routes.zipIdx.filter fun rv => rv.1.contains c).map fun rv =>
          (rv.2, (rv.1.filter fun x => !later.contains x).idxOf c)) :: go later
  go ins

/-- Refinement checker for the repair operators: `post` is reached from `pre` by `insert` steps. -/
def isInsertRun (P : Prob) (pre post : VState) : Bool :=
  match runPlan P (insertPlan pre post) pre with
  | some s => decide (s.Equiv post)
  | none => false

/-! ### Arrival times and the objective -/

/-- `compute_arrival_times` from customer `c` on, `t` = time of reaching `c` before waiting. -/
def arrFrom (P : Prob) : Rat → Nat → List Nat → List Rat
  | t, c, [] => [max t (P.twStart c)]
  | t, c, d :: r =>
    let a := max t (P.twStart c)
    a :: arrFrom P (a + P.service c + P.dist c d) d r

def arrivals (P : Prob) : List Nat → List Rat
  | [] => []
  | c :: r => arrFrom P (P.dist 0 c) c r

/-- "Consistent with travel, waiting and service times", as a relation on (route, times). -/
structure ArrSpec (P : Prob) (route : List Nat) (ts : List Rat) : Prop where
  len : ts.length = route.length
  first : ∀ c, route[0]? = some c → ts[0]? = some (max (P.dist 0 c) (P.twStart c))
  next : ∀ i c d a, route[i]? = some c → route[i + 1]? = some d → ts[i]? = some a →
    ts[i + 1]? = some (max (a + P.service c + P.dist c d) (P.twStart d))

def closeTo (tol a b : Rat) : Bool := decide (a - b ≤ tol) && decide (b - a ≤ tol)

/-- The implementation's cached times agree with the exact recomputation within `tol`. -/
def chkArrivals (tol : Rat) (P : Prob) (route : List Nat) (ts : List Rat) : Bool :=
  ts.length == route.length && (ts.zip (arrivals P route)).all fun ab => closeTo tol ab.1 ab.2

/-- `route_distance`: depot → first → … → last → depot. -/
def legs (P : Prob) : Nat → List Nat → Rat
  | last, [] => P.dist last 0
  | prev, c :: r => P.dist prev c + legs P c r

def routeDist (P : Prob) : List Nat → Rat
  | [] => 0
  | c :: r => P.dist 0 c + legs P c r

def totalDist (P : Prob) (s : VState) : Rat := (s.routes.map (routeDist P)).sum

def vehiclesUsed (s : VState) : Nat := (s.routes.filter fun r => !r.isEmpty).length

/-- lateness of one visit -/
def late (P : Prob) (c : Nat) (a : Rat) : Rat :=
  match P.twEnd c with
  | none => 0
  | some e => if a > e then a - e else 0

def twViol (P : Prob) (s : VState) : Rat :=
  (s.routes.map fun r => ((r.zip (arrivals P r)).map fun ca => late P ca.1 ca.2).sum).sum

def load (P : Prob) (r : List Nat) : Rat := (r.map P.demand).sum

def capViol (P : Prob) (s : VState) : Rat :=
  (s.routes.zipIdx.map fun rv => match P.cap rv.2 with
    | none => 0
    | some k => if load P rv.1 > k then load P rv.1 - k else 0).sum

/-- arrival times of the vehicles visiting `c` (first occurrence per route, as `route.index`). -/
def visitTimes (P : Prob) (s : VState) (c : Nat) : List Rat :=
  s.routes.filterMap fun r => if r.contains c then (arrivals P r)[r.idxOf c]? else none

def maxL : List Rat → Rat
  | [] => 0
  | a :: as => as.foldl max a
def minL : List Rat → Rat
  | [] => 0
  | a :: as => as.foldl min a

def syncOne (P : Prob) (s : VState) (c : Nat) : Rat :=
  let ts := visitTimes P s c
  if ts.length < P.req c then ((P.req c - ts.length : Nat) : Rat) * Solvor.Gen.Sched.sync_missing
  else if ts.length > 1 then maxL ts - minL ts
  else 0

def syncViol (P : Prob) (s : VState) : Rat :=
  ((List.range' 1 P.n).map fun c => if P.req c > 1 then syncOne P s c else 0).sum

structure Weights where
  dw : Rat
  vw : Rat
  twp : Rat
  capp : Rat
  syncp : Rat
  unp : Rat

/-- Defaults of `vrp_objective` as the source has them now. -/
def Weights.default : Weights :=
  ⟨Solvor.Gen.Sched.distance_weight, Solvor.Gen.Sched.vehicle_weight, Solvor.Gen.Sched.tw_penalty,
   Solvor.Gen.Sched.capacity_penalty, Solvor.Gen.Sched.sync_penalty, Solvor.Gen.Sched.unassigned_penalty⟩

/-- `vrp_objective`: the documented weighted sum. -/
def objective (W : Weights) (P : Prob) (s : VState) : Rat :=
  W.dw * totalDist P s + W.vw * (vehiclesUsed s : Rat) + W.twp * twViol P s + W.capp * capViol P s
    + W.syncp * syncViol P s + W.unp * (s.unassigned.length : Rat)

def absR (x : Rat) : Rat := if x < 0 then -x else x

/-- The reported objective agrees with the exact weighted sum within `tol + rel·|exact|`. -/
def chkObjective (tol rel : Rat) (W : Weights) (P : Prob) (s : VState) (obj : Rat) : Bool :=
  closeTo (tol + rel * absR (objective W P s)) obj (objective W P s)

/-- The cached distance matrix is the Euclidean distance of the coordinates: symmetric, zero on
the diagonal, non-negative, and `d² = Δx² + Δy²` within the relative tolerance `rel`. -/
def chkEuclid (rel : Rat) (xy : Nat → Rat × Rat) (P : Prob) : Bool :=
  (List.range (P.n + 1)).all fun i => (List.range (P.n + 1)).all fun j =>
    let d := P.dist i j
    let q := ((xy i).1 - (xy j).1) * ((xy i).1 - (xy j).1) + ((xy i).2 - (xy j).2) * ((xy i).2 - (xy j).2)
    decide (0 ≤ d) && decide (d = P.dist j i) && closeTo (rel * q) (d * d) q

end Solvor.Sched
