import Solvor.Net.Conn
import Solvor.Net.Kcore
/-! Net: correctness of the low-link DFS mirror (`lowlink`) against `CutSpec` / `BridgeSpec`
(core Lean only).  Hoare-style: `Pre` ⇒ `Post` for `dfs`, with a fold invariant `FI` for the
`for w in adj[v]` loop. -/
namespace Solvor.Net

/-! ### reading the state -/

def DSt.seen (st : DSt) (x : Nat) : Prop := hasKey st.disc x = true
def DSt.dn (st : DSt) (x : Nat) : Nat := aget st.disc x 0
def DSt.lo (st : DSt) (x : Nat) : Nat := aget st.low x 0
def DSt.par (st : DSt) (x : Nat) : Option Nat := aget st.parent x none

/-- `(min, max)` as the code orders a bridge -/
def canon (v w : Nat) : Nat × Nat := if v < w then (v, w) else (w, v)

theorem canon_comm {v w : Nat} (h : v ≠ w) : canon v w = canon w v := by
  unfold canon
  by_cases h1 : v < w
  · have : ¬ w < v := by omega
    simp [h1, this]
  · have : w < v := by omega
    simp [h1, this]

theorem canon_eq {a b c d : Nat} (h : canon a b = canon c d) : (a = c ∧ b = d) ∨ (a = d ∧ b = c) := by
  unfold canon at h
  split at h <;> split at h <;> simp only [Prod.mk.injEq] at h
  · exact Or.inl h
  · exact Or.inr h
  · exact Or.inr ⟨h.2, h.1⟩
  · exact Or.inl ⟨h.2, h.1⟩

theorem hasKey_iff {α} (m : List (Nat × α)) (k : Nat) : hasKey m k = true ↔ ∃ p ∈ m, p.1 = k := by
  induction m with
  | nil => simp [hasKey]
  | cons a m ih =>
    obtain ⟨a1, a2⟩ := a
    simp only [hasKey, Bool.or_eq_true, decide_eq_true_eq, ih, List.mem_cons]
    constructor
    · rintro (h | ⟨p, hp, h⟩)
      · exact ⟨(a1, a2), Or.inl rfl, h⟩
      · exact ⟨p, Or.inr hp, h⟩
    · rintro ⟨p, hp | hp, h⟩
      · subst hp; exact Or.inl h
      · exact Or.inr ⟨p, hp, h⟩

/-- the active stack is a path of tree edges (top first) -/
def Chain (G : Graph) : List Nat → Prop
  | [] => True
  | [_] => True
  | a :: b :: r => G.A a b ∧ Chain G (b :: r)

theorem chain_conn (G : Graph) : ∀ (r : List Nat) (a : Nat), Chain G (a :: r) →
    ∀ b ∈ r, Conn (fun z => z ∈ a :: r) G.A a b := by
  intro r
  induction r with
  | nil => intro a _ b hb; cases hb
  | cons c r ih =>
    intro a h b hb
    have hac : Conn (fun z => z ∈ a :: c :: r) G.A a c :=
      Conn.single (by simp) (by simp) h.1
    rcases List.mem_cons.1 hb with rfl | hb
    · exact hac
    · exact hac.trans ((ih c h.2 b hb).mono (fun z hz => List.mem_cons_of_mem _ hz) (fun _ _ _ _ he => he))

theorem BridgeSpec_symm (G : Graph) {a b : Nat} (h : BridgeSpec G a b) : BridgeSpec G b a := by
  refine ⟨G.A_symm h.1, ?_⟩
  intro hc
  apply h.2
  have hsym : ∀ u w, (G.A u w ∧ EdgeNe b a u w) → (G.A w u ∧ EdgeNe b a w u) :=
    fun u w he => ⟨G.A_symm he.1, EdgeNe_symm he.2⟩
  refine (hc.symm hsym).mono (fun _ hz => hz) ?_
  intro u w _ _ he
  refine ⟨he.1, ?_⟩
  intro hx
  apply he.2
  rcases hx with ⟨h1, h2⟩ | ⟨h1, h2⟩
  · exact Or.inr ⟨h1, h2⟩
  · exact Or.inl ⟨h1, h2⟩

/-! ### invariants -/

/-- what holds of the global state between calls; `stk` = the active ancestors (top first),
`Excl a b` = the one oriented edge whose bridge decision is still pending -/
structure GI (G : Graph) (Excl : Nat → Nat → Prop) (st : DSt) (stk : List Nat) : Prop where
  mem    : ∀ x, st.seen x → x ∈ G.nodes
  inj    : ∀ x y, st.seen x → st.seen y → st.dn x = st.dn y → x = y
  lt     : ∀ x, st.seen x → st.dn x < st.time
  closed : ∀ x, st.seen x → x ∉ stk → ∀ u, G.A x u → st.seen u
  stkSeen : ∀ x ∈ stk, st.seen x
  chain  : Chain G stk
  apS    : ∀ x ∈ st.ap, CutSpec G x ∧ st.seen x
  apC    : ∀ x, st.seen x → x ∉ stk → CutSpec G x → x ∈ st.ap
  brS    : ∀ e ∈ st.br, ∃ a b, e = canon a b ∧ BridgeSpec G a b
  brC    : ∀ a b, BridgeSpec G a b → st.seen a → a ∉ stk → st.seen b → ¬ Excl a b → canon a b ∈ st.br
  brSeen : ∀ e ∈ st.br, ∃ a b, e = canon a b ∧ st.seen a ∧ st.seen b
  brNd   : st.br.Nodup

/-- number of undiscovered nodes (bounds the recursion depth) -/
def unseenCount (G : Graph) (st : DSt) : Nat := (G.nodes.filter fun x => !hasKey st.disc x).length

structure Pre (G : Graph) (st : DSt) (v : Nat) (stk : List Nat) : Prop where
  gi    : GI G (fun _ _ => False) st stk
  vmem  : v ∈ G.nodes
  fresh : ¬ st.seen v
  parv  : st.par v = stk.head?
  adjp  : ∀ p, stk.head? = some p → G.A v p

structure Post (G : Graph) (st st' : DSt) (v : Nat) (stk : List Nat) : Prop where
  frame : ∀ x, st.seen x → st'.seen x ∧ st'.dn x = st.dn x ∧ st'.lo x = st.lo x ∧ st'.par x = st.par x
  newv  : st'.seen v ∧ st'.dn v = st.time
  newge : ∀ x, st'.seen x → ¬ st.seen x → st.time ≤ st'.dn x
  conn  : ∀ x, st'.seen x → ¬ st.seen x → Conn (fun z => st'.seen z ∧ ¬ st.seen z) G.A v x
  gi    : GI G (fun a b => a = v ∧ stk.head? = some b) st' stk
  apNew : ∀ x ∈ st'.ap, x ∈ st.ap ∨ (st'.seen x ∧ ¬ st.seen x)
  apMono : ∀ x ∈ st.ap, x ∈ st'.ap
  brMono : ∀ e ∈ st.br, e ∈ st'.br
  brNew : ∀ e ∈ st'.br, e ∈ st.br ∨ ∃ a b, e = canon a b ∧ (st'.seen a ∧ ¬ st.seen a) ∧ (st'.seen b ∧ ¬ st.seen b)
  low0  : st'.lo v ≤ st'.dn v
  low1  : ∃ u, st'.seen u ∧ st'.lo v = st'.dn u ∧ (u = v ∨ ∃ x, (st'.seen x ∧ ¬ st.seen x) ∧ G.A x u ∧
            ¬ (x = v ∧ stk.head? = some u))
  low2  : ∀ x u, st'.seen x → ¬ st.seen x → G.A x u → st.seen u →
            ¬ (x = v ∧ stk.head? = some u) → st'.lo v ≤ st.dn u

/-- invariant of the `for w in adj[v]` loop: `Pd` = neighbours already handled, `cur` = current
state, `k` = `children` -/
structure FI (G : Graph) (st : DSt) (v : Nat) (stk : List Nat) (Pd : List Nat) (cur : DSt) (k : Nat) : Prop where
  frame : ∀ x, st.seen x → cur.seen x ∧ cur.dn x = st.dn x ∧ cur.lo x = st.lo x ∧ cur.par x = st.par x
  parv  : cur.par v = stk.head?
  seenv : cur.seen v ∧ cur.dn v = st.time
  newge : ∀ x, cur.seen x → ¬ st.seen x → st.time ≤ cur.dn x
  mem   : ∀ x, cur.seen x → x ∈ G.nodes
  inj   : ∀ x y, cur.seen x → cur.seen y → cur.dn x = cur.dn y → x = y
  lt    : ∀ x, cur.seen x → cur.dn x < cur.time
  closedM : ∀ x, cur.seen x → ¬ st.seen x → x ≠ v → ∀ u, G.A x u → cur.seen u
  pd    : ∀ w ∈ Pd, cur.seen w
  kids  : ∃ kids : List Nat, kids.length = k ∧ (∀ c ∈ kids, c ∈ Pd ∧ cur.seen c ∧ ¬ st.seen c) ∧
            ∀ x, cur.seen x → ¬ st.seen x → x ≠ v → ∃ c ∈ kids,
              Conn (fun z => (cur.seen z ∧ ¬ st.seen z) ∧ z ≠ v) G.A c x
  low0  : cur.lo v ≤ cur.dn v
  low1  : ∃ u, cur.seen u ∧ cur.lo v = cur.dn u ∧ (u = v ∨ ∃ x, (cur.seen x ∧ ¬ st.seen x) ∧ G.A x u ∧
            ¬ (x = v ∧ stk.head? = some u))
  low2  : ∀ x u, cur.seen x → ¬ st.seen x → G.A x u → st.seen u →
            ¬ (x = v ∧ stk.head? = some u) → (x = v → u ∈ Pd) → cur.lo v ≤ st.dn u
  apS   : ∀ x ∈ cur.ap, CutSpec G x ∧ cur.seen x
  apNew : ∀ x ∈ cur.ap, x ∈ st.ap ∨ (cur.seen x ∧ ¬ st.seen x)
  apMono : ∀ x ∈ st.ap, x ∈ cur.ap
  apC   : ∀ x, ((st.seen x ∧ x ∉ stk) ∨ ((cur.seen x ∧ ¬ st.seen x) ∧ x ≠ v)) → CutSpec G x → x ∈ cur.ap
  apvN  : ∀ p, stk.head? = some p → v ∉ cur.ap →
            ∀ w ∈ Pd, Conn (fun z => z ∈ G.nodes ∧ z ≠ v) G.A p w
  apvR  : stk = [] → (v ∈ cur.ap ↔ 2 ≤ k)
  brS   : ∀ e ∈ cur.br, ∃ a b, e = canon a b ∧ BridgeSpec G a b
  brMono : ∀ e ∈ st.br, e ∈ cur.br
  brC   : ∀ a b, BridgeSpec G a b → ((st.seen a ∧ a ∉ stk) ∨ ((cur.seen a ∧ ¬ st.seen a) ∧ a ≠ v)) →
            cur.seen b → canon a b ∈ cur.br
  brSeen : ∀ e ∈ cur.br, ∃ a b, e = canon a b ∧ cur.seen a ∧ cur.seen b
  brNd  : cur.br.Nodup
  brNew : ∀ e ∈ cur.br, e ∈ st.br ∨ ∃ a b, e = canon a b ∧ (cur.seen a ∧ ¬ st.seen a) ∧ (cur.seen b ∧ ¬ st.seen b)

/-! ### separation lemmas -/

theorem cutSpec_of_sep (G : Graph) (v n1 n2 : Nat) (S : Nat → Prop) (h1 : G.A v n1) (h2 : G.A v n2)
    (hs1 : S n1) (hs2 : ¬ S n2) (hcl : ∀ x u, S x → G.A x u → u ≠ v → S u) : CutSpec G v := by
  refine ⟨n1, n2, h1, h2, ?_⟩
  intro hc
  exact hs2 (hc.closed (fun u w hu _ hw he => hcl u w hu he hw.2) hs1)

theorem bridgeSpec_of_sep (G : Graph) (v w : Nat) (S : Nat → Prop) (h : G.A v w) (hsw : S w) (hsv : ¬ S v)
    (hcl : ∀ x u, S x → G.A x u → EdgeNe v w x u → S u) : BridgeSpec G v w := by
  refine ⟨h, ?_⟩
  intro hc
  have hsym : ∀ a b, (G.A a b ∧ EdgeNe v w a b) → (G.A b a ∧ EdgeNe v w b a) :=
    fun a b he => ⟨G.A_symm he.1, EdgeNe_symm he.2⟩
  exact hsv ((hc.symm hsym).closed (fun a b ha _ _ he => hcl a b ha he.1 he.2) hsw)

/-! ### field lemmas -/

theorem noteAp_fields (st : DSt) (c : Bool) (v : Nat) :
    (noteAp st c v).disc = st.disc ∧ (noteAp st c v).low = st.low ∧ (noteAp st c v).parent = st.parent ∧
    (noteAp st c v).br = st.br ∧ (noteAp st c v).time = st.time ∧
    (noteAp st c v).ap = if c then addSet st.ap v else st.ap := by
  unfold noteAp; split <;> simp_all

theorem noteBr_fields (st : DSt) (c : Bool) (e : Nat × Nat) :
    (noteBr st c e).disc = st.disc ∧ (noteBr st c e).low = st.low ∧ (noteBr st c e).parent = st.parent ∧
    (noteBr st c e).ap = st.ap ∧ (noteBr st c e).time = st.time ∧
    (noteBr st c e).br = if c then st.br ++ [e] else st.br := by
  unfold noteBr; split <;> simp_all

theorem seen_enter (st : DSt) (v x : Nat) : (dfsEnter st v).seen x ↔ v = x ∨ st.seen x := by
  unfold DSt.seen dfsEnter; simp only; exact hasKey_aset st.disc v x st.time

theorem dn_enter (st : DSt) (v x : Nat) : (dfsEnter st v).dn x = if v = x then st.time else st.dn x := by
  unfold DSt.dn dfsEnter; simp only; exact aget_aset st.disc v x st.time 0

theorem lo_enter (st : DSt) (v x : Nat) : (dfsEnter st v).lo x = if v = x then st.time else st.lo x := by
  unfold DSt.lo dfsEnter; simp only; exact aget_aset st.low v x st.time 0

theorem unseen_lt (G : Graph) (hn : G.nodes.Nodup) (st cur : DSt) (v : Nat) (hv : v ∈ G.nodes)
    (hf : ¬ st.seen v) (hc : cur.seen v) (hmono : ∀ x, st.seen x → cur.seen x) :
    unseenCount G cur < unseenCount G st := by
  unfold unseenCount
  have hvU : v ∈ G.nodes.filter fun x => !hasKey st.disc x := by
    rw [List.mem_filter]; refine ⟨hv, ?_⟩
    unfold DSt.seen at hf; simpa using hf
  have hnd : (G.nodes.filter fun x => !hasKey st.disc x).Nodup := hn.sublist List.filter_sublist
  have h1 := length_filter_remove _ hnd v hvU (fun _ => true)
  have ht : ∀ l : List Nat, l.filter (fun _ => true) = l := fun l => List.filter_eq_self.2 (fun _ _ => rfl)
  rw [ht, ht] at h1
  simp only [if_true] at h1
  have h2 : (G.nodes.filter fun x => !hasKey cur.disc x).length ≤
      ((G.nodes.filter fun x => !hasKey st.disc x).filter (· != v)).length := by
    apply nodup_subset_length (hn.sublist List.filter_sublist)
    intro x hx
    rw [List.mem_filter] at hx
    rw [List.mem_filter, List.mem_filter]
    have hxc : ¬ cur.seen x := by unfold DSt.seen; simpa using hx.2
    refine ⟨⟨hx.1, ?_⟩, ?_⟩
    · have : ¬ st.seen x := fun h => hxc (hmono x h)
      unfold DSt.seen at this; simpa using this
    · have : x ≠ v := fun e => hxc (e ▸ hc)
      simpa using this
  omega

/-! ### the loop invariant holds on entry -/

theorem fi_init (G : Graph) (st : DSt) (v : Nat) (stk : List Nat) (hpre : Pre G st v stk) :
    FI G st v stk [] (dfsEnter st v) 0 := by
  have hnew : ∀ x, (dfsEnter st v).seen x → ¬ st.seen x → x = v := by
    intro x hx hnx
    rcases (seen_enter st v x).1 hx with h | h
    · exact h.symm
    · exact absurd h hnx
  have hvx : ∀ x, st.seen x → ¬ v = x := fun x hx e => hpre.fresh (e ▸ hx)
  have hparE : ∀ x, (dfsEnter st v).par x = st.par x := fun _ => rfl
  have hapE : (dfsEnter st v).ap = st.ap := rfl
  have hbrE : (dfsEnter st v).br = st.br := rfl
  have htE : (dfsEnter st v).time = st.time + 1 := rfl
  have hdnO : ∀ x, st.seen x → (dfsEnter st v).dn x = st.dn x := by
    intro x hx; rw [dn_enter, if_neg (hvx x hx)]
  have hdnV : (dfsEnter st v).dn v = st.time := by rw [dn_enter, if_pos rfl]
  constructor
  · intro x hx
    refine ⟨(seen_enter st v x).2 (Or.inr hx), hdnO x hx, ?_, hparE x⟩
    rw [lo_enter, if_neg (hvx x hx)]
  · rw [hparE]; exact hpre.parv
  · exact ⟨(seen_enter st v v).2 (Or.inl rfl), hdnV⟩
  · intro x hx hnx
    rw [hnew x hx hnx, hdnV]; exact Nat.le_refl _
  · intro x hx
    rcases (seen_enter st v x).1 hx with h | h
    · exact h ▸ hpre.vmem
    · exact hpre.gi.mem x h
  · intro x y hx hy hxy
    rcases (seen_enter st v x).1 hx with h1 | h1 <;> rcases (seen_enter st v y).1 hy with h2 | h2
    · exact h1.symm.trans h2
    · subst h1
      rw [hdnV, hdnO y h2] at hxy
      have := hpre.gi.lt y h2; omega
    · subst h2
      rw [hdnV, hdnO x h1] at hxy
      have := hpre.gi.lt x h1; omega
    · rw [hdnO x h1, hdnO y h2] at hxy
      exact hpre.gi.inj x y h1 h2 hxy
  · intro x hx
    rw [htE]
    rcases (seen_enter st v x).1 hx with h | h
    · subst h; rw [hdnV]; omega
    · rw [hdnO x h]; have := hpre.gi.lt x h; omega
  · intro x hx hnx hxv; exact absurd (hnew x hx hnx) hxv
  · intro w hw; cases hw
  · refine ⟨[], rfl, by simp, ?_⟩
    intro x hx hnx hxv; exact absurd (hnew x hx hnx) hxv
  · rw [lo_enter, if_pos rfl, hdnV]; exact Nat.le_refl _
  · exact ⟨v, (seen_enter st v v).2 (Or.inl rfl), by rw [lo_enter, if_pos rfl, hdnV], Or.inl rfl⟩
  · intro x u hx hnx _ _ _ hpd
    have := hpd (hnew x hx hnx); cases this
  · intro x hx
    rw [hapE] at hx
    exact ⟨(hpre.gi.apS x hx).1, (seen_enter st v x).2 (Or.inr (hpre.gi.apS x hx).2)⟩
  · intro x hx; exact Or.inl hx
  · intro x hx; exact hx
  · intro x hx hc
    rcases hx with ⟨h1, h2⟩ | ⟨⟨h1, h2⟩, h3⟩
    · exact hpre.gi.apC x h1 h2 hc
    · exact absurd (hnew x h1 h2) h3
  · intro p _ _ w hw; cases hw
  · intro _
    constructor
    · intro h; exact absurd (hpre.gi.apS v h).2 hpre.fresh
    · intro h; omega
  · intro e he; exact hpre.gi.brS e he
  · intro e he; exact he
  · intro a b hb ha hsb
    rcases ha with ⟨h1, h2⟩ | ⟨⟨h1, h2⟩, h3⟩
    · rw [hbrE]
      apply hpre.gi.brC a b hb h1 h2 _ (fun h => h)
      exact hpre.gi.closed a h1 h2 b hb.1
    · exact absurd (hnew a h1 h2) h3
  · intro e he
    obtain ⟨a, b, h1, h2, h3⟩ := hpre.gi.brSeen e he
    exact ⟨a, b, h1, (seen_enter st v a).2 (Or.inr h2), (seen_enter st v b).2 (Or.inr h3)⟩
  · exact hpre.gi.brNd
  · intro e he; exact Or.inl he

/-! ### a neighbour that is already discovered -/

theorem stk_conn (G : Graph) (st : DSt) (v : Nat) (stk : List Nat) (hpre : Pre G st v stk)
    (p : Nat) (hp : stk.head? = some p) (w : Nat) (hw : w ∈ stk) :
    Conn (fun z => z ∈ G.nodes ∧ z ≠ v) G.A p w := by
  cases stk with
  | nil => cases hw
  | cons a r =>
    simp only [List.head?_cons, Option.some.injEq] at hp
    subst hp
    have hmono : ∀ z, z ∈ a :: r → z ∈ G.nodes ∧ z ≠ v := by
      intro z hz
      have hs := hpre.gi.stkSeen z hz
      exact ⟨hpre.gi.mem z hs, fun e => hpre.fresh (e ▸ hs)⟩
    rcases List.mem_cons.1 hw with rfl | hw
    · exact Conn.refl _
    · exact (chain_conn G r a hpre.gi.chain w hw).mono hmono (fun _ _ _ _ he => he)

/-- an old node with a neighbour that was undiscovered at `st` is on the stack -/
theorem old_on_stack (G : Graph) (st : DSt) (v : Nat) (stk : List Nat) (hpre : Pre G st v stk)
    (u x : Nat) (hu : st.seen u) (hux : G.A u x) (hx : ¬ st.seen x) : u ∈ stk :=
  Classical.byContradiction fun hn => hx (hpre.gi.closed u hu hn x hux)

theorem fi_step_seen (G : Graph) (st : DSt) (v : Nat) (stk : List Nat) (hpre : Pre G st v stk)
    (Pd : List Nat) (cur : DSt) (k : Nat) (hfi : FI G st v stk Pd cur k) (w : Nat) (hvw : G.A v w)
    (hws : cur.seen w) (L : List (Nat × Nat))
    (hLo : ∀ x, x ≠ v → aget L x 0 = cur.lo x) (hLv : aget L v 0 ≤ cur.lo v)
    (hL1 : aget L v 0 = cur.lo v ∨ (aget L v 0 = cur.dn w ∧ stk.head? ≠ some w))
    (hL2 : stk.head? ≠ some w → aget L v 0 ≤ cur.dn w) :
    FI G st v stk (Pd ++ [w]) { cur with low := L } k := by
  have hwv : w ≠ v := (G.A_ne hvw).symm
  have hloO : ∀ x, x ≠ v → ({ cur with low := L } : DSt).lo x = cur.lo x := hLo
  constructor
  · intro x hx
    obtain ⟨h1, h2, h3, h4⟩ := hfi.frame x hx
    refine ⟨h1, h2, ?_, h4⟩
    rw [← h3]; exact hloO x (fun e => hpre.fresh (e ▸ hx))
  · exact hfi.parv
  · exact hfi.seenv
  · exact hfi.newge
  · exact hfi.mem
  · exact hfi.inj
  · exact hfi.lt
  · exact hfi.closedM
  · intro x hx
    rcases List.mem_append.1 hx with hx | hx
    · exact hfi.pd x hx
    · simp only [List.mem_singleton] at hx; subst hx; exact hws
  · obtain ⟨kids, h1, h2, h3⟩ := hfi.kids
    exact ⟨kids, h1, fun c hc => ⟨List.mem_append_left _ (h2 c hc).1, (h2 c hc).2⟩, h3⟩
  · exact Nat.le_trans hLv hfi.low0
  · rcases hL1 with h | ⟨h, hne⟩
    · obtain ⟨u, hus, hu, hrest⟩ := hfi.low1
      exact ⟨u, hus, h.trans hu, hrest⟩
    · exact ⟨w, hws, h, Or.inr ⟨v, ⟨hfi.seenv.1, hpre.fresh⟩, hvw, fun hc => hne hc.2⟩⟩
  · intro x u hx hnx hxu hu hex hpd
    by_cases hc : x = v ∧ u = w
    · obtain ⟨rfl, rfl⟩ := hc
      have := hL2 (fun h => hex ⟨rfl, h⟩)
      rw [(hfi.frame u hu).2.1] at this
      exact this
    · apply Nat.le_trans hLv
      apply hfi.low2 x u hx hnx hxu hu hex
      intro hxv
      rcases List.mem_append.1 (hpd hxv) with h | h
      · exact h
      · simp only [List.mem_singleton] at h
        exact absurd ⟨hxv, h⟩ hc
  · exact hfi.apS
  · exact hfi.apNew
  · exact hfi.apMono
  · exact hfi.apC
  · intro p hp hnap x hx
    rcases List.mem_append.1 hx with hx | hx
    · exact hfi.apvN p hp hnap x hx
    · simp only [List.mem_singleton] at hx; subst hx
      by_cases hso : st.seen x
      · exact stk_conn G st v stk hpre p hp x (old_on_stack G st v stk hpre x v hso (G.A_symm hvw) hpre.fresh)
      · obtain ⟨kids, _, h2, h3⟩ := hfi.kids
        obtain ⟨c, hc, hcx⟩ := h3 x hws hso hwv
        exact (hfi.apvN p hp hnap c (h2 c hc).1).trans
          (hcx.mono (fun z hz => ⟨hfi.mem z hz.1.1, hz.2⟩) (fun _ _ _ _ he => he))
  · exact hfi.apvR
  · exact hfi.brS
  · exact hfi.brMono
  · exact hfi.brC
  · exact hfi.brSeen
  · exact hfi.brNd
  · exact hfi.brNew

/-! ### an undiscovered neighbour: the recursive call -/

theorem child_pre (G : Graph) (st : DSt) (v : Nat) (stk : List Nat) (hpre : Pre G st v stk)
    (Pd : List Nat) (cur : DSt) (k : Nat) (hfi : FI G st v stk Pd cur k) (w : Nat) (hvw : G.A v w)
    (hwn : ¬ cur.seen w) :
    Pre G { cur with parent := aset cur.parent w (some v) } w (v :: stk) := by
  constructor
  · constructor
    · exact hfi.mem
    · exact hfi.inj
    · exact hfi.lt
    · intro x hx hxs u hxu
      have hxv : x ≠ v := fun e => hxs (e ▸ List.mem_cons_self)
      have hxstk : x ∉ stk := fun h => hxs (List.mem_cons_of_mem _ h)
      by_cases hso : st.seen x
      · exact (hfi.frame u (hpre.gi.closed x hso hxstk u hxu)).1
      · exact hfi.closedM x hx hso hxv u hxu
    · intro x hx
      rcases List.mem_cons.1 hx with rfl | hx
      · exact hfi.seenv.1
      · exact (hfi.frame x (hpre.gi.stkSeen x hx)).1
    · cases hstk : stk with
      | nil => trivial
      | cons p r =>
        refine ⟨hpre.adjp p (by rw [hstk]; rfl), ?_⟩
        rw [← hstk]; exact hpre.gi.chain
    · exact hfi.apS
    · intro x hx hxs hc
      have hxv : x ≠ v := fun e => hxs (e ▸ List.mem_cons_self)
      have hxstk : x ∉ stk := fun h => hxs (List.mem_cons_of_mem _ h)
      by_cases hso : st.seen x
      · exact hfi.apC x (Or.inl ⟨hso, hxstk⟩) hc
      · exact hfi.apC x (Or.inr ⟨⟨hx, hso⟩, hxv⟩) hc
    · exact hfi.brS
    · intro a b hb ha has hbs _
      have hav : a ≠ v := fun e => has (e ▸ List.mem_cons_self)
      have hastk : a ∉ stk := fun h => has (List.mem_cons_of_mem _ h)
      by_cases hso : st.seen a
      · exact hfi.brC a b hb (Or.inl ⟨hso, hastk⟩) hbs
      · exact hfi.brC a b hb (Or.inr ⟨⟨ha, hso⟩, hav⟩) hbs
    · exact hfi.brSeen
    · exact hfi.brNd
  · exact (G.A_mem hvw).2
  · exact hwn
  · show aget (aset cur.parent w (some v)) w none = (v :: stk).head?
    rw [aget_aset, if_pos rfl]; rfl
  · intro p hp
    simp only [List.head?_cons, Option.some.injEq] at hp
    subst hp; exact G.A_symm hvw

theorem fi_step_child (G : Graph) (st : DSt) (v : Nat) (stk : List Nat) (hpre : Pre G st v stk)
    (Pd : List Nat) (cur : DSt) (k : Nat) (hfi : FI G st v stk Pd cur k) (hPd : ∀ x ∈ Pd, G.A v x)
    (w : Nat) (hvw : G.A v w) (hwn : ¬ cur.seen w) (st2 : DSt)
    (hpost : Post G { cur with parent := aset cur.parent w (some v) } st2 w (v :: stk))
    (st5 : DSt) (isAp : Bool)
    (h5disc : st5.disc = st2.disc) (h5par : st5.parent = st2.parent) (h5time : st5.time = st2.time)
    (h5low : st5.low = aset st2.low v (min (st2.lo v) (st2.lo w)))
    (h5ap : st5.ap = if isAp then addSet st2.ap v else st2.ap)
    (h5br : st5.br = if decide (st2.lo w > st2.dn v) then st2.br ++ [canon v w] else st2.br)
    (hApN : ∀ p, stk.head? = some p → (isAp = true ↔ st2.lo w ≥ st2.dn v))
    (hApR : stk = [] → (isAp = true ↔ k + 1 ≥ 2)) :
    FI G st v stk (Pd ++ [w]) st5 (k + 1) := by
  -- reading st5 through st2
  have hs5 : ∀ x, st5.seen x ↔ st2.seen x := fun x => by unfold DSt.seen; rw [h5disc]
  have hd5 : ∀ x, st5.dn x = st2.dn x := fun x => by unfold DSt.dn; rw [h5disc]
  have hp5 : ∀ x, st5.par x = st2.par x := fun x => by unfold DSt.par; rw [h5par]
  have hl5 : ∀ x, st5.lo x = if v = x then min (st2.lo v) (st2.lo w) else st2.lo x := fun x => by
    unfold DSt.lo; rw [h5low, aget_aset]; rfl
  -- reading st2 through cur (cur1 differs from cur in `parent[w]` only)
  have hfr : ∀ x, cur.seen x → st2.seen x ∧ st2.dn x = cur.dn x ∧ st2.lo x = cur.lo x ∧ st2.par x = cur.par x := by
    intro x hx
    obtain ⟨h1, h2, h3, h4⟩ := hpost.frame x hx
    refine ⟨h1, h2, h3, ?_⟩
    rw [h4]
    show aget (aset cur.parent w (some v)) x none = aget cur.parent x none
    rw [aget_aset, if_neg (fun (e : w = x) => hwn (e ▸ hx))]
  have hwv : w ≠ v := (G.A_ne hvw).symm
  have hdv : st2.dn v = st.time := by rw [(hfr v hfi.seenv.1).2.1]; exact hfi.seenv.2
  have hlov : st2.lo v = cur.lo v := (hfr v hfi.seenv.1).2.2.1
  have htime : st.time < cur.time := by have := hfi.lt v hfi.seenv.1; rw [hfi.seenv.2] at this; exact this
  have hNge : ∀ x, st2.seen x → ¬ cur.seen x → st.time < st2.dn x := by
    intro x hx hnx
    have : cur.time ≤ st2.dn x := hpost.newge x hx hnx
    omega
  have hso : ∀ x, st.seen x → cur.seen x := fun x hx => (hfi.frame x hx).1
  have hstkO : ∀ x ∈ stk, st.seen x := hpre.gi.stkSeen
  have hnotstk : ∀ x, ¬ st.seen x → x ∉ stk := fun x hx h => hx (hstkO x h)
  have hNnot : ∀ x, st2.seen x → ¬ cur.seen x → x ∉ v :: stk := by
    intro x _ hnx h
    rcases List.mem_cons.1 h with rfl | h
    · exact hnx hfi.seenv.1
    · exact hnx (hso x (hstkO x h))
  -- an already discovered neighbour of a node discovered by the call is `v` or on the stack
  have hNold : ∀ x u, st2.seen x → ¬ cur.seen x → G.A x u → cur.seen u → u = v ∨ (u ∈ stk ∧ st.seen u) := by
    intro x u _ hnx hxu hu
    by_cases huv : u = v
    · exact Or.inl huv
    · right
      by_cases huo : st.seen u
      · refine ⟨Classical.byContradiction fun hn => ?_, huo⟩
        exact hnx (hso x (hpre.gi.closed u huo hn x (G.A_symm hxu)))
      · exact absurd (hfi.closedM u hu huo huv x (G.A_symm hxu)) hnx
  have hNclosed : ∀ x u, st2.seen x → ¬ cur.seen x → G.A x u → st2.seen u :=
    fun x u hx hnx hxu => hpost.gi.closed x hx (hNnot x hx hnx) u hxu
  have hNv : ∀ x, st2.seen x → ¬ cur.seen x → x ≠ v := fun x _ hnx e => hnx (e ▸ hfi.seenv.1)
  have hlow2c : ∀ x u, st2.seen x → ¬ cur.seen x → G.A x u → cur.seen u → ¬ (x = w ∧ u = v) →
      st2.lo w ≤ cur.dn u := by
    intro x u hx hnx hxu hu hex
    apply hpost.low2 x u hx hnx hxu hu
    rintro ⟨h1, h2⟩
    simp only [List.head?_cons, Option.some.injEq] at h2
    exact hex ⟨h1, h2.symm⟩
  have hwN : st2.seen w ∧ ¬ cur.seen w := ⟨hpost.newv.1, hwn⟩
  have hdnw : st.time < st2.dn w := hNge w hwN.1 hwN.2
  -- soundness of the two decisions
  have hcutN : ∀ p, stk.head? = some p → st2.lo w ≥ st2.dn v → CutSpec G v := by
    intro p hp hge
    have hpstk : p ∈ stk := by
      cases stk with
      | nil => cases hp
      | cons a r => simp only [List.head?_cons, Option.some.injEq] at hp; subst hp; exact List.mem_cons_self
    apply cutSpec_of_sep G v w p (fun z => st2.seen z ∧ ¬ cur.seen z) hvw (hpre.adjp p hp) hwN
    · intro h; exact h.2 (hso p (hstkO p hpstk))
    · intro x u hx hxu huv
      refine ⟨hNclosed x u hx.1 hx.2 hxu, ?_⟩
      intro hu
      rcases hNold x u hx.1 hx.2 hxu hu with h | ⟨_, huo⟩
      · exact huv h
      · have h1 := hlow2c x u hx.1 hx.2 hxu hu (fun h => huv h.2)
        rw [(hfi.frame u huo).2.1] at h1
        have h2 := hpre.gi.lt u huo
        omega
  have hcutR : stk = [] → k + 1 ≥ 2 → CutSpec G v := by
    intro hnil hk
    obtain ⟨kids, hlen, hkids, _⟩ := hfi.kids
    cases kids with
    | nil => simp at hlen; omega
    | cons c1 _ =>
      have hc1 := hkids c1 List.mem_cons_self
      apply cutSpec_of_sep G v c1 w (fun z => cur.seen z ∧ z ≠ v) (hPd c1 hc1.1) hvw
        ⟨hc1.2.1, (G.A_ne (hPd c1 hc1.1)).symm⟩
      · intro h; exact hwn h.1
      · intro x u hx hxu huv
        refine ⟨?_, huv⟩
        by_cases hxo : st.seen x
        · exact hso u (hpre.gi.closed x hxo (by rw [hnil]; simp) u hxu)
        · exact hfi.closedM x hx.1 hxo hx.2 u hxu
  have hbrS : st2.lo w > st2.dn v → BridgeSpec G v w := by
    intro hgt
    apply bridgeSpec_of_sep G v w (fun z => st2.seen z ∧ ¬ cur.seen z) hvw hwN
    · intro h; exact h.2 hfi.seenv.1
    · intro x u hx hxu hne
      refine ⟨hNclosed x u hx.1 hx.2 hxu, ?_⟩
      intro hu
      have h1 := hlow2c x u hx.1 hx.2 hxu hu (fun h => hne (Or.inr h))
      rcases hNold x u hx.1 hx.2 hxu hu with h | ⟨_, huo⟩
      · subst h
        rw [← (hfr u hfi.seenv.1).2.1] at h1; omega
      · rw [(hfi.frame u huo).2.1] at h1
        have h2 := hpre.gi.lt u huo
        omega
  -- the low-link of the child is attained
  obtain ⟨u0, hu0s, hu0, hu0w⟩ := hpost.low1
  -- the witness is an old node whenever the low-link is at most `disc[v]`
  have hwit : st2.lo w ≤ st2.dn v → ∃ x, (st2.seen x ∧ ¬ cur.seen x) ∧ G.A x u0 ∧ ¬ (x = w ∧ u0 = v) ∧
      cur.seen u0 ∧ (u0 = v ∨ (u0 ∈ stk ∧ st.seen u0 ∧ st2.dn u0 < st.time)) := by
    intro hle
    rcases hu0w with rfl | ⟨x, hx, hxu, hex⟩
    · omega
    · have hex' : ¬ (x = w ∧ u0 = v) := by
        rintro ⟨h1, h2⟩
        exact hex ⟨h1, by simp [h2]⟩
      have hcu : cur.seen u0 := by
        apply Classical.byContradiction
        intro hn
        have := hNge u0 hu0s hn
        omega
      refine ⟨x, hx, hxu, hex', hcu, ?_⟩
      rcases hNold x u0 hx.1 hx.2 hxu hcu with h | ⟨h1, h2⟩
      · exact Or.inl h
      · right
        refine ⟨h1, h2, ?_⟩
        rw [(hfr u0 hcu).2.1, (hfi.frame u0 h2).2.1]
        exact hpre.gi.lt u0 h2
  have hNmono : ∀ z, (st2.seen z ∧ ¬ cur.seen z) → z ∈ G.nodes ∧ z ≠ v :=
    fun z hz => ⟨hpost.gi.mem z hz.1, hNv z hz.1 hz.2⟩
  constructor
  · -- frame
    intro x hx
    have hxc := hso x hx
    obtain ⟨h1, h2, h3, h4⟩ := hfr x hxc
    obtain ⟨_, g2, g3, g4⟩ := hfi.frame x hx
    refine ⟨(hs5 x).2 h1, by rw [hd5, h2, g2], ?_, by rw [hp5, h4, g4]⟩
    rw [hl5, if_neg (fun (e : v = x) => hpre.fresh (e ▸ hx)), h3, g3]
  · rw [hp5, (hfr v hfi.seenv.1).2.2.2]; exact hfi.parv
  · exact ⟨(hs5 v).2 (hfr v hfi.seenv.1).1, by rw [hd5]; exact hdv⟩
  · intro x hx hnx
    rw [hd5]
    by_cases hxc : cur.seen x
    · rw [(hfr x hxc).2.1]; exact hfi.newge x hxc hnx
    · exact Nat.le_of_lt (hNge x ((hs5 x).1 hx) hxc)
  · intro x hx; exact hpost.gi.mem x ((hs5 x).1 hx)
  · intro x y hx hy hxy
    rw [hd5, hd5] at hxy
    exact hpost.gi.inj x y ((hs5 x).1 hx) ((hs5 y).1 hy) hxy
  · intro x hx
    rw [hd5, h5time]; exact hpost.gi.lt x ((hs5 x).1 hx)
  · intro x hx hnx hxv u hxu
    apply (hs5 u).2
    apply hpost.gi.closed x ((hs5 x).1 hx) _ u hxu
    intro h
    rcases List.mem_cons.1 h with h | h
    · exact hxv h
    · exact hnx (hstkO x h)
  · intro x hx
    rcases List.mem_append.1 hx with hx | hx
    · exact (hs5 x).2 (hfr x (hfi.pd x hx)).1
    · simp only [List.mem_singleton] at hx; subst hx; exact (hs5 x).2 hwN.1
  · -- kids
    obtain ⟨kids, hlen, hkids, hcov⟩ := hfi.kids
    refine ⟨kids ++ [w], by simp [hlen], ?_, ?_⟩
    · intro c hc
      rcases List.mem_append.1 hc with hc | hc
      · obtain ⟨h1, h2, h3⟩ := hkids c hc
        exact ⟨List.mem_append_left _ h1, (hs5 c).2 (hfr c h2).1, h3⟩
      · simp only [List.mem_singleton] at hc; subst hc
        exact ⟨by simp, (hs5 c).2 hwN.1, fun h => hwn (hso c h)⟩
    · intro x hx hnx hxv
      by_cases hxc : cur.seen x
      · obtain ⟨c, hc, hcx⟩ := hcov x hxc hnx hxv
        refine ⟨c, List.mem_append_left _ hc, hcx.mono ?_ (fun _ _ _ _ he => he)⟩
        intro z hz
        exact ⟨⟨(hs5 z).2 (hfr z hz.1.1).1, hz.1.2⟩, hz.2⟩
      · refine ⟨w, by simp, (hpost.conn x ((hs5 x).1 hx) hxc).mono ?_ (fun _ _ _ _ he => he)⟩
        intro z hz
        exact ⟨⟨(hs5 z).2 hz.1, fun h => hz.2 (hso z h)⟩, hNv z hz.1 hz.2⟩
  · -- low0
    rw [hl5, if_pos rfl, hd5, hlov, (hfr v hfi.seenv.1).2.1]
    exact Nat.le_trans (Nat.min_le_left _ _) hfi.low0
  · -- low1
    rw [hl5, if_pos rfl]
    by_cases hmin : st2.lo v ≤ st2.lo w
    · rw [Nat.min_eq_left hmin, hlov]
      obtain ⟨u, hus, hu, hrest⟩ := hfi.low1
      refine ⟨u, (hs5 u).2 (hfr u hus).1, by rw [hd5, (hfr u hus).2.1]; exact hu, ?_⟩
      rcases hrest with h | ⟨x, hx, hxu, hex⟩
      · exact Or.inl h
      · exact Or.inr ⟨x, ⟨(hs5 x).2 (hfr x hx.1).1, hx.2⟩, hxu, hex⟩
    · rw [Nat.min_eq_right (by omega)]
      refine ⟨u0, (hs5 u0).2 hu0s, by rw [hd5]; exact hu0, ?_⟩
      right
      rcases hu0w with rfl | ⟨x, hx, hxu, _⟩
      · refine ⟨v, ⟨(hs5 v).2 (hfr v hfi.seenv.1).1, hpre.fresh⟩, hvw, ?_⟩
        rintro ⟨_, h⟩
        have : u0 ∈ stk := by
          cases stk with
          | nil => cases h
          | cons a r => simp only [List.head?_cons, Option.some.injEq] at h; subst h; exact List.mem_cons_self
        exact hwn (hso u0 (hstkO u0 this))
      · exact ⟨x, ⟨(hs5 x).2 hx.1, fun h => hx.2 (hso x h)⟩, hxu, fun h => hNv x hx.1 hx.2 h.1⟩
  · -- low2
    intro x u hx hnx hxu hu hex hpd
    rw [hl5, if_pos rfl]
    by_cases hxc : cur.seen x
    · apply Nat.le_trans (Nat.min_le_left _ _)
      rw [hlov]
      apply hfi.low2 x u hxc hnx hxu hu hex
      intro hxv
      rcases List.mem_append.1 (hpd hxv) with h | h
      · exact h
      · simp only [List.mem_singleton] at h
        subst h; exact absurd (hso u hu) hwn
    · apply Nat.le_trans (Nat.min_le_right _ _)
      have := hlow2c x u ((hs5 x).1 hx) hxc hxu (hso u hu) (fun h => hpre.fresh (h.2 ▸ hu))
      rw [(hfi.frame u hu).2.1] at this
      exact this
  · -- apS
    intro x hx
    rw [h5ap] at hx
    have hold : x ∈ st2.ap → CutSpec G x ∧ st5.seen x :=
      fun h => ⟨(hpost.gi.apS x h).1, (hs5 x).2 (hpost.gi.apS x h).2⟩
    split at hx
    · rename_i hflag
      rcases mem_addSet.1 hx with h | rfl
      · exact hold h
      · refine ⟨?_, (hs5 x).2 (hfr x hfi.seenv.1).1⟩
        cases hstk : stk.head? with
        | none =>
          have hnil : stk = [] := List.head?_eq_none_iff.1 hstk
          exact hcutR hnil ((hApR hnil).1 hflag)
        | some p => exact hcutN p hstk ((hApN p hstk).1 hflag)
    · exact hold hx
  · -- apNew
    intro x hx
    rw [h5ap] at hx
    have hold : x ∈ st2.ap → x ∈ st.ap ∨ (st5.seen x ∧ ¬ st.seen x) := by
      intro h
      rcases hpost.apNew x h with h | h
      · rcases hfi.apNew x h with h | h
        · exact Or.inl h
        · exact Or.inr ⟨(hs5 x).2 (hfr x h.1).1, h.2⟩
      · exact Or.inr ⟨(hs5 x).2 h.1, fun h' => h.2 (hso x h')⟩
    split at hx
    · rcases mem_addSet.1 hx with h | rfl
      · exact hold h
      · exact Or.inr ⟨(hs5 x).2 (hfr x hfi.seenv.1).1, hpre.fresh⟩
    · exact hold hx
  · -- apMono
    intro x hx
    have : x ∈ st2.ap := hpost.apMono x (hfi.apMono x hx)
    rw [h5ap]; split
    · exact mem_addSet.2 (Or.inl this)
    · exact this
  · -- apC
    intro x hx hc
    have h2 : x ∈ st2.ap := by
      apply hpost.gi.apC x _ _ hc
      · rcases hx with ⟨h1, _⟩ | ⟨⟨h1, _⟩, _⟩
        · exact (hfr x (hso x h1)).1
        · exact (hs5 x).1 h1
      · intro h
        rcases List.mem_cons.1 h with h | h
        · rcases hx with ⟨h1, _⟩ | ⟨_, h3⟩
          · exact hpre.fresh (h ▸ h1)
          · exact h3 h
        · rcases hx with ⟨_, h2⟩ | ⟨⟨_, h2⟩, _⟩
          · exact h2 h
          · exact h2 (hstkO x h)
    rw [h5ap]; split
    · exact mem_addSet.2 (Or.inl h2)
    · exact h2
  · -- apvN
    intro p hp hnap x hx
    have hflag : isAp = false := by
      cases hq : isAp with
      | false => rfl
      | true => exfalso; apply hnap; rw [h5ap, hq]; exact mem_addSet.2 (Or.inr rfl)
    have hnap2 : v ∉ st2.ap := by
      intro h; apply hnap; rw [h5ap, hflag]; exact h
    have hnapc : v ∉ cur.ap := fun h => hnap2 (hpost.apMono v h)
    rcases List.mem_append.1 hx with hx | hx
    · exact hfi.apvN p hp hnapc x hx
    · simp only [List.mem_singleton] at hx; subst hx
      have hlt : st2.lo x ≤ st2.dn v := by
        have : ¬ (st2.lo x ≥ st2.dn v) := fun h => by
          have := (hApN p hp).2 h; rw [hflag] at this; cases this
        omega
      obtain ⟨y, hy, hyu, _, hcu, hcase⟩ := hwit hlt
      have hlt' : st2.lo x < st2.dn v := by
        have : ¬ (st2.lo x ≥ st2.dn v) := fun h => by
          have := (hApN p hp).2 h; rw [hflag] at this; cases this
        omega
      rcases hcase with h | ⟨hustk, huo, _⟩
      · subst h; omega
      · have h1 := stk_conn G st v stk hpre p hp u0 hustk
        have hym := hNmono y hy
        have hum : u0 ∈ G.nodes ∧ u0 ≠ v := ⟨hpre.gi.mem u0 huo, fun e => hpre.fresh (e ▸ huo)⟩
        have h2 : Conn (fun z => z ∈ G.nodes ∧ z ≠ v) G.A u0 y := Conn.single hum hym (G.A_symm hyu)
        have h3 : Conn (fun z => z ∈ G.nodes ∧ z ≠ v) G.A x y :=
          (hpost.conn y hy.1 hy.2).mono hNmono (fun _ _ _ _ he => he)
        exact (h1.trans h2).trans (h3.symm (fun _ _ he => G.A_symm he))
  · -- apvR
    intro hnil
    have hiff := hApR hnil
    rw [h5ap]
    constructor
    · intro h
      split at h
      · rename_i hflag; exact hiff.1 hflag
      · rename_i hflag
        rcases hpost.apNew v h with h' | h'
        · have := (hfi.apvR hnil).1 h'; omega
        · exact absurd hfi.seenv.1 h'.2
    · intro h
      rw [if_pos (hiff.2 h)]; exact mem_addSet.2 (Or.inr rfl)
  · -- brS
    intro e he
    rw [h5br] at he
    split at he
    · rename_i hflag
      rcases List.mem_append.1 he with h | h
      · exact hpost.gi.brS e h
      · simp only [List.mem_singleton] at h
        exact ⟨v, w, h, hbrS (by simpa using hflag)⟩
    · exact hpost.gi.brS e he
  · -- brMono
    intro e he
    have : e ∈ st2.br := hpost.brMono e (hfi.brMono e he)
    rw [h5br]; split
    · exact List.mem_append_left _ this
    · exact this
  · -- brC
    intro a b hb ha hbs
    have hin : ∀ e, e ∈ st2.br → e ∈ st5.br := by
      intro e he; rw [h5br]; split
      · exact List.mem_append_left _ he
      · exact he
    have has2 : st2.seen a := by
      rcases ha with ⟨h1, _⟩ | ⟨⟨h1, _⟩, _⟩
      · exact (hfr a (hso a h1)).1
      · exact (hs5 a).1 h1
    have hans : a ∉ v :: stk := by
      intro h
      rcases List.mem_cons.1 h with h | h
      · rcases ha with ⟨h1, _⟩ | ⟨_, h3⟩
        · exact hpre.fresh (h ▸ h1)
        · exact h3 h
      · rcases ha with ⟨_, h2⟩ | ⟨⟨_, h2⟩, _⟩
        · exact h2 h
        · exact h2 (hstkO a h)
    by_cases hex : a = w ∧ b = v
    · obtain ⟨rfl, rfl⟩ := hex
      rw [canon_comm hwv, h5br]
      have hgt : st2.lo a > st2.dn b := by
        apply Classical.byContradiction
        intro hng
        have hle : st2.lo a ≤ st2.dn b := by omega
        obtain ⟨y, hy, hyu, hyex, hcu, hcase⟩ := hwit hle
        apply hb.2
        -- a path from `a` to `b` that avoids the tree edge
        have hE : ∀ z z', (st2.seen z ∧ ¬ cur.seen z) → (st2.seen z' ∧ ¬ cur.seen z') → EdgeNe a b z z' := by
          intro z z' hz hz'
          rintro (⟨_, h⟩ | ⟨h, _⟩)
          · exact hNv z' hz'.1 hz'.2 h
          · exact hNv z hz.1 hz.2 h
        have h1 : Conn (fun z => z ∈ G.nodes) (fun u w => G.A u w ∧ EdgeNe a b u w) a y :=
          (hpost.conn y hy.1 hy.2).mono (fun z hz => (hNmono z hz).1)
            (fun z z' hz hz' he => ⟨he, hE z z' hz hz'⟩)
        have hyn := (hNmono y hy)
        have hstep : Conn (fun z => z ∈ G.nodes) (fun u w => G.A u w ∧ EdgeNe a b u w) y u0 := by
          refine Conn.single hyn.1 (G.A_mem hyu).2 ⟨hyu, ?_⟩
          rintro (h | h)
          · exact hyex h
          · exact hyn.2 h.1
        rcases hcase with h | ⟨hustk, huo, _⟩
        · subst h; exact h1.trans hstep
        · -- along the stack back to `b`
          cases hstk : stk with
          | nil => rw [hstk] at hustk; cases hustk
          | cons p r =>
            have hp : stk.head? = some p := by rw [hstk]; rfl
            have hpa : G.A b p := hpre.adjp p hp
            have hstkne : ∀ z ∈ stk, z ≠ a ∧ z ≠ b := fun z hz =>
              ⟨fun e => hwn (hso a (e ▸ hstkO z hz)), fun e => hpre.fresh (e ▸ hstkO z hz)⟩
            have hpu : Conn (fun z => z ∈ G.nodes) (fun u w => G.A u w ∧ EdgeNe a b u w) p u0 := by
              have hpstk : p ∈ stk := by rw [hstk]; exact List.mem_cons_self
              by_cases hpu0 : u0 = p
              · subst hpu0; exact Conn.refl _
              · have hur : u0 ∈ r := by
                  rw [hstk] at hustk
                  rcases List.mem_cons.1 hustk with h | h
                  · exact absurd h hpu0
                  · exact h
                have hch : Chain G (p :: r) := by rw [← hstk]; exact hpre.gi.chain
                refine (chain_conn G r p hch u0 hur).mono ?_ ?_
                · intro z hz; exact hpre.gi.mem z (hstkO z (by rw [hstk]; exact hz))
                · intro z z' hz hz' he
                  refine ⟨he, ?_⟩
                  have hz1 := hstkne z (by rw [hstk]; exact hz)
                  have hz2 := hstkne z' (by rw [hstk]; exact hz')
                  rintro (⟨h, _⟩ | ⟨h, _⟩)
                  · exact hz1.1 h
                  · exact hz1.2 h
            have hpb : Conn (fun z => z ∈ G.nodes) (fun u w => G.A u w ∧ EdgeNe a b u w) p b := by
              have hp1 := hstkne p (by rw [hstk]; exact List.mem_cons_self)
              refine Conn.single (G.A_mem hpa).2 (G.A_mem hpa).1 ⟨G.A_symm hpa, ?_⟩
              rintro (⟨h, _⟩ | ⟨h, _⟩)
              · exact hp1.1 h
              · exact hp1.2 h
            have hsym : ∀ z z', (G.A z z' ∧ EdgeNe a b z z') → (G.A z' z ∧ EdgeNe a b z' z) :=
              fun z z' he => ⟨G.A_symm he.1, EdgeNe_symm he.2⟩
            exact ((h1.trans hstep).trans (hpu.symm hsym)).trans hpb
      rw [if_pos (by simpa using hgt)]
      exact List.mem_append_right _ (by simp)
    · apply hin
      apply hpost.gi.brC a b hb has2 hans ((hs5 b).1 hbs)
      rintro ⟨h1, h2⟩
      simp only [List.head?_cons, Option.some.injEq] at h2
      exact hex ⟨h1, h2.symm⟩
  · -- brSeen
    intro e he
    rw [h5br] at he
    have hold : e ∈ st2.br → ∃ a b, e = canon a b ∧ st5.seen a ∧ st5.seen b := by
      intro h
      obtain ⟨a, b, h1, h2, h3⟩ := hpost.gi.brSeen e h
      exact ⟨a, b, h1, (hs5 a).2 h2, (hs5 b).2 h3⟩
    split at he
    · rcases List.mem_append.1 he with h | h
      · exact hold h
      · simp only [List.mem_singleton] at h
        exact ⟨v, w, h, (hs5 v).2 (hfr v hfi.seenv.1).1, (hs5 w).2 hwN.1⟩
    · exact hold he
  · -- brNd
    rw [h5br]
    split
    · rw [List.nodup_append]
      refine ⟨hpost.gi.brNd, by simp, ?_⟩
      intro e he e' he' heq
      simp only [List.mem_singleton] at he'
      subst he'
      subst heq
      rcases hpost.brNew _ he with h | ⟨a, b, h1, h2, h3⟩
      · obtain ⟨a, b, h1, h2, h3⟩ := hfi.brSeen _ h
        rcases canon_eq h1 with ⟨_, e2⟩ | ⟨_, e2⟩
        · exact hwn (e2 ▸ h3)
        · exact hwn (e2 ▸ h2)
      · rcases canon_eq h1 with ⟨e1, _⟩ | ⟨e1, _⟩
        · exact h2.2 (e1 ▸ hfi.seenv.1)
        · exact h3.2 (e1 ▸ hfi.seenv.1)
    · exact hpost.gi.brNd
  · -- brNew
    intro e he
    rw [h5br] at he
    have hold : e ∈ st2.br → e ∈ st.br ∨ ∃ a b, e = canon a b ∧ (st5.seen a ∧ ¬ st.seen a) ∧ (st5.seen b ∧ ¬ st.seen b) := by
      intro h
      rcases hpost.brNew e h with h | ⟨a, b, h1, h2, h3⟩
      · rcases hfi.brNew e h with h | ⟨a, b, h1, h2, h3⟩
        · exact Or.inl h
        · exact Or.inr ⟨a, b, h1, ⟨(hs5 a).2 (hfr a h2.1).1, h2.2⟩, ⟨(hs5 b).2 (hfr b h3.1).1, h3.2⟩⟩
      · exact Or.inr ⟨a, b, h1, ⟨(hs5 a).2 h2.1, fun h' => h2.2 (hso a h')⟩, ⟨(hs5 b).2 h3.1, fun h' => h3.2 (hso b h')⟩⟩
    split at he
    · rcases List.mem_append.1 he with h | h
      · exact hold h
      · simp only [List.mem_singleton] at h
        exact Or.inr ⟨v, w, h, ⟨(hs5 v).2 (hfr v hfi.seenv.1).1, hpre.fresh⟩, ⟨(hs5 w).2 hwN.1, fun h' => hwn (hso w h')⟩⟩
    · exact hold he

/-! ### after the loop -/

theorem fi_final (G : Graph) (st : DSt) (v : Nat) (stk : List Nat) (hpre : Pre G st v stk)
    (cur : DSt) (k : Nat) (hfi : FI G st v stk (G.sadj v) cur k) : Post G st cur v stk := by
  have hAsym : ∀ a b, G.A a b → G.A b a := fun _ _ h => G.A_symm h
  have hMn : ∀ z, ((cur.seen z ∧ ¬ st.seen z) ∧ z ≠ v) → z ∈ G.nodes ∧ z ≠ v :=
    fun z hz => ⟨hfi.mem z hz.1.1, hz.2⟩
  constructor
  · exact hfi.frame
  · exact hfi.seenv
  · exact hfi.newge
  · intro x hx hnx
    by_cases hxv : x = v
    · subst hxv; exact Conn.refl _
    · obtain ⟨kids, _, hk, hcov⟩ := hfi.kids
      obtain ⟨c, hc, hcx⟩ := hcov x hx hnx hxv
      have hc' := hk c hc
      exact (Conn.single ⟨hfi.seenv.1, hpre.fresh⟩ ⟨hc'.2.1, hc'.2.2⟩ hc'.1).trans
        (hcx.mono (fun z hz => hz.1) (fun _ _ _ _ he => he))
  · constructor
    · exact hfi.mem
    · exact hfi.inj
    · exact hfi.lt
    · intro x hx hxs u hxu
      by_cases hso : st.seen x
      · exact (hfi.frame u (hpre.gi.closed x hso hxs u hxu)).1
      · by_cases hxv : x = v
        · subst hxv; exact hfi.pd u hxu
        · exact hfi.closedM x hx hso hxv u hxu
    · intro x hx; exact (hfi.frame x (hpre.gi.stkSeen x hx)).1
    · exact hpre.gi.chain
    · exact hfi.apS
    · intro x hx hxs hc
      by_cases hso : st.seen x
      · exact hfi.apC x (Or.inl ⟨hso, hxs⟩) hc
      · by_cases hxv : x = v
        · subst hxv
          apply Classical.byContradiction
          intro hnap
          obtain ⟨n1, n2, h1, h2, hsep⟩ := hc
          apply hsep
          cases hstk : stk.head? with
          | some p =>
            have c1 := hfi.apvN p hstk hnap n1 h1
            have c2 := hfi.apvN p hstk hnap n2 h2
            exact (c1.symm hAsym).trans c2
          | none =>
            have hnil : stk = [] := List.head?_eq_none_iff.1 hstk
            have hk : ¬ 2 ≤ k := fun h => hnap ((hfi.apvR hnil).2 h)
            obtain ⟨kids, hlen, _, hcov⟩ := hfi.kids
            have hnew : ∀ n, G.A x n → (cur.seen n ∧ ¬ st.seen n) ∧ n ≠ x := by
              intro n hn
              refine ⟨⟨hfi.pd n hn, ?_⟩, (G.A_ne hn).symm⟩
              intro hns
              have := old_on_stack G st x stk hpre n x hns (G.A_symm hn) hpre.fresh
              rw [hnil] at this; cases this
            obtain ⟨c1, hc1, k1⟩ := hcov n1 (hnew n1 h1).1.1 (hnew n1 h1).1.2 (hnew n1 h1).2
            obtain ⟨c2, hc2, k2⟩ := hcov n2 (hnew n2 h2).1.1 (hnew n2 h2).1.2 (hnew n2 h2).2
            have hceq : c1 = c2 := by
              match kids, hlen, hc1, hc2 with
              | [], _, h, _ => cases h
              | [c], _, h1', h2' =>
                simp only [List.mem_singleton] at h1' h2'; rw [h1', h2']
              | _ :: _ :: _, hl, _, _ => simp at hl; omega
            subst hceq
            exact ((k1.symm hAsym).trans k2).mono hMn (fun _ _ _ _ he => he)
        · exact hfi.apC x (Or.inr ⟨⟨hx, hso⟩, hxv⟩) hc
    · exact hfi.brS
    · intro a b hb ha has hbs hex
      by_cases hso : st.seen a
      · exact hfi.brC a b hb (Or.inl ⟨hso, has⟩) hbs
      · by_cases hav : a = v
        · subst hav
          by_cases hbo : st.seen b
          · exfalso
            apply hb.2
            have hbstk := old_on_stack G st a stk hpre b a hbo (G.A_symm hb.1) hpre.fresh
            cases hstk : stk with
            | nil => rw [hstk] at hbstk; cases hbstk
            | cons p r =>
              have hp : stk.head? = some p := by rw [hstk]; rfl
              have hpb : p ≠ b := fun e => hex ⟨rfl, by rw [hp, e]⟩
              have hstkne : ∀ z ∈ stk, z ≠ a := fun z hz e => hpre.fresh (e ▸ hpre.gi.stkSeen z hz)
              have hpa := hpre.adjp p hp
              have h1 : Conn (fun z => z ∈ G.nodes) (fun u w => G.A u w ∧ EdgeNe a b u w) a p := by
                refine Conn.single (G.A_mem hpa).1 (G.A_mem hpa).2 ⟨hpa, ?_⟩
                rintro (⟨_, h⟩ | ⟨h, _⟩)
                · exact hpb h
                · exact (G.A_ne hb.1) h
              have hbr : b ∈ r := by
                rw [hstk] at hbstk
                rcases List.mem_cons.1 hbstk with h | h
                · exact absurd h.symm hpb
                · exact h
              have hch : Chain G (p :: r) := by rw [← hstk]; exact hpre.gi.chain
              refine h1.trans ((chain_conn G r p hch b hbr).mono ?_ ?_)
              · intro z hz; exact hpre.gi.mem z (hpre.gi.stkSeen z (by rw [hstk]; exact hz))
              · intro z z' hz hz' he
                refine ⟨he, ?_⟩
                have hz1 := hstkne z (by rw [hstk]; exact hz)
                have hz2 := hstkne z' (by rw [hstk]; exact hz')
                rintro (⟨h, _⟩ | ⟨_, h⟩)
                · exact hz1 h
                · exact hz2 h
          · have hbv : b ≠ a := (G.A_ne hb.1).symm
            have := hfi.brC b a (BridgeSpec_symm G hb) (Or.inr ⟨⟨hbs, hbo⟩, hbv⟩) hfi.seenv.1
            rw [canon_comm hbv.symm]; exact this
        · exact hfi.brC a b hb (Or.inr ⟨⟨ha, hso⟩, hav⟩) hbs
    · exact hfi.brSeen
    · exact hfi.brNd
  · exact hfi.apNew
  · exact hfi.apMono
  · exact hfi.brMono
  · exact hfi.brNew
  · exact hfi.low0
  · exact hfi.low1
  · intro x u hx hnx hxu hu hex
    exact hfi.low2 x u hx hnx hxu hu hex (fun e => e ▸ hxu)

/-! ### the recursion -/

theorem unseen_pos (G : Graph) (st : DSt) (v : Nat) (hv : v ∈ G.nodes) (hf : ¬ st.seen v) :
    0 < unseenCount G st := by
  unfold unseenCount
  apply List.length_pos_of_mem (a := v)
  rw [List.mem_filter]
  exact ⟨hv, by unfold DSt.seen at hf; simpa using hf⟩

theorem dfs_post (G : Graph) (hn : G.nodes.Nodup) : ∀ (fuel v : Nat) (st : DSt) (stk : List Nat),
    Pre G st v stk → unseenCount G st ≤ fuel → Post G st (dfs G.sadj fuel v st) v stk := by
  intro fuel
  induction fuel with
  | zero =>
    intro v st stk hpre hle
    have := unseen_pos G st v hpre.vmem hpre.fresh
    omega
  | succ f ih =>
    intro v st stk hpre hle
    unfold dfs
    -- the loop
    have loop : ∀ (Rm Pd : List Nat) (acc : DSt × Nat), Pd ++ Rm = G.sadj v →
        FI G st v stk Pd acc.1 acc.2 →
        FI G st v stk (G.sadj v) (Rm.foldl (dfsStep (dfs G.sadj f) v) acc).1
          (Rm.foldl (dfsStep (dfs G.sadj f) v) acc).2 := by
      intro Rm
      induction Rm with
      | nil =>
        intro Pd acc hsplit hfi
        rw [List.append_nil] at hsplit
        rw [← hsplit]; exact hfi
      | cons w Rm ihR =>
        intro Pd acc hsplit hfi
        rw [List.foldl_cons]
        have hwadj : G.A v w := by
          show w ∈ G.sadj v
          rw [← hsplit]; simp
        have hPd : ∀ x ∈ Pd, G.A v x := by
          intro x hx
          show x ∈ G.sadj v
          rw [← hsplit]; exact List.mem_append_left _ hx
        apply ihR (Pd ++ [w]) _ (by rw [List.append_assoc]; exact hsplit)
        obtain ⟨cur, k⟩ := acc
        simp only at hfi
        unfold dfsStep
        simp only
        split
        · -- undiscovered: recursive call
          rename_i hunseen
          have hwn : ¬ cur.seen w := by
            unfold DSt.seen; simpa using hunseen
          have hcpre := child_pre G st v stk hpre Pd cur k hfi w hwadj hwn
          have hfuel : unseenCount G { cur with parent := aset cur.parent w (some v) } ≤ f := by
            have := unseen_lt G hn st cur v hpre.vmem hpre.fresh hfi.seenv.1 (fun x hx => (hfi.frame x hx).1)
            have e : unseenCount G { cur with parent := aset cur.parent w (some v) } = unseenCount G cur := rfl
            omega
          have hpost := ih w _ (v :: stk) hcpre hfuel
          generalize dfs G.sadj f w { cur with parent := aset cur.parent w (some v) } = st2 at hpost
          have hparv : st2.par v = stk.head? := by
            have h4 := (hpost.frame v hfi.seenv.1).2.2.2
            rw [h4]
            show aget (aset cur.parent w (some v)) v none = _
            rw [aget_aset, if_neg (fun (e : w = v) => (G.A_ne hwadj) e.symm)]
            exact hfi.parv
          obtain ⟨a1, a2, a3, a4, a5, a6⟩ := noteAp_fields
            { st2 with low := aset st2.low v (min (aget st2.low v 0) (aget st2.low w 0)) }
            (match aget st2.parent v none with
              | none => decide (k + 1 ≥ 2)
              | some _ => decide (aget st2.low w 0 ≥ aget st2.disc v 0)) v
          obtain ⟨b1, b2, b3, b4, b5, b6⟩ := noteBr_fields
            (noteAp { st2 with low := aset st2.low v (min (aget st2.low v 0) (aget st2.low w 0)) }
              (match aget st2.parent v none with
                | none => decide (k + 1 ≥ 2)
                | some _ => decide (aget st2.low w 0 ≥ aget st2.disc v 0)) v)
            (decide (aget st2.low w 0 > aget st2.disc v 0)) (if v < w then (v, w) else (w, v))
          refine fi_step_child G st v stk hpre Pd cur k hfi hPd w hwadj hwn st2 hpost _
            (match aget st2.parent v none with
              | none => decide (k + 1 ≥ 2)
              | some _ => decide (aget st2.low w 0 ≥ aget st2.disc v 0))
            (b1.trans a1) (b3.trans a3) (b5.trans a5) (b2.trans a2) (b4.trans a6)
            (b6.trans (by rw [a4]; rfl)) ?_ ?_
          · intro p hp
            have : aget st2.parent v none = some p := by
              have := hparv; unfold DSt.par at this; rw [this, hp]
            rw [this]
            simp only [decide_eq_true_eq]
            rfl
          · intro hnil
            have : aget st2.parent v none = none := by
              have := hparv; unfold DSt.par at this; rw [this, hnil]; rfl
            rw [this]
            simp only [decide_eq_true_eq]
        · rename_i hseen
          have hws : cur.seen w := by
            unfold DSt.seen
            cases hq : hasKey cur.disc w with
            | true => rfl
            | false => rw [hq] at hseen; simp at hseen
          split
          · -- back edge (not the tree edge to the parent)
            rename_i hne
            have hpne : stk.head? ≠ some w := by
              intro h
              have : aget cur.parent v none = some w := by
                have := hfi.parv; unfold DSt.par at this; rw [this, h]
              rw [this] at hne; simp at hne
            refine fi_step_seen G st v stk hpre Pd cur k hfi w hwadj hws _ ?_ ?_ ?_ ?_
            · intro x hx
              rw [aget_aset, if_neg (fun (e : v = x) => hx e.symm)]; rfl
            · rw [aget_aset, if_pos rfl]; exact Nat.min_le_left _ _
            · rw [aget_aset, if_pos rfl]
              by_cases hm : aget cur.low v 0 ≤ aget cur.disc w 0
              · left; rw [Nat.min_eq_left hm]; rfl
              · right; exact ⟨by rw [Nat.min_eq_right (by omega)]; rfl, hpne⟩
            · intro _
              rw [aget_aset, if_pos rfl]; exact Nat.min_le_right _ _
          · -- the tree edge seen from the child side
            rename_i hne
            have hpe : stk.head? = some w := by
              have h1 : aget cur.parent v none = some w := by
                cases hq : (aget cur.parent v none != some w) with
                | true => exact absurd hq hne
                | false => simpa using hq
              have := hfi.parv; unfold DSt.par at this; rw [← this, h1]
            exact fi_step_seen G st v stk hpre Pd cur k hfi w hwadj hws cur.low
              (fun _ _ => rfl) (Nat.le_refl _) (Or.inl rfl) (fun h => absurd hpe h)
    have hfinal := loop (G.sadj v) [] (dfsEnter st v, 0) (List.nil_append _) (fi_init G st v stk hpre)
    exact fi_final G st v stk hpre _ _ hfinal

/-! ### the outer loop -/

theorem unseen_le (G : Graph) (st : DSt) : unseenCount G st ≤ G.nodes.length :=
  List.length_filter_le _ _

theorem outer_inv (G : Graph) (hn : G.nodes.Nodup) : ∀ (l : List Nat) (st : DSt),
    (∀ v ∈ l, v ∈ G.nodes) → GI G (fun _ _ => False) st [] →
    GI G (fun _ _ => False) (l.foldl (fun (st : DSt) v =>
        if hasKey st.disc v then st
        else dfs G.sadj (G.nodes.length + 1) v { st with parent := aset st.parent v none }) st) [] ∧
    (∀ x, (st.seen x ∨ x ∈ l) → (l.foldl (fun (st : DSt) v =>
        if hasKey st.disc v then st
        else dfs G.sadj (G.nodes.length + 1) v { st with parent := aset st.parent v none }) st).seen x) := by
  intro l
  induction l with
  | nil => intro st _ h; exact ⟨h, fun x hx => by rcases hx with h | h; exact h; cases h⟩
  | cons v l ih =>
    intro st hl hgi
    rw [List.foldl_cons]
    have hl' : ∀ x ∈ l, x ∈ G.nodes := fun x hx => hl x (List.mem_cons_of_mem _ hx)
    split
    · rename_i hs
      obtain ⟨h1, h2⟩ := ih st hl' hgi
      refine ⟨h1, ?_⟩
      intro x hx
      rcases hx with h | h
      · exact h2 x (Or.inl h)
      · rcases List.mem_cons.1 h with rfl | h
        · exact h2 x (Or.inl hs)
        · exact h2 x (Or.inr h)
    · rename_i hs
      have hfresh : ¬ st.seen v := hs
      have hpre : Pre G { st with parent := aset st.parent v none } v [] := by
        refine ⟨?_, hl v List.mem_cons_self, hfresh, ?_, ?_⟩
        · exact ⟨hgi.mem, hgi.inj, hgi.lt, hgi.closed, hgi.stkSeen, hgi.chain, hgi.apS, hgi.apC, hgi.brS, hgi.brC,
            hgi.brSeen, hgi.brNd⟩
        · show aget (aset st.parent v none) v none = none
          rw [aget_aset, if_pos rfl]
        · intro p hp; cases hp
      have hpost := dfs_post G hn (G.nodes.length + 1) v _ [] hpre
        (Nat.le_trans (unseen_le G _) (Nat.le_succ _))
      generalize dfs G.sadj (G.nodes.length + 1) v { st with parent := aset st.parent v none } = st' at hpost
      have hgi' : GI G (fun _ _ => False) st' [] :=
        ⟨hpost.gi.mem, hpost.gi.inj, hpost.gi.lt, hpost.gi.closed, hpost.gi.stkSeen, hpost.gi.chain,
         hpost.gi.apS, hpost.gi.apC, hpost.gi.brS,
         fun a b hb ha has hbs _ => hpost.gi.brC a b hb ha has hbs (fun h => by cases h.2),
         hpost.gi.brSeen, hpost.gi.brNd⟩
      obtain ⟨h1, h2⟩ := ih st' hl' hgi'
      refine ⟨h1, ?_⟩
      intro x hx
      rcases hx with h | h
      · exact h2 x (Or.inl (hpost.frame x h).1)
      · rcases List.mem_cons.1 h with rfl | h
        · exact h2 x (Or.inl hpost.newv.1)
        · exact h2 x (Or.inr h)

/-- the mirror returns exactly the vertices satisfying `CutSpec` and the canonical pairs of the edges
satisfying `BridgeSpec` -/
theorem lowlink_spec (G : Graph) (hn : G.nodes.Nodup) :
    (∀ x, x ∈ (lowlink G).1 ↔ CutSpec G x) ∧
    (∀ e, e ∈ (lowlink G).2 ↔ ∃ a b, e = canon a b ∧ BridgeSpec G a b) ∧ (lowlink G).2.Nodup := by
  unfold lowlink
  split
  · rename_i hle
    -- at most one node: no edge at all
    have hnoedge : ∀ a b, ¬ G.A a b := by
      intro a b hab
      have hm := G.A_mem hab
      have hne := G.A_ne hab
      cases hnodes : G.nodes with
      | nil => rw [hnodes] at hm; cases hm.1
      | cons c r =>
        cases r with
        | nil =>
          rw [hnodes] at hm
          simp only [List.mem_singleton] at hm
          exact hne (hm.1.trans hm.2.symm)
        | cons d r => rw [hnodes] at hle; simp at hle
    refine ⟨?_, ?_, List.nodup_nil⟩
    · intro x
      simp only [List.not_mem_nil, false_iff]
      rintro ⟨n1, _, h1, _⟩
      exact hnoedge x n1 h1
    · intro e
      simp only [List.not_mem_nil, false_iff]
      rintro ⟨a, b, _, hb⟩
      exact hnoedge a b hb.1
  · simp only
    have hinit : GI G (fun _ _ => False) ({} : DSt) [] := by
      have hno : ∀ x, ¬ ({} : DSt).seen x := fun x h => by simp [DSt.seen, hasKey] at h
      constructor
      · intro x h; exact absurd h (hno x)
      · intro x _ h; exact absurd h (hno x)
      · intro x h; exact absurd h (hno x)
      · intro x h; exact absurd h (hno x)
      · intro x h; cases h
      · trivial
      · intro x h; cases h
      · intro x h; exact absurd h (hno x)
      · intro e h; cases h
      · intro a _ _ h; exact absurd h (hno a)
      · intro e h; cases h
      · exact List.nodup_nil
    obtain ⟨hgi, hall⟩ := outer_inv G hn G.nodes {} (fun v hv => hv) hinit
    generalize G.nodes.foldl (fun (st : DSt) v =>
        if hasKey st.disc v then st
        else dfs G.sadj (G.nodes.length + 1) v { st with parent := aset st.parent v none }) {} = stF at hgi hall
    refine ⟨?_, ?_, hgi.brNd⟩
    · intro x
      constructor
      · intro hx; exact (hgi.apS x hx).1
      · intro hc
        have hc' := hc
        obtain ⟨n1, _, h1, _⟩ := hc'
        exact hgi.apC x (hall x (Or.inr (G.A_mem h1).1)) (by simp) hc
    · intro e
      constructor
      · intro he; exact hgi.brS e he
      · rintro ⟨a, b, rfl, hb⟩
        have hm := G.A_mem hb.1
        exact hgi.brC a b hb (hall a (Or.inr hm.1)) (by simp) (hall b (Or.inr hm.2)) (fun h => h)

end Solvor.Net
