import Solvor.Common.Proto
import Solvor.Net.Model
/-! Net: line-protocol handler.

request `["case", nodes, nbrs, k, damping, tol, maxIter, resolution, lvFuel, eps, implPR, implLV]`
  nodes      : node labels in the caller's iteration order (distinct naturals)
  nbrs       : neighbour list of each node (same order), labels possibly outside `nodes`
  k          : the level for `kcore(k)`
  damping, tol, resolution : `null` (use the default regenerated from /repo) or `[[num, den], bits]`
  maxIter    : `null` (default) or a positive integer
  lvFuel     : bound on Louvain's `while improved` passes in the mirror
  eps        : `[num, den]`, the absolute slack the property names (1e-9)
  implPR     : `null` or `[status, [[num, den], …]]` – implementation scores, exact, in node order
  implLV     : `null` or `[communities, [num, den]]` – implementation partition and reported modularity
reply
  `[defs, mirror, pr, prv, lv, lvv]`
  defs   = [compCount, cutVerticesDef, bridgesDef, coreNumDef per node, kcoreDef k]
  mirror = [cut vertices, bridges, core_number items, kcore(k)]   (mirrors, returned order)
  pr     = [status, iters, score bits per node, maxDiff bits]      (Float mirror)
  prv    = null | [prCheck verdict, nonneg, sum, residual, bound]   (verified checker on implPR)
  lv     = null | [communities, iters]                              (Float mirror; null = out of fuel)
  lvv    = null | [isPartition verdict, modularityDef, |reported − modularityDef| ≤ eps]
-/
namespace Solvor.Net
open Solvor.Proto
open Solvor.Gen (Status)

def ofPairs (l : List (Nat × Nat)) : Val := Val.arr (l.map fun p => Val.ofNats [p.1, p.2])

def fbits (x : Float) : Val := Val.int (Int.ofNat x.toBits.toNat)

/-- `null` ↦ default, `[[num, den], bits]` ↦ both readings of the same double -/
def scalar? (v : Val) (dq : Rat) (db : UInt64) : Option (Rat × Float) :=
  match v with
  | Val.null => some (dq, Float.ofBits db)
  | Val.arr [q, Val.int b] => (q.toRat?).map fun q => (q, Float.ofBits (UInt64.ofNat b.toNat))
  | _ => none

def mkGraph (nodes : List Nat) (nbrs : List (List Nat)) : Graph :=
  ⟨nodes, fun v => aget (nodes.zip nbrs) v []⟩

def handle (line : String) : String :=
  match request line with
  | some ("case", [nodes, nbrs, k, damping, tol, maxIter, resolution, lvFuel, eps, implPR, implLV]) =>
    match nodes.toNats?, nbrs.toNatss?, k.toNat?, scalar? damping Gen.Net.prDamping Gen.Net.prDamping_bits,
          scalar? tol Gen.Net.prTol Gen.Net.prTol_bits, maxIter.toOpt? Val.toNat?,
          scalar? resolution Gen.Net.lvResolution Gen.Net.lvResolution_bits, lvFuel.toNat?, eps.toRat? with
    | some nodes, some nbrs, some k, some (dq, df), some (tq, tf), some mi, some (γq, γf), some fuel, some eps =>
      let G := mkGraph nodes nbrs
      let mi := mi.getD Gen.Net.prMaxIter.toNat
      let defs := Val.arr [Val.int (compCount G.nodes G.arc), Val.ofNats (cutVerticesDef G),
        ofPairs (bridgesDef G), Val.ofNats (G.nodes.map (coreNumDef G)), Val.ofNats (kcoreDef G k)]
      let ll := lowlink G
      let mirror := Val.arr [Val.ofNats ll.1, ofPairs ll.2, ofPairs (kcoreMirror G),
        Val.ofNats (kcoreSetMirror G k)]
      let p := pagerank floatOps G df tf mi
      let pr := Val.arr [Val.str p.status.name, Val.int p.iters,
        Val.arr (G.nodes.map fun v => fbits (aget p.scores v 0.0)), fbits p.maxDiff]
      let prv := match implPR with
        | Val.arr [Val.str st, sc] =>
          match sc.toRats? with
          | some sc =>
            let s := fun v => aget (G.nodes.zip sc) v 0
            let n : Rat := (G.nodes.length : Nat)
            -- converged: ‖T p − p‖∞ ≤ d·n·tol (+ eps); MAX_ITER: no residual claim
            let bound := if st == "OPTIMAL" then dq * n * tq + eps else 2
            Val.arr [Val.bool (prCheck G dq s eps bound), Val.bool (G.nodes.all fun v => decide (0 ≤ s v)),
              Val.ofRat ((G.nodes.map s).sum), Val.ofRat (prResidual G dq s), Val.ofRat bound]
          | none => Val.null
        | _ => Val.null
      let lv := match louvain floatOps G γf fuel with
        | some o => Val.arr [Val.ofNatss o.comms, Val.int o.iters]
        | none => Val.null
      let lvv := match implLV with
        | Val.arr [cs, q] =>
          match cs.toNatss?, q.toRat? with
          | some cs, some q =>
            let md := modularityDef G γq cs
            Val.arr [Val.bool (isPartition G.nodes cs), Val.ofRat md, Val.bool (ratOps.abs (q - md) ≤ eps)]
          | _, _ => Val.null
        | _ => Val.null
      (Val.arr [defs, mirror, pr, prv, lv, lvv]).render
    | _, _, _, _, _, _, _, _, _ => err "bad arguments"
  | _ => err "bad request"

end Solvor.Net
