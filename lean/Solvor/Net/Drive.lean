import Solvor.Common.Proto
import Solvor.Net.Model
/-! Net: line-protocol handler. One request line in, one reply line out. -/
namespace Solvor.Net

def handle (line : String) : String := "unimplemented " ++ line

end Solvor.Net
