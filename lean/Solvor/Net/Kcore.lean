import Solvor.Net.Lemmas
/-! Net: the bucket-peeling mirror of `kcore_decomposition` computes the definitional core numbers
(helper lemmas for `kcore_peeling_correct`; core Lean only). -/
namespace Solvor.Net

/-! ### basics -/

theorem hasKey_aset {α} (m : List (Nat × α)) (k k' : Nat) (x : α) :
    hasKey (aset m k x) k' = true ↔ k = k' ∨ hasKey m k' = true := by
  induction m with
  | nil => simp [aset, hasKey]
  | cons p m ih =>
    obtain ⟨a, b⟩ := p
    simp only [aset]
    by_cases h : a = k
    · subst h; simp [hasKey]
    · simp only [if_neg h, hasKey, Bool.or_eq_true, decide_eq_true_eq, ih]
      constructor
      · rintro (h1 | h1 | h1)
        · exact Or.inr (Or.inl h1)
        · exact Or.inl h1
        · exact Or.inr (Or.inr h1)
      · rintro (h1 | h1 | h1)
        · exact Or.inr (Or.inl h1)
        · exact Or.inl h1
        · exact Or.inr (Or.inr h1)

theorem aget_map_self {α} (l : List Nat) (f : Nat → α) (d : α) {v : Nat} (hv : v ∈ l) :
    aget (l.map fun v => (v, f v)) v d = f v := by
  induction l with
  | nil => cases hv
  | cons a l ih =>
    simp only [List.map_cons, aget]
    by_cases h : a = v
    · subst h; simp
    · simp only [if_neg h]
      rcases List.mem_cons.1 hv with h' | h'
      · exact absurd h'.symm h
      · exact ih h'

/-- the undecided nodes -/
def und (G : Graph) (core : List (Nat × Nat)) : List Nat := G.nodes.filter fun w => !hasKey core w

theorem mem_und {G : Graph} {core : List (Nat × Nat)} {w : Nat} :
    w ∈ und G core ↔ w ∈ G.nodes ∧ hasKey core w = false := by
  simp [und]

theorem und_aset (G : Graph) (core : List (Nat × Nat)) (v k : Nat) :
    und G (aset core v k) = (und G core).filter (· != v) := by
  unfold und
  rw [List.filter_filter]
  apply List.filter_congr
  intro w _
  rw [Bool.eq_iff_iff]
  simp only [Bool.not_eq_true', Bool.and_eq_true, bne_iff_ne, ne_eq]
  constructor
  · intro h
    have h' : ¬ (hasKey (aset core v k) w = true) := by simp [h]
    rw [hasKey_aset] at h'
    exact ⟨fun hw => h' (Or.inl hw.symm), by
      cases hq : hasKey core w with
      | false => rfl
      | true => exact absurd (Or.inr hq) h'⟩
  · rintro ⟨h1, h2⟩
    cases hq : hasKey (aset core v k) w with
    | false => rfl
    | true =>
      rcases (hasKey_aset core v w k).1 hq with h | h
      · exact absurd h.symm h1
      · rw [h2] at h; cases h

theorem nodup_und (G : Graph) (hn : G.nodes.Nodup) (core : List (Nat × Nat)) : (und G core).Nodup :=
  hn.sublist List.filter_sublist

/-- symmetric adjacency without self loops, as a predicate on the second node -/
def nbp (G : Graph) (w x : Nat) : Bool := x != w && (G.arc w x || G.arc x w)

theorem degIn_eq (G : Graph) (S : List Nat) (w : Nat) : degIn G S w = (S.filter (nbp G w)).length := rfl

theorem nbp_comm (G : Graph) (w x : Nat) : nbp G w x = nbp G x w := by
  unfold nbp
  rw [Bool.or_comm]
  congr 1
  rw [Bool.eq_iff_iff]
  simp only [bne_iff_ne, ne_eq]
  exact ⟨fun h e => h e.symm, fun h e => h e.symm⟩

theorem mem_sadj_nbp (G : Graph) (v w : Nat) : w ∈ G.sadj v ↔ nbp G v w = true := by
  rw [mem_sadj]
  simp only [nbp, Bool.and_eq_true, bne_iff_ne, ne_eq, Bool.or_eq_true]
  constructor
  · rintro ⟨h1, h2⟩; exact ⟨fun h => h1 h.symm, h2⟩
  · rintro ⟨h1, h2⟩; exact ⟨fun h => h1 h.symm, h2⟩

theorem length_filter_remove (U : List Nat) (hU : U.Nodup) (v : Nat) (hv : v ∈ U) (p : Nat → Bool) :
    (U.filter p).length = ((U.filter (· != v)).filter p).length + (if p v then 1 else 0) := by
  induction U with
  | nil => cases hv
  | cons a U ih =>
    rw [List.nodup_cons] at hU
    by_cases hav : a = v
    · subst hav
      have hself : U.filter (· != a) = U := by
        rw [List.filter_eq_self]; intro x hx
        have : x ≠ a := fun h => hU.1 (h ▸ hx)
        simpa using this
      simp only [List.filter_cons, bne_self_eq_false, Bool.false_eq_true, if_false, hself]
      split <;> simp <;> omega
    · have hv' : v ∈ U := by
        rcases List.mem_cons.1 hv with h | h
        · exact absurd h.symm hav
        · exact h
      have hne : (a != v) = true := by simpa using hav
      have := ih hU.2 hv'
      simp only [List.filter_cons, hne, if_true]
      cases hp : p a
      · simp only [Bool.false_eq_true, if_false]; exact this
      · simp only [if_true, List.length_cons]; omega

theorem degIn_remove (G : Graph) (U : List Nat) (hU : U.Nodup) (v : Nat) (hv : v ∈ U) (w : Nat) :
    degIn G U w = degIn G (U.filter (· != v)) w + (if nbp G w v then 1 else 0) := by
  rw [degIn_eq, degIn_eq]; exact length_filter_remove U hU v hv _

theorem kcoreDef_nodup (G : Graph) (hn : G.nodes.Nodup) (k : Nat) : (kcoreDef G k).Nodup :=
  hn.sublist (peel_spec G k G.nodes.length G.nodes (Nat.le_refl _)).1

theorem kcoreDef_sub (G : Graph) (k : Nat) {x : Nat} (h : x ∈ kcoreDef G k) : x ∈ G.nodes :=
  (peel_spec G k G.nodes.length G.nodes (Nat.le_refl _)).1.subset h

theorem kcoreDef_deg (G : Graph) (k : Nat) {x : Nat} (h : x ∈ kcoreDef G k) :
    k ≤ degIn G (kcoreDef G k) x :=
  (peel_spec G k G.nodes.length G.nodes (Nat.le_refl _)).2.1 x h

theorem kcoreDef_max (G : Graph) (k : Nat) (T : List Nat) (hT : T.Nodup) (hs : ∀ v ∈ T, v ∈ G.nodes)
    (hd : ∀ v ∈ T, k ≤ degIn G T v) : ∀ v ∈ T, v ∈ kcoreDef G k :=
  (peel_spec G k G.nodes.length G.nodes (Nat.le_refl _)).2.2 T hT hs hd

/-- higher cores are nested in lower ones -/
theorem kcoreDef_anti (G : Graph) (hn : G.nodes.Nodup) {k k' : Nat} (h : k ≤ k') :
    ∀ x ∈ kcoreDef G k', x ∈ kcoreDef G k :=
  kcoreDef_max G k (kcoreDef G k') (kcoreDef_nodup G hn k') (fun _ hv => kcoreDef_sub G k' hv)
    (fun _ hv => Nat.le_trans h (kcoreDef_deg G k' hv))

/-! ### moving a node between buckets -/

theorem getD_move (b : List (List Nat)) (old nb w j : Nat) :
    (modAt (· ++ [w]) (modAt (·.erase w) b old) nb).getD j [] =
      if j = nb ∧ j < b.length then
        (if j = old ∧ j < b.length then (b.getD j []).erase w else b.getD j []) ++ [w]
      else (if j = old ∧ j < b.length then (b.getD j []).erase w else b.getD j []) := by
  simp only [getD_modAt, length_modAt]

theorem mem_move {b : List (List Nat)} (hnd : ∀ j, (b.getD j []).Nodup) {old nb w : Nat}
    (_hne : old ≠ nb) (hnb : nb < b.length) (hw : ∀ j, w ∈ b.getD j [] → j = old) (j x : Nat) :
    x ∈ (modAt (· ++ [w]) (modAt (·.erase w) b old) nb).getD j [] ↔
      (x ≠ w ∧ x ∈ b.getD j []) ∨ (x = w ∧ j = nb) := by
  rw [getD_move]
  have hb1 : ∀ y, y ∈ (if j = old ∧ j < b.length then (b.getD j []).erase w else b.getD j []) ↔
      (y ≠ w ∧ y ∈ b.getD j []) ∨ (y = w ∧ j ≠ old ∧ y ∈ b.getD j []) := by
    intro y
    split
    · rename_i h
      rw [(hnd j).mem_erase_iff]
      constructor
      · intro h'; exact Or.inl h'
      · rintro (h' | ⟨_, h2, _⟩)
        · exact h'
        · exact absurd h.1 h2
    · rename_i h
      by_cases hy : y = w
      · subst hy
        constructor
        · intro hm
          right
          refine ⟨rfl, ?_, hm⟩
          intro hjo
          apply h
          refine ⟨hjo, ?_⟩
          rcases Nat.lt_or_ge j b.length with hl | hl
          · exact hl
          · rw [getD_of_ge _ hl] at hm; cases hm
        · rintro (⟨h1, _⟩ | ⟨_, _, h3⟩)
          · exact absurd rfl h1
          · exact h3
      · simp [hy]
  split
  · rename_i h
    rw [List.mem_append, hb1, List.mem_singleton]
    constructor
    · rintro ((h1 | ⟨rfl, h2, h3⟩) | rfl)
      · exact Or.inl h1
      · exact absurd (hw j h3) h2
      · exact Or.inr ⟨rfl, h.1⟩
    · rintro (h1 | ⟨rfl, _⟩)
      · exact Or.inl (Or.inl h1)
      · exact Or.inr rfl
  · rename_i h
    rw [hb1]
    constructor
    · rintro (h1 | ⟨rfl, h2, h3⟩)
      · exact Or.inl h1
      · exact absurd (hw j h3) h2
    · rintro (h1 | ⟨rfl, h2⟩)
      · exact Or.inl h1
      · exact absurd ⟨h2, h2 ▸ hnb⟩ h

theorem nodup_move {b : List (List Nat)} (hnd : ∀ j, (b.getD j []).Nodup) {old nb w : Nat}
    (hne : old ≠ nb) (hw : ∀ j, w ∈ b.getD j [] → j = old) (j : Nat) :
    ((modAt (· ++ [w]) (modAt (·.erase w) b old) nb).getD j []).Nodup := by
  rw [getD_move]
  have hb1 : (if j = old ∧ j < b.length then (b.getD j []).erase w else b.getD j []).Nodup := by
    split
    · exact (hnd j).erase w
    · exact hnd j
  split
  · rename_i h
    rw [List.nodup_append]
    refine ⟨hb1, by simp, ?_⟩
    intro x hx y hy
    simp only [List.mem_singleton] at hy
    subst hy
    intro hxy; subst hxy
    have hjo : j ≠ old := fun e => hne (e.symm.trans h.1)
    simp only [hjo, false_and, if_false] at hx
    exact hjo (hw j hx)
  · exact hb1

/-! ### invariants of the peeling loop -/

/-- degree / bucket bookkeeping; `R` = neighbours of the node just removed that the inner `for`
loop has not visited yet (their stored degree still counts the removed node) -/
structure BInv (G : Graph) (maxd k : Nat) (R : List Nat) (st : KSt) : Prop where
  blen : st.buckets.length = maxd + 1
  deg  : ∀ w ∈ und G st.core,
    aget st.degree w 0 = max k (degIn G (und G st.core) w + (if w ∈ R then 1 else 0))
  dle  : ∀ w ∈ und G st.core, aget st.degree w 0 ≤ maxd
  bkt  : ∀ j w, w ∈ st.buckets.getD j [] ↔ (w ∈ und G st.core ∧ aget st.degree w 0 = j)
  bnd  : ∀ j, (st.buckets.getD j []).Nodup

/-- the body of the loop in `kRelax` -/
def relaxStep (k : Nat) (st : KSt) (w : Nat) : KSt :=
  if hasKey st.core w then st else
  let old := aget st.degree w 0
  if old > k then
    { st with buckets := modAt (· ++ [w]) (modAt (·.erase w) st.buckets old) (max k (old - 1)),
              degree := aset st.degree w (old - 1) }
  else st

theorem kRelax_eq (k : Nat) (ns : List Nat) (st : KSt) : kRelax k ns st = ns.foldl (relaxStep k) st := rfl

theorem relaxStep_core (k : Nat) (st : KSt) (w : Nat) :
    (relaxStep k st w).core = st.core ∧ (relaxStep k st w).iters = st.iters := by
  unfold relaxStep
  split
  · exact ⟨rfl, rfl⟩
  · simp only; split <;> exact ⟨rfl, rfl⟩

theorem relaxStep_inv (G : Graph) (maxd k : Nat) (R : List Nat) (st : KSt) (w : Nat)
    (h : BInv G maxd k (w :: R) st) (hwR : w ∉ R) (hw : w ∈ G.nodes) :
    BInv G maxd k R (relaxStep k st w) := by
  have hother : ∀ x, x ≠ w → ((x ∈ w :: R) ↔ x ∈ R) := by
    intro x hx; simp [hx]
  unfold relaxStep
  split
  · -- already decided: nothing changes
    rename_i hk
    have hwU : w ∉ und G st.core := fun hm => by
      have := (mem_und.1 hm).2; rw [hk] at this; cases this
    refine ⟨h.blen, ?_, h.dle, h.bkt, h.bnd⟩
    intro x hx
    have hxw : x ≠ w := fun e => hwU (e ▸ hx)
    rw [h.deg x hx]; simp only [hother x hxw]
  · rename_i hk
    have hwU : w ∈ und G st.core := mem_und.2 ⟨hw, by simpa using hk⟩
    have hdw := h.deg w hwU
    simp only [List.mem_cons, true_or, if_true] at hdw
    simp only
    split
    · -- the stored degree drops by one and the node moves one bucket down
      rename_i hgt
      have hold : aget st.degree w 0 = degIn G (und G st.core) w + 1 := by omega
      have hkd : k ≤ degIn G (und G st.core) w := by omega
      have hnb : max k (aget st.degree w 0 - 1) = aget st.degree w 0 - 1 := by omega
      rw [hnb]
      have hne : aget st.degree w 0 ≠ aget st.degree w 0 - 1 := by omega
      have hlen : aget st.degree w 0 - 1 < st.buckets.length := by
        have := h.dle w hwU; rw [h.blen]; omega
      have honly : ∀ j, w ∈ st.buckets.getD j [] → j = aget st.degree w 0 :=
        fun j hj => ((h.bkt j w).1 hj).2.symm
      constructor
      · simp only [length_modAt, h.blen]
      · intro x hx
        simp only [aget_aset]
        by_cases hxw : w = x
        · subst hxw
          simp only [if_true, hwR, if_false]; omega
        · simp only [if_neg hxw]
          rw [h.deg x hx]; simp only [hother x (fun e => hxw e.symm)]
      · intro x hx
        simp only [aget_aset]
        split
        · have := h.dle w hwU; omega
        · exact h.dle x hx
      · intro j x
        simp only
        rw [mem_move h.bnd hne hlen honly, aget_aset]
        by_cases hxw : x = w
        · subst hxw
          simp only [ne_eq, not_true_eq_false, false_and, true_and, false_or, if_true]
          constructor
          · intro hj; exact ⟨hwU, hj.symm⟩
          · intro hj; exact hj.2.symm
        · have hwx : ¬ w = x := fun e => hxw e.symm
          simp only [ne_eq, hxw, not_false_eq_true, true_and, false_and, or_false, if_neg hwx]
          exact h.bkt j x
      · intro j
        exact nodup_move h.bnd hne honly j
    · -- stored degree already at the current level: unchanged
      rename_i hle
      refine ⟨h.blen, ?_, h.dle, h.bkt, h.bnd⟩
      intro x hx
      by_cases hxw : x = w
      · subst hxw
        simp only [hwR, if_false]; omega
      · rw [h.deg x hx]; simp only [hother x hxw]

theorem kRelax_inv (G : Graph) (maxd k : Nat) : ∀ (ns : List Nat) (st : KSt), ns.Nodup →
    (∀ w ∈ ns, w ∈ G.nodes) → BInv G maxd k ns st →
    BInv G maxd k [] (kRelax k ns st) ∧ (kRelax k ns st).core = st.core ∧
      (kRelax k ns st).iters = st.iters := by
  intro ns
  induction ns with
  | nil => intro st _ _ h; exact ⟨h, rfl, rfl⟩
  | cons w ns ih =>
    intro st hnd hsub h
    rw [List.nodup_cons] at hnd
    rw [kRelax_eq, List.foldl_cons, ← kRelax_eq]
    have hstep := relaxStep_inv G maxd k ns st w h hnd.1 (hsub w List.mem_cons_self)
    obtain ⟨h1, h2, h3⟩ := ih (relaxStep k st w) hnd.2 (fun x hx => hsub x (List.mem_cons_of_mem _ hx)) hstep
    exact ⟨h1, h2.trans (relaxStep_core k st w).1, h3.trans (relaxStep_core k st w).2⟩

/-- what is known about the decided nodes and about where the cores still sit, at level `k` -/
structure CInv (G : Graph) (k : Nat) (core : List (Nat × Nat)) : Prop where
  keys : ∀ x, hasKey core x = true → x ∈ G.nodes
  done : ∀ x, hasKey core x = true →
    x ∈ kcoreDef G (aget core x 0) ∧ x ∉ kcoreDef G (aget core x 0 + 1)
  up   : ∀ k', k ≤ k' → ∀ x ∈ kcoreDef G (k' + 1), x ∈ und G core
  inK  : ∀ x ∈ und G core, x ∈ kcoreDef G k

/-- one pop: `v` leaves bucket `k`, gets core number `k`, and its neighbours are relaxed -/
theorem pop_inv (G : Graph) (hn : G.nodes.Nodup) (maxd k : Nat) (st : KSt)
    (hB : BInv G maxd k [] st) (hC : CInv G k st.core) (v : Nat) (hv : v ∈ st.buckets.getD k [])
    (ns : List Nat) (hns : ns.Perm (G.sadj v)) (i : Nat) :
    let st' : KSt := { st with iters := i, buckets := modAt (·.erase v) st.buckets k, core := aset st.core v k }
    BInv G maxd k [] (kRelax k ns st') ∧ CInv G k (kRelax k ns st').core ∧
      (und G (kRelax k ns st').core).length + 1 = (und G st.core).length := by
  intro st'
  have hvU : v ∈ und G st.core := ((hB.bkt k v).1 hv).1
  have hvd : aget st.degree v 0 = k := ((hB.bkt k v).1 hv).2
  have hUnd : (und G st.core).Nodup := nodup_und G hn st.core
  have hU' : und G st'.core = (und G st.core).filter (· != v) := und_aset G st.core v k
  have hklen : k < st.buckets.length := by
    rcases Nat.lt_or_ge k st.buckets.length with h | h
    · exact h
    · rw [getD_of_ge _ h] at hv; cases hv
  have hmemU' : ∀ x, x ∈ und G st'.core ↔ x ∈ und G st.core ∧ x ≠ v := by
    intro x; rw [hU', List.mem_filter]; simp
  -- the bucket/degree invariant right after the pop, with all neighbours still pending
  have hB' : BInv G maxd k ns st' := by
    constructor
    · simp only [st', length_modAt, hB.blen]
    · intro w hw
      have hw' := (hmemU' w).1 hw
      have := hB.deg w hw'.1
      simp only [List.not_mem_nil, if_false, Nat.add_zero] at this
      change aget st.degree w 0 = _
      rw [this, hU', degIn_remove G (und G st.core) hUnd v hvU w]
      have : (w ∈ ns) ↔ nbp G w v = true := by
        rw [hns.mem_iff, mem_sadj_nbp, nbp_comm]
      by_cases hq : nbp G w v = true
      · simp [hq, this]
      · have hq' : nbp G w v = false := by simpa using hq
        simp [hq', this]
    · intro w hw; exact hB.dle w ((hmemU' w).1 hw).1
    · intro j w
      change w ∈ (modAt (·.erase v) st.buckets k).getD j [] ↔ _
      rw [getD_modAt, hmemU']
      change _ ↔ (_ ∧ aget st.degree w 0 = j)
      split
      · rename_i hj
        obtain ⟨rfl, _⟩ := hj
        rw [(hB.bnd j).mem_erase_iff, hB.bkt j w]
        constructor
        · rintro ⟨h1, h2, h3⟩; exact ⟨⟨h2, h1⟩, h3⟩
        · rintro ⟨⟨h2, h1⟩, h3⟩; exact ⟨h1, h2, h3⟩
      · rename_i hj
        rw [hB.bkt j w]
        constructor
        · rintro ⟨h1, h2⟩
          refine ⟨⟨h1, ?_⟩, h2⟩
          intro e; subst e
          exact hj ⟨by omega, by omega⟩
        · rintro ⟨⟨h1, _⟩, h2⟩; exact ⟨h1, h2⟩
    · intro j
      change ((modAt (·.erase v) st.buckets k).getD j []).Nodup
      rw [getD_modAt]
      split
      · exact (hB.bnd j).erase v
      · exact hB.bnd j
  have hnsnd : ns.Nodup := hns.nodup_iff.2 (nodup_sadj G v)
  have hnssub : ∀ w ∈ ns, w ∈ G.nodes := fun w hw => sadj_sub G (hns.mem_iff.1 hw)
  obtain ⟨hR1, hR2, _⟩ := kRelax_inv G maxd k ns st' hnsnd hnssub hB'
  have hcore : (kRelax k ns st').core = aset st.core v k := hR2
  -- v is not in the (k+1)-core
  have hvnot : v ∉ kcoreDef G (k + 1) := by
    intro hvK
    have h1 := kcoreDef_deg G (k + 1) hvK
    have h2 := degIn_mono G (kcoreDef_nodup G hn (k + 1)) (hC.up k (Nat.le_refl _)) v
    have h3 := hB.deg v hvU
    simp only [List.not_mem_nil, if_false, Nat.add_zero] at h3
    omega
  refine ⟨hR1, ?_, ?_⟩
  · rw [hcore]
    constructor
    · intro x hx
      rcases (hasKey_aset st.core v x k).1 hx with h | h
      · subst h; exact (mem_und.1 hvU).1
      · exact hC.keys x h
    · intro x hx
      rw [aget_aset]
      by_cases hvx : v = x
      · subst hvx
        simp only [if_true]
        exact ⟨hC.inK v hvU, hvnot⟩
      · simp only [if_neg hvx]
        rcases (hasKey_aset st.core v x k).1 hx with h | h
        · exact absurd h hvx
        · exact hC.done x h
    · intro k' hk' x hx
      change x ∈ und G st'.core
      rw [hmemU']
      refine ⟨hC.up k' hk' x hx, ?_⟩
      intro e; subst e
      exact hvnot (kcoreDef_anti G hn (by omega : k + 1 ≤ k' + 1) x hx)
    · intro x hx
      change x ∈ und G st'.core at hx
      exact hC.inK x ((hmemU' x).1 hx).1
  · rw [hcore]
    change (und G st'.core).length + 1 = _
    rw [hU']
    have := length_filter_remove (und G st.core) hUnd v hvU (fun _ => true)
    have ht : ∀ l : List Nat, l.filter (fun _ => true) = l := fun l => List.filter_eq_self.2 (fun _ _ => rfl)
    rw [ht, ht] at this
    simp only [if_true] at this
    omega

theorem kLevel_inv (G : Graph) (hn : G.nodes.Nodup) (R : KOracle) (hR : R.Valid) (maxd k : Nat) :
    ∀ (fuel : Nat) (st : KSt), (und G st.core).length < fuel →
    BInv G maxd k [] st → CInv G k st.core →
    BInv G maxd k [] (kLevel R G.sadj k fuel st) ∧ CInv G k (kLevel R G.sadj k fuel st).core ∧
      (kLevel R G.sadj k fuel st).buckets.getD k [] = [] := by
  intro fuel
  induction fuel with
  | zero => intro st h; cases h
  | succ f ih =>
    intro st hlen hB hC
    unfold kLevel
    simp only
    split
    · rename_i he
      exact ⟨hB, hC, List.isEmpty_iff.1 he⟩
    · rename_i he
      have hne : st.buckets.getD k [] ≠ [] := fun h => he (by rw [h]; rfl)
      have hv := hR.1 st.iters _ hne
      obtain ⟨h1, h2, h3⟩ := pop_inv G hn maxd k st hB hC _ hv
        (R.order st.iters (G.sadj (R.pick st.iters (st.buckets.getD k [])))) (hR.2 _ _) (st.iters + 1)
      exact ih _ (by omega) h1 h2

/-- bucket `k` is empty: everything still undecided has at least `k + 1` undecided neighbours -/
theorem level_up (G : Graph) (hn : G.nodes.Nodup) (maxd k : Nat) (st : KSt)
    (hB : BInv G maxd k [] st) (hC : CInv G k st.core) (he : st.buckets.getD k [] = []) :
    BInv G maxd (k + 1) [] st ∧ CInv G (k + 1) st.core := by
  have hdeg : ∀ w ∈ und G st.core, k + 1 ≤ degIn G (und G st.core) w := by
    intro w hw
    have h1 := hB.deg w hw
    simp only [List.not_mem_nil, if_false, Nat.add_zero] at h1
    have h2 : aget st.degree w 0 ≠ k := by
      intro e
      have := (hB.bkt k w).2 ⟨hw, e⟩
      rw [he] at this; cases this
    omega
  constructor
  · refine ⟨hB.blen, ?_, hB.dle, hB.bkt, hB.bnd⟩
    intro w hw
    have h1 := hB.deg w hw
    have h2 := hdeg w hw
    simp only [List.not_mem_nil, if_false, Nat.add_zero] at h1 ⊢
    omega
  · refine ⟨hC.keys, hC.done, fun k' hk' => hC.up k' (by omega), ?_⟩
    exact kcoreDef_max G (k + 1) (und G st.core) (nodup_und G hn st.core)
      (fun v hv => (mem_und.1 hv).1) hdeg

theorem foldl_max_ge (l : List (Nat × Nat)) (m : Nat) :
    m ≤ l.foldl (fun m p => max m p.2) m ∧ ∀ p ∈ l, p.2 ≤ l.foldl (fun m p => max m p.2) m := by
  induction l generalizing m with
  | nil => simp
  | cons a l ih =>
    simp only [List.foldl_cons]
    obtain ⟨h1, h2⟩ := ih (max m a.2)
    refine ⟨by omega, ?_⟩
    intro p hp
    rcases List.mem_cons.1 hp with rfl | hp
    · omega
    · exact h2 p hp

theorem kInit_inv (G : Graph) (hn : G.nodes.Nodup) :
    BInv G ((kInit G).buckets.length - 1) 0 [] (kInit G) ∧ CInv G 0 (kInit G).core := by
  have hund : und G (kInit G).core = G.nodes := by
    simp only [kInit, und]
    rw [List.filter_eq_self]; intro a _; rfl
  have hdegv : ∀ w ∈ G.nodes, aget (kInit G).degree w 0 = (G.sadj w).length := by
    intro w hw
    simp only [kInit]
    exact aget_map_self G.nodes (fun v => (G.sadj v).length) 0 hw
  have hlen : (kInit G).buckets.length =
      ((G.nodes.map fun v => (v, (G.sadj v).length)).foldl (fun m p => max m p.2) 0) + 1 := by
    simp [kInit]
  have hmax : ∀ w ∈ G.nodes, (G.sadj w).length ≤ (kInit G).buckets.length - 1 := by
    intro w hw
    rw [hlen]
    have := (foldl_max_ge (G.nodes.map fun v => (v, (G.sadj v).length)) 0).2
      (w, (G.sadj w).length) (List.mem_map.2 ⟨w, hw, rfl⟩)
    simp only at this
    omega
  constructor
  · constructor
    · rw [hlen]; omega
    · intro w hw
      rw [hund] at hw ⊢
      rw [hdegv w hw, length_sadj G hn w]; simp
    · intro w hw
      rw [hund] at hw
      rw [hdegv w hw]; exact hmax w hw
    · intro j w
      rw [hund]
      by_cases hj : j < (kInit G).buckets.length
      · rw [getD_of_lt _ hj]
        simp only [kInit, List.getElem_map, List.getElem_range, List.mem_filter, beq_iff_eq]
      · rw [getD_of_ge _ (by omega)]
        constructor
        · intro h; cases h
        · rintro ⟨hw, hd⟩
          rw [hdegv w hw] at hd
          have := hmax w hw
          omega
    · intro j
      by_cases hj : j < (kInit G).buckets.length
      · rw [getD_of_lt _ hj]
        simp only [kInit, List.getElem_map]
        exact hn.sublist List.filter_sublist
      · rw [getD_of_ge _ (by omega)]; exact List.nodup_nil
  · constructor
    · intro x hx; simp [kInit, hasKey] at hx
    · intro x hx; simp [kInit, hasKey] at hx
    · intro k' _ x hx
      rw [hund]; exact kcoreDef_sub G _ hx
    · intro x hx
      rw [hund] at hx
      rw [kcoreDef_zero]; exact hx

theorem levels_inv (G : Graph) (hn : G.nodes.Nodup) (R : KOracle) (hR : R.Valid) (maxd : Nat)
    (st0 : KSt) (hB0 : BInv G maxd 0 [] st0) (hC0 : CInv G 0 st0.core) : ∀ m : Nat,
    BInv G maxd m [] ((List.range m).foldl (fun st k => kLevel R G.sadj k (G.nodes.length + 1) st) st0) ∧
    CInv G m ((List.range m).foldl (fun st k => kLevel R G.sadj k (G.nodes.length + 1) st) st0).core := by
  intro m
  induction m with
  | zero => exact ⟨hB0, hC0⟩
  | succ m ih =>
    rw [List.range_succ, List.foldl_append]
    simp only [List.foldl_cons, List.foldl_nil]
    obtain ⟨hB, hC⟩ := ih
    have hlen : (und G ((List.range m).foldl (fun st k => kLevel R G.sadj k (G.nodes.length + 1) st) st0).core).length
        < G.nodes.length + 1 := by
      have := List.length_filter_le (fun w => !hasKey
        ((List.range m).foldl (fun st k => kLevel R G.sadj k (G.nodes.length + 1) st) st0).core w) G.nodes
      unfold und; omega
    obtain ⟨h1, h2, h3⟩ := kLevel_inv G hn R hR maxd m (G.nodes.length + 1) _ hlen hB hC
    exact level_up G hn maxd m _ h1 h2 h3

end Solvor.Net
