import Solvor.Net.Drive
def main : IO Unit := Solvor.Proto.serve Solvor.Net.handle
