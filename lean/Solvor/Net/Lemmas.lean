import Solvor.Net.Model
/-! Net: helper lemmas (core Lean only): association lists, components, partitions, adjacency,
repeated deletion.  The `Rat` lemmas for PageRank/modularity are in `RatLemmas.lean`. -/
namespace Solvor.Net

/-! ### association lists, `modAt`, `addSet` -/

theorem aget_aset {α} (m : List (Nat × α)) (k k' : Nat) (x d : α) :
    aget (aset m k x) k' d = if k = k' then x else aget m k' d := by
  induction m with
  | nil => simp [aset, aget]
  | cons p m ih =>
    obtain ⟨a, b⟩ := p
    simp only [aset]
    by_cases h : a = k
    · subst h; simp only [if_true, aget]; split <;> rfl
    · simp only [if_neg h, aget, ih]
      by_cases h2 : a = k'
      · subst h2; simp [Ne.symm h]
      · simp [h2]

theorem length_modAt {α} (f : α → α) (l : List α) (i : Nat) : (modAt f l i).length = l.length := by
  induction l generalizing i with
  | nil => rfl
  | cons x xs ih => cases i <;> simp [modAt, ih]

theorem getD_modAt {α} (f : α → α) (l : List α) (i j : Nat) (d : α) :
    (modAt f l i).getD j d = if j = i ∧ j < l.length then f (l.getD j d) else l.getD j d := by
  induction l generalizing i j with
  | nil => simp [modAt]
  | cons x xs ih =>
    cases i with
    | zero =>
      cases j with
      | zero => simp [modAt]
      | succ j => simp [modAt]
    | succ i =>
      cases j with
      | zero => simp [modAt]
      | succ j =>
        simp only [modAt, List.getD_cons_succ, ih, List.length_cons, Nat.add_lt_add_iff_right,
          Nat.add_right_cancel_iff]

theorem mem_addSet {l : List Nat} {v x : Nat} : x ∈ addSet l v ↔ x ∈ l ∨ x = v := by
  unfold addSet; split
  · rename_i h
    have hv : v ∈ l := by simpa using h
    constructor
    · intro hx; exact Or.inl hx
    · rintro (hx | rfl); exact hx; exact hv
  · simp

theorem nodup_addSet {l : List Nat} {v : Nat} (h : l.Nodup) : (addSet l v).Nodup := by
  unfold addSet; split
  · exact h
  · rename_i hc
    have hv : v ∉ l := by simpa using hc
    rw [List.nodup_append]
    refine ⟨h, by simp, ?_⟩
    intro a ha b hb
    simp only [List.mem_singleton] at hb
    subst hb; intro hab; subst hab; exact hv ha

theorem length_filter_split {α} (p : α → Bool) (l : List α) :
    l.length = (l.filter p).length + (l.filter fun a => !p a).length := by
  induction l with
  | nil => rfl
  | cons a l ih =>
    by_cases h : p a = true
    · simp [h]; omega
    · simp [h]; omega

/-! ### reachability -/

variable {nodes : List Nat} {arc : Nat → Nat → Bool}

theorem linked_iff {S : List Nat} {w : Nat} :
    linked arc S w = true ↔ ∃ u ∈ S, (arc u w || arc w u) = true := by
  simp [linked]

theorem Reach.trans {a b c : Nat} (h1 : Reach nodes arc a b) (h2 : Reach nodes arc b c) :
    Reach nodes arc a c := by
  induction h2 with
  | refl => exact h1
  | step _ hv hw hl ih => exact Reach.step ih hv hw hl

theorem Reach.single {a b : Nat} (ha : a ∈ nodes) (hb : b ∈ nodes) (hl : (arc a b || arc b a) = true) :
    Reach nodes arc a b := Reach.step (Reach.refl a) ha hb hl

theorem Reach.symm {a b : Nat} (h : Reach nodes arc a b) : Reach nodes arc b a := by
  induction h with
  | refl => exact Reach.refl _
  | step _ hv hw hl ih =>
    exact Reach.trans (Reach.single hw hv (by rw [Bool.or_comm]; exact hl)) ih

theorem Reach.mem {a b : Nat} (h : Reach nodes arc a b) (ha : a ∈ nodes) : b ∈ nodes := by
  cases h with
  | refl => exact ha
  | step _ _ hw _ => exact hw

/-- the sweep loop returns a set containing `S`, inside the reachability class, closed under links -/
theorem grow_spec (s : Nat) : ∀ (fuel : Nat) (rest S : List Nat),
    (∀ x ∈ S, Reach nodes arc s x ∧ x ∈ nodes) →
    (∀ w ∈ nodes, w ∈ S ∨ w ∈ rest) → (∀ w ∈ rest, w ∈ nodes) → rest.length ≤ fuel →
    (∀ x ∈ S, x ∈ grow arc fuel rest S) ∧
    (∀ x ∈ grow arc fuel rest S, Reach nodes arc s x ∧ x ∈ nodes) ∧
    (∀ x ∈ grow arc fuel rest S, ∀ w ∈ nodes, (arc x w || arc w x) = true → w ∈ grow arc fuel rest S) := by
  intro fuel
  induction fuel with
  | zero =>
    intro rest S h1 h3 _ h5
    have hr : rest = [] := List.eq_nil_of_length_eq_zero (Nat.le_zero.1 h5)
    subst hr
    refine ⟨fun x hx => hx, h1, ?_⟩
    intro x _ w hw _
    rcases h3 w hw with h | h
    · exact h
    · cases h
  | succ f ih =>
    intro rest S h1 h3 h4 h5
    unfold grow
    simp only
    split
    · rename_i hemp
      refine ⟨fun x hx => hx, h1, ?_⟩
      intro x hx w hw hl
      rcases h3 w hw with h | h
      · exact h
      · exfalso
        have : w ∈ rest.filter (linked arc S) := by
          rw [List.mem_filter]; exact ⟨h, linked_iff.2 ⟨x, hx, hl⟩⟩
        rw [List.isEmpty_iff] at hemp
        rw [hemp] at this; cases this
    · rename_i hne
      have hlen : (rest.filter fun w => !linked arc S w).length ≤ f := by
        have hsum := length_filter_split (linked arc S) rest
        have hpos : 0 < (rest.filter (linked arc S)).length := by
          cases hq : rest.filter (linked arc S) with
          | nil => rw [hq] at hne; simp at hne
          | cons a as => simp
        omega
      have hrec := ih (rest.filter fun w => !linked arc S w) (S ++ rest.filter (linked arc S))
        (by
          intro x hx
          rcases List.mem_append.1 hx with hx | hx
          · exact h1 x hx
          · rw [List.mem_filter] at hx
            obtain ⟨u, hu, hl⟩ := linked_iff.1 hx.2
            exact ⟨Reach.step (h1 u hu).1 (h1 u hu).2 (h4 x hx.1) hl, h4 x hx.1⟩)
        (by
          intro w hw
          rcases h3 w hw with h | h
          · left; exact List.mem_append_left _ h
          · by_cases hl : linked arc S w = true
            · left; exact List.mem_append_right _ (List.mem_filter.2 ⟨h, hl⟩)
            · right; exact List.mem_filter.2 ⟨h, by simp [hl]⟩)
        (fun w hw => h4 w (List.mem_filter.1 hw).1) hlen
      exact ⟨fun x hx => hrec.1 x (List.mem_append_left _ hx), hrec.2.1, hrec.2.2⟩

theorem mem_closure_iff {s : Nat} (hs : s ∈ nodes) (w : Nat) :
    w ∈ closure nodes arc s ↔ Reach nodes arc s w := by
  have h := grow_spec (nodes := nodes) (arc := arc) s nodes.length (nodes.filter (· != s)) [s]
    (by intro x hx; simp only [List.mem_singleton] at hx; subst hx; exact ⟨Reach.refl _, hs⟩)
    (by
      intro w hw
      by_cases h : w = s
      · left; simp [h]
      · right; exact List.mem_filter.2 ⟨hw, by simpa using h⟩)
    (fun w hw => (List.mem_filter.1 hw).1) (List.length_filter_le _ _)
  unfold closure
  constructor
  · intro hw; exact (h.2.1 w hw).1
  · intro hr
    induction hr with
    | refl => exact h.1 s (by simp)
    | step _ _ hw hl ih => exact h.2.2 _ ih _ hw hl

/-- the three facts that make `comps` "the list of connected components" -/
structure CompsOk (nodes : List Nat) (arc : Nat → Nat → Bool) (C : List (List Nat)) : Prop where
  classes  : ∀ c ∈ C, ∃ r ∈ nodes, ∀ w, w ∈ c ↔ Reach nodes arc r w
  disjoint : C.Pairwise (fun a b => ∀ v ∈ a, v ∉ b)

theorem compsAux_spec : ∀ (l : List Nat) (acc : List (List Nat)),
    (∀ v ∈ l, v ∈ nodes) → CompsOk nodes arc acc →
    CompsOk nodes arc (compsAux nodes arc l acc) ∧
    (∀ c ∈ acc, c ∈ compsAux nodes arc l acc) ∧
    (∀ v ∈ l, ∃ c ∈ compsAux nodes arc l acc, v ∈ c) := by
  intro l
  induction l with
  | nil => intro acc _ h; exact ⟨h, fun c hc => hc, by simp⟩
  | cons v vs ih =>
    intro acc hl hacc
    have hvs : ∀ x ∈ vs, x ∈ nodes := fun x hx => hl x (List.mem_cons_of_mem _ hx)
    have hv : v ∈ nodes := hl v List.mem_cons_self
    unfold compsAux
    split
    · rename_i hcov
      obtain ⟨h1, h2, h3⟩ := ih acc hvs hacc
      refine ⟨h1, h2, ?_⟩
      intro x hx
      rcases List.mem_cons.1 hx with rfl | hx
      · obtain ⟨c, hc, hvc⟩ := List.any_eq_true.1 hcov
        exact ⟨c, h2 c hc, by simpa using hvc⟩
      · exact h3 x hx
    · rename_i hcov
      have hnot : ∀ c ∈ acc, v ∉ c := by
        intro c hc hvc
        exact hcov (List.any_eq_true.2 ⟨c, hc, by simpa using hvc⟩)
      have hnew : CompsOk nodes arc (acc ++ [closure nodes arc v]) := by
        constructor
        · intro c hc
          rcases List.mem_append.1 hc with hc | hc
          · exact hacc.classes c hc
          · simp only [List.mem_singleton] at hc
            subst hc
            exact ⟨v, hv, mem_closure_iff hv⟩
        · rw [List.pairwise_append]
          refine ⟨hacc.disjoint, by simp, ?_⟩
          intro a ha b hb x hxa hxb
          simp only [List.mem_singleton] at hb
          subst hb
          obtain ⟨r, _, hr⟩ := hacc.classes a ha
          have h1 : Reach nodes arc r x := (hr x).1 hxa
          have h2 : Reach nodes arc v x := (mem_closure_iff hv x).1 hxb
          exact hnot a ha ((hr v).2 (h1.trans h2.symm))
      obtain ⟨h1, h2, h3⟩ := ih _ hvs hnew
      refine ⟨h1, fun c hc => h2 c (List.mem_append_left _ hc), ?_⟩
      intro x hx
      rcases List.mem_cons.1 hx with rfl | hx
      · exact ⟨closure nodes arc x, h2 _ (by simp), (mem_closure_iff hv x).2 (Reach.refl _)⟩
      · exact h3 x hx

/-- counting through an injective relation -/
theorem length_le_of_inj {α β} [BEq β] [LawfulBEq β] (Rel : α → β → Prop) :
    ∀ (A : List α) (B : List β),
    A.Pairwise (fun a a' => ∀ b ∈ B, Rel a b → ¬ Rel a' b) →
    (∀ a ∈ A, ∃ b ∈ B, Rel a b) → A.length ≤ B.length := by
  intro A
  induction A with
  | nil => intro B _ _; simp
  | cons a A ih =>
    intro B hp hex
    obtain ⟨b, hb, hab⟩ := hex a List.mem_cons_self
    rw [List.pairwise_cons] at hp
    have h := ih (B.erase b)
      (hp.2.imp (fun {x y} hxy b' hb' => hxy b' (List.mem_of_mem_erase hb')))
      (by
        intro a' ha'
        obtain ⟨b', hb', hab'⟩ := hex a' (List.mem_cons_of_mem _ ha')
        have hne : b' ≠ b := by
          intro heq; subst heq
          exact hp.1 a' ha' b' hb' hab hab'
        exact ⟨b', (List.mem_erase_of_ne hne).2 hb', hab'⟩)
    rw [List.length_erase_of_mem hb] at h
    have : 0 < B.length := List.length_pos_of_mem hb
    simp only [List.length_cons]
    omega

/-- a *transversal*: one node of every reachability class -/
structure IsTransversal (nodes : List Nat) (arc : Nat → Nat → Bool) (R : List Nat) : Prop where
  sub   : ∀ r ∈ R, r ∈ nodes
  apart : R.Pairwise (fun r r' => ¬ Reach nodes arc r r')
  cover : ∀ v ∈ nodes, ∃ r ∈ R, Reach nodes arc r v

/-! ### the symmetric adjacency built by the double loop -/

theorem aget_init (l : List Nat) (v : Nat) :
    aget (l.map fun v => (v, ([] : List Nat))) v [] = [] := by
  induction l with
  | nil => rfl
  | cons a l ih => simp only [List.map_cons, aget]; split <;> simp [ih]

theorem mem_insNb {adj : List (Nat × List Nat)} {a b v w : Nat} :
    w ∈ aget (insNb adj a b) v [] ↔ w ∈ aget adj v [] ∨ (v = a ∧ w = b) := by
  unfold insNb
  simp only
  split
  · rename_i h
    have hb : b ∈ aget adj a [] := by simpa using h
    constructor
    · intro hw; exact Or.inl hw
    · rintro (hw | ⟨rfl, rfl⟩)
      · exact hw
      · exact hb
  · rw [aget_aset]
    by_cases hav : a = v
    · subst hav; simp [eq_comm]
    · simp [hav, Ne.symm hav]

theorem nodup_insNb {adj : List (Nat × List Nat)} {a b : Nat} (h : ∀ v, (aget adj v []).Nodup) :
    ∀ v, (aget (insNb adj a b) v []).Nodup := by
  intro v
  unfold insNb
  simp only
  split
  · exact h v
  · rename_i hc
    rw [aget_aset]
    split
    · have hb : b ∉ aget adj a [] := by simpa using hc
      rw [List.nodup_append]
      refine ⟨h a, by simp, ?_⟩
      intro x hx y hy
      simp only [List.mem_singleton] at hy
      subst hy; intro hxy; subst hxy; exact hb hx
    · exact h v

/-- one iteration of the inner loop of `buildAdj` -/
def edgeStep (G : Graph) (adj : List (Nat × List Nat)) (p : Nat × Nat) : List (Nat × List Nat) :=
  if G.nodes.contains p.2 && p.2 != p.1 then addEdge adj p.1 p.2 else adj

theorem buildAdj_eq (G : Graph) :
    buildAdj G = (G.nodes.flatMap fun v => (G.nb v).map fun w => (v, w)).foldl (edgeStep G)
      (G.nodes.map fun v => (v, [])) := by
  unfold buildAdj
  rw [List.foldl_flatMap]
  congr 1
  funext adj v
  rw [List.foldl_map]
  rfl

theorem fold_edges_mem (G : Graph) : ∀ (E : List (Nat × Nat)) (adj : List (Nat × List Nat)) (v w : Nat),
    w ∈ aget (E.foldl (edgeStep G) adj) v [] ↔
      w ∈ aget adj v [] ∨ ∃ p ∈ E, (G.nodes.contains p.2 && p.2 != p.1) = true ∧
        ((v = p.1 ∧ w = p.2) ∨ (v = p.2 ∧ w = p.1)) := by
  intro E
  induction E with
  | nil => intro adj v w; simp
  | cons p E ih =>
    intro adj v w
    rw [List.foldl_cons, ih]
    unfold edgeStep
    split
    · rename_i hc
      unfold addEdge
      rw [mem_insNb, mem_insNb]
      constructor
      · rintro (((h | h) | h) | h)
        · exact Or.inl h
        · exact Or.inr ⟨p, List.mem_cons_self, hc, Or.inl h⟩
        · exact Or.inr ⟨p, List.mem_cons_self, hc, Or.inr h⟩
        · obtain ⟨q, hq, h⟩ := h
          exact Or.inr ⟨q, List.mem_cons_of_mem _ hq, h⟩
      · rintro (h | ⟨q, hq, hqc, h⟩)
        · exact Or.inl (Or.inl (Or.inl h))
        · rcases List.mem_cons.1 hq with rfl | hq
          · rcases h with h | h
            · exact Or.inl (Or.inl (Or.inr h))
            · exact Or.inl (Or.inr h)
          · exact Or.inr ⟨q, hq, hqc, h⟩
    · rename_i hc
      constructor
      · rintro (h | ⟨q, hq, h⟩)
        · exact Or.inl h
        · exact Or.inr ⟨q, List.mem_cons_of_mem _ hq, h⟩
      · rintro (h | ⟨q, hq, hqc, h⟩)
        · exact Or.inl h
        · rcases List.mem_cons.1 hq with rfl | hq
          · exact absurd hqc hc
          · exact Or.inr ⟨q, hq, hqc, h⟩

theorem fold_edges_nodup (G : Graph) : ∀ (E : List (Nat × Nat)) (adj : List (Nat × List Nat)),
    (∀ v, (aget adj v []).Nodup) → ∀ v, (aget (E.foldl (edgeStep G) adj) v []).Nodup := by
  intro E
  induction E with
  | nil => intro adj h; exact h
  | cons p E ih =>
    intro adj h
    rw [List.foldl_cons]
    apply ih
    unfold edgeStep
    split
    · unfold addEdge; exact nodup_insNb (nodup_insNb h)
    · exact h

/-- `sadj` is the symmetric closure of the neighbour relation on the node set, self loops dropped -/
theorem mem_sadj (G : Graph) (v w : Nat) :
    w ∈ G.sadj v ↔ v ≠ w ∧ (G.arc v w = true ∨ G.arc w v = true) := by
  unfold Graph.sadj
  rw [buildAdj_eq, fold_edges_mem, aget_init]
  simp only [List.not_mem_nil, false_or, List.mem_flatMap, List.mem_map, Graph.arc, Bool.and_eq_true,
    List.contains_iff_mem, bne_iff_ne, ne_eq]
  constructor
  · rintro ⟨p, ⟨a, ha, b, hb, rfl⟩, ⟨hbn, hne⟩, h⟩
    simp only at hbn hne h
    rcases h with ⟨rfl, rfl⟩ | ⟨rfl, rfl⟩
    · exact ⟨fun h => hne h.symm, Or.inl ⟨⟨ha, hbn⟩, hb⟩⟩
    · exact ⟨hne, Or.inr ⟨⟨ha, hbn⟩, hb⟩⟩
  · rintro ⟨hne, ⟨⟨hv, hw⟩, hwv⟩ | ⟨⟨hw, hv⟩, hvw⟩⟩
    · exact ⟨(v, w), ⟨v, hv, w, hwv, rfl⟩, ⟨hw, fun h => hne h.symm⟩, Or.inl ⟨rfl, rfl⟩⟩
    · exact ⟨(w, v), ⟨w, hw, v, hvw, rfl⟩, ⟨hv, hne⟩, Or.inr ⟨rfl, rfl⟩⟩

theorem nodup_sadj (G : Graph) (v : Nat) : (G.sadj v).Nodup := by
  unfold Graph.sadj
  rw [buildAdj_eq]
  apply fold_edges_nodup
  intro v; rw [aget_init]; exact List.nodup_nil

theorem sadj_sub (G : Graph) {v w : Nat} (h : w ∈ G.sadj v) : w ∈ G.nodes := by
  rcases ((mem_sadj G v w).1 h).2 with h | h <;>
    simp only [Graph.arc, Bool.and_eq_true, List.contains_iff_mem] at h
  · exact h.1.2
  · exact h.1.1

/-- the degree used by every mirror is the definitional degree -/
theorem length_sadj (G : Graph) (hn : G.nodes.Nodup) (v : Nat) : (G.sadj v).length = degIn G G.nodes v := by
  unfold degIn
  apply List.Perm.length_eq
  rw [List.perm_ext_iff_of_nodup (nodup_sadj G v) (hn.sublist List.filter_sublist)]
  intro w
  rw [mem_sadj, List.mem_filter]
  simp only [Bool.and_eq_true, bne_iff_ne, ne_eq, Bool.or_eq_true]
  constructor
  · rintro ⟨hne, h⟩
    exact ⟨sadj_sub G ((mem_sadj G v w).2 ⟨hne, h⟩), fun h' => hne h'.symm, h⟩
  · rintro ⟨_, hne, h⟩
    exact ⟨fun h' => hne h'.symm, h⟩

/-! ### Louvain bookkeeping: `node_to_comm` / `comm_nodes` stay a partition -/

theorem getD_of_lt {α} (l : List α) {i : Nat} (h : i < l.length) (d : α) : l.getD i d = l[i] := by
  rw [List.getD_eq_getElem?_getD, List.getElem?_eq_getElem h, Option.getD_some]

theorem getD_of_ge {α} (l : List α) {i : Nat} (h : l.length ≤ i) (d : α) : l.getD i d = d := by
  rw [List.getD_eq_getElem?_getD, List.getElem?_eq_none h, Option.getD_none]

/-- the bookkeeping invariant of the local-moving loop -/
structure LInv {α} (nodes : List Nat) (st : LSt α) : Prop where
  len   : st.cnodes.length = nodes.length
  lt    : ∀ v ∈ nodes, aget st.n2c v 0 < nodes.length
  iff   : ∀ v ∈ nodes, ∀ i, i < nodes.length → (v ∈ st.cnodes.getD i [] ↔ aget st.n2c v 0 = i)
  sub   : ∀ i, ∀ v ∈ st.cnodes.getD i [], v ∈ nodes
  nodup : ∀ i, (st.cnodes.getD i []).Nodup

theorem moveNode_inv {α} (O : Ops α) {nodes : List Nat} {st : LSt α} (h : LInv nodes st)
    {v best : Nat} (hv : v ∈ nodes) (hb : best < nodes.length) (vdeg : α) :
    LInv nodes (moveNode O st v best vdeg) := by
  have hcn : ∀ i, (moveNode O st v best vdeg).cnodes.getD i [] =
      if i = best ∧ i < nodes.length then
        addSet (if i = aget st.n2c v 0 ∧ i < nodes.length then (st.cnodes.getD i []).erase v else st.cnodes.getD i []) v
      else (if i = aget st.n2c v 0 ∧ i < nodes.length then (st.cnodes.getD i []).erase v else st.cnodes.getD i []) := by
    intro i
    simp only [moveNode, lInsert, lRemove, getD_modAt, length_modAt, h.len]
  have hn2c : ∀ u, aget (moveNode O st v best vdeg).n2c u 0 = if v = u then best else aget st.n2c u 0 := by
    intro u; simp only [moveNode, lInsert, lRemove, aget_aset]
  constructor
  · simp only [moveNode, lInsert, lRemove, length_modAt, h.len]
  · intro u hu
    rw [hn2c]; split
    · exact hb
    · exact h.lt u hu
  · intro u hu i hi
    rw [hcn, hn2c]
    by_cases huv : v = u
    · subst huv
      simp only [if_true]
      by_cases hib : i = best
      · subst hib
        simp only [true_and, hi, if_true, mem_addSet, or_true]
      · have hbi : best ≠ i := fun h' => hib h'.symm
        simp only [hib, false_and, if_false, hbi, iff_false]
        split
        · intro hmem
          exact ((h.nodup i).mem_erase_iff.1 hmem).1 rfl
        · rename_i hc
          intro hmem
          have := (h.iff v hv i hi).1 hmem
          exact hc ⟨this.symm, hi⟩
    · simp only [huv, if_false]
      have hne : u ≠ v := fun h' => huv h'.symm
      rw [← h.iff u hu i hi]
      split
      · rw [mem_addSet]
        split
        · rw [List.mem_erase_of_ne hne]; simp [hne]
        · simp [hne]
      · split
        · rw [List.mem_erase_of_ne hne]
        · rfl
  · intro i u hu
    rw [hcn] at hu
    have hsub2 : ∀ x, x ∈ (if i = aget st.n2c v 0 ∧ i < nodes.length then (st.cnodes.getD i []).erase v
        else st.cnodes.getD i []) → x ∈ nodes := by
      intro x hx
      split at hx
      · exact h.sub i x (List.mem_of_mem_erase hx)
      · exact h.sub i x hx
    split at hu
    · rcases mem_addSet.1 hu with hu | rfl
      · exact hsub2 u hu
      · exact hv
    · exact hsub2 u hu
  · intro i
    rw [hcn]
    have hnd2 : (if i = aget st.n2c v 0 ∧ i < nodes.length then (st.cnodes.getD i []).erase v
        else st.cnodes.getD i []).Nodup := by
      split
      · exact (h.nodup i).erase v
      · exact h.nodup i
    split
    · exact nodup_addSet hnd2
    · exact hnd2

theorem nodup_getElem_inj {l : List Nat} (hn : l.Nodup) {i j : Nat} (hi : i < l.length) (hj : j < l.length)
    (h : l[i] = l[j]) : i = j := by
  have hp := List.pairwise_iff_getElem.1 hn
  rcases Nat.lt_trichotomy i j with hlt | heq | hgt
  · exact absurd h (hp i j hi hj hlt)
  · exact heq
  · exact absurd h.symm (hp j i hj hi hgt)

theorem aget_zipIdx : ∀ (l : List Nat) (k : Nat), l.Nodup → ∀ (i : Nat) (h : i < l.length),
    aget ((l.zipIdx k).map fun p => (p.1, p.2)) l[i] 0 = k + i := by
  intro l
  induction l with
  | nil => intro k _ i h; cases h
  | cons a l ih =>
    intro k hn i h
    rw [List.nodup_cons] at hn
    simp only [List.zipIdx_cons, List.map_cons, aget]
    cases i with
    | zero => simp
    | succ i =>
      have hlt : i < l.length := by simpa using h
      have hne : a ≠ l[i] := fun heq => hn.1 (heq ▸ List.getElem_mem hlt)
      simp only [List.getElem_cons_succ, if_neg hne]
      rw [ih (k + 1) hn.2 i hlt]; omega

theorem lInit_inv {α} (O : Ops α) (G : Graph) (hn : G.nodes.Nodup) : LInv G.nodes (lInit O G) := by
  have hget : ∀ i, (lInit O G).cnodes.getD i [] = if h : i < G.nodes.length then [G.nodes[i]] else [] := by
    intro i
    simp only [lInit]
    split
    · rename_i h
      rw [getD_of_lt _ (by simpa using h)]; simp
    · rename_i h
      rw [getD_of_ge _ (by simpa using h)]
  have hidx : ∀ (i : Nat) (h : i < G.nodes.length), aget (lInit O G).n2c G.nodes[i] 0 = i := by
    intro i h
    have := aget_zipIdx G.nodes 0 hn i h
    simpa [lInit] using this
  constructor
  · simp [lInit]
  · intro v hv
    obtain ⟨i, hi, rfl⟩ := List.getElem_of_mem hv
    rw [hidx i hi]; exact hi
  · intro v hv i hi
    obtain ⟨j, hj, rfl⟩ := List.getElem_of_mem hv
    rw [hget, dif_pos hi, hidx j hj, List.mem_singleton]
    constructor
    · intro he; exact nodup_getElem_inj hn hj hi he
    · intro he; subst he; rfl
  · intro i v hv
    rw [hget] at hv
    split at hv
    · simp only [List.mem_singleton] at hv; subst hv; exact List.getElem_mem _
    · cases hv
  · intro i
    rw [hget]; split <;> simp

theorem mem_aset_key {α} {m : List (Nat × α)} {k : Nat} {x : α} {p : Nat × α} (h : p ∈ aset m k x) :
    p.1 = k ∨ ∃ q ∈ m, q.1 = p.1 := by
  induction m with
  | nil => simp only [aset, List.mem_singleton] at h; subst h; exact Or.inl rfl
  | cons a m ih =>
    obtain ⟨a1, a2⟩ := a
    simp only [aset] at h
    split at h
    · rcases List.mem_cons.1 h with rfl | h
      · exact Or.inl rfl
      · exact Or.inr ⟨p, List.mem_cons_of_mem _ h, rfl⟩
    · rcases List.mem_cons.1 h with rfl | h
      · exact Or.inr ⟨_, List.mem_cons_self, rfl⟩
      · rcases ih h with h | ⟨q, hq, h⟩
        · exact Or.inl h
        · exact Or.inr ⟨q, List.mem_cons_of_mem _ hq, h⟩

theorem commEdges_keys {α} (O : Ops α) (n2c : List (Nat × Nat)) (nbrs : List Nat) :
    ∀ p ∈ commEdges O n2c nbrs, ∃ w ∈ nbrs, p.1 = aget n2c w 0 := by
  unfold commEdges
  have gen : ∀ (l : List Nat) (ce : List (Nat × α)) (P : Nat → Prop),
      (∀ p ∈ ce, P p.1) → (∀ w ∈ l, P (aget n2c w 0)) →
      ∀ p ∈ l.foldl (fun ce w =>
        let c := aget n2c w 0
        aset ce c (O.add (aget ce c (O.ofNat 0)) (O.ofNat 1))) ce, P p.1 := by
    intro l
    induction l with
    | nil => intro ce P h _ p hp; exact h p hp
    | cons w l ih =>
      intro ce P h hl p hp
      rw [List.foldl_cons] at hp
      refine ih _ P ?_ (fun x hx => hl x (List.mem_cons_of_mem _ hx)) p hp
      intro q hq
      rcases mem_aset_key hq with h1 | ⟨r, hr, h1⟩
      · rw [h1]; exact hl w List.mem_cons_self
      · rw [← h1]; exact h r hr
  intro p hp
  exact gen nbrs [] (fun c => ∃ w ∈ nbrs, c = aget n2c w 0) (by simp) (fun w hw => ⟨w, hw, rfl⟩) p hp

theorem chooseComm_mem {α} (O : Ops α) (γ tw vdeg : α) (cur : Nat) (ce : List (Nat × α)) (cdeg : List α) :
    chooseComm O γ tw vdeg cur ce cdeg = cur ∨ ∃ p ∈ ce, chooseComm O γ tw vdeg cur ce cdeg = p.1 := by
  have gen : ∀ (l : List (Nat × α)) (init : Nat × α),
      (l.foldl (fun (bg : Nat × α) p =>
        let gain := lGain O γ tw vdeg p.2 (cdeg.getD p.1 (O.ofNat 0))
        if O.lt bg.2 gain then (p.1, gain) else bg) init).1 = init.1 ∨
      ∃ p ∈ l, (l.foldl (fun (bg : Nat × α) p =>
        let gain := lGain O γ tw vdeg p.2 (cdeg.getD p.1 (O.ofNat 0))
        if O.lt bg.2 gain then (p.1, gain) else bg) init).1 = p.1 := by
    intro l
    induction l with
    | nil => intro init; exact Or.inl rfl
    | cons q l ih =>
      intro init
      rw [List.foldl_cons]
      simp only
      by_cases hlt : O.lt init.2 (lGain O γ tw vdeg q.2 (cdeg.getD q.1 (O.ofNat 0))) = true
      · rw [if_pos hlt]
        rcases ih (q.1, lGain O γ tw vdeg q.2 (cdeg.getD q.1 (O.ofNat 0))) with h | ⟨p, hp, h⟩
        · exact Or.inr ⟨q, List.mem_cons_self, h⟩
        · exact Or.inr ⟨p, List.mem_cons_of_mem _ hp, h⟩
      · rw [if_neg hlt]
        rcases ih init with h | ⟨p, hp, h⟩
        · exact Or.inl h
        · exact Or.inr ⟨p, List.mem_cons_of_mem _ hp, h⟩
  unfold chooseComm
  simp only
  rcases gen ce (cur, O.ofNat 0) with h | ⟨p, hp, h⟩
  · left
    split
    · split
      · rfl
      · exact h
    · exact h
  · split
    · split
      · exact Or.inl rfl
      · exact Or.inr ⟨p, hp, h⟩
    · exact Or.inr ⟨p, hp, h⟩

theorem lNodeStep_inv {α} (O : Ops α) (G : Graph) (γ tw : α) {st : LSt α} (h : LInv G.nodes st)
    {v : Nat} (hv : v ∈ G.nodes) : LInv G.nodes (lNodeStep O G.sadj γ tw st v).1 := by
  have hbest : chooseComm O γ tw (O.ofNat (G.sadj v).length) (aget st.n2c v 0)
      (commEdges O st.n2c (G.sadj v))
      (lRemove O st v (aget st.n2c v 0) (O.ofNat (G.sadj v).length)).cdeg < G.nodes.length := by
    rcases chooseComm_mem O γ tw (O.ofNat (G.sadj v).length) (aget st.n2c v 0)
      (commEdges O st.n2c (G.sadj v))
      (lRemove O st v (aget st.n2c v 0) (O.ofNat (G.sadj v).length)).cdeg with h1 | ⟨p, hp, h1⟩
    · rw [h1]; exact h.lt v hv
    · rw [h1]
      obtain ⟨w, hw, hpw⟩ := commEdges_keys O st.n2c (G.sadj v) p hp
      rw [hpw]; exact h.lt w (sadj_sub G hw)
  exact moveNode_inv O h hv hbest _

theorem lPass_inv {α} (O : Ops α) (G : Graph) (γ tw : α) {st : LSt α} (h : LInv G.nodes st) :
    LInv G.nodes (lPass O G.sadj γ tw G.nodes st).1 := by
  unfold lPass
  have gen : ∀ (l : List Nat) (acc : LSt α × Bool), (∀ v ∈ l, v ∈ G.nodes) → LInv G.nodes acc.1 →
      LInv G.nodes (l.foldl (fun (acc : LSt α × Bool) v =>
        let r := lNodeStep O G.sadj γ tw acc.1 v
        (r.1, acc.2 || r.2)) acc).1 := by
    intro l
    induction l with
    | nil => intro acc _ h; exact h
    | cons v l ih =>
      intro acc hl hacc
      rw [List.foldl_cons]
      exact ih _ (fun x hx => hl x (List.mem_cons_of_mem _ hx))
        (lNodeStep_inv O G γ tw hacc (hl v List.mem_cons_self))
  exact gen G.nodes (st, false) (fun v hv => hv) h

theorem lLoop_inv {α} (O : Ops α) (G : Graph) (γ tw : α) : ∀ (fuel : Nat) (st : LSt α) (it : Nat),
    LInv G.nodes st → ∀ r, lLoop O G.sadj γ tw G.nodes fuel st it = some r → LInv G.nodes r.1 := by
  intro fuel
  induction fuel with
  | zero => intro st it _ r hr; simp [lLoop] at hr
  | succ f ih =>
    intro st it h r hr
    unfold lLoop at hr
    simp only at hr
    split at hr
    · exact ih _ _ (lPass_inv O G γ tw h) r hr
    · simp only [Option.some.injEq] at hr
      subst hr
      exact lPass_inv O G γ tw h

theorem partition_of_inv {α} {nodes : List Nat} {st : LSt α} (h : LInv nodes st) :
    IsPartition nodes (st.cnodes.filter fun c => !c.isEmpty) := by
  have hget : ∀ c ∈ st.cnodes, ∃ i, i < nodes.length ∧ c = st.cnodes.getD i [] := by
    intro c hc
    obtain ⟨i, hi, rfl⟩ := List.getElem_of_mem hc
    exact ⟨i, h.len ▸ hi, (getD_of_lt _ hi []).symm⟩
  constructor
  · intro c hc
    have := (List.mem_filter.1 hc).2
    intro hnil; subst hnil; simp at this
  · intro c hc
    obtain ⟨i, _, rfl⟩ := hget c (List.mem_filter.1 hc).1
    exact h.nodup i
  · intro c hc v hv
    obtain ⟨i, _, rfl⟩ := hget c (List.mem_filter.1 hc).1
    exact h.sub i v hv
  · intro v hv
    have hlt := h.lt v hv
    have hmem : v ∈ st.cnodes.getD (aget st.n2c v 0) [] := (h.iff v hv _ hlt).2 rfl
    have hlt' : aget st.n2c v 0 < st.cnodes.length := h.len ▸ hlt
    rw [getD_of_lt _ hlt'] at hmem
    refine ⟨_, List.mem_filter.2 ⟨List.getElem_mem hlt', ?_⟩, hmem⟩
    cases hq : st.cnodes[aget st.n2c v 0] with
    | nil => rw [hq] at hmem; cases hmem
    | cons a l => rfl
  · apply List.Pairwise.filter
    rw [List.pairwise_iff_getElem]
    intro i j hi hj hij v hvi hvj
    have hi' : i < nodes.length := h.len ▸ hi
    have hj' : j < nodes.length := h.len ▸ hj
    rw [← getD_of_lt _ hi []] at hvi
    rw [← getD_of_lt _ hj []] at hvj
    have hvn := h.sub i v hvi
    have e1 := (h.iff v hvn i hi').1 hvi
    have e2 := (h.iff v hvn j hj').1 hvj
    omega

theorem singletons_partition {nodes : List Nat} (hn : nodes.Nodup) :
    IsPartition nodes (nodes.map fun v => [v]) := by
  constructor
  · intro c hc; obtain ⟨v, _, rfl⟩ := List.mem_map.1 hc; simp
  · intro c hc; obtain ⟨v, _, rfl⟩ := List.mem_map.1 hc; simp
  · intro c hc v hv
    obtain ⟨u, hu, rfl⟩ := List.mem_map.1 hc
    simp only [List.mem_singleton] at hv; subst hv; exact hu
  · intro v hv; exact ⟨[v], List.mem_map.2 ⟨v, hv, rfl⟩, by simp⟩
  · rw [List.pairwise_map]
    refine hn.imp ?_
    intro a b hab v hv hv'
    simp only [List.mem_singleton] at hv hv'
    exact hab (hv ▸ hv')

/-! ### repeated deletion computes the greatest set with all degrees ≥ k -/

theorem nodup_subset_length {l1 l2 : List Nat} (h : l1.Nodup) (hs : ∀ x ∈ l1, x ∈ l2) :
    l1.length ≤ l2.length :=
  length_le_of_inj (fun a b => a = b) l1 l2
    (h.imp (fun hab _ _ h1 h2 => hab (h1.trans h2.symm))) (fun a ha => ⟨a, hs a ha, rfl⟩)

theorem degIn_mono (G : Graph) {T S : List Nat} (hT : T.Nodup) (hsub : ∀ x ∈ T, x ∈ S) (v : Nat) :
    degIn G T v ≤ degIn G S v := by
  unfold degIn
  apply nodup_subset_length (hT.sublist List.filter_sublist)
  intro x hx
  rw [List.mem_filter] at hx ⊢
  exact ⟨hsub x hx.1, hx.2⟩

theorem degIn_le_length (G : Graph) (S : List Nat) (v : Nat) : degIn G S v ≤ S.length :=
  List.length_filter_le _ _

theorem peel_spec (G : Graph) (k : Nat) : ∀ (fuel : Nat) (S : List Nat), S.length ≤ fuel →
    (peel G k fuel S).Sublist S ∧
    (∀ v ∈ peel G k fuel S, k ≤ degIn G (peel G k fuel S) v) ∧
    (∀ T : List Nat, T.Nodup → (∀ v ∈ T, v ∈ S) → (∀ v ∈ T, k ≤ degIn G T v) →
      ∀ v ∈ T, v ∈ peel G k fuel S) := by
  intro fuel
  induction fuel with
  | zero =>
    intro S hS
    have : S = [] := List.eq_nil_of_length_eq_zero (Nat.le_zero.1 hS)
    subst this
    exact ⟨List.Sublist.refl _, by simp [peel], fun T _ hsub _ v hv => hsub v hv⟩
  | succ f ih =>
    intro S hS
    unfold peel
    simp only
    split
    · rename_i heq
      have heq' : (peelRound G k S).length = S.length := by simpa using heq
      refine ⟨List.Sublist.refl _, ?_, fun T _ hsub _ v hv => hsub v hv⟩
      intro v hv
      have := (List.length_filter_eq_length_iff.1 heq') v hv
      simpa using this
    · rename_i hne
      have hne' : (peelRound G k S).length ≠ S.length := by simpa using hne
      have hle : (peelRound G k S).length ≤ S.length := List.length_filter_le _ _
      obtain ⟨h1, h2, h3⟩ := ih (peelRound G k S) (by omega)
      refine ⟨h1.trans List.filter_sublist, h2, ?_⟩
      intro T hT hsub hdeg
      apply h3 T hT _ hdeg
      intro v hv
      unfold peelRound
      rw [List.mem_filter]
      exact ⟨hsub v hv, by simpa using Nat.le_trans (hdeg v hv) (degIn_mono G hT hsub v)⟩

theorem kcoreDef_zero (G : Graph) : kcoreDef G 0 = G.nodes := by
  unfold kcoreDef
  cases h : G.nodes.length with
  | zero => rfl
  | succ n =>
    unfold peel
    have : peelRound G 0 G.nodes = G.nodes := by
      unfold peelRound; rw [List.filter_eq_self]; intro a _; simp
    simp [this]

theorem foldl_last (P : Nat → Bool) : ∀ m : Nat,
    (∀ k, k < m → P k = true → k ≤ (List.range m).foldl (fun best k => if P k then k else best) 0) ∧
    ((List.range m).foldl (fun best k => if P k then k else best) 0 = 0 ∨
      P ((List.range m).foldl (fun best k => if P k then k else best) 0) = true) := by
  intro m
  induction m with
  | zero => simp
  | succ m ih =>
    rw [List.range_succ, List.foldl_append]
    simp only [List.foldl_cons, List.foldl_nil]
    by_cases hp : P m = true
    · simp only [hp, if_true]
      exact ⟨fun k hk _ => by omega, Or.inr trivial⟩
    · simp only [hp]
      refine ⟨?_, ih.2⟩
      intro k hk hpk
      have : k ≠ m := fun h => hp (h ▸ hpk)
      exact ih.1 k (by omega) hpk

/-! ### low-link DFS: what is reported is a node / an edge -/

theorem foldl_pres {σ β} (P : σ → Prop) (f : σ → β → σ) (l : List β)
    (h : ∀ s w, w ∈ l → P s → P (f s w)) (s : σ) (hs : P s) : P (l.foldl f s) := by
  induction l generalizing s with
  | nil => exact hs
  | cons a l ih =>
    rw [List.foldl_cons]
    exact ih (fun s w hw => h s w (List.mem_cons_of_mem _ hw)) _ (h s a List.mem_cons_self hs)

/-- everything in `ap` is a node, everything in `bridge_list` is an edge `(a, b)` with `a < b` -/
def DOk (G : Graph) (st : DSt) : Prop :=
  (∀ x ∈ st.ap, x ∈ G.nodes) ∧ (∀ e ∈ st.br, e.1 < e.2 ∧ e.2 ∈ G.sadj e.1)

theorem DOk_noteAp (G : Graph) (st : DSt) (c : Bool) (v : Nat) (hv : v ∈ G.nodes) (h : DOk G st) :
    DOk G (noteAp st c v) := by
  unfold noteAp
  split
  · refine ⟨?_, h.2⟩
    intro x hx
    rcases mem_addSet.1 hx with hx | rfl
    · exact h.1 x hx
    · exact hv
  · exact h

theorem DOk_noteBr (G : Graph) (st : DSt) (c : Bool) (e : Nat × Nat) (h : DOk G st)
    (he : e.1 < e.2 ∧ e.2 ∈ G.sadj e.1) : DOk G (noteBr st c e) := by
  unfold noteBr
  split
  · refine ⟨h.1, ?_⟩
    intro x hx
    rcases List.mem_append.1 hx with hx | hx
    · exact h.2 x hx
    · simp only [List.mem_singleton] at hx
      subst hx; exact he
  · exact h

theorem dfs_ok (G : Graph) : ∀ (fuel v : Nat) (st : DSt), v ∈ G.nodes → DOk G st →
    DOk G (dfs G.sadj fuel v st) := by
  intro fuel
  induction fuel with
  | zero => intro v st _ h; exact h
  | succ f ih =>
    intro v st hv h
    unfold dfs
    refine foldl_pres (fun (acc : DSt × Nat) => DOk G acc.1) _ (G.sadj v) ?_ _ h
    intro acc w hw hacc
    have hwn : w ∈ G.nodes := sadj_sub G hw
    have hvw : v ≠ w := ((mem_sadj G v w).1 hw).1
    have hsym : v ∈ G.sadj w := by
      rw [mem_sadj]; exact ⟨fun e => hvw e.symm, ((mem_sadj G v w).1 hw).2.symm⟩
    unfold dfsStep
    simp only
    split
    · have h1 : DOk G (dfs G.sadj f w { acc.1 with parent := aset acc.1.parent w (some v) }) :=
        ih w _ hwn hacc
      apply DOk_noteBr
      · apply DOk_noteAp _ _ _ _ hv
        exact h1
      · split
        · rename_i hlt; exact ⟨hlt, hw⟩
        · rename_i hlt; exact ⟨by omega, hsym⟩
    · split
      · exact hacc
      · exact hacc

theorem lowlink_ok (G : Graph) :
    (∀ x ∈ (lowlink G).1, x ∈ G.nodes) ∧ (∀ e ∈ (lowlink G).2, e.1 < e.2 ∧ e.2 ∈ G.sadj e.1) := by
  unfold lowlink
  split
  · simp
  · simp only
    have : DOk G (G.nodes.foldl (fun (st : DSt) v =>
        if hasKey st.disc v then st
        else dfs G.sadj (G.nodes.length + 1) v { st with parent := aset st.parent v none }) {}) := by
      refine foldl_pres (DOk G) _ G.nodes ?_ _ ⟨by simp, by simp⟩
      intro s v hv hs
      split
      · exact hs
      · exact dfs_ok G _ v _ hv hs
    exact this

end Solvor.Net
