import Solvor.Net.Model
/-! Net: helper lemmas (core Lean only): association lists, components, partitions, adjacency,
repeated deletion.  The `Rat` lemmas for PageRank/modularity are in `RatLemmas.lean`. -/
namespace Solvor.Net

/-! ### association lists, `modAt`, `addSet` -/

theorem aget_aset {α} (m : List (Nat × α)) (k k' : Nat) (x d : α) :
    aget (aset m k x) k' d = if k = k' then x else aget m k' d := by
  induction m with
  | nil => simp [aset, aget]
  | cons p m ih =>
    obtain ⟨a, b⟩ := p
    simp only [aset]
    by_cases h : a = k
    · subst h; simp only [if_true, aget]; split <;> rfl
    · simp only [if_neg h, aget, ih]
      by_cases h2 : a = k'
      · subst h2; simp [Ne.symm h]
      · simp [h2]

theorem length_modAt {α} (f : α → α) (l : List α) (i : Nat) : (modAt f l i).length = l.length := by
  induction l generalizing i with
  | nil => rfl
  | cons x xs ih => cases i <;> simp [modAt, ih]

theorem getD_modAt {α} (f : α → α) (l : List α) (i j : Nat) (d : α) :
    (modAt f l i).getD j d = if j = i ∧ j < l.length then f (l.getD j d) else l.getD j d := by
  induction l generalizing i j with
  | nil => simp [modAt]
  | cons x xs ih =>
    cases i with
    | zero =>
      cases j with
      | zero => simp [modAt]
      | succ j => simp [modAt]
    | succ i =>
      cases j with
      | zero => simp [modAt]
      | succ j =>
        simp only [modAt, List.getD_cons_succ, ih, List.length_cons, Nat.add_lt_add_iff_right,
          Nat.add_right_cancel_iff]

theorem mem_addSet {l : List Nat} {v x : Nat} : x ∈ addSet l v ↔ x ∈ l ∨ x = v := by
  unfold addSet; split
  · rename_i h
    have hv : v ∈ l := by simpa using h
    constructor
    · intro hx; exact Or.inl hx
    · rintro (hx | rfl); exact hx; exact hv
  · simp

theorem nodup_addSet {l : List Nat} {v : Nat} (h : l.Nodup) : (addSet l v).Nodup := by
  unfold addSet; split
  · exact h
  · rename_i hc
    have hv : v ∉ l := by simpa using hc
    rw [List.nodup_append]
    refine ⟨h, by simp, ?_⟩
    intro a ha b hb
    simp only [List.mem_singleton] at hb
    subst hb; intro hab; subst hab; exact hv ha

theorem length_filter_split {α} (p : α → Bool) (l : List α) :
    l.length = (l.filter p).length + (l.filter fun a => !p a).length := by
  induction l with
  | nil => rfl
  | cons a l ih =>
    by_cases h : p a = true
    · simp [h]; omega
    · simp [h]; omega

/-! ### reachability -/

variable {nodes : List Nat} {arc : Nat → Nat → Bool}

theorem linked_iff {S : List Nat} {w : Nat} :
    linked arc S w = true ↔ ∃ u ∈ S, (arc u w || arc w u) = true := by
  simp [linked]

theorem Reach.trans {a b c : Nat} (h1 : Reach nodes arc a b) (h2 : Reach nodes arc b c) :
    Reach nodes arc a c := by
  induction h2 with
  | refl => exact h1
  | step _ hv hw hl ih => exact Reach.step ih hv hw hl

theorem Reach.single {a b : Nat} (ha : a ∈ nodes) (hb : b ∈ nodes) (hl : (arc a b || arc b a) = true) :
    Reach nodes arc a b := Reach.step (Reach.refl a) ha hb hl

theorem Reach.symm {a b : Nat} (h : Reach nodes arc a b) : Reach nodes arc b a := by
  induction h with
  | refl => exact Reach.refl _
  | step _ hv hw hl ih =>
    exact Reach.trans (Reach.single hw hv (by rw [Bool.or_comm]; exact hl)) ih

theorem Reach.mem {a b : Nat} (h : Reach nodes arc a b) (ha : a ∈ nodes) : b ∈ nodes := by
  cases h with
  | refl => exact ha
  | step _ _ hw _ => exact hw

/-- the sweep loop returns a set containing `S`, inside the reachability class, closed under links -/
theorem grow_spec (s : Nat) : ∀ (fuel : Nat) (rest S : List Nat),
    (∀ x ∈ S, Reach nodes arc s x ∧ x ∈ nodes) →
    (∀ w ∈ nodes, w ∈ S ∨ w ∈ rest) → (∀ w ∈ rest, w ∈ nodes) → rest.length ≤ fuel →
    (∀ x ∈ S, x ∈ grow arc fuel rest S) ∧
    (∀ x ∈ grow arc fuel rest S, Reach nodes arc s x ∧ x ∈ nodes) ∧
    (∀ x ∈ grow arc fuel rest S, ∀ w ∈ nodes, (arc x w || arc w x) = true → w ∈ grow arc fuel rest S) := by
  intro fuel
  induction fuel with
  | zero =>
    intro rest S h1 h3 _ h5
    have hr : rest = [] := List.eq_nil_of_length_eq_zero (Nat.le_zero.1 h5)
    subst hr
    refine ⟨fun x hx => hx, h1, ?_⟩
    intro x _ w hw _
    rcases h3 w hw with h | h
    · exact h
    · cases h
  | succ f ih =>
    intro rest S h1 h3 h4 h5
    unfold grow
    simp only
    split
    · rename_i hemp
      refine ⟨fun x hx => hx, h1, ?_⟩
      intro x hx w hw hl
      rcases h3 w hw with h | h
      · exact h
      · exfalso
        have : w ∈ rest.filter (linked arc S) := by
          rw [List.mem_filter]; exact ⟨h, linked_iff.2 ⟨x, hx, hl⟩⟩
        rw [List.isEmpty_iff] at hemp
        rw [hemp] at this; cases this
    · rename_i hne
      have hlen : (rest.filter fun w => !linked arc S w).length ≤ f := by
        have hsum := length_filter_split (linked arc S) rest
        have hpos : 0 < (rest.filter (linked arc S)).length := by
          cases hq : rest.filter (linked arc S) with
          | nil => rw [hq] at hne; simp at hne
          | cons a as => simp
        omega
      have hrec := ih (rest.filter fun w => !linked arc S w) (S ++ rest.filter (linked arc S))
        (by
          intro x hx
          rcases List.mem_append.1 hx with hx | hx
          · exact h1 x hx
          · rw [List.mem_filter] at hx
            obtain ⟨u, hu, hl⟩ := linked_iff.1 hx.2
            exact ⟨Reach.step (h1 u hu).1 (h1 u hu).2 (h4 x hx.1) hl, h4 x hx.1⟩)
        (by
          intro w hw
          rcases h3 w hw with h | h
          · left; exact List.mem_append_left _ h
          · by_cases hl : linked arc S w = true
            · left; exact List.mem_append_right _ (List.mem_filter.2 ⟨h, hl⟩)
            · right; exact List.mem_filter.2 ⟨h, by simp [hl]⟩)
        (fun w hw => h4 w (List.mem_filter.1 hw).1) hlen
      exact ⟨fun x hx => hrec.1 x (List.mem_append_left _ hx), hrec.2.1, hrec.2.2⟩

theorem mem_closure_iff {s : Nat} (hs : s ∈ nodes) (w : Nat) :
    w ∈ closure nodes arc s ↔ Reach nodes arc s w := by
  have h := grow_spec (nodes := nodes) (arc := arc) s nodes.length (nodes.filter (· != s)) [s]
    (by intro x hx; simp only [List.mem_singleton] at hx; subst hx; exact ⟨Reach.refl _, hs⟩)
    (by
      intro w hw
      by_cases h : w = s
      · left; simp [h]
      · right; exact List.mem_filter.2 ⟨hw, by simpa using h⟩)
    (fun w hw => (List.mem_filter.1 hw).1) (List.length_filter_le _ _)
  unfold closure
  constructor
  · intro hw; exact (h.2.1 w hw).1
  · intro hr
    induction hr with
    | refl => exact h.1 s (by simp)
    | step _ _ hw hl ih => exact h.2.2 _ ih _ hw hl

/-- the three facts that make `comps` "the list of connected components" -/
structure CompsOk (nodes : List Nat) (arc : Nat → Nat → Bool) (C : List (List Nat)) : Prop where
  classes  : ∀ c ∈ C, ∃ r ∈ nodes, ∀ w, w ∈ c ↔ Reach nodes arc r w
  disjoint : C.Pairwise (fun a b => ∀ v ∈ a, v ∉ b)

theorem compsAux_spec : ∀ (l : List Nat) (acc : List (List Nat)),
    (∀ v ∈ l, v ∈ nodes) → CompsOk nodes arc acc →
    CompsOk nodes arc (compsAux nodes arc l acc) ∧
    (∀ c ∈ acc, c ∈ compsAux nodes arc l acc) ∧
    (∀ v ∈ l, ∃ c ∈ compsAux nodes arc l acc, v ∈ c) := by
  intro l
  induction l with
  | nil => intro acc _ h; exact ⟨h, fun c hc => hc, by simp⟩
  | cons v vs ih =>
    intro acc hl hacc
    have hvs : ∀ x ∈ vs, x ∈ nodes := fun x hx => hl x (List.mem_cons_of_mem _ hx)
    have hv : v ∈ nodes := hl v List.mem_cons_self
    unfold compsAux
    split
    · rename_i hcov
      obtain ⟨h1, h2, h3⟩ := ih acc hvs hacc
      refine ⟨h1, h2, ?_⟩
      intro x hx
      rcases List.mem_cons.1 hx with rfl | hx
      · obtain ⟨c, hc, hvc⟩ := List.any_eq_true.1 hcov
        exact ⟨c, h2 c hc, by simpa using hvc⟩
      · exact h3 x hx
    · rename_i hcov
      have hnot : ∀ c ∈ acc, v ∉ c := by
        intro c hc hvc
        exact hcov (List.any_eq_true.2 ⟨c, hc, by simpa using hvc⟩)
      have hnew : CompsOk nodes arc (acc ++ [closure nodes arc v]) := by
        constructor
        · intro c hc
          rcases List.mem_append.1 hc with hc | hc
          · exact hacc.classes c hc
          · simp only [List.mem_singleton] at hc
            subst hc
            exact ⟨v, hv, mem_closure_iff hv⟩
        · rw [List.pairwise_append]
          refine ⟨hacc.disjoint, by simp, ?_⟩
          intro a ha b hb x hxa hxb
          simp only [List.mem_singleton] at hb
          subst hb
          obtain ⟨r, _, hr⟩ := hacc.classes a ha
          have h1 : Reach nodes arc r x := (hr x).1 hxa
          have h2 : Reach nodes arc v x := (mem_closure_iff hv x).1 hxb
          exact hnot a ha ((hr v).2 (h1.trans h2.symm))
      obtain ⟨h1, h2, h3⟩ := ih _ hvs hnew
      refine ⟨h1, fun c hc => h2 c (List.mem_append_left _ hc), ?_⟩
      intro x hx
      rcases List.mem_cons.1 hx with rfl | hx
      · exact ⟨closure nodes arc x, h2 _ (by simp), (mem_closure_iff hv x).2 (Reach.refl _)⟩
      · exact h3 x hx

/-- counting through an injective relation -/
theorem length_le_of_inj {α β} [BEq β] [LawfulBEq β] (Rel : α → β → Prop) :
    ∀ (A : List α) (B : List β),
    A.Pairwise (fun a a' => ∀ b ∈ B, Rel a b → ¬ Rel a' b) →
    (∀ a ∈ A, ∃ b ∈ B, Rel a b) → A.length ≤ B.length := by
  intro A
  induction A with
  | nil => intro B _ _; simp
  | cons a A ih =>
    intro B hp hex
    obtain ⟨b, hb, hab⟩ := hex a List.mem_cons_self
    rw [List.pairwise_cons] at hp
    have h := ih (B.erase b)
      (hp.2.imp (fun {x y} hxy b' hb' => hxy b' (List.mem_of_mem_erase hb')))
      (by
        intro a' ha'
        obtain ⟨b', hb', hab'⟩ := hex a' (List.mem_cons_of_mem _ ha')
        have hne : b' ≠ b := by
          intro heq; subst heq
          exact hp.1 a' ha' b' hb' hab hab'
        exact ⟨b', (List.mem_erase_of_ne hne).2 hb', hab'⟩)
    rw [List.length_erase_of_mem hb] at h
    have : 0 < B.length := List.length_pos_of_mem hb
    simp only [List.length_cons]
    omega

/-- a *transversal*: one node of every reachability class -/
structure IsTransversal (nodes : List Nat) (arc : Nat → Nat → Bool) (R : List Nat) : Prop where
  sub   : ∀ r ∈ R, r ∈ nodes
  apart : R.Pairwise (fun r r' => ¬ Reach nodes arc r r')
  cover : ∀ v ∈ nodes, ∃ r ∈ R, Reach nodes arc r v

end Solvor.Net
