import Solvor.Net.Lemmas
import Solvor.Net.RatLemmas
import Solvor.Net.Kcore
import Solvor.Net.Lowlink
/-!
Net: the property theorems of C15 (helper lemmas are in `Lemmas.lean` / `RatLemmas.lean`).
-/
namespace Solvor.Net

/-! ## T-spec: the component count the definitions of cut vertex / bridge are evaluated with -/

/-- C15 [C] `components_count_correct`: `comps nodes arc` is the list of connected components of
the symmetric closure of `arc` restricted to `nodes` – every entry is exactly the reachability class
of a node, the entries are pairwise disjoint and cover the node set – and `compCount`, its length,
is *the* number of components: every transversal of the reachability classes has that length. -/
theorem components_count_correct (nodes : List Nat) (arc : Nat → Nat → Bool) :
    (∀ c ∈ comps nodes arc, ∃ r ∈ nodes, ∀ w, w ∈ c ↔ Reach nodes arc r w) ∧
    (comps nodes arc).Pairwise (fun a b => ∀ v ∈ a, v ∉ b) ∧
    (∀ v ∈ nodes, ∃ c ∈ comps nodes arc, v ∈ c) ∧
    (∀ R, IsTransversal nodes arc R → R.length = compCount nodes arc) := by
  obtain ⟨hok, _, hcov⟩ := compsAux_spec (nodes := nodes) (arc := arc) nodes []
    (fun v hv => hv) ⟨by simp, by simp⟩
  refine ⟨hok.classes, hok.disjoint, hcov, ?_⟩
  intro R hR
  unfold compCount
  have hC : ∀ c ∈ comps nodes arc, ∃ r ∈ nodes, ∀ w, w ∈ c ↔ Reach nodes arc r w := hok.classes
  apply Nat.le_antisymm
  · -- R → comps
    apply length_le_of_inj (fun (r : Nat) (c : List Nat) => r ∈ c) R (comps nodes arc)
    · refine hR.apart.imp ?_
      intro r r' hrr c hc hrc hr'c
      obtain ⟨r0, _, h0⟩ := hC c hc
      exact hrr (((h0 r).1 hrc).symm.trans ((h0 r').1 hr'c))
    · intro r hr; exact hcov r (hR.sub r hr)
  · -- comps → R
    apply length_le_of_inj (fun (c : List Nat) (r : Nat) => r ∈ c) (comps nodes arc) R
    · refine hok.disjoint.imp ?_
      intro a b hab r _ hra hrb
      exact hab r hra hrb
    · intro c hc
      obtain ⟨r0, hr0, h0⟩ := hC c hc
      obtain ⟨r, hr, hrr⟩ := hR.cover r0 hr0
      exact ⟨r, hr, (h0 r).2 hrr.symm⟩

/-- non-vacuity: a path 0–1–2 (listed from one side only) plus the isolated node 3 -/
example : comps [0, 1, 2, 3] (fun u w => (u, w) == (1, 0) || (u, w) == (1, 2)) = [[0, 1, 2], [3]] := by decide
example : IsTransversal [0, 1, 2, 3] (fun u w => (u, w) == (1, 0) || (u, w) == (1, 2)) [2, 3] := by
  have h := components_count_correct [0, 1, 2, 3] (fun u w => (u, w) == (1, 0) || (u, w) == (1, 2))
  refine ⟨by simp, ?_, ?_⟩
  · simp only [List.pairwise_cons, List.mem_singleton, forall_eq, List.not_mem_nil, false_imp_iff,
      implies_true, List.Pairwise.nil, and_true]
    intro hr
    have := (mem_closure_iff (nodes := [0, 1, 2, 3])
      (arc := fun u w => (u, w) == (1, 0) || (u, w) == (1, 2)) (s := 2) (by simp) 3).2 hr
    revert this; decide
  · intro v hv
    have h2 : ∀ w, w ∈ closure [0, 1, 2, 3] (fun u w => (u, w) == (1, 0) || (u, w) == (1, 2)) 2 →
        Reach [0, 1, 2, 3] (fun u w => (u, w) == (1, 0) || (u, w) == (1, 2)) 2 w :=
      fun w => (mem_closure_iff (by simp) w).1
    simp only [List.mem_cons, List.not_mem_nil, or_false] at hv
    rcases hv with rfl | rfl | rfl | rfl
    · exact ⟨2, by simp, h2 0 (by decide)⟩
    · exact ⟨2, by simp, h2 1 (by decide)⟩
    · exact ⟨2, by simp, Reach.refl _⟩
    · exact ⟨3, by simp, Reach.refl _⟩

/-! ## Low-link DFS (`articulation_points`, `bridges`) -/

/-- C15 [S] `lowlink_correct`: for distinct nodes and any neighbour lists, the mirror of the (repaired)
low-link DFS returns exactly the definitional cut vertices and bridges – the vertices / edges
`(a, b)`, `a < b`, whose removal increases the number of connected components (`compCount`,
`components_count_correct`) of the symmetric closure of the neighbour relation – and lists no bridge
twice. -/
theorem lowlink_correct (G : Graph) (hn : G.nodes.Nodup) :
    (∀ v, v ∈ (lowlink G).1 ↔ v ∈ cutVerticesDef G) ∧
    (∀ e, e ∈ (lowlink G).2 ↔ e ∈ bridgesDef G) ∧ (lowlink G).2.Nodup := by
  obtain ⟨h1, h2, h3⟩ := lowlink_spec G hn
  refine ⟨?_, ?_, h3⟩
  · intro v
    rw [h1]
    unfold cutVerticesDef
    rw [List.mem_filter]
    constructor
    · intro hc
      have hv : v ∈ G.nodes := by
        obtain ⟨n1, _, hn1, _⟩ := hc
        exact (G.A_mem hn1).1
      exact ⟨hv, (isCutVertex_iff G v hv).2 hc⟩
    · rintro ⟨hv, hc⟩
      exact (isCutVertex_iff G v hv).1 hc
  · intro e
    rw [h2]
    unfold bridgesDef
    simp only [List.mem_flatMap, List.mem_map, List.mem_filter, Bool.and_eq_true, decide_eq_true_eq]
    constructor
    · rintro ⟨a, b, rfl, hb⟩
      have hm := G.A_mem hb.1
      have hne := G.A_ne hb.1
      by_cases hab : a < b
      · refine ⟨a, hm.1, b, ⟨hm.2, hab, (isBridge_iff G a b).2 hb⟩, ?_⟩
        simp [canon, hab]
      · have hba : b < a := by omega
        refine ⟨b, hm.2, a, ⟨hm.1, hba, (isBridge_iff G b a).2 (BridgeSpec_symm G hb)⟩, ?_⟩
        simp [canon, hab]
    · rintro ⟨a, _, b, ⟨_, hab, hbr⟩, rfl⟩
      exact ⟨a, b, by simp [canon, hab], (isBridge_iff G a b).1 hbr⟩

/-- Elementary part (no `Nodup` needed): every vertex the mirror reports is a node, every reported bridge `(a, b)` has
`a < b` and is an edge of the symmetric closure of the neighbour relation. -/
theorem lowlink_partial (G : Graph) :
    (∀ x ∈ (lowlink G).1, x ∈ G.nodes) ∧
    (∀ e ∈ (lowlink G).2, e.1 < e.2 ∧ (G.arc e.1 e.2 = true ∨ G.arc e.2 e.1 = true)) := by
  obtain ⟨h1, h2⟩ := lowlink_ok G
  refine ⟨h1, fun e he => ⟨(h2 e he).1, ((mem_sadj G e.1 e.2).1 (h2 e he).2).2⟩⟩

/-- non-vacuity / the defect's witness on the repaired mirror: no cut vertex, no bridge
(`nodes=[1,3,2,4,0]`, `0→[2] 1→[1,4,0] 2→[4,1] 3→[] 4→[2]`), and a path with both -/
def exAP : Graph := ⟨[1, 3, 2, 4, 0], fun v => if v = 0 then [2] else if v = 1 then [1, 4, 0] else
  if v = 2 then [4, 1] else if v = 4 then [2] else []⟩
example : lowlink exAP = ([], []) ∧ cutVerticesDef exAP = [] ∧ bridgesDef exAP = [] := by decide
example : lowlink ⟨[0, 1, 2], fun v => if v = 1 then [0, 2] else []⟩ = ([1], [(1, 2), (0, 1)]) ∧
    cutVerticesDef ⟨[0, 1, 2], fun v => if v = 1 then [0, 2] else []⟩ = [1] ∧
    bridgesDef ⟨[0, 1, 2], fun v => if v = 1 then [0, 2] else []⟩ = [(0, 1), (1, 2)] := by decide

/-! ## T-spec: core numbers by repeated deletion -/

/-- `kcoreDef G k` (literal repeated deletion of nodes of degree below `k`) is the *greatest* set of
nodes in which every node has at least `k` neighbours inside the set – the k-core of the module's
docstring ("the maximal subgraph where every node has degree at least k"). -/
theorem kcoreDef_greatest (G : Graph) (k : Nat) :
    (kcoreDef G k).Sublist G.nodes ∧
    (∀ v ∈ kcoreDef G k, k ≤ degIn G (kcoreDef G k) v) ∧
    (∀ T : List Nat, T.Nodup → (∀ v ∈ T, v ∈ G.nodes) → (∀ v ∈ T, k ≤ degIn G T v) →
      ∀ v ∈ T, v ∈ kcoreDef G k) :=
  peel_spec G k G.nodes.length G.nodes (Nat.le_refl _)

/-- `coreNumDef G v` is the largest `k` for which `v` survives the deletion. -/
theorem coreNumDef_spec (G : Graph) (v : Nat) (hv : v ∈ G.nodes) :
    v ∈ kcoreDef G (coreNumDef G v) ∧ ∀ k, v ∈ kcoreDef G k → k ≤ coreNumDef G v := by
  have hl := foldl_last (fun k => (kcoreDef G k).contains v) (G.nodes.length + 1)
  unfold coreNumDef
  constructor
  · rcases hl.2 with h | h
    · rw [h, kcoreDef_zero]; exact hv
    · simpa using h
  · intro k hk
    have hdeg := (kcoreDef_greatest G k).2.1 v hk
    have hlen : (kcoreDef G k).length ≤ G.nodes.length := (kcoreDef_greatest G k).1.length_le
    have := degIn_le_length G (kcoreDef G k) v
    exact hl.1 k (by omega) (by simpa using hk)

/-- non-vacuity: triangle 0-1-2 with the pendant node 3 (edges listed from one side only) -/
def exKC : Graph := ⟨[3, 0, 1, 2], fun v => if v = 0 then [1, 2] else if v = 1 then [2, 1] else if v = 3 then [2] else []⟩
example : kcoreDef exKC 2 = [0, 1, 2] ∧ exKC.nodes.map (coreNumDef exKC) = [1, 2, 2, 2] := by decide

/-- C15 [S] `kcore_peeling_correct`: for distinct nodes and any neighbour lists, the bucket-peeling
mirror of `kcore_decomposition` – whatever element each `set.pop()` returns and in whatever order each
`for w in adj[v]` walks the set (any admissible oracle) – returns a dict whose keys are exactly the
nodes and whose values are the definitional core numbers (largest `k` surviving repeated deletion
of nodes of degree below `k`). -/
theorem kcore_peeling_correct (G : Graph) (hn : G.nodes.Nodup) (R : KOracle) (hR : R.Valid) :
    (∀ x, hasKey (kcoreRun R G) x = true ↔ x ∈ G.nodes) ∧
    (∀ v ∈ G.nodes, aget (kcoreRun R G) v 0 = coreNumDef G v) := by
  unfold kcoreRun
  split
  · rename_i he
    have : G.nodes = [] := List.isEmpty_iff.1 he
    simp [this, hasKey]
  · simp only
    obtain ⟨hB0, hC0⟩ := kInit_inv G hn
    obtain ⟨hB, hC⟩ := levels_inv G hn R hR _ (kInit G) hB0 hC0 (kInit G).buckets.length
    generalize (List.range (kInit G).buckets.length).foldl
      (fun st k => kLevel R G.sadj k (G.nodes.length + 1) st) (kInit G) = stF at hB hC
    have hpos : 0 < (kInit G).buckets.length := by simp [kInit]
    have hemp : ∀ w, w ∉ und G stF.core := by
      intro w hw
      have h1 := hB.deg w hw
      have h2 := hB.dle w hw
      omega
    have hall : ∀ v ∈ G.nodes, hasKey stF.core v = true := by
      intro v hv
      cases hq : hasKey stF.core v with
      | true => rfl
      | false => exact absurd (mem_und.2 ⟨hv, hq⟩) (hemp v)
    refine ⟨fun x => ⟨hC.keys x, hall x⟩, ?_⟩
    intro v hv
    obtain ⟨h1, h2⟩ := hC.done v (hall v hv)
    obtain ⟨s1, s2⟩ := coreNumDef_spec G v hv
    have hle := s2 _ h1
    rcases Nat.lt_or_ge (aget stF.core v 0) (coreNumDef G v) with hlt | hge
    · exact absurd (kcoreDef_anti G hn (by omega : aget stF.core v 0 + 1 ≤ coreNumDef G v) v s1) h2
    · omega

/-- `kcore(k)` of the mirror is the set of nodes surviving the deletion at level `k`. -/
theorem kcore_set_correct (G : Graph) (hn : G.nodes.Nodup) (R : KOracle) (hR : R.Valid) (k : Nat)
    (v : Nat) (hv : v ∈ G.nodes) :
    aget (kcoreRun R G) v 0 ≥ k ↔ v ∈ kcoreDef G k := by
  rw [(kcore_peeling_correct G hn R hR).2 v hv]
  obtain ⟨s1, s2⟩ := coreNumDef_spec G v hv
  constructor
  · intro h; exact kcoreDef_anti G hn h v s1
  · intro h; exact s2 k h

example : headOracle.Valid := by
  constructor
  · intro i l hl
    cases l with
    | nil => exact absurd rfl hl
    | cons a l => simp [headOracle]
  · intro i l; exact List.Perm.refl _
example : exKC.nodes.Nodup ∧ kcoreRun headOracle exKC = [(3, 1), (0, 2), (1, 2), (2, 2)] := by decide

/-! ## T-model: one PageRank iteration at `Rat` -/

/-- C15 [C] `pagerank_step_nonneg`: with `0 ≤ damping ≤ 1`, one iteration of the mirror (dangling
redistribution and duplicate neighbours included) maps non-negative scores to non-negative scores. -/
theorem pagerank_step_nonneg (G : Graph) (d : Rat) (s : Nat → Rat) (hd0 : 0 ≤ d) (hd1 : d ≤ 1)
    (hs : ∀ u ∈ G.nodes, 0 ≤ s u) : ∀ v, 0 ≤ prStep ratOps G d s v := by
  intro v
  rw [prStep_rat]
  have hn : (0 : Rat) ≤ (G.nodes.length : Rat) := by exact_mod_cast Nat.zero_le _
  have h1 : 0 ≤ (1 - d) / (G.nodes.length : Rat) := div_nonneg (by linarith) hn
  have h2 : 0 ≤ ((prIncoming G v).map fun u => s u / (outCount G u : Rat)).sum := by
    apply List.sum_nonneg
    intro x hx
    obtain ⟨u, hu, rfl⟩ := List.mem_map.1 hx
    have hu' : u ∈ G.nodes := by
      unfold prIncoming at hu
      obtain ⟨a, ha, hua⟩ := List.mem_flatMap.1 hu
      obtain ⟨_, _, rfl⟩ := List.mem_map.1 hua
      exact ha
    exact div_nonneg (hs u hu') (by exact_mod_cast Nat.zero_le _)
  have h3 : 0 ≤ ((G.nodes.filter fun u => outCount G u == 0).map s).sum := by
    apply List.sum_nonneg
    intro x hx
    obtain ⟨u, hu, rfl⟩ := List.mem_map.1 hx
    exact hs u (List.mem_filter.1 hu).1
  have h4 : 0 ≤ d * ((G.nodes.filter fun u => outCount G u == 0).map s).sum / (G.nodes.length : Rat) :=
    div_nonneg (mul_nonneg hd0 h3) hn
  have h5 := mul_nonneg hd0 h2
  linarith

/-- C15 [C] `pagerank_step_sum_one`: for distinct nodes, any damping, any neighbour lists (asymmetric,
self loops, duplicates, labels outside the node set, dangling nodes), one iteration of the mirror
maps scores summing to 1 to scores summing to 1. -/
theorem pagerank_step_sum_one (G : Graph) (d : Rat) (s : Nat → Rat) (hn : G.nodes.Nodup)
    (hne : G.nodes ≠ []) (hs : (G.nodes.map s).sum = 1) :
    (G.nodes.map (prStep ratOps G d s)).sum = 1 := by
  have hlen : (G.nodes.length : Rat) ≠ 0 := by
    have : G.nodes.length ≠ 0 := fun h => hne (List.eq_nil_of_length_eq_zero h)
    exact_mod_cast this
  have hfun : prStep ratOps G d s = fun v =>
      (1 - d) / (G.nodes.length : Rat)
      + d * ((prIncoming G v).map fun u => s u / (outCount G u : Rat)).sum
      + d * ((G.nodes.filter fun u => outCount G u == 0).map s).sum / (G.nodes.length : Rat) := by
    funext v; exact prStep_rat G d s v
  rw [hfun, sum_affine, rank_sum G hn (fun u => s u / (outCount G u : Rat))]
  have hsplit := sum_split_zero G.nodes (outCount G) s
  rw [hs] at hsplit
  have e1 : (G.nodes.length : Rat) * ((1 - d) / (G.nodes.length : Rat)) = 1 - d := by field_simp
  have e2 : (G.nodes.length : Rat) *
      (d * ((G.nodes.filter fun u => outCount G u == 0).map s).sum / (G.nodes.length : Rat))
      = d * ((G.nodes.filter fun u => outCount G u == 0).map s).sum := by field_simp
  rw [e1, e2]
  have : (G.nodes.map fun u => (outCount G u : Rat) * (s u / (outCount G u : Rat))).sum
      = 1 - ((G.nodes.filter fun u => outCount G u == 0).map s).sum := by linarith
  rw [this]; ring

/-- non-vacuity: duplicate neighbour, self loop, a label outside the node set and a dangling node -/
def exPR : Graph := ⟨[2, 0, 1], fun v => if v = 0 then [1, 1, 2, 7] else if v = 1 then [1, 0] else []⟩
example : exPR.nodes.Nodup ∧ exPR.nodes ≠ [] ∧ (exPR.nodes.map fun _ => (1 : Rat) / 3).sum = 1 :=
  ⟨by decide, by decide, by norm_num [exPR]⟩
example : prStep ratOps exPR (17 / 20) (fun _ => 1 / 3) 1 = 19 / 40 := by
  rw [prStep_rat]; norm_num [exPR, prIncoming, outCount]

/-- The two step theorems lifted to the returned value: for `0 ≤ damping ≤ 1`, any tolerance and any
iteration limit, the scores returned by the mirror (at `Rat`) are non-negative and sum to 1. -/
theorem pagerank_output_nonneg_sum_one (G : Graph) (d tol : Rat) (maxIter : Nat) (hn : G.nodes.Nodup)
    (hne : G.nodes ≠ []) (hd0 : 0 ≤ d) (hd1 : d ≤ 1) :
    (∀ v ∈ G.nodes, 0 ≤ aget (pagerank ratOps G d tol maxIter).scores v 0) ∧
    (G.nodes.map fun v => aget (pagerank ratOps G d tol maxIter).scores v 0).sum = 1 := by
  have hz : ratOps.ofNat 0 = 0 := by simp [ratOps]
  have loop : ∀ (r it : Nat) (sc : List (Nat × Rat)) (md : Rat),
      (∀ v ∈ G.nodes, 0 ≤ aget sc v 0) → (G.nodes.map fun v => aget sc v 0).sum = 1 →
      (∀ v ∈ G.nodes, 0 ≤ aget (prLoop ratOps G d tol r it sc md).scores v 0) ∧
      (G.nodes.map fun v => aget (prLoop ratOps G d tol r it sc md).scores v 0).sum = 1 := by
    intro r
    induction r with
    | zero => intro it sc md h1 h2; exact ⟨h1, h2⟩
    | succ r ih =>
      intro it sc md h1 h2
      have hnew : ∀ v ∈ G.nodes,
          aget (G.nodes.map fun v => (v, prStep ratOps G d (fun v => aget sc v (ratOps.ofNat 0)) v)) v 0
            = prStep ratOps G d (fun v => aget sc v 0) v := by
        intro v hv
        rw [aget_map_self G.nodes _ 0 hv, hz]
      have g1 : ∀ v ∈ G.nodes, 0 ≤
          aget (G.nodes.map fun v => (v, prStep ratOps G d (fun v => aget sc v (ratOps.ofNat 0)) v)) v 0 := by
        intro v hv
        rw [hnew v hv]
        exact pagerank_step_nonneg G d _ hd0 hd1 h1 v
      have g2 : (G.nodes.map fun v =>
          aget (G.nodes.map fun v => (v, prStep ratOps G d (fun v => aget sc v (ratOps.ofNat 0)) v)) v 0).sum = 1 := by
        rw [List.map_congr_left hnew]
        exact pagerank_step_sum_one G d _ hn hne h2
      unfold prLoop
      simp only
      split
      · exact ⟨g1, g2⟩
      · exact ih _ _ _ g1 g2
  unfold pagerank
  have hemp : G.nodes.isEmpty = false := by
    cases h : G.nodes with
    | nil => exact absurd h hne
    | cons a l => rfl
  simp only [hemp, Bool.false_eq_true, if_false]
  have hlen : (G.nodes.length : Rat) ≠ 0 := by
    have : G.nodes.length ≠ 0 := fun h => hne (List.eq_nil_of_length_eq_zero h)
    exact_mod_cast this
  have hinit : ∀ v ∈ G.nodes,
      aget (G.nodes.map fun v => (v, ratOps.div (ratOps.ofNat 1) (ratOps.ofNat G.nodes.length))) v 0
        = 1 / (G.nodes.length : Rat) := by
    intro v hv
    rw [aget_map_self G.nodes _ 0 hv]; simp [ratOps]
  apply loop
  · intro v hv
    rw [hinit v hv]
    exact div_nonneg (by norm_num) (by exact_mod_cast Nat.zero_le _)
  · rw [List.map_congr_left hinit]
    have : ∀ (l : List Nat) (c : Rat), (l.map fun _ => c).sum = (l.length : Rat) * c := by
      intro l c
      induction l with
      | nil => simp
      | cons a l ih => simp only [List.map_cons, List.sum_cons, ih, List.length_cons]; push_cast; ring
    rw [this]; field_simp

/-- C15 [S] `pagerank_contraction`: the iteration is a contraction in the L1 norm with factor
`damping` (so for damping < 1 the damped PageRank equation has exactly one solution and the power
iteration converges to it). -/
theorem pagerank_contraction (G : Graph) (d : Rat) (x y : Nat → Rat) (hn : G.nodes.Nodup)
    (hne : G.nodes ≠ []) (hd0 : 0 ≤ d) :
    (G.nodes.map fun v => |prStep ratOps G d x v - prStep ratOps G d y v|).sum
      ≤ d * (G.nodes.map fun v => |x v - y v|).sum := by
  have hlen : (0 : Rat) < (G.nodes.length : Rat) := by
    have : 0 < G.nodes.length := List.length_pos_of_ne_nil hne
    exact_mod_cast this
  -- pointwise bound
  have hpt : ∀ v, |prStep ratOps G d x v - prStep ratOps G d y v| ≤
      0 + d * ((prIncoming G v).map fun u => |x u - y u| / (outCount G u : Rat)).sum
      + d * ((G.nodes.filter fun u => outCount G u == 0).map fun u => |x u - y u|).sum / (G.nodes.length : Rat) := by
    intro v
    rw [prStep_rat, prStep_rat]
    have e : ∀ (l : List Nat) (f g : Nat → Rat), (l.map f).sum - (l.map g).sum = (l.map fun u => f u - g u).sum := by
      intro l f g
      induction l with
      | nil => simp
      | cons a l ih => simp only [List.map_cons, List.sum_cons, ← ih]; ring
    have hrw : (1 - d) / (G.nodes.length : Rat)
        + d * ((prIncoming G v).map fun u => x u / (outCount G u : Rat)).sum
        + d * ((G.nodes.filter fun u => outCount G u == 0).map x).sum / (G.nodes.length : Rat)
        - ((1 - d) / (G.nodes.length : Rat)
        + d * ((prIncoming G v).map fun u => y u / (outCount G u : Rat)).sum
        + d * ((G.nodes.filter fun u => outCount G u == 0).map y).sum / (G.nodes.length : Rat))
        = d * ((prIncoming G v).map fun u => (x u - y u) / (outCount G u : Rat)).sum
        + d * ((G.nodes.filter fun u => outCount G u == 0).map fun u => x u - y u).sum / (G.nodes.length : Rat) := by
      have e1 := e (prIncoming G v) (fun u => x u / (outCount G u : Rat)) (fun u => y u / (outCount G u : Rat))
      have e2 := e (G.nodes.filter fun u => outCount G u == 0) x y
      have : (fun u => x u / (outCount G u : Rat) - y u / (outCount G u : Rat))
          = fun u => (x u - y u) / (outCount G u : Rat) := by funext u; ring
      rw [this] at e1
      rw [← e1, ← e2]; ring
    rw [hrw]
    have tri : ∀ (l : List Nat) (f : Nat → Rat), |(l.map f).sum| ≤ (l.map fun u => |f u|).sum := by
      intro l f
      induction l with
      | nil => simp
      | cons a l ih =>
        simp only [List.map_cons, List.sum_cons]
        exact (abs_add_le _ _).trans (by linarith)
    have t1 := tri (prIncoming G v) (fun u => (x u - y u) / (outCount G u : Rat))
    have t2 := tri (G.nodes.filter fun u => outCount G u == 0) (fun u => x u - y u)
    have habs : ∀ u, |(x u - y u) / (outCount G u : Rat)| = |x u - y u| / (outCount G u : Rat) := by
      intro u
      rw [abs_div, abs_of_nonneg (by exact_mod_cast Nat.zero_le _ : (0 : Rat) ≤ (outCount G u : Rat))]
    simp only [habs] at t1
    calc |d * ((prIncoming G v).map fun u => (x u - y u) / (outCount G u : Rat)).sum
          + d * ((G.nodes.filter fun u => outCount G u == 0).map fun u => x u - y u).sum / (G.nodes.length : Rat)|
        ≤ |d * ((prIncoming G v).map fun u => (x u - y u) / (outCount G u : Rat)).sum|
          + |d * ((G.nodes.filter fun u => outCount G u == 0).map fun u => x u - y u).sum / (G.nodes.length : Rat)| :=
          abs_add_le _ _
      _ = d * |((prIncoming G v).map fun u => (x u - y u) / (outCount G u : Rat)).sum|
          + d * |((G.nodes.filter fun u => outCount G u == 0).map fun u => x u - y u).sum| / (G.nodes.length : Rat) := by
          rw [abs_mul, abs_div, abs_mul, abs_of_nonneg hd0, abs_of_pos hlen]
      _ ≤ _ := by
          have a1 := mul_le_mul_of_nonneg_left t1 hd0
          have a2 := div_le_div_of_nonneg_right (mul_le_mul_of_nonneg_left t2 hd0) (le_of_lt hlen)
          linarith
  have hsum : ∀ (l : List Nat) (f g : Nat → Rat), (∀ v, f v ≤ g v) → (l.map f).sum ≤ (l.map g).sum := by
    intro l f g h
    induction l with
    | nil => simp
    | cons a l ih => simp only [List.map_cons, List.sum_cons]; linarith [h a]
  refine (hsum _ _ _ hpt).trans ?_
  rw [sum_affine, rank_sum G hn (fun u => |x u - y u| / (outCount G u : Rat))]
  have hsplit := sum_split_zero G.nodes (outCount G) (fun u => |x u - y u|)
  have e2 : (G.nodes.length : Rat) *
      (d * ((G.nodes.filter fun u => outCount G u == 0).map fun u => |x u - y u|).sum / (G.nodes.length : Rat))
      = d * ((G.nodes.filter fun u => outCount G u == 0).map fun u => |x u - y u|).sum := by
    field_simp
  rw [e2, ← hsplit]
  apply le_of_eq; ring

/-- Consequence used by R_prop: when the stopping rule `max |new − old| < tol` fires (`new` = one
step from `old`), `new` satisfies the damped PageRank equation within `damping · n · tol` at every node. -/
theorem pagerank_residual_bound (G : Graph) (d tol : Rat) (old : Nat → Rat) (hn : G.nodes.Nodup)
    (hd0 : 0 ≤ d) (hstop : ∀ v ∈ G.nodes, |prStep ratOps G d old v - old v| ≤ tol) :
    ∀ v ∈ G.nodes, |prStep ratOps G d (prStep ratOps G d old) v - prStep ratOps G d old v|
      ≤ d * ((G.nodes.length : Rat) * tol) := by
  intro v hv
  have hne : G.nodes ≠ [] := List.ne_nil_of_mem hv
  have hc := pagerank_contraction G d (prStep ratOps G d old) old hn hne hd0
  have hmem : ∀ (l : List Nat) (f : Nat → Rat), (∀ u, 0 ≤ f u) → ∀ u ∈ l, f u ≤ (l.map f).sum := by
    intro l f hf
    induction l with
    | nil => intro u hu; cases hu
    | cons a l ih =>
      intro u hu
      simp only [List.map_cons, List.sum_cons]
      have hnn : 0 ≤ (l.map f).sum := List.sum_nonneg (by
        intro z hz; obtain ⟨w, _, rfl⟩ := List.mem_map.1 hz; exact hf w)
      rcases List.mem_cons.1 hu with rfl | hu
      · linarith
      · have := ih u hu; linarith [hf a]
  have hle : ∀ (l : List Nat) (f : Nat → Rat) (c : Rat), (∀ u ∈ l, f u ≤ c) → (l.map f).sum ≤ (l.length : Rat) * c := by
    intro l f c h
    induction l with
    | nil => simp
    | cons a l ih =>
      simp only [List.map_cons, List.sum_cons, List.length_cons]
      have := ih (fun u hu => h u (List.mem_cons_of_mem _ hu))
      have := h a List.mem_cons_self
      push_cast; linarith
  have h1 := hmem G.nodes (fun v => |prStep ratOps G d (prStep ratOps G d old) v - prStep ratOps G d old v|)
    (fun u => abs_nonneg _) v hv
  have h2 := hle G.nodes (fun v => |prStep ratOps G d old v - old v|) tol hstop
  have h3 := mul_le_mul_of_nonneg_left h2 hd0
  linarith

example : exPR.nodes.Nodup ∧ exPR.nodes ≠ [] ∧ (0 : Rat) ≤ 17 / 20 := ⟨by decide, by decide, by norm_num⟩
/-- non-vacuity of the stopping hypothesis: the uniform vector is stationary on the directed 3-cycle -/
example : ∀ v ∈ [0, 1, 2], prStep ratOps ⟨[0, 1, 2], fun v => [(v + 1) % 3]⟩ (17 / 20) (fun _ => 1 / 3) v = 1 / 3 := by
  decide +kernel

/-! ## T-spec: the PageRank checker -/

theorem ratOps_abs (a : Rat) : ratOps.abs a = |a| := by
  simp only [ratOps]
  split
  · rename_i h; rw [abs_of_neg h]
  · rename_i h; rw [abs_of_nonneg (not_lt.1 h)]

/-- The Boolean checker evaluated on the implementation's scores (converted exactly to rationals)
decides: all scores non-negative, `|Σ − 1| ≤ eps`, and at every node the damped PageRank equation
with uniform redistribution of the dangling mass
`p v = (1−d)/n + d·Σ_{u → v} p u / out u + d·(Σ_{out u = 0} p u)/n`
(every occurrence of `v` in `neighbors(u)` counted) holds within `bound`. -/
theorem prCheck_iff (G : Graph) (d : Rat) (s : Nat → Rat) (eps bound : Rat) :
    prCheck G d s eps bound = true ↔
      (∀ v ∈ G.nodes, 0 ≤ s v) ∧ |(G.nodes.map s).sum - 1| ≤ eps ∧
      ∀ v ∈ G.nodes, |s v - ((1 - d) / (G.nodes.length : Rat)
        + d * ((prIncoming G v).map fun u => s u / (outCount G u : Rat)).sum
        + d * ((G.nodes.filter fun u => outCount G u == 0).map s).sum / (G.nodes.length : Rat))| ≤ bound := by
  unfold prCheck
  simp only [Bool.and_eq_true, List.all_eq_true, decide_eq_true_eq, ratOps_abs, prStep_rat]
  constructor
  · rintro ⟨⟨h1, h2⟩, h3⟩; exact ⟨h1, h2, h3⟩
  · rintro ⟨h1, h2, h3⟩; exact ⟨⟨h1, h2⟩, h3⟩

/-- non-vacuity: the exact stationary vector of the directed 3-cycle passes with zero slack -/
example : prCheck ⟨[0, 1, 2], fun v => [(v + 1) % 3]⟩ (17 / 20) (fun _ => 1 / 3) 0 0 = true := by decide +kernel

/-! ## T-spec: the partition checker -/

/-- The Boolean checker evaluated on the implementation's communities decides `IsPartition`. -/
theorem isPartition_iff (nodes : List Nat) (P : List (List Nat)) :
    isPartition nodes P = true ↔ IsPartition nodes P := by
  unfold isPartition
  simp only [Bool.and_eq_true, List.all_eq_true, List.any_eq_true, decide_eq_true_eq,
    Bool.not_eq_eq_eq_not, Bool.not_true, List.isEmpty_eq_false_iff, List.contains_iff_mem]
  constructor
  · rintro ⟨⟨h1, h2⟩, h3⟩
    exact ⟨fun c hc => (h1 c hc).1.1, fun c hc => (h1 c hc).1.2, fun c hc => (h1 c hc).2,
      fun v hv => h2 v hv, h3⟩
  · intro h
    exact ⟨⟨fun c hc => ⟨⟨h.nonempty c hc, h.nodup c hc⟩, h.sub c hc⟩, fun v hv => h.cover v hv⟩, h.disjoint⟩

example : IsPartition [4, 0, 2] [[0, 4], [2]] := (isPartition_iff _ _).1 (by decide)
example : ¬ IsPartition [4, 0, 2] [[0, 4], [2, 4]] := fun h => by
  have := (isPartition_iff _ _).2 h; revert this; decide

/-! ## T-model: Louvain bookkeeping and reported modularity -/

/-- C15 [C] `louvain_partition_inv`: `node_to_comm` / `comm_nodes` (`LInv`: node `v` is in
`comm_nodes[i]` iff `node_to_comm[v] = i`, communities are duplicate-free subsets of the node set)
hold initially and are preserved by the bookkeeping of *every* move – whatever community `best < n`
is chosen and whatever the scalar type – hence by every node step, pass and run of the mirror; and
the non-empty communities of any state satisfying it form a partition of the node set. -/
theorem louvain_partition_inv {α} (O : Ops α) (G : Graph) (hn : G.nodes.Nodup) :
    LInv G.nodes (lInit O G) ∧
    (∀ (st : LSt α) (v best : Nat) (vdeg : α), LInv G.nodes st → v ∈ G.nodes → best < G.nodes.length →
      LInv G.nodes (moveNode O st v best vdeg)) ∧
    (∀ (γ tw : α) (st : LSt α) (v : Nat), LInv G.nodes st → v ∈ G.nodes →
      LInv G.nodes (lNodeStep O G.sadj γ tw st v).1) ∧
    (∀ (st : LSt α), LInv G.nodes st → IsPartition G.nodes (st.cnodes.filter fun c => !c.isEmpty)) :=
  ⟨lInit_inv O G hn, fun _ _ _ vdeg h hv hb => moveNode_inv O h hv hb vdeg,
   fun γ tw _ _ h hv => lNodeStep_inv O G γ tw h hv, fun _ h => partition_of_inv h⟩

/-- C15: whatever `louvain`'s mirror returns (any scalar type, any resolution, any fuel, every early
exit included) is a partition of the node set. -/
theorem louvain_output_partition {α} (O : Ops α) (G : Graph) (γ : α) (fuel : Nat) (hn : G.nodes.Nodup)
    (out : LvOut α) (h : louvain O G γ fuel = some out) : IsPartition G.nodes out.comms := by
  unfold louvain at h
  split at h
  · rename_i hnil
    simp only [Option.some.injEq] at h; subst h
    rw [hnil]; exact ⟨by simp, by simp, by simp, by simp, by simp⟩
  · rename_i v hv
    simp only [Option.some.injEq] at h; subst h
    rw [hv]; exact singletons_partition (nodes := [v]) (by simp)
  · simp only at h
    split at h
    · simp only [Option.some.injEq] at h; subst h
      exact singletons_partition hn
    · split at h
      · cases h
      · rename_i st it hloop
        simp only [Option.some.injEq] at h; subst h
        exact partition_of_inv (lLoop_inv O G γ _ fuel _ 0 (lInit_inv O G hn) (st, it) hloop)

/-- C15 [C] `modularity_reported_eq`: the modularity reported by the mirror (final computation of
`louvain` over the adjacency it built, at `Rat`) equals the modularity formula
`Σ_c [L_c/m − γ (D_c/2m)²]` of the returned partition, stated directly on the symmetric closure of
the neighbour relation (`m = 0`: both sides are 0, the value the code reports for edgeless graphs). -/
theorem modularity_reported_eq (G : Graph) (γ : Rat) (fuel : Nat) (hn : G.nodes.Nodup)
    (out : LvOut Rat) (h : louvain ratOps G γ fuel = some out) :
    out.modularity = modularityDef G γ out.comms := by
  unfold louvain at h
  split at h
  · rename_i hnil
    simp only [Option.some.injEq] at h; subst h
    simp [modularityDef, ratOps]
  · rename_i v hv
    simp only [Option.some.injEq] at h; subst h
    rw [modularityDef_zero]
    · simp [ratOps]
    · simp [degDef, degIn, hv]
  · simp only at h
    split at h
    · rename_i hm
      simp only [Option.some.injEq] at h; subst h
      rw [modularityDef_zero]
      · simp [ratOps]
      · rw [← degsum_eq G hn G.nodes]; simpa using hm
    · split at h
      · cases h
      · simp only [Option.some.injEq] at h; subst h
        exact reportMod_eq G hn γ _

/-- non-vacuity: two triangles joined by an edge, every edge listed from one side only -/
def exLV : Graph := ⟨[0, 1, 2, 3, 4, 5], fun v =>
  if v = 0 then [1, 2] else if v = 1 then [2] else if v = 2 then [3] else if v = 3 then [4, 5]
  else if v = 4 then [5] else []⟩
example : exLV.nodes.Nodup := by decide
example : (louvain ratOps exLV 1 50).map (fun o => (o.comms, o.modularity)) = some ([[0, 1, 2], [3, 4, 5]], 5 / 14) := by
  decide +kernel

end Solvor.Net
