import Solvor.Net.Model
/-! Net: property theorems only (helper lemmas live in Lemmas.lean). -/
namespace Solvor.Net

end Solvor.Net
