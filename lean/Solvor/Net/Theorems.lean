import Solvor.Net.Lemmas
/-!
Net: the property theorems of C15 (helper lemmas are in `Lemmas.lean` / `RatLemmas.lean`).
-/
namespace Solvor.Net

/-! ## T-spec: the component count the definitions of cut vertex / bridge are evaluated with -/

/-- C15 [C] `components_count_correct`: `comps nodes arc` is the list of connected components of
the symmetric closure of `arc` restricted to `nodes` – every entry is exactly the reachability class
of a node, the entries are pairwise disjoint and cover the node set – and `compCount`, its length,
is *the* number of components: every transversal of the reachability classes has that length. -/
theorem components_count_correct (nodes : List Nat) (arc : Nat → Nat → Bool) :
    (∀ c ∈ comps nodes arc, ∃ r ∈ nodes, ∀ w, w ∈ c ↔ Reach nodes arc r w) ∧
    (comps nodes arc).Pairwise (fun a b => ∀ v ∈ a, v ∉ b) ∧
    (∀ v ∈ nodes, ∃ c ∈ comps nodes arc, v ∈ c) ∧
    (∀ R, IsTransversal nodes arc R → R.length = compCount nodes arc) := by
  obtain ⟨hok, _, hcov⟩ := compsAux_spec (nodes := nodes) (arc := arc) nodes []
    (fun v hv => hv) ⟨by simp, by simp⟩
  refine ⟨hok.classes, hok.disjoint, hcov, ?_⟩
  intro R hR
  unfold compCount
  change R.length = (comps nodes arc).length
  have hC : ∀ c ∈ comps nodes arc, ∃ r ∈ nodes, ∀ w, w ∈ c ↔ Reach nodes arc r w := hok.classes
  apply Nat.le_antisymm
  · -- R → comps
    apply length_le_of_inj (fun (r : Nat) (c : List Nat) => r ∈ c) R (comps nodes arc)
    · refine hR.apart.imp ?_
      intro r r' hrr c hc hrc hr'c
      obtain ⟨r0, _, h0⟩ := hC c hc
      exact hrr (((h0 r).1 hrc).symm.trans ((h0 r').1 hr'c))
    · intro r hr; exact hcov r (hR.sub r hr)
  · -- comps → R
    apply length_le_of_inj (fun (c : List Nat) (r : Nat) => r ∈ c) (comps nodes arc) R
    · refine hok.disjoint.imp ?_
      intro a b hab r _ hra hrb
      exact hab r hra hrb
    · intro c hc
      obtain ⟨r0, hr0, h0⟩ := hC c hc
      obtain ⟨r, hr, hrr⟩ := hR.cover r0 hr0
      exact ⟨r, hr, (h0 r).2 hrr.symm⟩

/-- non-vacuity: a path 0–1–2 (listed from one side only) plus the isolated node 3 -/
example : comps [0, 1, 2, 3] (fun u w => (u, w) == (1, 0) || (u, w) == (1, 2)) = [[0, 1, 2], [3]] := by decide
example : IsTransversal [0, 1, 2, 3] (fun u w => (u, w) == (1, 0) || (u, w) == (1, 2)) [2, 3] := by
  have h := components_count_correct [0, 1, 2, 3] (fun u w => (u, w) == (1, 0) || (u, w) == (1, 2))
  refine ⟨by simp, ?_, ?_⟩
  · simp only [List.pairwise_cons, List.mem_singleton, forall_eq, List.not_mem_nil, false_imp_iff,
      implies_true, List.Pairwise.nil, and_true]
    intro hr
    have := (mem_closure_iff (nodes := [0, 1, 2, 3])
      (arc := fun u w => (u, w) == (1, 0) || (u, w) == (1, 2)) (s := 2) (by simp) 3).2 hr
    revert this; decide
  · intro v hv
    have h2 : ∀ w, w ∈ closure [0, 1, 2, 3] (fun u w => (u, w) == (1, 0) || (u, w) == (1, 2)) 2 →
        Reach [0, 1, 2, 3] (fun u w => (u, w) == (1, 0) || (u, w) == (1, 2)) 2 w :=
      fun w => (mem_closure_iff (by simp) w).1
    simp only [List.mem_cons, List.not_mem_nil, or_false] at hv
    rcases hv with rfl | rfl | rfl | rfl
    · exact ⟨2, by simp, h2 0 (by decide)⟩
    · exact ⟨2, by simp, h2 1 (by decide)⟩
    · exact ⟨2, by simp, Reach.refl _⟩
    · exact ⟨3, by simp, Reach.refl _⟩

end Solvor.Net
