import Solvor.Net.Lemmas
import Solvor.Net.RatLemmas
/-!
Net: the property theorems of C15 (helper lemmas are in `Lemmas.lean` / `RatLemmas.lean`).
-/
namespace Solvor.Net

/-! ## T-spec: the component count the definitions of cut vertex / bridge are evaluated with -/

/-- C15 [C] `components_count_correct`: `comps nodes arc` is the list of connected components of
the symmetric closure of `arc` restricted to `nodes` – every entry is exactly the reachability class
of a node, the entries are pairwise disjoint and cover the node set – and `compCount`, its length,
is *the* number of components: every transversal of the reachability classes has that length. -/
theorem components_count_correct (nodes : List Nat) (arc : Nat → Nat → Bool) :
    (∀ c ∈ comps nodes arc, ∃ r ∈ nodes, ∀ w, w ∈ c ↔ Reach nodes arc r w) ∧
    (comps nodes arc).Pairwise (fun a b => ∀ v ∈ a, v ∉ b) ∧
    (∀ v ∈ nodes, ∃ c ∈ comps nodes arc, v ∈ c) ∧
    (∀ R, IsTransversal nodes arc R → R.length = compCount nodes arc) := by
  obtain ⟨hok, _, hcov⟩ := compsAux_spec (nodes := nodes) (arc := arc) nodes []
    (fun v hv => hv) ⟨by simp, by simp⟩
  refine ⟨hok.classes, hok.disjoint, hcov, ?_⟩
  intro R hR
  unfold compCount
  change R.length = (comps nodes arc).length
  have hC : ∀ c ∈ comps nodes arc, ∃ r ∈ nodes, ∀ w, w ∈ c ↔ Reach nodes arc r w := hok.classes
  apply Nat.le_antisymm
  · -- R → comps
    apply length_le_of_inj (fun (r : Nat) (c : List Nat) => r ∈ c) R (comps nodes arc)
    · refine hR.apart.imp ?_
      intro r r' hrr c hc hrc hr'c
      obtain ⟨r0, _, h0⟩ := hC c hc
      exact hrr (((h0 r).1 hrc).symm.trans ((h0 r').1 hr'c))
    · intro r hr; exact hcov r (hR.sub r hr)
  · -- comps → R
    apply length_le_of_inj (fun (c : List Nat) (r : Nat) => r ∈ c) (comps nodes arc) R
    · refine hok.disjoint.imp ?_
      intro a b hab r _ hra hrb
      exact hab r hra hrb
    · intro c hc
      obtain ⟨r0, hr0, h0⟩ := hC c hc
      obtain ⟨r, hr, hrr⟩ := hR.cover r0 hr0
      exact ⟨r, hr, (h0 r).2 hrr.symm⟩

/-- non-vacuity: a path 0–1–2 (listed from one side only) plus the isolated node 3 -/
example : comps [0, 1, 2, 3] (fun u w => (u, w) == (1, 0) || (u, w) == (1, 2)) = [[0, 1, 2], [3]] := by decide
example : IsTransversal [0, 1, 2, 3] (fun u w => (u, w) == (1, 0) || (u, w) == (1, 2)) [2, 3] := by
  have h := components_count_correct [0, 1, 2, 3] (fun u w => (u, w) == (1, 0) || (u, w) == (1, 2))
  refine ⟨by simp, ?_, ?_⟩
  · simp only [List.pairwise_cons, List.mem_singleton, forall_eq, List.not_mem_nil, false_imp_iff,
      implies_true, List.Pairwise.nil, and_true]
    intro hr
    have := (mem_closure_iff (nodes := [0, 1, 2, 3])
      (arc := fun u w => (u, w) == (1, 0) || (u, w) == (1, 2)) (s := 2) (by simp) 3).2 hr
    revert this; decide
  · intro v hv
    have h2 : ∀ w, w ∈ closure [0, 1, 2, 3] (fun u w => (u, w) == (1, 0) || (u, w) == (1, 2)) 2 →
        Reach [0, 1, 2, 3] (fun u w => (u, w) == (1, 0) || (u, w) == (1, 2)) 2 w :=
      fun w => (mem_closure_iff (by simp) w).1
    simp only [List.mem_cons, List.not_mem_nil, or_false] at hv
    rcases hv with rfl | rfl | rfl | rfl
    · exact ⟨2, by simp, h2 0 (by decide)⟩
    · exact ⟨2, by simp, h2 1 (by decide)⟩
    · exact ⟨2, by simp, Reach.refl _⟩
    · exact ⟨3, by simp, Reach.refl _⟩

/-! ## T-model: one PageRank iteration at `Rat` -/

/-- C15 [C] `pagerank_step_nonneg`: with `0 ≤ damping ≤ 1`, one iteration of the mirror (dangling
redistribution and duplicate neighbours included) maps non-negative scores to non-negative scores. -/
theorem pagerank_step_nonneg (G : Graph) (d : Rat) (s : Nat → Rat) (hd0 : 0 ≤ d) (hd1 : d ≤ 1)
    (hs : ∀ u ∈ G.nodes, 0 ≤ s u) : ∀ v, 0 ≤ prStep ratOps G d s v := by
  intro v
  rw [prStep_rat]
  have hn : (0 : Rat) ≤ (G.nodes.length : Rat) := by exact_mod_cast Nat.zero_le _
  have h1 : 0 ≤ (1 - d) / (G.nodes.length : Rat) := div_nonneg (by linarith) hn
  have h2 : 0 ≤ ((prIncoming G v).map fun u => s u / (outCount G u : Rat)).sum := by
    apply List.sum_nonneg
    intro x hx
    obtain ⟨u, hu, rfl⟩ := List.mem_map.1 hx
    have hu' : u ∈ G.nodes := by
      unfold prIncoming at hu
      obtain ⟨a, ha, hua⟩ := List.mem_flatMap.1 hu
      obtain ⟨_, _, rfl⟩ := List.mem_map.1 hua
      exact ha
    exact div_nonneg (hs u hu') (by exact_mod_cast Nat.zero_le _)
  have h3 : 0 ≤ ((G.nodes.filter fun u => outCount G u == 0).map s).sum := by
    apply List.sum_nonneg
    intro x hx
    obtain ⟨u, hu, rfl⟩ := List.mem_map.1 hx
    exact hs u (List.mem_filter.1 hu).1
  have h4 : 0 ≤ d * ((G.nodes.filter fun u => outCount G u == 0).map s).sum / (G.nodes.length : Rat) :=
    div_nonneg (mul_nonneg hd0 h3) hn
  have h5 := mul_nonneg hd0 h2
  linarith

/-- C15 [C] `pagerank_step_sum_one`: for distinct nodes, any damping, any neighbour lists (asymmetric,
self loops, duplicates, labels outside the node set, dangling nodes), one iteration of the mirror
maps scores summing to 1 to scores summing to 1. -/
theorem pagerank_step_sum_one (G : Graph) (d : Rat) (s : Nat → Rat) (hn : G.nodes.Nodup)
    (hne : G.nodes ≠ []) (hs : (G.nodes.map s).sum = 1) :
    (G.nodes.map (prStep ratOps G d s)).sum = 1 := by
  have hlen : (G.nodes.length : Rat) ≠ 0 := by
    have : G.nodes.length ≠ 0 := fun h => hne (List.eq_nil_of_length_eq_zero h)
    exact_mod_cast this
  have hfun : prStep ratOps G d s = fun v =>
      (1 - d) / (G.nodes.length : Rat)
      + d * ((prIncoming G v).map fun u => s u / (outCount G u : Rat)).sum
      + d * ((G.nodes.filter fun u => outCount G u == 0).map s).sum / (G.nodes.length : Rat) := by
    funext v; exact prStep_rat G d s v
  rw [hfun, sum_affine, rank_sum G hn (fun u => s u / (outCount G u : Rat))]
  have hsplit := sum_split_zero G.nodes (outCount G) s
  rw [hs] at hsplit
  have e1 : (G.nodes.length : Rat) * ((1 - d) / (G.nodes.length : Rat)) = 1 - d := by field_simp
  have e2 : (G.nodes.length : Rat) *
      (d * ((G.nodes.filter fun u => outCount G u == 0).map s).sum / (G.nodes.length : Rat))
      = d * ((G.nodes.filter fun u => outCount G u == 0).map s).sum := by field_simp
  rw [e1, e2]
  have : (G.nodes.map fun u => (outCount G u : Rat) * (s u / (outCount G u : Rat))).sum
      = 1 - ((G.nodes.filter fun u => outCount G u == 0).map s).sum := by linarith
  rw [this]; ring

/-- non-vacuity: duplicate neighbour, self loop, a label outside the node set and a dangling node -/
def exPR : Graph := ⟨[2, 0, 1], fun v => if v = 0 then [1, 1, 2, 7] else if v = 1 then [1, 0] else []⟩
example : exPR.nodes.Nodup ∧ exPR.nodes ≠ [] ∧ (exPR.nodes.map fun _ => (1 : Rat) / 3).sum = 1 := by decide
example : (exPR.nodes.map (prStep ratOps exPR (17 / 20) fun _ => 1 / 3)) = [101 / 360, 19 / 72, 41 / 90] := by
  decide +kernel

/-- C15 [S] `pagerank_contraction`: the iteration is a contraction in the L1 norm with factor
`damping` (so for damping < 1 the damped PageRank equation has exactly one solution and the power
iteration converges to it). -/
theorem pagerank_contraction (G : Graph) (d : Rat) (x y : Nat → Rat) (hn : G.nodes.Nodup)
    (hne : G.nodes ≠ []) (hd0 : 0 ≤ d) :
    (G.nodes.map fun v => |prStep ratOps G d x v - prStep ratOps G d y v|).sum
      ≤ d * (G.nodes.map fun v => |x v - y v|).sum := by
  have hlen : (0 : Rat) < (G.nodes.length : Rat) := by
    have : 0 < G.nodes.length := List.length_pos_of_ne_nil hne
    exact_mod_cast this
  -- pointwise bound
  have hpt : ∀ v, |prStep ratOps G d x v - prStep ratOps G d y v| ≤
      0 + d * ((prIncoming G v).map fun u => |x u - y u| / (outCount G u : Rat)).sum
      + d * ((G.nodes.filter fun u => outCount G u == 0).map fun u => |x u - y u|).sum / (G.nodes.length : Rat) := by
    intro v
    rw [prStep_rat, prStep_rat]
    have e : ∀ (l : List Nat) (f g : Nat → Rat), (l.map f).sum - (l.map g).sum = (l.map fun u => f u - g u).sum := by
      intro l f g
      induction l with
      | nil => simp
      | cons a l ih => simp only [List.map_cons, List.sum_cons, ← ih]; ring
    have hrw : (1 - d) / (G.nodes.length : Rat)
        + d * ((prIncoming G v).map fun u => x u / (outCount G u : Rat)).sum
        + d * ((G.nodes.filter fun u => outCount G u == 0).map x).sum / (G.nodes.length : Rat)
        - ((1 - d) / (G.nodes.length : Rat)
        + d * ((prIncoming G v).map fun u => y u / (outCount G u : Rat)).sum
        + d * ((G.nodes.filter fun u => outCount G u == 0).map y).sum / (G.nodes.length : Rat))
        = d * ((prIncoming G v).map fun u => (x u - y u) / (outCount G u : Rat)).sum
        + d * ((G.nodes.filter fun u => outCount G u == 0).map fun u => x u - y u).sum / (G.nodes.length : Rat) := by
      rw [← e, ← e]
      have : ∀ u, (x u - y u) / (outCount G u : Rat) = x u / (outCount G u : Rat) - y u / (outCount G u : Rat) :=
        fun u => by ring
      simp only [this]
      rw [← e]; ring
    rw [hrw]
    have tri : ∀ (l : List Nat) (f : Nat → Rat), |(l.map f).sum| ≤ (l.map fun u => |f u|).sum := by
      intro l f
      induction l with
      | nil => simp
      | cons a l ih =>
        simp only [List.map_cons, List.sum_cons]
        exact (abs_add_le _ _).trans (by linarith)
    have t1 := tri (prIncoming G v) (fun u => (x u - y u) / (outCount G u : Rat))
    have t2 := tri (G.nodes.filter fun u => outCount G u == 0) (fun u => x u - y u)
    have habs : ∀ u, |(x u - y u) / (outCount G u : Rat)| = |x u - y u| / (outCount G u : Rat) := by
      intro u
      rw [abs_div, abs_of_nonneg (by exact_mod_cast Nat.zero_le _ : (0 : Rat) ≤ (outCount G u : Rat))]
    simp only [habs] at t1
    calc |d * ((prIncoming G v).map fun u => (x u - y u) / (outCount G u : Rat)).sum
          + d * ((G.nodes.filter fun u => outCount G u == 0).map fun u => x u - y u).sum / (G.nodes.length : Rat)|
        ≤ |d * ((prIncoming G v).map fun u => (x u - y u) / (outCount G u : Rat)).sum|
          + |d * ((G.nodes.filter fun u => outCount G u == 0).map fun u => x u - y u).sum / (G.nodes.length : Rat)| :=
          abs_add_le _ _
      _ = d * |((prIncoming G v).map fun u => (x u - y u) / (outCount G u : Rat)).sum|
          + d * |((G.nodes.filter fun u => outCount G u == 0).map fun u => x u - y u).sum| / (G.nodes.length : Rat) := by
          rw [abs_mul, abs_div, abs_mul, abs_of_nonneg hd0, abs_of_pos hlen]
      _ ≤ _ := by
          have a1 := mul_le_mul_of_nonneg_left t1 hd0
          have a2 := div_le_div_of_nonneg_right (mul_le_mul_of_nonneg_left t2 hd0) (le_of_lt hlen)
          linarith
  have hsum : ∀ (l : List Nat) (f g : Nat → Rat), (∀ v, f v ≤ g v) → (l.map f).sum ≤ (l.map g).sum := by
    intro l f g h
    induction l with
    | nil => simp
    | cons a l ih => simp only [List.map_cons, List.sum_cons]; linarith [h a]
  refine (hsum _ _ _ hpt).trans ?_
  rw [sum_affine, rank_sum G hn (fun u => |x u - y u| / (outCount G u : Rat))]
  have hsplit := sum_split_zero G.nodes (outCount G) (fun u => |x u - y u|)
  have e2 : (G.nodes.length : Rat) *
      (d * ((G.nodes.filter fun u => outCount G u == 0).map fun u => |x u - y u|).sum / (G.nodes.length : Rat))
      = d * ((G.nodes.filter fun u => outCount G u == 0).map fun u => |x u - y u|).sum := by
    field_simp
  rw [e2, ← hsplit]
  apply le_of_eq; ring

/-- Consequence used by R_prop: when the stopping rule `max |new − old| < tol` fires (`new` = one
step from `old`), `new` satisfies the damped PageRank equation within `damping · n · tol` at every node. -/
theorem pagerank_residual_bound (G : Graph) (d tol : Rat) (old : Nat → Rat) (hn : G.nodes.Nodup)
    (hd0 : 0 ≤ d) (hstop : ∀ v ∈ G.nodes, |prStep ratOps G d old v - old v| ≤ tol) :
    ∀ v ∈ G.nodes, |prStep ratOps G d (prStep ratOps G d old) v - prStep ratOps G d old v|
      ≤ d * ((G.nodes.length : Rat) * tol) := by
  intro v hv
  have hne : G.nodes ≠ [] := List.ne_nil_of_mem hv
  have hc := pagerank_contraction G d (prStep ratOps G d old) old hn hne hd0
  have hmem : ∀ (l : List Nat) (f : Nat → Rat), (∀ u, 0 ≤ f u) → ∀ u ∈ l, f u ≤ (l.map f).sum := by
    intro l f hf
    induction l with
    | nil => intro u hu; cases hu
    | cons a l ih =>
      intro u hu
      simp only [List.map_cons, List.sum_cons]
      have hnn : 0 ≤ (l.map f).sum := List.sum_nonneg (by
        intro z hz; obtain ⟨w, _, rfl⟩ := List.mem_map.1 hz; exact hf w)
      rcases List.mem_cons.1 hu with rfl | hu
      · linarith
      · have := ih u hu; linarith [hf a]
  have hle : ∀ (l : List Nat) (f : Nat → Rat) (c : Rat), (∀ u ∈ l, f u ≤ c) → (l.map f).sum ≤ (l.length : Rat) * c := by
    intro l f c h
    induction l with
    | nil => simp
    | cons a l ih =>
      simp only [List.map_cons, List.sum_cons, List.length_cons]
      have := ih (fun u hu => h u (List.mem_cons_of_mem _ hu))
      have := h a List.mem_cons_self
      push_cast; linarith
  have h1 := hmem G.nodes (fun v => |prStep ratOps G d (prStep ratOps G d old) v - prStep ratOps G d old v|)
    (fun u => abs_nonneg _) v hv
  have h2 := hle G.nodes (fun v => |prStep ratOps G d old v - old v|) tol hstop
  have h3 := mul_le_mul_of_nonneg_left h2 hd0
  simp only at h1
  linarith

example : exPR.nodes.Nodup ∧ exPR.nodes ≠ [] ∧ (0 : Rat) ≤ 17 / 20 := by decide

end Solvor.Net
