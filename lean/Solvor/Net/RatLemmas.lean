import Solvor.Net.Lemmas
import Mathlib.Tactic.Ring
import Mathlib.Tactic.Linarith
import Mathlib.Tactic.FieldSimp
import Mathlib.Algebra.Order.Field.Rat
import Mathlib.Algebra.Order.Field.Basic
import Mathlib.Algebra.Order.Ring.Abs
import Mathlib.Tactic.NormNum
import Mathlib.Algebra.Order.BigOperators.Group.List
/-! Net: `Rat` lemmas for the PageRank step and the modularity formula (single Mathlib modules). -/
namespace Solvor.Net

/-! ### sums over lists -/

theorem sum_map_add' {α} (l : List α) (f g : α → Rat) :
    (l.map fun x => f x + g x).sum = (l.map f).sum + (l.map g).sum := by
  induction l with
  | nil => simp
  | cons a l ih => simp only [List.map_cons, List.sum_cons, ih]; ring

theorem sum_map_zero' {α} (l : List α) : (l.map fun _ => (0 : Rat)).sum = 0 := by
  induction l with
  | nil => simp
  | cons a l ih => simp only [List.map_cons, List.sum_cons, ih]; ring

theorem sum_swap {α β} (l1 : List α) (l2 : List β) (f : α → β → Rat) :
    (l1.map fun v => (l2.map (f v)).sum).sum = (l2.map fun u => (l1.map fun v => f v u).sum).sum := by
  induction l1 with
  | nil => simp
  | cons a l ih =>
    simp only [List.map_cons, List.sum_cons, ih]
    rw [← sum_map_add']

theorem sum_flatMap_map {α β} (l : List α) (g : α → List β) (h : β → Rat) :
    ((l.flatMap g).map h).sum = (l.map fun u => ((g u).map h).sum).sum := by
  induction l with
  | nil => simp
  | cons a l ih => simp only [List.flatMap_cons, List.map_append, List.sum_append, List.map_cons, List.sum_cons, ih]

theorem sum_filter_const {α} (l : List Nat) (v : Nat) (u : α) (h : α → Rat) :
    (((l.filter (· == v)).map fun _ => u).map h).sum = (l.map fun w => if w == v then h u else 0).sum := by
  induction l with
  | nil => simp
  | cons a l ih =>
    cases hav : (a == v)
    · simp only [List.filter_cons, hav, Bool.false_eq_true, if_false, List.map_cons, List.sum_cons, ih, zero_add]
    · simp only [List.filter_cons, hav, if_true, List.map_cons, List.sum_cons, ih]

theorem sum_ite_mem (nodes : List Nat) (hn : nodes.Nodup) (w : Nat) (a : Rat) :
    (nodes.map fun v => if w == v then a else 0).sum = if w ∈ nodes then a else 0 := by
  induction nodes with
  | nil => simp
  | cons x l ih =>
    rw [List.nodup_cons] at hn
    simp only [List.map_cons, List.sum_cons, ih hn.2, List.mem_cons]
    by_cases hwx : w = x
    · subst hwx; simp [hn.1]
    · have : (w == x) = false := by simpa using hwx
      simp [this, hwx]

theorem sum_ite_const {α} (l : List α) (p : α → Bool) (a : Rat) :
    (l.map fun w => if p w then a else 0).sum = ((l.filter p).length : Rat) * a := by
  induction l with
  | nil => simp
  | cons x l ih =>
    by_cases hp : p x = true
    · simp only [List.map_cons, List.sum_cons, ih, hp, if_true, List.filter_cons, List.length_cons]
      push_cast; ring
    · simp only [List.map_cons, List.sum_cons, ih, hp, List.filter_cons]; simp

theorem sum_affine {α} (l : List α) (a d c : Rat) (f : α → Rat) :
    (l.map fun v => a + d * f v + c).sum = (l.length : Rat) * a + d * (l.map f).sum + (l.length : Rat) * c := by
  induction l with
  | nil => simp
  | cons x l ih =>
    simp only [List.map_cons, List.sum_cons, ih, List.length_cons]
    push_cast; ring

theorem sum_split_zero {α} (l : List α) (c : α → Nat) (s : α → Rat) :
    (l.map fun u => (c u : Rat) * (s u / (c u : Rat))).sum + ((l.filter fun u => c u == 0).map s).sum
      = (l.map s).sum := by
  induction l with
  | nil => simp
  | cons x l ih =>
    by_cases hc : c x = 0
    · simp only [List.map_cons, List.sum_cons, List.filter_cons, hc, beq_self_eq_true, if_true]
      simp only [Nat.cast_zero, zero_mul, zero_add]
      linarith
    · have hb : (c x == 0) = false := by simpa using hc
      simp only [List.map_cons, List.sum_cons, List.filter_cons, hb]
      have hne : (c x : Rat) ≠ 0 := by exact_mod_cast hc
      have : (c x : Rat) * (s x / (c x : Rat)) = s x := by field_simp
      rw [this]
      simp only [Bool.false_eq_true, if_false]
      linarith

/-! ### the PageRank step at `Rat` -/

/-- `new_scores[v]` of the mirror, read at `Rat` -/
theorem prStep_rat (G : Graph) (d : Rat) (s : Nat → Rat) (v : Nat) :
    prStep ratOps G d s v =
      (1 - d) / (G.nodes.length : Rat)
      + d * ((prIncoming G v).map fun u => s u / (outCount G u : Rat)).sum
      + d * ((G.nodes.filter fun u => outCount G u == 0).map s).sum / (G.nodes.length : Rat) := by
  simp [prStep, ratOps]

/-- double counting: summing the rank contributions over all targets gives every source's share
once per neighbour entry inside the node set (duplicates counted with multiplicity) -/
theorem rank_sum (G : Graph) (hn : G.nodes.Nodup) (t : Nat → Rat) :
    (G.nodes.map fun v => ((prIncoming G v).map t).sum).sum
      = (G.nodes.map fun u => (outCount G u : Rat) * t u).sum := by
  have h1 : ∀ v, ((prIncoming G v).map t).sum
      = (G.nodes.map fun u => ((G.nb u).map fun w => if w == v then t u else 0).sum).sum := by
    intro v
    unfold prIncoming
    rw [sum_flatMap_map]
    congr 1
    apply List.map_congr_left
    intro u _
    exact sum_filter_const (G.nb u) v u t
  simp only [h1]
  rw [sum_swap]
  congr 1
  apply List.map_congr_left
  intro u _
  rw [sum_swap]
  have h2 : ∀ w, (G.nodes.map fun v => if w == v then t u else 0).sum = if G.nodes.contains w then t u else 0 := by
    intro w
    rw [sum_ite_mem G.nodes hn w (t u)]
    simp
  simp only [h2]
  rw [sum_ite_const]
  rfl

/-! ### the modularity computation at `Rat` -/

theorem foldl_add_sum {α} (l : List α) (f : α → Rat) (a : Rat) :
    l.foldl (fun q c => q + f c) a = a + (l.map f).sum := by
  induction l generalizing a with
  | nil => simp
  | cons x l ih => simp only [List.foldl_cons, ih, List.map_cons, List.sum_cons]; ring

theorem cast_sum_map {α} (l : List α) (f : α → Nat) :
    (((l.map f).sum : Nat) : Rat) = (l.map fun x => (f x : Rat)).sum := by
  induction l with
  | nil => simp
  | cons x l ih => simp only [List.map_cons, List.sum_cons, Nat.cast_add, ih]

theorem sum_ite_filter {α} (l : List α) (p q : α → Bool) :
    ((l.filter p).map fun w => if q w then (1 : Rat) else 0).sum
      = ((l.filter fun w => p w && q w).length : Rat) := by
  induction l with
  | nil => simp
  | cons x l ih =>
    cases hp : p x <;> cases hq : q x <;>
      simp only [List.filter_cons, hp, hq, Bool.false_eq_true, if_false, if_true, List.map_cons,
        List.sum_cons, ih, Bool.and_self, Bool.and_false, Bool.and_true, List.length_cons] <;>
      push_cast <;> ring

theorem sum_flatMap_ite {α} (l1 l2 : List α) (p q : α → α → Bool) :
    ((l1.flatMap fun v => (l2.filter (p v)).map fun w => if q v w then (1 : Rat) else 0)).sum
      = ((l1.flatMap fun v => l2.filter fun w => p v w && q v w).length : Rat) := by
  induction l1 with
  | nil => simp
  | cons x l ih =>
    simp only [List.flatMap_cons, List.sum_append, List.length_append, Nat.cast_add, ih, sum_ite_filter]

/-- the total edge weight of the mirror is half the definitional degree sum -/
theorem degsum_eq (G : Graph) (hn : G.nodes.Nodup) (l : List Nat) :
    (l.map fun v => (G.sadj v).length) = l.map (degDef G) := by
  apply List.map_congr_left
  intro v _
  exact length_sadj G hn v

/-- the final modularity computation of the mirror equals the formula, for any list of communities -/
theorem reportMod_eq (G : Graph) (hn : G.nodes.Nodup) (γ : Rat) (P : List (List Nat)) :
    reportMod ratOps G.sadj γ
      (ratOps.div (ratOps.ofNat (G.nodes.map fun v => (G.sadj v).length).sum) (ratOps.ofNat 2)) P
      = modularityDef G γ P := by
  unfold reportMod modularityDef
  simp only [ratOps]
  rw [foldl_add_sum]
  simp only [Nat.cast_zero, Nat.cast_one, zero_add, Nat.cast_ofNat]
  congr 1
  apply List.map_congr_left
  intro c _
  rw [degsum_eq G hn G.nodes]
  have hL : (c.flatMap fun v => (c.filter fun w => decide (v < w)).map fun w =>
        if (G.sadj v).contains w then (1 : Rat) else 0).sum
      = ((c.flatMap fun v => c.filter fun w => decide (v < w) && (G.arc v w || G.arc w v)).length : Rat) := by
    rw [sum_flatMap_ite c c (fun v w => decide (v < w)) (fun v w => (G.sadj v).contains w)]
    congr 2
    apply List.flatMap_congr
    intro v _
    apply List.filter_congr
    intro w _
    by_cases hvw : v < w
    · have hne : v ≠ w := Nat.ne_of_lt hvw
      have := mem_sadj G v w
      simp only [hvw, decide_true, Bool.true_and]
      rw [Bool.eq_iff_iff]
      simp only [List.contains_iff_mem, Bool.or_eq_true]
      rw [this]; simp [hne]
    · simp [hvw]
  have hD : (c.map fun v => ((G.sadj v).length : Rat)).sum = (((c.map (degDef G)).sum : Nat) : Rat) := by
    rw [cast_sum_map]
    congr 1
    apply List.map_congr_left
    intro v _
    rw [length_sadj G hn v]; rfl
  rw [hL, hD]

theorem modularityDef_zero (G : Graph) (γ : Rat) (P : List (List Nat))
    (h : (G.nodes.map (degDef G)).sum = 0) : modularityDef G γ P = 0 := by
  unfold modularityDef
  simp only [h, Nat.cast_zero, zero_div, div_zero, mul_zero, sub_zero]
  exact sum_map_zero' P

end Solvor.Net
