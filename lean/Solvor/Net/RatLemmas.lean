import Solvor.Net.Lemmas
import Mathlib.Tactic.Ring
import Mathlib.Tactic.Linarith
import Mathlib.Tactic.FieldSimp
import Mathlib.Algebra.Order.Field.Rat
import Mathlib.Algebra.Order.BigOperators.Group.List
/-! Net: `Rat` lemmas for the PageRank step and the modularity formula (single Mathlib modules). -/
namespace Solvor.Net

/-! ### sums over lists -/

theorem sum_map_add' {α} (l : List α) (f g : α → Rat) :
    (l.map fun x => f x + g x).sum = (l.map f).sum + (l.map g).sum := by
  induction l with
  | nil => simp
  | cons a l ih => simp only [List.map_cons, List.sum_cons, ih]; ring

theorem sum_map_zero' {α} (l : List α) : (l.map fun _ => (0 : Rat)).sum = 0 := by
  induction l with
  | nil => simp
  | cons a l ih => simp only [List.map_cons, List.sum_cons, ih]; ring

theorem sum_swap {α β} (l1 : List α) (l2 : List β) (f : α → β → Rat) :
    (l1.map fun v => (l2.map (f v)).sum).sum = (l2.map fun u => (l1.map fun v => f v u).sum).sum := by
  induction l1 with
  | nil => simp
  | cons a l ih =>
    simp only [List.map_cons, List.sum_cons, ih]
    rw [← sum_map_add']

theorem sum_flatMap_map {α β} (l : List α) (g : α → List β) (h : β → Rat) :
    ((l.flatMap g).map h).sum = (l.map fun u => ((g u).map h).sum).sum := by
  induction l with
  | nil => simp
  | cons a l ih => simp only [List.flatMap_cons, List.map_append, List.sum_append, List.map_cons, List.sum_cons, ih]

theorem sum_filter_const {α} (l : List Nat) (v : Nat) (u : α) (h : α → Rat) :
    (((l.filter (· == v)).map fun _ => u).map h).sum = (l.map fun w => if w == v then h u else 0).sum := by
  induction l with
  | nil => simp
  | cons a l ih =>
    cases hav : (a == v)
    · simp only [List.filter_cons, hav, Bool.false_eq_true, if_false, List.map_cons, List.sum_cons, ih, zero_add]
    · simp only [List.filter_cons, hav, if_true, List.map_cons, List.sum_cons, ih]

theorem sum_ite_mem (nodes : List Nat) (hn : nodes.Nodup) (w : Nat) (a : Rat) :
    (nodes.map fun v => if w == v then a else 0).sum = if w ∈ nodes then a else 0 := by
  induction nodes with
  | nil => simp
  | cons x l ih =>
    rw [List.nodup_cons] at hn
    simp only [List.map_cons, List.sum_cons, ih hn.2, List.mem_cons]
    by_cases hwx : w = x
    · subst hwx; simp [hn.1]
    · have : (w == x) = false := by simpa using hwx
      simp [this, hwx]

theorem sum_ite_const {α} (l : List α) (p : α → Bool) (a : Rat) :
    (l.map fun w => if p w then a else 0).sum = ((l.filter p).length : Rat) * a := by
  induction l with
  | nil => simp
  | cons x l ih =>
    by_cases hp : p x = true
    · simp only [List.map_cons, List.sum_cons, ih, hp, if_true, List.filter_cons, List.length_cons]
      push_cast; ring
    · simp only [List.map_cons, List.sum_cons, ih, hp, List.filter_cons]; simp

theorem sum_affine {α} (l : List α) (a d c : Rat) (f : α → Rat) :
    (l.map fun v => a + d * f v + c).sum = (l.length : Rat) * a + d * (l.map f).sum + (l.length : Rat) * c := by
  induction l with
  | nil => simp
  | cons x l ih =>
    simp only [List.map_cons, List.sum_cons, ih, List.length_cons]
    push_cast; ring

theorem sum_split_zero {α} (l : List α) (c : α → Nat) (s : α → Rat) :
    (l.map fun u => (c u : Rat) * (s u / (c u : Rat))).sum + ((l.filter fun u => c u == 0).map s).sum
      = (l.map s).sum := by
  induction l with
  | nil => simp
  | cons x l ih =>
    by_cases hc : c x = 0
    · simp only [List.map_cons, List.sum_cons, List.filter_cons, hc, beq_self_eq_true, if_true]
      simp only [Nat.cast_zero, zero_mul, zero_add]
      linarith
    · have hb : (c x == 0) = false := by simpa using hc
      simp only [List.map_cons, List.sum_cons, List.filter_cons, hb]
      have hne : (c x : Rat) ≠ 0 := by exact_mod_cast hc
      have : (c x : Rat) * (s x / (c x : Rat)) = s x := by field_simp
      rw [this]
      simp only [Bool.false_eq_true, if_false]
      linarith

/-! ### the PageRank step at `Rat` -/

/-- `new_scores[v]` of the mirror, read at `Rat` -/
theorem prStep_rat (G : Graph) (d : Rat) (s : Nat → Rat) (v : Nat) :
    prStep ratOps G d s v =
      (1 - d) / (G.nodes.length : Rat)
      + d * ((prIncoming G v).map fun u => s u / (outCount G u : Rat)).sum
      + d * ((G.nodes.filter fun u => outCount G u == 0).map s).sum / (G.nodes.length : Rat) := by
  simp [prStep, ratOps]

/-- double counting: summing the rank contributions over all targets gives every source's share
once per neighbour entry inside the node set (duplicates counted with multiplicity) -/
theorem rank_sum (G : Graph) (hn : G.nodes.Nodup) (t : Nat → Rat) :
    (G.nodes.map fun v => ((prIncoming G v).map t).sum).sum
      = (G.nodes.map fun u => (outCount G u : Rat) * t u).sum := by
  have h1 : ∀ v, ((prIncoming G v).map t).sum
      = (G.nodes.map fun u => ((G.nb u).map fun w => if w == v then t u else 0).sum).sum := by
    intro v
    unfold prIncoming
    rw [sum_flatMap_map]
    congr 1
    apply List.map_congr_left
    intro u _
    exact sum_filter_const (G.nb u) v u t
  simp only [h1]
  rw [sum_swap]
  congr 1
  apply List.map_congr_left
  intro u _
  rw [sum_swap]
  have h2 : ∀ w, (G.nodes.map fun v => if w == v then t u else 0).sum = if G.nodes.contains w then t u else 0 := by
    intro w
    rw [sum_ite_mem G.nodes hn w (t u)]
    simp
  simp only [h2]
  rw [sum_ite_const]
  rfl

end Solvor.Net
