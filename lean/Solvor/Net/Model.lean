import Solvor.Gen.Kernels
import Solvor.Gen.NetConsts
/-!
Net (property C15): executable definitions (spec side) and mirrors of
`solvor/articulation.py`, `solvor/kcore.py`, `solvor/pagerank.py`, `solvor/community.py`.

A graph is a node list (in the order the caller iterates it) and a neighbour function on labels.
Neighbour lists may be asymmetric, contain self loops, duplicates and labels outside the node set.

Spec side ("the definitions made executable"):
* `compCount nodes arc` – number of connected components of the symmetric closure of `arc`
  restricted to `nodes` (`comps` lists the components; `closure` grows one by repeated sweeps).  `Reach` is the mathematical reachability it is proved against.
* `cutVerticesDef`, `bridgesDef` – by component counting after removal.
* `kcoreDef`, `coreNumDef` – literal repeated deletion of nodes of degree below `k`.
* `prCheck` – non-negativity, sum, and residual of the damped PageRank equation at `Rat`.
* `isPartition`, `modularityDef` – partition check and the modularity formula at `Rat`.

Mirrors (same iteration order, same tie-breaking as the Python):
* `buildAdj` – the insertion-ordered symmetric adjacency (`kcore`, `louvain`, and the repaired
  `articulation_points` / `bridges` all build it with the same double loop).
* `lowlink` – the low-link DFS of `articulation_points` and `bridges` (one traversal, both outputs).
* `kcoreRun` – bucket peeling, parametrised by an oracle for `set.pop()` and set iteration order
  (`kcoreMirror` = the first-element oracle the driver runs).
* `prStep`, `pagerank` – written once over `Ops α`; instantiated at `Rat` (theorems) and at `Float`
  (bit-level R_trace; `pySumF` is CPython 3.12's compensated `sum`).
* `louvain` – local-moving loop with the `node_to_comm` / `comm_nodes` / `comm_degree` bookkeeping
  and the final modularity computation, over `Ops α`.
No Mathlib imports.
-/
namespace Solvor.Net
open Solvor.Gen (Status)

structure Graph where
  nodes : List Nat
  nb    : Nat → List Nat

/-- the neighbour relation restricted to the node set (`if w in node_set`) -/
def Graph.arc (G : Graph) (u w : Nat) : Bool :=
  G.nodes.contains u && G.nodes.contains w && (G.nb u).contains w

/-! ## Insertion-ordered maps (Python `dict`) as association lists -/

def aget {α} : List (Nat × α) → Nat → α → α
  | [], _, d => d
  | (k', v) :: m, k, d => if k' = k then v else aget m k d

def aset {α} : List (Nat × α) → Nat → α → List (Nat × α)
  | [], k, v => [(k, v)]
  | (k', v') :: m, k, v => if k' = k then (k, v) :: m else (k', v') :: aset m k v

def hasKey {α} : List (Nat × α) → Nat → Bool
  | [], _ => false
  | (k', _) :: m, k => k' = k || hasKey m k

def modAt {α} (f : α → α) : List α → Nat → List α
  | [], _ => []
  | x :: xs, 0 => f x :: xs
  | x :: xs, i+1 => x :: modAt f xs i

/-- `set.add` on a list without duplicates -/
def addSet (l : List Nat) (v : Nat) : List Nat := if l.contains v then l else l ++ [v]

/-! ## Spec: connected components by closure under the symmetric relation -/

/-- `w` is joined to some member of `S` by an arc in either direction -/
def linked (arc : Nat → Nat → Bool) (S : List Nat) (w : Nat) : Bool :=
  S.any fun u => arc u w || arc w u

/-- Repeated sweeps: move every node of `rest` that is linked to `S` into `S`, until a sweep
moves nothing (`rest` shrinks in every productive sweep, so `rest.length` sweeps suffice). -/
def grow (arc : Nat → Nat → Bool) : Nat → List Nat → List Nat → List Nat
  | 0, _, S => S
  | f+1, rest, S =>
    let new := rest.filter (linked arc S)
    if new.isEmpty then S
    else grow arc f (rest.filter fun w => !linked arc S w) (S ++ new)

/-- the connected component of `s` inside `nodes` -/
def closure (nodes : List Nat) (arc : Nat → Nat → Bool) (s : Nat) : List Nat :=
  grow arc nodes.length (nodes.filter (· != s)) [s]

/-- component labelling: the components in node order (a node not yet inside a recorded
component starts a new one) -/
def compsAux (nodes : List Nat) (arc : Nat → Nat → Bool) : List Nat → List (List Nat) → List (List Nat)
  | [], acc => acc
  | v :: vs, acc =>
    if acc.any (·.contains v) then compsAux nodes arc vs acc
    else compsAux nodes arc vs (acc ++ [closure nodes arc v])

def comps (nodes : List Nat) (arc : Nat → Nat → Bool) : List (List Nat) := compsAux nodes arc nodes []

/-- number of connected components -/
def compCount (nodes : List Nat) (arc : Nat → Nat → Bool) : Nat := (comps nodes arc).length

/-- Reachability in the symmetric closure of `arc` restricted to `nodes`. -/
inductive Reach (nodes : List Nat) (arc : Nat → Nat → Bool) : Nat → Nat → Prop
  | refl (v : Nat) : Reach nodes arc v v
  | step {u v w : Nat} : Reach nodes arc u v → v ∈ nodes → w ∈ nodes →
      (arc v w || arc w v) = true → Reach nodes arc u w

/-! ## Spec: cut vertices and bridges by component counting after removal -/

/-- the relation with the undirected edge `{a, b}` removed -/
def arcWithout (arc : Nat → Nat → Bool) (a b : Nat) (u w : Nat) : Bool :=
  arc u w && !((u == a && w == b) || (u == b && w == a))

/-- removal of `v` increases the number of components -/
def isCutVertex (G : Graph) (v : Nat) : Bool :=
  compCount (G.nodes.filter (· != v)) G.arc > compCount G.nodes G.arc

/-- `{a, b}` is an edge and its removal increases the number of components -/
def isBridge (G : Graph) (a b : Nat) : Bool :=
  a != b && (G.arc a b || G.arc b a) &&
  compCount G.nodes (arcWithout G.arc a b) > compCount G.nodes G.arc

def cutVerticesDef (G : Graph) : List Nat := G.nodes.filter (isCutVertex G)

/-- bridges as pairs `(a, b)` with `a < b`, in node order -/
def bridgesDef (G : Graph) : List (Nat × Nat) :=
  G.nodes.flatMap fun a => (G.nodes.filter fun b => a < b && isBridge G a b).map fun b => (a, b)

/-! ## Spec: core numbers by literal repeated deletion -/

/-- number of distinct neighbours of `v` (self loops ignored) among the surviving nodes `S` -/
def degIn (G : Graph) (S : List Nat) (v : Nat) : Nat :=
  (S.filter fun w => w != v && (G.arc v w || G.arc w v)).length

/-- delete every node whose degree among the survivors is below `k` -/
def peelRound (G : Graph) (k : Nat) (S : List Nat) : List Nat :=
  S.filter fun v => decide (k ≤ degIn G S v)

/-- repeat until nothing is deleted -/
def peel (G : Graph) (k : Nat) : Nat → List Nat → List Nat
  | 0, S => S
  | f+1, S =>
    let S' := peelRound G k S
    if S'.length == S.length then S else peel G k f S'

/-- the nodes surviving repeated deletion of nodes of degree below `k` -/
def kcoreDef (G : Graph) (k : Nat) : List Nat := peel G k G.nodes.length G.nodes

/-- the largest `k ≤ n` for which `v` survives -/
def coreNumDef (G : Graph) (v : Nat) : Nat :=
  (List.range (G.nodes.length + 1)).foldl (fun best k => if (kcoreDef G k).contains v then k else best) 0

/-! ## Mirror: the symmetric insertion-ordered adjacency -/

/-- `adj[v][w] = …` on a dict used as an ordered set -/
def insNb (adj : List (Nat × List Nat)) (v w : Nat) : List (Nat × List Nat) :=
  let l := aget adj v []
  if l.contains w then adj else aset adj v (l ++ [w])

def addEdge (adj : List (Nat × List Nat)) (v w : Nat) : List (Nat × List Nat) :=
  insNb (insNb adj v w) w v

/-- `for v in node_list: for w in neighbors(v): if w in node_set and w != v: add both ways` -/
def buildAdj (G : Graph) : List (Nat × List Nat) :=
  G.nodes.foldl (fun adj v =>
    (G.nb v).foldl (fun adj w => if G.nodes.contains w && w != v then addEdge adj v w else adj) adj)
    (G.nodes.map fun v => (v, []))

/-- neighbours of `v` in the symmetrised graph, in dict order -/
def Graph.sadj (G : Graph) (v : Nat) : List Nat := aget (buildAdj G) v []

/-! ## Mirror: low-link DFS (`articulation_points`, `bridges`, repaired to walk `sadj`) -/

structure DSt where
  disc   : List (Nat × Nat) := []
  low    : List (Nat × Nat) := []
  parent : List (Nat × Option Nat) := []
  ap     : List Nat := []            -- the set `ap`, insertion order
  br     : List (Nat × Nat) := []    -- `bridge_list`
  time   : Nat := 0
  iters  : Nat := 0

/-- `if cond: ap.add(v)` -/
def noteAp (st : DSt) (cond : Bool) (v : Nat) : DSt :=
  if cond then { st with ap := addSet st.ap v } else st

/-- `if cond: bridge_list.append(e)` -/
def noteBr (st : DSt) (cond : Bool) (e : Nat × Nat) : DSt :=
  if cond then { st with br := st.br ++ [e] } else st

/-- entering `dfs(v)`: `discovery[v] = low[v] = time; time += 1` -/
def dfsEnter (st : DSt) (v : Nat) : DSt :=
  { st with iters := st.iters + 1, disc := aset st.disc v st.time,
            low := aset st.low v st.time, time := st.time + 1 }

/-- one neighbour `w` in the `for w in adj[v]` loop of `dfs(v)` (`rec` = the recursive call,
`acc.2` = `children`) -/
def dfsStep (rec : Nat → DSt → DSt) (v : Nat) (acc : DSt × Nat) (w : Nat) : DSt × Nat :=
  let st := acc.1
  let children := acc.2
  if !hasKey st.disc w then
    let st := { st with parent := aset st.parent w (some v) }
    let st := rec w st
    let lw := aget st.low w 0
    let st := { st with low := aset st.low v (min (aget st.low v 0) lw) }
    let dv := aget st.disc v 0
    -- root: two or more DFS children; non-root: low[w] >= discovery[v]
    let isAp := match aget st.parent v none with
      | none => decide (children + 1 ≥ 2)
      | some _ => decide (lw ≥ dv)
    let st := noteAp st isAp v
    let st := noteBr st (decide (lw > dv)) (if v < w then (v, w) else (w, v))
    (st, children + 1)
  else if aget st.parent v none != some w then
    ({ st with low := aset st.low v (min (aget st.low v 0) (aget st.disc w 0)) }, children)
  else acc

def dfs (adj : Nat → List Nat) : Nat → Nat → DSt → DSt
  | 0, _, st => st
  | fuel+1, v, st => ((adj v).foldl (dfsStep (dfs adj fuel) v) (dfsEnter st v, 0)).1

/-- the outer `for v in node_list: if v not in discovery` loop; returns (cut vertices, bridges) -/
def lowlink (G : Graph) : List Nat × List (Nat × Nat) :=
  if G.nodes.length ≤ 1 then ([], []) else
  let st := G.nodes.foldl (fun (st : DSt) v =>
    if hasKey st.disc v then st
    else dfs G.sadj (G.nodes.length + 1) v { st with parent := aset st.parent v none }) {}
  (st.ap, st.br)

/-! ## Mirror: k-core bucket peeling -/

structure KSt where
  degree  : List (Nat × Nat)
  buckets : List (List Nat)
  core    : List (Nat × Nat)   -- `core_number`, insertion order
  iters   : Nat

/-- What CPython leaves unspecified in `kcore_decomposition`: which element `set.pop()` returns and
in which order `for w in adj[v]` walks the set, at the `i`-th pop. -/
structure KOracle where
  pick  : Nat → List Nat → Nat
  order : Nat → List Nat → List Nat

/-- an oracle is admissible when it pops a member and iterates a permutation -/
def KOracle.Valid (R : KOracle) : Prop :=
  (∀ i l, l ≠ [] → R.pick i l ∈ l) ∧ (∀ i l, (R.order i l).Perm l)

/-- the oracle the driver runs: first element, list order -/
def headOracle : KOracle := ⟨fun _ l => l.headD 0, fun _ l => l⟩

/-- `for w in adj[v]: if w not in core_number: …` (`ns` = the order in which the set is walked) -/
def kRelax (k : Nat) (ns : List Nat) (st : KSt) : KSt :=
  ns.foldl (fun st w =>
    if hasKey st.core w then st else
    let old := aget st.degree w 0
    if old > k then
      { st with buckets := modAt (· ++ [w]) (modAt (·.erase w) st.buckets old) (max k (old - 1)),
                degree := aset st.degree w (old - 1) }
    else st) st

/-- `while buckets[k]: v = buckets[k].pop(); core_number[v] = k; …` -/
def kLevel (R : KOracle) (sadj : Nat → List Nat) (k : Nat) : Nat → KSt → KSt
  | 0, st => st
  | f+1, st =>
    let b := st.buckets.getD k []
    if b.isEmpty then st else
    let v := R.pick st.iters b
    let st' := { st with iters := st.iters + 1, buckets := modAt (·.erase v) st.buckets k,
                         core := aset st.core v k }
    kLevel R sadj k f (kRelax k (R.order st.iters (sadj v)) st')

/-- the state before the `for k in range(max_degree + 1)` loop -/
def kInit (G : Graph) : KSt :=
  let deg := G.nodes.map fun v => (v, (G.sadj v).length)
  let maxd := deg.foldl (fun m p => max m p.2) 0
  ⟨deg, (List.range (maxd + 1)).map fun d => G.nodes.filter fun v => aget deg v 0 == d, [], 0⟩

/-- `kcore_decomposition`: the dict `core_number` in insertion order -/
def kcoreRun (R : KOracle) (G : Graph) : List (Nat × Nat) :=
  if G.nodes.isEmpty then [] else
  let st0 := kInit G
  ((List.range st0.buckets.length).foldl (fun st k => kLevel R G.sadj k (G.nodes.length + 1) st) st0).core

def kcoreMirror (G : Graph) : List (Nat × Nat) := kcoreRun headOracle G

/-- `kcore(k)` -/
def kcoreSetMirror (G : Graph) (k : Nat) : List Nat :=
  ((kcoreMirror G).filter fun p => p.2 ≥ k).map (·.1)

/-! ## Scalars: one text, two instantiations -/

structure Ops (α : Type) where
  ofNat : Nat → α
  add : α → α → α
  sub : α → α → α
  mul : α → α → α
  div : α → α → α
  lt  : α → α → Bool
  le  : α → α → Bool
  abs : α → α
  sum : List α → α      -- Python's builtin `sum` over floats

def ratOps : Ops Rat where
  ofNat n := (n : Rat)
  add a b := a + b
  sub a b := a - b
  mul a b := a * b
  div a b := a / b
  lt a b := decide (a < b)
  le a b := decide (a ≤ b)
  abs a := if a < 0 then -a else a
  sum l := l.sum

/-- CPython 3.12 `sum()` on floats: the first item is added to the integer 0 (exact), the rest
goes through Neumaier's compensated summation; the compensation is added at the end. -/
def pySumF : List Float → Float
  | [] => 0.0
  | x :: rest =>
    let rc := rest.foldl (fun (rc : Float × Float) x =>
      let t := rc.1 + x
      if rc.1.abs ≥ x.abs then (t, rc.2 + ((rc.1 - t) + x)) else (t, rc.2 + ((x - t) + rc.1))) (x, 0.0)
    if rc.2 != 0.0 && rc.2.isFinite then rc.1 + rc.2 else rc.1

def floatOps : Ops Float where
  ofNat n := Float.ofNat n
  add a b := a + b
  sub a b := a - b
  mul a b := a * b
  div a b := a / b
  lt a b := decide (a < b)
  le a b := decide (a ≤ b)
  abs a := a.abs
  sum := pySumF

/-! ## Mirror: PageRank -/

/-- `incoming[v]`: every `u` (node order) once per occurrence of `v` in `neighbors(u)` -/
def prIncoming (G : Graph) (v : Nat) : List Nat :=
  G.nodes.flatMap fun u => ((G.nb u).filter (· == v)).map fun _ => u

/-- `outgoing_count[u]`: entries of `neighbors(u)` inside the node set, with multiplicity -/
def outCount (G : Graph) (u : Nat) : Nat := ((G.nb u).filter G.nodes.contains).length

/-- one iteration of the power method: `new_scores[v]` as a function of the old scores -/
def prStep {α} (O : Ops α) (G : Graph) (d : α) (s : Nat → α) (v : Nat) : α :=
  let n := O.ofNat G.nodes.length
  let base := O.div (O.sub (O.ofNat 1) d) n
  let dsum := O.sum ((G.nodes.filter fun u => outCount G u == 0).map s)
  let dc := O.div (O.mul d dsum) n
  let rank := O.sum ((prIncoming G v).map fun u => O.div (s u) (O.ofNat (outCount G u)))
  O.add (O.add base (O.mul d rank)) dc

structure PrOut (α : Type) where
  scores : List (Nat × α)
  maxDiff : α
  iters : Nat
  status : Status

def prLoop {α} (O : Ops α) (G : Graph) (d tol : α) : Nat → Nat → List (Nat × α) → α → PrOut α
  | 0, it, sc, md => ⟨sc, md, it, .MAX_ITER⟩
  | r+1, it, sc, _ =>
    let s := fun v => aget sc v (O.ofNat 0)
    let new := G.nodes.map fun v => (v, prStep O G d s v)
    let md := G.nodes.foldl (fun md v =>
      let x := O.abs (O.sub (aget new v (O.ofNat 0)) (s v))
      if O.lt md x then x else md) (O.ofNat 0)
    if O.lt md tol then ⟨new, md, it + 1, .OPTIMAL⟩ else prLoop O G d tol r (it + 1) new md

/-- `pagerank(nodes, neighbors, damping, max_iter, tol)` for `max_iter ≥ 1` -/
def pagerank {α} (O : Ops α) (G : Graph) (d tol : α) (maxIter : Nat) : PrOut α :=
  if G.nodes.isEmpty then ⟨[], O.ofNat 0, 0, .OPTIMAL⟩ else
  let init := G.nodes.map fun v => (v, O.div (O.ofNat 1) (O.ofNat G.nodes.length))
  prLoop O G d tol maxIter 0 init (O.ofNat 0)

/-- Verified-checker side: residual of the damped PageRank equation at `Rat` (largest over nodes) -/
def prResidual (G : Graph) (d : Rat) (s : Nat → Rat) : Rat :=
  G.nodes.foldl (fun m v => let x := ratOps.abs (s v - prStep ratOps G d s v); if m < x then x else m) 0

/-- scores ≥ 0, |Σ − 1| ≤ eps, every node's equation holds within `bound` -/
def prCheck (G : Graph) (d : Rat) (s : Nat → Rat) (eps bound : Rat) : Bool :=
  G.nodes.all (fun v => decide (0 ≤ s v)) &&
  decide (ratOps.abs ((G.nodes.map s).sum - 1) ≤ eps) &&
  G.nodes.all (fun v => decide (ratOps.abs (s v - prStep ratOps G d s v) ≤ bound))

/-! ## Mirror: Louvain -/

structure LSt (α : Type) where
  n2c    : List (Nat × Nat)    -- `node_to_comm`
  cnodes : List (List Nat)     -- `comm_nodes`, index = community id
  cdeg   : List α              -- `comm_degree`

/-- `comm_nodes[cur].remove(v); comm_degree[cur] -= v_degree` -/
def lRemove {α} (O : Ops α) (st : LSt α) (v cur : Nat) (vdeg : α) : LSt α :=
  { st with cnodes := modAt (·.erase v) st.cnodes cur, cdeg := modAt (O.sub · vdeg) st.cdeg cur }

/-- `node_to_comm[v] = best; comm_nodes[best].add(v); comm_degree[best] += v_degree` -/
def lInsert {α} (O : Ops α) (st : LSt α) (v best : Nat) (vdeg : α) : LSt α :=
  { n2c := aset st.n2c v best, cnodes := modAt (addSet · v) st.cnodes best,
    cdeg := modAt (O.add · vdeg) st.cdeg best }

/-- the bookkeeping of one move, whatever community was chosen -/
def moveNode {α} (O : Ops α) (st : LSt α) (v best : Nat) (vdeg : α) : LSt α :=
  lInsert O (lRemove O st v (aget st.n2c v 0) vdeg) v best vdeg

/-- `comm_edges`: insertion-ordered `defaultdict(float)` -/
def commEdges {α} (O : Ops α) (n2c : List (Nat × Nat)) (nbrs : List Nat) : List (Nat × α) :=
  nbrs.foldl (fun ce w =>
    let c := aget n2c w 0
    aset ce c (O.add (aget ce c (O.ofNat 0)) (O.ofNat 1))) []

/-- `edges - resolution * v_degree * sigma / (2 * total_weight)` -/
def lGain {α} (O : Ops α) (γ tw vdeg e sigma : α) : α :=
  O.sub e (O.div (O.mul (O.mul γ vdeg) sigma) (O.mul (O.ofNat 2) tw))

/-- best community: strict improvement over the running best in `comm_edges` order, then the
`stay_gain >= best_gain` preference for the current community (`cdeg` is after the removal) -/
def chooseComm {α} (O : Ops α) (γ tw vdeg : α) (cur : Nat) (ce : List (Nat × α)) (cdeg : List α) : Nat :=
  let z := O.ofNat 0
  let bg := ce.foldl (fun (bg : Nat × α) p =>
    let gain := lGain O γ tw vdeg p.2 (cdeg.getD p.1 z)
    if O.lt bg.2 gain then (p.1, gain) else bg) (cur, z)
  if cur != bg.1 then
    let stay := lGain O γ tw vdeg (aget ce cur z) (cdeg.getD cur z)
    if O.le bg.2 stay then cur else bg.1
  else bg.1

def lNodeStep {α} (O : Ops α) (sadj : Nat → List Nat) (γ tw : α) (st : LSt α) (v : Nat) : LSt α × Bool :=
  let cur := aget st.n2c v 0
  let vdeg := O.ofNat (sadj v).length
  let ce := commEdges O st.n2c (sadj v)
  let st1 := lRemove O st v cur vdeg
  let best := chooseComm O γ tw vdeg cur ce st1.cdeg
  (lInsert O st1 v best vdeg, best != cur)

def lPass {α} (O : Ops α) (sadj : Nat → List Nat) (γ tw : α) (nodes : List Nat) (st : LSt α) : LSt α × Bool :=
  nodes.foldl (fun (acc : LSt α × Bool) v =>
    let r := lNodeStep O sadj γ tw acc.1 v
    (r.1, acc.2 || r.2)) (st, false)

/-- `while improved:`; `none` when the fuel runs out -/
def lLoop {α} (O : Ops α) (sadj : Nat → List Nat) (γ tw : α) (nodes : List Nat) :
    Nat → LSt α → Nat → Option (LSt α × Nat)
  | 0, _, _ => none
  | f+1, st, it =>
    let r := lPass O sadj γ tw nodes st
    if r.2 then lLoop O sadj γ tw nodes f r.1 (it + 1) else some (r.1, it + 1)

/-- the final modularity computation of `louvain` -/
def reportMod {α} (O : Ops α) (sadj : Nat → List Nat) (γ tw : α) (comms : List (List Nat)) : α :=
  comms.foldl (fun q c =>
    let ew := O.sum (c.flatMap fun v => (c.filter fun w => decide (v < w)).map fun w =>
      if (sadj v).contains w then O.ofNat 1 else O.ofNat 0)
    let cd := O.sum (c.map fun v => O.ofNat (sadj v).length)
    let x := O.div cd (O.mul (O.ofNat 2) tw)
    O.add q (O.sub (O.div ew tw) (O.mul γ (O.mul x x)))) (O.ofNat 0)

structure LvOut (α : Type) where
  comms : List (List Nat)
  modularity : α
  iters : Nat

def lInit {α} (O : Ops α) (G : Graph) : LSt α :=
  { n2c := G.nodes.zipIdx.map fun p => (p.1, p.2),
    cnodes := G.nodes.map fun v => [v],
    cdeg := G.nodes.map fun v => O.ofNat (G.sadj v).length }

/-- `louvain(nodes, neighbors, resolution)`; `none` = the `while improved` loop outlived the fuel -/
def louvain {α} (O : Ops α) (G : Graph) (γ : α) (fuel : Nat) : Option (LvOut α) :=
  match G.nodes with
  | [] => some ⟨[], O.ofNat 0, 0⟩
  | [v] => some ⟨[[v]], O.ofNat 0, 0⟩
  | _ =>
    let m2 := (G.nodes.map fun v => (G.sadj v).length).sum
    if m2 == 0 then some ⟨G.nodes.map fun v => [v], O.ofNat 0, 0⟩ else
    let tw := O.div (O.ofNat m2) (O.ofNat 2)
    match lLoop O G.sadj γ tw G.nodes fuel (lInit O G) 0 with
    | none => none
    | some (st, it) =>
      let comms := st.cnodes.filter fun c => !c.isEmpty
      some ⟨comms, reportMod O G.sadj γ tw comms, it⟩

/-! ## Spec: partitions and the modularity formula -/

/-- `P` is a partition of the node set: communities non-empty, duplicate-free, inside the node
set, pairwise disjoint, and together they cover every node -/
structure IsPartition (nodes : List Nat) (P : List (List Nat)) : Prop where
  nonempty : ∀ c ∈ P, c ≠ []
  nodup    : ∀ c ∈ P, c.Nodup
  sub      : ∀ c ∈ P, ∀ v ∈ c, v ∈ nodes
  cover    : ∀ v ∈ nodes, ∃ c ∈ P, v ∈ c
  disjoint : P.Pairwise (fun a b => ∀ v ∈ a, v ∉ b)

/-- Boolean checker for `IsPartition` (evaluated on the implementation's communities) -/
def isPartition (nodes : List Nat) (P : List (List Nat)) : Bool :=
  P.all (fun c => !c.isEmpty && decide c.Nodup && c.all nodes.contains) &&
  nodes.all (fun v => P.any (·.contains v)) &&
  decide (P.Pairwise (fun a b => ∀ v ∈ a, v ∉ b))

/-- undirected simple degree in the symmetric closure -/
def degDef (G : Graph) (v : Nat) : Nat := degIn G G.nodes v

/-- `Q = Σ_c [ L_c / m − γ (D_c / 2m)² ]`, `L_c` = edges inside `c`, `D_c` = total degree of `c`,
`m` = number of edges (half the degree sum) -/
def modularityDef (G : Graph) (γ : Rat) (P : List (List Nat)) : Rat :=
  let m : Rat := ((G.nodes.map (degDef G)).sum : Nat) / 2
  (P.map fun c =>
    let L : Nat := (c.flatMap fun v => c.filter fun w => v < w && (G.arc v w || G.arc w v)).length
    let D : Nat := (c.map (degDef G)).sum
    (L : Rat) / m - γ * (((D : Rat) / (2 * m)) * ((D : Rat) / (2 * m)))).sum

end Solvor.Net
