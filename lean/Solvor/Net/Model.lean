/-! Net: executable models (no Mathlib imports). -/
namespace Solvor.Net

end Solvor.Net
