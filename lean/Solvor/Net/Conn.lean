import Solvor.Net.Lemmas
/-! Net: connectivity inside a vertex set along an edge relation (`Conn`), its relation to `Reach`,
and the counting lemmas that turn "removal increases the number of components" into statements
about connectivity (used by `lowlink_correct`; core Lean only). -/
namespace Solvor.Net

/-- `y` can be reached from `x` by steps `u → w` with `E u w`, both ends of every step inside `P` -/
inductive Conn (P : Nat → Prop) (E : Nat → Nat → Prop) : Nat → Nat → Prop
  | refl (x : Nat) : Conn P E x x
  | step {x u w : Nat} : Conn P E x u → P u → P w → E u w → Conn P E x w

namespace Conn
variable {P Q : Nat → Prop} {E F : Nat → Nat → Prop}

theorem trans {a b c : Nat} (h1 : Conn P E a b) (h2 : Conn P E b c) : Conn P E a c := by
  induction h2 with
  | refl => exact h1
  | step _ hu hw he ih => exact Conn.step ih hu hw he

theorem single {a b : Nat} (ha : P a) (hb : P b) (he : E a b) : Conn P E a b :=
  Conn.step (Conn.refl a) ha hb he

theorem mono (hP : ∀ z, P z → Q z) (hE : ∀ u w, P u → P w → E u w → F u w) {a b : Nat}
    (h : Conn P E a b) : Conn Q F a b := by
  induction h with
  | refl => exact Conn.refl _
  | step _ hu hw he ih => exact Conn.step ih (hP _ hu) (hP _ hw) (hE _ _ hu hw he)

theorem symm (hE : ∀ u w, E u w → E w u) {a b : Nat} (h : Conn P E a b) : Conn P E b a := by
  induction h with
  | refl => exact Conn.refl _
  | step _ hu hw he ih => exact (Conn.single hw hu (hE _ _ he)).trans ih

/-- the end point is inside `P` unless the path is empty -/
theorem mem_or_eq {a b : Nat} (h : Conn P E a b) : a = b ∨ P b := by
  cases h with
  | refl => exact Or.inl rfl
  | step _ _ hw _ => exact Or.inr hw

/-- a path that starts inside a set closed under the steps stays inside it -/
theorem closed {S : Nat → Prop} (hS : ∀ u w, S u → P u → P w → E u w → S w) {a b : Nat}
    (h : Conn P E a b) (ha : S a) : S b := by
  induction h with
  | refl => exact ha
  | step _ hu hw he ih => exact hS _ _ ih hu hw he

end Conn

/-- adjacency of the symmetrised graph -/
def Graph.A (G : Graph) (u w : Nat) : Prop := w ∈ G.sadj u

/-- the step `u → w` is not the undirected edge `{a, b}` -/
def EdgeNe (a b u w : Nat) : Prop := ¬ ((u = a ∧ w = b) ∨ (u = b ∧ w = a))

theorem Graph.A_symm (G : Graph) {u w : Nat} (h : G.A u w) : G.A w u := by
  unfold Graph.A at *
  rw [mem_sadj] at *
  exact ⟨fun e => h.1 e.symm, h.2.symm⟩

theorem Graph.A_ne (G : Graph) {u w : Nat} (h : G.A u w) : u ≠ w := ((mem_sadj G u w).1 h).1

theorem Graph.A_mem (G : Graph) {u w : Nat} (h : G.A u w) : u ∈ G.nodes ∧ w ∈ G.nodes :=
  ⟨sadj_sub G (G.A_symm h), sadj_sub G h⟩

theorem Graph.A_iff (G : Graph) (u w : Nat) :
    G.A u w ↔ u ≠ w ∧ (G.arc u w || G.arc w u) = true := by
  unfold Graph.A; rw [mem_sadj]; simp

theorem arc_mem (G : Graph) {u w : Nat} (h : (G.arc u w || G.arc w u) = true) :
    u ∈ G.nodes ∧ w ∈ G.nodes := by
  simp only [Graph.arc, Bool.or_eq_true, Bool.and_eq_true, List.contains_iff_mem] at h
  rcases h with h | h
  · exact ⟨h.1.1, h.1.2⟩
  · exact ⟨h.1.2, h.1.1⟩

/-! ### `Reach` on a sub-list of the nodes / without an edge, as `Conn` -/

theorem reach_sub_iff (G : Graph) (S : List Nat) (x y : Nat) :
    Reach S G.arc x y ↔ Conn (fun z => z ∈ S) G.A x y := by
  constructor
  · intro h
    induction h with
    | refl => exact Conn.refl _
    | step _ hv hw hl ih =>
      rename_i v w _hr
      by_cases hvw : v = w
      · subst hvw; exact ih
      · exact Conn.step ih hv hw ((G.A_iff v w).2 ⟨hvw, hl⟩)
  · intro h
    induction h with
    | refl => exact Reach.refl _
    | step _ hu hw he ih => exact Reach.step ih hu hw ((G.A_iff _ _).1 he).2

theorem reach_without_iff (G : Graph) (a b x y : Nat) :
    Reach G.nodes (arcWithout G.arc a b) x y ↔
      Conn (fun z => z ∈ G.nodes) (fun u w => G.A u w ∧ EdgeNe a b u w) x y := by
  have key : ∀ u w, (arcWithout G.arc a b u w || arcWithout G.arc a b w u) = true ↔
      ((G.arc u w || G.arc w u) = true ∧ EdgeNe a b u w) := by
    intro u w
    simp only [arcWithout, EdgeNe, Bool.or_eq_true, Bool.and_eq_true, Bool.not_eq_true',
      Bool.or_eq_false_iff, Bool.and_eq_false_iff, beq_eq_false_iff_ne, ne_eq]
    constructor
    · rintro (⟨h1, h2, h3⟩ | ⟨h1, h2, h3⟩)
      · refine ⟨Or.inl h1, ?_⟩
        rintro (⟨rfl, rfl⟩ | ⟨rfl, rfl⟩)
        · rcases h2 with h | h <;> exact h rfl
        · rcases h3 with h | h <;> exact h rfl
      · refine ⟨Or.inr h1, ?_⟩
        rintro (⟨rfl, rfl⟩ | ⟨rfl, rfl⟩)
        · rcases h3 with h | h <;> exact h rfl
        · rcases h2 with h | h <;> exact h rfl
    · rintro ⟨h1 | h1, h2⟩
      · left
        refine ⟨h1, ?_, ?_⟩
        · by_cases hu : u = a
          · right; intro hw; exact h2 (Or.inl ⟨hu, hw⟩)
          · left; exact hu
        · by_cases hu : u = b
          · right; intro hw; exact h2 (Or.inr ⟨hu, hw⟩)
          · left; exact hu
      · right
        refine ⟨h1, ?_, ?_⟩
        · by_cases hw : w = a
          · right; intro hu; exact h2 (Or.inr ⟨hu, hw⟩)
          · left; exact hw
        · by_cases hw : w = b
          · right; intro hu; exact h2 (Or.inl ⟨hu, hw⟩)
          · left; exact hw
  constructor
  · intro h
    induction h with
    | refl => exact Conn.refl _
    | step _ hv hw hl ih =>
      rename_i v w _hr
      by_cases hvw : v = w
      · subst hvw; exact ih
      · have := (key v w).1 hl
        exact Conn.step ih hv hw ⟨(G.A_iff v w).2 ⟨hvw, this.1⟩, this.2⟩
  · intro h
    induction h with
    | refl => exact Reach.refl _
    | step _ hu hw he ih =>
      exact Reach.step ih hu hw ((key _ _).2 ⟨((G.A_iff _ _).1 he.1).2, he.2⟩)

/-! ### transversals exist, and all have `compCount` elements -/

variable {nodes : List Nat} {arc : Nat → Nat → Bool}

theorem transversal_length (R : List Nat) (hR : IsTransversal nodes arc R) :
    R.length = compCount nodes arc := by
  obtain ⟨hok, _, hcov⟩ := compsAux_spec (nodes := nodes) (arc := arc) nodes []
    (fun v hv => hv) ⟨by simp, by simp⟩
  unfold compCount
  have hC : ∀ c ∈ comps nodes arc, ∃ r ∈ nodes, ∀ w, w ∈ c ↔ Reach nodes arc r w := hok.classes
  apply Nat.le_antisymm
  · apply length_le_of_inj (fun (r : Nat) (c : List Nat) => r ∈ c) R (comps nodes arc)
    · refine hR.apart.imp ?_
      intro r r' hrr c hc hrc hr'c
      obtain ⟨r0, _, h0⟩ := hC c hc
      exact hrr (((h0 r).1 hrc).symm.trans ((h0 r').1 hr'c))
    · intro r hr; exact hcov r (hR.sub r hr)
  · apply length_le_of_inj (fun (c : List Nat) (r : Nat) => r ∈ c) (comps nodes arc) R
    · refine hok.disjoint.imp ?_
      intro a b hab r _ hra hrb
      exact hab r hra hrb
    · intro c hc
      obtain ⟨r0, hr0, h0⟩ := hC c hc
      obtain ⟨r, hr, hrr⟩ := hR.cover r0 hr0
      exact ⟨r, hr, (h0 r).2 hrr.symm⟩

/-- representatives matching a list of components -/
structure PreT (nodes : List Nat) (arc : Nat → Nat → Bool) (C : List (List Nat)) (T : List Nat) : Prop where
  len   : T.length = C.length
  sub   : ∀ r ∈ T, r ∈ nodes
  apart : T.Pairwise (fun r r' => ¬ Reach nodes arc r r')
  fwd   : ∀ c ∈ C, ∃ r ∈ T, ∀ w, w ∈ c ↔ Reach nodes arc r w
  bwd   : ∀ r ∈ T, ∃ c ∈ C, ∀ w, w ∈ c ↔ Reach nodes arc r w

theorem compsAux_trans : ∀ (l : List Nat) (acc : List (List Nat)) (T : List Nat),
    (∀ v ∈ l, v ∈ nodes) → PreT nodes arc acc T → ∃ T', PreT nodes arc (compsAux nodes arc l acc) T' := by
  intro l
  induction l with
  | nil => intro acc T _ h; exact ⟨T, h⟩
  | cons v vs ih =>
    intro acc T hl h
    have hvs : ∀ x ∈ vs, x ∈ nodes := fun x hx => hl x (List.mem_cons_of_mem _ hx)
    have hv : v ∈ nodes := hl v List.mem_cons_self
    unfold compsAux
    split
    · exact ih acc T hvs h
    · rename_i hcov
      have hnot : ∀ c ∈ acc, v ∉ c := by
        intro c hc hvc
        exact hcov (List.any_eq_true.2 ⟨c, hc, by simpa using hvc⟩)
      apply ih (acc ++ [closure nodes arc v]) (T ++ [v]) hvs
      constructor
      · simp [h.len]
      · intro r hr
        rcases List.mem_append.1 hr with hr | hr
        · exact h.sub r hr
        · simp only [List.mem_singleton] at hr; subst hr; exact hv
      · rw [List.pairwise_append]
        refine ⟨h.apart, by simp, ?_⟩
        intro r hr x hx hrx
        simp only [List.mem_singleton] at hx; subst hx
        obtain ⟨c, hc, hcw⟩ := h.bwd r hr
        exact hnot c hc ((hcw x).2 hrx)
      · intro c hc
        rcases List.mem_append.1 hc with hc | hc
        · obtain ⟨r, hr, hrw⟩ := h.fwd c hc
          exact ⟨r, List.mem_append_left _ hr, hrw⟩
        · simp only [List.mem_singleton] at hc; subst hc
          exact ⟨v, by simp, mem_closure_iff hv⟩
      · intro r hr
        rcases List.mem_append.1 hr with hr | hr
        · obtain ⟨c, hc, hcw⟩ := h.bwd r hr
          exact ⟨c, List.mem_append_left _ hc, hcw⟩
        · simp only [List.mem_singleton] at hr; subst hr
          exact ⟨closure nodes arc r, by simp, mem_closure_iff hv⟩

theorem exists_transversal (nodes : List Nat) (arc : Nat → Nat → Bool) :
    ∃ T, IsTransversal nodes arc T ∧ T.length = compCount nodes arc := by
  obtain ⟨T, hT⟩ := compsAux_trans (nodes := nodes) (arc := arc) nodes [] [] (fun v hv => hv)
    ⟨rfl, by simp, by simp, by simp, by simp⟩
  obtain ⟨_, _, hcov⟩ := compsAux_spec (nodes := nodes) (arc := arc) nodes []
    (fun v hv => hv) ⟨by simp, by simp⟩
  refine ⟨T, ⟨hT.sub, hT.apart, ?_⟩, hT.len⟩
  intro v hv
  obtain ⟨c, hc, hvc⟩ := hcov v hv
  obtain ⟨r, hr, hrw⟩ := hT.fwd c hc
  exact ⟨r, hr, (hrw v).1 hvc⟩

/-! ### comparing the component counts of a graph and a sub-graph of it -/

section compare
variable {nodes1 nodes2 : List Nat} {arc1 arc2 : Nat → Nat → Bool}

/-- the finer graph has no more components if it connects whatever the coarser one connects -/
theorem count_le_of_merge (hsub : ∀ z ∈ nodes2, z ∈ nodes1)
    (hmerge : ∀ x ∈ nodes2, ∀ y ∈ nodes2, Reach nodes1 arc1 x y → Reach nodes2 arc2 x y) :
    compCount nodes2 arc2 ≤ compCount nodes1 arc1 := by
  obtain ⟨T1, hT1, hl1⟩ := exists_transversal nodes1 arc1
  obtain ⟨T2, hT2, hl2⟩ := exists_transversal nodes2 arc2
  rw [← hl1, ← hl2]
  apply length_le_of_inj (fun (r' r : Nat) => Reach nodes1 arc1 r r') T2 T1
  · refine (List.Pairwise.and_mem.1 hT2.apart).imp ?_
    intro r1 r2 h r _ h1 h2
    exact h.2.2 (hmerge r1 (hT2.sub r1 h.1) r2 (hT2.sub r2 h.2.1) (h1.symm.trans h2))
  · intro r' hr'
    exact hT1.cover r' (hsub r' (hT2.sub r' hr'))

/-- the finer graph has strictly more components if it separates two nodes the coarser one joins -/
theorem count_lt_of_split (hfine : ∀ x y, Reach nodes2 arc2 x y → Reach nodes1 arc1 x y)
    {x0 y0 : Nat} (hx0 : x0 ∈ nodes2) (hy0 : y0 ∈ nodes2) (hxy : Reach nodes1 arc1 x0 y0)
    (hsep : ¬ Reach nodes2 arc2 x0 y0)
    (hH : ∀ r ∈ nodes1, Reach nodes1 arc1 r x0 ∨ r ∈ nodes2) :
    compCount nodes1 arc1 < compCount nodes2 arc2 := by
  obtain ⟨T1, hT1, hl1⟩ := exists_transversal nodes1 arc1
  obtain ⟨T2, hT2, hl2⟩ := exists_transversal nodes2 arc2
  rw [← hl1, ← hl2]
  obtain ⟨x', hx', hxr⟩ := hT2.cover x0 hx0
  obtain ⟨y', hy', hyr⟩ := hT2.cover y0 hy0
  have hne : y' ≠ x' := by
    intro e; subst e
    exact hsep (hxr.symm.trans hyr)
  have hle : T1.length ≤ (T2.erase x').length := by
    apply length_le_of_inj (fun (r r' : Nat) => Reach nodes1 arc1 r r') T1 (T2.erase x')
    · refine hT1.apart.imp ?_
      intro r1 r2 h r _ h1 h2
      exact h (h1.trans h2.symm)
    · intro r hr
      by_cases hrx : Reach nodes1 arc1 r x0
      · exact ⟨y', (List.mem_erase_of_ne hne).2 hy', (hrx.trans hxy).trans (hfine _ _ hyr).symm⟩
      · have hr2 : r ∈ nodes2 := by
          rcases hH r (hT1.sub r hr) with h | h
          · exact absurd h hrx
          · exact h
        obtain ⟨r', hr', hrr⟩ := hT2.cover r hr2
        have hne' : r' ≠ x' := by
          intro e; subst e
          exact hrx (hfine _ _ (hrr.symm.trans hxr))
        exact ⟨r', (List.mem_erase_of_ne hne').2 hr', (hfine _ _ hrr).symm⟩
  rw [List.length_erase_of_mem hx'] at hle
  have : 0 < T2.length := List.length_pos_of_mem hx'
  omega

end compare

/-! ### cut vertices and bridges as connectivity statements -/

/-- two neighbours of `v` are not connected once `v` is removed -/
def CutSpec (G : Graph) (v : Nat) : Prop :=
  ∃ n1 n2, G.A v n1 ∧ G.A v n2 ∧ ¬ Conn (fun z => z ∈ G.nodes ∧ z ≠ v) G.A n1 n2

/-- `{a, b}` is an edge whose end points are not connected once the edge is removed -/
def BridgeSpec (G : Graph) (a b : Nat) : Prop :=
  G.A a b ∧ ¬ Conn (fun z => z ∈ G.nodes) (fun u w => G.A u w ∧ EdgeNe a b u w) a b

theorem EdgeNe_symm {a b u w : Nat} (h : EdgeNe a b u w) : EdgeNe a b w u := by
  unfold EdgeNe at *
  rintro (⟨h1, h2⟩ | ⟨h1, h2⟩)
  · exact h (Or.inr ⟨h2, h1⟩)
  · exact h (Or.inl ⟨h2, h1⟩)

theorem isBridge_iff (G : Graph) (a b : Nat) : isBridge G a b = true ↔ BridgeSpec G a b := by
  unfold isBridge BridgeSpec
  simp only [Bool.and_eq_true, bne_iff_ne, ne_eq, decide_eq_true_eq]
  have hAiff := G.A_iff a b
  constructor
  · rintro ⟨⟨hne, hl⟩, hgt⟩
    have hA : G.A a b := hAiff.2 ⟨hne, hl⟩
    refine ⟨hA, ?_⟩
    intro hc
    -- the edge lies on a cycle: removing it merges nothing
    have hle : compCount G.nodes (arcWithout G.arc a b) ≤ compCount G.nodes G.arc := by
      apply count_le_of_merge (fun z hz => hz)
      intro x hx y hy hxy
      clear hx hy
      rw [reach_without_iff]
      rw [reach_sub_iff] at hxy
      have hsym : ∀ u w, (G.A u w ∧ EdgeNe a b u w) → (G.A w u ∧ EdgeNe a b w u) :=
        fun u w h => ⟨G.A_symm h.1, EdgeNe_symm h.2⟩
      induction hxy with
      | refl => exact Conn.refl _
      | step _ hu hw he ih =>
        rename_i u w _
        by_cases hne' : EdgeNe a b u w
        · exact Conn.step ih hu hw ⟨he, hne'⟩
        · unfold EdgeNe at hne'
          have : (u = a ∧ w = b) ∨ (u = b ∧ w = a) := Classical.not_not.1 hne'
          rcases this with ⟨rfl, rfl⟩ | ⟨rfl, rfl⟩
          · exact ih.trans hc
          · exact ih.trans (hc.symm hsym)
    omega
  · rintro ⟨hA, hsep⟩
    obtain ⟨hne, hl⟩ := hAiff.1 hA
    refine ⟨⟨hne, hl⟩, ?_⟩
    have hmem := G.A_mem hA
    apply count_lt_of_split (x0 := a) (y0 := b) _ hmem.1 hmem.2
    · exact Reach.single hmem.1 hmem.2 hl
    · rw [reach_without_iff]; exact hsep
    · intro r hr; exact Or.inr hr
    · intro x y h
      rw [reach_without_iff] at h
      rw [reach_sub_iff]
      exact h.mono (fun _ hz => hz) (fun _ _ _ _ he => he.1)

/-- a path in the whole graph from `x ≠ v`, seen from the graph without `v` -/
theorem conn_avoid (G : Graph) (v x y : Nat) (hx : x ≠ v)
    (h : Conn (fun z => z ∈ G.nodes) G.A x y) :
    (y ≠ v ∧ Conn (fun z => z ∈ G.nodes ∧ z ≠ v) G.A x y) ∨
    (∃ n, G.A v n ∧ Conn (fun z => z ∈ G.nodes ∧ z ≠ v) G.A x n) := by
  induction h with
  | refl => exact Or.inl ⟨hx, Conn.refl _⟩
  | step _ hu hw he ih =>
    rename_i u w _
    rcases ih with ⟨huv, hc⟩ | hr
    · by_cases hwv : w = v
      · subst hwv
        exact Or.inr ⟨u, G.A_symm he, hc⟩
      · exact Or.inl ⟨hwv, Conn.step hc ⟨hu, huv⟩ ⟨hw, hwv⟩ he⟩
    · exact Or.inr hr

theorem isCutVertex_iff (G : Graph) (v : Nat) (hv : v ∈ G.nodes) :
    isCutVertex G v = true ↔ CutSpec G v := by
  unfold isCutVertex CutSpec
  simp only [decide_eq_true_eq]
  have hS : ∀ z, z ∈ G.nodes.filter (· != v) ↔ z ∈ G.nodes ∧ z ≠ v := by
    intro z; simp
  have hconv : ∀ x y, Reach (G.nodes.filter (· != v)) G.arc x y ↔
      Conn (fun z => z ∈ G.nodes ∧ z ≠ v) G.A x y := by
    intro x y
    rw [reach_sub_iff]
    constructor
    · intro h; exact h.mono (fun z hz => (hS z).1 hz) (fun _ _ _ _ he => he)
    · intro h; exact h.mono (fun z hz => (hS z).2 hz) (fun _ _ _ _ he => he)
  have hAsym : ∀ u w, G.A u w → G.A w u := fun _ _ h => G.A_symm h
  constructor
  · intro hgt
    refine Classical.byContradiction fun hno => ?_
    have hall : ∀ n1 n2, G.A v n1 → G.A v n2 → Conn (fun z => z ∈ G.nodes ∧ z ≠ v) G.A n1 n2 := by
      intro n1 n2 h1 h2
      exact Classical.byContradiction fun hc => hno ⟨n1, n2, h1, h2, hc⟩
    have hle : compCount (G.nodes.filter (· != v)) G.arc ≤ compCount G.nodes G.arc := by
      apply count_le_of_merge (fun z hz => ((hS z).1 hz).1)
      intro x hx y hy hxy
      rw [hconv]
      rw [reach_sub_iff] at hxy
      have hx' := (hS x).1 hx
      have hy' := (hS y).1 hy
      rcases conn_avoid G v x y hx'.2 hxy with ⟨_, hc⟩ | ⟨n, hn, hc⟩
      · exact hc
      · rcases conn_avoid G v y x hy'.2 (hxy.symm hAsym) with ⟨_, hc'⟩ | ⟨n', hn', hc'⟩
        · exact hc'.symm hAsym
        · exact (hc.trans (hall n n' hn hn')).trans (hc'.symm hAsym)
    omega
  · rintro ⟨n1, n2, h1, h2, hsep⟩
    have m1 := G.A_mem h1
    have m2 := G.A_mem h2
    apply count_lt_of_split (x0 := n1) (y0 := n2) _ ((hS n1).2 ⟨m1.2, (G.A_ne h1).symm⟩)
      ((hS n2).2 ⟨m2.2, (G.A_ne h2).symm⟩)
    · rw [reach_sub_iff]
      exact (Conn.single m1.2 hv (G.A_symm h1)).trans (Conn.single hv m2.2 h2)
    · rw [hconv]; exact hsep
    · intro r hr
      by_cases hrv : r = v
      · subst hrv; left
        rw [reach_sub_iff]; exact Conn.single hv m1.2 h1
      · right; exact (hS r).2 ⟨hr, hrv⟩
    · intro x y h
      rw [reach_sub_iff] at h ⊢
      exact h.mono (fun z hz => ((hS z).1 hz).1) (fun _ _ _ _ he => he)

end Solvor.Net
