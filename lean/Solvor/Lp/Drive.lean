import Solvor.Common.Proto
import Solvor.Lp.Model
/-! Lp: line-protocol handler. One request line in, one reply line out. -/
namespace Solvor.Lp

def handle (line : String) : String := "unimplemented " ++ line

end Solvor.Lp
