import Solvor.Common.Proto
import Solvor.Lp.Model
/-! Lp: line-protocol handler.

request `["lp", c, A, b, minimize, eps, maxIter, tol, vtol, lpImpl, ipmImpl, ipmTolFeas, ipmTolObj, ipmResid]`
  c, b : rationals `[num, den]`; A : rows of rationals; eps, tol… : rationals
  lpImpl / ipmImpl : `null` or `[status, x | null, obj | null]` (what solve_lp / solve_lp_interior returned)
reply `[model, truth, lpChecks | null, ipmChecks | null]`
  model    = `[status, x, obj | null, iters, phase1, near, certOk]`  (mirror run at the given eps, max_iter)
  truth    = `[verdict, opt | null, certOk]` : verdict of the exact run (eps = 0) and whether the verified
             checker `chkOptimal/chkInfeasible/chkUnbounded` accepted its certificate (verdict "NONE" if not);
             `opt` in the caller's sense
  lpChecks = `[feasTol, objAt, objNear, vertexNear]` verified checkers on solve_lp's point
  ipmChecks= `[feasTol, objAt, objNear, residualOk]` on solve_lp_interior's point
-/
namespace Solvor.Lp
open Solvor.Proto

/-- fuel of the exact run (Bland's rule terminates; far above anything a quick/thorough case needs) -/
def exactFuel : Nat := 200000

def statusOf? : String → Option Solvor.Gen.Status
  | "OPTIMAL" => some .OPTIMAL | "FEASIBLE" => some .FEASIBLE | "INFEASIBLE" => some .INFEASIBLE
  | "UNBOUNDED" => some .UNBOUNDED | "MAX_ITER" => some .MAX_ITER | _ => none

structure Impl where
  status : String
  x : Option Vec
  obj : Option Rat

def Impl.parse? : Val → Option (Option Impl)
  | .null => some none
  | .arr [s, x, o] => do
      let s ← s.toStr?
      let x ← x.toOpt? Val.toRats?
      let o ← o.toOpt? Val.toRat?
      pure (some ⟨s, x, o⟩)
  | _ => none

def handleLp (args : List Val) : Option String := do
  let [c, A, b, mn, eps, mi, tol, vtol, lpI, ipI, itf, ito, ires] := args | none
  let c ← c.toRats?; let A ← A.toRatss?; let b ← b.toRats?; let mn ← mn.toBool?
  let eps ← eps.toRat?; let mi ← mi.toNat?; let tol ← tol.toRat?; let vtol ← vtol.toRat?
  let lpI ← Impl.parse? lpI; let ipI ← Impl.parse? ipI
  let itf ← itf.toRat?; let ito ← ito.toRat?; let ires ← ires.toRat?
  let P := mkLP c A b mn
  let U : LP := ⟨A, b, c⟩            -- caller's objective, for `c·x = obj`
  let o := solveLp c A b mn eps mi
  let e := solveLp c A b mn 0 exactFuel
  let eOk := certifies P e
  let (verdict, opt, tOk) :=
    if eOk then (e.status.name, e.objective, true)
    else if certifies P o then (o.status.name, o.objective, true)
    else ("NONE", none, false)
  let opt := if verdict == "OPTIMAL" then opt else none
  let model := Val.arr [.str o.status.name, .ofRats o.x, .ofOpt .ofRat o.objective, .int o.iters,
    .bool o.phase1, .bool o.near, .bool (certifies P o)]
  let truth := Val.arr [.str verdict, .ofOpt .ofRat opt, .bool tOk]
  let chk (i : Impl) (tf to : Rat) (last : Vec → Bool) : Val :=
    match i.x with
    | none => .null
    | some x =>
      let objAt := match i.obj with | some ob => chkObjAt U to x ob | none => false
      let objNear := match i.obj, opt with
        | some ob, some op => chkObjNear to ob op
        | _, _ => false
      .arr [.bool (x.length == U.n && chkFeasTol U tf x), .bool objAt, .bool objNear, .bool (last x)]
  let lpC := match lpI with
    | none => Val.null
    | some i => chk i tol tol (fun x => vecNear vtol x o.x)
  let ipC := match ipI with
    | none => Val.null
    | some i => chk i itf ito (fun x => x.length == U.n && chkResidual U ires x)
  pure (Val.arr [model, truth, lpC, ipC]).render

def handle (line : String) : String :=
  match request line with
  | some ("lp", args) => (handleLp args).getD (err "bad arguments")
  | _ => err "bad request"

end Solvor.Lp
