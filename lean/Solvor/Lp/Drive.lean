import Solvor.Common.Proto
import Solvor.Lp.Model
import Solvor.Lp.Milp
import Solvor.Lp.Bnb
/-! Lp: line-protocol handler.

request `["lp", c, A, b, minimize, eps, maxIter, tol, vtol, lpImpl, ipmImpl, ipmTolFeas, ipmTolObj, ipmResid, ipmUlp]`
  c, b : rationals `[num, den]`; A : rows of rationals; eps, tol… : rationals
  lpImpl / ipmImpl : `null` or `[status, x | null, obj | null]` (what solve_lp / solve_lp_interior returned)
reply `[model, truth, lpChecks | null, ipmChecks | null]`
  model    = `[status, x, obj | null, iters, phase1, near, certOk, artBasic, artDriven]`  (mirror run at the given
             eps, max_iter; the last two: artificials still basic after phase 1 / pivoted out by the clean-up loop)
  truth    = `[verdict, opt | null, certOk]` : verdict of the exact run (eps = 0) and whether the verified
             checker `chkOptimal/chkInfeasible/chkUnbounded` accepted its certificate (verdict "NONE" if not);
             `opt` in the caller's sense
  lpChecks = `[feasTol, objAt, objNear, vertexNear]` verified checkers on solve_lp's point
  ipmChecks= `[feasTol, objAt, objNear, residualOk]` on solve_lp_interior's point
-/
namespace Solvor.Lp
open Solvor.Proto

/-- fuel of the exact run (Bland's rule terminates; far above anything a quick/thorough case needs) -/
def exactFuel : Nat := 200000

def statusOf? : String → Option Solvor.Gen.Status
  | "OPTIMAL" => some .OPTIMAL | "FEASIBLE" => some .FEASIBLE | "INFEASIBLE" => some .INFEASIBLE
  | "UNBOUNDED" => some .UNBOUNDED | "MAX_ITER" => some .MAX_ITER | _ => none

structure Impl where
  status : String
  x : Option Vec
  obj : Option Rat

def Impl.parse? : Val → Option (Option Impl)
  | .null => some none
  | .arr [s, x, o] => do
      let s ← s.toStr?
      let x ← x.toOpt? Val.toRats?
      let o ← o.toOpt? Val.toRat?
      pure (some ⟨s, x, o⟩)
  | _ => none

def handleLp (args : List Val) : Option String := do
  let [c, A, b, mn, eps, mi, tol, vtol, lpI, ipI, itf, ito, ires, iulp] := args | none
  let c ← c.toRats?; let A ← A.toRatss?; let b ← b.toRats?; let mn ← mn.toBool?
  let eps ← eps.toRat?; let mi ← mi.toNat?; let tol ← tol.toRat?; let vtol ← vtol.toRat?
  let lpI ← Impl.parse? lpI; let ipI ← Impl.parse? ipI
  let itf ← itf.toRat?; let ito ← ito.toRat?; let ires ← ires.toRat?; let iulp ← iulp.toRat?
  let P := mkLP c A b mn
  let U : LP := ⟨A, b, c⟩            -- caller's objective, for `c·x = obj`
  let o := solveLp c A b mn eps mi
  let e := solveLp c A b mn 0 exactFuel
  let eOk := certifies P e
  let (verdict, opt, tOk) :=
    if eOk then (e.status.name, e.objective, true)
    else if certifies P o then (o.status.name, o.objective, true)
    else ("NONE", none, false)
  let opt := if verdict == "OPTIMAL" then opt else none
  let model := Val.arr [.str o.status.name, .ofRats o.x, .ofOpt .ofRat o.objective, .int o.iters,
    .bool o.phase1, .bool o.near, .bool (certifies P o), .int (artCounters c A b mn eps mi).1,
    .int (artCounters c A b mn eps mi).2]
  let truth := Val.arr [.str verdict, .ofOpt .ofRat opt, .bool tOk]
  let chk (i : Impl) (tf to : Rat) (last : Vec → Bool) : Val :=
    match i.x with
    | none => .null
    | some x =>
      let objAt := match i.obj with | some ob => chkObjAt U to x ob | none => false
      let objNear := match i.obj, opt with
        | some ob, some op => chkObjNear to ob op
        | _, _ => false
      .arr [.bool (x.length == U.n && chkFeasTol U tf x), .bool objAt, .bool objNear, .bool (last x)]
  let lpC := match lpI with
    | none => Val.null
    | some i => chk i tol tol (fun x => vecNear vtol x o.x)
  let ipC := match ipI with
    | none => Val.null
    | some i => chk i itf ito (fun x => x.length == U.n && chkResidual U ires iulp x)
  pure (Val.arr [model, truth, lpC, ipC]).render

/-! request `["milp", c, A, b, ints, minimize, eps, tolObj, maxBox, impls, points]`
  impls : list of `[status, x | null, obj | null, sols]` (results of solve_milp under several configurations)
  points : vectors on which the harness also called `solvor.milp._is_feasible` itself
reply `[relax, oracle, checks, filter]`
  filter = per point `[isFeasible at 0.999·eps, at eps, at 1.001·eps, rejecting clause at eps]` (the proved mirror)
  relax  = `[verdict, certOk]`                 exact simplex on the LP relaxation, certificate-checked
  oracle = `[kind, value | null, point | null, boxSize]`
           kind ∈ OPTIMAL / INFEASIBLE / UNBOUNDED (all certified: `oracleOk` or the relaxation's Farkas
           vector), NOBOX (an integer variable is unbounded on the relaxation), TOOBIG, FAIL
           value in the caller's sense
  checks = per impl result `[isFeasible x, |c·x−obj| ≤ tolObj, [isFeasible s for s in sols]]` (`null` when no x)
-/
def handleMilp (args : List Val) : Option String := do
  let [c, A, b, ints, mn, eps, tolObj, maxBox, impls, points] := args | none
  let c ← c.toRats?; let A ← A.toRatss?; let b ← b.toRats?; let ints ← ints.toNats?
  let mn ← mn.toBool?; let eps ← eps.toRat?; let tolObj ← tolObj.toRat?; let maxBox ← maxBox.toNat?
  let impls ← impls.toArr?
  let points ← points.toRatss?
  -- hypotheses of `milpOracle_correct`: as many rows as right-hand sides, integer indices in range
  if A.length != b.length || ints.any (fun j => j ≥ c.length) then none
  let P := mkLP c A b mn
  let U : LP := ⟨A, b, c⟩
  let r := exactSolve P
  let rOk := certifies P r
  let relax := Val.arr [.str r.status.name, .bool rOk]
  let sense (v : Rat) : Rat := if mn then v else -v
  let oracle : Val :=
    if rOk && r.status == .INFEASIBLE then .arr [.str "INFEASIBLE", .null, .null, .int 0]
    else if !rOk then .arr [.str "FAIL", .null, .null, .int 0]
    else match findBox P ints with
      | none => .arr [.str "NOBOX", .null, .null, .int 0]
      | some (ub, ys) =>
        let sz := boxSize ub
        if sz > maxBox then .arr [.str "TOOBIG", .null, .null, .int sz]
        else if !oracleOk exactSolve P ints ub ys then .arr [.str "FAIL", .null, .null, .int sz]
        else if oracleUnb exactSolve P ints ub then .arr [.str "UNBOUNDED", .null, .null, .int sz]
        else match oracleBest exactSolve P ints ub with
          | none => .arr [.str "INFEASIBLE", .null, .null, .int sz]
          | some (v, x) => .arr [.str "OPTIMAL", .ofRat (sense v), .ofRats x, .int sz]
  let feas (x : Vec) : Bool := x.length == U.n && isFeasible U ints eps x
  let checks ← impls.mapM fun (v : Val) => do
    let [_, x, o, sols] ← v.toArr? | none
    let x ← x.toOpt? Val.toRats?
    let o ← o.toOpt? Val.toRat?
    let sols ← sols.toRatss?
    pure <| match x with
      | none => Val.arr [.null, .null, .arr (sols.map fun s => .bool (feas s))]
      | some x =>
        let objOk := match o with | some ob => chkObjAt U tolObj x ob | none => false
        Val.arr [.bool (feas x), .bool objOk, .arr (sols.map fun s => .bool (feas s))]
  let filt := points.map fun x =>
    let f (e : Rat) : Bool := x.length == U.n && isFeasible U ints e x
    Val.arr [.bool (f (eps * 999 / 1000)), .bool (f eps), .bool (f (eps * 1001 / 1000)),
      .int (feasClause U ints eps x)]
  pure (Val.arr [relax, oracle, .arr checks, .arr filt]).render

/-! request `["bnb", c, A, b, ints, minimize, eps, maxIter, maxNodes, gapTol, solutionLimit, warm | null]`
  (`ints` ascending = CPython's iteration order of a set of small non-negative ints)
reply `[status, x | null, obj | null, nodes, sols, near, nodesOk, maxNodeLpIters, negTie]` : the mirror `solveMilp` of `solve_milp(heuristics=False)` -/
def handleBnb (args : List Val) : Option String := do
  let [c, A, b, ints, mn, eps, mi, mxn, gap, sl, warm] := args | none
  let c ← c.toRats?; let A ← A.toRatss?; let b ← b.toRats?; let ints ← ints.toNats?
  let mn ← mn.toBool?; let eps ← eps.toRat?; let mi ← mi.toNat?; let mxn ← mxn.toNat?
  let gap ← gap.toRat?; let sl ← sl.toNat?
  let warm ← warm.toOpt? Val.toRats?
  let o := solveMilp ⟨c, A, b, ints, mn⟩ ⟨eps, mi, mxn, gap, sl, warm⟩
  pure (Val.arr [.str o.status.name, .ofOpt .ofRats o.x, .ofOpt .ofRat o.objective, .int o.nodes,
    .arr (o.sols.map .ofRats), .bool o.near, .bool o.ok, .int o.maxIt, .bool o.negTie]).render

/-! request `["detbin", eps, sets]`, `sets` = list of `[A, b, ints, n]`
reply: per set `[detectBinary at 0.999·eps, at eps, at 1.001·eps]` – the mirror of `_detect_binary` that
`binary_tightening_sound` is about -/
def handleDetbin (args : List Val) : Option String := do
  let [eps, sets] := args | none
  let eps ← eps.toRat?
  let sets ← sets.toArr?
  let out ← sets.mapM fun (v : Val) => do
    let [A, b, ints, n] ← v.toArr? | none
    let A ← A.toRatss?; let b ← b.toRats?; let ints ← ints.toNats?; let n ← n.toNat?
    let P : LP := ⟨A, b, zeros n⟩
    let f (e : Rat) : Bool := detectBinary P ints e
    pure (Val.arr [.bool (f (eps * 999 / 1000)), .bool (f eps), .bool (f (eps * 1001 / 1000))])
  pure (Val.arr out).render

/-! request `["artscreen", eps, maxIter, lps]`, `lps` = list of `[c, A, b, minimize]`
reply: per LP `[artBasic, artDriven]` (pre-screening of generated candidates; the model is cheap) -/
def handleArtscreen (args : List Val) : Option String := do
  let [eps, mi, lps] := args | none
  let eps ← eps.toRat?; let mi ← mi.toNat?
  let lps ← lps.toArr?
  let out ← lps.mapM fun (v : Val) => do
    let [c, A, b, mn] ← v.toArr? | none
    let c ← c.toRats?; let A ← A.toRatss?; let b ← b.toRats?; let mn ← mn.toBool?
    let k := artCounters c A b mn eps mi
    pure (Val.arr [.int k.1, .int k.2])
  pure (Val.arr out).render

def handle (line : String) : String :=
  match request line with
  | some ("lp", args) => (handleLp args).getD (err "bad arguments")
  | some ("milp", args) => (handleMilp args).getD (err "bad arguments")
  | some ("bnb", args) => (handleBnb args).getD (err "bad arguments")
  | some ("detbin", args) => (handleDetbin args).getD (err "bad arguments")
  | some ("artscreen", args) => (handleArtscreen args).getD (err "bad arguments")
  | _ => err "bad request"

end Solvor.Lp
