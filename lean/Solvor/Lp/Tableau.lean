import Solvor.Lp.Certifies
/-!
Lp/Tableau: the general tableau invariant (any width: with or without artificial columns, rows whose
basic variable was an artificial that could not be pivoted out) and its preservation by pivots.
-/
namespace Solvor.Lp
open Finset
open Solvor.Gen (Status)

/-- rows `v` with `v_j = ∑ v_{n+k} A_kj` and `v_last = ∑ v_{n+k} b_k`, the last column being `W-1` -/
def InSW (P : LP) (W : ℕ) (v : ℕ → ℚ) : Prop :=
  (∀ j < P.n, v j = ∑ k ∈ range P.m, v (P.n + k) * P.a k j) ∧
  v (W - 1) = ∑ k ∈ range P.m, v (P.n + k) * vget P.b k

theorem InSW.sub_smul {P : LP} {W : ℕ} {u v : ℕ → ℚ} (hu : InSW P W u) (hv : InSW P W v) (f g : ℚ) :
    InSW P W (fun c => u c - f * (v c * g)) := by
  constructor
  · intro j hj
    simp only []
    rw [hu.1 j hj, hv.1 j hj, Finset.sum_mul, Finset.mul_sum, ← Finset.sum_sub_distrib]
    exact Finset.sum_congr rfl fun k _ => by ring
  · simp only []
    rw [hu.2, hv.2, Finset.sum_mul, Finset.mul_sum, ← Finset.sum_sub_distrib]
    exact Finset.sum_congr rfl fun k _ => by ring

theorem InSW.smul {P : LP} {W : ℕ} {v : ℕ → ℚ} (hv : InSW P W v) (g : ℚ) : InSW P W (fun c => v c * g) := by
  constructor
  · intro j hj
    simp only []
    rw [hv.1 j hj, Finset.sum_mul]
    exact Finset.sum_congr rfl fun k _ => by ring
  · simp only []
    rw [hv.2, Finset.sum_mul]
    exact Finset.sum_congr rfl fun k _ => by ring

theorem InSW.sub_mul {P : LP} {W : ℕ} {u v : ℕ → ℚ} (hu : InSW P W u) (hv : InSW P W v) (f : ℚ) :
    InSW P W (fun c => u c - f * v c) := by
  have := hu.sub_smul hv f 1
  simpa using this

theorem InSW.zero (P : LP) (W : ℕ) : InSW P W (fun _ => 0) := by
  constructor <;> simp

structure GInv (P : LP) (W : ℕ) (R : ℕ → ℕ → ℚ) (obar : ℕ → ℚ) (t : Tab) : Prop where
  wf : t.WF P.m W
  hW : P.n + P.m < W
  rowS : ∀ i < P.m, InSW P W (t.e i)
  objS : InSW P W (fun c => t.oe c - obar c)
  unit : ∀ i < P.m, ∀ k < P.m, t.bs k < W - 1 → t.e i (t.bs k) = if i = k then 1 else 0
  objB : ∀ k < P.m, t.bs k < W - 1 → t.oe (t.bs k) = 0
  dead : ∀ i < P.m, ¬ t.bs i < W - 1 → ∀ c < W, t.e i c = 0
  sol : ∀ z : ℕ → ℚ, (∀ i < P.m, ∑ c ∈ range W, t.e i c * z c = 0) ↔
      (∀ k < P.m, ∑ c ∈ range W, R k c * z c = 0)
  objF : ∀ z : ℕ → ℚ, (∀ k < P.m, ∑ c ∈ range W, R k c * z c = 0) →
      ∑ c ∈ range W, t.oe c * z c = ∑ c ∈ range W, obar c * z c
  rhs : ∀ i < P.m, 0 ≤ t.e i (W - 1)

section gstep
variable {P : LP} {W : ℕ} {R : ℕ → ℕ → ℚ} {obar : ℕ → ℚ} {t : Tab}

theorem gstep_e (h : t.WF P.m W) {l : ℕ} (hl : l < P.m) (e i : ℕ) (hi : i < P.m) (c : ℕ) :
    (stepTab t l e).e i c =
      if i = l then t.e l c * (1 / t.e l e) else t.e i c - t.e i e * (t.e l c * (1 / t.e l e)) := by
  unfold stepTab; rw [setBasis_e, pivot_e h l e hl i hi c]

theorem gstep_oe (h : t.WF P.m W) {l : ℕ} (hl : l < P.m) (e c : ℕ) :
    (stepTab t l e).oe c = t.oe c - t.oe e * (t.e l c * (1 / t.e l e)) := by
  unfold stepTab; rw [setBasis_oe, pivot_oe h l e hl c]

theorem gstep_bs (h : t.WF P.m W) {l : ℕ} (hl : l < P.m) (e i : ℕ) :
    (stepTab t l e).bs i = if i = l then e else t.bs i := by
  unfold stepTab
  rw [setBasis_bs (pivot_wf h l e hl) l e hl i, pivot_bs]

/-- A pivot on a non-zero element preserves the invariant when either it is a ratio-test pivot
(positive element, minimum ratio) or the pivot row has right-hand side `0` (driving out a basic
artificial). -/
theorem gstep (h : GInv P W R obar t) {l e : ℕ} (hl : l < P.m) (he : e < W - 1)
    (hpv0 : t.e l e ≠ 0)
    (hside : (t.e l e > 0 ∧ ∀ i < P.m, t.e i e > 0 →
        t.e l (W - 1) / t.e l e ≤ t.e i (W - 1) / t.e i e) ∨ t.e l (W - 1) = 0) :
    GInv P W R obar (stepTab t l e) := by
  have hwf := h.wf
  have hinv : t.e l e * (1 / t.e l e) = 1 := mul_one_div_cancel hpv0
  -- the pivot row is live
  have hlive : t.bs l < W - 1 := by
    by_contra hd
    exact hpv0 (h.dead l hl hd e (by omega))
  have expand : ∀ z : ℕ → ℚ, ∀ i < P.m, ∑ c ∈ range W, (stepTab t l e).e i c * z c =
      if i = l then (∑ c ∈ range W, t.e l c * z c) * (1 / t.e l e)
      else (∑ c ∈ range W, t.e i c * z c)
        - t.e i e * ((∑ c ∈ range W, t.e l c * z c) * (1 / t.e l e)) := by
    intro z i hi
    by_cases hil : i = l
    · simp only [hil, if_true]
      rw [Finset.sum_mul]
      exact Finset.sum_congr rfl fun c _ => by rw [gstep_e hwf hl e l hl c, if_pos rfl]; ring
    · simp only [hil, if_false]
      rw [Finset.sum_mul, Finset.mul_sum, ← Finset.sum_sub_distrib]
      exact Finset.sum_congr rfl fun c _ => by rw [gstep_e hwf hl e i hi c, if_neg hil]; ring
  have solstep : ∀ z : ℕ → ℚ, (∀ i < P.m, ∑ c ∈ range W, (stepTab t l e).e i c * z c = 0) ↔
      (∀ i < P.m, ∑ c ∈ range W, t.e i c * z c = 0) := by
    intro z
    constructor
    · intro hz
      have hzl : ∑ c ∈ range W, t.e l c * z c = 0 := by
        have := hz l hl
        rw [expand z l hl, if_pos rfl] at this
        exact (mul_eq_zero.mp this).resolve_right (one_div_ne_zero hpv0)
      intro i hi
      by_cases hil : i = l
      · rw [hil]; exact hzl
      · have := hz i hi
        rw [expand z i hi, if_neg hil, hzl] at this
        simpa using this
    · intro hz i hi
      rw [expand z i hi]
      split
      · rw [hz l hl]; ring
      · rw [hz i hi, hz l hl]; ring
  refine ⟨setBasis_wf (pivot_wf hwf l e hl) l e, h.hW, ?_, ?_, ?_, ?_, ?_, ?_, ?_, ?_⟩
  · intro i hi
    have : (stepTab t l e).e i = fun c =>
        if i = l then t.e l c * (1 / t.e l e) else t.e i c - t.e i e * (t.e l c * (1 / t.e l e)) :=
      funext fun c => gstep_e hwf hl e i hi c
    rw [this]
    by_cases hil : i = l
    · simp only [hil, if_true]; exact (h.rowS l hl).smul _
    · simp only [hil, if_false]; exact (h.rowS i hi).sub_smul (h.rowS l hl) _ _
  · have : (fun c => (stepTab t l e).oe c - obar c) = fun c =>
        (t.oe c - obar c) - t.oe e * (t.e l c * (1 / t.e l e)) :=
      funext fun c => by rw [gstep_oe hwf hl e c]; ring
    rw [this]
    exact h.objS.sub_smul (h.rowS l hl) _ _
  · intro i hi k hk hkl'
    rw [gstep_bs hwf hl e k] at hkl' ⊢
    rw [gstep_e hwf hl e i hi]
    by_cases hkl : k = l
    · rw [if_pos hkl]
      by_cases hil : i = l
      · rw [if_pos hil, hinv, if_pos (hil.trans hkl.symm)]
      · rw [if_neg hil, hinv, if_neg (fun e => hil (e.trans hkl))]; ring
    · rw [if_neg hkl] at hkl' ⊢
      have hlk : t.e l (t.bs k) = 0 := by rw [h.unit l hl k hk hkl', if_neg (fun e => hkl e.symm)]
      rw [hlk]
      by_cases hil : i = l
      · rw [if_pos hil, if_neg (fun e => hkl (e.symm.trans hil))]; ring
      · rw [if_neg hil, h.unit i hi k hk hkl']; ring
  · intro k hk hkl'
    rw [gstep_bs hwf hl e k] at hkl' ⊢
    rw [gstep_oe hwf hl e]
    by_cases hkl : k = l
    · rw [if_pos hkl, hinv]; ring
    · rw [if_neg hkl] at hkl' ⊢
      rw [h.unit l hl k hk hkl', if_neg (fun e => hkl e.symm), h.objB k hk hkl']; ring
  · intro i hi hdead c hc
    rw [gstep_bs hwf hl e i] at hdead
    have hil : i ≠ l := fun e' => by rw [if_pos e'] at hdead; exact hdead he
    rw [if_neg hil] at hdead
    rw [gstep_e hwf hl e i hi, if_neg hil, h.dead i hi hdead c hc, h.dead i hi hdead e (by omega)]
    ring
  · intro z; rw [solstep z]; exact h.sol z
  · intro z hz
    have hrows := (h.sol z).mpr hz
    have : ∑ c ∈ range W, (stepTab t l e).oe c * z c =
        ∑ c ∈ range W, t.oe c * z c - t.oe e * ((∑ c ∈ range W, t.e l c * z c) * (1 / t.e l e)) := by
      rw [Finset.sum_mul, Finset.mul_sum, ← Finset.sum_sub_distrib]
      exact Finset.sum_congr rfl fun c _ => by rw [gstep_oe hwf hl e c]; ring
    rw [this, hrows l hl, h.objF z hz]; ring
  · intro i hi
    rw [gstep_e hwf hl e i hi]
    have hrl := h.rhs l hl
    rcases hside with ⟨hpv, hmin⟩ | hz0
    · by_cases hil : i = l
      · simp only [hil, if_true]
        exact mul_nonneg hrl (by positivity)
      · simp only [hil, if_false]
        have hri := h.rhs i hi
        have hq : 0 ≤ t.e l (W - 1) * (1 / t.e l e) := mul_nonneg hrl (by positivity)
        by_cases hpos : t.e i e > 0
        · have := hmin i hi hpos
          rw [div_le_div_iff₀ hpv hpos] at this
          have e1 : t.e i e * (t.e l (W - 1) * (1 / t.e l e))
              = (t.e l (W - 1) * t.e i e) / t.e l e := by field_simp
          rw [e1, sub_nonneg, div_le_iff₀ hpv]
          linarith
        · have : t.e i e * (t.e l (W - 1) * (1 / t.e l e)) ≤ 0 :=
            mul_nonpos_of_nonpos_of_nonneg (not_lt.mp hpos) hq
          linarith
    · rw [hz0]
      by_cases hil : i = l
      · simp [hil]
      · simp only [hil, if_false, zero_mul, mul_zero, sub_zero]
        exact h.rhs i hi

/-- right-hand sides of the other rows do not move when the pivot row has right-hand side `0` -/
theorem gstep_rhs_zero (h : t.WF P.m W) {l e : ℕ} (hl : l < P.m) (hz0 : t.e l (W - 1) = 0)
    {i : ℕ} (hi : i < P.m) : (stepTab t l e).e i (W - 1) = t.e i (W - 1) := by
  rw [gstep_e h hl e i hi, hz0]
  split
  · rename_i hil; rw [hil, hz0]; ring
  · ring

end gstep

/-- the loop `_phase2` on an invariant tableau of any width -/
theorem gphase2_spec {P : LP} {W : ℕ} {R : ℕ → ℕ → ℚ} {obar : ℕ → ℚ} :
    ∀ (fuel it : ℕ) (t : Tab), GInv P W R obar t →
    GInv P W R obar (phase2 0 fuel it t).tab ∧
    ((phase2 0 fuel it t).status = .OPTIMAL → findEnter 0 (phase2 0 fuel it t).tab = none) ∧
    ((phase2 0 fuel it t).status = .UNBOUNDED → ∃ e, (phase2 0 fuel it t).enter = some e ∧
      findEnter 0 (phase2 0 fuel it t).tab = some e ∧ findLeave 0 (phase2 0 fuel it t).tab e = none) ∧
    ((phase2 0 fuel it t).status = .OPTIMAL ∨ (phase2 0 fuel it t).status = .UNBOUNDED ∨
      (phase2 0 fuel it t).status = .MAX_ITER)
  | 0, it, t, h => by
    have e0 : phase2 0 0 it t = ⟨.MAX_ITER, it, t, none⟩ := by rw [phase2]
    rw [e0]
    exact ⟨h, (fun e => by cases e), (fun e => by cases e), Or.inr (Or.inr rfl)⟩
  | fuel + 1, it, t, h => by
    cases he : findEnter 0 t with
    | none =>
      rw [phase2_none fuel it t he]
      exact ⟨h, fun _ => he, (fun e => by cases e), Or.inl rfl⟩
    | some e =>
      cases hl : findLeave 0 t e with
      | none =>
        rw [phase2_unb fuel it t he hl]
        exact ⟨h, (fun e => by cases e), fun _ => ⟨e, rfl, he, hl⟩, Or.inr (Or.inl rfl)⟩
      | some l =>
        rw [phase2_step fuel it t he hl]
        obtain ⟨he1, _, _⟩ := findEnter_some h.wf he
        obtain ⟨hl1, hpv, hmin⟩ := findLeave_some h.wf (by have := h.hW; omega) hl
        exact gphase2_spec fuel (it + 1) _ (gstep h hl1 he1 (ne_of_gt hpv) (Or.inl ⟨hpv, hmin⟩))

/-! ### basic solution and ray of an invariant tableau (any width, dead rows allowed) -/
section gread
variable {P : LP} {W : ℕ} {R : ℕ → ℕ → ℚ} {obar : ℕ → ℚ} {t : Tab}

/-- value of variable `c` in the basic solution -/
def bval (P : LP) (W : ℕ) (t : Tab) (c : ℕ) : ℚ :=
  ∑ i ∈ range P.m, if t.bs i = c then t.e i (W - 1) else 0

theorem gbs_inj (h : GInv P W R obar t) {i k : ℕ} (hi : i < P.m) (hk : k < P.m) (hlk : t.bs k < W - 1)
    (e : t.bs i = t.bs k) : i = k := by
  have := h.unit i hi k hk hlk
  rw [← e, h.unit i hi i hi (e ▸ hlk), if_pos rfl] at this
  by_contra hne
  rw [if_neg hne] at this
  exact one_ne_zero this

theorem bval_bs (h : GInv P W R obar t) {k : ℕ} (hk : k < P.m) (hlk : t.bs k < W - 1) :
    bval P W t (t.bs k) = t.e k (W - 1) := by
  unfold bval
  rw [Finset.sum_eq_single k]
  · simp
  · intro i hi hik
    rw [if_neg (fun e => hik (gbs_inj h (Finset.mem_range.mp hi) hk hlk e))]
  · intro hn; exact absurd (Finset.mem_range.mpr hk) hn

theorem bval_nonneg (h : GInv P W R obar t) (c : ℕ) : 0 ≤ bval P W t c := by
  unfold bval
  refine Finset.sum_nonneg fun i hi => ?_
  split
  · exact h.rhs i (Finset.mem_range.mp hi)
  · exact le_refl _

theorem bval_nonbasic (c : ℕ) (hc : ∀ i < P.m, t.bs i ≠ c) : bval P W t c = 0 := by
  unfold bval
  exact Finset.sum_eq_zero fun i hi => by rw [if_neg (hc i (Finset.mem_range.mp hi))]

/-- `∑_{c<W-1} v_c · (∑_i [bs i = c] g_i) = ∑_{k live} v_{bs k} · g_k` -/
theorem gsum_mul_comb (v g : ℕ → ℚ) :
    ∑ c ∈ range (W - 1), v c * (∑ i ∈ range P.m, if t.bs i = c then g i else 0) =
      ∑ k ∈ range P.m, if t.bs k < W - 1 then v (t.bs k) * g k else 0 := by
  simp only [Finset.mul_sum]
  rw [Finset.sum_comm]
  refine Finset.sum_congr rfl fun k _ => ?_
  by_cases hlk : t.bs k < W - 1
  · rw [if_pos hlk, Finset.sum_eq_single (t.bs k)]
    · simp
    · intro c _ hc
      rw [if_neg (fun e => hc e.symm)]; ring
    · intro hn
      exact absurd (Finset.mem_range.mpr hlk) hn
  · rw [if_neg hlk]
    refine Finset.sum_eq_zero fun c hc => ?_
    rw [if_neg (fun (e : t.bs k = c) => hlk (by rw [e]; exact Finset.mem_range.mp hc))]; ring

/-- `∑_{k live} T_i,bs k · g_k = g_i` for a live row, `0` for a dead row -/
theorem live_row_comb (h : GInv P W R obar t) {i : ℕ} (hi : i < P.m) (g : ℕ → ℚ) :
    ∑ k ∈ range P.m, (if t.bs k < W - 1 then t.e i (t.bs k) * g k else 0) =
      if t.bs i < W - 1 then g i else 0 := by
  by_cases hli : t.bs i < W - 1
  · rw [if_pos hli, Finset.sum_eq_single i]
    · rw [if_pos hli, h.unit i hi i hi hli, if_pos rfl]; ring
    · intro k hk hki
      split
      · rename_i hlk
        rw [h.unit i hi k (Finset.mem_range.mp hk) hlk, if_neg (fun e => hki e.symm)]; ring
      · rfl
    · intro hn; exact absurd (Finset.mem_range.mpr hi) hn
  · rw [if_neg hli]
    refine Finset.sum_eq_zero fun k hk => ?_
    split
    · rename_i hlk
      rw [h.dead i hi hli (t.bs k) (by omega)]; ring
    · rfl

/-- the basic solution extended by `−1` in the right-hand-side place -/
def zbasic (P : LP) (W : ℕ) (t : Tab) (c : ℕ) : ℚ := if c < W - 1 then bval P W t c else -1

theorem sum_zbasic (h : GInv P W R obar t) (v : ℕ → ℚ) :
    ∑ c ∈ range W, v c * zbasic P W t c =
      ∑ k ∈ range P.m, (if t.bs k < W - 1 then v (t.bs k) * t.e k (W - 1) else 0) - v (W - 1) := by
  have hW : W = (W - 1) + 1 := by have := h.hW; omega
  rw [hW, Finset.sum_range_succ]
  have e1 : ∑ c ∈ range (W - 1), v c * zbasic P (W - 1 + 1) t c
      = ∑ c ∈ range (W - 1), v c * (∑ i ∈ range P.m, if t.bs i = c then t.e i (W - 1) else 0) :=
    Finset.sum_congr rfl fun c hc => by
      have : c < W - 1 + 1 - 1 := by have := Finset.mem_range.mp hc; omega
      simp only [zbasic, if_pos this, bval]
      simp
  rw [e1, gsum_mul_comb v (fun i => t.e i (W - 1))]
  have e2 : zbasic P (W - 1 + 1) t (W - 1) = -1 := by simp [zbasic]
  rw [e2]
  simp only [Nat.add_sub_cancel]
  ring

/-- every tableau row, hence every reference row, annihilates the basic solution -/
theorem rows_zbasic (h : GInv P W R obar t) : ∀ k < P.m, ∑ c ∈ range W, R k c * zbasic P W t c = 0 := by
  refine (h.sol _).mp fun i hi => ?_
  rw [sum_zbasic h (t.e i), live_row_comb h hi (fun k => t.e k (W - 1))]
  split
  · ring
  · rename_i hd
    rw [h.dead i hi hd (W - 1) (by have := h.hW; omega)]; ring

/-- the objective row on the basic solution: `−(last entry)` -/
theorem obj_zbasic (h : GInv P W R obar t) :
    ∑ c ∈ range W, t.oe c * zbasic P W t c = -t.oe (W - 1) := by
  rw [sum_zbasic h t.oe]
  have : ∑ k ∈ range P.m, (if t.bs k < W - 1 then t.oe (t.bs k) * t.e k (W - 1) else 0) = 0 :=
    Finset.sum_eq_zero fun k hk => by
      split
      · rename_i hlk; rw [h.objB k (Finset.mem_range.mp hk) hlk]; ring
      · rfl
  rw [this]; ring

/-- the ray of column `e`, `0` in the right-hand-side place -/
def zray (P : LP) (W : ℕ) (t : Tab) (e c : ℕ) : ℚ := if c < W - 1 then rayVal P t e c else 0

theorem sum_zray (h : GInv P W R obar t) {e : ℕ} (he : e < W - 1) (hnb : ∀ i < P.m, t.bs i ≠ e)
    (v : ℕ → ℚ) :
    ∑ c ∈ range W, v c * zray P W t e c =
      v e - ∑ k ∈ range P.m, (if t.bs k < W - 1 then v (t.bs k) * t.e k e else 0) := by
  have hW : W = (W - 1) + 1 := by have := h.hW; omega
  rw [hW, Finset.sum_range_succ]
  have e0 : zray P (W - 1 + 1) t e (W - 1) = 0 := by simp [zray]
  rw [e0, mul_zero, add_zero]
  have e1 : ∀ c ∈ range (W - 1), v c * zray P (W - 1 + 1) t e c =
      v c * (if c = e then 1 else 0) + v c * ∑ i ∈ range P.m, if t.bs i = c then -(t.e i e) else 0 := by
    intro c hc
    have : c < W - 1 + 1 - 1 := by have := Finset.mem_range.mp hc; omega
    simp only [zray, if_pos this]
    rw [rayVal_eq e c hnb]; ring
  rw [Finset.sum_congr rfl e1, Finset.sum_add_distrib, gsum_mul_comb v (fun i => -(t.e i e))]
  have e2 : ∑ c ∈ range (W - 1), v c * (if c = e then (1 : ℚ) else 0) = v e := by
    rw [Finset.sum_eq_single e]
    · simp
    · intro c _ hc; rw [if_neg hc]; ring
    · intro hn; exact absurd (Finset.mem_range.mpr he) hn
  rw [e2, sub_eq_add_neg, ← Finset.sum_neg_distrib]
  congr 1
  refine Finset.sum_congr rfl fun k _ => ?_
  simp only [Nat.add_sub_cancel]
  split <;> ring

theorem rows_zray (h : GInv P W R obar t) {e : ℕ} (he : e < W - 1) (hnb : ∀ i < P.m, t.bs i ≠ e) :
    ∀ k < P.m, ∑ c ∈ range W, R k c * zray P W t e c = 0 := by
  refine (h.sol _).mp fun i hi => ?_
  rw [sum_zray h he hnb (t.e i), live_row_comb h hi (fun k => t.e k e)]
  split
  · ring
  · rename_i hd
    rw [h.dead i hi hd e (by omega)]; ring

theorem obj_zray (h : GInv P W R obar t) {e : ℕ} (he : e < W - 1) (hnb : ∀ i < P.m, t.bs i ≠ e) :
    ∑ c ∈ range W, t.oe c * zray P W t e c = t.oe e := by
  rw [sum_zray h he hnb t.oe]
  have : ∑ k ∈ range P.m, (if t.bs k < W - 1 then t.oe (t.bs k) * t.e k e else 0) = 0 :=
    Finset.sum_eq_zero fun k hk => by
      split
      · rename_i hlk; rw [h.objB k (Finset.mem_range.mp hk) hlk]; ring
      · rfl
  rw [this]; ring

end gread

/-! ### phase 2: reading the certificates (width `n+m+1`, reference rows `[A I | b]`) -/
section read2
variable {P : LP} {t : Tab}

/-- the invariant of the phase-2 tableau -/
abbrev Inv2 (P : LP) (t : Tab) : Prop := GInv P (P.n + P.m + 1) (origRow P) (wbar P) t

theorem wbar_sum (P : LP) (z : ℕ → ℚ) :
    ∑ c ∈ range (P.n + P.m + 1), wbar P c * z c = ∑ j ∈ range P.n, vget P.c j * z j := by
  rw [Finset.sum_range_succ, Finset.sum_range_add]
  have h1 : ∑ j ∈ range P.n, wbar P j * z j = ∑ j ∈ range P.n, vget P.c j * z j :=
    Finset.sum_congr rfl fun j hj => by rw [wbar_lt (Finset.mem_range.mp hj)]
  have h2 : ∑ k ∈ range P.m, wbar P (P.n + k) * z (P.n + k) = 0 :=
    Finset.sum_eq_zero fun k _ => by rw [wbar_ge]; ring
  have h3 : wbar P (P.n + P.m) = 0 := wbar_ge P.m
  rw [h1, h2, h3]; ring

theorem basic_primal2 (h : Inv2 P t) {k : ℕ} (hk : k < P.m) :
    ∑ j ∈ range P.n, P.a k j * bval P (P.n + P.m + 1) t j + bval P (P.n + P.m + 1) t (P.n + k)
      = vget P.b k := by
  have := rows_zbasic h k hk
  rw [origRow_sum P k hk] at this
  have e3 : ∑ j ∈ range P.n, P.a k j * zbasic P (P.n + P.m + 1) t j
      = ∑ j ∈ range P.n, P.a k j * bval P (P.n + P.m + 1) t j :=
    Finset.sum_congr rfl fun j hj => by
      have : j < P.n + P.m + 1 - 1 := by have := Finset.mem_range.mp hj; omega
      simp only [zbasic, if_pos this]
  have e4 : zbasic P (P.n + P.m + 1) t (P.n + k) = bval P (P.n + P.m + 1) t (P.n + k) := by
    have : P.n + k < P.n + P.m + 1 - 1 := by omega
    simp only [zbasic, if_pos this]
  have e5 : zbasic P (P.n + P.m + 1) t (P.n + P.m) = -1 := by simp [zbasic]
  rw [e3, e4, e5] at this
  linarith

theorem ray_primal2 (h : Inv2 P t) {e : ℕ} (he : e < P.n + P.m) (hnb : ∀ i < P.m, t.bs i ≠ e)
    {k : ℕ} (hk : k < P.m) :
    ∑ j ∈ range P.n, P.a k j * rayVal P t e j + rayVal P t e (P.n + k) = 0 := by
  have := rows_zray h (by omega : e < P.n + P.m + 1 - 1) hnb k hk
  rw [origRow_sum P k hk] at this
  have e3 : ∑ j ∈ range P.n, P.a k j * zray P (P.n + P.m + 1) t e j
      = ∑ j ∈ range P.n, P.a k j * rayVal P t e j :=
    Finset.sum_congr rfl fun j hj => by
      have : j < P.n + P.m + 1 - 1 := by have := Finset.mem_range.mp hj; omega
      simp only [zray, if_pos this]
  have e4 : zray P (P.n + P.m + 1) t e (P.n + k) = rayVal P t e (P.n + k) := by
    have : P.n + k < P.n + P.m + 1 - 1 := by omega
    simp only [zray, if_pos this]
  have e5 : zray P (P.n + P.m + 1) t e (P.n + P.m) = 0 := by simp [zray]
  rw [e3, e4, e5] at this
  linarith

theorem basic_objective2 (h : Inv2 P t) :
    ∑ j ∈ range P.n, vget P.c j * bval P (P.n + P.m + 1) t j = -t.oe (P.n + P.m) := by
  have := h.objF _ (rows_zbasic h)
  rw [obj_zbasic h, wbar_sum] at this
  have e3 : ∑ j ∈ range P.n, vget P.c j * zbasic P (P.n + P.m + 1) t j
      = ∑ j ∈ range P.n, vget P.c j * bval P (P.n + P.m + 1) t j :=
    Finset.sum_congr rfl fun j hj => by
      have : j < P.n + P.m + 1 - 1 := by have := Finset.mem_range.mp hj; omega
      simp only [zbasic, if_pos this]
  rw [e3] at this
  simpa using this.symm

theorem ray_objective2 (h : Inv2 P t) {e : ℕ} (he : e < P.n + P.m) (hnb : ∀ i < P.m, t.bs i ≠ e) :
    ∑ j ∈ range P.n, vget P.c j * rayVal P t e j = t.oe e := by
  have he' : e < P.n + P.m + 1 - 1 := by omega
  have := h.objF _ (rows_zray h he' hnb)
  rw [obj_zray h he' hnb, wbar_sum] at this
  have e3 : ∑ j ∈ range P.n, vget P.c j * zray P (P.n + P.m + 1) t e j
      = ∑ j ∈ range P.n, vget P.c j * rayVal P t e j :=
    Finset.sum_congr rfl fun j hj => by
      have : j < P.n + P.m + 1 - 1 := by have := Finset.mem_range.mp hj; omega
      simp only [zray, if_pos this]
  rw [e3] at this
  exact this.symm

theorem oe_struct2 (h : Inv2 P t) {j : ℕ} (hj : j < P.n) :
    t.oe j = vget P.c j + ∑ k ∈ range P.m, t.oe (P.n + k) * P.a k j := by
  have := h.objS.1 j hj
  simp only [wbar_lt hj, wbar_ge, sub_zero] at this
  linarith

theorem oe_last2 (h : Inv2 P t) : t.oe (P.n + P.m) = ∑ k ∈ range P.m, t.oe (P.n + k) * vget P.b k := by
  have := h.objS.2
  simp only [Nat.add_sub_cancel, wbar_ge, sub_zero] at this
  exact this

theorem oe_nonneg2 (h : Inv2 P t) (hn : findEnter 0 t = none) {c : ℕ} (hc : c < P.n + P.m) : 0 ≤ t.oe c := by
  by_cases hb : ∃ i < P.m, t.bs i = c
  · obtain ⟨i, hi, rfl⟩ := hb
    rw [h.objB i hi (by omega)]
  · refine findEnter_none h.wf hn c (by simpa using hc) (fun i hi e => hb ⟨i, hi, e⟩)

theorem idxOf_some_bs (hwf : t.WF P.m (P.n + P.m + 1)) {j i : ℕ} (hidx : t.basis.idxOf? j = some i) :
    i < P.m ∧ t.bs i = j := by
  unfold List.idxOf? at hidx
  rw [List.findIdx?_eq_some_iff_getElem] at hidx
  obtain ⟨hi', hb, _⟩ := hidx
  refine ⟨by rw [← hwf.basis_len]; exact hi', ?_⟩
  simp only [Tab.bs, List.getD_eq_getElem?_getD, List.getElem?_eq_getElem hi', Option.getD_some]
  simpa using hb

theorem idxOf_none_bs (hwf : t.WF P.m (P.n + P.m + 1)) {j : ℕ} (hidx : t.basis.idxOf? j = none) :
    ∀ i < P.m, t.bs i ≠ j := by
  unfold List.idxOf? at hidx
  rw [List.findIdx?_eq_none_iff] at hidx
  intro i hi hb
  have hi' : i < t.basis.length := by rw [hwf.basis_len]; exact hi
  have := hidx _ (List.getElem_mem hi')
  have hbi : t.basis[i] = j := by
    rw [← hb]; simp [Tab.bs, List.getD_eq_getElem?_getD, List.getElem?_eq_getElem hi']
  rw [hbi] at this
  simp at this

theorem vget_extractX2 (h : Inv2 P t) {j : ℕ} (hj : j < P.n) :
    vget (extractX t P.n) j = bval P (P.n + P.m + 1) t j := by
  unfold vget extractX
  rw [List.getD_eq_getElem?_getD, List.getElem?_map, List.getElem?_range hj]
  simp only [Option.map_some, Option.getD_some]
  cases hidx : t.basis.idxOf? j with
  | none =>
    simp only []
    exact (bval_nonbasic j (idxOf_none_bs h.wf hidx)).symm
  | some i =>
    simp only []
    obtain ⟨hi, hbi⟩ := idxOf_some_bs h.wf hidx
    rw [lastR_eq h.wf (Nat.succ_pos _) hi, ← hbi]
    exact (bval_bs h hi (by rw [hbi]; omega)).symm

theorem vget_extractRay2 (h : Inv2 P t) (e : ℕ) {j : ℕ} (hj : j < P.n) :
    vget (extractRay t P.n e) j = rayVal P t e j := by
  unfold vget extractRay rayVal
  rw [List.getD_eq_getElem?_getD, List.getElem?_map, List.getElem?_range hj]
  simp only [Option.map_some, Option.getD_some]
  by_cases hje : j = e
  · rw [if_pos hje, if_pos hje]
  · rw [if_neg hje, if_neg hje]
    cases hidx : t.basis.idxOf? j with
    | none =>
      simp only []
      symm
      refine Finset.sum_eq_zero fun i hi => ?_
      rw [if_neg (idxOf_none_bs h.wf hidx i (Finset.mem_range.mp hi))]
    | some i =>
      simp only []
      obtain ⟨hi, hbi⟩ := idxOf_some_bs h.wf hidx
      rw [Finset.sum_eq_single i]
      · rw [if_pos hbi]; rfl
      · intro k hk hki
        rw [if_neg]
        intro hbk
        exact hki (gbs_inj h (Finset.mem_range.mp hk) hi (by rw [hbi]; omega) (hbk.trans hbi.symm))
      · intro hn; exact absurd (Finset.mem_range.mpr hi) hn

/-- **OPTIMAL** on an invariant phase-2 tableau -/
theorem cert_optimal2 (h : Inv2 P t) (hn : findEnter 0 t = none) :
    chkOptimal P (extractX t P.n) ((t.obj.drop P.n).take P.m) = true := by
  unfold chkOptimal chkFeasible
  simp only [Bool.and_eq_true, allTo_iff_lt, decide_eq_true_eq]
  have hx : ∀ j < P.n, vget (extractX t P.n) j = bval P (P.n + P.m + 1) t j :=
    fun j hj => vget_extractX2 h hj
  have hy : ∀ k < P.m, vget ((t.obj.drop P.n).take P.m) k = t.oe (P.n + k) :=
    fun k hk => vget_slack t P.n P.m hk
  refine ⟨⟨⟨⟨?_, ?_⟩, ?_⟩, ?_⟩, ?_⟩
  · intro j hj; rw [hx j hj]; exact bval_nonneg h j
  · intro i hi
    unfold LP.rowDot
    rw [sumTo_eq_range, Finset.sum_congr rfl fun j hj => by rw [hx j (Finset.mem_range.mp hj)]]
    have := basic_primal2 h hi
    have := bval_nonneg h (P.n + i)
    linarith
  · intro k hk; rw [hy k hk]; exact oe_nonneg2 h hn (by omega)
  · intro j hj
    unfold LP.colDot
    rw [sumTo_eq_range, Finset.sum_congr rfl fun k hk => by rw [hy k (Finset.mem_range.mp hk)],
      ← oe_struct2 h hj]
    exact oe_nonneg2 h hn (by omega)
  · unfold LP.objAt LP.rhsDot
    rw [sumTo_eq_range, sumTo_eq_range]
    have e1 : ∑ j ∈ range P.n, vget P.c j * vget (extractX t P.n) j =
        ∑ j ∈ range P.n, vget P.c j * bval P (P.n + P.m + 1) t j :=
      Finset.sum_congr rfl fun j hj => by rw [hx j (Finset.mem_range.mp hj)]
    have e2 : ∑ k ∈ range P.m, vget ((t.obj.drop P.n).take P.m) k * vget P.b k =
        ∑ k ∈ range P.m, t.oe (P.n + k) * vget P.b k :=
      Finset.sum_congr rfl fun k hk => by rw [hy k (Finset.mem_range.mp hk)]
    rw [e1, e2, basic_objective2 h, oe_last2 h]

/-- **UNBOUNDED** on an invariant phase-2 tableau -/
theorem cert_unbounded2 (h : Inv2 P t) {e : ℕ} (hs : findEnter 0 t = some e)
    (hl : findLeave 0 t e = none) :
    chkUnbounded P (extractX t P.n) (extractRay t P.n e) = true := by
  obtain ⟨he, hnb, hneg⟩ := findEnter_some h.wf hs
  have he : e < P.n + P.m := by simpa using he
  have hle := findLeave_none h.wf (Nat.succ_pos _) hl
  unfold chkUnbounded chkFeasible
  simp only [Bool.and_eq_true, allTo_iff_lt, decide_eq_true_eq]
  have hx : ∀ j < P.n, vget (extractX t P.n) j = bval P (P.n + P.m + 1) t j :=
    fun j hj => vget_extractX2 h hj
  have hd : ∀ j < P.n, vget (extractRay t P.n e) j = rayVal P t e j := fun j hj => vget_extractRay2 h e hj
  refine ⟨⟨⟨⟨?_, ?_⟩, ?_⟩, ?_⟩, ?_⟩
  · intro j hj; rw [hx j hj]; exact bval_nonneg h j
  · intro i hi
    unfold LP.rowDot
    rw [sumTo_eq_range, Finset.sum_congr rfl fun j hj => by rw [hx j (Finset.mem_range.mp hj)]]
    have := basic_primal2 h hi
    have := bval_nonneg h (P.n + i)
    linarith
  · intro j hj; rw [hd j hj]; exact rayVal_nonneg e j hle
  · intro i hi
    unfold LP.rowDot
    rw [sumTo_eq_range, Finset.sum_congr rfl fun j hj => by rw [hd j (Finset.mem_range.mp hj)]]
    have := ray_primal2 h he hnb hi
    have := rayVal_nonneg (P := P) (t := t) e (P.n + i) hle
    linarith
  · unfold LP.objAt
    rw [sumTo_eq_range]
    have e1 : ∑ j ∈ range P.n, vget P.c j * vget (extractRay t P.n e) j =
        ∑ j ∈ range P.n, vget P.c j * rayVal P t e j :=
      Finset.sum_congr rfl fun j hj => by rw [hd j (Finset.mem_range.mp hj)]
    rw [e1, ray_objective2 h he hnb]
    exact hneg

end read2

end Solvor.Lp
