import Solvor.Lp.Milp
import Solvor.Lp.Binary
/-!
Lp/Bnb: step-by-step mirror of `solvor/milp.py::solve_milp` with `heuristics=False` (no Mathlib).

`solveNode` mirrors `_solve_node` (bounds folded into rows, fixed variables substituted), the node LPs
are solved by the simplex mirror `solveLp` at the call's `eps`; the heap is a list from which the
least `(bound, counter)` is popped; `bnbIter` is one pass of the `while` loop.  The `near` flags are
monitors for R_trace only: they record ties and comparisons within `1e-9` of a threshold, where the
double-precision run may legitimately take the other branch.
-/
namespace Solvor.Lp
open Solvor.Gen (Status)

/-- the instance: `c, A, b` as given by the caller, `integers` in set-iteration (ascending) order -/
structure MilpIn where
  c : Vec
  A : Mat
  b : Vec
  ints : List Nat
  minimize : Bool
  deriving Inhabited

structure MilpCfg where
  eps : Rat
  maxIter : Nat
  maxNodes : Nat
  gapTol : Rat
  solutionLimit : Nat
  warm : Option Vec
  deriving Inhabited

def MilpIn.n (M : MilpIn) : Nat := M.c.length
def MilpIn.sign (M : MilpIn) : Rat := if M.minimize then 1 else -1
/-- the caller's problem as an `LP` (objective `c` as given) -/
def MilpIn.U (M : MilpIn) : LP := ⟨M.A, M.b, M.c⟩

def nearEq (a b : Rat) : Bool := decide (absR (a - b) < 1 / 1000000000)

/-! ### `_solve_node` -/

structure NodeRes where
  status : Status
  sol : Vec
  obj : Rat          -- caller's sense; meaningful when OPTIMAL
  near : Bool
  iters : Nat := 0   -- pivots of the node LP (monitor: sizes the `max_iter` sweep of the harness)
  deriving Inhabited

/-- `upper[j] < inf` comparisons: `none` is `+inf` -/
def optLt (a : Option Rat) (b : Rat) : Bool := match a with | some v => decide (v < b) | none => false

/-- `fixed[j] = lo` when `hi - lo < eps` -/
def fixedVal (eps : Rat) (lo : Rat) (hi : Option Rat) : Option Rat :=
  match hi with
  | some h => if h - lo < eps then some lo else none
  | none => none

def solveNode (M : MilpIn) (eps : Rat) (maxIter : Nat) (lower : List Rat) (upper : List (Option Rat)) : NodeRes :=
  let n := M.n
  let idx := List.range n
  let lo (j : Nat) : Rat := lower.getD j 0
  let hi (j : Nat) : Option Rat := upper.getD j none
  if idx.any (fun j => optLt (hi j) (lo j - eps)) then ⟨.INFEASIBLE, [], 0, false, 0⟩ else
  let fx (j : Nat) : Option Rat := fixedVal eps (lo j) (hi j)
  let free := idx.filter fun j => (fx j).isNone
  let fixedList := idx.filter fun j => (fx j).isSome
  let fv (j : Nat) : Rat := (fx j).getD 0
  if free.isEmpty then
    let sol := idx.map fv
    let obj := (fixedList.map fun j => vget M.c j * fv j).sum
    if (List.range M.b.length).any (fun i =>
        decide ((idx.map fun j => (M.A.getD i []).getD j 0 * vget sol j).sum > vget M.b i + eps)) then
      ⟨.INFEASIBLE, [], 0, false, 0⟩
    else ⟨.OPTIMAL, sol, obj, false, 0⟩
  else
    let rowsA := (List.range M.b.length).map fun i =>
      let row := M.A.getD i []
      (free.map fun j => row.getD j 0, vget M.b i - (fixedList.map fun j => row.getD j 0 * fv j).sum)
    let nf := free.length
    let boundRows := (free.zipIdx).flatMap fun (jOld, jNew) =>
      (if lo jOld > eps then [((List.range nf).map fun t => if t = jNew then (-1 : Rat) else 0, -(lo jOld))] else []) ++
      (match hi jOld with
       | some h => [((List.range nf).map fun t => if t = jNew then (1 : Rat) else 0, h)]
       | none => [])
    let allRows := rowsA ++ boundRows
    let cRed := free.map fun j => vget M.c j
    let fixedObj := (fixedList.map fun j => vget M.c j * fv j).sum
    let r := solveLp cRed (allRows.map (·.1)) (allRows.map (·.2)) M.minimize eps maxIter
    if r.status != .OPTIMAL then ⟨r.status, [], 0, r.near, r.iters⟩ else
    let full := idx.map fun j =>
      match fx j with
      | some v => v
      | none => vget r.x (free.idxOf j)
    ⟨.OPTIMAL, full, r.objective.getD 0 + fixedObj, r.near, r.iters⟩

/-! ### per-node certificate check (monitor; discharges the hypothesis of the refinement theorem) -/

/-- the minimised problem `⟨A, b, ±c⟩` -/
def MilpIn.P (M : MilpIn) : LP := mkLP M.c M.A M.b M.minimize

/-- bound rows of a node for every variable: `−x_j ≤ −lo_j` and, when finite, `x_j ≤ hi_j` -/
def boxPairs (n : Nat) (lower : List Rat) (upper : List (Option Rat)) : List (List Rat × Rat) :=
  (List.range n).flatMap fun j =>
    (negV (unitV n j), -(lower.getD j 0)) ::
      (match upper.getD j none with
       | some h => [(unitV n j, h)]
       | none => [])

/-- the node relaxation as a full-dimensional LP -/
def LP.box (P : LP) (lower : List Rat) (upper : List (Option Rat)) : LP :=
  ⟨P.A ++ (boxPairs P.n lower upper).map (·.1), P.b ++ (boxPairs P.n lower upper).map (·.2), P.c⟩

/-- the node's box on the coordinates `js` -/
def inBoxOn (js : List Nat) (lower : List Rat) (upper : List (Option Rat)) (x : Vec) : Bool :=
  js.all fun j => decide (lower.getD j 0 ≤ vget x j) &&
    (match upper.getD j none with
     | some h => decide (vget x j ≤ h)
     | none => true)

/-- Does the answer of `solveNode` on this node satisfy what branch and bound needs?  Decided with the
exact certifying simplex on the node relaxation `P.box`:
not OPTIMAL → the relaxation is certified infeasible;
OPTIMAL → the relaxation has a certified optimum not below the claimed bound, the node solution's
objective is the claimed one, it lies in the node's box on the integer coordinates and – when it is
taken as an incumbent candidate (no fractional integer variable) – it passes the filter `isFeasible`. -/
def nodeCheck (M : MilpIn) (eps : Rat) (lower : List Rat) (upper : List (Option Rat)) (r : NodeRes) : Bool :=
  let Pb := M.P.box lower upper
  let e := exactSolve Pb
  if r.status != .OPTIMAL then e.status == .INFEASIBLE && certifies Pb e
  else
    e.status == .OPTIMAL && certifies Pb e && decide (M.sign * r.obj ≤ Pb.objAt e.x) &&
    ((mostFractional r.sol M.ints eps).isSome || (r.sol.length == M.n && isFeasible M.U M.ints eps r.sol)) &&
    decide (M.P.objAt r.sol = M.sign * r.obj) && inBoxOn M.ints lower upper r.sol

/-! ### the tree -/

structure TNode where
  bound : Rat
  counter : Nat
  lower : List Rat
  upper : List (Option Rat)
  parent : Nat            -- counter of the parent's pop (monitor only)
  deriving Inhabited

def TNode.le (a b : TNode) : Bool := decide (a.bound < b.bound) || (a.bound == b.bound && decide (a.counter ≤ b.counter))

/-- `heappop`: the least `(bound, counter)` and the rest (order of the rest kept) -/
def popMin : List TNode → Option (TNode × List TNode)
  | [] => none
  | a :: rest =>
    match popMin rest with
    | none => some (a, [])
    | some (m, rest') => if a.le m then some (a, rest) else some (m, a :: rest')

structure TState where
  tree : List TNode
  counter : Nat
  explored : Nat
  best : Option (Vec × Rat)      -- `best_solution`, `best_obj`
  sols : List Vec                -- `all_solutions`
  near : Bool
  ok : Bool := true              -- monitor: every explored node passed `nodeCheck`
  maxIt : Nat := 0               -- monitor: largest pivot count of a single node LP
  negTie : Bool := false         -- monitor: a new incumbent's objective was the NEGATED bound of its node
  deriving Inhabited

structure MilpOut where
  status : Status
  x : Option Vec
  objective : Option Rat         -- `none` = ±inf
  nodes : Nat
  sols : List Vec                -- `Result.solutions` (`[]` when `None`)
  near : Bool
  ok : Bool := true              -- monitor: every explored node passed `nodeCheck`
  maxIt : Nat := 0               -- monitor: largest pivot count of a single node LP
  negTie : Bool := false         -- monitor: a new incumbent's objective was the NEGATED bound of its node
  deriving Inhabited

inductive Iter where
  | cont (s : TState)
  | done (o : MilpOut)

/-- `_compute_gap(best_obj, bound)` -/
def computeGap (bestObj bound : Rat) : Rat :=
  if absR bestObj < 1 / 10000000000 then absR (bestObj - bound) else absR (bestObj - bound) / absR bestObj

/-- second-best fractionality within `1e-9` of the best (monitor) -/
def fracTie (x : Vec) (ints : List Nat) (eps : Rat) : Bool :=
  let fr := ints.map fun j => roundDist (vget x j)
  let best := fr.foldl max 0
  decide ((fr.filter fun f => nearEq f best).length > 1) || fr.any (fun f => nearEq f eps)

/-- `best_solution is not None and node_bound >= sign * best_obj - eps` -/
def prunedBy (sign eps : Rat) (best : Option (Vec × Rat)) (bound : Rat) : Bool :=
  match best with
  | some (_, bo) => decide (bound ≥ sign * bo - eps)
  | none => false

/-- what the loop body does with an explored node -/
inductive Act where
  | drop                  -- node LP not OPTIMAL: `continue`
  | boundDrop             -- `sign * result.objective >= sign * best_obj - eps: continue`
  | integral              -- no fractional integer variable
  | branch (j : Nat)

def nodeAct (M : MilpIn) (eps : Rat) (best : Option (Vec × Rat)) (r : NodeRes) : Act :=
  if r.status != .OPTIMAL then .drop
  else if prunedBy M.sign eps best (M.sign * r.obj) then .boundDrop
  else match mostFractional r.sol M.ints eps with
    | none => .integral
    | some j => .branch j

/-- monitor: comparisons of this pass that lie within `1e-9` of their threshold -/
def passNear (M : MilpIn) (cfg : MilpCfg) (s : TState) (node : TNode) (rest : List TNode) : Bool :=
  (rest.any fun t => t.parent != node.parent && nearEq t.bound node.bound) ||
  (match s.best with
   | some (_, bo) => nearEq node.bound (M.sign * bo - cfg.eps)
   | none => false)

def nodeNear (M : MilpIn) (cfg : MilpCfg) (s : TState) (r : NodeRes) : Bool :=
  r.near ||
  (r.status == .OPTIMAL &&
    ((match s.best with
      | some (_, bo) => nearEq (M.sign * r.obj) (M.sign * bo - cfg.eps) || nearEq (M.sign * r.obj) (M.sign * bo)
      | none => false) || fracTie r.sol M.ints cfg.eps))

/-- the incumbent update `if sign * sol_obj < sign * best_obj` -/
def offerBest (sign : Rat) (best : Option (Vec × Rat)) (sol : Vec) (obj : Rat) : Option (Vec × Rat) :=
  match best with
  | some (x, bo) => if sign * obj < sign * bo then some (sol, obj) else some (x, bo)
  | none => some (sol, obj)

def improvesBest (sign : Rat) (best : Option (Vec × Rat)) (obj : Rat) : Bool :=
  match best with
  | some (_, bo) => decide (sign * obj < sign * bo)
  | none => true

/-- `solution_limit > 1 and sol not in all_solutions` -/
def isNewSol (cfg : MilpCfg) (sols : List Vec) (sol : Vec) : Bool :=
  decide (cfg.solutionLimit > 1) && !sols.contains sol
def collectSols (cfg : MilpCfg) (sols : List Vec) (sol : Vec) : List Vec :=
  if isNewSol cfg sols sol then sols ++ [sol] else sols
/-- `node_bound / sign if node_bound != 0 else 0` -/
def gapArg (sign bound : Rat) : Rat := if bound != 0 then bound / sign else 0
def bestSol (best : Option (Vec × Rat)) (sol : Vec) : Vec := match best with | some (b, _) => b | none => sol
def bestObj (best : Option (Vec × Rat)) (obj : Rat) : Rat := match best with | some (_, bo) => bo | none => obj

/-- coverage monitor for the `gap` exit: the new incumbent's objective is non-zero and equals the negation of the
node's bound converted back to the caller's sense (a sign slip in that conversion would read the gap as closed) -/
def negTieAt (M : MilpIn) (node : TNode) (r : NodeRes) : Bool :=
  r.obj != 0 && (r.obj == -(gapArg M.sign node.bound) || r.obj == -node.bound || r.obj == node.bound) &&
    r.obj != gapArg M.sign node.bound

/-- the integral branch of the loop body: solution collection, incumbent update, early returns -/
def integralStep (M : MilpIn) (cfg : MilpCfg) (s1 : TState) (node : TNode) (r : NodeRes) : Iter :=
  let sol := r.sol
  let sols := collectSols cfg s1.sols sol
  if isNewSol cfg s1.sols sol && decide (sols.length ≥ cfg.solutionLimit) then
    .done ⟨.FEASIBLE, some (bestSol s1.best sol), some (bestObj s1.best r.obj), s1.explored, sols, s1.near, s1.ok, s1.maxIt, s1.negTie⟩
  else if improvesBest M.sign s1.best r.obj then
    let gap := computeGap r.obj (gapArg M.sign node.bound)
    let s3 : TState := { s1 with sols := sols, best := offerBest M.sign s1.best sol r.obj,
                                 near := s1.near || nearEq gap cfg.gapTol
                                 negTie := s1.negTie || negTieAt M node r }
    if decide (gap < cfg.gapTol) && cfg.solutionLimit == 1 then
      .done ⟨.OPTIMAL, some sol, some r.obj, s3.explored, [], s3.near, s3.ok, s3.maxIt, s3.negTie⟩
    else .cont s3
  else .cont { s1 with sols := sols, best := offerBest M.sign s1.best sol r.obj }

/-- one pass of `while tree and nodes_explored < max_nodes` after the loop test succeeded -/
def bnbIter (M : MilpIn) (cfg : MilpCfg) (s : TState) : Iter :=
  match popMin s.tree with
  | none => .cont s
  | some (node, rest) =>
    let s0 : TState := { s with tree := rest, near := s.near || passNear M cfg s node rest }
    if prunedBy M.sign cfg.eps s.best node.bound then .cont s0 else
    let r := solveNode M cfg.eps cfg.maxIter node.lower node.upper
    let s1 : TState := { s0 with explored := s0.explored + 1, near := s0.near || nodeNear M cfg s r
                                 ok := s0.ok && nodeCheck M cfg.eps node.lower node.upper r
                                 maxIt := max s0.maxIt r.iters }
    match nodeAct M cfg.eps s.best r with
    | .drop => .cont s1
    | .boundDrop => .cont s1
    | .integral => integralStep M cfg s1 node r
    | .branch j =>
      let val := vget r.sol j
      let cb := M.sign * r.obj
      let left : TNode := ⟨cb, s1.counter, node.lower, node.upper.set j (some (val.floor : Rat)), node.counter⟩
      let right : TNode := ⟨cb, s1.counter + 1, node.lower.set j (val.ceil : Rat), node.upper, node.counter⟩
      .cont { s1 with tree := left :: right :: s1.tree, counter := s1.counter + 2 }

/-- the tail of `solve_milp` after the loop -/
def bnbFinish (cfg : MilpCfg) (s : TState) : MilpOut :=
  match s.best with
  | none => ⟨if s.tree.isEmpty then .INFEASIBLE else .MAX_ITER, none, none, s.explored, [], s.near, s.ok, s.maxIt, s.negTie⟩
  | some (x, bo) =>
    let status := if s.tree.isEmpty then Status.OPTIMAL else .FEASIBLE
    ⟨status, some x, some bo, s.explored, if cfg.solutionLimit > 1 then s.sols else [], s.near, s.ok, s.maxIt, s.negTie⟩

/-- the `while` loop, `fuel` passes at most (`2·max_nodes + 2` always suffice) -/
def bnbLoop (M : MilpIn) (cfg : MilpCfg) : Nat → TState → MilpOut
  | 0, s => bnbFinish cfg s
  | fuel + 1, s =>
    if s.tree.isEmpty || decide (s.explored ≥ cfg.maxNodes) then bnbFinish cfg s else
    match bnbIter M cfg s with
    | .done o => o
    | .cont s' => bnbLoop M cfg fuel s'

def lower0 (M : MilpIn) : List Rat := List.replicate M.n 0
def upper0 (M : MilpIn) : List (Option Rat) := List.replicate M.n none

/-- the warm start as initial incumbent: `len(ws) == n and _is_feasible(ws, …)` -/
def warmBest (M : MilpIn) (cfg : MilpCfg) : Option (Vec × Rat) :=
  match cfg.warm with
  | some ws => if ws.length == M.n && isFeasible M.U M.ints cfg.eps ws then some (ws, M.U.objAt ws) else none
  | none => none

/-- `looks_binary and _detect_binary(…)` -/
def tightened (M : MilpIn) (cfg : MilpCfg) (root : NodeRes) : Bool :=
  (M.ints.all fun j => decide (-cfg.eps ≤ vget root.sol j) && decide (vget root.sol j ≤ 1 + cfg.eps)) &&
    detectBinary M.U M.ints cfg.eps

def upper1 (M : MilpIn) (cfg : MilpCfg) (root : NodeRes) : List (Option Rat) :=
  if tightened M cfg root then (List.range M.n).map fun j => if M.ints.contains j then some 1 else none
  else upper0 M

/-- the state in which the `while` loop is entered -/
def initState (M : MilpIn) (cfg : MilpCfg) (root : NodeRes) : TState :=
  ⟨[⟨M.sign * root.obj, 0, lower0 M, upper1 M cfg root, 0⟩], 1, 0, warmBest M cfg,
   (match warmBest M cfg with | some (ws, _) => [ws] | none => []),
   root.near || fracTie root.sol M.ints cfg.eps ||
     (M.ints.any fun j => nearEq (vget root.sol j) (-cfg.eps) || nearEq (vget root.sol j) (1 + cfg.eps)),
   -- the root bound comes from the first root solve: it is node-checked here
   nodeCheck M cfg.eps (lower0 M) (upper0 M) root, root.iters, false⟩

/-- `solve_milp(c, A, b, integers, …, heuristics=False)` -/
def solveMilp (M : MilpIn) (cfg : MilpCfg) : MilpOut :=
  let root := solveNode M cfg.eps cfg.maxIter (lower0 M) (upper0 M)
  if root.status == .INFEASIBLE then
    ⟨.INFEASIBLE, none, none, 0, [], root.near, nodeCheck M cfg.eps (lower0 M) (upper0 M) root, root.iters, false⟩ else
  if root.status == .UNBOUNDED then ⟨.UNBOUNDED, none, none, 0, [], root.near, true, root.iters, false⟩ else
  match mostFractional root.sol M.ints cfg.eps with
  | none => ⟨.OPTIMAL, some root.sol, some root.obj, 1, [], root.near || fracTie root.sol M.ints cfg.eps,
      root.status == .OPTIMAL && nodeCheck M cfg.eps (lower0 M) (upper0 M) root, root.iters, false⟩
  | some _ => bnbLoop M cfg (2 * cfg.maxNodes + 2) (initState M cfg root)

end Solvor.Lp
