import Solvor.Lp.Milp
/-! Lp/Binary: mirror of `solvor/milp.py::_detect_binary` (no Mathlib imports). -/
namespace Solvor.Lp

/-- the non-zero pattern `nz` of row `i`: columns with `abs(row[j]) > eps` -/
def rowNz (P : LP) (eps : Rat) (i : Nat) : List Nat :=
  (List.range P.n).filter fun j => decide (absR (P.a i j) > eps)

/-- the variables `_detect_binary` adds to `bounded`, row by row (with repetitions) -/
def boundedVars (P : LP) (ints : List Nat) (eps : Rat) : List Nat :=
  (List.range P.m).filterMap fun i =>
    if absR (vget P.b i - 1) > eps then none else
    match rowNz P eps i with
    | [j] => if ints.contains j && decide (absR (P.a i j - 1) < eps) then some j else none
    | _ => none

/-- `len(bounded) == len(int_set) and len(int_set) > 0` (`bounded` is a set in the code) -/
def detectBinary (P : LP) (ints : List Nat) (eps : Rat) : Bool :=
  decide ((boundedVars P ints eps).eraseDups.length = ints.length) && decide (0 < ints.length)

end Solvor.Lp
