import Solvor.Lp.Tableau
/-!
Lp/Phase1: the invariant through `_phase1` – construction of the artificial tableau, Farkas read-off,
pivot-out of basic artificials, removal of the artificial columns, objective restoration.
-/
namespace Solvor.Lp
open Finset
open Solvor.Gen (Status)

/-! ### the flipped rows -/
section flipped
variable (P : LP)

/-- the tableau `solve_lp` starts from -/
abbrev tab0 (P : LP) : Tab := initTab P.c P.A P.b

theorem mem_flipped (hA : ∀ i < P.m, (P.A.getD i []).length = P.n) (i : ℕ) :
    i ∈ flippedRows 0 P.m (tab0 P) ↔ i < P.m ∧ vget P.b i < 0 := by
  unfold flippedRows
  rw [List.mem_filter, List.mem_range, decide_eq_true_eq, neg_zero]
  constructor
  · rintro ⟨hi, hlt⟩
    rw [lastR_eq (initTab_wf P hA) (Nat.succ_pos _) hi, initTab_e P hA hi (by omega)] at hlt
    have h1 : ¬ (P.n + P.m + 1 - 1 < P.n) := by omega
    have h2 : ¬ (P.n + P.m + 1 - 1 < P.n + P.m) := by omega
    simp only [origRow, h1, h2, if_false] at hlt
    exact ⟨hi, hlt⟩
  · rintro ⟨hi, hlt⟩
    refine ⟨hi, ?_⟩
    rw [lastR_eq (initTab_wf P hA) (Nat.succ_pos _) hi, initTab_e P hA hi (by omega)]
    have h1 : ¬ (P.n + P.m + 1 - 1 < P.n) := by omega
    have h2 : ¬ (P.n + P.m + 1 - 1 < P.n + P.m) := by omega
    simp only [origRow, h1, h2, if_false]
    exact hlt

theorem flipped_nodup : (flippedRows 0 P.m (tab0 P)).Nodup :=
  List.Nodup.filter _ List.nodup_range

end flipped

/-- `idxOf?` on a duplicate-free list -/
theorem idxOf?_some_iff {l : List ℕ} (hl : l.Nodup) {i k : ℕ} :
    l.idxOf? i = some k ↔ ∃ h : k < l.length, l[k] = i := by
  unfold List.idxOf?
  rw [List.findIdx?_eq_some_iff_getElem]
  constructor
  · rintro ⟨h, hb, _⟩
    exact ⟨h, by simpa using hb⟩
  · rintro ⟨h, rfl⟩
    refine ⟨h, by simp, fun j hj hb => ?_⟩
    have hj' : j < l.length := lt_trans hj h
    have : l[j] = l[k] := by simpa using hb
    have := (List.Nodup.getElem_inj_iff hl).mp this
    omega

theorem idxOf?_none_iff {l : List ℕ} {i : ℕ} : l.idxOf? i = none ↔ i ∉ l := by
  unfold List.idxOf?
  rw [List.findIdx?_eq_none_iff]
  constructor
  · intro h hi; have := h i hi; simp at this
  · intro h x hx
    simp only [beq_eq_false_iff_ne, ne_eq]
    intro e; exact h (e ▸ hx)

/-! ### entries of the phase-1 tableau -/

theorem seg3_getD (a b : List ℚ) (x : ℚ) (c : ℕ) :
    (a ++ b ++ [x]).getD c 0 =
      if c < a.length then a.getD c 0
      else if c < a.length + b.length then b.getD (c - a.length) 0
      else if c = a.length + b.length then x else 0 := by
  by_cases h1 : c < a.length
  · rw [if_pos h1, List.append_assoc, List.getD_append _ _ _ _ h1]
  · rw [if_neg h1]
    by_cases h2 : c < a.length + b.length
    · rw [if_pos h2, List.append_assoc, List.getD_append_right _ _ _ _ (not_lt.mp h1),
        List.getD_append _ _ _ _ (by omega)]
    · rw [if_neg h2, List.getD_append_right _ _ _ _ (by rw [List.length_append]; omega),
        List.length_append]
      by_cases h3 : c = a.length + b.length
      · rw [if_pos h3, h3, Nat.sub_self]; rfl
      · rw [if_neg h3]
        rw [List.getD_eq_default]
        simp; omega

theorem getD_take (l : List ℚ) (k c : ℕ) (hc : c < k) : (l.take k).getD c 0 = l.getD c 0 := by
  rw [List.getD_eq_getElem?_getD, List.getElem?_take, if_pos hc, List.getD_eq_getElem?_getD]

theorem getD_zeros (k c : ℕ) : (zeros k).getD c 0 = 0 := by
  unfold zeros
  rw [List.getD_eq_getElem?_getD, List.getElem?_replicate]
  split <;> rfl

section art
variable (P : LP) (hA : ∀ i < P.m, (P.A.getD i []).length = P.n)

/-- the flipped rows of `P` (rows with negative right-hand side) -/
abbrev flip (P : LP) : List ℕ := flippedRows 0 P.m (tab0 P)
/-- the phase-1 tableau of `P` -/
abbrev tab1 (P : LP) : Tab := artTab P.n P.m (flip P) (tab0 P)
/-- sign of row `i` in the phase-1 tableau -/
def sgn (P : LP) (i : ℕ) : ℚ := if i ∈ flip P then -1 else 1
/-- the artificial column block of row `i` -/
def artPart (P : LP) (i k : ℕ) : ℚ :=
  match (flip P).idxOf? i with
  | some k' => if k = k' then 1 else 0
  | none => 0

include hA in
theorem tab1_row (i : ℕ) (hi : i < P.m) :
    (tab1 P).rows.getD i [] =
      match (flip P).idxOf? i with
      | some k => (((tab0 P).rows.getD i []).take (P.n + P.m)).map (fun v => v * -1)
          ++ unitV (flip P).length k ++ [lastR ((tab0 P).rows.getD i []) * -1]
      | none => ((tab0 P).rows.getD i []).take (P.n + P.m) ++ zeros (flip P).length
          ++ [lastR ((tab0 P).rows.getD i [])] := by
  have hi' : i < (tab0 P).rows.length := by rw [(initTab_wf P hA).rows_len]; exact hi
  simp only [tab1, artTab]
  rw [List.getD_eq_getElem?_getD, List.getElem?_mapIdx, List.getElem?_eq_getElem hi']
  simp only [Option.map_some, Option.getD_some]
  have : (tab0 P).rows.getD i [] = (tab0 P).rows[i] := by
    rw [List.getD_eq_getElem?_getD, List.getElem?_eq_getElem hi']; rfl
  rw [this]
  cases (flip P).idxOf? i <;> rfl

include hA in
theorem tab1_e {i : ℕ} (hi : i < P.m) (c : ℕ) :
    (tab1 P).e i c =
      if c < P.n + P.m then sgn P i * origRow P i c
      else if c < P.n + P.m + (flip P).length then artPart P i (c - (P.n + P.m))
      else if c = P.n + P.m + (flip P).length then sgn P i * vget P.b i else 0 := by
  have hwf := initTab_wf P hA
  have hlen : ((tab0 P).rows.getD i []).length = P.n + P.m + 1 := getD_rows_len hwf hi
  have hlast : lastR ((tab0 P).rows.getD i []) = vget P.b i := by
    rw [lastR_eq hwf (Nat.succ_pos _) hi, initTab_e P hA hi (by omega)]
    have h1 : ¬ (P.n + P.m + 1 - 1 < P.n) := by omega
    have h2 : ¬ (P.n + P.m + 1 - 1 < P.n + P.m) := by omega
    simp only [origRow, h1, h2, if_false]
  have hent : ∀ c < P.n + P.m, ((tab0 P).rows.getD i []).getD c 0 = origRow P i c :=
    fun c hc => initTab_e P hA hi (by omega)
  unfold Tab.e
  rw [tab1_row P hA i hi]
  cases hidx : (flip P).idxOf? i with
  | some k =>
    have hmem : i ∈ flip P := by
      by_contra hn; rw [idxOf?_none_iff.mpr hn] at hidx; cases hidx
    simp only []
    rw [seg3_getD]
    have l1 : ((((tab0 P).rows.getD i []).take (P.n + P.m)).map (fun v => v * -1)).length = P.n + P.m := by
      rw [List.length_map, List.length_take, hlen]; omega
    have l2 : (unitV (flip P).length k).length = (flip P).length := by simp [unitV]
    rw [l1, l2]
    by_cases h1 : c < P.n + P.m
    · rw [if_pos h1, if_pos h1, getD_map_mul, getD_take _ _ _ h1, hent c h1]
      simp only [sgn, if_pos hmem]; ring
    · rw [if_neg h1, if_neg h1]
      by_cases h2 : c < P.n + P.m + (flip P).length
      · rw [if_pos h2, if_pos h2]
        have hk : c - (P.n + P.m) < (flip P).length := by omega
        unfold unitV artPart
        rw [hidx, List.getD_eq_getElem?_getD, List.getElem?_map, List.getElem?_range hk]
        rfl
      · rw [if_neg h2, if_neg h2, hlast]
        simp only [sgn, if_pos hmem]
        split <;> ring
  | none =>
    have hmem : i ∉ flip P := idxOf?_none_iff.mp hidx
    simp only []
    rw [seg3_getD]
    have l1 : (((tab0 P).rows.getD i []).take (P.n + P.m)).length = P.n + P.m := by
      rw [List.length_take, hlen]; omega
    have l2 : (zeros (flip P).length).length = (flip P).length := by simp [zeros]
    rw [l1, l2]
    by_cases h1 : c < P.n + P.m
    · rw [if_pos h1, if_pos h1, getD_take _ _ _ h1, hent c h1]
      simp only [sgn, if_neg hmem]; ring
    · rw [if_neg h1, if_neg h1]
      by_cases h2 : c < P.n + P.m + (flip P).length
      · rw [if_pos h2, if_pos h2, getD_zeros]
        unfold artPart; rw [hidx]
      · rw [if_neg h2, if_neg h2, hlast]
        simp only [sgn, if_neg hmem]
        split <;> ring

include hA in
theorem tab1_row_len {i : ℕ} (hi : i < P.m) :
    ((tab1 P).rows.getD i []).length = P.n + P.m + (flip P).length + 1 := by
  have hlen : ((tab0 P).rows.getD i []).length = P.n + P.m + 1 := getD_rows_len (initTab_wf P hA) hi
  rw [tab1_row P hA i hi]
  cases (flip P).idxOf? i with
  | some k =>
    simp only [List.length_append, List.length_map, List.length_take, hlen, unitV, List.length_range,
      List.length_singleton]
    omega
  | none =>
    simp only [List.length_append, List.length_take, hlen, zeros, List.length_replicate,
      List.length_singleton]
    omega

theorem tab1_bs {i : ℕ} (hi : i < P.m) :
    (tab1 P).bs i = match (flip P).idxOf? i with
      | some k => P.n + P.m + k
      | none => P.n + i := by
  have hi' : i < (tab0 P).basis.length := by simp [tab0, initTab]; exact hi
  simp only [Tab.bs, tab1, artTab]
  rw [List.getD_eq_getElem?_getD, List.getElem?_mapIdx, List.getElem?_eq_getElem hi']
  simp only [Option.map_some, Option.getD_some]
  have hb : (tab0 P).basis[i] = P.n + i := by
    have := initTab_bs P hi
    simp only [Tab.bs, List.getD_eq_getElem?_getD, List.getElem?_eq_getElem hi', Option.getD_some] at this
    exact this
  rw [hb]
  cases (flip P).idxOf? i <;> rfl

end art

theorem subRow_length (a b : List ℚ) (f : ℚ) (h : a.length = b.length) : (subRow a b f).length = a.length := by
  unfold subRow; rw [List.length_zipWith, h]; simp

theorem subRow_getD (a b : List ℚ) (f : ℚ) (c : ℕ) (h : a.length = b.length) :
    (subRow a b f).getD c 0 = a.getD c 0 - f * b.getD c 0 := by
  unfold subRow; exact getD_zipWith_sub a b f c h

/-- a fold that subtracts selected rows from an objective row -/
theorem foldl_subRows (rows : List (List ℚ)) (q : ℕ → Prop) [DecidablePred q] (m W : ℕ)
    (hrows : ∀ i < m, (rows.getD i []).length = W) (o0 : List ℚ) (ho : o0.length = W) :
    ∀ k ≤ m,
      ((List.range k).foldl (fun o i => if q i then subRow o (rows.getD i []) 1 else o) o0).length = W ∧
      ∀ c, ((List.range k).foldl (fun o i => if q i then subRow o (rows.getD i []) 1 else o) o0).getD c 0
        = o0.getD c 0 - ∑ i ∈ range k, if q i then (rows.getD i []).getD c 0 else 0
  | 0, _ => by simp [ho]
  | k + 1, hk => by
    obtain ⟨ih1, ih2⟩ := foldl_subRows rows q m W hrows o0 ho k (Nat.le_of_succ_le hk)
    rw [List.range_succ, List.foldl_append]
    simp only [List.foldl_cons, List.foldl_nil]
    have hr := hrows k hk
    by_cases hq : q k
    · rw [if_pos hq]
      constructor
      · rw [subRow_length _ _ _ (by rw [ih1, hr]), ih1]
      · intro c
        rw [subRow_getD _ _ _ _ (by rw [ih1, hr]), ih2 c, Finset.sum_range_succ, if_pos hq]
        ring
    · rw [if_neg hq]
      refine ⟨ih1, fun c => ?_⟩
      rw [ih2 c, Finset.sum_range_succ, if_neg hq]; ring

section art2
variable (P : LP) (hA : ∀ i < P.m, (P.A.getD i []).length = P.n)

/-- `∑ artificials`: the phase-1 objective before pricing out -/
def obar1 (P : LP) (c : ℕ) : ℚ := if P.n + P.m ≤ c ∧ c < P.n + P.m + (flip P).length then 1 else 0

theorem tab1_bs_ge {i : ℕ} (hi : i < P.m) : (tab1 P).bs i ≥ P.n + P.m ↔ i ∈ flip P := by
  rw [tab1_bs P hi]
  cases hidx : (flip P).idxOf? i with
  | some k =>
    simp only []
    have : i ∈ flip P := by
      by_contra hn; rw [idxOf?_none_iff.mpr hn] at hidx; cases hidx
    exact ⟨fun _ => this, fun _ => by omega⟩
  | none =>
    simp only []
    have : i ∉ flip P := idxOf?_none_iff.mp hidx
    exact ⟨fun h => by omega, fun h => absurd h this⟩

include hA in
theorem tab1_obj :
    (tab1 P).obj.length = P.n + P.m + (flip P).length + 1 ∧
    ∀ c, (tab1 P).oe c = obar1 P c - ∑ i ∈ range P.m, if i ∈ flip P then (tab1 P).e i c else 0 := by
  have hfold : (tab1 P).obj = (List.range P.m).foldl
      (fun o i => if (tab1 P).bs i ≥ P.n + P.m then subRow o ((tab1 P).rows.getD i []) 1 else o)
      ((List.range (P.n + P.m + (flip P).length + 1)).map fun j =>
        if P.n + P.m ≤ j ∧ j < P.n + P.m + (flip P).length then (1 : ℚ) else 0) := rfl
  obtain ⟨h1, h2⟩ := foldl_subRows (tab1 P).rows (fun i => (tab1 P).bs i ≥ P.n + P.m) P.m
    (P.n + P.m + (flip P).length + 1) (fun i hi => tab1_row_len P hA hi)
    ((List.range (P.n + P.m + (flip P).length + 1)).map fun j =>
        if P.n + P.m ≤ j ∧ j < P.n + P.m + (flip P).length then (1 : ℚ) else 0)
    (by rw [List.length_map, List.length_range]) P.m (le_refl _)
  rw [← hfold] at h1 h2
  refine ⟨h1, fun c => ?_⟩
  unfold Tab.oe
  rw [h2 c]
  congr 1
  · unfold obar1
    rw [List.getD_eq_getElem?_getD, List.getElem?_map]
    by_cases hc : c < P.n + P.m + (flip P).length + 1
    · rw [List.getElem?_range hc]; rfl
    · rw [List.getElem?_eq_none (by simpa using hc)]
      have : ¬ (P.n + P.m ≤ c ∧ c < P.n + P.m + (flip P).length) := by omega
      simp [this]
  · refine Finset.sum_congr rfl fun i hi => ?_
    by_cases hf : i ∈ flip P
    · rw [if_pos hf, if_pos ((tab1_bs_ge P (Finset.mem_range.mp hi)).mpr hf)]; rfl
    · rw [if_neg hf, if_neg (fun h => hf ((tab1_bs_ge P (Finset.mem_range.mp hi)).mp h))]

include hA in
theorem tab1_wf : (tab1 P).WF P.m (P.n + P.m + (flip P).length + 1) := by
  have hwf := initTab_wf P hA
  refine ⟨by simp [tab1, artTab, hwf.rows_len], ?_, (tab1_obj P hA).1, by simp [tab1, artTab, hwf.basis_len]⟩
  intro r hr
  obtain ⟨i, hi, rfl⟩ := List.mem_iff_getElem.mp hr
  have hi' : i < P.m := by simpa [tab1, artTab, hwf.rows_len] using hi
  have := tab1_row_len P hA hi'
  rw [List.getD_eq_getElem?_getD, List.getElem?_eq_getElem hi] at this
  exact this

theorem InSW.neg_sum {W : ℕ} (e : ℕ → ℕ → ℚ) (q : ℕ → Prop) [DecidablePred q]
    (he : ∀ i, InSW P W (e i)) : ∀ k, InSW P W (fun c => -∑ i ∈ range k, if q i then e i c else 0)
  | 0 => by simpa using InSW.zero P W
  | k + 1 => by
    have ih := InSW.neg_sum e q he k
    by_cases hq : q k
    · have := ih.sub_mul (he k) 1
      have e1 : (fun c => -∑ i ∈ range (k + 1), if q i then e i c else 0) =
          fun c => (-∑ i ∈ range k, if q i then e i c else 0) - 1 * e k c :=
        funext fun c => by rw [Finset.sum_range_succ, if_pos hq]; ring
      rw [e1]; exact this
    · have e1 : (fun c => -∑ i ∈ range (k + 1), if q i then e i c else 0) =
          fun c => (-∑ i ∈ range k, if q i then e i c else 0) :=
        funext fun c => by rw [Finset.sum_range_succ, if_neg hq]; ring
      rw [e1]; exact ih

include hA in
/-- the slack block of the phase-1 rows: `±1` on the diagonal -/
theorem tab1_slack {i k : ℕ} (hi : i < P.m) (hk : k < P.m) :
    (tab1 P).e i (P.n + k) = if k = i then sgn P i else 0 := by
  rw [tab1_e P hA hi, if_pos (by omega)]
  have h1 : ¬ (P.n + k < P.n) := by omega
  have h2 : P.n + k < P.n + P.m := by omega
  simp only [origRow, h1, h2, if_false, if_true, Nat.add_sub_cancel_left]
  split <;> ring

include hA in
theorem ginv1 : GInv P (P.n + P.m + (flip P).length + 1) (fun k c => (tab1 P).e k c) (obar1 P) (tab1 P) := by
  have hnd := flipped_nodup P
  have rowsS : ∀ i < P.m, InSW P (P.n + P.m + (flip P).length + 1) ((tab1 P).e i) := by
    intro i hi
    have hsum : ∀ g : ℕ → ℚ, ∑ k ∈ range P.m, (tab1 P).e i (P.n + k) * g k = sgn P i * g i := by
      intro g
      rw [Finset.sum_eq_single i]
      · rw [tab1_slack P hA hi hi, if_pos rfl]
      · intro k hk hki
        rw [tab1_slack P hA hi (Finset.mem_range.mp hk), if_neg hki]; ring
      · intro hn; exact absurd (Finset.mem_range.mpr hi) hn
    constructor
    · intro j hj
      rw [hsum, tab1_e P hA hi, if_pos (by omega)]
      simp [origRow, hj]
    · rw [hsum, tab1_e P hA hi]
      have h1 : ¬ (P.n + P.m + (flip P).length + 1 - 1 < P.n + P.m) := by omega
      have h2 : ¬ (P.n + P.m + (flip P).length + 1 - 1 < P.n + P.m + (flip P).length) := by omega
      rw [if_neg h1, if_neg h2, if_pos (by omega)]
  -- basic columns
  have hbs_lt : ∀ k < P.m, (tab1 P).bs k < P.n + P.m + (flip P).length + 1 - 1 := by
    intro k hk
    rw [tab1_bs P hk]
    cases hidx : (flip P).idxOf? k with
    | some k' =>
      obtain ⟨hk', _⟩ := (idxOf?_some_iff hnd).mp hidx
      have hk'' : k' < (flip P).length := hk'
      simp only []; omega
    | none => simp only []; omega
  have unit : ∀ i < P.m, ∀ k < P.m, (tab1 P).e i ((tab1 P).bs k) = if i = k then 1 else 0 := by
    intro i hi k hk
    rw [tab1_bs P hk]
    cases hidx : (flip P).idxOf? k with
    | some k' =>
      obtain ⟨hk', hFk⟩ := (idxOf?_some_iff hnd).mp hidx
      have hk'' : k' < (flip P).length := hk'
      simp only []
      rw [tab1_e P hA hi, if_neg (by omega), if_pos (by omega)]
      simp only [Nat.add_sub_cancel_left, artPart]
      by_cases hik : i = k
      · rw [if_pos hik, hik, hidx]; simp
      · rw [if_neg hik]
        cases hidx' : (flip P).idxOf? i with
        | some k'' =>
          simp only []
          obtain ⟨_, hFi⟩ := (idxOf?_some_iff hnd).mp hidx'
          rw [if_neg]
          intro e; subst e
          exact hik (hFi.symm.trans hFk)
        | none => rfl
    | none =>
      have hnk : k ∉ flip P := idxOf?_none_iff.mp hidx
      simp only []
      rw [tab1_slack P hA hi hk]
      by_cases hik : i = k
      · rw [if_pos hik.symm, if_pos hik, hik]; simp [sgn, hnk]
      · rw [if_neg (fun e => hik e.symm), if_neg hik]
  have hobar_bs : ∀ k < P.m, obar1 P ((tab1 P).bs k) = if k ∈ flip P then 1 else 0 := by
    intro k hk
    rw [tab1_bs P hk]
    cases hidx : (flip P).idxOf? k with
    | some k' =>
      obtain ⟨hk', _⟩ := (idxOf?_some_iff hnd).mp hidx
      have hk'' : k' < (flip P).length := hk'
      have hmem : k ∈ flip P := by
        by_contra hn; rw [idxOf?_none_iff.mpr hn] at hidx; cases hidx
      simp only [obar1]
      rw [if_pos ⟨by omega, by omega⟩, if_pos hmem]
    | none =>
      have hnk : k ∉ flip P := idxOf?_none_iff.mp hidx
      simp only [obar1]
      rw [if_neg (by omega), if_neg hnk]
  refine ⟨tab1_wf P hA, by omega, rowsS, ?_, fun i hi k hk _ => unit i hi k hk, ?_, ?_, fun _ => Iff.rfl, ?_, ?_⟩
  · -- objective row
    have : (fun c => (tab1 P).oe c - obar1 P c) =
        fun c => -∑ i ∈ range P.m, if i ∈ flip P then (tab1 P).e i c else 0 :=
      funext fun c => by rw [(tab1_obj P hA).2 c]; ring
    rw [this]
    -- rows beyond `m` are irrelevant for the sum; use the rows through a total function
    have hrows' : ∀ i, InSW P (P.n + P.m + (flip P).length + 1)
        (fun c => if i < P.m then (tab1 P).e i c else 0) := by
      intro i
      by_cases hi : i < P.m
      · simp only [hi, if_true]; exact rowsS i hi
      · simp only [hi, if_false]; exact InSW.zero P _
    have := InSW.neg_sum P (fun i c => if i < P.m then (tab1 P).e i c else 0) (fun i => i ∈ flip P)
      hrows' P.m
    have e1 : (fun c => -∑ i ∈ range P.m, if i ∈ flip P then (tab1 P).e i c else 0) =
        fun c => -∑ i ∈ range P.m, if i ∈ flip P then (if i < P.m then (tab1 P).e i c else 0) else 0 :=
      funext fun c => by
        congr 1
        exact Finset.sum_congr rfl fun i hi => by rw [if_pos (Finset.mem_range.mp hi)]
    rw [e1]; exact this
  · intro k hk _
    rw [(tab1_obj P hA).2, hobar_bs k hk]
    have : ∑ i ∈ range P.m, (if i ∈ flip P then (tab1 P).e i ((tab1 P).bs k) else 0)
        = if k ∈ flip P then 1 else 0 := by
      rw [Finset.sum_eq_single k]
      · rw [unit k hk k hk, if_pos rfl]
      · intro i hi hik
        rw [unit i (Finset.mem_range.mp hi) k hk, if_neg hik]; simp
      · intro hn; exact absurd (Finset.mem_range.mpr hk) hn
    rw [this]; ring
  · intro i hi hd; exact absurd (hbs_lt i hi) hd
  · intro z hz
    have : ∀ c, (tab1 P).oe c * z c = obar1 P c * z c -
        ∑ i ∈ range P.m, if i ∈ flip P then (tab1 P).e i c * z c else 0 := by
      intro c
      rw [(tab1_obj P hA).2 c, sub_mul, Finset.sum_mul]
      congr 1
      exact Finset.sum_congr rfl fun i _ => by split <;> ring
    rw [Finset.sum_congr rfl fun c _ => this c, Finset.sum_sub_distrib, Finset.sum_comm]
    have : ∑ i ∈ range P.m, ∑ c ∈ range (P.n + P.m + (flip P).length + 1),
        (if i ∈ flip P then (tab1 P).e i c * z c else 0) = 0 := by
      refine Finset.sum_eq_zero fun i hi => ?_
      by_cases hf : i ∈ flip P
      · simp only [hf, if_true]; exact hz i (Finset.mem_range.mp hi)
      · simp [hf]
    rw [this]; ring
  · intro i hi
    rw [tab1_e P hA hi]
    have h1 : ¬ (P.n + P.m + (flip P).length + 1 - 1 < P.n + P.m) := by omega
    have h2 : ¬ (P.n + P.m + (flip P).length + 1 - 1 < P.n + P.m + (flip P).length) := by omega
    rw [if_neg h1, if_neg h2, if_pos (by omega)]
    unfold sgn
    by_cases hf : i ∈ flip P
    · rw [if_pos hf]
      have := ((mem_flipped P hA i).mp hf).2
      linarith
    · rw [if_neg hf]
      have : ¬ vget P.b i < 0 := fun h => hf ((mem_flipped P hA i).mpr ⟨hi, h⟩)
      linarith

end art2

/-! ### what the invariant gives at the end of the phase-1 loop -/
section p1end
variable {P : LP} {R : ℕ → ℕ → ℚ} {t : Tab}

theorem obar1_nonneg (P : LP) (c : ℕ) : 0 ≤ obar1 P c := by unfold obar1; split <;> norm_num

theorem obar1_lt (P : LP) {c : ℕ} (hc : c < P.n + P.m) : obar1 P c = 0 := by
  unfold obar1; rw [if_neg (by omega)]

theorem obar1_last (P : LP) : obar1 P (P.n + P.m + (flip P).length + 1 - 1) = 0 := by
  unfold obar1; rw [if_neg (by omega)]

/-- reduced costs are non-negative when no column can enter -/
theorem goe_nonneg {W : ℕ} {obar : ℕ → ℚ} (h : GInv P W R obar t) (hn : findEnter 0 t = none) {c : ℕ}
    (hc : c < W - 1) : 0 ≤ t.oe c := by
  by_cases hb : ∃ i < P.m, t.bs i = c
  · obtain ⟨i, hi, rfl⟩ := hb
    rw [h.objB i hi hc]
  · exact findEnter_none h.wf hn c hc (fun i hi e => hb ⟨i, hi, e⟩)

/-- **INFEASIBLE**: phase 1 ended optimal with a positive sum of artificials ⇒ the slack part of the
phase-1 objective row is a Farkas vector. -/
theorem cert_infeasible1 (h : GInv P (P.n + P.m + (flip P).length + 1) R (obar1 P) t)
    (hn : findEnter 0 t = none) (hneg : t.oe (P.n + P.m + (flip P).length + 1 - 1) < 0) :
    chkInfeasible P ((t.obj.drop P.n).take P.m) = true := by
  unfold chkInfeasible
  simp only [Bool.and_eq_true, allTo_iff_lt, decide_eq_true_eq]
  have hy : ∀ k < P.m, vget ((t.obj.drop P.n).take P.m) k = t.oe (P.n + k) :=
    fun k hk => vget_slack t P.n P.m hk
  refine ⟨⟨?_, ?_⟩, ?_⟩
  · intro k hk; rw [hy k hk]; exact goe_nonneg h hn (by omega)
  · intro j hj
    unfold LP.colDot
    rw [sumTo_eq_range, Finset.sum_congr rfl fun k hk => by rw [hy k (Finset.mem_range.mp hk)]]
    have := h.objS.1 j hj
    simp only [obar1_lt P (by omega : j < P.n + P.m)] at this
    have e1 : ∑ k ∈ range P.m, (t.oe (P.n + k) - obar1 P (P.n + k)) * P.a k j
        = ∑ k ∈ range P.m, t.oe (P.n + k) * P.a k j :=
      Finset.sum_congr rfl fun k hk => by
        rw [obar1_lt P (by have := Finset.mem_range.mp hk; omega : P.n + k < P.n + P.m)]; ring
    rw [e1] at this
    rw [← this]
    have := goe_nonneg h hn (by omega : j < P.n + P.m + (flip P).length + 1 - 1)
    linarith
  · unfold LP.rhsDot
    rw [sumTo_eq_range, Finset.sum_congr rfl fun k hk => by rw [hy k (Finset.mem_range.mp hk)]]
    have := h.objS.2
    simp only [obar1_last] at this
    have e1 : ∑ k ∈ range P.m, (t.oe (P.n + k) - obar1 P (P.n + k)) * vget P.b k
        = ∑ k ∈ range P.m, t.oe (P.n + k) * vget P.b k :=
      Finset.sum_congr rfl fun k hk => by
        rw [obar1_lt P (by have := Finset.mem_range.mp hk; omega : P.n + k < P.n + P.m)]; ring
    rw [e1] at this
    rw [← this]
    linarith

/-- the phase-1 objective is bounded below: its loop never reports UNBOUNDED -/
theorem phase1_not_unbounded (h : GInv P (P.n + P.m + (flip P).length + 1) R (obar1 P) t) {e : ℕ}
    (hs : findEnter 0 t = some e) (hl : findLeave 0 t e = none) : False := by
  obtain ⟨he, hnb, hneg⟩ := findEnter_some h.wf hs
  have hle := findLeave_none h.wf (Nat.succ_pos _) hl
  have := h.objF _ (rows_zray h he hnb)
  rw [obj_zray h he hnb] at this
  have hnn : 0 ≤ ∑ c ∈ range (P.n + P.m + (flip P).length + 1),
      obar1 P c * zray P (P.n + P.m + (flip P).length + 1) t e c := by
    refine Finset.sum_nonneg fun c _ => mul_nonneg (obar1_nonneg P c) ?_
    unfold zray
    split
    · exact rayVal_nonneg e c hle
    · exact le_refl _
  linarith

/-- phase 1 reached value `0`: every row whose basic variable is artificial has right-hand side `0` -/
theorem art_rhs_zero (h : GInv P (P.n + P.m + (flip P).length + 1) R (obar1 P) t)
    (hnn : ¬ t.oe (P.n + P.m + (flip P).length + 1 - 1) < 0) :
    ∀ k < P.m, P.n + P.m ≤ t.bs k → t.e k (P.n + P.m + (flip P).length + 1 - 1) = 0 := by
  have hF := h.objF _ (rows_zbasic h)
  rw [obj_zbasic h] at hF
  have hterm : ∀ c ∈ range (P.n + P.m + (flip P).length + 1),
      0 ≤ obar1 P c * zbasic P (P.n + P.m + (flip P).length + 1) t c := by
    intro c _
    unfold obar1 zbasic
    by_cases hc : P.n + P.m ≤ c ∧ c < P.n + P.m + (flip P).length
    · rw [if_pos hc, if_pos (by omega)]
      simpa using bval_nonneg h c
    · rw [if_neg hc]; simp
  have hsum0 : ∑ c ∈ range (P.n + P.m + (flip P).length + 1),
      obar1 P c * zbasic P (P.n + P.m + (flip P).length + 1) t c = 0 := by
    have := Finset.sum_nonneg hterm
    linarith [not_lt.mp hnn]
  have hz := (Finset.sum_eq_zero_iff_of_nonneg hterm).mp hsum0
  intro k hk hart
  by_cases hlive : t.bs k < P.n + P.m + (flip P).length + 1 - 1
  · have := hz (t.bs k) (Finset.mem_range.mpr (by omega))
    unfold obar1 zbasic at this
    rw [if_pos ⟨hart, by omega⟩, if_pos hlive, one_mul, bval_bs h hk hlive] at this
    exact this
  · exact h.dead k hk hlive _ (by omega)

end p1end

/-! ### pivoting the basic artificials out -/
section drive
variable {P : LP} {R : ℕ → ℕ → ℚ}

/-- one iteration of the loop in `driveOut` (at `eps = 0`) -/
def driveStep (nm : ℕ) (t : Tab) (i : ℕ) : Tab :=
  if t.basis.getD i 0 ≥ nm then
    let row := t.rows.getD i []
    match (List.range nm).find? fun j => !t.basis.contains j && decide (absR (row.getD j 0) > 0) with
    | some j => setBasis (pivot 0 t i j) i j
    | none => t
  else t

theorem driveOut_eq (nm : ℕ) (t : Tab) : driveOut 0 nm t = (List.range t.rows.length).foldl (driveStep nm) t := rfl

/-- state of the drive-out loop before row `k` -/
structure DInv (P : LP) (R : ℕ → ℕ → ℚ) (k : ℕ) (t : Tab) : Prop where
  inv : GInv P (P.n + P.m + (flip P).length + 1) R (obar1 P) t
  zero : ∀ i < P.m, P.n + P.m ≤ t.bs i → t.e i (P.n + P.m + (flip P).length + 1 - 1) = 0
  done : ∀ i < k, i < P.m → P.n + P.m ≤ t.bs i → ∀ c < P.n + P.m, t.e i c = 0

theorem driveStep_inv {t : Tab} {k : ℕ} (hk : k < P.m) (h : DInv P R k t) :
    DInv P R (k + 1) (driveStep (P.n + P.m) t k) := by
  have hwf := h.inv.wf
  unfold driveStep
  have hbs : t.basis.getD k 0 = t.bs k := rfl
  rw [hbs]
  by_cases hart : t.bs k ≥ P.n + P.m
  · rw [if_pos hart]
    simp only []
    cases hf : (List.range (P.n + P.m)).find?
        (fun j => !t.basis.contains j && decide (absR ((t.rows.getD k []).getD j 0) > 0)) with
    | none =>
      simp only []
      refine ⟨h.inv, h.zero, fun i hi him hia c hc => ?_⟩
      rcases Nat.lt_succ_iff_lt_or_eq.mp hi with h1 | rfl
      · exact h.done i h1 him hia c hc
      · rw [List.find?_eq_none] at hf
        have := hf c (List.mem_range.mpr hc)
        simp only [Bool.and_eq_true, Bool.not_eq_true', decide_eq_true_eq, not_and,
          List.contains_eq_mem, decide_eq_false_iff_not, absR_pos_iff, ne_eq, not_not] at this
        by_cases hb : c ∈ t.basis
        · obtain ⟨k', hk', hbk'⟩ := (mem_basis_iff hwf c).mp hb
          have hne : i ≠ k' := fun e => by rw [e] at hia; omega
          rw [← hbk', h.inv.unit i him k' hk' (by rw [hbk']; omega), if_neg hne]
        · exact this hb
    | some j =>
      simp only []
      have hp := List.find?_some hf
      have hm := List.mem_of_find?_eq_some hf
      rw [List.mem_range] at hm
      simp only [Bool.and_eq_true, Bool.not_eq_true', decide_eq_true_eq, List.contains_eq_mem,
        decide_eq_false_iff_not, absR_pos_iff] at hp
      have hpv : t.e k j ≠ 0 := hp.2
      have hz := h.zero k hk hart
      have hstep : setBasis (pivot 0 t k j) k j = stepTab t k j := rfl
      rw [hstep]
      refine ⟨gstep h.inv hk (by omega) hpv (Or.inr hz), ?_, ?_⟩
      · intro i hi hia
        rw [gstep_bs hwf hk j i] at hia
        have hik : i ≠ k := fun e => by rw [if_pos e] at hia; omega
        rw [if_neg hik] at hia
        rw [gstep_rhs_zero hwf hk hz hi]
        exact h.zero i hi hia
      · intro i hi him hia c hc
        rw [gstep_bs hwf hk j i] at hia
        have hik : i ≠ k := fun e => by rw [if_pos e] at hia; omega
        rw [if_neg hik] at hia
        have hik' : i < k := by omega
        rw [gstep_e hwf hk j i him c, if_neg hik, h.done i hik' him hia c hc, h.done i hik' him hia j hm]
        ring
  · rw [if_neg hart]
    refine ⟨h.inv, h.zero, fun i hi him hia c hc => ?_⟩
    rcases Nat.lt_succ_iff_lt_or_eq.mp hi with h1 | rfl
    · exact h.done i h1 him hia c hc
    · exact absurd hia hart

theorem driveFold_inv : ∀ (k : ℕ) (t : Tab), k ≤ P.m → DInv P R 0 t →
    DInv P R k ((List.range k).foldl (driveStep (P.n + P.m)) t)
  | 0, t, _, h => h
  | k + 1, t, hk, h => by
    rw [List.range_succ, List.foldl_append]
    exact driveStep_inv hk (driveFold_inv k t (Nat.le_of_succ_le hk) h)

theorem driveOut_inv {t : Tab} (h : GInv P (P.n + P.m + (flip P).length + 1) R (obar1 P) t)
    (hnn : ¬ t.oe (P.n + P.m + (flip P).length + 1 - 1) < 0) :
    DInv P R P.m (driveOut 0 (P.n + P.m) t) := by
  rw [driveOut_eq, h.wf.rows_len]
  exact driveFold_inv P.m t (le_refl _) ⟨h, art_rhs_zero h hnn, fun i hi => absurd hi (Nat.not_lt_zero i)⟩

end drive

/-! ### removing the artificial columns, restoring the objective row -/
section restore
variable {P : LP}

/-- the tableau handed to phase 2 -/
abbrev tab4 (P : LP) (t3 : Tab) : Tab := restoreTab 0 (P.n + P.m) P.m (tab0 P).obj t3

theorem seg2_getD (a : List ℚ) (x : ℚ) (c : ℕ) :
    (a ++ [x]).getD c 0 = if c < a.length then a.getD c 0 else if c = a.length then x else 0 := by
  have := seg3_getD a [] x c
  rw [List.append_nil, List.length_nil, Nat.add_zero] at this
  rw [this]
  by_cases h1 : c < a.length
  · rw [if_pos h1, if_pos h1]
  · rw [if_neg h1, if_neg h1, if_neg h1]

variable {t3 : Tab} {K : ℕ} (hwf : t3.WF P.m (P.n + P.m + K + 1))

include hwf in
theorem tab4_row {i : ℕ} (hi : i < P.m) :
    (tab4 P t3).rows.getD i [] = (t3.rows.getD i []).take (P.n + P.m) ++ [lastR (t3.rows.getD i [])] := by
  have hi' : i < t3.rows.length := by rw [hwf.rows_len]; exact hi
  simp only [tab4, restoreTab]
  rw [List.getD_eq_getElem?_getD, List.getElem?_map, List.getElem?_eq_getElem hi']
  simp only [Option.map_some, Option.getD_some]
  have : t3.rows.getD i [] = t3.rows[i] := by
    rw [List.getD_eq_getElem?_getD, List.getElem?_eq_getElem hi']; rfl
  rw [this]

include hwf in
theorem tab4_e {i : ℕ} (hi : i < P.m) (c : ℕ) :
    (tab4 P t3).e i c =
      if c < P.n + P.m then t3.e i c else if c = P.n + P.m then t3.e i (P.n + P.m + K + 1 - 1) else 0 := by
  have hlen := getD_rows_len hwf hi
  unfold Tab.e
  rw [tab4_row hwf hi, seg2_getD]
  have l1 : ((t3.rows.getD i []).take (P.n + P.m)).length = P.n + P.m := by
    rw [List.length_take, hlen]; omega
  rw [l1]
  by_cases h1 : c < P.n + P.m
  · rw [if_pos h1, if_pos h1, getD_take _ _ _ h1]
  · rw [if_neg h1, if_neg h1, lastR_eq hwf (Nat.succ_pos _) hi]; rfl

include hwf in
theorem tab4_row_len {i : ℕ} (hi : i < P.m) : ((tab4 P t3).rows.getD i []).length = P.n + P.m + 1 := by
  rw [tab4_row hwf hi, List.length_append, List.length_take, getD_rows_len hwf hi]
  simp; omega

theorem tab4_bs (i : ℕ) : (tab4 P t3).bs i = t3.bs i := rfl

/-- one step of the objective restoration -/
def restoreStep (nm : ℕ) (t3 : Tab) (rows4 : List (List ℚ)) (o : List ℚ) (i : ℕ) : List ℚ :=
  let var := t3.basis.getD i 0
  if var < nm then
    let cost := o.getD var 0
    if absR cost > 0 then subRow o (rows4.getD i []) cost else o
  else o

theorem tab4_obj : (tab4 P t3).obj =
    (List.range P.m).foldl (restoreStep (P.n + P.m) t3 (tab4 P t3).rows) (tab0 P).obj := rfl

theorem restoreStep_spec (nm : ℕ) (rows4 : List (List ℚ)) (o : List ℚ) (i : ℕ)
    (hl : o.length = (rows4.getD i []).length) :
    (restoreStep nm t3 rows4 o i).length = o.length ∧
    ∀ c, (restoreStep nm t3 rows4 o i).getD c 0 =
      o.getD c 0 - (if t3.bs i < nm then o.getD (t3.bs i) 0 else 0) * (rows4.getD i []).getD c 0 := by
  unfold restoreStep
  have hb : t3.basis.getD i 0 = t3.bs i := rfl
  simp only [hb]
  by_cases hlt : t3.bs i < nm
  · rw [if_pos hlt]
    by_cases hc : absR (o.getD (t3.bs i) 0) > 0
    · rw [if_pos hc]
      exact ⟨subRow_length _ _ _ hl, fun c => by rw [subRow_getD _ _ _ _ hl, if_pos hlt]⟩
    · rw [if_neg hc]
      have : o.getD (t3.bs i) 0 = 0 := by
        by_contra hne; exact hc ((absR_pos_iff _).mpr hne)
      exact ⟨rfl, fun c => by rw [if_pos hlt, this]; ring⟩
  · rw [if_neg hlt]
    exact ⟨rfl, fun c => by rw [if_neg hlt]; ring⟩

end restore

section restore2
variable {P : LP} (hA : ∀ i < P.m, (P.A.getD i []).length = P.n)

theorem sum_split3 (N K : ℕ) (f : ℕ → ℚ) :
    ∑ c ∈ range (N + K + 1), f c = ∑ c ∈ range N, f c + ∑ k ∈ range K, f (N + k) + f (N + K) := by
  rw [Finset.sum_range_succ, Finset.sum_range_add]

theorem sgn_ne_zero (P : LP) (k : ℕ) : sgn P k ≠ 0 := by unfold sgn; split <;> norm_num

/-- invariant of the objective restoration after rows `< k` -/
structure OInv (P : LP) (T t3 : Tab) (k : ℕ) (o : List ℚ) : Prop where
  len : o.length = P.n + P.m + 1
  inS : InSW P (P.n + P.m + 1) (fun c => o.getD c 0 - wbar P c)
  func : ∀ z : ℕ → ℚ, (∀ i < P.m, ∑ c ∈ range (P.n + P.m + 1), T.e i c * z c = 0) →
    ∑ c ∈ range (P.n + P.m + 1), o.getD c 0 * z c = ∑ c ∈ range (P.n + P.m + 1), wbar P c * z c
  zeroB : ∀ k' < k, k' < P.m → t3.bs k' < P.n + P.m → o.getD (t3.bs k') 0 = 0

theorem restoreFold {T t3 : Tab}
    (rowS4 : ∀ i < P.m, InSW P (P.n + P.m + 1) (T.e i))
    (unit4 : ∀ i < P.m, ∀ k < P.m, t3.bs k < P.n + P.m → T.e i (t3.bs k) = if i = k then 1 else 0)
    (hrowlen : ∀ i < P.m, (T.rows.getD i []).length = P.n + P.m + 1) :
    ∀ k ≤ P.m, OInv P T t3 k ((List.range k).foldl (restoreStep (P.n + P.m) t3 T.rows) (tab0 P).obj)
  | 0, _ => by
    have hoe : ∀ c, (tab0 P).obj.getD c 0 = wbar P c := fun c => initTab_oe P c
    refine ⟨by simp [tab0, initTab, zeros, LP.n, LP.m]; omega, ?_, ?_, fun k' hk' => absurd hk' (Nat.not_lt_zero _)⟩
    · have : (fun c => (tab0 P).obj.getD c 0 - wbar P c) = fun _ => 0 :=
        funext fun c => by rw [hoe c]; ring
      simp only [List.range_zero, List.foldl_nil]
      rw [this]; exact InSW.zero P _
    · intro z _
      simp only [List.range_zero, List.foldl_nil]
      exact Finset.sum_congr rfl fun c _ => by rw [hoe c]
  | k + 1, hk => by
    have ih := restoreFold rowS4 unit4 hrowlen k (Nat.le_of_succ_le hk)
    rw [List.range_succ, List.foldl_append]
    simp only [List.foldl_cons, List.foldl_nil]
    generalize (List.range k).foldl (restoreStep (P.n + P.m) t3 T.rows) (tab0 P).obj = o at ih ⊢
    have hkm : k < P.m := hk
    obtain ⟨hlen, hget⟩ := restoreStep_spec (t3 := t3) (P.n + P.m) T.rows o k (by rw [ih.len, hrowlen k hkm])
    have hget' : ∀ c, (restoreStep (P.n + P.m) t3 T.rows o k).getD c 0 =
        o.getD c 0 - (if t3.bs k < P.n + P.m then o.getD (t3.bs k) 0 else 0) * T.e k c := hget
    refine ⟨by rw [hlen]; exact ih.len, ?_, ?_, ?_⟩
    · have : (fun c => (restoreStep (P.n + P.m) t3 T.rows o k).getD c 0 - wbar P c) =
          fun c => (o.getD c 0 - wbar P c)
            - (if t3.bs k < P.n + P.m then o.getD (t3.bs k) 0 else 0) * T.e k c :=
        funext fun c => by rw [hget' c]; ring
      rw [this]
      exact ih.inS.sub_mul (rowS4 k hkm) _
    · intro z hz
      have : ∑ c ∈ range (P.n + P.m + 1), (restoreStep (P.n + P.m) t3 T.rows o k).getD c 0 * z c =
          ∑ c ∈ range (P.n + P.m + 1), o.getD c 0 * z c
            - (if t3.bs k < P.n + P.m then o.getD (t3.bs k) 0 else 0)
              * ∑ c ∈ range (P.n + P.m + 1), T.e k c * z c := by
        rw [Finset.mul_sum, ← Finset.sum_sub_distrib]
        exact Finset.sum_congr rfl fun c _ => by rw [hget' c]; ring
      rw [this, hz k hkm, ih.func z hz]; ring
    · intro k' hk' hk'm hlive
      rw [hget']
      rcases Nat.lt_succ_iff_lt_or_eq.mp hk' with h1 | rfl
      · have hne : k ≠ k' := by omega
        rw [ih.zeroB k' h1 hk'm hlive, unit4 k hkm k' hk'm hlive, if_neg hne]; ring
      · rw [if_pos hlive, unit4 k' hkm k' hkm hlive, if_pos rfl]; ring

include hA in
/-- after phase 1 ended with value `0`: the tableau handed to phase 2 satisfies the phase-2 invariant -/
theorem restore_inv {t3 : Tab} (h : DInv P (fun k c => (tab1 P).e k c) P.m t3) :
    Inv2 P (tab4 P t3) := by
  have hwf := h.inv.wf
  have hN1 : P.n + P.m + (flip P).length + 1 - 1 = P.n + P.m + (flip P).length := by omega
  have hN2 : P.n + P.m + 1 - 1 = P.n + P.m := by omega
  have E : ∀ i < P.m, ∀ c, (tab4 P t3).e i c =
      if c < P.n + P.m then t3.e i c else if c = P.n + P.m then t3.e i (P.n + P.m + (flip P).length) else 0 := by
    intro i hi c; rw [tab4_e hwf hi c, hN1]
  have Elt : ∀ i < P.m, ∀ c < P.n + P.m, (tab4 P t3).e i c = t3.e i c :=
    fun i hi c hc => by rw [E i hi c, if_pos hc]
  have Elast : ∀ i < P.m, (tab4 P t3).e i (P.n + P.m) = t3.e i (P.n + P.m + (flip P).length) :=
    fun i hi => by rw [E i hi, if_neg (lt_irrefl _), if_pos rfl]
  have rowS4 : ∀ i < P.m, InSW P (P.n + P.m + 1) ((tab4 P t3).e i) := by
    intro i hi
    have h3 := h.inv.rowS i hi
    have hs : ∀ g : ℕ → ℚ, ∑ k ∈ range P.m, (tab4 P t3).e i (P.n + k) * g k
        = ∑ k ∈ range P.m, t3.e i (P.n + k) * g k :=
      fun g => Finset.sum_congr rfl fun k hk => by
        rw [Elt i hi (P.n + k) (by have := Finset.mem_range.mp hk; omega)]
    constructor
    · intro j hj
      rw [Elt i hi j (by omega), hs]; exact h3.1 j hj
    · rw [hN2, Elast i hi, hs, ← hN1]; exact h3.2
  have unit4 : ∀ i < P.m, ∀ k < P.m, t3.bs k < P.n + P.m →
      (tab4 P t3).e i (t3.bs k) = if i = k then 1 else 0 := by
    intro i hi k hk hlive
    rw [Elt i hi _ hlive]; exact h.inv.unit i hi k hk (by omega)
  have hrowlen : ∀ i < P.m, ((tab4 P t3).rows.getD i []).length = P.n + P.m + 1 :=
    fun i hi => tab4_row_len hwf hi
  have hO := restoreFold rowS4 unit4 hrowlen P.m (le_refl _)
  rw [← tab4_obj] at hO
  have hoe : ∀ c, (tab4 P t3).oe c = (tab4 P t3).obj.getD c 0 := fun _ => rfl
  -- well-formed
  have hwf4 : (tab4 P t3).WF P.m (P.n + P.m + 1) := by
    refine ⟨by simp [tab4, restoreTab, hwf.rows_len], ?_, hO.len, hwf.basis_len⟩
    intro r hr
    obtain ⟨i, hi, rfl⟩ := List.mem_iff_getElem.mp hr
    have hi' : i < P.m := by simpa [tab4, restoreTab, hwf.rows_len] using hi
    have := tab4_row_len hwf hi'
    rw [List.getD_eq_getElem?_getD, List.getElem?_eq_getElem hi] at this
    exact this
  -- same solution set as `[A I | b]`
  have sol4 : ∀ z : ℕ → ℚ, (∀ i < P.m, ∑ c ∈ range (P.n + P.m + 1), (tab4 P t3).e i c * z c = 0) ↔
      (∀ k < P.m, ∑ c ∈ range (P.n + P.m + 1), origRow P k c * z c = 0) := by
    intro z
    let zt : ℕ → ℚ := fun c => if c < P.n + P.m then z c else if c < P.n + P.m + (flip P).length then 0
      else z (P.n + P.m)
    have zt1 : ∀ c < P.n + P.m, zt c = z c := fun c hc => by simp only [zt, if_pos hc]
    have zt2 : ∀ k < (flip P).length, zt (P.n + P.m + k) = 0 := fun k hk => by
      simp only [zt]; rw [if_neg (by omega), if_pos (by omega)]
    have zt3 : zt (P.n + P.m + (flip P).length) = z (P.n + P.m) := by
      simp only [zt]; rw [if_neg (by omega), if_neg (by omega)]
    have A : ∀ i < P.m, ∑ c ∈ range (P.n + P.m + (flip P).length + 1), t3.e i c * zt c =
        ∑ c ∈ range (P.n + P.m + 1), (tab4 P t3).e i c * z c := by
      intro i hi
      rw [sum_split3, Finset.sum_range_succ, Elast i hi, zt3]
      have e1 : ∑ c ∈ range (P.n + P.m), t3.e i c * zt c = ∑ c ∈ range (P.n + P.m), (tab4 P t3).e i c * z c :=
        Finset.sum_congr rfl fun c hc => by
          rw [zt1 c (Finset.mem_range.mp hc), Elt i hi c (Finset.mem_range.mp hc)]
      have e2 : ∑ k ∈ range (flip P).length, t3.e i (P.n + P.m + k) * zt (P.n + P.m + k) = 0 :=
        Finset.sum_eq_zero fun k hk => by rw [zt2 k (Finset.mem_range.mp hk)]; ring
      rw [e1, e2]; ring
    have B : ∀ k < P.m, ∑ c ∈ range (P.n + P.m + (flip P).length + 1), (tab1 P).e k c * zt c =
        sgn P k * ∑ c ∈ range (P.n + P.m + 1), origRow P k c * z c := by
      intro k hk
      rw [sum_split3, Finset.sum_range_succ, zt3, mul_add, Finset.mul_sum]
      have e1 : ∑ c ∈ range (P.n + P.m), (tab1 P).e k c * zt c
          = ∑ c ∈ range (P.n + P.m), sgn P k * (origRow P k c * z c) :=
        Finset.sum_congr rfl fun c hc => by
          rw [zt1 c (Finset.mem_range.mp hc), tab1_e P hA hk, if_pos (Finset.mem_range.mp hc)]; ring
      have e2 : ∑ j ∈ range (flip P).length, (tab1 P).e k (P.n + P.m + j) * zt (P.n + P.m + j) = 0 :=
        Finset.sum_eq_zero fun j hj => by rw [zt2 j (Finset.mem_range.mp hj)]; ring
      have e3 : (tab1 P).e k (P.n + P.m + (flip P).length) = sgn P k * origRow P k (P.n + P.m) := by
        rw [tab1_e P hA hk, if_neg (by omega), if_neg (by omega), if_pos rfl]
        have h1 : ¬ (P.n + P.m < P.n) := by omega
        simp [origRow, h1]
      rw [e1, e2, e3]; ring
    constructor
    · intro hz k hk
      have h1 : ∀ i < P.m, ∑ c ∈ range (P.n + P.m + (flip P).length + 1), t3.e i c * zt c = 0 :=
        fun i hi => by rw [A i hi]; exact hz i hi
      have := (h.inv.sol zt).mp h1 k hk
      rw [B k hk] at this
      exact (mul_eq_zero.mp this).resolve_left (sgn_ne_zero P k)
    · intro hz i hi
      rw [← A i hi]
      refine (h.inv.sol zt).mpr (fun k hk => ?_) i hi
      show ∑ c ∈ range (P.n + P.m + (flip P).length + 1), (tab1 P).e k c * zt c = 0
      rw [B k hk, hz k hk]; ring
  refine ⟨hwf4, by omega, rowS4, ?_, ?_, ?_, ?_, sol4, ?_, ?_⟩
  · exact hO.inS
  · intro i hi k hk hlive
    rw [tab4_bs] at hlive ⊢
    exact unit4 i hi k hk (by omega)
  · intro k hk hlive
    rw [tab4_bs] at hlive ⊢
    rw [hoe]
    exact hO.zeroB k hk hk (by omega)
  · intro i hi hdead c hc
    rw [tab4_bs] at hdead
    have hart : P.n + P.m ≤ t3.bs i := by omega
    rw [E i hi c]
    by_cases h1 : c < P.n + P.m
    · rw [if_pos h1]; exact h.done i hi hi hart c h1
    · rw [if_neg h1]
      split
      · rw [← hN1]; exact h.zero i hi hart
      · rfl
  · intro z hz
    exact hO.func z ((sol4 z).mpr hz)
  · intro i hi
    rw [hN2, Elast i hi, ← hN1]; exact h.inv.rhs i hi

end restore2

/-! ### the whole of `solve_lp` -/
section whole
variable (P : LP) (hA : ∀ i < P.m, (P.A.getD i []).length = P.n)

include hA in
/-- the initial tableau satisfies the phase-2 invariant when no right-hand side is negative -/
theorem init_inv2 (hb : ∀ i < P.m, 0 ≤ vget P.b i) : Inv2 P (tab0 P) := by
  have h := init_inv P hA hb
  have hN : P.n + P.m + 1 - 1 = P.n + P.m := by omega
  have conv : ∀ v : ℕ → ℚ, InS P v → InSW P (P.n + P.m + 1) v := fun v hv => ⟨hv.1, by rw [hN]; exact hv.2⟩
  refine ⟨h.wf, by omega, fun i hi => conv _ (h.rowS i hi), conv _ h.objS,
    fun i hi k hk _ => h.unit i hi k hk, fun k hk _ => h.objB k hk,
    fun i hi hd => absurd (show (tab0 P).bs i < P.n + P.m + 1 - 1 by rw [hN]; exact h.bs_lt i hi) hd,
    h.sol, ?_, fun i hi => by rw [hN]; exact h.rhs i hi⟩
  intro z _
  exact Finset.sum_congr rfl fun c _ => by rw [initTab_oe]

include hA in
/-- `_phase1` at `eps = 0` -/
theorem phase1_spec (fuel : ℕ) :
    ((phase1 0 fuel P.n P.m (tab0 P)).status = .OPTIMAL ∧ Inv2 P (phase1 0 fuel P.n P.m (tab0 P)).tab) ∨
    ((phase1 0 fuel P.n P.m (tab0 P)).status = .INFEASIBLE ∧
      chkInfeasible P (slackPart P.n P.m (phase1 0 fuel P.n P.m (tab0 P)).p1obj) = true) ∨
    (phase1 0 fuel P.n P.m (tab0 P)).status = .MAX_ITER := by
  unfold phase1
  simp only []
  have hflip : flippedRows 0 P.m (tab0 P) = flip P := rfl
  rw [hflip]
  by_cases hK : (flip P).length = 0
  · rw [if_pos hK]
    left
    refine ⟨rfl, init_inv2 P hA fun i hi => ?_⟩
    by_contra hlt
    have : i ∈ flip P := (mem_flipped P hA i).mpr ⟨hi, not_le.mp hlt⟩
    rw [List.length_eq_zero_iff.mp hK] at this
    cases this
  · rw [if_neg hK]
    have ht1 : artTab P.n P.m (flip P) (tab0 P) = tab1 P := rfl
    rw [ht1]
    obtain ⟨hinv, hopt, hunb, hcases⟩ := gphase2_spec fuel 0 (tab1 P) (ginv1 P hA)
    generalize phase2 0 fuel 0 (tab1 P) = r at *
    have hlast : lastR r.tab.obj = r.tab.oe (P.n + P.m + (flip P).length + 1 - 1) := lastR_obj hinv.wf
    rw [neg_zero, hlast]
    by_cases hneg : r.tab.oe (P.n + P.m + (flip P).length + 1 - 1) < 0
    · rw [if_pos hneg]
      rcases hcases with hs | hs | hs
      · right; left
        simp only [hs]
        refine ⟨by decide, ?_⟩
        exact cert_infeasible1 hinv (hopt hs) hneg
      · obtain ⟨e, _, he2, he3⟩ := hunb hs
        exact (phase1_not_unbounded hinv he2 he3).elim
      · right; right
        simp only [hs]
        rfl
    · rw [if_neg hneg]
      left
      exact ⟨rfl, restore_inv hA (driveOut_inv hinv hneg)⟩

end whole

/-- **the ∀-input statement**: exact arithmetic (`eps = 0`), any right-hand side, any sense, any
iteration budget: whenever the mirror of `solve_lp` stops with a verdict, the certificate it reads off
(dual vector / Farkas vector / vertex and ray) passes the verified checker of that verdict. -/
theorem solveLp_certifies (c : Vec) (A : Mat) (b : Vec) (mn : Bool) (fuel : ℕ)
    (hA : ∀ i < b.length, (A.getD i []).length = c.length)
    (hst : (solveLp c A b mn 0 fuel).status ≠ .MAX_ITER) :
    certifies (mkLP c A b mn) (solveLp c A b mn 0 fuel) = true := by
  set P := mkLP c A b mn with hP
  have hn : P.n = c.length := mkLP_n c A b mn
  have hm : P.m = b.length := rfl
  have hA' : ∀ i < P.m, (P.A.getD i []).length = P.n := fun i hi => by rw [hn]; exact hA i hi
  have hinit : initTab (if mn = true then c else c.map fun v => -v) A b = tab0 P := rfl
  -- both branches end in `finishLp` on an invariant tableau, or in the INFEASIBLE return
  have fin : ∀ (t : Tab) (f it0 : ℕ) (ph1 near : Bool), Inv2 P t →
      (finishLp P.n b.length mn it0 ph1 near (phase2 0 f 0 t)).status ≠ .MAX_ITER →
      certifies P (finishLp P.n b.length mn it0 ph1 near (phase2 0 f 0 t)) = true := by
    intro t f it0 ph1 near ht hst'
    obtain ⟨hinv, hopt, hunb, hcases⟩ := gphase2_spec (P := P) f 0 t ht
    generalize phase2 0 f 0 t = r at *
    unfold certifies finishLp
    unfold finishLp at hst'
    simp only [] at hst' ⊢
    rcases hcases with hs | hs | hs
    · rw [hs]
      simp only [slackPart]
      rw [← hm]
      exact cert_optimal2 hinv (hopt hs)
    · obtain ⟨e, he1, he2, he3⟩ := hunb hs
      rw [hs, he1]
      simp only []
      exact cert_unbounded2 hinv he2 he3
    · exact absurd hs hst'
  unfold solveLp at hst ⊢
  simp only [] at hst ⊢
  rw [hinit, ← hn] at hst ⊢
  split at hst
  · rename_i hany
    rw [if_pos hany]
    have hph : phase1 0 fuel P.n b.length (tab0 P) = phase1 0 fuel P.n P.m (tab0 P) := rfl
    rw [hph] at hst ⊢
    rcases phase1_spec P hA' fuel with ⟨hs, hinv⟩ | ⟨hs, hcert⟩ | hs
    · have h1 : ¬ (phase1 0 fuel P.n P.m (tab0 P)).status = .MAX_ITER := by rw [hs]; decide
      have h2 : ¬ ((phase1 0 fuel P.n P.m (tab0 P)).status != .OPTIMAL) = true := by rw [hs]; decide
      rw [if_neg h1, if_neg h2] at hst ⊢
      exact fin _ _ _ _ _ hinv hst
    · have h1 : ¬ (phase1 0 fuel P.n P.m (tab0 P)).status = .MAX_ITER := by rw [hs]; decide
      have h2 : ((phase1 0 fuel P.n P.m (tab0 P)).status != .OPTIMAL) = true := by rw [hs]; decide
      rw [if_neg h1, if_pos h2]
      unfold certifies
      simp only []
      exact hcert
    · rw [if_pos hs] at hst
      exact absurd rfl hst
  · rename_i hany
    rw [if_neg hany]
    have hb : ∀ i < P.m, 0 ≤ vget P.b i := by
      intro i hi
      by_contra hlt
      apply hany
      rw [List.any_eq_true]
      refine ⟨i, List.mem_range.mpr hi, ?_⟩
      have := (mem_flipped P hA' i).mpr ⟨hi, not_le.mp hlt⟩
      unfold flippedRows at this
      rw [List.mem_filter] at this
      exact this.2
    exact fin _ _ _ _ _ (init_inv2 P hA' hb) hst

end Solvor.Lp
