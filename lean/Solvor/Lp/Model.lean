/-! Lp: executable models (no Mathlib imports). -/
namespace Solvor.Lp

end Solvor.Lp
