import Solvor.Gen.Kernels
import Solvor.Gen.LpConsts
/-!
Lp: executable models (no Mathlib imports).

* spec-side data and Bool checkers (`LP`, `chkFeasible`, `chkOptimal`, `chkInfeasible`,
  `chkUnbounded`, tolerance checkers) – the theorems in `Theorems.lean` talk about these;
* `solveLp`: mirror of `solvor/simplex.py` (`solve_lp`, `_phase1`, `_phase2`, `_pivot`, `_extract`)
  over core `Rat`, dense tableau, Bland's rule, `eps` and `max_iter` exactly where the code uses
  them; it additionally reads a certificate off the final tableau (dual vector / Farkas vector /
  vertex + ray).
-/
namespace Solvor.Lp
open Solvor.Gen (Status)

abbrev Vec := List Rat
abbrev Mat := List (List Rat)

/-! ### Spec side: problems, index sums, checkers -/

/-- `minimise c·x  s.t.  A x ≤ b, x ≥ 0` (the sign flip for `minimize=False` is applied by the
caller: `c` is always the vector that is minimised). `m = b.length`, `n = c.length`. -/
structure LP where
  A : Mat
  b : Vec
  c : Vec
  deriving Repr, Inhabited

def LP.m (P : LP) : Nat := P.b.length
def LP.n (P : LP) : Nat := P.c.length

/-- `∑_{k<n} f k`. -/
def sumTo : Nat → (Nat → Rat) → Rat
  | 0, _ => 0
  | k + 1, f => sumTo k f + f k

/-- `∀ k<n, p k`. -/
def allTo : Nat → (Nat → Bool) → Bool
  | 0, _ => true
  | k + 1, p => allTo k p && p k

def vget (v : Vec) (j : Nat) : Rat := v.getD j 0
def LP.a (P : LP) (i j : Nat) : Rat := (P.A.getD i []).getD j 0

def absR (a : Rat) : Rat := if a < 0 then -a else a

/-- `(A x)_i`. -/
def LP.rowDot (P : LP) (x : Vec) (i : Nat) : Rat := sumTo P.n fun j => P.a i j * vget x j
/-- `(Aᵀ y)_j`. -/
def LP.colDot (P : LP) (y : Vec) (j : Nat) : Rat := sumTo P.m fun i => vget y i * P.a i j
def LP.objAt (P : LP) (x : Vec) : Rat := sumTo P.n fun j => vget P.c j * vget x j
def LP.rhsDot (P : LP) (y : Vec) : Rat := sumTo P.m fun i => vget y i * vget P.b i

/-- `x ≥ 0`, `A x ≤ b`. -/
def chkFeasible (P : LP) (x : Vec) : Bool :=
  allTo P.n (fun j => decide (0 ≤ vget x j)) && allTo P.m (fun i => decide (P.rowDot x i ≤ vget P.b i))

/-- Optimality certificate: `x` feasible, `y ≥ 0`, `c + Aᵀy ≥ 0`, `c·x = −y·b`. -/
def chkOptimal (P : LP) (x y : Vec) : Bool :=
  chkFeasible P x && allTo P.m (fun i => decide (0 ≤ vget y i)) &&
  allTo P.n (fun j => decide (0 ≤ vget P.c j + P.colDot y j)) &&
  decide (P.objAt x = -P.rhsDot y)

/-- Farkas certificate: `y ≥ 0`, `Aᵀy ≥ 0`, `y·b < 0`. -/
def chkInfeasible (P : LP) (y : Vec) : Bool :=
  allTo P.m (fun i => decide (0 ≤ vget y i)) && allTo P.n (fun j => decide (0 ≤ P.colDot y j)) &&
  decide (P.rhsDot y < 0)

/-- Unboundedness certificate: `x` feasible, `d ≥ 0`, `A d ≤ 0`, `c·d < 0`. -/
def chkUnbounded (P : LP) (x d : Vec) : Bool :=
  chkFeasible P x && allTo P.n (fun j => decide (0 ≤ vget d j)) &&
  allTo P.m (fun i => decide (P.rowDot d i ≤ 0)) && decide (P.objAt d < 0)

/-- Feasibility within a tolerance: `x ≥ −tol`, `A x ≤ b + tol`. -/
def chkFeasTol (P : LP) (tol : Rat) (x : Vec) : Bool :=
  allTo P.n (fun j => decide (-tol ≤ vget x j)) &&
  allTo P.m (fun i => decide (P.rowDot x i ≤ vget P.b i + tol))

/-- `|c·x − obj| ≤ tol`. -/
def chkObjAt (P : LP) (tol : Rat) (x : Vec) (obj : Rat) : Bool := decide (absR (P.objAt x - obj) ≤ tol)

/-- `|obj − opt| ≤ tol·(1+|opt|)`. -/
def chkObjNear (tol obj opt : Rat) : Bool := decide (absR (obj - opt) ≤ tol * (1 + absR opt))

/-- rounding allowance of row `i`: `ulp · (∑_j |A_ij x_j| + |b_i| + 1)`; with `ulp = (n+m+2)·2⁻⁵⁰` this
bounds the error of the code's own double-precision evaluation of `(A x + s − b)_i` (exact value
`ulp = 0`). -/
def LP.roundSlack (P : LP) (ulp : Rat) (x : Vec) (i : Nat) : Rat :=
  ulp * ((sumTo P.n fun j => absR (P.a i j * vget x j)) + absR (vget P.b i) + 1)

/-- squared 2-norm of the positive part of `A x − b − δ` (`δ = roundSlack`; for `ulp = 0` the least
primal residual `‖Ax+s−b‖²` over slacks `s ≥ 0`). -/
def LP.resid2 (P : LP) (ulp : Rat) (x : Vec) : Rat :=
  sumTo P.m fun i =>
    let r := P.rowDot x i - vget P.b i - P.roundSlack ulp x i
    if 0 < r then r * r else 0

/-- interior point `FEASIBLE`: `x ≥ 0` and primal residual `≤ r` (up to the rounding allowance). -/
def chkResidual (P : LP) (r ulp : Rat) (x : Vec) : Bool :=
  allTo P.n (fun j => decide (0 ≤ vget x j)) && decide (P.resid2 ulp x ≤ r * r)

/-- componentwise `|x_j − x'_j| ≤ tol` and equal length. -/
def vecNear (tol : Rat) (x x' : Vec) : Bool :=
  x.length == x'.length && allTo x.length fun j => decide (absR (vget x j - vget x' j) ≤ tol)

/-! ### Mirror of `solvor/simplex.py` -/

/-- The tableau: `rows` are `matrix[0..m-1]`, `obj` is `matrix[-1]`; every row ends with the
right-hand side. `basis_set` of the code is always `set(basis)`. -/
structure Tab where
  rows : List (List Rat)
  obj : List Rat
  basis : List Nat
  deriving Repr, Inhabited

def lastR (r : List Rat) : Rat := r.getLastD 0

/-- `_pivot(matrix, m, row, col, eps)`. -/
def pivot (eps : Rat) (t : Tab) (r col : Nat) : Tab :=
  let prow0 := t.rows.getD r []
  let pv := prow0.getD col 0
  if absR pv < eps then t            -- "Numerical instability, skip pivot"
  else
    let inv := 1 / pv
    let prow := prow0.map (· * inv)
    let elim (row : List Rat) : List Rat :=
      let f := row.getD col 0
      if absR f > eps then List.zipWith (fun a p => a - f * p) row prow else row
    { t with rows := t.rows.mapIdx (fun i row => if i = r then prow else elim row), obj := elim t.obj }

/-- Bland entering rule: smallest non-basic column with reduced cost `< -eps`. -/
def findEnter (eps : Rat) (t : Tab) : Option Nat :=
  (List.range (t.obj.length - 1)).find? fun j => !t.basis.contains j && decide (t.obj.getD j 0 < -eps)

/-- The ratio-test loop of `_phase2` (state: `leave`, `min_ratio`; `none` = `-1` / `inf`). -/
def leaveStep (eps : Rat) (t : Tab) (enter : Nat) (st : Option Nat × Option Rat) (i : Nat) :
    Option Nat × Option Rat :=
  let row := t.rows.getD i []
  let a := row.getD enter 0
  if a > eps then
    let ratio := lastR row / a
    match st with
    | (_, none) => (some i, some ratio)              -- `ratio < inf - eps`
    | (leave, some mr) =>
      if ratio < mr - eps then (some i, some ratio)
      else if absR (ratio - mr) ≤ eps then
        match leave with
        | none => (some i, some mr)
        | some l => if t.basis.getD i 0 < t.basis.getD l 0 then (some i, some mr) else st
      else st
  else st

def findLeave (eps : Rat) (t : Tab) (enter : Nat) : Option Nat :=
  ((List.range t.rows.length).foldl (leaveStep eps t enter) (none, none)).1

def setBasis (t : Tab) (r col : Nat) : Tab := { t with basis := t.basis.set r col }

structure P2 where
  status : Status
  iters : Nat
  tab : Tab
  enter : Option Nat      -- the entering column when UNBOUNDED
  deriving Inhabited

/-- `_phase2`: `fuel` = remaining `max_iter`, `it` = the loop variable `iteration`. -/
def phase2 (eps : Rat) : Nat → Nat → Tab → P2
  | 0, it, t => ⟨.MAX_ITER, it, t, none⟩
  | fuel + 1, it, t =>
    match findEnter eps t with
    | none => ⟨.OPTIMAL, it, t, none⟩
    | some e =>
      match findLeave eps t e with
      | none => ⟨.UNBOUNDED, it, t, some e⟩
      | some l => phase2 eps fuel (it + 1) (setBasis (pivot eps t l e) l e)

/-- "an exact tableau entry lies within `1e-6` of an `eps` threshold": a non-zero entry `v` with
`||v| − eps| < 1e-6` (exact zeros are far from the threshold relative to rounding noise). -/
def nearThr (eps v : Rat) : Bool := v != 0 && decide (absR (absR v - eps) < 1 / 1000000)

def tabNear (eps : Rat) (t : Tab) : Bool :=
  t.rows.any (·.any (nearThr eps)) || t.obj.any (nearThr eps)

/-- ratio-test ties that are not exact: two candidate ratios differ by a non-zero amount `< 1e-6` -/
def ratiosNear (eps : Rat) (t : Tab) (enter : Nat) : Bool :=
  let rs := t.rows.filterMap fun row =>
    let a := row.getD enter 0
    if a > eps then some (lastR row / a) else none
  rs.any fun r => rs.any fun r' => r != r' && decide (absR (r - r') < 1 / 1000000 + eps)

/-- Monitor for R_trace only (not part of the mirror): does any tableau visited by `phase2` from
`t` have an entry or a ratio difference near a threshold? -/
def phase2Near (eps : Rat) : Nat → Tab → Bool
  | 0, t => tabNear eps t
  | fuel + 1, t =>
    tabNear eps t ||
    match findEnter eps t with
    | none => false
    | some e =>
      ratiosNear eps t e ||
      match findLeave eps t e with
      | none => false
      | some l => phase2Near eps fuel (setBasis (pivot eps t l e) l e)

def zeros (k : Nat) : List Rat := List.replicate k 0
def unitV (k i : Nat) : List Rat := (List.range k).map fun j => if j = i then 1 else 0
def subRow (a b : List Rat) (f : Rat) : List Rat := List.zipWith (fun x y => x - f * y) a b

/-- Result of `_phase1`: status (`OPTIMAL`/`INFEASIBLE`/`MAX_ITER`), iterations, tableau (artificial columns
removed and objective row restored when feasible) and the final phase-1 objective row (with the
artificial columns) from which the Farkas vector is read. -/
structure P1 where
  status : Status
  iters : Nat
  tab : Tab
  p1obj : List Rat
  near : Bool := false     -- R_trace monitor only
  deriving Inhabited

/-- Pivot out artificials still basic after phase 1 (`for i in range(m): if basis[i] in art_cols`). -/
def driveOut (eps : Rat) (nm : Nat) (t : Tab) : Tab :=
  (List.range t.rows.length).foldl (fun t i =>
    if t.basis.getD i 0 ≥ nm then
      let row := t.rows.getD i []
      match (List.range nm).find? fun j => !t.basis.contains j && decide (absR (row.getD j 0) > eps) with
      | some j => setBasis (pivot eps t i j) i j
      | none => t
    else t) t

/-- rows with `matrix[i][-1] < -eps`, in order; the k-th gets artificial column `n + m + k` -/
def flippedRows (eps : Rat) (m : Nat) (t : Tab) : List Nat :=
  (List.range m).filter fun i => decide (lastR (t.rows.getD i []) < -eps)

/-- the phase-1 tableau: flipped rows negated, one artificial column per flipped row, artificial
basis, objective row `∑ artificials` priced out (first half of `_phase1`) -/
def artTab (n m : Nat) (flipped : List Nat) (t : Tab) : Tab :=
  let nm := n + m
  let K := flipped.length
  let rows1 := t.rows.mapIdx fun i row =>
    match flipped.idxOf? i with
    | some k => (row.take nm).map (fun v => v * -1) ++ unitV K k ++ [lastR row * -1]
    | none => row.take nm ++ zeros K ++ [lastR row]
  let basis1 := t.basis.mapIdx fun i bv =>
    match flipped.idxOf? i with
    | some k => nm + k
    | none => bv
  let ncols := nm + K + 1
  let obj0 : List Rat := (List.range ncols).map fun j => if nm ≤ j ∧ j < nm + K then 1 else 0
  let obj1 := (List.range m).foldl (fun o i =>
    if basis1.getD i 0 ≥ nm then subRow o (rows1.getD i []) 1 else o) obj0
  ⟨rows1, obj1, basis1⟩

/-- remove the artificial columns and restore the original objective row, priced out on the basic
columns (last part of `_phase1`) -/
def restoreTab (eps : Rat) (nm m : Nat) (origObj : List Rat) (t3 : Tab) : Tab :=
  let rows4 := t3.rows.map fun row => row.take nm ++ [lastR row]
  let obj4 := (List.range m).foldl (fun o i =>
    let var := t3.basis.getD i 0
    if var < nm then
      let cost := o.getD var 0
      if absR cost > eps then subRow o (rows4.getD i []) cost else o
    else o) origObj
  ⟨rows4, obj4, t3.basis⟩

/-- `_phase1(matrix, basis, basis_set, m, n, eps, max_iter)`. -/
def phase1 (eps : Rat) (maxIter n m : Nat) (t : Tab) : P1 :=
  let nm := n + m
  let flipped := flippedRows eps m t
  if flipped.length = 0 then ⟨.OPTIMAL, 0, t, t.obj, false⟩ else
  let t1 := artTab n m flipped t
  let r := phase2 eps maxIter 0 t1
  let near := phase2Near eps maxIter t1
  let t2 := r.tab
  if lastR t2.obj < -eps then
    -- out of iterations before phase 1 finished: infeasibility is not established
    ⟨if r.status = .MAX_ITER then .MAX_ITER else .INFEASIBLE, r.iters, t2, t2.obj, near⟩ else
  let t3 := driveOut eps nm t2
  ⟨.OPTIMAL, r.iters, restoreTab eps nm m t.obj t3, t2.obj, near || tabNear eps t3⟩

/-- What `solve_lp` returns plus the certificate read off the final tableau.
`cert` : OPTIMAL → dual vector `y`; INFEASIBLE → Farkas vector; UNBOUNDED → ray `d` (the vertex
is `x`); otherwise `[]`.  `objective = none` stands for `float("inf")`. -/
structure LpOut where
  status : Status
  x : Vec
  objective : Option Rat
  iters : Nat
  cert : Vec
  phase1 : Bool
  near : Bool := false     -- R_trace monitor only
  deriving Inhabited

/-- `_extract`'s solution vector. -/
def extractX (t : Tab) (n : Nat) : Vec :=
  (List.range n).map fun j =>
    match t.basis.idxOf? j with
    | some i => lastR (t.rows.getD i [])
    | none => 0

/-- Ray of an UNBOUNDED tableau: entering variable `+1`, basic variable of row `i` moves by
`−matrix[i][enter]`; restricted to the structural variables. -/
def extractRay (t : Tab) (n enter : Nat) : Vec :=
  (List.range n).map fun j =>
    if j = enter then 1 else
    match t.basis.idxOf? j with
    | some i => -((t.rows.getD i []).getD enter 0)
    | none => 0

/-- the tableau `solve_lp` starts from: rows `[A_i | e_i | b_i]`, objective row `[w | 0 | 0]`,
slack basis -/
def initTab (w : Vec) (A : Mat) (b : Vec) : Tab :=
  ⟨(List.range b.length).map fun i => (A.getD i []) ++ unitV b.length i ++ [b.getD i 0],
   w ++ zeros (b.length + 1), (List.range b.length).map (· + w.length)⟩

/-- the slack columns of an objective row (dual vector / Farkas vector) -/
def slackPart (n m : Nat) (o : List Rat) : Vec := (o.drop n).take m

/-- `_extract` plus the certificate of a finished `_phase2` -/
def finishLp (n m : Nat) (minimize : Bool) (iters0 : Nat) (ph1 near : Bool) (r : P2) : LpOut :=
  let x := extractX r.tab n
  let o := -(lastR r.tab.obj)
  let o := if minimize then o else -o
  let cert := match r.status, r.enter with
    | .OPTIMAL, _ => slackPart n m r.tab.obj
    | .UNBOUNDED, some e => extractRay r.tab n e
    | _, _ => []
  ⟨r.status, x, some o, iters0 + r.iters, cert, ph1, near⟩

/-- `solve_lp(c, A, b, minimize=…, eps=…, max_iter=…)`; the reported objective is in the caller's
sense (`-obj` when maximising), the certificate is for `minimise w·x`, `w = ±c`. -/
def solveLp (c : Vec) (A : Mat) (b : Vec) (minimize : Bool) (eps : Rat) (maxIter : Nat) : LpOut :=
  let m := b.length
  let n := c.length
  let w := if minimize then c else c.map (fun v => -v)
  let t0 := initTab w A b
  if (List.range m).any fun i => decide (lastR (t0.rows.getD i []) < -eps) then
    let p := phase1 eps maxIter n m t0
    if p.status = .MAX_ITER then
      ⟨.MAX_ITER, zeros n, none, p.iters, [], true, p.near⟩
    else if p.status != .OPTIMAL then
      ⟨.INFEASIBLE, zeros n, none, p.iters, slackPart n m p.p1obj, true, p.near⟩
    else finishLp n m minimize p.iters true (p.near || phase2Near eps (maxIter - p.iters) p.tab)
      (phase2 eps (maxIter - p.iters) 0 p.tab)
  else finishLp n m minimize 0 false (phase2Near eps maxIter t0) (phase2 eps maxIter 0 t0)

/-- Coverage monitor (not part of the mirror's answer): how many artificial variables are still basic when
phase 1 ends with value `0`, and how many of them the clean-up loop (`driveOut`) pivots out. `(0, 0)` when phase 1
is not entered or ends infeasible. -/
def artCounters (c : Vec) (A : Mat) (b : Vec) (minimize : Bool) (eps : Rat) (maxIter : Nat) : Nat × Nat :=
  let m := b.length
  let n := c.length
  let w := if minimize then c else c.map (fun v => -v)
  let t0 := initTab w A b
  let flipped := flippedRows eps m t0
  if flipped.length = 0 then (0, 0) else
  let r := phase2 eps maxIter 0 (artTab n m flipped t0)
  if lastR r.tab.obj < -eps then (0, 0) else
  let nm := n + m
  let before := (r.tab.basis.filter (fun v => decide (v ≥ nm))).length
  let after := ((driveOut eps nm r.tab).basis.filter (fun v => decide (v ≥ nm))).length
  (before, before - after)

/-- the LP that `solveLp`'s certificate is about -/
def mkLP (c : Vec) (A : Mat) (b : Vec) (minimize : Bool) : LP :=
  ⟨A, b, if minimize then c else c.map (fun v => -v)⟩

/-- Evaluate the verified checker that belongs to the model's verdict on the model's certificate. -/
def certifies (P : LP) (o : LpOut) : Bool :=
  match o.status with
  | .OPTIMAL => chkOptimal P o.x o.cert
  | .INFEASIBLE => chkInfeasible P o.cert
  | .UNBOUNDED => chkUnbounded P o.x o.cert
  | _ => false

end Solvor.Lp
