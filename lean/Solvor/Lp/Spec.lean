import Solvor.Lp.Model
import Solvor.Lp.Milp
import Mathlib.Algebra.BigOperators.Group.Finset.Basic
import Mathlib.Algebra.BigOperators.Fin
import Mathlib.Algebra.Order.BigOperators.Group.Finset
import Mathlib.Algebra.Order.Field.Rat
import Mathlib.Algebra.Order.Field.Basic
import Mathlib.Algebra.BigOperators.Ring.Finset
import Mathlib.Tactic.Linarith
import Mathlib.Tactic.Ring
import Mathlib.Algebra.Order.Ring.Abs
import Mathlib.Logic.Relation
/-!
Lp: the mathematical side of C03/C04 – linear programs over `Fin m → Fin n → ℚ`, what the three
verdicts *mean*, and the map from the list data the driver parses to these objects.
-/
namespace Solvor.Lp
open Finset
open Solvor.Gen (Status)

/-- `minimise c·x  s.t.  A x ≤ b, x ≥ 0`. -/
structure LPF (m n : ℕ) where
  A : Fin m → Fin n → ℚ
  b : Fin m → ℚ
  c : Fin n → ℚ

namespace LPF
variable {m n : ℕ} (P : LPF m n)

def Feasible (x : Fin n → ℚ) : Prop := (∀ j, 0 ≤ x j) ∧ ∀ i, ∑ j, P.A i j * x j ≤ P.b i
def obj (x : Fin n → ℚ) : ℚ := ∑ j, P.c j * x j
/-- `x` is a feasible point and no feasible point has a smaller objective. -/
def IsOptimal (x : Fin n → ℚ) : Prop := P.Feasible x ∧ ∀ x', P.Feasible x' → P.obj x ≤ P.obj x'
/-- a finite optimum exists -/
def HasOptimum : Prop := ∃ x, P.IsOptimal x
/-- no feasible point exists -/
def Infeasible : Prop := ∀ x, ¬ P.Feasible x
/-- feasible points of arbitrarily good objective exist -/
def Unbounded : Prop := (∃ x, P.Feasible x) ∧ ∀ M : ℚ, ∃ x, P.Feasible x ∧ P.obj x < M

/-- What a status claims about the problem (`MAX_ITER`/`FEASIBLE` claim nothing that is a verdict). -/
def Verdict : Status → Prop
  | .OPTIMAL => P.HasOptimum
  | .INFEASIBLE => P.Infeasible
  | .UNBOUNDED => P.Unbounded
  | _ => False

/-- feasibility within a tolerance: `x ≥ −tol`, `A x ≤ b + tol` -/
def FeasTol (tol : ℚ) (x : Fin n → ℚ) : Prop := (∀ j, -tol ≤ x j) ∧ ∀ i, ∑ j, P.A i j * x j ≤ P.b i + tol

/-- integer-feasible point: feasible and integral on `I` (C04) -/
def MilpFeasible (I : Fin n → Prop) (x : Fin n → ℚ) : Prop :=
  P.Feasible x ∧ ∀ j, I j → ∃ z : ℤ, x j = z

/-- what `_is_feasible` accepts: `x ≥ −eps`, within `eps` of an integer on `I`, `A x ≤ b + eps` -/
def MilpFeasTol (I : Fin n → Prop) (eps : ℚ) (x : Fin n → ℚ) : Prop :=
  (∀ j, -eps ≤ x j) ∧ (∀ j, I j → ∃ z : ℤ, |x j - z| ≤ eps) ∧ ∀ i, ∑ j, P.A i j * x j ≤ P.b i + eps

end LPF

/-- the set of integer variables as a predicate on `Fin n` -/
def intSet (n : ℕ) (ints : List ℕ) : Fin n → Prop := fun j => j.val ∈ ints

/-- a node of the branch-and-bound tree: lower bounds and optional upper bounds -/
structure Box (n : ℕ) where
  lo : Fin n → ℚ
  hi : Fin n → Option ℚ

def Box.Mem {n : ℕ} (B : Box n) (x : Fin n → ℚ) : Prop :=
  ∀ k, B.lo k ≤ x k ∧ ∀ h, B.hi k = some h → x k ≤ h
/-- `upper_left[j] = floor(v)` -/
def Box.left {n : ℕ} (B : Box n) (j : Fin n) (v : ℚ) : Box n :=
  ⟨B.lo, Function.update B.hi j (some (v.floor : ℚ))⟩
/-- `lower_right[j] = ceil(v)` -/
def Box.right {n : ℕ} (B : Box n) (j : Fin n) (v : ℚ) : Box n :=
  ⟨Function.update B.lo j (v.ceil : ℚ), B.hi⟩

/-- the list problem as a mathematical LP (missing entries read as `0`; the harness only sends
rectangular data, `check_matrix_dims` rejects the rest) -/
def LP.toF (P : LP) : LPF P.m P.n := ⟨fun i j => P.a i j, fun i => vget P.b i, fun j => vget P.c j⟩

def vecF (n : ℕ) (x : Vec) : Fin n → ℚ := fun j => vget x j

/-! ### Abstract branch and bound (the loop of `solve_milp`, lines 159-232)

Points `Pt`, the set `Feas` of integer-feasible points the verdict quantifies over, the filter `Acc`
every incumbent passes (`_is_feasible`), the objective `obj` (already multiplied by `sign`) and the
pruning slack `eps`.  A node carries the region of points it stands for and the bound it was pushed
with (its parent's LP value).  Node LP answers enter the steps as hypotheses (`r` is a lower bound
of the node / the node has no feasible point); per input they are discharged by the simplex
certificates.  Heuristics (warm start, rounding, LNS) are arbitrary accepted candidates. -/

structure BNode (Pt : Type) where
  region : Pt → Prop
  bound : ℚ

structure BState (Pt : Type) where
  inc : Option (Pt × ℚ)
  nodes : List (BNode Pt)

/-- `cand` replaces the incumbent iff strictly better (`sign*sol_obj < sign*best_obj`) -/
def BState.offer {Pt : Type} (inc : Option (Pt × ℚ)) (p : Pt) (w : ℚ) : Option (Pt × ℚ) :=
  match inc with
  | none => some (p, w)
  | some (q, v) => if w < v then some (p, w) else some (q, v)

inductive BStep {Pt : Type} (Feas Acc : Pt → Prop) (obj : Pt → ℚ) (eps : ℚ) : BState Pt → BState Pt → Prop
  /-- `if best_solution is not None and node_bound >= sign * best_obj - eps: continue` -/
  | prune (p v l₁ N l₂) : v - eps ≤ N.bound → BStep Feas Acc obj eps ⟨some (p, v), l₁ ++ N :: l₂⟩ ⟨some (p, v), l₁ ++ l₂⟩
  /-- node LP not OPTIMAL (certified infeasible): `continue` -/
  | infeasible (inc l₁ N l₂) : (∀ y, Feas y → ¬ N.region y) → BStep Feas Acc obj eps ⟨inc, l₁ ++ N :: l₂⟩ ⟨inc, l₁ ++ l₂⟩
  /-- `sign * result.objective >= sign * best_obj - eps: continue` -/
  | boundDrop (p v l₁ N l₂) (r : ℚ) : (∀ y, Feas y → N.region y → r ≤ obj y) → v - eps ≤ r →
      BStep Feas Acc obj eps ⟨some (p, v), l₁ ++ N :: l₂⟩ ⟨some (p, v), l₁ ++ l₂⟩
  /-- the node LP optimum is integral: candidate incumbent, node closed -/
  | integral (inc l₁ N l₂) (q : Pt) (r : ℚ) : (∀ y, Feas y → N.region y → r ≤ obj y) → Acc q → obj q = r →
      BStep Feas Acc obj eps ⟨inc, l₁ ++ N :: l₂⟩ ⟨BState.offer inc q r, l₁ ++ l₂⟩
  /-- branch: two children with the node's LP value as bound -/
  | branch (inc l₁ N l₂) (L R : BNode Pt) (r : ℚ) : (∀ y, Feas y → N.region y → r ≤ obj y) →
      (∀ y, Feas y → N.region y → L.region y ∨ R.region y) →
      (∀ y, L.region y → N.region y) → (∀ y, R.region y → N.region y) → L.bound = r → R.bound = r →
      BStep Feas Acc obj eps ⟨inc, l₁ ++ N :: l₂⟩ ⟨inc, L :: R :: (l₁ ++ l₂)⟩
  /-- warm start / rounding / LNS: any accepted candidate may be offered -/
  | heuristic (inc l) (q : Pt) : Acc q → BStep Feas Acc obj eps ⟨inc, l⟩ ⟨BState.offer inc q (obj q), l⟩

/-- the loop invariant -/
def BInv {Pt : Type} (Feas Acc : Pt → Prop) (obj : Pt → ℚ) (eps : ℚ) (s : BState Pt) : Prop :=
  (∀ N ∈ s.nodes, ∀ y, Feas y → N.region y → N.bound ≤ obj y) ∧
  (∀ y, Feas y → (∀ p v, s.inc = some (p, v) → obj y < v - eps) → ∃ N ∈ s.nodes, N.region y) ∧
  (∀ p v, s.inc = some (p, v) → Acc p ∧ obj p = v)

end Solvor.Lp
