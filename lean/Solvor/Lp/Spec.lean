import Solvor.Lp.Model
import Mathlib.Algebra.BigOperators.Group.Finset.Basic
import Mathlib.Algebra.BigOperators.Fin
import Mathlib.Algebra.Order.BigOperators.Group.Finset
import Mathlib.Algebra.Order.Field.Rat
import Mathlib.Algebra.Order.Field.Basic
import Mathlib.Algebra.BigOperators.Ring.Finset
import Mathlib.Tactic.Linarith
import Mathlib.Tactic.Ring
/-!
Lp: the mathematical side of C03/C04 – linear programs over `Fin m → Fin n → ℚ`, what the three
verdicts *mean*, and the map from the list data the driver parses to these objects.
-/
namespace Solvor.Lp
open Finset
open Solvor.Gen (Status)

/-- `minimise c·x  s.t.  A x ≤ b, x ≥ 0`. -/
structure LPF (m n : ℕ) where
  A : Fin m → Fin n → ℚ
  b : Fin m → ℚ
  c : Fin n → ℚ

namespace LPF
variable {m n : ℕ} (P : LPF m n)

def Feasible (x : Fin n → ℚ) : Prop := (∀ j, 0 ≤ x j) ∧ ∀ i, ∑ j, P.A i j * x j ≤ P.b i
def obj (x : Fin n → ℚ) : ℚ := ∑ j, P.c j * x j
/-- `x` is a feasible point and no feasible point has a smaller objective. -/
def IsOptimal (x : Fin n → ℚ) : Prop := P.Feasible x ∧ ∀ x', P.Feasible x' → P.obj x ≤ P.obj x'
/-- a finite optimum exists -/
def HasOptimum : Prop := ∃ x, P.IsOptimal x
/-- no feasible point exists -/
def Infeasible : Prop := ∀ x, ¬ P.Feasible x
/-- feasible points of arbitrarily good objective exist -/
def Unbounded : Prop := (∃ x, P.Feasible x) ∧ ∀ M : ℚ, ∃ x, P.Feasible x ∧ P.obj x < M

/-- What a status claims about the problem (`MAX_ITER`/`FEASIBLE` claim nothing that is a verdict). -/
def Verdict : Status → Prop
  | .OPTIMAL => P.HasOptimum
  | .INFEASIBLE => P.Infeasible
  | .UNBOUNDED => P.Unbounded
  | _ => False

/-- feasibility within a tolerance: `x ≥ −tol`, `A x ≤ b + tol` -/
def FeasTol (tol : ℚ) (x : Fin n → ℚ) : Prop := (∀ j, -tol ≤ x j) ∧ ∀ i, ∑ j, P.A i j * x j ≤ P.b i + tol

end LPF

/-- the list problem as a mathematical LP (missing entries read as `0`; the harness only sends
rectangular data, `check_matrix_dims` rejects the rest) -/
def LP.toF (P : LP) : LPF P.m P.n := ⟨fun i j => P.a i j, fun i => vget P.b i, fun j => vget P.c j⟩

def vecF (n : ℕ) (x : Vec) : Fin n → ℚ := fun j => vget x j

end Solvor.Lp
