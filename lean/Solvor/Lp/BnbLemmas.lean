import Solvor.Lp.MilpLemmas
import Solvor.Lp.Bnb
/-! Lp/BnbLemmas: the mirror `Lp.Bnb` refines the abstract branch and bound of `Spec.lean`. -/
namespace Solvor.Lp
open Solvor.Gen (Status)

theorem popMin_spec : ∀ (l : List TNode) (a : TNode) (rest : List TNode), popMin l = some (a, rest) →
    ∃ l₁ l₂, l = l₁ ++ a :: l₂ ∧ rest = l₁ ++ l₂
  | [], a, rest, h => by simp [popMin] at h
  | x :: xs, a, rest, h => by
    unfold popMin at h
    cases hp : popMin xs with
    | none =>
      rw [hp] at h
      simp only [Option.some.injEq, Prod.mk.injEq] at h
      obtain ⟨rfl, rfl⟩ := h
      cases xs with
      | nil => exact ⟨[], [], rfl, rfl⟩
      | cons y ys =>
        exfalso
        unfold popMin at hp
        cases hq : popMin ys with
        | none => rw [hq] at hp; cases hp
        | some q => rw [hq] at hp; simp only [] at hp; split at hp <;> cases hp
    | some q =>
      obtain ⟨m, rest'⟩ := q
      rw [hp] at h
      simp only [] at h
      obtain ⟨l₁, l₂, e1, e2⟩ := popMin_spec xs m rest' hp
      split at h
      · simp only [Option.some.injEq, Prod.mk.injEq] at h
        obtain ⟨rfl, rfl⟩ := h
        exact ⟨[], xs, rfl, rfl⟩
      · simp only [Option.some.injEq, Prod.mk.injEq] at h
        obtain ⟨rfl, rfl⟩ := h
        exact ⟨x :: l₁, l₂, by rw [e1]; rfl, by rw [e2]; rfl⟩

/-- the popped node has the least bound -/
theorem popMin_least : ∀ (l : List TNode) (a : TNode) (rest : List TNode), popMin l = some (a, rest) →
    ∀ t ∈ rest, a.bound ≤ t.bound
  | [], a, rest, h => by simp [popMin] at h
  | x :: xs, a, rest, h => by
    unfold popMin at h
    cases hp : popMin xs with
    | none =>
      rw [hp] at h
      simp only [Option.some.injEq, Prod.mk.injEq] at h
      obtain ⟨rfl, rfl⟩ := h
      intro t ht; cases ht
    | some q =>
      obtain ⟨m, rest'⟩ := q
      rw [hp] at h
      simp only [] at h
      have ih := popMin_least xs m rest' hp
      obtain ⟨l₁, l₂, e1, e2⟩ := popMin_spec xs m rest' hp
      have hle : ∀ u v : TNode, u.le v = true → u.bound ≤ v.bound := by
        intro u v huv
        unfold TNode.le at huv
        rw [Bool.or_eq_true, Bool.and_eq_true, decide_eq_true_eq] at huv
        rcases huv with h1 | ⟨h1, _⟩
        · exact h1.le
        · exact le_of_eq (by simpa using h1)
      have hnle : ∀ u v : TNode, ¬ u.le v = true → v.bound ≤ u.bound := by
        intro u v huv
        unfold TNode.le at huv
        rw [Bool.or_eq_true, decide_eq_true_eq] at huv
        exact not_lt.mp fun hlt => huv (Or.inl hlt)
      split at h
      · rename_i hxm
        simp only [Option.some.injEq, Prod.mk.injEq] at h
        obtain ⟨rfl, rfl⟩ := h
        intro t ht
        have hxm' := hle _ _ hxm
        rw [e1] at ht
        rcases List.mem_append.mp ht with h1 | h1
        · exact le_trans hxm' (ih t (by rw [e2]; exact List.mem_append_left _ h1))
        · rcases List.mem_cons.mp h1 with rfl | h2
          · exact hxm'
          · exact le_trans hxm' (ih t (by rw [e2]; exact List.mem_append_right _ h2))
      · rename_i hxm
        simp only [Option.some.injEq, Prod.mk.injEq] at h
        obtain ⟨rfl, rfl⟩ := h
        intro t ht
        rcases List.mem_cons.mp ht with rfl | h2
        · exact hnle _ _ hxm
        · exact ih t h2

theorem integralStep_cont (M : MilpIn) (cfg : MilpCfg) (s1 s' : TState) (node : TNode) (r : NodeRes)
    (h : integralStep M cfg s1 node r = .cont s') :
    s'.tree = s1.tree ∧ s'.best = offerBest M.sign s1.best r.sol r.obj ∧ s'.ok = s1.ok := by
  unfold integralStep at h
  simp only [] at h
  split at h
  · cases h
  · split at h
    · split at h
      · cases h
      · cases h; exact ⟨rfl, rfl, rfl⟩
    · cases h; exact ⟨rfl, rfl, rfl⟩

theorem integralStep_done (M : MilpIn) (cfg : MilpCfg) (s1 : TState) (o : MilpOut) (node : TNode) (r : NodeRes)
    (h : integralStep M cfg s1 node r = .done o) :
    o.ok = s1.ok ∧ (o.status = .FEASIBLE ∨
      (o.status = .OPTIMAL ∧ o.x = some r.sol ∧ o.objective = some r.obj ∧
        improvesBest M.sign s1.best r.obj = true ∧
        computeGap r.obj (gapArg M.sign node.bound) < cfg.gapTol)) := by
  unfold integralStep at h
  simp only [] at h
  split at h
  · cases h; exact ⟨rfl, Or.inl rfl⟩
  · split at h
    · rename_i himp
      split at h
      · rename_i hgap
        cases h
        rw [Bool.and_eq_true, decide_eq_true_eq] at hgap
        exact ⟨rfl, Or.inr ⟨rfl, rfl, rfl, himp, hgap.1⟩⟩
      · cases h
    · cases h

theorem bnbIter_done (M : MilpIn) (cfg : MilpCfg) (s : TState) (o : MilpOut) (node : TNode) (rest : List TNode)
    (hpop : popMin s.tree = some (node, rest)) (h : bnbIter M cfg s = .done o) :
    prunedBy M.sign cfg.eps s.best node.bound = false ∧
    nodeAct M cfg.eps s.best (solveNode M cfg.eps cfg.maxIter node.lower node.upper) = .integral ∧
    o.ok = (s.ok && nodeCheck M cfg.eps node.lower node.upper
      (solveNode M cfg.eps cfg.maxIter node.lower node.upper)) ∧
    (o.status = .FEASIBLE ∨
      (o.status = .OPTIMAL ∧ o.x = some (solveNode M cfg.eps cfg.maxIter node.lower node.upper).sol ∧
        o.objective = some (solveNode M cfg.eps cfg.maxIter node.lower node.upper).obj ∧
        improvesBest M.sign s.best (solveNode M cfg.eps cfg.maxIter node.lower node.upper).obj = true ∧
        computeGap (solveNode M cfg.eps cfg.maxIter node.lower node.upper).obj (gapArg M.sign node.bound)
          < cfg.gapTol)) := by
  unfold bnbIter at h
  rw [hpop] at h
  simp only [] at h
  generalize solveNode M cfg.eps cfg.maxIter node.lower node.upper = r at h ⊢
  cases hpr : prunedBy M.sign cfg.eps s.best node.bound with
  | true => rw [hpr] at h; simp only [if_true] at h; cases h
  | false =>
    rw [hpr] at h
    simp only [Bool.false_eq_true, if_false] at h
    refine ⟨rfl, ?_⟩
    cases ha : nodeAct M cfg.eps s.best r with
    | drop => rw [ha] at h; cases h
    | boundDrop => rw [ha] at h; cases h
    | branch j => rw [ha] at h; cases h
    | integral =>
      rw [ha] at h
      simp only [] at h
      obtain ⟨h1, h2⟩ := integralStep_done M cfg _ o node r h
      exact ⟨rfl, h1, h2⟩

/-- what one continuing pass of the loop does to the tree, the incumbent and the `ok` monitor -/
theorem bnbIter_cont (M : MilpIn) (cfg : MilpCfg) (s s' : TState) (node : TNode) (rest : List TNode)
    (hpop : popMin s.tree = some (node, rest)) (h : bnbIter M cfg s = .cont s') :
    (prunedBy M.sign cfg.eps s.best node.bound = true ∧ s'.tree = rest ∧ s'.best = s.best ∧ s'.ok = s.ok) ∨
    (prunedBy M.sign cfg.eps s.best node.bound = false ∧
     s'.ok = (s.ok && nodeCheck M cfg.eps node.lower node.upper
        (solveNode M cfg.eps cfg.maxIter node.lower node.upper)) ∧
     ((nodeAct M cfg.eps s.best (solveNode M cfg.eps cfg.maxIter node.lower node.upper) = .drop ∧
        s'.tree = rest ∧ s'.best = s.best) ∨
      (nodeAct M cfg.eps s.best (solveNode M cfg.eps cfg.maxIter node.lower node.upper) = .boundDrop ∧
        s'.tree = rest ∧ s'.best = s.best) ∨
      (nodeAct M cfg.eps s.best (solveNode M cfg.eps cfg.maxIter node.lower node.upper) = .integral ∧
        s'.tree = rest ∧
        s'.best = offerBest M.sign s.best (solveNode M cfg.eps cfg.maxIter node.lower node.upper).sol
          (solveNode M cfg.eps cfg.maxIter node.lower node.upper).obj) ∨
      (∃ j, nodeAct M cfg.eps s.best (solveNode M cfg.eps cfg.maxIter node.lower node.upper) = .branch j ∧
          s'.best = s.best ∧
          s'.tree =
            ⟨M.sign * (solveNode M cfg.eps cfg.maxIter node.lower node.upper).obj, s.counter, node.lower,
              node.upper.set j (some (((vget (solveNode M cfg.eps cfg.maxIter node.lower node.upper).sol j).floor : ℤ) : ℚ)),
              node.counter⟩ ::
            ⟨M.sign * (solveNode M cfg.eps cfg.maxIter node.lower node.upper).obj, s.counter + 1,
              node.lower.set j (((vget (solveNode M cfg.eps cfg.maxIter node.lower node.upper).sol j).ceil : ℤ) : ℚ),
              node.upper, node.counter⟩ :: rest))) := by
  unfold bnbIter at h
  rw [hpop] at h
  simp only [] at h
  generalize solveNode M cfg.eps cfg.maxIter node.lower node.upper = r at h ⊢
  cases hpr : prunedBy M.sign cfg.eps s.best node.bound with
  | true =>
    rw [hpr] at h
    simp only [if_true] at h
    cases h
    exact Or.inl ⟨rfl, rfl, rfl, rfl⟩
  | false =>
    rw [hpr] at h
    simp only [Bool.false_eq_true, if_false] at h
    right
    refine ⟨rfl, ?_⟩
    cases ha : nodeAct M cfg.eps s.best r with
    | drop => rw [ha] at h; cases h; exact ⟨rfl, Or.inl ⟨rfl, rfl, rfl⟩⟩
    | boundDrop => rw [ha] at h; cases h; exact ⟨rfl, Or.inr (Or.inl ⟨rfl, rfl, rfl⟩)⟩
    | branch j => rw [ha] at h; cases h; exact ⟨rfl, Or.inr (Or.inr (Or.inr ⟨j, rfl, rfl, rfl⟩))⟩
    | integral =>
      rw [ha] at h
      simp only [] at h
      obtain ⟨h1, h2, h3⟩ := integralStep_cont M cfg _ s' node r h
      exact ⟨h3, Or.inr (Or.inr (Or.inl ⟨rfl, h1, h2⟩))⟩

/-! ### the abstraction -/

/-- membership of a point in a node's box (`none` = no upper bound) -/
def boxMem (n : ℕ) (lower : List ℚ) (upper : List (Option ℚ)) (y : Vec) : Prop :=
  ∀ j < n, lower.getD j 0 ≤ vget y j ∧ ∀ h, upper.getD j none = some h → vget y j ≤ h

/-- the integer-feasible points the verdicts of `solve_milp` quantify over -/
def MFeas (M : MilpIn) (y : Vec) : Prop := M.P.toF.MilpFeasible (intSet M.P.n M.ints) (vecF M.P.n y)
/-- the filter every incumbent passes (`_is_feasible`) -/
def MAcc (M : MilpIn) (eps : ℚ) (x : Vec) : Prop := x.length = M.n ∧ isFeasible M.U M.ints eps x = true
/-- the objective, multiplied by `sign` -/
def mobj (M : MilpIn) (y : Vec) : ℚ := M.P.objAt y

def absNode (M : MilpIn) (t : TNode) : BNode Vec := ⟨boxMem M.P.n t.lower t.upper, t.bound⟩
def absState (M : MilpIn) (s : TState) : BState Vec :=
  ⟨s.best.map fun p => (p.1, M.sign * p.2), s.tree.map (absNode M)⟩

/-- what branch and bound needs from the answer `r` of the node oracle on the box `(lower, upper)` -/
structure NodeOK (M : MilpIn) (eps : ℚ) (lower : List ℚ) (upper : List (Option ℚ)) (r : NodeRes) : Prop where
  infeas : r.status ≠ .OPTIMAL → ∀ y, MFeas M y → ¬ boxMem M.P.n lower upper y
  bound : r.status = .OPTIMAL → ∀ y, MFeas M y → boxMem M.P.n lower upper y → M.sign * r.obj ≤ mobj M y
  objv : r.status = .OPTIMAL → mobj M r.sol = M.sign * r.obj
  acc : r.status = .OPTIMAL → mostFractional r.sol M.ints eps = none → MAcc M eps r.sol
  inbox : r.status = .OPTIMAL → ∀ j ∈ M.ints,
    lower.getD j 0 ≤ vget r.sol j ∧ ∀ h, upper.getD j none = some h → vget r.sol j ≤ h

theorem foldl_mf_mem (x : Vec) (eps : ℚ) (S : List ℕ) : ∀ (l : List ℕ) (st : Option ℕ × ℚ),
    (∀ j, st.1 = some j → j ∈ S) → (∀ j ∈ l, j ∈ S) →
    ∀ j, (l.foldl (fun (st : Option ℕ × ℚ) j =>
      let frac := roundDist (vget x j)
      if frac > eps ∧ frac > st.2 then (some j, frac) else st) st).1 = some j → j ∈ S
  | [], st, hst, _, j, h => hst j h
  | a :: l, st, hst, hl, j, h => by
    rw [List.foldl_cons] at h
    refine foldl_mf_mem x eps S l _ ?_ (fun k hk => hl k (List.mem_cons_of_mem _ hk)) j h
    intro k hk
    simp only [] at hk
    split at hk
    · simp only [Option.some.injEq] at hk
      rw [← hk]; exact hl a List.mem_cons_self
    · exact hst k hk

theorem mostFractional_mem {x : Vec} {ints : List ℕ} {eps : ℚ} {j : ℕ}
    (h : mostFractional x ints eps = some j) : j ∈ ints :=
  foldl_mf_mem x eps ints ints (none, 0) (fun _ h => by cases h) (fun _ h => h) j h

theorem getD_set_opt (l : List (Option ℚ)) (j k : ℕ) (v : Option ℚ) (hj : j < l.length) :
    (l.set j v).getD k none = if k = j then v else l.getD k none := by
  rw [List.getD_eq_getElem?_getD, List.getElem?_set, List.getD_eq_getElem?_getD]
  by_cases hk : k = j
  · rw [if_pos hk.symm, if_pos hj, if_pos hk]; rfl
  · rw [if_neg (fun e => hk e.symm), if_neg hk]

theorem getD_set_rat (l : List ℚ) (j k : ℕ) (v : ℚ) (hj : j < l.length) :
    (l.set j v).getD k 0 = if k = j then v else l.getD k 0 := by
  rw [List.getD_eq_getElem?_getD, List.getElem?_set, List.getD_eq_getElem?_getD]
  by_cases hk : k = j
  · rw [if_pos hk.symm, if_pos hj, if_pos hk]; rfl
  · rw [if_neg (fun e => hk e.symm), if_neg hk]

/-- floor/ceil children of a box cover its points with an integral `j`-th coordinate and are sub-boxes
when the branching value lies in the box -/
theorem box_branch (n : ℕ) (lower : List ℚ) (upper : List (Option ℚ)) (j : ℕ) (v : ℚ)
    (hl : lower.length = n) (hu : upper.length = n) (hj : j < n)
    (hlo : lower.getD j 0 ≤ v) (hhi : ∀ h, upper.getD j none = some h → v ≤ h) :
    (∀ y, (∃ z : ℤ, vget y j = z) → boxMem n lower upper y →
      boxMem n lower (upper.set j (some ((v.floor : ℤ) : ℚ))) y ∨
      boxMem n (lower.set j ((v.ceil : ℤ) : ℚ)) upper y) ∧
    (∀ y, boxMem n lower (upper.set j (some ((v.floor : ℤ) : ℚ))) y → boxMem n lower upper y) ∧
    (∀ y, boxMem n (lower.set j ((v.ceil : ℤ) : ℚ)) upper y → boxMem n lower upper y) := by
  have hfl : ((v.floor : ℤ) : ℚ) ≤ v := Rat.floor_le v
  have hce : v ≤ ((v.ceil : ℤ) : ℚ) := Rat.ceil_le_iff.mp (le_refl _)
  refine ⟨?_, ?_, ?_⟩
  · rintro y ⟨z, hz⟩ hy
    by_cases hzv : (z : ℚ) ≤ v
    · left
      intro k hk
      refine ⟨(hy k hk).1, fun h hh => ?_⟩
      rw [getD_set_opt _ _ _ _ (by omega)] at hh
      by_cases hkj : k = j
      · rw [if_pos hkj] at hh
        simp only [Option.some.injEq] at hh
        rw [hkj, hz, ← hh]
        exact_mod_cast Rat.le_floor_iff.mpr hzv
      · rw [if_neg hkj] at hh
        exact (hy k hk).2 h hh
    · right
      intro k hk
      refine ⟨?_, (hy k hk).2⟩
      rw [getD_set_rat _ _ _ _ (by omega)]
      by_cases hkj : k = j
      · rw [if_pos hkj, hkj, hz]
        exact_mod_cast Rat.ceil_le_iff.mpr (not_le.mp hzv).le
      · rw [if_neg hkj]; exact (hy k hk).1
  · intro y hy k hk
    refine ⟨(hy k hk).1, fun h hh => ?_⟩
    by_cases hkj : k = j
    · have := (hy k hk).2 ((v.floor : ℤ) : ℚ) (by rw [getD_set_opt _ _ _ _ (by omega), if_pos hkj])
      rw [hkj] at hh
      exact le_trans this (le_trans hfl (hhi h hh))
    · exact (hy k hk).2 h (by rw [getD_set_opt _ _ _ _ (by omega), if_neg hkj]; exact hh)
  · intro y hy k hk
    refine ⟨?_, (hy k hk).2⟩
    have := (hy k hk).1
    rw [getD_set_rat _ _ _ _ (by omega)] at this
    by_cases hkj : k = j
    · rw [if_pos hkj] at this
      subst hkj; exact le_trans hlo (le_trans hce this)
    · rw [if_neg hkj] at this; exact this

/-- all nodes of the tree have bound vectors of length `n` -/
def TWF (M : MilpIn) (s : TState) : Prop := ∀ t ∈ s.tree, t.lower.length = M.P.n ∧ t.upper.length = M.P.n

theorem prunedBy_true {sign eps : ℚ} {best : Option (Vec × ℚ)} {bound : ℚ}
    (h : prunedBy sign eps best bound = true) : ∃ x bo, best = some (x, bo) ∧ sign * bo - eps ≤ bound := by
  unfold prunedBy at h
  cases best with
  | none => cases h
  | some p => obtain ⟨x, bo⟩ := p; exact ⟨x, bo, rfl, by simpa using h⟩

theorem offer_abs (sign : ℚ) (best : Option (Vec × ℚ)) (sol : Vec) (obj : ℚ) :
    (offerBest sign best sol obj).map (fun p => (p.1, sign * p.2)) =
      BState.offer (best.map fun p => (p.1, sign * p.2)) sol (sign * obj) := by
  unfold offerBest BState.offer
  cases best with
  | none => rfl
  | some p =>
    obtain ⟨x, bo⟩ := p
    simp only [Option.map_some]
    split <;> rfl

/-- **refinement**: a continuing pass of the mirror's loop is one step of the abstract branch and
bound, provided the node oracle's answer on the popped node is what branch and bound needs
(`NodeOK`; decided per input by `nodeCheck`). -/
theorem bnbIter_refines (M : MilpIn) (cfg : MilpCfg) (s s' : TState) (node : TNode) (rest : List TNode)
    (hints : ∀ j ∈ M.ints, j < M.P.n) (hwf : TWF M s)
    (hpop : popMin s.tree = some (node, rest)) (h : bnbIter M cfg s = .cont s')
    (hok : prunedBy M.sign cfg.eps s.best node.bound = false →
      NodeOK M cfg.eps node.lower node.upper (solveNode M cfg.eps cfg.maxIter node.lower node.upper)) :
    BStep (MFeas M) (MAcc M cfg.eps) (mobj M) cfg.eps (absState M s) (absState M s') ∧ TWF M s' := by
  obtain ⟨l₁, l₂, e1, e2⟩ := popMin_spec _ _ _ hpop
  have hnode : node ∈ s.tree := by rw [e1]; exact List.mem_append_right _ List.mem_cons_self
  have hrest : ∀ t ∈ rest, t ∈ s.tree := by
    intro t ht; rw [e2] at ht; rw [e1]
    rcases List.mem_append.mp ht with h1 | h1
    · exact List.mem_append_left _ h1
    · exact List.mem_append_right _ (List.mem_cons_of_mem _ h1)
  have absS : absState M s = ⟨s.best.map fun p => (p.1, M.sign * p.2),
      l₁.map (absNode M) ++ absNode M node :: l₂.map (absNode M)⟩ := by
    unfold absState; rw [e1, List.map_append, List.map_cons]
  have absRest : rest.map (absNode M) = l₁.map (absNode M) ++ l₂.map (absNode M) := by
    rw [e2, List.map_append]
  have wfRest : ∀ (st : TState), st.tree = rest → TWF M st := fun st hst t ht => hwf t (hrest t (hst ▸ ht))
  rcases bnbIter_cont M cfg s s' node rest hpop h with ⟨hpr, ht, hb, _⟩ | ⟨hpr, _, hcases⟩
  · -- prune
    obtain ⟨x, bo, hbest, hle⟩ := prunedBy_true hpr
    refine ⟨?_, wfRest s' ht⟩
    have : absState M s' = ⟨some (x, M.sign * bo), l₁.map (absNode M) ++ l₂.map (absNode M)⟩ := by
      unfold absState; rw [ht, hb, hbest, absRest]; rfl
    rw [absS, this, hbest]
    exact BStep.prune x (M.sign * bo) _ (absNode M node) _ hle
  · have hN := hok hpr
    generalize solveNode M cfg.eps cfg.maxIter node.lower node.upper = r at hN hcases
    rcases hcases with ⟨ha, ht, hb⟩ | ⟨ha, ht, hb⟩ | ⟨ha, ht, hb⟩ | ⟨j, ha, hb, ht⟩
    · -- node LP not OPTIMAL
      have hst : r.status ≠ .OPTIMAL := by
        unfold nodeAct at ha
        split at ha
        · rename_i hs; simpa using hs
        · split at ha
          · cases ha
          · split at ha <;> cases ha
      refine ⟨?_, wfRest s' ht⟩
      have : absState M s' = ⟨s.best.map fun p => (p.1, M.sign * p.2),
          l₁.map (absNode M) ++ l₂.map (absNode M)⟩ := by
        unfold absState; rw [ht, hb, absRest]
      rw [absS, this]
      exact BStep.infeasible _ _ (absNode M node) _ (hN.infeas hst)
    · -- bound drop
      have hst : r.status = .OPTIMAL ∧ prunedBy M.sign cfg.eps s.best (M.sign * r.obj) = true := by
        unfold nodeAct at ha
        split at ha
        · cases ha
        · rename_i hs
          split at ha
          · rename_i hp; exact ⟨by simpa using hs, hp⟩
          · split at ha <;> cases ha
      obtain ⟨x, bo, hbest, hle⟩ := prunedBy_true hst.2
      refine ⟨?_, wfRest s' ht⟩
      have : absState M s' = ⟨some (x, M.sign * bo), l₁.map (absNode M) ++ l₂.map (absNode M)⟩ := by
        unfold absState; rw [ht, hb, hbest, absRest]; rfl
      rw [absS, this, hbest]
      exact BStep.boundDrop x (M.sign * bo) _ (absNode M node) _ (M.sign * r.obj) (hN.bound hst.1) hle
    · -- integral
      have hst : r.status = .OPTIMAL ∧ mostFractional r.sol M.ints cfg.eps = none := by
        unfold nodeAct at ha
        split at ha
        · cases ha
        · rename_i hs
          split at ha
          · cases ha
          · split at ha
            · rename_i hm; exact ⟨by simpa using hs, hm⟩
            · cases ha
      refine ⟨?_, wfRest s' ht⟩
      have : absState M s' = ⟨BState.offer (s.best.map fun p => (p.1, M.sign * p.2)) r.sol (M.sign * r.obj),
          l₁.map (absNode M) ++ l₂.map (absNode M)⟩ := by
        unfold absState; rw [ht, hb, absRest, offer_abs]
      rw [absS, this]
      exact BStep.integral _ _ (absNode M node) _ r.sol (M.sign * r.obj) (hN.bound hst.1)
        (hN.acc hst.1 hst.2) (hN.objv hst.1)
    · -- branch
      have hst : r.status = .OPTIMAL ∧ mostFractional r.sol M.ints cfg.eps = some j := by
        unfold nodeAct at ha
        split at ha
        · cases ha
        · rename_i hs
          split at ha
          · cases ha
          · split at ha
            · cases ha
            · rename_i j' hm
              simp only [Act.branch.injEq] at ha
              rw [ha] at hm
              exact ⟨by simpa using hs, hm⟩
      have hjm : j ∈ M.ints := mostFractional_mem hst.2
      have hjn : j < M.P.n := hints j hjm
      obtain ⟨hll, hul⟩ := hwf node hnode
      obtain ⟨hib1, hib2⟩ := hN.inbox hst.1 j hjm
      obtain ⟨hcov, hLN, hRN⟩ := box_branch M.P.n node.lower node.upper j (vget r.sol j) hll hul hjn hib1 hib2
      constructor
      · have : absState M s' = ⟨s.best.map fun p => (p.1, M.sign * p.2),
            absNode M ⟨M.sign * r.obj, s.counter, node.lower,
              node.upper.set j (some (((vget r.sol j).floor : ℤ) : ℚ)), node.counter⟩ ::
            absNode M ⟨M.sign * r.obj, s.counter + 1, node.lower.set j (((vget r.sol j).ceil : ℤ) : ℚ),
              node.upper, node.counter⟩ :: (l₁.map (absNode M) ++ l₂.map (absNode M))⟩ := by
          unfold absState; rw [ht, hb, List.map_cons, List.map_cons, absRest]
        rw [absS, this]
        refine BStep.branch _ _ (absNode M node) _ _ _ (M.sign * r.obj) (hN.bound hst.1) ?_ hLN hRN rfl rfl
        intro y hy hbox
        refine hcov y ?_ hbox
        obtain ⟨z, hz⟩ := hy.2 ⟨j, hjn⟩ hjm
        exact ⟨z, hz⟩
      · intro t htm
        rw [ht] at htm
        rcases List.mem_cons.mp htm with rfl | htm
        · exact ⟨hll, by simp [hul]⟩
        · rcases List.mem_cons.mp htm with rfl | htm
          · exact ⟨by simp [hll], hul⟩
          · exact hwf t (hrest t htm)

/-! ### `nodeCheck` decides `NodeOK` -/

theorem boxPairs_forall (n : ℕ) (lower : List ℚ) (upper : List (Option ℚ)) (x : ℕ → ℚ) :
    (∀ p ∈ boxPairs n lower upper, rowLe n x p) ↔
      ∀ j < n, lower.getD j 0 ≤ x j ∧ ∀ h, upper.getD j none = some h → x j ≤ h := by
  unfold boxPairs
  constructor
  · intro hp j hj
    constructor
    · have := hp (negV (unitV n j), -(lower.getD j 0)) (by
        rw [List.mem_flatMap]; exact ⟨j, List.mem_range.mpr hj, List.mem_cons_self⟩)
      exact (rowLe_negUnit n j hj x _).mp this
    · intro h hh
      have := hp (unitV n j, h) (by
        rw [List.mem_flatMap]
        refine ⟨j, List.mem_range.mpr hj, List.mem_cons_of_mem _ ?_⟩
        rw [hh]; exact List.mem_singleton.mpr rfl)
      exact (rowLe_unit n j hj x h).mp this
  · intro hb p hp
    rw [List.mem_flatMap] at hp
    obtain ⟨j, hj, hpj⟩ := hp
    rw [List.mem_range] at hj
    rcases List.mem_cons.mp hpj with rfl | hpj
    · exact (rowLe_negUnit n j hj x _).mpr (hb j hj).1
    · cases hu : upper.getD j none with
      | none => rw [hu] at hpj; cases hpj
      | some h =>
        rw [hu] at hpj
        rw [List.mem_singleton.mp hpj]
        exact (rowLe_unit n j hj x h).mpr ((hb j hj).2 h hu)

theorem feasible_box_iff (P : LP) (hwf : P.A.length = P.b.length) (lower : List ℚ)
    (upper : List (Option ℚ)) (x : Fin P.n → ℚ) :
    (P.box lower upper).toF.Feasible x ↔
      P.toF.Feasible x ∧ ∀ j < P.n, lower.getD j 0 ≤ extN x j ∧ ∀ h, upper.getD j none = some h → extN x j ≤ h := by
  rw [feasible_iff_feasN P x, ← boxPairs_forall P.n lower upper (extN x), ← feasN_append P _ hwf (extN x)]
  exact feasible_iff_feasN (P.box lower upper) x

theorem extN_vecF (n : ℕ) (y : Vec) {j : ℕ} (hj : j < n) : extN (vecF n y) j = vget y j := by
  unfold extN; rw [dif_pos hj]; rfl

end Solvor.Lp
